(* Lemmas about the shared helpers of Prelude.v (proofs only, not extracted). *)
From EG Require Import Base.Prelude.
From Coq Require Import ZifyBool Sorting.Sorted.

Ltac Zify.zify_post_hook ::= Z.to_euclidean_division_equations.

Lemma range_nil a b : b <= a -> range a b = [].
Proof. intros. unfold range. replace (Z.to_nat (b-a)) with O by lia. reflexivity. Qed.

Lemma range_cons a b : a < b -> range a b = a :: range (a+1) b.
Proof.
  intros. unfold range.
  replace (Z.to_nat (b-a)) with (S (Z.to_nat (b-(a+1)))) by lia. reflexivity.
Qed.

Lemma In_range_from a n x : In x (range_from a n) <-> a <= x < a + Z.of_nat n.
Proof.
  revert a; induction n as [|n IH]; intros a; cbn [range_from In].
  - lia.
  - rewrite IH. lia.
Qed.

Lemma In_range a b x : In x (range a b) <-> a <= x < b.
Proof. unfold range. rewrite In_range_from. lia. Qed.

Lemma length_range_from a n : length (range_from a n) = n.
Proof. revert a; induction n as [|n IH]; intros a; cbn [range_from length]; auto. Qed.

Lemma length_range a b : Z.of_nat (length (range a b)) = Z.max 0 (b - a).
Proof. unfold range. rewrite length_range_from. lia. Qed.

Lemma range_app a m b : a <= m <= b -> range a b = range a m ++ range m b.
Proof.
  intros H. unfold range at 2. remember (Z.to_nat (m-a)) as n eqn:E. revert a E H.
  induction n as [|n IH]; intros a E H.
  - assert (a = m) by lia. subst. reflexivity.
  - rewrite range_cons by lia. cbn [range_from app]. f_equal. apply IH; lia.
Qed.

Lemma NoDup_range_from a n : NoDup (range_from a n).
Proof.
  revert a; induction n as [|n IH]; intros a; cbn [range_from]; constructor; auto.
  rewrite In_range_from. lia.
Qed.

Lemma NoDup_range a b : NoDup (range a b).
Proof. apply NoDup_range_from. Qed.

Lemma range_from_sorted a n : StronglySorted Z.lt (range_from a n).
Proof.
  revert a; induction n as [|n IH]; intros a; cbn [range_from]; constructor; auto.
  apply Forall_forall. intros x Hx. apply In_range_from in Hx. lia.
Qed.

Lemma range_sorted a b : StronglySorted Z.lt (range a b).
Proof. apply range_from_sorted. Qed.

Lemma nth_range_from a n i d : (i < n)%nat -> nth i (range_from a n) d = a + Z.of_nat i.
Proof.
  revert a i; induction n as [|n IH]; intros a i Hi; [lia|].
  destruct i as [|i]; cbn [range_from nth]; [lia|]. rewrite IH by lia. lia.
Qed.

Lemma filter_all_false {A} (P : A -> bool) l :
  (forall x, In x l -> P x = false) -> filter P l = [].
Proof.
  induction l as [|x l IH]; cbn [filter]; intros H; [reflexivity|].
  rewrite (H x) by (left; reflexivity). apply IH. intros; apply H; right; assumption.
Qed.

Lemma filter_all_true {A} (P : A -> bool) l :
  (forall x, In x l -> P x = true) -> filter P l = l.
Proof.
  induction l as [|x l IH]; cbn [filter]; intros H; [reflexivity|].
  rewrite (H x) by (left; reflexivity). f_equal. apply IH. intros; apply H; right; assumption.
Qed.

Lemma find_range_spec (P : Z -> bool) a b :
  match find P (range a b) with
  | Some x => a <= x < b /\ P x = true /\ (forall y, a <= y < x -> P y = false)
  | None => forall y, a <= y < b -> P y = false
  end.
Proof.
  unfold range. remember (Z.to_nat (b-a)) as n eqn:E. revert a E.
  induction n as [|n IH]; intros a E; cbn [range_from find].
  - intros; lia.
  - destruct (P a) eqn:Pa.
    + repeat split; try lia. assumption.
    + specialize (IH (a+1) ltac:(lia)). destruct (find P (range_from (a+1) n)) as [x|].
      * destruct IH as (H1 & H2 & H3). repeat split; try lia; auto.
        intros y Hy. destruct (Z.eq_dec y a); [subst; assumption| apply H3; lia].
      * intros y Hy. destruct (Z.eq_dec y a); [subst; assumption| apply IH; lia].
Qed.

Lemma in_zip_l {A B} (l1 : list A) (l2 : list B) x y : In (x, y) (zip l1 l2) -> In x l1.
Proof.
  revert l2; induction l1 as [|a l1 IH]; intros [|b l2]; cbn [zip In]; try tauto.
  intros [H|H]; [left; congruence | right; eauto].
Qed.

Lemma zip_map_fst {A B} (l1 : list A) (l2 : list B) :
  (length l1 <= length l2)%nat -> map fst (zip l1 l2) = l1.
Proof.
  revert l2; induction l1 as [|a l1 IH]; intros [|b l2]; cbn [zip map length fst]; try lia; auto.
  intros H. f_equal. apply IH. lia.
Qed.

Lemma length_zip {A B} (l1 : list A) (l2 : list B) :
  length (zip l1 l2) = Nat.min (length l1) (length l2).
Proof.
  revert l2; induction l1 as [|a l1 IH]; intros [|b l2]; cbn [zip length]; auto.
  rewrite IH. reflexivity.
Qed.
