(* Shared definitions: integer helpers that mirror Rust's saturating / truncating
   operations, integer ranges as lists, and the arithmetic tactic set-up.
   Definitions only need stdlib; this file is extracted. *)
From Coq Require Export ZArith List Bool Lia.
Export ListNotations.
Open Scope Z_scope.

(* ---- machine ranges ---------------------------------------------------- *)
Definition i32_max : Z := 2147483647.
Definition i32_min : Z := -2147483648.
Definition u32_max : Z := 4294967295.

Definition in_i32 (x : Z) : bool := (i32_min <=? x) && (x <=? i32_max).
Definition in_u32 (x : Z) : bool := (0 <=? x) && (x <=? u32_max).

(* u32::saturating_add / saturating_sub, i32::saturating_add, az::SaturatingAs u32 -> i32 *)
Definition sat_add_u32 (a b : Z) : Z := Z.min (a + b) u32_max.
Definition sat_sub_u32 (a b : Z) : Z := Z.max (a - b) 0.
Definition sat_add_i32 (a b : Z) : Z := Z.max i32_min (Z.min (a + b) i32_max).
Definition sat_u32_to_i32 (a : Z) : Z := Z.min a i32_max.
(* az::SaturatingAs i32 -> u32 *)
Definition sat_i32_to_u32 (a : Z) : Z := Z.max a 0.

(* ---- integer ranges a..b as lists -------------------------------------- *)
Fixpoint range_from (a : Z) (n : nat) : list Z :=
  match n with O => [] | S k => a :: range_from (a + 1) k end.
Definition range (a b : Z) : list Z := range_from a (Z.to_nat (b - a)).

(* ---- small list helpers used by several models ------------------------- *)
Fixpoint last_opt {A} (l : list A) : option A :=
  match l with [] => None | [x] => Some x | _ :: t => last_opt t end.

Fixpoint take_while {A} (f : A -> bool) (l : list A) : list A :=
  match l with [] => [] | x :: t => if f x then x :: take_while f t else [] end.

Fixpoint zip {A B} (l1 : list A) (l2 : list B) : list (A * B) :=
  match l1, l2 with
  | x :: t1, y :: t2 => (x, y) :: zip t1 t2
  | _, _ => []
  end.
