(* Model of src/primitives/common/{scanline,styled_scanline}.rs (the parts closed shapes use) and of
   src/primitives/circle/{mod,points,styled}.rs.  Definitions only (extracted and run against the code).
   Iterators are the total lists a `for` loop sees; a draw() is the list of fill_solid calls it issues. *)
From EG Require Import Base.Prelude Model.Geometry Model.Style.

(* ---- common/scanline.rs ---------------------------------------------------------------- *)
(* scanline.rs:11-14: y and the half-open column range x0..x1 *)
Record scanline := SL { sl_y : Z; sl_x0 : Z; sl_x1 : Z }.

(* scanline.rs:28 (Range::is_empty: !(start < end)) *)
Definition scanline_is_empty (s : scanline) : bool := negb (sl_x0 s <? sl_x1 s).

(* scanline.rs:157-163 Iterator for Scanline: the points it yields *)
Definition scanline_points (s : scanline) : list point :=
  map (fun x => P x (sl_y s)) (range (sl_x0 s) (sl_x1 s)).

(* one fill_solid call: area and colour tag *)
Definition fill_call : Type := rect * Z.

(* scanline.rs:139-154 Scanline::draw *)
Definition scanline_draw (s : scanline) (c : Z) : list fill_call :=
  if scanline_is_empty s then []
  else [(R (P (sl_x0 s) (sl_y s)) (S (sl_x1 s - sl_x0 s) 1), c)].

(* ---- common/styled_scanline.rs --------------------------------------------------------- *)
Record styled_scanline := SSL { ss_y : Z; ss_s0 : Z; ss_s1 : Z; ss_f0 : Z; ss_f1 : Z }.

(* styled_scanline.rs:16-24: a missing fill range becomes the empty range at the stroke range's end *)
Definition styled_scanline_new (y s0 s1 : Z) (fill : option (Z * Z)) : styled_scanline :=
  match fill with
  | Some (f0, f1) => SSL y s0 s1 f0 f1
  | None => SSL y s0 s1 s1 s1
  end.

(* styled_scanline.rs:29-43 *)
Definition stroke_left (s : styled_scanline) : scanline := SL (ss_y s) (ss_s0 s) (ss_f0 s).
Definition stroke_right (s : styled_scanline) : scanline := SL (ss_y s) (ss_f1 s) (ss_s1 s).
Definition fill_part (s : styled_scanline) : scanline := SL (ss_y s) (ss_f0 s) (ss_f1 s).

(* styled_scanline.rs:46-53 *)
Definition draw_stroke (s : styled_scanline) (sc : Z) : list fill_call :=
  scanline_draw (stroke_left s) sc ++ scanline_draw (stroke_right s) sc.

(* styled_scanline.rs:56-65 *)
Definition draw_stroke_and_fill (s : styled_scanline) (sc fc : Z) : list fill_call :=
  scanline_draw (stroke_left s) sc ++ scanline_draw (fill_part s) fc ++ scanline_draw (stroke_right s) sc.

(* ---- the scanline search shared (as a code shape) by circle/points.rs:61-78, ellipse/points.rs:61-88
        and the fill search in {circle,ellipse}/styled.rs StyledScanlines::next --------------------- *)
(* `columns.clone().find(pred).map(|x| x..columns.end - (x - columns.start))` *)
Definition first_hit (pred : Z -> bool) (x0 x1 : Z) : option (Z * Z) :=
  match find pred (range x0 x1) with
  | Some x => Some (x, x1 - (x - x0))
  | None => None
  end.

(* The row loop. skip_empty = false: `let y = rows.next()?; columns.find(..).map(..)` - a row without hit
   makes next() return None, i.e. ends a `for` loop (circle/points.rs:64-78).
   skip_empty = true: `loop { let y = rows.next()?; if let Some(x) = .. { return Some(..) } }`
   (ellipse/points.rs:64-87). pred y x = the hit test of column x in row y. *)
Fixpoint scan_rows (skip_empty : bool) (pred : Z -> Z -> bool) (c0 c1 : Z) (ys : list Z) : list scanline :=
  match ys with
  | [] => []
  | y :: t =>
      match first_hit (pred y) c0 c1 with
      | Some (a, b) => SL y a b :: scan_rows skip_empty pred c0 c1 t
      | None => if skip_empty then scan_rows skip_empty pred c0 c1 t else []
      end
  end.

(* {circle,ellipse}/points.rs:27-36 Points::next:
   `current.next().or_else(|| { current = scanlines.next()?; current.next() })`
   - an empty scanline handed out by the scanline iterator would end the iteration. *)
Fixpoint scanlines_points (l : list scanline) : list point :=
  match l with
  | [] => []
  | s :: t =>
      match scanline_points s with
      | [] => []
      | ps => ps ++ scanlines_points t
      end
  end.

(* {circle,ellipse}/styled.rs StyledScanlines::next: per scanline of the stroke area, the fill range is the
   first column of the stroke range that passes the fill test, mirrored inside the stroke range *)
Definition styled_scan (fillpred : Z -> Z -> bool) (sls : list scanline) : list styled_scanline :=
  map (fun s => styled_scanline_new (sl_y s) (sl_x0 s) (sl_x1 s)
                  (first_hit (fillpred (sl_y s)) (sl_x0 s) (sl_x1 s))) sls.

Definition colored (s : scanline) (c : Z) : list (point * Z) := map (fun p => (p, c)) (scanline_points s).

(* {circle,ellipse}/styled.rs:47-98 StyledPixelsIterator::next (both files have the same body);
   note: it matches on style.stroke_color, not on effective_stroke_color *)
Definition styled_pixels (sls : list styled_scanline) (stroke fill : option Z) : list (point * Z) :=
  match stroke, fill with
  | Some sc, None => flat_map (fun s => colored (stroke_left s) sc ++ colored (stroke_right s) sc) sls
  | Some sc, Some fc =>
      flat_map (fun s => colored (stroke_left s) sc ++ colored (fill_part s) fc ++ colored (stroke_right s) sc) sls
  | None, Some fc => flat_map (fun s => colored (fill_part s) fc) sls
  | None, None => []
  end.

(* ---- circle/mod.rs --------------------------------------------------------------------- *)
Record circle := Circ { c_tl : point; c_d : Z }.

(* mod.rs:89-94 *)
Definition circle_center_2x (c : circle) : point :=
  let radius := sat_sub_u32 (c_d c) 1 in
  P (px (c_tl c) * 2 + radius) (py (c_tl c) * 2 + radius).

(* mod.rs:180-186 *)
Definition diameter_to_threshold (d : Z) : Z :=
  if d <=? 4 then d * d - d / 2 else d * d.

(* mod.rs:97-99 *)
Definition circle_threshold (c : circle) : Z := diameter_to_threshold (c_d c).

(* mod.rs:143-147 *)
Definition circle_bbox (c : circle) : rect := R (c_tl c) (S (c_d c) (c_d c)).

(* mod.rs:82-84 *)
Definition circle_center (c : circle) : point := center (circle_bbox c).

(* mod.rs:73-77 *)
Definition circle_with_center (ctr : point) (d : Z) : circle := Circ (tl (with_center ctr (S d d))) d.

(* mod.rs:107-117 OffsetOutline *)
Definition circle_offset (c : circle) (n : Z) : circle :=
  let d := if 0 <=? n then sat_add_u32 (c_d c) (2 * n) else sat_sub_u32 (c_d c) (2 * (- n)) in
  circle_with_center (circle_center c) d.

(* geometry/mod.rs:50-52 *)
Definition length_squared (p : point) : Z := px p * px p + py p * py p.

(* mod.rs:132-139 *)
Definition circle_contains (c : circle) (p : point) : bool :=
  let delta := psub (circle_center_2x c) (P (px p * 2) (py p * 2)) in
  length_squared delta <? circle_threshold c.

(* ---- circle/points.rs ------------------------------------------------------------------ *)
(* points.rs:69-72 the closure handed to find *)
Definition circle_row_pred (c2x : point) (thr : Z) (y x : Z) : bool :=
  let delta := psub (P (x * 2) (y * 2)) c2x in
  length_squared delta <? thr.

(* points.rs:46-79 Scanlines::new + next *)
Definition circle_scanlines (c : circle) : list scanline :=
  let bb := circle_bbox c in
  let '(y0, y1) := rows bb in
  let '(c0, c1) := columns bb in
  scan_rows false (circle_row_pred (circle_center_2x c) (circle_threshold c)) c0 c1 (range y0 y1).

Definition circle_points (c : circle) : list point := scanlines_points (circle_scanlines c).

(* ---- circle/styled.rs ------------------------------------------------------------------ *)
Definition circle_stroke_area (c : circle) (st : style) : circle := circle_offset c (stroke_area_offset st).
Definition circle_fill_area (c : circle) (st : style) : circle := circle_offset c (fill_area_offset st).

(* styled.rs:165-196 StyledScanlines::new + next: fill test = distance to the STROKE area's centre
   against the FILL area's threshold *)
Definition circle_styled_scanlines (stroke_area fill_area : circle) : list styled_scanline :=
  styled_scan (circle_row_pred (circle_center_2x stroke_area) (circle_threshold fill_area))
              (circle_scanlines stroke_area).

(* styled.rs:31-45 + 47-98 *)
Definition circle_styled_pixels (c : circle) (st : style) : list (point * Z) :=
  styled_pixels (circle_styled_scanlines (circle_stroke_area c st) (circle_fill_area c st))
                (stroke_color st) (fill_color st).

(* styled.rs:108-146 draw_styled *)
Definition circle_draw_styled (c : circle) (st : style) : list fill_call :=
  match effective_stroke_color st, fill_color st with
  | Some sc, None =>
      flat_map (fun s => draw_stroke s sc) (circle_styled_scanlines (circle_stroke_area c st) (circle_fill_area c st))
  | Some sc, Some fc =>
      flat_map (fun s => draw_stroke_and_fill s sc fc)
               (circle_styled_scanlines (circle_stroke_area c st) (circle_fill_area c st))
  | None, Some fc => flat_map (fun s => scanline_draw s fc) (circle_scanlines (circle_fill_area c st))
  | None, None => []
  end.

(* styled.rs:149-155 *)
Definition circle_styled_bbox (c : circle) (st : style) : rect :=
  offset (circle_bbox c) (sat_u32_to_i32 (outside_stroke_width st)).

(* ---- machine arithmetic of Circle::contains ---------------------------------------------- *)
Definition in_u64 (x : Z) : bool := (0 <=? x) && (x <=? 18446744073709551615).

(* Every arithmetic result Circle::contains(p) computes (circle/mod.rs:89-94 center_2x: `top_left * 2 + Size(radius)`
   with core point.rs:275-283 `as i32` + debug_assert >= 0; mod.rs:132-136 `center_2x - point * 2`,
   geometry/mod.rs:50-52 `x.pow(2) + y.pow(2)` in i32, `as u32`; mod.rs:180-186 `diameter.pow(2)` in u32) fits the Rust
   type it is computed in.  When this is false a build with overflow checks panics and a release build wraps. *)
Definition circle_contains_fits (c : circle) (p : point) : bool :=
  let d := c_d c in
  let radius := sat_sub_u32 d 1 in
  let tx := px (c_tl c) * 2 in let ty := py (c_tl c) * 2 in
  let cx := tx + radius in let cy := ty + radius in
  let qx := px p * 2 in let qy := py p * 2 in
  let dx := cx - qx in let dy := cy - qy in
  in_i32 tx && in_i32 ty && in_i32 radius && in_i32 cx && in_i32 cy && in_i32 qx && in_i32 qy
  && in_i32 dx && in_i32 dy && in_i32 (dx * dx) && in_i32 (dy * dy) && in_i32 (dx * dx + dy * dy)
  && in_u32 (d * d).

(* contains() as a build with overflow checks evaluates it: None = arithmetic overflow panic *)
Definition circle_contains_checked (c : circle) (p : point) : option bool :=
  if circle_contains_fits c p then Some (circle_contains c p) else None.
