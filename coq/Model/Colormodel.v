(* Executable model of the built-in colour types (core/src/pixelcolor/*.rs), generic over a row of the
   GENERATED table Gen/ColorTable.v; literal constants come from the GENERATED Gen/ColorConsts.v.
   Definitions only (extracted to OCaml; proofs are in Proofs/Colormodel.v).

   Representation.  A colour value is the integer its Rust struct stores:
     RGB types   `pub struct $type($storage_type)`            the storage word            rgb_color.rs:72
     gray types  `pub struct $type($raw_type)`                the inner value of the raw  gray_color.rs:24
     BinaryColor `enum { Off, On }`                           Off = 0, On = 1 (bin_off / bin_on below)
   A raw value (RawU1 .. RawU32) is the integer `self.0` it stores (always masked by RawUx::new).
   Shifts and masks are the Z operations of the same name (Z.shiftl/Z.shiftr/Z.land/Z.lor); `as u8`
   is `mod 256`; widening casts are the identity.  Arithmetic is unbounded; Proofs/Colormodel.v shows
   that no intermediate exceeds its Rust type on valid inputs (channel_no_overflow, luma_no_overflow). *)
From EG Require Import Base.Prelude Gen.ColorConsts Gen.ColorTable.

Definition as_u8 (x : Z) : Z := x mod 256.

(* ---------------------------------------------------------------- raw data: raw/mod.rs impl_raw_data! *)
(* raw/mod.rs:198  const MASK: Self::Storage = Self::Storage::MAX >> (Self::Storage::BITS - $bpp); *)
Definition raw_mask_of (w : rawrow) : Z := Z.shiftr (2 ^ raw_sbits w - 1) (raw_sbits w - raw_bpp w).
(* raw/mod.rs:184-186  pub const fn new(value) -> Self { $type(value & <Self as RawData>::MASK) } *)
Definition raw_new_of (w : rawrow) (v : Z) : Z := Z.land v (raw_mask_of w).

Definition sbits (t : crow) : Z := raw_sbits (c_raw t).
Definition bpp (t : crow) : Z := raw_bpp (c_raw t).
Definition raw_new (t : crow) (v : Z) : Z := raw_new_of (c_raw t) v.

(* ---------------------------------------------------------------- RGB types: rgb_color.rs impl_rgb_color! *)
Definition rbits (t : crow) : Z := match c_kind t with KRgb _ r _ _ => r | _ => 0 end.
Definition gbits (t : crow) : Z := match c_kind t with KRgb _ _ g _ => g | _ => 0 end.
Definition bbits (t : crow) : Z := match c_kind t with KRgb _ _ _ b => b | _ => 0 end.
(* rgb_color.rs:205-235  the Rgb / Bgr arms of rgb_color! compute ($r_pos, $g_pos, $b_pos) (generated pos_rgb / pos_bgr) *)
Definition positions (t : crow) : Z * Z * Z :=
  match c_kind t with
  | KRgb ORgb r g b => pos_rgb r g b
  | KRgb OBgr r g b => pos_bgr r g b
  | _ => (0, 0, 0)
  end.
Definition rpos (t : crow) : Z := fst (fst (positions t)).
Definition gpos (t : crow) : Z := snd (fst (positions t)).
Definition bpos (t : crow) : Z := snd (positions t).
(* rgb_color.rs:154-156  const MAX_R: u8 = ((1usize << $r_bits) - 1) as u8; *)
Definition chan_max (bits : Z) : Z := as_u8 (Z.shiftl 1 bits - 1).
Definition max_r (t : crow) : Z := chan_max (rbits t).
Definition max_g (t : crow) : Z := chan_max (gbits t).
Definition max_b (t : crow) : Z := chan_max (bbits t).
(* rgb_color.rs:76-79  R_MASK = (MAX_R as storage) << r_pos ...; RGB_MASK = R_MASK | B_MASK | G_MASK *)
Definition r_mask (t : crow) : Z := Z.shiftl (max_r t) (rpos t).
Definition g_mask (t : crow) : Z := Z.shiftl (max_g t) (gpos t).
Definition b_mask (t : crow) : Z := Z.shiftl (max_b t) (bpos t).
Definition rgb_mask (t : crow) : Z := Z.lor (Z.lor (r_mask t) (b_mask t)) (g_mask t).
(* rgb_color.rs:121-127  new: (r & MAX_R) as storage << r_pos | ... *)
Definition rgb_new (t : crow) (r g b : Z) : Z :=
  let r_shifted := Z.shiftl (Z.land r (max_r t)) (rpos t) in
  let g_shifted := Z.shiftl (Z.land g (max_g t)) (gpos t) in
  let b_shifted := Z.shiftl (Z.land b (max_b t)) (bpos t) in
  Z.lor (Z.lor r_shifted g_shifted) b_shifted.
(* rgb_color.rs:131-147  r(): (self.0 >> $r_pos) as u8 & Self::MAX_R *)
Definition get_r (t : crow) (c : Z) : Z := Z.land (as_u8 (Z.shiftr c (rpos t))) (max_r t).
Definition get_g (t : crow) (c : Z) : Z := Z.land (as_u8 (Z.shiftr c (gpos t))) (max_g t).
Definition get_b (t : crow) (c : Z) : Z := Z.land (as_u8 (Z.shiftr c (bpos t))) (max_b t).

(* ---------------------------------------------------------------- gray types: gray_color.rs gray_color! *)
(* gray_color.rs:27  MAX_LUMA: u8 = 0xFF >> (8 - BITS_PER_PIXEL) *)
Definition max_luma (t : crow) : Z := Z.shiftr gray_max_base (gray_max_bits - bpp t).
(* gray_color.rs:34-36  new(luma) = Self($raw_type::new(luma)) *)
Definition gray_new (t : crow) (l : Z) : Z := raw_new t l.
(* gray_color.rs:44-46  luma() = self.0.into_inner() *)
Definition luma_of (t : crow) (c : Z) : Z := c.
(* gray_color.rs:28  GRAY_50 = Self::new(0x80 >> (8 - BITS_PER_PIXEL)) *)
Definition gray_50 (t : crow) : Z := gray_new t (Z.shiftr gray_50_base (gray_50_bits - bpp t)).

(* ---------------------------------------------------------------- BinaryColor: binary_color.rs *)
Definition bin_off : Z := 0.
Definition bin_on : Z := 1.
(* binary_color.rs:113-118  map_color: On => value_on, Off => value_off *)
Definition map_color {A} (c : Z) (value_off value_on : A) : A := if c =? bin_on then value_on else value_off.
(* binary_color.rs:142-150  From<bool> *)
Definition bin_of_bool (b : bool) : Z := if b then bin_on else bin_off.

(* ---------------------------------------------------------------- colour <-> raw *)
(* `d` is the inner value of a raw (`data.into_inner()`).
   rgb_color.rs:165-171 Self(data & RGB_MASK); gray_color.rs:52-56 Self(data); binary_color.rs:126-134 != 0 *)
Definition from_raw (t : crow) (d : Z) : Z :=
  match c_kind t with
  | KRgb _ _ _ _ => Z.land d (rgb_mask t)
  | KGray => d
  | KBinary => if negb (d =? bin_from_zero) then bin_on else bin_off
  end.
(* result: inner value of the raw.
   rgb_color.rs:173-177 Raw::new(color.0); gray_color.rs:58-62 color.0; binary_color.rs:136-140 RawU1::new(map_color(0, 1)) *)
Definition to_raw (t : crow) (c : Z) : Z :=
  match c_kind t with
  | KRgb _ _ _ _ => raw_new t c
  | KGray => c
  | KBinary => raw_new t (map_color c bin_raw_off bin_raw_on)
  end.
(* mod.rs:169-175  into_storage = self.into().into_inner() *)
Definition into_storage (t : crow) (c : Z) : Z := to_raw t c.

(* ---------------------------------------------------------------- bytes: raw/to_bytes.rs *)
(* uN::to_be_bytes / to_le_bytes of the storage word x, n bytes *)
Definition storage_be_bytes (n : Z) (x : Z) : list Z :=
  map (fun i => (Z.shiftr x (8 * (n - 1 - i))) mod 256) (range 0 n).
Definition storage_le_bytes (n : Z) (x : Z) : list Z :=
  map (fun i => (Z.shiftr x (8 * i)) mod 256) (range 0 n).
Definition slice {A} (lo hi : Z) (l : list A) : list A := firstn (Z.to_nat (hi - lo)) (skipn (Z.to_nat lo) l).
(* to_bytes.rs:23-49 (macro: the whole array) and :51-68 (RawU24: [1..4] of be, [0..3] of le); the slices are in the table *)
Definition raw_to_be_bytes (w : rawrow) (x : Z) : list Z :=
  slice (raw_be_lo w) (raw_be_hi w) (storage_be_bytes (raw_sbits w / 8) x).
Definition raw_to_le_bytes (w : rawrow) (x : Z) : list Z :=
  slice (raw_le_lo w) (raw_le_hi w) (storage_le_bytes (raw_sbits w / 8) x).
(* to_bytes.rs:96-110  impl<C: PixelColor> ToBytes for C: self.into().to_xx_bytes() *)
Definition to_be_bytes (t : crow) (c : Z) : list Z := raw_to_be_bytes (c_raw t) (to_raw t c).
Definition to_le_bytes (t : crow) (c : Z) : list Z := raw_to_le_bytes (c_raw t) (to_raw t c).

(* ---------------------------------------------------------------- conversion.rs *)
(* conversion.rs:7-21  convert_channel::<FROM_MAX, TO_MAX>(value) *)
Definition convert_channel (from_max to_max value : Z) : Z :=
  if negb (to_max =? from_max) then
    let const_0_5 := Z.shiftl cc_half_base (cc_shift - cc_half_sub) in
    let result := value * (Z.shiftl to_max cc_shift / from_max) in
    as_u8 (Z.shiftr (result + const_0_5) cc_shift)
  else value.

(* conversion.rs:23-31  luma(color: Rgb888); `color` is a value of the row via_rgb *)
Definition luma888 (c : Z) : Z :=
  let r := get_r via_rgb c in
  let g := get_g via_rgb c in
  let b := get_b via_rgb c in
  as_u8 ((r * luma_wr + g * luma_wg + b * luma_wb + luma_round) / luma_div).

(* conversion.rs:33-44  impl_rgb_conversion *)
Definition conv_rgb_rgb (a b : crow) (c : Z) : Z :=
  rgb_new b (convert_channel (max_r a) (max_r b) (get_r a c))
            (convert_channel (max_g a) (max_g b) (get_g a c))
            (convert_channel (max_b a) (max_b b) (get_b a c)).
(* conversion.rs:70-78  impl_gray_conversion *)
Definition conv_gray_gray (a b : crow) (c : Z) : Z :=
  gray_new b (convert_channel (max_luma a) (max_luma b) (luma_of a c)).
(* conversion.rs:87-95  gray -> rgb *)
Definition conv_gray_rgb (a b : crow) (c : Z) : Z :=
  rgb_new b (convert_channel (max_luma a) (max_r b) (luma_of a c))
            (convert_channel (max_luma a) (max_g b) (luma_of a c))
            (convert_channel (max_luma a) (max_b b) (luma_of a c)).
(* `X::from(y)` / `.into()` where both types may be the same: core's reflexive `impl From<T> for T` *)
Definition into_or (f : crow -> crow -> Z -> Z) (a b : crow) (c : Z) : Z :=
  if c_id a =? c_id b then c else f a b c.
(* conversion.rs:97-102  rgb -> gray: luma(Rgb888::from(other)), Gray8::new(intensity).into() *)
Definition conv_rgb_gray (a b : crow) (c : Z) : Z :=
  let intensity := luma888 (into_or conv_rgb_rgb a via_rgb c) in
  into_or conv_gray_gray via_gray b (gray_new via_gray intensity).
(* BLACK / WHITE: rgb_color.rs:158,165  gray_color.rs:48-49 *)
Definition color_black (t : crow) : Z :=
  match c_kind t with
  | KRgb _ _ _ _ => rgb_new t 0 0 0
  | KGray => gray_new t gray_black_arg
  | KBinary => bin_off
  end.
Definition color_white (t : crow) : Z :=
  match c_kind t with
  | KRgb _ _ _ _ => rgb_new t (max_r t) (max_g t) (max_b t)
  | KGray => gray_new t gray_white_arg
  | KBinary => bin_on
  end.
(* conversion.rs:114-122  impl_from_binary: color.map_color(Self::BLACK, Self::WHITE) *)
Definition conv_bin_any (b : crow) (c : Z) : Z := map_color c (color_black b) (color_white b).
(* conversion.rs:130-138  impl_gray_to_binary: (color.luma() >= GRAY_50.luma()).into() *)
Definition conv_gray_bin (a : crow) (c : Z) : Z := bin_of_bool (luma_of a c >=? luma_of a (gray_50 a)).
(* conversion.rs:143-151  impl_rgb_to_binary: (luma(Rgb888::from(color)) >= 128).into() *)
Definition conv_rgb_bin (a : crow) (c : Z) : Z :=
  bin_of_bool (luma888 (into_or conv_rgb_rgb a via_rgb c) >=? rgb_bin_threshold).

(* rgb_color.rs:151-158  the eight named constants of RgbColor, in source order:
   BLACK RED GREEN BLUE YELLOW MAGENTA CYAN WHITE *)
Definition named_colors (t : crow) : list Z :=
  [rgb_new t 0 0 0; rgb_new t (max_r t) 0 0; rgb_new t 0 (max_g t) 0; rgb_new t 0 0 (max_b t);
   rgb_new t (max_r t) (max_g t) 0; rgb_new t (max_r t) 0 (max_b t); rgb_new t 0 (max_g t) (max_b t);
   rgb_new t (max_r t) (max_g t) (max_b t)].
(* conversion.rs:45-54  with_rgb888(r, g, b): 8 bit channels scaled to the type (web_src = Rgb888);
   web_colors.rs:50-62  every CSS_* constant of a WebColors type is with_rgb888 of its triple *)
Definition with_rgb888 (t : crow) (r g b : Z) : Z :=
  rgb_new t (convert_channel (max_r web_src) (max_r t) r)
            (convert_channel (max_g web_src) (max_g t) g)
            (convert_channel (max_b web_src) (max_b t) b).
Definition has_web_colors (t : crow) : bool := existsb (fun w => c_id w =? c_id t) web_types.
Definition web_color_values (t : crow) : list Z :=
  map (fun e => match snd e with (r, g, b) => with_rgb888 t r g b end) web_colors.

Definition convert (f : family) (a b : crow) (c : Z) : Z :=
  match f with
  | FRgbRgb => conv_rgb_rgb a b c
  | FGrayGray => conv_gray_gray a b c
  | FGrayRgb => conv_gray_rgb a b c
  | FRgbGray => conv_rgb_gray a b c
  | FBinAny => conv_bin_any b c
  | FGrayBin => conv_gray_bin a c
  | FRgbBin => conv_rgb_bin a c
  end.

(* ---------------------------------------------------------------- helpers for statements and drivers *)
(* conversion.rs:23-31 as a function of the three channel values (luma888 c = lumaf (r c) (g c) (b c)) *)
Definition lumaf (r g b : Z) : Z := as_u8 ((r * luma_wr + g * luma_wg + b * luma_wb + luma_round) / luma_div).
(* the luma that the rgb -> gray / rgb -> binary conversions compute for a colour c of row a:
   channels scaled to 8 bits (Rgb888::from), then luma() *)
Definition luma_via (a : crow) (c : Z) : Z :=
  lumaf (convert_channel (max_r a) 255 (get_r a c)) (convert_channel (max_g a) 255 (get_g a c))
        (convert_channel (max_b a) 255 (get_b a c)).
(* number of bits a colour of row t occupies in its raw value *)
Definition used_bits (t : crow) : Z :=
  match c_kind t with KRgb _ r g b => r + g + b | _ => bpp t end.
(* the values a colour of row t can take (every constructor yields one: Proofs from_raw_valid, rgb_new_valid) *)
Definition valid (t : crow) (c : Z) : Prop := 0 <= c < 2 ^ used_bits t.
Definition is_rgb (t : crow) : bool := match c_kind t with KRgb _ _ _ _ => true | _ => false end.
Definition is_gray (t : crow) : bool := match c_kind t with KGray => true | _ => false end.
Definition is_rgb_order (t : crow) (o : corder) : bool :=
  match c_kind t, o with KRgb ORgb _ _ _, ORgb => true | KRgb OBgr _ _ _, OBgr => true | _, _ => false end.
(* number denoted by a byte list, most / least significant byte first *)
Definition be_value (l : list Z) : Z := fold_left (fun acc x => acc * 256 + x) l 0.
Definition le_value (l : list Z) : Z := fold_right (fun x acc => x + 256 * acc) 0 l.
(* table lookup by name (drivers) *)
Fixpoint list_eqb (a b : list Z) : bool :=
  match a, b with
  | [], [] => true
  | x :: a', y :: b' => (x =? y) && list_eqb a' b'
  | _, _ => false
  end.
Definition find_row (name : list Z) : option crow := find (fun t => list_eqb (c_name t) name) color_table.
Definition find_pair (a b : crow) : option family :=
  match find (fun p => (c_id (snd (fst p)) =? c_id a) && (c_id (snd p) =? c_id b)) conv_pairs with
  | Some p => Some (fst (fst p))
  | None => None
  end.
