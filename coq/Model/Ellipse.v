(* Model of src/primitives/ellipse/{mod,points,styled}.rs.  Definitions only.
   The scanline machinery (scan_rows, styled_scan, styled_pixels, draw_stroke...) is in Model/Circle.v. *)
From EG Require Import Base.Prelude Model.Geometry Model.Style Model.Circle.

Record ellipse := Ell { e_tl : point; e_sz : size }.

(* mod.rs:106-110 free function center_2x(top_left, size) *)
Definition ellipse_center_2x (e : ellipse) : point :=
  let radius := size_sat_sub (e_sz e) (S 1 1) in
  P (px (e_tl e) * 2 + sw radius) (py (e_tl e) * 2 + sh radius).

(* mod.rs:130-134 *)
Definition ellipse_bbox (e : ellipse) : rect := R (e_tl e) (e_sz e).

(* mod.rs:79-81 *)
Definition ellipse_center (e : ellipse) : point := center (ellipse_bbox e).

(* mod.rs:72-76 *)
Definition ellipse_with_center (ctr : point) (s : size) : ellipse := Ell (tl (with_center ctr s)) s.

(* mod.rs:92-103 OffsetOutline *)
Definition ellipse_offset (e : ellipse) (n : Z) : ellipse :=
  let s := if 0 <=? n then size_sat_add (e_sz e) (S (2 * n) (2 * n))
           else size_sat_sub (e_sz e) (S (2 * (- n)) (2 * (- n))) in
  ellipse_with_center (ellipse_center e) s.

(* mod.rs:172-176 *)
Record ellipse_test := ET { et_a : Z; et_b : Z; et_thr : Z }.

(* mod.rs:182-197 EllipseContains::new *)
Definition ellipse_test_new (s : size) : ellipse_test :=
  let a := sw s * sw s in
  let b := sh s * sh s in
  let thr := if sw s =? sh s then diameter_to_threshold (sw s) else b * a in
  ET a b thr.

(* mod.rs:200-210 EllipseContains::contains (point relative to the doubled centre) *)
Definition ellipse_test_contains (t : ellipse_test) (p : point) : bool :=
  let x := px p * px p in
  let y := py p * py p in
  if et_a t =? et_b t then x + y <? et_thr t
  else et_b t * x + et_a t * y <? et_thr t.

(* mod.rs:123-128 *)
Definition ellipse_contains (e : ellipse) (p : point) : bool :=
  ellipse_test_contains (ellipse_test_new (e_sz e)) (psub (P (px p * 2) (py p * 2)) (ellipse_center_2x e)).

(* points.rs:70-80 the closure handed to find: scaled_y = y*2 - c2x.y, column test x*2 - c2x.x *)
Definition ellipse_row_pred (c2x : point) (t : ellipse_test) (y x : Z) : bool :=
  let scaled_y := y * 2 - py c2x in
  ellipse_test_contains t (P (x * 2 - px c2x) scaled_y).

(* points.rs:48-88 Scanlines::new + next (rows without hit are skipped) *)
Definition ellipse_scanlines (e : ellipse) : list scanline :=
  let bb := ellipse_bbox e in
  let '(y0, y1) := rows bb in
  let '(c0, c1) := columns bb in
  scan_rows true (ellipse_row_pred (ellipse_center_2x e) (ellipse_test_new (e_sz e))) c0 c1 (range y0 y1).

Definition ellipse_points (e : ellipse) : list point := scanlines_points (ellipse_scanlines e).

(* ---- ellipse/styled.rs ----------------------------------------------------------------- *)
Definition ellipse_stroke_area (e : ellipse) (st : style) : ellipse := ellipse_offset e (stroke_area_offset st).
Definition ellipse_fill_area (e : ellipse) (st : style) : ellipse := ellipse_offset e (fill_area_offset st).

(* styled.rs:158-191 StyledScanlines: fill test = EllipseContains of the FILL area's size around the
   STROKE area's doubled centre *)
Definition ellipse_styled_scanlines (stroke_area fill_area : ellipse) : list styled_scanline :=
  styled_scan (ellipse_row_pred (ellipse_center_2x stroke_area) (ellipse_test_new (e_sz fill_area)))
              (ellipse_scanlines stroke_area).

(* styled.rs:29-43 + 45-93 *)
Definition ellipse_styled_pixels (e : ellipse) (st : style) : list (point * Z) :=
  styled_pixels (ellipse_styled_scanlines (ellipse_stroke_area e st) (ellipse_fill_area e st))
                (stroke_color st) (fill_color st).

(* styled.rs:103-141 draw_styled *)
Definition ellipse_draw_styled (e : ellipse) (st : style) : list fill_call :=
  match effective_stroke_color st, fill_color st with
  | Some sc, None =>
      flat_map (fun s => draw_stroke s sc)
               (ellipse_styled_scanlines (ellipse_stroke_area e st) (ellipse_fill_area e st))
  | Some sc, Some fc =>
      flat_map (fun s => draw_stroke_and_fill s sc fc)
               (ellipse_styled_scanlines (ellipse_stroke_area e st) (ellipse_fill_area e st))
  | None, Some fc => flat_map (fun s => scanline_draw s fc) (ellipse_scanlines (ellipse_fill_area e st))
  | None, None => []
  end.

(* styled.rs:144-150 *)
Definition ellipse_styled_bbox (e : ellipse) (st : style) : rect :=
  offset (ellipse_bbox e) (sat_u32_to_i32 (outside_stroke_width st)).

(* ---- machine arithmetic of Ellipse::contains ---------------------------------------------- *)
(* Every arithmetic result Ellipse::contains(p) computes fits its Rust type: mod.rs:106-110 center_2x (i32),
   mod.rs:123-128 `point * 2 - center_2x` (i32), mod.rs:182-197 `(w as u64).pow(2)`, `(h as u64).pow(2)`,
   `circle::diameter_to_threshold(width)` (u32 arithmetic!) or `b * a` (u64), mod.rs:200-210 `(x as i64).pow(2) as u64`
   (always fits for an i32 x), `x + y` resp. `b * x + a * y` (u64). *)
Definition ellipse_contains_fits (e : ellipse) (p : point) : bool :=
  let w := sw (e_sz e) in let h := sh (e_sz e) in
  let rw := sat_sub_u32 w 1 in let rh := sat_sub_u32 h 1 in
  let tx := px (e_tl e) * 2 in let ty := py (e_tl e) * 2 in
  let cx := tx + rw in let cy := ty + rh in
  let qx := px p * 2 in let qy := py p * 2 in
  let dx := qx - cx in let dy := qy - cy in
  let a := w * w in let b := h * h in
  let X := dx * dx in let Y := dy * dy in
  in_i32 tx && in_i32 ty && in_i32 rw && in_i32 rh && in_i32 cx && in_i32 cy && in_i32 qx && in_i32 qy
  && in_i32 dx && in_i32 dy && in_u64 a && in_u64 b
  && (if w =? h then in_u32 (w * w) else in_u64 (b * a))
  && (if a =? b then in_u64 (X + Y) else in_u64 (b * X) && in_u64 (a * Y) && in_u64 (b * X + a * Y)).

Definition ellipse_contains_checked (e : ellipse) (p : point) : option bool :=
  if ellipse_contains_fits e p then Some (ellipse_contains e p) else None.
