(* C04 - error-flow skeletons and their semantics over a fault-injecting target.  Definitions only.

   The skeletons are produced by translate/errflow from the Rust source (coq/Gen/ErrFlow.v): one [fndef] per
   function returning Result<_, X::Error>.  A skeleton keeps the control flow and, for every call of such a
   function ("propagating call", recognised by name), what is done with its Result.  Data is abstracted away:
   how often a loop runs, which branch is taken and what a call is dispatched to (the target itself / a foreign
   callee = a leaf, or ANY translated function of that name) is read from an oracle [orc], the same in the
   fault-free and in the faulted run: control decisions never depend on what the target answers.  The Ok value of the
   DrawTarget methods is (); draw_string / draw_string_binary / draw_whitespace / Text::draw return a Point that IS
   branched on (mono_text_style.rs `if next.x > position.x`), but it is computed from the text and the font only.
   An event records (callee name, call site); the ARGUMENTS of a call are not modelled - that the faulted run passes
   the same arguments as the fault-free run is determinism of the Rust code, checked by the sweep p_errflow only. *)
From Coq Require Import String List Arith Bool.
Import ListNotations.

Inductive disp := Propagated | Discarded | Deferred.

Inductive skel :=
| Skip                                          (* code without propagating calls (or a panic: outside C04) *)
| Seq (a b : skel)
| Loop (b : skel)                               (* for / while: the oracle says how many iterations *)
| Branch (a b : skel)                           (* if / match (n arms = nested): the oracle picks the arm *)
| Call (callee : string) (site : nat) (d : disp)  (* site = source line of the call *)
| Ret                                           (* return Ok(..) / end of the tail expression *)
| Other (why : string).                         (* not understood by the translator *)

Record fndef := { fname : string; fwhere : string; fbody : skel }.

(* ------------------------------------------------------------------ static checks (decided by vm_compute) *)
Definition disp_propagated (d : disp) : bool := match d with Propagated => true | _ => false end.

Fixpoint sk_all_propagated (s : skel) : bool :=
  match s with
  | Seq a b | Branch a b => sk_all_propagated a && sk_all_propagated b
  | Loop b => sk_all_propagated b
  | Call _ _ d => disp_propagated d
  | Skip | Ret | Other _ => true
  end.

Fixpoint sk_no_other (s : skel) : bool :=
  match s with
  | Seq a b | Branch a b => sk_no_other a && sk_no_other b
  | Loop b => sk_no_other b
  | Other _ => false
  | Skip | Ret | Call _ _ _ => true
  end.

Definition all_propagated (f : fndef) : bool := sk_all_propagated (fbody f).
Definition no_other (f : fndef) : bool := sk_no_other (fbody f).

(* the sites that break the rule, for the error message of the per-run check *)
Fixpoint sk_offenders (s : skel) : list string :=
  match s with
  | Seq a b | Branch a b => sk_offenders a ++ sk_offenders b
  | Loop b => sk_offenders b
  | Call c _ d => if disp_propagated d then [] else [c]
  | Other w => [w]
  | Skip | Ret => []
  end.
Definition offenders (fs : list fndef) : list (string * list string) :=
  filter (fun p => negb (match snd p with [] => true | _ => false end))
         (map (fun f => (fwhere f, sk_offenders (fbody f))) fs).

Fixpoint sk_calls (s : skel) : nat :=
  match s with
  | Seq a b | Branch a b => sk_calls a + sk_calls b
  | Loop b => sk_calls b
  | Call _ _ _ => 1
  | _ => 0
  end.

(* ------------------------------------------------------------------ semantics *)
Definition event := (string * nat)%type.         (* a call that reached the underlying target: callee name, call site *)

Section Sem.
  Variable E : Type.                             (* the target's error values *)

  Inductive outcome := Normal | Returned | Failed (e : E).
  Inductive callres := ROk | RErr (e : E).

  (* log: calls on the underlying target so far, oldest first.  orc: remaining control decisions.
     pend: a deferred error of the function being executed (only [Deferred] sites set it). *)
  Record st := { log : list event; orc : list nat; pend : option E }.

  Definition pop (x : st) : nat * st :=
    match orc x with
    | [] => (0, x)
    | n :: r => (n, {| log := log x; orc := r; pend := pend x |})
    end.

  (* the fault: the call number k on the underlying target (counted from 0 over the whole run) fails with e *)
  Definition fault := option (nat * E).

  (* a call that reaches the underlying target (or a foreign callee, taken as atomic): logged, fails iff it is the k-th *)
  Definition leaf (flt : fault) (ev : event) (x : st) : callres * st :=
    let x' := {| log := log x ++ [ev]; orc := orc x; pend := pend x |} in
    match flt with
    | Some (k, e) => if Nat.eqb (length (log x)) k then (RErr e, x') else (ROk, x')
    | None => (ROk, x')
    end.

  (* what the caller does with the callee's Result *)
  Definition dispose (d : disp) (r : callres) (x : st) : outcome * st :=
    match r with
    | ROk => (Normal, x)
    | RErr e =>
      match d with
      | Propagated => (Failed e, x)                 (* `?` / tail / return: From<E> for E is the identity *)
      | Discarded => (Normal, x)                    (* error lost, execution goes on *)
      | Deferred => (Normal, {| log := log x; orc := orc x;
                                pend := match pend x with Some e0 => Some e0 | None => Some e end |})
      end
    end.

  (* n iterations of a loop body; stops at the first iteration that does not end normally *)
  Fixpoint iterate (body : st -> option (outcome * st)) (n : nat) (x : st) {struct n} : option (outcome * st) :=
    match n with
    | O => Some (Normal, x)
    | S n' => match body x with
              | Some (Normal, x') => iterate body n' x'
              | r => r
              end
    end.

  Section Go.
    Variable fs : list fndef.
    Variable callf : fndef -> st -> option (callres * st).   (* execution of a translated callee (one fuel less) *)

    Definition candidates (c : string) : list fndef := filter (fun f => String.eqb (fname f) c) fs.

    (* dispatch: 0 (or an index out of range) = the underlying target / a foreign callee;
       S i = the i-th translated function with that name (adapters, trait defaults, helpers ...) *)
    Definition do_call (flt : fault) (c : string) (site : nat) (x : st) : option (callres * st) :=
      let (n, x1) := pop x in
      match n with
      | O => Some (leaf flt (c, site) x1)
      | S i => match nth_error (candidates c) i with
               | Some f => callf f x1
               | None => Some (leaf flt (c, site) x1)
               end
      end.

    Fixpoint go (flt : fault) (s : skel) (x : st) {struct s} : option (outcome * st) :=
      match s with
      | Skip => Some (Normal, x)
      | Ret => Some (Returned, x)
      | Seq a b =>
        match go flt a x with
        | Some (Normal, x') => go flt b x'
        | r => r
        end
      | Branch a b =>
        let (n, x1) := pop x in
        match n with O => go flt a x1 | S _ => go flt b x1 end
      | Loop b =>
        let (n, x1) := pop x in
        iterate (go flt b) n x1
      | Call c site d =>
        match do_call flt c site x with
        | Some (r, x') => Some (dispose d r x')
        | None => None
        end
      | Other _ =>
        (* code the translator does not understand may do anything with the target; it is given the worst
           behaviour the language can express: any number of target calls whose errors are swallowed *)
        let (n, x1) := pop x in
        iterate (fun x => Some (Normal, snd (leaf flt ("?"%string, 0) x))) n x1
      end.

    (* a function call: fresh deferred-error slot; at the end a pending deferred error becomes the result *)
    Definition run_fn (flt : fault) (f : fndef) (x : st) : option (callres * st) :=
      match go flt (fbody f) {| log := log x; orc := orc x; pend := None |} with
      | None => None
      | Some (o, x1) =>
        let r := match o with
                 | Failed e => RErr e
                 | _ => match pend x1 with Some e => RErr e | None => ROk end
                 end in
        Some (r, {| log := log x1; orc := orc x1; pend := pend x |})
      end.
  End Go.

  (* fuel bounds the depth of calls between translated functions (None = fuel exhausted);
     loops need no fuel: their length comes from the oracle *)
  Fixpoint exec (fs : list fndef) (fuel : nat) (flt : fault) (f : fndef) (x : st) {struct fuel}
    : option (callres * st) :=
    match fuel with
    | O => None
    | S fu => run_fn fs (exec fs fu flt) flt f x
    end.

  Definition init (o : list nat) : st := {| log := []; orc := o; pend := None |}.

  (* run k prog = (result, log) *)
  Definition run (fs : list fndef) (fuel : nat) (flt : fault) (f : fndef) (o : list nat)
    : option (callres * list event) :=
    match exec fs fuel flt f (init o) with
    | Some (r, x) => Some (r, log x)
    | None => None
    end.

  (* number of calls on the underlying target in the fault-free run *)
  Definition n_calls (fs : list fndef) (fuel : nat) (f : fndef) (o : list nat) : nat :=
    match run fs fuel None f o with
    | Some (_, l) => length l
    | None => 0
    end.
End Sem.

Arguments Normal {E}. Arguments Returned {E}. Arguments Failed {E} e.
Arguments ROk {E}. Arguments RErr {E} e.
Arguments log {E} s. Arguments orc {E} s. Arguments pend {E} s.

Definition find_fn (fs : list fndef) (name place_prefix : string) : option fndef :=
  find (fun f => String.eqb (fname f) name && String.prefix place_prefix (fwhere f)) fs.

(* ------------------------------------------------------------------ helpers for the table checks of Properties/C04.v *)
Definition in_file (file : string) (f : fndef) : bool := String.prefix (file ++ ":") (fwhere f).
Definition sites_in_file (fs : list fndef) (file : string) : nat :=
  fold_right (fun f n => (if in_file file f then sk_calls (fbody f) else 0) + n) 0 fs.
Definition total_sites (fs : list fndef) : nat := fold_right (fun f n => sk_calls (fbody f) + n) 0 fs.

(* oracle value that dispatches a call of [name] to the first translated function of that name whose place
   (file:line impl header) contains [pat] (S of its index among the candidates; 0 = the underlying target, also
   when there is no such function) *)
Fixpoint index_where {A} (p : A -> bool) (l : list A) : option nat :=
  match l with
  | [] => None
  | a :: r => if p a then Some 0 else match index_where p r with Some i => Some (S i) | None => None end
  end.
Definition place_has (pat : string) (f : fndef) : bool :=
  match String.index 0 pat (fwhere f) with Some _ => true | None => false end.
Definition dispatch_to (fs : list fndef) (name pat : string) : nat :=
  match index_where (place_has pat) (candidates fs name) with Some i => S i | None => 0 end.
