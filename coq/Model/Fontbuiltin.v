(* Lookup in the generated built-in font table (coq/Gen/FontTable.v) so that the model oracle can
   answer questions about a built-in font by name.  Definitions only. *)
From EG Require Import Base.Prelude Model.Geometry Model.Fontmodel Gen.FontTable.

Fixpoint zlist_eqb (a b : list Z) : bool :=
  match a, b with
  | [], [] => true
  | x :: s, y :: t => (x =? y) && zlist_eqb s t
  | _, _ => false
  end.

(* the crate-private NULL_FONT is addressable as "null::NULL_FONT" *)
Definition find_font (name : list Z) : option bfont := find (fun b => zlist_eqb (bf_name b) name) (null_font :: fonts).
Definition find_mapping (name : list Z) : option bmapping := find (fun m => zlist_eqb (bm_name m) name) mappings.
Definition mapping_of (b : bfont) : option bmapping := nth_error mappings (Z.to_nat (bf_map b)).

(* glyph index of a built-in font: the model's StrGlyphMapping::index over the literal string *)
Definition builtin_index (b : bfont) (c : Z) : Z :=
  match mapping_of b with
  | Some m => str_index (bm_raw m) (bm_repl m) c
  | None => 0
  end.

Definition font_count : Z := Z.of_nat (length fonts).
Definition mapping_count : Z := Z.of_nat (length mappings).
