(* Model of src/mono_font/{mod,mapping,mono_text_style,draw_target}.rs and of the part of
   src/image/{mod,image_raw,sub_image}.rs that a glyph passes through.
   Strings are lists of code points (Z).  Colours are abstract tags (Z).
   A font is a record of its geometry + an abstract glyph-index function + an abstract atlas bit
   function `atlas x y` (= font.image.pixel(Point::new(x, y)) == Some(On)).
   Definitions only (extracted to OCaml and run against the implementation). *)
From EG Require Import Base.Prelude Model.Geometry.

(* ---------------------------------------------------------------- mapping.rs *)

(* core::ops::RangeInclusive<char> as an iterator: steps over the surrogate gap, empty if a > b *)
Definition is_surrogate (c : Z) : bool := (55296 <=? c) && (c <=? 57343).
Definition char_range (a b : Z) : list Z := filter (fun c => negb (is_surrogate c)) (range a (b + 1)).

(* mapping.rs:114-131 StrGlyphMapping::chars: "\0" start end = inclusive range; an incomplete range
   (`chars.next()?` hits the end) ends the iteration *)
Fixpoint expand_chars (data : list Z) : list Z :=
  match data with
  | [] => []
  | c :: rest =>
      if c =? 0 then
        match rest with
        | s :: e :: rest2 => char_range s e ++ expand_chars rest2
        | _ => []
        end
      else c :: expand_chars rest
  end.

Fixpoint find_index (c : Z) (l : list Z) (i : Z) : option Z :=
  match l with
  | [] => None
  | v :: t => if c =? v then Some i else find_index c t (i + 1)
  end.

(* index of a character in an (already expanded) character list, else the replacement index *)
Definition list_index (chars : list Z) (repl : Z) (c : Z) : Z :=
  match find_index c chars 0 with Some i => i | None => repl end.

(* mapping.rs:139-147 GlyphMapping::index for StrGlyphMapping *)
Definition str_index (data : list Z) (repl : Z) (c : Z) : Z := list_index (expand_chars data) repl c.

(* mapping.rs:134 contains *)
Definition str_contains (data : list Z) (c : Z) : bool := existsb (fun v => v =? c) (expand_chars data).

(* ---------------------------------------------------------------- mod.rs: MonoFont *)

(* mod.rs:180 DecorationDimensions *)
Record deco := Deco { d_off : Z; d_h : Z }.

(* mod.rs:70 MonoFont: image.size(), character_size, character_spacing, baseline, decorations *)
Record font := Font {
  f_iw : Z; f_ih : Z;
  f_cw : Z; f_ch : Z;
  f_sp : Z;
  f_base : Z;
  f_ul : deco;
  f_st : deco
}.

Record mfont := MFont {
  mf_geom : font;
  mf_index : Z -> Z;             (* glyph_mapping.index *)
  mf_atlas : Z -> Z -> bool      (* image.pixel((x,y)) is On; only asked inside the image *)
}.

(* mod.rs:100-123 MonoFont::glyph: the area handed to SubImage::new_unchecked *)
Definition glyph_area (f : font) (gi : Z) : rect :=
  if (f_cw f =? 0) || (f_iw f <? f_cw f) then rect_zero
  else
    let glyphs_per_row := f_iw f / f_cw f in
    let row := gi / glyphs_per_row in
    let char_x := (gi - row * glyphs_per_row) * f_cw f in
    let char_y := row * f_ch f in
    R (P char_x char_y) (S (f_cw f) (f_ch f)).

(* image_raw.rs:221-233 draw_sub_image: nothing is drawn when the area is zero sized or not
   completely inside the image *)
Definition sub_image_visible (f : font) (a : rect) : bool :=
  negb (is_zero_sized a
        || (px (tl a) <? 0) || (py (tl a) <? 0)
        || (f_iw f <? px (tl a) + sw (sz a))
        || (f_ih f <? py (tl a) + sh (sz a))).

(* image_raw.rs:240-243 ContiguousPixels over the area: its pixels row by row (C09) *)
Definition area_bits (atlas : Z -> Z -> bool) (a : rect) : list bool :=
  flat_map (fun y => map (fun x => atlas x y) (range (px (tl a)) (px (tl a) + sw (sz a))))
           (range (py (tl a)) (py (tl a) + sh (sz a))).

(* mod.rs:209-214 DecorationDimensions::get_bounding_box *)
Definition deco_box (d : deco) (position : point) (width : Z) : rect :=
  R (P (px position) (py position + d_off d)) (S width (d_h d)).

(* ---------------------------------------------------------------- calls on the final target *)

Inductive call :=
| FillSolid (r : rect) (c : Z)
| FillContig (r : rect) (cs : list Z)
| DrawIter (ps : list (point * Z)).

(* the pixel writes of one call, in order, on an unbounded target (documented meaning of the
   DrawTarget methods; the trait defaults of fill_contiguous / fill_solid give the same writes) *)
Definition call_writes (c : call) : list (point * Z) :=
  match c with
  | FillSolid r col => map (fun p => (p, col)) (points r)
  | FillContig r cs => zip (points r) cs
  | DrawIter ps => ps
  end.
Definition writes (cs : list call) : list (point * Z) := flat_map call_writes cs.

Fixpoint last_write (p : point) (ws : list (point * Z)) (acc : option Z) : option Z :=
  match ws with
  | [] => acc
  | (q, c) :: t => last_write p t (if point_eqb q p then Some c else acc)
  end.
(* pixel map after the calls (None = untouched) *)
Definition render (cs : list call) (p : point) : option Z := last_write p (writes cs) None.

(* ---------------------------------------------------------------- draw_target.rs *)

Inductive mode := Fg (t : Z) | Bg (b : Z) | Both (t b : Z).

(* draw_target.rs:21-33, 59-71, 100-112: fill_contiguous of the three variants *)
Definition mft_fill_contiguous (m : mode) (area : rect) (bits : list bool) : list call :=
  match m with
  | Fg t => [DrawIter (map (fun pb => (fst pb, t)) (filter (fun pb : point * bool => snd pb) (zip (points area) bits)))]
  | Bg b => [DrawIter (map (fun pb => (fst pb, b)) (filter (fun pb : point * bool => negb (snd pb)) (zip (points area) bits)))]
  | Both t b => [FillContig area (map (fun bit : bool => if bit then t else b) bits)]
  end.

(* draw_target.rs:42-47, 80-85, 121-126: fill_solid of the three variants (on = BinaryColor::On) *)
Definition mft_fill_solid (m : mode) (area : rect) (on : bool) : list call :=
  match m with
  | Fg t => if on then [FillSolid area t] else []
  | Bg b => if on then [] else [FillSolid area b]
  | Both t b => if on then [FillSolid area t] else [FillSolid area b]
  end.

(* ---------------------------------------------------------------- mono_text_style.rs *)

(* text/mod.rs DecorationColor *)
Inductive dcolor := DNone | DTextColor | DCustom (c : Z).

Record cstyle := CStyle {
  cs_text : option Z;
  cs_bg : option Z;
  cs_ul : dcolor;
  cs_st : dcolor
}.

Definition is_none {A} (o : option A) : bool := match o with None => true | Some _ => false end.
Definition dcolor_is_none (d : dcolor) : bool := match d with DNone => true | _ => false end.

(* mono_text_style.rs:68-73 *)
Definition cs_is_transparent (s : cstyle) : bool :=
  is_none (cs_text s) && is_none (cs_bg s) && dcolor_is_none (cs_ul s) && dcolor_is_none (cs_st s).

(* text/mod.rs effective_color *)
Definition effective_color (d : dcolor) (text_color : option Z) : option Z :=
  match d with DTextColor => text_color | DCustom c => Some c | DNone => None end.

Inductive elem := EChar (c : Z) | ESpacing.

(* mono_text_style.rs:75-107 line_elements: the elements before Done, and the position of Done *)
Fixpoint line_elements (f : font) (position : point) (text : list Z) : list (point * elem) * point :=
  match text with
  | [] => ([], position)
  | c :: rest =>
      let p1 := P (px position + f_cw f) (py position) in
      match rest with
      | [] => ([(position, EChar c)], p1)
      | _ :: _ =>
          let r := line_elements f (P (px p1 + f_sp f) (py p1)) rest in
          ((position, EChar c) :: (p1, ESpacing) :: fst r, snd r)
      end
  end.

(* mono_text_style.rs:141-167 body of the loop in draw_string_binary.
   Image::new(&glyph, p).draw(target) = glyph.draw(&mut target.translated(p)) = draw_sub_image
   -> fill_contiguous(Rectangle(0, size)) on the translated target = fill_contiguous(Rectangle(p, size)) *)
Definition draw_elem (F : mfont) (s : cstyle) (m : mode) (pe : point * elem) : list call :=
  let f := mf_geom F in
  match snd pe with
  | EChar c =>
      let a := glyph_area f (mf_index F c) in
      if sub_image_visible f a
      then mft_fill_contiguous m (R (fst pe) (sz a)) (area_bits (mf_atlas F) a)
      else []
  | ESpacing =>
      if 0 <? f_sp f
      then if is_none (cs_bg s) then []
           else mft_fill_solid m (R (fst pe) (S (f_sp f) (f_ch f))) false
      else []
  end.

(* mono_text_style.rs:131-168 *)
Definition draw_string_binary (F : mfont) (s : cstyle) (m : mode) (position : point) (text : list Z)
  : list call * point :=
  let le := line_elements (mf_geom F) position text in
  (flat_map (draw_elem F s m) (fst le), snd le).

(* mono_text_style.rs:109-129 *)
Definition draw_decorations (f : font) (s : cstyle) (width : Z) (position : point) : list call :=
  (match effective_color (cs_st s) (cs_text s) with
   | Some c => [FillSolid (deco_box (f_st f) position width) c]
   | None => []
   end) ++
  (match effective_color (cs_ul s) (cs_text s) with
   | Some c => [FillSolid (deco_box (f_ul f) position width) c]
   | None => []
   end).

Inductive vbase := BTop | BBottom | BMiddle | BAlphabetic.

(* mono_text_style.rs:171-186 *)
Definition baseline_offset (f : font) (b : vbase) : Z :=
  match b with
  | BTop => 0
  | BBottom => sat_u32_to_i32 (sat_sub_u32 (f_ch f) 1)
  | BMiddle => sat_u32_to_i32 (sat_sub_u32 (f_ch f) 1 / 2)
  | BAlphabetic => sat_u32_to_i32 (f_base f)
  end.

(* mono_text_style.rs:195-240 TextRenderer::draw_string *)
Definition draw_string (F : mfont) (s : cstyle) (text : list Z) (position : point) (b : vbase)
  : list call * point :=
  let f := mf_geom F in
  let bo := baseline_offset f b in
  let position := P (px position) (py position - bo) in
  let r :=
    match cs_text s, cs_bg s with
    | Some t, Some g => draw_string_binary F s (Both t g) position text
    | Some t, None => draw_string_binary F s (Fg t) position text
    | None, Some g => draw_string_binary F s (Bg g) position text
    | None, None =>
        let dx := (f_cw f + f_sp f) * Z.of_nat (length text) in
        ([], P (px position + dx) (py position))
    end in
  let next := snd r in
  let deco := if px position <? px next
              then draw_decorations f s (px next - px position) position
              else [] in
  (fst r ++ deco, P (px next) (py next + bo)).

(* mono_text_style.rs:267-289 measure_string: (bounding_box, next_position) *)
Definition measure_string (f : font) (s : cstyle) (text : list Z) (position : point) (b : vbase)
  : rect * point :=
  let bb_position := P (px position) (py position - baseline_offset f b) in
  let bb_width := sat_sub_u32 (Z.of_nat (length text) * (f_cw f + f_sp f)) (f_sp f) in
  let bb_height := if dcolor_is_none (cs_ul s) then f_ch f
                   else Z.max (d_h (f_ul f) + d_off (f_ul f)) (f_ch f) in
  (R bb_position (S bb_width bb_height), P (px position + bb_width) (py position)).

(* mono_text_style.rs:291 *)
Definition cs_line_height (f : font) : Z := f_ch f.

(* ---------------------------------------------------------------- built-in font table rows *)
(* one row of coq/Gen/FontTable.v (generated from src/mono_font/generated/*.rs) *)
Record bfont := BFont {
  bf_name : list Z;     (* "<module>::<CONST>" as ASCII codes *)
  bf_rawlen : Z;        (* byte length of the include_bytes! file *)
  bf_digest : Z;        (* FNV-1a (64 bit, low 60 bits) of the file's rows with the padding bits masked: the glyph bitmaps *)
  bf_map : Z;           (* index into the mapping table *)
  bf_font : font
}.
(* one mapping of mapping.rs: name, the literal string (NUL markers kept), its expansion as computed
   by the translator, replacement index *)
Record bmapping := BMapping {
  bm_name : list Z;
  bm_raw : list Z;
  bm_chars : list Z;
  bm_repl : Z
}.

(* image_raw.rs:197 bytes_per_row for 1 bit per pixel *)
Definition bytes_per_row (w : Z) : Z := (w + 7) / 8.
