(* Model of src/framebuffer.rs (Framebuffer: new, set_pixel in its three families, draw_iter, as_image,
   pixel) and of the part of src/image/image_raw.rs it reads back through (ImageRaw::new, data_width,
   bytes_per_row, GetPixel::pixel, ImageDrawable::draw with ContiguousPixels).
   Definitions only (extracted to OCaml and run against the implementation).

   A framebuffer type is the configuration (raw type, data order, WIDTH, HEIGHT); its state is the byte
   array `data` ([u8; N], a list of N bytes).  Colours are represented by their raw value
   (`c.into().into_inner()`, `C::from(raw)`): the conversion colour <-> raw is property C12's subject.
   Points are pairs (x, y) of i32 values.  Raw load / the raw iterator come from Model/Rawdata.v. *)
From EG Require Import Base.Prelude Model.Rawdata.
From EG Require Model.Geometry Model.Target.   (* qualified: Rectangle::points, the colour stream of fill_contiguous *)

Record fbcfg := FbCfg { fb_t : rawty; fb_alt : order; fb_w : Z; fb_h : Z }.

Section WithUsize.
Context {U : Usize}.   (* the target's usize, see Model/Rawdata.v *)

(* framebuffer.rs:32-34  buffer_size_bpp = (width * bpp + 7) / 8 * height *)
Definition buffer_size_bpp (width height bpp : Z) : Z := (width * bpp + 7) / 8 * height.
(* framebuffer.rs:78  BUFFER_SIZE *)
Definition fb_buffer_size (c : fbcfg) : Z := buffer_size_bpp (fb_w c) (fb_h c) (bits (fb_t c)).

(* framebuffer.rs:81-84  CHECK_N: N >= BUFFER_SIZE (compile-time assertion) *)
Definition fb_check_n (c : fbcfg) (n : Z) : bool := fb_buffer_size c <=? n.

(* framebuffer.rs:87-95  new: data = [0; N] *)
Definition fb_new (n : nat) : list Z := repeat 0 n.

(* self.data[i]  (panics outside 0..N; Proofs/Framebuffer.v shows the index is inside) *)
Definition data_at (data : list Z) (i : Z) : Z := nth (Z.to_nat i) data 0.

(* framebuffer.rs:155-175 (sub-byte), 212-221 (8 bit), 257-270 (multi-byte)  set_pixel *)
Definition fb_set_pixel (c : fbcfg) (data : list Z) (p : Z * Z) (v : Z) : list Z :=
  let '(x, y) := p in
  let t := fb_t c in
  (* usize::try_from(p.x), usize::try_from(p.y) *)
  if (0 <=? x) && (0 <=? y) then
    if (x <? fb_w c) && (y <? fb_h c) then
      match t with
      | U1 | U2 | U4 =>
          let pixels_per_bit := 8 / bits t in
          let bits_per_row := fb_w c * bits t in
          let bytes_per_row := (bits_per_row + 7) / 8 in
          let byte_index := bytes_per_row * y + (x / pixels_per_bit) in
          let bit_index := if fb_alt c then (x mod pixels_per_bit) * bits t
                           else 8 - (x mod pixels_per_bit + 1) * bits t in
          let mask := not8 (Z.shiftl (2 ^ bits t - 1) bit_index) in
          let vbits := u8 (Z.shiftl v bit_index) in
          upd data (Z.to_nat byte_index) (Z.lor (Z.land (data_at data byte_index) mask) vbits)
      | U8 => upd data (Z.to_nat (y * fb_w c + x)) v
      | _ =>
          let index := (y * fb_w c + x) * nbytes t in
          (* c.into().to_le_bytes() for LittleEndianMsb0, to_be_bytes() for BigEndianLsb0 (to_bytes.rs) *)
          splice data index (encode_bytes t (fb_alt c) v)
      end
    else data
  else data.

(* framebuffer.rs:186-197 etc.  draw_iter: for Pixel(p, c) in pixels { self.set_pixel(p, c) } *)
Definition fb_draw_iter (c : fbcfg) (data : list Z) (pixels : list ((Z * Z) * Z)) : list Z :=
  fold_left (fun d pc => fb_set_pixel c d (fst pc) (snd pc)) pixels data.

(* framebuffer.rs:289-295  OriginDimensions::size = Size::new(WIDTH as u32, HEIGHT as u32);
   Dimensions::bounding_box = Rectangle::new(Point::zero(), size)  (core/src/geometry/mod.rs) *)
Definition fb_bounding_box (c : fbcfg) : Geometry.rect :=
  Geometry.R (Geometry.P 0 0) (Geometry.S (fb_w c) (fb_h c)).

(* Pixel(pos, color) items as (x, y, colour) *)
Definition to_writes (l : list (Geometry.point * Z)) : list ((Z * Z) * Z) :=
  map (fun pc => ((Geometry.px (fst pc), Geometry.py (fst pc)), snd pc)) l.

(* The three impls `DrawTarget for Framebuffer` define ONLY draw_iter (checked on the source on every run by
   translate/gen_fb.py -> Gen/FbShape.v), so the other methods are the trait defaults of
   core/src/draw_target/mod.rs:388-424 on top of Framebuffer's draw_iter:
     fill_contiguous(area, colors) = self.draw_iter(area.points().zip(colors).map(|(pos, color)| Pixel(pos, color)))
     fill_solid(area, color)       = self.fill_contiguous(area, core::iter::repeat(color))
     clear(color)                  = self.fill_solid(&self.bounding_box(), color) *)
Definition fb_fill_contiguous (c : fbcfg) (data : list Z) (area : Geometry.rect) (colors : Target.stream) : list Z :=
  fb_draw_iter c data (to_writes (Target.szip (Geometry.points area) colors)).
Definition fb_fill_solid (c : fbcfg) (data : list Z) (area : Geometry.rect) (v : Z) : list Z :=
  fb_fill_contiguous c data area (Target.Rep v).
Definition fb_clear (c : fbcfg) (data : list Z) (v : Z) : list Z :=
  fb_fill_solid c data (fb_bounding_box c) v.

(* ---- image_raw.rs ---------------------------------------------------------------------------- *)
Record image := Img { img_t : rawty; img_alt : order; img_data : list Z; img_w : Z; img_h : Z }.

(* image_raw.rs:197-199 *)
Definition bytes_per_row (width bpp : Z) : Z := (width * bpp + 7) / 8.

(* image_raw.rs:145-160  ImageRaw::new: Err unless data.len() == bytes_per_row * height *)
Definition image_new (t : rawty) (alt : order) (data : list Z) (w h : Z) : option image :=
  if buf_len data =? bytes_per_row w (bits t) * h then Some (Img t alt data w h) else None.

(* image_raw.rs:185-193  data_width *)
Definition data_width (im : image) : Z :=
  if bits (img_t im) <? 8 then bytes_per_row (img_w im) (bits (img_t im)) * (8 / bits (img_t im))
  else img_w im.

(* image_raw.rs:265-274  GetPixel::pixel *)
Definition image_pixel (im : image) (p : Z * Z) : option Z :=
  let '(x, y) := p in
  if (x <? 0) || (y <? 0) || (img_w im <=? x) || (img_h im <=? y) then None
  else fst (iter_nth (img_t im) (img_alt im) (iter_new (img_data im)) (x + y * data_width im)).

(* image_raw.rs:277-345  ContiguousPixels: state and next() as written *)
Record cpix := CPix { cp_iter : iter; cp_rem_x : Z; cp_width : Z; cp_rem_y : Z; cp_row_skip : Z }.

Definition cpix_new (im : image) (w h initial_skip row_skip : Z) : cpix :=
  let it0 := iter_new (img_data im) in
  let it := if 0 <? initial_skip then snd (iter_nth (img_t im) (img_alt im) it0 (initial_skip - 1)) else it0 in
  let rem_y := if 0 <? w then sat_sub_u32 h 1 else 0 in
  CPix it (if 0 <? h then w else 0) w rem_y row_skip.

Definition cpix_next (t : rawty) (alt : order) (s : cpix) : option Z * cpix :=
  if 0 <? cp_rem_x s then
    let r := iter_next t alt (cp_iter s) in
    (fst r, CPix (snd r) (cp_rem_x s - 1) (cp_width s) (cp_rem_y s) (cp_row_skip s))
  else if cp_rem_y s =? 0 then (None, s)
  else
    let r := iter_nth t alt (cp_iter s) (cp_row_skip s) in
    (fst r, CPix (snd r) (cp_width s - 1) (cp_width s) (cp_rem_y s - 1) (cp_row_skip s)).

(* the colour stream as the list a `for` loop sees (stops at the first None) *)
Fixpoint cpix_collect (t : rawty) (alt : order) (fuel : nat) (s : cpix) : option (list Z) :=
  match fuel with
  | O => None
  | Datatypes.S k =>
      match cpix_next t alt s with
      | (Some v, s') => option_map (cons v) (cpix_collect t alt k s')
      | (None, _) => Some []
      end
  end.

(* image_raw.rs:209-219  ImageDrawable::draw: the area and the colour stream handed to fill_contiguous *)
Definition image_draw_colors (im : image) : option (list Z) :=
  let row_skip := data_width im - img_w im in
  cpix_collect (img_t im) (img_alt im) (Datatypes.S (Z.to_nat (img_w im * img_h im)))
               (cpix_new im (img_w im) (img_h im) 0 row_skip).

(* ---- framebuffer.rs:111-139  as_image / pixel -------------------------------------------------- *)
(* ImageRaw::new(&self.data[0..BUFFER_SIZE], Size::new(WIDTH as u32, HEIGHT as u32)).unwrap()
   None = the slice or the unwrap would panic (Proofs: never, when N >= BUFFER_SIZE) *)
Definition fb_as_image (c : fbcfg) (data : list Z) : option image :=
  match get_prefix data (fb_buffer_size c) with
  | Some d => image_new (fb_t c) (fb_alt c) d (fb_w c) (fb_h c)
  | None => None
  end.

Inductive pixres := Panic | Pix (o : option Z).

Definition fb_pixel (c : fbcfg) (data : list Z) (p : Z * Z) : pixres :=
  match fb_as_image c data with
  | Some im => Pix (image_pixel im p)
  | None => Panic
  end.

End WithUsize.
