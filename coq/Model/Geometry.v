(* Model of core/src/geometry/{point,size}.rs and core/src/primitives/rectangle/{mod,points}.rs.
   Definitions only (extracted to OCaml and run against the implementation).
   Coordinates are unbounded Z; Rust's saturating operations are modelled as saturating. *)
From EG Require Import Base.Prelude.

Record point := P { px : Z; py : Z }.
Record size := S { sw : Z; sh : Z }.
Record rect := R { tl : point; sz : size }.

Definition point_eqb (a b : point) : bool := (px a =? px b) && (py a =? py b).
Definition size_eqb (a b : size) : bool := (sw a =? sw b) && (sh a =? sh b).
Definition rect_eqb (a b : rect) : bool := point_eqb (tl a) (tl b) && size_eqb (sz a) (sz b).

Definition padd (a b : point) : point := P (px a + px b) (py a + py b).
Definition psub (a b : point) : point := P (px a - px b) (py a - py b).
Definition pneg (a : point) : point := P (- px a) (- py a).
Definition padd_size (a : point) (s : size) : point := P (px a + sw s) (py a + sh s).
Definition psub_size (a : point) (s : size) : point := P (px a - sw s) (py a - sh s).
Definition component_min (a b : point) : point := P (Z.min (px a) (px b)) (Z.min (py a) (py b)).
Definition component_max (a b : point) : point := P (Z.max (px a) (px b)) (Z.max (py a) (py b)).

Definition size_sat_add (a b : size) : size := S (sat_add_u32 (sw a) (sw b)) (sat_add_u32 (sh a) (sh b)).
Definition size_sat_sub (a b : size) : size := S (sat_sub_u32 (sw a) (sw b)) (sat_sub_u32 (sh a) (sh b)).
Definition size_from_bounding_box (c1 c2 : point) : size :=
  S (Z.abs (px c1 - px c2) + 1) (Z.abs (py c1 - py c2) + 1).

(* rectangle/mod.rs:78 *)
Definition center_offset (s : size) : size :=
  let t := size_sat_sub s (S 1 1) in S (sw t / 2) (sh t / 2).

Definition rect_zero : rect := R (P 0 0) (S 0 0).

Definition with_corners (c1 c2 : point) : rect :=
  R (P (Z.min (px c1) (px c2)) (Z.min (py c1) (py c2))) (size_from_bounding_box c1 c2).

Definition with_center (c : point) (s : size) : rect := R (psub_size c (center_offset s)) s.

Definition center (r : rect) : point := padd_size (tl r) (center_offset (sz r)).

Definition bottom_right (r : rect) : option point :=
  if (0 <? sw (sz r)) && (0 <? sh (sz r))
  then Some (P (px (tl r) + sw (sz r) - 1) (py (tl r) + sh (sz r) - 1))
  else None.

Definition contains (r : rect) (p : point) : bool :=
  if (px (tl r) <=? px p) && (py (tl r) <=? py p) then
    match bottom_right r with
    | Some br => (px p <=? px br) && (py p <=? py br)
    | None => false
    end
  else false.

(* overlaps(first = a1..=a2, second = b1..=b2) *)
Definition overlaps (a1 a2 b1 b2 : Z) : bool :=
  ((b1 <=? a1) && (a1 <=? b2)) || ((b1 <=? a2) && (a2 <=? b2)) || ((a1 <? b1) && (b2 <? a2)).

Definition intersection (self other : rect) : rect :=
  match bottom_right other, bottom_right self with
  | Some obr, Some sbr =>
      if overlaps (px (tl self)) (px sbr) (px (tl other)) (px obr)
         && overlaps (py (tl self)) (py sbr) (py (tl other)) (py obr)
      then with_corners (component_max (tl self) (tl other)) (component_min sbr obr)
      else rect_zero
  | Some _, None => if contains other (tl self) then self else rect_zero
  | None, Some _ => if contains self (tl other) then other else rect_zero
  | None, None => rect_zero
  end.

Inductive anchor_x := AXLeft | AXCenter | AXRight.
Inductive anchor_y := AYTop | AYCenter | AYBottom.
Record anchor := A { ax : anchor_x; ay : anchor_y }.

Definition anchor_delta (extent : Z) : Z := Z.max (sat_u32_to_i32 extent) 1 - 1.

Definition anchor_x_of (r : rect) (a : anchor_x) : Z :=
  let delta := anchor_delta (sw (sz r)) in
  px (tl r) + match a with AXLeft => 0 | AXCenter => Z.quot delta 2 | AXRight => delta end.

Definition anchor_y_of (r : rect) (a : anchor_y) : Z :=
  let delta := anchor_delta (sh (sz r)) in
  py (tl r) + match a with AYTop => 0 | AYCenter => Z.quot delta 2 | AYBottom => delta end.

Definition anchor_point (r : rect) (a : anchor) : point := P (anchor_x_of r (ax a)) (anchor_y_of r (ay a)).

Definition envelope (self other : rect) : rect :=
  with_corners (component_min (tl self) (tl other))
    (component_max (anchor_point self (A AXRight AYBottom)) (anchor_point other (A AXRight AYBottom))).

Definition resize_delta (old new : Z) : Z :=
  Z.max (sat_u32_to_i32 old) 1 - Z.max (sat_u32_to_i32 new) 1.

Definition resized_width (r : rect) (w : Z) (a : anchor_x) : rect :=
  let delta := resize_delta (sw (sz r)) w in
  R (P (px (tl r) + match a with AXLeft => 0 | AXCenter => Z.quot delta 2 | AXRight => delta end) (py (tl r)))
    (S w (sh (sz r))).

Definition resized_height (r : rect) (h : Z) (a : anchor_y) : rect :=
  let delta := resize_delta (sh (sz r)) h in
  R (P (px (tl r)) (py (tl r) + match a with AYTop => 0 | AYCenter => Z.quot delta 2 | AYBottom => delta end))
    (S (sw (sz r)) h).

Definition resized (r : rect) (s : size) (a : anchor) : rect :=
  resized_height (resized_width r (sw s) (ax a)) (sh s) (ay a).

Definition offset (r : rect) (n : Z) : rect :=
  let s := if 0 <=? n then size_sat_add (sz r) (S (n * 2) (n * 2))
           else size_sat_sub (sz r) (S ((- n) * 2) ((- n) * 2)) in
  with_center (center r) s.

Definition rows (r : rect) : Z * Z :=
  (py (tl r), sat_add_i32 (py (tl r)) (sat_u32_to_i32 (sh (sz r)))).
Definition columns (r : rect) : Z * Z :=
  (px (tl r), sat_add_i32 (px (tl r)) (sat_u32_to_i32 (sw (sz r)))).

Definition is_zero_sized (r : rect) : bool := (sh (sz r) =? 0) || (sw (sz r) =? 0).

(* rectangle/points.rs: the list the iterator yields *)
Definition points (r : rect) : list point :=
  if is_zero_sized r then []
  else
    let '(x0, x1) := columns r in
    let '(y0, y1) := rows r in
    flat_map (fun y => map (fun x => P x y) (range x0 x1)) (range y0 y1).

Definition translate_rect (r : rect) (d : point) : rect := R (padd (tl r) d) (sz r).
