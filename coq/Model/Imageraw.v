(* Model of src/image/image_raw.rs, src/image/sub_image.rs, src/image/mod.rs (Image),
   src/image/image_drawable_ext.rs, src/iterator/raw.rs and the part of
   core/src/pixelcolor/raw/load_store.rs that ImageRaw reads through (load only).
   Definitions only (extracted to OCaml and run against the implementation).

   Colours are the raw storage values (Z); the colour types used with ImageRaw convert from
   their raw type by the identity on the bpp-bit value (checked by the correspondence).
   The data order is a boolean: false = LittleEndianMsb0 (default), true = BigEndianLsb0
   (`O::IS_ALTERNATE_ORDER`, core/src/pixelcolor/raw/mod.rs). *)
From EG Require Import Base.Prelude Model.Geometry.

Definition usize_max : Z := 18446744073709551615.
(* usize::saturating_add *)
Definition sat_add_usize (a b : Z) : Z := Z.min (a + b) usize_max.

(* ---- raw decoding (core/src/pixelcolor/raw/load_store.rs) ---------------- *)

(* load_store.rs:11-23 bit_position: (byte_index, bit_index) *)
Definition bit_position (bpp : Z) (alt : bool) (index : Z) : Z * Z :=
  let pixels_per_byte := 8 / bpp in
  let byte_index := index / pixels_per_byte in
  let bit_index :=
    (if alt then index mod pixels_per_byte
     else (pixels_per_byte - 1) - (index mod pixels_per_byte)) * bpp in
  (byte_index, bit_index).

(* u16/u32::from_le_bytes, from_be_bytes on a list of bytes *)
Fixpoint from_le_bytes (l : list Z) : Z :=
  match l with [] => 0 | b :: t => b + 256 * from_le_bytes t end.
Definition from_be_bytes (l : list Z) : Z := fold_left (fun acc b => acc * 256 + b) l 0.

(* slice.get(i) with i : usize given as a non-negative Z *)
Definition get_byte (buffer : list Z) (i : Z) : option Z := nth_error buffer (Z.to_nat i).

(* load_store.rs:29-36 (RawU1/2/4: `byte >> bit_index` then `Into::into` = RawUx::new = mask),
   :58-60 (RawU8), :71-87 (RawU16), :104-123 (RawU24), :143-159 (RawU32):
   `buffer.get(index * k..).and_then(|b| b.get(0..k))` then from_be/from_le by the data order *)
Definition raw_load (bpp : Z) (alt : bool) (buffer : list Z) (index : Z) : option Z :=
  if bpp <? 8 then
    let '(byte_index, bit_index) := bit_position bpp alt index in
    match get_byte buffer byte_index with
    | Some byte => Some ((byte / 2 ^ bit_index) mod 2 ^ bpp)
    | None => None
    end
  else if bpp =? 8 then get_byte buffer index
  else
    let k := bpp / 8 in
    if index * k <=? Z.of_nat (length buffer) then           (* buffer.get(index * k..) *)
      let rest := skipn (Z.to_nat (index * k)) buffer in
      if k <=? Z.of_nat (length rest) then                   (* rest.get(0..k) *)
        let bytes := firstn (Z.to_nat k) rest in
        Some (if alt then from_be_bytes bytes else from_le_bytes bytes)
      else None
    else None.

(* ---- RawDataIterator (src/iterator/raw.rs:113-145); the state is `index` -- *)

(* raw.rs:116-120 next: `R::load::<O>(self.data, self.index).inspect(|_| self.index += 1)` *)
Definition raw_next (bpp : Z) (alt : bool) (data : list Z) (index : Z) : option Z * Z :=
  match raw_load bpp alt data index with
  | Some v => (Some v, index + 1)
  | None => (None, index)
  end.

(* raw.rs:123-126 nth: `self.index = self.index.saturating_add(n); self.next()` *)
Definition raw_nth (bpp : Z) (alt : bool) (data : list Z) (index n : Z) : option Z * Z :=
  raw_next bpp alt data (sat_add_usize index n).

(* ---- ImageRaw (src/image/image_raw.rs) ----------------------------------- *)

Record image_raw := IR { ir_data : list Z; ir_size : size; ir_bpp : Z; ir_alt : bool }.

(* image_raw.rs:197-199 *)
Definition bytes_per_row (width bpp : Z) : Z := (width * bpp + 7) / 8.

(* image_raw.rs:145-161 new: inl image = Ok, inr expected_data_size = Err(InvalidDataSize) *)
Definition raw_new (bpp : Z) (alt : bool) (data : list Z) (s : size) : image_raw + Z :=
  let expected_size := bytes_per_row (sw s) bpp * sh s in
  if negb (Z.of_nat (length data) =? expected_size) then inr expected_size
  else inl (IR data s bpp alt).

(* image_raw.rs:174-179 new_const: `match Self::new(data, size) { Ok(image) => image, Err(..) => panic!("Invalid data size") }`
   None = the panic *)
Definition raw_new_const (bpp : Z) (alt : bool) (data : list Z) (s : size) : option image_raw :=
  match raw_new bpp alt data s with inl img => Some img | inr _ => None end.

(* image_raw.rs:185-193 *)
Definition data_width (img : image_raw) : Z :=
  if ir_bpp img <? 8 then
    let pixels_per_byte := 8 / ir_bpp img in
    bytes_per_row (sw (ir_size img)) (ir_bpp img) * pixels_per_byte
  else sw (ir_size img).

(* OriginDimensions::bounding_box: Rectangle::new(Point::zero(), self.size()) *)
Definition origin_box (s : size) : rect := R (P 0 0) s.

(* image_raw.rs:265-274 pixel *)
Definition raw_pixel (img : image_raw) (p : point) : option Z :=
  if (px p <? 0) || (py p <? 0) || (px p >=? sw (ir_size img)) || (py p >=? sh (ir_size img)) then None
  else fst (raw_nth (ir_bpp img) (ir_alt img) (ir_data img) 0 (px p + py p * data_width img)).

(* ContiguousPixels, image_raw.rs:277-290: iter (its index), remaining_x, width, remaining_y, row_skip *)
Record cpix := CP { cp_index : Z; cp_rx : Z; cp_width : Z; cp_ry : Z; cp_row_skip : Z }.

(* image_raw.rs:298-319 *)
Definition cp_new (img : image_raw) (s : size) (initial_skip row_skip : Z) : cpix :=
  let index :=
    if 0 <? initial_skip
    then snd (raw_nth (ir_bpp img) (ir_alt img) (ir_data img) 0 (initial_skip - 1))
    else 0 in
  let remaining_y := if 0 <? sw s then sat_sub_u32 (sh s) 1 else 0 in
  CP index (if 0 <? sh s then sw s else 0) (sw s) remaining_y row_skip.

(* image_raw.rs:330-346 next *)
Definition cp_next (img : image_raw) (st : cpix) : option Z * cpix :=
  if 0 <? cp_rx st then
    let '(v, i) := raw_next (ir_bpp img) (ir_alt img) (ir_data img) (cp_index st) in
    (v, CP i (cp_rx st - 1) (cp_width st) (cp_ry st) (cp_row_skip st))
  else if cp_ry st =? 0 then (None, st)
  else
    let '(v, i) := raw_nth (ir_bpp img) (ir_alt img) (ir_data img) (cp_index st) (cp_row_skip st) in
    (v, CP i (cp_width st - 1) (cp_width st) (cp_ry st - 1) (cp_row_skip st)).

(* The list the iterator yields when pulled up to its first None. None = fuel ran out. *)
Fixpoint cp_run (fuel : nat) (img : image_raw) (st : cpix) : option (list Z) :=
  match fuel with
  | O => None
  | Datatypes.S k =>
      match cp_next img st with
      | (None, _) => Some []
      | (Some c, st') =>
          match cp_run k img st' with Some l => Some (c :: l) | None => None end
      end
  end.

(* enough for every state: at most remaining_x + remaining_y * width items, then one None *)
Definition cp_fuel (st : cpix) : nat :=
  Datatypes.S (Z.to_nat (Z.max 0 (cp_rx st) + Z.max 0 (cp_ry st) * Z.max 0 (cp_width st))).

Definition cp_list (img : image_raw) (st : cpix) : list Z :=
  match cp_run (cp_fuel st) img st with Some l => l | None => [] end.

(* The one DrawTarget call the image code makes: fill_contiguous(area, colours). *)
Inductive icall := FillContiguous (area : rect) (colors : list Z).

(* image_raw.rs:209-219 draw *)
Definition raw_draw (img : image_raw) : list icall :=
  let row_skip := data_width img - sw (ir_size img) in
  [FillContiguous (origin_box (ir_size img)) (cp_list img (cp_new img (ir_size img) 0 row_skip))].

(* image_raw.rs:221-244 draw_sub_image *)
Definition raw_draw_sub_image (img : image_raw) (area : rect) : list icall :=
  if is_zero_sized area
     || (px (tl area) <? 0)
     || (py (tl area) <? 0)
     || (px (tl area) + sw (sz area) >? sw (ir_size img))
     || (py (tl area) + sh (sz area) >? sh (ir_size img))
  then []
  else
    let dw := data_width img in
    let initial_skip := py (tl area) * dw + px (tl area) in
    let row_skip := dw - sw (sz area) in
    [FillContiguous (R (P 0 0) (sz area)) (cp_list img (cp_new img (sz area) initial_skip row_skip))].

(* ---- SubImage (src/image/sub_image.rs), nested to any depth --------------- *)

Inductive drawable := Raw (img : image_raw) | Sub (parent : drawable) (area : rect).

(* OriginDimensions::size: image_raw.rs:252, sub_image.rs:42 *)
Definition d_size (d : drawable) : size :=
  match d with Raw img => ir_size img | Sub _ area => sz area end.

Definition d_box (d : drawable) : rect := origin_box (d_size d).

(* sub_image.rs:30-34 SubImage::new (image_drawable_ext.rs:22 sub_image) *)
Definition sub_image (d : drawable) (area : rect) : drawable :=
  Sub d (intersection (d_box d) area).

(* sub_image.rs:60-67 draw_sub_image (re-basing) / image_raw.rs:221 *)
Fixpoint d_draw_sub_image (d : drawable) (area : rect) : list icall :=
  match d with
  | Raw img => raw_draw_sub_image img area
  | Sub parent a => d_draw_sub_image parent (translate_rect area (tl a))
  end.

(* sub_image.rs:53-58 draw / image_raw.rs:209 *)
Definition d_draw (d : drawable) : list icall :=
  match d with
  | Raw img => raw_draw img
  | Sub parent a => d_draw_sub_image parent a
  end.

(* ---- Image (src/image/mod.rs) --------------------------------------------- *)

Record image := Img { im_drawable : drawable; im_offset : point }.

(* mod.rs Image::new *)
Definition image_new (d : drawable) (position : point) : image := Img d position.

(* mod.rs Image::with_center *)
Definition image_with_center (d : drawable) (c : point) : image :=
  Img d (tl (with_center c (d_size d))).

(* mod.rs Dimensions for Image *)
Definition image_box (i : image) : rect := translate_rect (d_box (im_drawable i)) (im_offset i).

(* mod.rs Transform for Image: translate (`offset: self.offset + by`) and translate_mut (`self.offset += by`) *)
Definition image_translate (i : image) (by_ : point) : image := Img (im_drawable i) (padd (im_offset i) by_).
Definition image_translate_mut (i : image) (by_ : point) : image := Img (im_drawable i) (padd (im_offset i) by_).

(* translated.rs fill_contiguous: `area.translate(self.offset)`, colours passed through *)
Definition translated_call (offset : point) (c : icall) : icall :=
  match c with FillContiguous area cs => FillContiguous (translate_rect area offset) cs end.

(* mod.rs Drawable for Image: `self.image_drawable.draw(&mut display.translated(self.offset))` *)
Definition image_draw (i : image) : list icall :=
  map (translated_call (im_offset i)) (d_draw (im_drawable i)).

(* ---- what a fill_contiguous call paints (DrawTarget contract: row-major pairing of the area's
   points with the colours; pixels outside the target's bounding box are dropped).  This is both the
   trait default (core/src/draw_target/mod.rs: `area.points().zip(colors)` into draw_iter) and the
   documented meaning implemented by a native target. *)
Definition call_writes (bb : rect) (c : icall) : list (point * Z) :=
  match c with
  | FillContiguous area cs => filter (fun w => contains bb (fst w)) (zip (points area) cs)
  end.

Definition call_stream_len (c : icall) : nat :=
  match c with FillContiguous _ cs => length cs end.

(* ---- C08: "every intermediate fits its Rust type" predicates, one conjunct per arithmetic site in source
   order.  usize is taken as 32 bit (the narrowest usize the library is used with; a 64 bit usize only makes the
   conditions weaker), so `as usize` / `as u32` casts between the two never truncate when the value is in_u32. *)

(* image_raw.rs:197-199 bytes_per_row: `width as usize * bits_per_pixel`, `+ 7` *)
Definition bytes_per_row_ok (width bpp : Z) : bool :=
  in_u32 (width * bpp) && in_u32 (width * bpp + 7).

(* image_raw.rs:146-147 new: bytes_per_row(..) `* size.height as usize` *)
Definition raw_new_ok (bpp : Z) (s : size) : bool :=
  bytes_per_row_ok (sw s) bpp && in_u32 (bytes_per_row (sw s) bpp * sh s).

(* image_raw.rs:185-193 data_width: `bytes_per_row(..) as u32`, `* pixels_per_byte` *)
Definition data_width_ok (img : image_raw) : bool :=
  if ir_bpp img <? 8 then
    bytes_per_row_ok (sw (ir_size img)) (ir_bpp img)
    && in_u32 (bytes_per_row (sw (ir_size img)) (ir_bpp img))
    && in_u32 (bytes_per_row (sw (ir_size img)) (ir_bpp img) * (8 / ir_bpp img))
  else true.

(* image_raw.rs:213 draw: `self.data_width() - self.size.width` (u32 subtraction) *)
Definition raw_draw_ok (img : image_raw) : bool :=
  data_width_ok img && (0 <=? data_width img - sw (ir_size img)).

(* image_raw.rs:226-241 draw_sub_image: the `||` chain evaluates left to right and stops at the first true test;
   `x as u32 + width`, `y as u32 + height`, `y as usize * data_width`, `+ x as usize`, `data_width - width as usize` *)
Definition raw_draw_sub_image_ok (img : image_raw) (area : rect) : bool :=
  if is_zero_sized area || (px (tl area) <? 0) || (py (tl area) <? 0) then true
  else
    in_u32 (px (tl area) + sw (sz area)) &&
    (if px (tl area) + sw (sz area) >? sw (ir_size img) then true
     else
       in_u32 (py (tl area) + sh (sz area)) &&
       (if py (tl area) + sh (sz area) >? sh (ir_size img) then true
        else
          data_width_ok img
          && in_u32 (py (tl area) * data_width img)
          && in_u32 (py (tl area) * data_width img + px (tl area))
          && (0 <=? data_width img - sw (sz area)))).

(* image_raw.rs:265-274 pixel: `p.y as usize * self.data_width() as usize`, `p.x as usize + ..` *)
Definition raw_pixel_ok (img : image_raw) (p : point) : bool :=
  if (px p <? 0) || (py p <? 0) || (px p >=? sw (ir_size img)) || (py p >=? sh (ir_size img)) then true
  else data_width_ok img && in_u32 (py p * data_width img) && in_u32 (px p + py p * data_width img).

(* image_raw.rs:301-303 ContiguousPixels::new: `initial_skip - 1` under `initial_skip > 0` *)
Definition cp_new_ok (initial_skip : Z) : bool :=
  if 0 <? initial_skip then 0 <=? initial_skip - 1 else true.

(* image_raw.rs:330-346 next: `remaining_x -= 1`, `remaining_y -= 1`, `self.width - 1` (all u32) *)
Definition cp_next_ok (st : cpix) : bool :=
  if 0 <? cp_rx st then 0 <=? cp_rx st - 1
  else if cp_ry st =? 0 then true
  else (0 <=? cp_ry st - 1) && (0 <=? cp_width st - 1).

(* sub_image.rs:64 `area.translate(self.area.top_left)`, translated.rs `area.translate(self.offset)`,
   mod.rs Image::translate `self.offset + by`: i32 additions *)
Definition padd_ok (a b : point) : bool := in_i32 (px a + px b) && in_i32 (py a + py b).
