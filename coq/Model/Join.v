(* Model of the thick stroke join machinery:
     src/geometry/mod.rs (PointExt), src/primitives/common/linear_equation.rs (LinearEquation),
     src/primitives/line/intersection_params.rs, src/primitives/common/line_join.rs,
     src/primitives/common/thick_segment.rs, thick_segment_iter.rs, closed_thick_segment_iter.rs,
     src/primitives/common/scanline.rs, and the thick polyline pipeline that drives them
     (src/primitives/polyline/{scanline_intersections,scanline_iterator,styled}.rs).
   Line::extents (src/primitives/line/mod.rs:110-172) is Model/Thickline.v `extents`; it carries fuel and
   answers None when the fuel runs out, so everything built on it here is option valued as well.
   Definitions only.  Plain + - * are unbounded (see DESIGN.md section 2); the one saturating cast of this
   code (round_div's `saturating_as::<i32>()`) is modelled as saturating. *)
From EG Require Import Base.Prelude Model.Geometry Model.Style Model.Line Model.Thickline.

(* az::SaturatingAs i64 -> i32 *)
Definition sat_as_i32 (x : Z) : Z := Z.max i32_min (Z.min x i32_max).

(* i64::div_euclid for a non-zero divisor: the quotient q with a = b*q + r, 0 <= r < |b| *)
Definition div_euclid (a b : Z) : Z := if 0 <? b then a / b else - (a / (- b)).

(* ---- geometry/mod.rs:38-52  PointExt ------------------------------------------------------ *)
Definition rotate_90 (p : point) : point := P (- py p) (px p).
Definition dot_product (a b : point) : Z := px a * px b + py a * py b.
Definition determinant (a b : point) : Z := px a * py b - py a * px b.

(* line/mod.rs:180-182 Line::delta, 175-177 Line::midpoint (Point / i32 truncates) *)
Definition line_delta (l : line) : point := psub (l_end l) (l_start l).
Definition line_midpoint (l : line) : point :=
  let d := line_delta l in padd (l_start l) (P (Z.quot (px d) 2) (Z.quot (py d) 2)).
(* line/mod.rs:69-71 *)
Definition line_bounding_box (l : line) : rect := with_corners (l_start l) (l_end l).

(* ---- common/linear_equation.rs:13-67  LinearEquation --------------------------------------- *)
Record lineq := LE { normal_vector : point; origin_distance : Z }.

(* linear_equation.rs:37-45 *)
Definition le_from_line (l : line) : lineq :=
  let n := rotate_90 (line_delta l) in
  LE n (dot_product (l_start l) n).

(* linear_equation.rs:52-54 *)
Definition le_distance (e : lineq) (p : point) : Z :=
  dot_product p (normal_vector e) - origin_distance e.

(* linear_equation.rs:59-66 *)
Definition le_check_side (e : lineq) (p : point) (s : side) : bool :=
  match s with
  | SLeft => le_distance e p <=? 0
  | SRight => 0 <=? le_distance e p
  end.

(* ---- line/intersection_params.rs ----------------------------------------------------------- *)
Inductive isect := IPoint (p : point) (outer : side) | IColinear.

Record iparams := IP {
  ip_line1 : line; ip_line2 : line;
  ip_le1 : lineq; ip_le2 : lineq;
  ip_den : Z
}.

(* intersection_params.rs:59-71 *)
Definition ip_from_lines (l1 l2 : line) : iparams :=
  let le1 := le_from_line l1 in
  let le2 := le_from_line l2 in
  IP l1 l2 le1 le2 (determinant (normal_vector le1) (normal_vector le2)).

(* intersection_params.rs:75-80 *)
Definition nearly_colinear_has_error (ip : iparams) : bool :=
  ip_den ip * ip_den ip <? Z.abs (dot_product (line_delta (ip_line1 ip)) (line_delta (ip_line2 ip))).

(* intersection_params.rs:110-122: the closure round_div, before the cast *)
Definition round_div_raw (den num : Z) : Z :=
  let '(n, d) := if den <? 0 then (- num, - den) else (num, den) in
  div_euclid (n + Z.quot d 2) d.
Definition round_div (den num : Z) : Z := sat_as_i32 (round_div_raw den num).

(* intersection_params.rs:124-125: the closure determinant on pairs *)
Definition det2 (a0 a1 b0 b1 : Z) : Z := a0 * b1 - a1 * b0.

(* intersection_params.rs:129-137 *)
Definition ip_x_numerator (ip : iparams) : Z :=
  det2 (origin_distance (ip_le1 ip)) (origin_distance (ip_le2 ip))
       (py (normal_vector (ip_le1 ip))) (py (normal_vector (ip_le2 ip))).
Definition ip_y_numerator (ip : iparams) : Z :=
  det2 (px (normal_vector (ip_le1 ip))) (px (normal_vector (ip_le2 ip)))
       (origin_distance (ip_le1 ip)) (origin_distance (ip_le2 ip)).

(* intersection_params.rs:83-144 *)
Definition ip_intersection (ip : iparams) : isect :=
  let den := ip_den ip in
  if den =? 0 then IColinear
  else
    let outer := if den <? 0 then SLeft else SRight in
    IPoint (P (round_div den (ip_x_numerator ip)) (round_div den (ip_y_numerator ip))) outer.

(* the same point before the saturating cast (used to state when the cast is the identity) *)
Definition ip_intersection_raw (ip : iparams) : point :=
  P (round_div_raw (ip_den ip) (ip_x_numerator ip)) (round_div_raw (ip_den ip) (ip_y_numerator ip)).

(* ---- common/line_join.rs -------------------------------------------------------------------- *)
Inductive join_kind :=
  JMiter | JBevel (outer : side) | JDegenerate (outer : side) | JColinear | JStart | JEnd.

Record corners := EC { ec_left : point; ec_right : point }.

Record line_join := LJ {
  lj_kind : join_kind;
  first_edge_end : corners;
  second_edge_start : corners
}.

(* line_join.rs:75-91 *)
Definition lj_start (start mid : point) (w : Z) (so : stroke_offset) : option line_join :=
  match extents (L start mid) w so with
  | Some (l, r) => let pts := EC (l_start l) (l_start r) in Some (LJ JStart pts pts)
  | None => None
  end.

(* line_join.rs:96-112 *)
Definition lj_end (mid end_ : point) (w : Z) (so : stroke_offset) : option line_join :=
  match extents (L mid end_) w so with
  | Some (l, r) => let pts := EC (l_end l) (l_end r) in Some (LJ JEnd pts pts)
  | None => None
  end.

(* line_join.rs:115-128 *)
Definition lj_empty : line_join := LJ JEnd (EC (P 0 0) (P 0 0)) (EC (P 0 0) (P 0 0)).

(* line_join.rs:297-332  fn intersections *)
Definition intersections (fl fr sl sr : line) : option (point * side * point) :=
  let params := ip_from_lines sl fl in
  match ip_intersection params with
  | IColinear => None
  | IPoint point outer =>
      let li := if negb (nearly_colinear_has_error params) then point else l_end fl in
      let params2 := ip_from_lines sr fr in
      match ip_intersection params2 with
      | IColinear => None
      | IPoint point2 _ =>
          let ri := if negb (nearly_colinear_has_error params2) then point2 else l_end fr in
          Some (li, outer, ri)
      end
  end.

(* line_join.rs:131-240  LineJoin::from_points, given the four extents lines *)
Definition lj_from_extents (mid : point) (w : Z) (fl fr sl sr : line) : line_join :=
  match intersections fl fr sl sr with
  | Some (li, outer, ri) =>
      let self_intersection :=
        match outer with
        | SRight => le_check_side (le_from_line fl) (l_end sl) SRight
        | SLeft => le_check_side (le_from_line fr) (l_end sr) SLeft
        end in
      if negb self_intersection then
        let miter_delta := psub (match outer with SLeft => li | SRight => ri end) mid in
        let miter_length_squared := px miter_delta * px miter_delta + py miter_delta * py miter_delta in
        let miter_limit := (w * 2) * (w * 2) in
        if miter_length_squared <=? miter_limit then
          let c := EC li ri in LJ JMiter c c
        else
          match outer with
          | SRight => LJ (JBevel outer) (EC li (l_end fr)) (EC li (l_start sr))
          | SLeft => LJ (JBevel outer) (EC (l_end fl) ri) (EC (l_start sl) ri)
          end
      else
        LJ (JDegenerate outer) (EC (l_end fl) (l_end fr)) (EC (l_start sl) (l_start sr))
  | None =>
      LJ JColinear (EC (l_end fl) (l_end fr)) (EC (l_start sl) (l_start sr))
  end.

Definition lj_from_points (start mid end_ : point) (w : Z) (so : stroke_offset) : option line_join :=
  match extents (L start mid) w so, extents (L mid end_) w so with
  | Some (fl, fr), Some (sl, sr) => Some (lj_from_extents mid w fl fr sl sr)
  | _, _ => None
  end.

(* line_join.rs:243-262 *)
Definition filler_line (j : line_join) : option line :=
  match lj_kind j with
  | JBevel outer | JDegenerate outer =>
      Some (match outer with
            | SLeft => L (ec_left (first_edge_end j)) (ec_left (second_edge_start j))
            | SRight => L (ec_right (first_edge_end j)) (ec_right (second_edge_start j))
            end)
  | _ => None
  end.

(* line_join.rs:264-275 *)
Definition lj_cap (j : line_join) (cap : corners) : line * option line :=
  match filler_line j with
  | Some filler =>
      let m := line_midpoint filler in
      (L (ec_left cap) m, Some (L m (ec_right cap)))
  | None => (L (ec_left cap) (ec_right cap), None)
  end.

(* line_join.rs:280-289 *)
Definition start_cap_lines (j : line_join) := lj_cap j (second_edge_start j).
Definition end_cap_lines (j : line_join) := lj_cap j (first_edge_end j).

(* line_join.rs:292-294 *)
Definition is_degenerate (j : line_join) : bool :=
  match lj_kind j with JDegenerate _ => true | _ => false end.

(* ---- common/scanline.rs ---------------------------------------------------------------------- *)
Record scanline := SL { sl_y : Z; sl_x0 : Z; sl_x1 : Z }.

Definition sl_new_empty (y : Z) : scanline := SL y 0 0.
(* Range::is_empty *)
Definition sl_is_empty (s : scanline) : bool := negb (sl_x0 s <? sl_x1 s).

(* scanline.rs:33-41 *)
Definition sl_extend (s : scanline) (x : Z) : scanline :=
  if sl_is_empty s then SL (sl_y s) x (x + 1)
  else if x <? sl_x0 s then SL (sl_y s) x (sl_x1 s)
  else if sl_x1 s <=? x then SL (sl_y s) (sl_x0 s) (x + 1)
  else s.

Fixpoint skip_while {A} (f : A -> bool) (l : list A) : list A :=
  match l with [] => [] | x :: t => if f x then skip_while f t else l end.

(* scanline.rs:47-68 *)
Definition bresenham_intersection (s : scanline) (l : line) : scanline :=
  let y0 := Z.min (py (l_start l)) (py (l_end l)) in
  let y1 := Z.max (py (l_start l)) (py (l_end l)) in
  if negb ((y0 <=? sl_y s) && (sl_y s <=? y1)) then s
  else
    let y := sl_y s in
    fold_left (fun acc p => sl_extend acc (px p))
              (take_while (fun p => py p =? y) (skip_while (fun p => negb (py p =? y)) (line_points l)))
              s.

(* RangeInclusive::contains *)
Definition in_incl (a b x : Z) : bool := (a <=? x) && (x <=? b).

(* scanline.rs:73-92 *)
Definition sl_touches (s o : scanline) : bool :=
  if sl_is_empty s || sl_is_empty o then false
  else
    in_incl (sl_x0 s - 1) (sl_x1 s) (sl_x0 o) || in_incl (sl_x0 s - 1) (sl_x1 s) (sl_x1 o - 1)
    || in_incl (sl_x0 o - 1) (sl_x1 o) (sl_x0 s) || in_incl (sl_x0 o - 1) (sl_x1 o) (sl_x1 s - 1).

(* scanline.rs:100-115: (extended?, new self) *)
Definition sl_try_extend (s o : scanline) : bool * scanline :=
  if sl_touches s o then (true, SL (sl_y s) (Z.min (sl_x0 s) (sl_x0 o)) (Z.max (sl_x1 s) (sl_x1 o)))
  else (false, s).

(* scanline.rs:118-126 *)
Definition sl_to_rectangle (s : scanline) : rect :=
  let w := if negb (sl_is_empty s) then sl_x1 s - sl_x0 s else 0 in
  R (P (sl_x0 s) (sl_y s)) (S w 1).

(* scanline.rs:162-168  <Scanline as Iterator>: the points it yields *)
Definition sl_points (s : scanline) : list point :=
  map (fun x => P x (sl_y s)) (range (sl_x0 s) (sl_x1 s)).

(* ---- common/thick_segment.rs ------------------------------------------------------------------ *)
Record thick_segment := TS { ts_start_join : line_join; ts_end_join : line_join }.

(* thick_segment.rs:27-29 *)
Definition is_skeleton (t : thick_segment) : bool :=
  point_eqb (ec_left (first_edge_end (ts_start_join t))) (ec_right (first_edge_end (ts_start_join t))).

(* thick_segment.rs:32-43: (right edge, left edge) *)
Definition ts_edges (t : thick_segment) : line * line :=
  (L (ec_right (second_edge_start (ts_start_join t))) (ec_right (first_edge_end (ts_end_join t))),
   L (ec_left (first_edge_end (ts_end_join t))) (ec_left (second_edge_start (ts_start_join t)))).

(* thick_segment.rs:50-71 (a skeleton is boxed by the edge that is drawn, the right one: repair 3241194) *)
Definition edges_bounding_box (t : thick_segment) : rect :=
  let '(r, l) := ts_edges t in
  if is_skeleton t then line_bounding_box r
  else
    with_corners
      (component_min (component_min (component_min (l_start r) (l_end r)) (l_start l)) (l_end l))
      (component_max (component_max (component_max (l_start r) (l_end r)) (l_start l)) (l_end l)).

Definition bi_opt (s : scanline) (o : option line) : scanline :=
  match o with Some l => bresenham_intersection s l | None => s end.

(* thick_segment.rs:72-99 *)
Definition ts_intersection (t : thick_segment) (y : Z) : scanline :=
  let s := sl_new_empty y in
  if is_skeleton t then bresenham_intersection s (fst (ts_edges t))
  else
    let '(a1, a2) := start_cap_lines (ts_start_join t) in
    let s := bi_opt (bresenham_intersection s a1) a2 in
    let '(b1, b2) := end_cap_lines (ts_end_join t) in
    let s := bi_opt (bresenham_intersection s b1) b2 in
    let '(e1, e2) := ts_edges t in
    bresenham_intersection (bresenham_intersection s e1) e2.

(* ---- common/thick_segment_iter.rs: the list of segments the iterator yields ------------------- *)
Fixpoint windows3 (l : list point) : list (point * point * point) :=
  match l with
  | a :: ((b :: c :: _) as t) => (a, b, c) :: windows3 t
  | _ => []
  end.

(* thick_segment_iter.rs:88-113  Iterator::next, unrolled: state = (windows, start_join, end_join);
   `last2` = (points[len-2], points[len-1]) *)
Fixpoint tsi_run (ws : list (point * point * point)) (sj ej : line_join) (last2 : point * point)
                 (w : Z) (fuel : nat) : option (list thick_segment) :=
  match fuel with
  | O => None
  | Datatypes.S f =>
      let seg := TS sj ej in
      match ws with
      | (a, b, c) :: ws' =>
          match lj_from_points a b c w SONone with
          | Some ej' => option_map (cons seg) (tsi_run ws' ej ej' last2 w f)
          | None => None
          end
      | [] =>
          match lj_kind ej with
          | JEnd => Some [seg]
          | _ =>
              match lj_end (fst last2) (snd last2) w SONone with
              | Some ej' => option_map (cons seg) (tsi_run [] ej ej' last2 w f)
              | None => None
              end
          end
      end
  end.

(* thick_segment_iter.rs:30-69  ThickSegmentIter::new (the stroke offset argument is ignored there) *)
Definition thick_segment_iter (pts : list point) (w : Z) : option (list thick_segment) :=
  match pts with
  | a :: b :: c :: _ =>
      match lj_start a b w SONone, lj_from_points a b c w SONone, last_opt pts, last_opt (removelast pts) with
      | Some sj, Some ej, Some z, Some y =>
          tsi_run (List.tl (windows3 pts)) sj ej (y, z) w (Datatypes.S (length pts))
      | _, _, _, _ => None
      end
  | [a; b] =>
      match lj_start a b w SONone, lj_end a b w SONone with
      | Some sj, Some ej => tsi_run [] sj ej (a, b) w 2%nat
      | _, _ => None
      end
  | _ => Some []
  end.

(* ---- common/closed_thick_segment_iter.rs: the list of segments ---------------------------------- *)
(* closed_thick_segment_iter.rs:92-124  Iterator::next, unrolled; idx is the value before `self.idx += 1` *)
Fixpoint ctsi_run (ws : list (point * point * point)) (sj first : line_join) (idx : nat)
                  (pts : list point) (w : Z) (so : stroke_offset) (fuel : nat) : option (list thick_segment) :=
  match fuel with
  | O => None
  | Datatypes.S f =>
      let idx := Datatypes.S idx in
      match ws with
      | (a, b, c) :: ws' =>
          match lj_from_points a b c w so with
          | Some ej => option_map (cons (TS sj ej)) (ctsi_run ws' ej first idx pts w so f)
          | None => None
          end
      | [] =>
          if Nat.eqb idx (length pts) then
            match last_opt (removelast pts), last_opt pts, pts with
            | Some a, Some b, c :: _ =>
                match lj_from_points a b c w so with
                | Some ej => option_map (cons (TS sj ej)) (ctsi_run [] ej first idx pts w so f)
                | None => None
                end
            | _, _, _ => Some []          (* the `?` on get(len - 2) *)
            end
          else Some [TS sj first]
      end
  end.

(* closed_thick_segment_iter.rs:35-74 *)
Definition closed_thick_segment_iter (pts : list point) (w : Z) (so : stroke_offset) : option (list thick_segment) :=
  match pts with
  | [a; b] =>
      match lj_start a b w so with
      | Some sj => ctsi_run [] sj sj 1 pts w so 4%nat
      | None => None
      end
  | [] => Some []
  | [_] => None                            (* points[1] panics; never constructed by the library *)
  | a :: b :: _ =>
      match last_opt pts with
      | Some z =>
          match lj_from_points z a b w so with
          | Some sj => ctsi_run (windows3 pts) sj sj 1 pts w so (length pts + 3)%nat
          | None => None
          end
      | None => None
      end
  end.

(* fold of polyline/styled.rs:21-35 and triangle/styled.rs:136-153 over the segments *)
Definition segments_bounding_box (segs : list thick_segment) : rect :=
  let '(mn, mx) :=
    fold_left (fun (acc : point * point) seg =>
                 let bb := edges_bounding_box seg in
                 (component_min (fst acc) (tl bb),
                  component_max (snd acc) (match bottom_right bb with Some br => br | None => tl bb end)))
              segs (P i32_max i32_max, P i32_min i32_min) in
  with_corners mn mx.

(* ---- thick polylines: polyline/scanline_intersections.rs, scanline_iterator.rs, styled.rs --------- *)
(* scanline_intersections.rs:60-80  next_segment, iterated: all segments of one pass *)
Fixpoint si_segments (sj : line_join) (rem : list point) (w : Z) : option (list thick_segment) :=
  match rem with
  | a :: ((b :: c :: _) as t) =>
      match lj_from_points a b c w SONone with
      | Some ej => option_map (cons (TS sj ej)) (si_segments ej t w)
      | None => None
      end
  | [a; b] =>
      match lj_end a b w SONone with
      | Some ej => Some [TS sj ej]
      | None => None
      end
  | _ => Some []
  end.

(* scanline_intersections.rs:28-43 new + 60-80 *)
Definition poly_segments (pts : list point) (w : Z) : option (list thick_segment) :=
  match pts with
  | a :: b :: _ =>
      match lj_start a b w SONone with
      | Some sj => si_segments sj pts w
      | None => None
      end
  | _ => Some []
  end.

(* scanline_intersections.rs:108-126  <ScanlineIntersections as Iterator>: everything one pass yields *)
Fixpoint si_merge (acc : scanline) (segs : list thick_segment) : list scanline :=
  match segs with
  | [] => if sl_is_empty acc then [] else [acc]
  | seg :: rest =>
      let next := ts_intersection seg (sl_y acc) in
      let '(ext, acc') := sl_try_extend acc next in
      if ext then si_merge acc' rest else acc :: si_merge next rest
  end.

(* polyline/styled.rs:16-41  untranslated_bounding_box for an effective stroke colour and > 1 vertices *)
Definition poly_thick_bounding_box (pts : list point) (w : Z) : option rect :=
  match thick_segment_iter pts w with
  | Some segs => Some (segments_bounding_box segs)
  | None => None
  end.

(* scanline_iterator.rs:29-78: all non-empty scanlines, row by row *)
Definition poly_scanlines (pts : list point) (w : Z) : option (list scanline) :=
  match pts with
  | _ :: _ :: _ =>
      match poly_thick_bounding_box pts w, poly_segments pts w with
      | Some bb, Some segs =>
          let '(y0, y1) := rows bb in
          Some (flat_map (fun y => filter (fun s => negb (sl_is_empty s)) (si_merge (sl_new_empty y) segs))
                         (range y0 y1))
      | _, _ => None
      end
  | _ => Some []
  end.

(* polyline/styled.rs:74-131  StyledPixelsIterator for stroke_width > 1 (points only; one colour) *)
Definition poly_thick_points (pts : list point) (translate : point) (w : Z) : option (list point) :=
  match poly_scanlines pts w with
  | Some ls => Some (map (fun p => padd p translate) (flat_map sl_points ls))
  | None => None
  end.

(* polyline/styled.rs:43-60 draw_thick: the rectangles handed to fill_solid (before the target translation) *)
Definition poly_thick_rects (pts : list point) (w : Z) : option (list rect) :=
  match poly_scanlines pts w with
  | Some ls => Some (filter (fun r => negb (is_zero_sized r)) (map sl_to_rectangle ls))
  | None => None
  end.

(* ---- translation of the values above -------------------------------------------------------------- *)
Definition tr_corners (d : point) (c : corners) : corners := EC (padd (ec_left c) d) (padd (ec_right c) d).
Definition tr_join (d : point) (j : line_join) : line_join :=
  LJ (lj_kind j) (tr_corners d (first_edge_end j)) (tr_corners d (second_edge_start j)).
Definition tr_segment (d : point) (t : thick_segment) : thick_segment :=
  TS (tr_join d (ts_start_join t)) (tr_join d (ts_end_join t)).
Definition tr_isect (d : point) (i : isect) : isect :=
  match i with IPoint p o => IPoint (padd p d) o | IColinear => IColinear end.

(* ---- hypotheses of the translation theorems (Proofs/Join.v), as computable predicates -------------------
   They are part of the extracted model so that the oracle can report, for every generated case, whether the
   theorems' hypotheses hold on it. *)
(* the cast is the identity on a point *)
Definition pt_in_i32 (p : point) : bool := in_i32 (px p) && in_i32 (py p).

(* `ip` does not reach the saturating cast: colinear, or the rounded quotient fits an i32 *)
Definition isect_nosat (ip : iparams) : bool :=
  (ip_den ip =? 0) || pt_in_i32 (ip_intersection_raw ip).


(* `fn intersections` uses the rounded point of an IntersectionParams only when nearly_colinear_has_error
   is false; the saturating cast is therefore irrelevant when the check fires *)
Definition isect_used_nosat (ip : iparams) : bool := nearly_colinear_has_error ip || isect_nosat ip.


(* no cast is reached by a used point, for the left and for the right pair of edges *)
Definition edges_nosat (fl fr sl sr : line) : bool :=
  isect_used_nosat (ip_from_lines sl fl) && isect_used_nosat (ip_from_lines sr fr).


(* the no-saturation hypothesis of LineJoin::from_points, read off the model: for both pairs of thick-line
   edges, the rounded intersection fits an i32 whenever it is used *)
Definition join_nosat (start mid end_ : point) (w : Z) (so : stroke_offset) : bool :=
  match extents (L start mid) w so, extents (L mid end_) w so with
  | Some (fl, fr), Some (sl, sr) => edges_nosat fl fr sl sr
  | _, _ => true
  end.


(* no saturating cast is reached in the join of a window of three vertices, before and after the move *)
Definition win_nosat (w : Z) (so : stroke_offset) (d : point) (t : point * point * point) : bool :=
  join_nosat (fst (fst t)) (snd (fst t)) (snd t) w so &&
  join_nosat (padd (fst (fst t)) d) (padd (snd (fst t)) d) (padd (snd t) d) w so.

Definition poly_nosat (pts : list point) (w : Z) (d : point) : bool :=
  forallb (win_nosat w SONone d) (windows3 pts).


(* the corners of every thick segment lie within +-2^29 (Proofs/Join.v: poly_box_ok is the Prop form) *)
Definition jbig : Z := 536870912. (* 2^29 *)
Definition jpt_bigb (p : point) : bool :=
  (- jbig <=? px p) && (px p <=? jbig) && (- jbig <=? py p) && (py p <=? jbig).
Definition seg_okb (t : thick_segment) : bool :=
  jpt_bigb (l_start (fst (ts_edges t))) && jpt_bigb (l_end (fst (ts_edges t))) &&
  jpt_bigb (l_start (snd (ts_edges t))) && jpt_bigb (l_end (snd (ts_edges t))).
Definition poly_box_okb (pts : list point) (w : Z) : bool :=
  match thick_segment_iter pts w with Some segs => forallb seg_okb segs | None => true end.

(* all hypotheses of the composition theorems for the polyline `pts`, width w, moved by d *)
Definition poly_hyps (pts : list point) (w : Z) (d : point) : bool :=
  poly_nosat pts w d && poly_box_okb pts w && poly_box_okb (map (fun p => padd p d) pts) w.
