(* Model of the thick stroke pipeline of triangles, the second consumer of the join machinery (the only one that
   reaches LineJoin::from_points with StrokeOffset::Left / Right):
     src/primitives/triangle/mod.rs (area_doubled, sorted_clockwise, sorted_yx, scanline_intersection, joins, is_collapsed),
     src/primitives/triangle/scanline_intersections.rs, scanline_iterator.rs, styled.rs.
   Vertices are passed as three points.  Definitions only. *)
From EG Require Import Base.Prelude Model.Geometry Model.Style Model.Line Model.Thickline Model.Join.

Definition tri3 := (point * point * point)%type.

(* triangle/mod.rs:181-185  (`-p2.y * p3.x` is `(-p2.y) * p3.x`) *)
Definition jt_area_doubled (t : tri3) : Z :=
  let '(p1, p2, p3) := t in
  (- py p2) * px p3 + py p1 * (px p3 - px p2) + px p1 * (py p2 - py p3) + px p2 * py p3.

(* triangle/mod.rs:325-333 *)
Definition jt_sort_two_yx (p1 p2 : point) : point * point :=
  if (py p1 <? py p2) || ((py p1 =? py p2) && (px p1 <? px p2)) then (p1, p2) else (p2, p1).

(* triangle/mod.rs:202-210 *)
Definition jt_sorted_yx (t : tri3) : tri3 :=
  let '(p1, p2, p3) := t in
  let '(y1, y2) := jt_sort_two_yx p1 p2 in
  let '(y1, y3) := jt_sort_two_yx p3 y1 in
  let '(y2, y3) := jt_sort_two_yx y3 y2 in
  (y1, y2, y3).

(* triangle/mod.rs:188-197 *)
Definition jt_sorted_clockwise (t : tri3) : tri3 :=
  let '(p1, p2, p3) := t in
  match jt_area_doubled t ?= 0 with
  | Lt => (p2, p1, p3)
  | Gt => t
  | Eq => jt_sorted_yx t
  end.

(* triangle/mod.rs:140-151 *)
Definition jt_bounding_box (t : tri3) : rect :=
  let '(p1, p2, p3) := t in
  with_corners (P (Z.min (Z.min (px p1) (px p2)) (px p3)) (Z.min (Z.min (py p1) (py p2)) (py p3)))
               (P (Z.max (Z.max (px p1) (px p2)) (px p3)) (Z.max (Z.max (py p1) (py p2)) (py p3))).

(* triangle/mod.rs:212-232 *)
Definition jt_scanline_intersection (t : tri3) (y : Z) : scanline :=
  let '(p1, p2, p3) := jt_sorted_yx t in
  let s := sl_new_empty y in
  if jt_area_doubled t =? 0 then bresenham_intersection s (L p1 p3)
  else bresenham_intersection (bresenham_intersection (bresenham_intersection s (L p1 p2)) (L p1 p3)) (L p2 p3).

(* common/mod.rs:36-44  From<StrokeAlignment> for StrokeOffset *)
Definition so_of_alignment (a : alignment) : stroke_offset :=
  match a with Inside => SORight | Outside => SOLeft | Center => SONone end.

Definition so_eqb (a b : stroke_offset) : bool :=
  match a, b with SONone, SONone | SOLeft, SOLeft | SORight, SORight => true | _, _ => false end.

(* triangle/mod.rs:256-281: the closure of `any` in is_collapsed for the join `j` and the opposite side a -> b *)
Definition collapsed_one (j : option line_join) (a b : point) (w : Z) (so : stroke_offset) : option bool :=
  match j with
  | None => None
  | Some j =>
      if is_degenerate j then Some true
      else
        match extents (L a b) w so with
        | Some (_, opposite) => Some (le_check_side (le_from_line opposite) (ec_right (first_edge_end j)) SLeft)
        | None => None
        end
  end.

(* triangle/mod.rs:249-283  is_collapsed (on the clockwise triangle); `any` stops at the first true *)
Definition jt_is_collapsed (t : tri3) (w : Z) (so : stroke_offset) : option bool :=
  let '(p1, p2, p3) := t in
  match collapsed_one (lj_from_points p3 p1 p2 w so) p2 p3 w so with
  | None => None
  | Some true => Some true
  | Some false =>
      match collapsed_one (lj_from_points p1 p2 p3 w so) p3 p1 w so with
      | None => None
      | Some true => Some true
      | Some false => collapsed_one (lj_from_points p2 p3 p1 w so) p1 p2 w so
      end
  end.

Definition vtx (t : tri3) (i : nat) : point :=
  let '(p1, p2, p3) := t in
  match Nat.modulo i 3 with O => p1 | Datatypes.S O => p2 | _ => p3 end.

(* scanline_intersections.rs:86-106: the thick segment of edge idx and its intersection with the scanline *)
Definition jt_edge_scanline (t : tri3) (w : Z) (so : stroke_offset) (idx : nat) (y : Z) : option scanline :=
  match lj_from_points (vtx t idx) (vtx t (idx + 1)) (vtx t (idx + 2)) w so,
        lj_from_points (vtx t (idx + 1)) (vtx t (idx + 2)) (vtx t (idx + 3)) w so with
  | Some s, Some e => Some (ts_intersection (TS s e) y)
  | _, _ => None
  end.

(* scanline_intersections.rs:108-122: one step of the while loop on the pair (left, right) *)
Definition jt_edge_step (lr : scanline * scanline) (sc : scanline) : scanline * scanline :=
  let '(lft, rgt) := lr in
  if negb (sl_is_empty lft) then
    let '(ext, lft') := sl_try_extend lft sc in
    if ext then (lft', rgt)
    else if negb (sl_is_empty rgt) then (lft, snd (sl_try_extend rgt sc))
    else (lft, sc)
  else (sc, rgt).

(* scanline_intersections.rs:80-133  edge_intersections: the (at most two) scanlines the iterator yields *)
Definition jt_edge_intersections (t : tri3) (w : Z) (so : stroke_offset) (y : Z) : option (list scanline) :=
  if w =? 0 then Some []
  else
    match jt_edge_scanline t w so 0 y, jt_edge_scanline t w so 1 y, jt_edge_scanline t w so 2 y with
    | Some s0, Some s1, Some s2 =>
        let e := sl_new_empty y in
        let '(lft, rgt) := jt_edge_step (jt_edge_step (jt_edge_step (e, e) s0) s1) s2 in
        let '(ext, lft') := sl_try_extend lft rgt in
        let '(lft, rgt) := if ext then (lft', e) else (lft, rgt) in
        Some (filter (fun s => negb (sl_is_empty s)) [lft; rgt])
    | _, _, _ => None
    end.

Inductive point_type := PStroke | PFill.

(* scanline_intersections.rs:135-189 generate_lines + 192-207 Iterator::next: what one row yields, in order *)
Definition jt_row (t : tri3) (w : Z) (so : stroke_offset) (has_fill collapsed : bool) (y : Z)
  : option (list (scanline * point_type)) :=
  if collapsed then
    let i := jt_scanline_intersection t y in
    Some (if sl_is_empty i then [] else [(i, PStroke)])
  else
    match jt_edge_intersections t w so y with
    | None => None
    | Some es =>
        let internal :=
          if has_fill then
            match es with
            | [f; s] => SL y (Z.min (sl_x1 f) (sl_x1 s)) (Z.max (sl_x0 f) (sl_x0 s))
            | [] => jt_scanline_intersection t y
            | _ => sl_new_empty y
            end
          else sl_new_empty y in
        Some ((if sl_is_empty internal then [] else [(internal, PFill)]) ++ map (fun s => (s, PStroke)) es)
    end.

(* triangle/styled.rs:128-157  styled_bounding_box *)
Definition jt_styled_bounding_box (t : tri3) (w : Z) (al : alignment) : option rect :=
  match al with
  | Inside => Some (jt_bounding_box t)
  | _ =>
      if w <? 2 then Some (jt_bounding_box t)
      else
        let '(a, b, c) := jt_sorted_clockwise t in
        match closed_thick_segment_iter [a; b; c] w (so_of_alignment al) with
        | Some segs => Some (segments_bounding_box segs)
        | None => None
        end
  end.

Fixpoint all_some {A} (l : list (option A)) : option (list A) :=
  match l with
  | [] => Some []
  | Some x :: t => option_map (cons x) (all_some t)
  | None :: _ => None
  end.

(* what every row of the styled bounding box yields *)
Definition jt_rows (t : tri3) (w : Z) (al : alignment) (has_fill : bool) : option (list (list (scanline * point_type))) :=
  let so := so_of_alignment al in
  let ct := jt_sorted_clockwise t in
  match jt_styled_bounding_box t w al, jt_is_collapsed ct w so with
  | Some bb, Some coll =>
      (* scanline_intersections.rs:41-48: a stroke of width zero never covers the interior *)
      let collapsed := (0 <? w) && coll && so_eqb so SORight in
      let '(y0, y1) := rows bb in
      all_some (map (jt_row ct w so has_fill collapsed) (range y0 y1))
  | _, _ => None
  end.

(* scanline_iterator.rs:62-72  next(): when a row is used up the next row is loaded and its first line returned;
   a row that yields nothing therefore ends a `for` loop *)
Fixpoint jt_go {A} (rs : list (list A)) : list A :=
  match rs with
  | [] => []
  | r :: rest => match r with [] => [] | _ => r ++ jt_go rest end
  end.

(* the sequence a `for` loop sees (draw_styled) *)
Definition jt_for_sequence {A} (rs : list (list A)) : list A :=
  match rs with [] => [] | r0 :: rest => r0 ++ jt_go rest end.

(* the sequence StyledPixelsIterator sees: it calls next() once in new() and ignores a None there
   (styled.rs:36-38), then goes on calling next() until the first None *)
Definition jt_pixels_sequence {A} (rs : list (list A)) : list A :=
  match rs with
  | [] :: [] :: rest => jt_go rest
  | _ => jt_for_sequence rs
  end.

Definition jt_color (w : Z) (fill : option Z) (k : point_type) : option Z :=
  match k with PStroke => if 0 <? w then Some 1 else None | PFill => fill end.

(* triangle/styled.rs:26-85  pixels() with stroke colour 1 and the given fill colour *)
Definition jt_pixels (t : tri3) (w : Z) (al : alignment) (fill : option Z) : option (list (point * Z)) :=
  match jt_rows t w al (match fill with Some _ => true | None => false end) with
  | Some rs =>
      Some (flat_map (fun lk : scanline * point_type =>
                        match jt_color w fill (snd lk) with
                        | Some c => map (fun p => (p, c)) (sl_points (fst lk))
                        | None => []
                        end) (jt_pixels_sequence rs))
  | None => None
  end.

(* triangle/styled.rs:90-125  draw_styled: the fill_solid calls (rectangle, colour) *)
Definition jt_draw (t : tri3) (w : Z) (al : alignment) (fill : option Z) : option (list (rect * Z)) :=
  if (w =? 0) && (match fill with None => true | Some _ => false end) then Some []
  else
    match jt_rows t w al (match fill with Some _ => true | None => false end) with
    | Some rs =>
        Some (flat_map (fun lk : scanline * point_type =>
                          match jt_color w fill (snd lk) with
                          | Some c => let r := sl_to_rectangle (fst lk) in if is_zero_sized r then [] else [(r, c)]
                          | None => []
                          end) (jt_for_sequence rs))
    | None => None
    end.

(* ---- hypotheses of the translation theorems (Proofs/JoinTri.v), as computable predicates ------------------- *)
Definition tr_tri (d : point) (t : tri3) : tri3 :=
  let '(p1, p2, p3) := t in (padd p1 d, padd p2 d, padd p3 d).

(* no used intersection of the three joins of the triangle reaches the saturating cast, before and after the move *)
Definition tri_nosat (t : tri3) (w : Z) (so : stroke_offset) (d : point) : bool :=
  let '(p1, p2, p3) := t in
  win_nosat w so d (p3, p1, p2) && win_nosat w so d (p1, p2, p3) && win_nosat w so d (p2, p3, p1).

(* the three thick segments of the stroke (ClosedThickSegmentIter on the three vertices) *)
Definition tri_segs (t : tri3) (w : Z) (so : stroke_offset) : option (list thick_segment) :=
  let '(a, b, c) := t in closed_thick_segment_iter [a; b; c] w so.

(* vertices and segment corners within +-2^29 *)
Definition tri_box_okb (t : tri3) (w : Z) (so : stroke_offset) : bool :=
  jpt_bigb (fst (fst t)) && jpt_bigb (snd (fst t)) && jpt_bigb (snd t) &&
  match tri_segs (jt_sorted_clockwise t) w so with Some segs => forallb seg_okb segs | None => true end.

(* all hypotheses of the composition theorems for the triangle t, width w, alignment al, moved by d *)
Definition tri_hyps (t : tri3) (w : Z) (al : alignment) (d : point) : bool :=
  let so := so_of_alignment al in
  tri_nosat (jt_sorted_clockwise t) w so d && tri_box_okb t w so && tri_box_okb (tr_tri d t) w so.

(* pixels() and draw() see the same sequence of lines unless the first next() of the non-fused scanline iterator answered
   None although a later row has lines (the first two rows of the styled bounding box empty, a later one not) *)
Definition jt_fused {A} (rs : list (list A)) : bool :=
  match rs with
  | [] :: [] :: rest => match jt_go rest with [] => true | _ => false end
  | _ => true
  end.
Definition tri_fused (t : tri3) (w : Z) (al : alignment) (has_fill : bool) : bool :=
  match jt_rows t w al has_fill with Some rs => jt_fused rs | None => true end.
