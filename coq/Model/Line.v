(* Model of src/primitives/line/bresenham.rs (parameters, Bresenham::next, major_length) and
   src/primitives/line/points.rs (the Points iterator as the list it yields).  Definitions only.
   The thick-line machinery (next_all / previous_all / ThickPoints) lives in Model/Thickline.v. *)
From EG Require Import Base.Prelude Model.Geometry.

Record line := L { l_start : point; l_end : point }.

Record bparams := BP {
  error_threshold : Z;
  error_step_major : Z;   (* 2 * delta.minor *)
  error_step_minor : Z;   (* 2 * delta.major *)
  pos_step_major : point;
  pos_step_minor : point
}.

(* bresenham.rs:42-72 *)
Definition bparams_new (l : line) : bparams :=
  let delta := psub (l_end l) (l_start l) in
  let dirx := if 0 <=? px delta then 1 else -1 in
  let diry := if 0 <=? py delta then 1 else -1 in
  let dx := Z.abs (px delta) in
  let dy := Z.abs (py delta) in
  if dx <=? dy
  then BP dy (2 * dx) (2 * dy) (P 0 diry) (P dirx 0)
  else BP dx (2 * dy) (2 * dx) (P dirx 0) (P 0 diry).

Record bstate := BS { b_point : point; b_error : Z }.

(* bresenham.rs:140-152  Bresenham::next: returns (yielded point, new state) *)
Definition bnext (p : bparams) (s : bstate) : point * bstate :=
  let s1 := if error_threshold p <? b_error s
            then BS (padd (b_point s) (pos_step_minor p)) (b_error s - error_step_minor p)
            else s in
  (b_point s1, BS (padd (b_point s1) (pos_step_major p)) (b_error s1 + error_step_major p)).

(* bresenham.rs:215-219 *)
Definition major_length (l : line) : Z :=
  let delta := psub (l_end l) (l_start l) in
  Z.max (Z.abs (px delta)) (Z.abs (py delta)) + 1.

Fixpoint bresenham_run (p : bparams) (s : bstate) (n : nat) : list point :=
  match n with
  | O => []
  | Datatypes.S k => let '(q, s') := bnext p s in q :: bresenham_run p s' k
  end.

(* points.rs:17-50: Points::new + Iterator::next, as the whole list *)
Definition line_points (l : line) : list point :=
  bresenham_run (bparams_new l) (BS (l_start l) 0) (Z.to_nat (major_length l)).

(* mod.rs:177-180  Line::delta *)
Definition line_delta (l : line) : point := psub (l_end l) (l_start l).

(* mod.rs:89-94  Line::with_delta *)
Definition with_delta (s d : point) : line := L s (P (px s + px d) (py s + py d)).

Definition translate_line (l : line) (d : point) : line := L (padd (l_start l) d) (padd (l_end l) d).
