(* Model of src/mock_display/mod.rs (MockDisplay) and src/mock_display/color_mapping.rs.
   Definitions only (extracted to OCaml and run against the implementation).

   Colours are their raw values (Z).  The pixel array `[Option<C>; SIZE * SIZE]` is a finite map from
   the array index to the colour (absent = None); an array access with an index outside 0..SIZE*SIZE is
   the Rust index panic (PIndex), so index arithmetic that leaves the array is visible in the model.
   Every function that can panic returns `result`. *)
From EG Require Import Base.Prelude Model.Geometry Gen.MockConsts.
From Coq Require Import FMapPositive.

Inductive panic_kind :=
| POutOfBounds      (* mod.rs:377 "tried to draw pixel outside the display area" *)
| POverdraw         (* mod.rs:387 "tried to draw pixel twice" *)
| PSetPixel         (* mod.rs:298 assert in set_pixel "point must be inside display bounding box" *)
| PIndex            (* array index out of bounds *)
| PPatternWidth     (* mod.rs:525 *)
| PPatternHeight    (* mod.rs:530 *)
| PPatternRow       (* mod.rs:536 row length differs from the first row *)
| PBadChar          (* color_mapping.rs char_to_color panic *)
| PUnwrap.          (* color_mapping.rs:55 from_digit(..).unwrap() on None *)

Inductive result (A : Type) := Ok (a : A) | Panic (k : panic_kind).
Arguments Ok {A} a.
Arguments Panic {A} k.

Definition bind {A B} (r : result A) (f : A -> result B) : result B :=
  match r with Ok a => f a | Panic k => Panic k end.

(* mod.rs:201-202 *)
Definition NCELLS : Z := SIZE * SIZE.
Definition DISPLAY_AREA : rect := R (P 0 0) (S SIZE SIZE).

(* ---- the pixel array ------------------------------------------------------------------------- *)
Definition cellmap := PositiveMap.t Z.
Definition key (i : Z) : positive := Z.to_pos (i + 1).
Definition in_array (i : Z) : bool := (0 <=? i) && (i <? NCELLS).

(* content of cell i (meaningful for 0 <= i < NCELLS) *)
Definition cell (c : cellmap) (i : Z) : option Z := PositiveMap.find (key i) c.
Definition cell_put (c : cellmap) (i : Z) (v : option Z) : cellmap :=
  match v with Some x => PositiveMap.add (key i) x c | None => PositiveMap.remove (key i) c end.

(* `self.pixels[i]` and `self.pixels[i] = v` with the bounds check of array indexing *)
Definition arr_get (c : cellmap) (i : Z) : result (option Z) :=
  if in_array i then Ok (cell c i) else Panic PIndex.
Definition arr_set (c : cellmap) (i : Z) (v : option Z) : result cellmap :=
  if in_array i then Ok (cell_put c i v) else Panic PIndex.

(* mod.rs:208-215 *)
Record display := D { cells : cellmap; allow_overdraw : bool; allow_oob : bool }.

(* mod.rs:664-675 Default / new *)
Definition new_display : display := D (PositiveMap.empty Z) false false.

(* mod.rs:270, 277 *)
Definition set_allow_oob (d : display) (b : bool) : display := D (cells d) (allow_overdraw d) b.
Definition set_allow_overdraw (d : display) (b : bool) : display := D (cells d) b (allow_oob d).

(* mod.rs:282-290: bounds check added by the fix, then pixels[x as usize + y as usize * SIZE] *)
Definition get_pixel (d : display) (p : point) : result (option Z) :=
  let x := px p in let y := py p in
  if (x <? 0) || (y <? 0) || (x >=? SIZE) || (y >=? SIZE) then Ok None
  else arr_get (cells d) (x + y * SIZE).

(* mod.rs:313-316: i = x + y * SIZE; pixels[i as usize] = color (a negative i wraps to a huge usize: index panic) *)
Definition set_pixel_unchecked (d : display) (p : point) (v : option Z) : result display :=
  bind (arr_set (cells d) (px p + py p * SIZE) v) (fun c => Ok (D c (allow_overdraw d) (allow_oob d))).

(* mod.rs:297-306 *)
Definition set_pixel (d : display) (p : point) (v : option Z) : result display :=
  if (px p >=? 0) && (py p >=? 0) && (px p <? SIZE) && (py p <? SIZE)
  then set_pixel_unchecked d p v
  else Panic PSetPixel.

Definition is_some {A} (o : option A) : bool := match o with Some _ => true | None => false end.

(* mod.rs:374-391 *)
Definition draw_pixel (d : display) (p : point) (c : Z) : result display :=
  if negb (contains DISPLAY_AREA p) then
    if negb (allow_oob d) then Panic POutOfBounds else Ok d
  else
    bind (get_pixel d p) (fun cur =>
      if negb (allow_overdraw d) && is_some cur then Panic POverdraw
      else set_pixel_unchecked d p (Some c)).

(* mod.rs:711-722 draw_iter: for pixel in pixels { self.draw_pixel(point, color) } *)
Fixpoint draw_iter (d : display) (l : list (point * Z)) : result display :=
  match l with
  | [] => Ok d
  | (p, c) :: t => bind (draw_pixel d p c) (fun d' => draw_iter d' t)
  end.

(* MockDisplay does not override fill_contiguous / fill_solid / clear: the trait defaults of
   core/src/draw_target/mod.rs:388-424 apply. *)
Definition fill_contiguous (d : display) (area : rect) (colors : list Z) : result display :=
  draw_iter d (zip (points area) colors).
(* fill_contiguous(area, repeat(color)): zip with an endless stream *)
Definition fill_solid (d : display) (area : rect) (c : Z) : result display :=
  draw_iter d (map (fun p => (p, c)) (points area)).
(* bounding_box() of an OriginDimensions = Rectangle::new(Point::zero(), size()), size() = DISPLAY_AREA.size (mod.rs:729) *)
Definition bounding_box : rect := R (P 0 0) (sz DISPLAY_AREA).
Definition clear (d : display) (c : Z) : result display := fill_solid d bounding_box c.

(* mod.rs:323-327 *)
Fixpoint set_pixels (d : display) (l : list point) (v : option Z) : result display :=
  match l with
  | [] => Ok d
  | p :: t => bind (set_pixel d p v) (fun d' => set_pixels d' t v)
  end.

(* ---- histories ------------------------------------------------------------------------------- *)
Inductive op :=
| OpDrawPixel (p : point) (c : Z)
| OpDrawIter (l : list (point * Z))
| OpFillSolid (r : rect) (c : Z)
| OpFillContiguous (r : rect) (cs : list Z)
| OpClear (c : Z)
| OpSetPixel (p : point) (v : option Z)
| OpSetPixels (l : list point) (v : option Z)
| OpSetAllowOverdraw (b : bool)
| OpSetAllowOob (b : bool).

Definition apply_op (d : display) (o : op) : result display :=
  match o with
  | OpDrawPixel p c => draw_pixel d p c
  | OpDrawIter l => draw_iter d l
  | OpFillSolid r c => fill_solid d r c
  | OpFillContiguous r cs => fill_contiguous d r cs
  | OpClear c => clear d c
  | OpSetPixel p v => set_pixel d p v
  | OpSetPixels l v => set_pixels d l v
  | OpSetAllowOverdraw b => Ok (set_allow_overdraw d b)
  | OpSetAllowOob b => Ok (set_allow_oob d b)
  end.

(* a history stops at its first panic *)
Definition run (d : display) (ops : list op) : result display :=
  fold_left (fun r o => bind r (fun d' => apply_op d' o)) ops (Ok d).

(* ---- the array as a list (self.pixels.iter()) ------------------------------------------------ *)
Definition cells_list (d : display) : list (option Z) := map (cell (cells d)) (range 0 NCELLS).

(* mod.rs:330-351 affected_area *)
Definition aa_step (acc : option point * option point) (p : point) : option point * option point :=
  let '(tl, br) := acc in
  (match tl with Some t => Some (component_min t p) | None => Some p end,
   match br with Some b => Some (component_max b p) | None => Some p end).

Definition touched_points (d : display) : list point :=
  flat_map (fun pc : point * option Z => match snd pc with Some _ => [fst pc] | None => [] end)
           (zip (points bounding_box) (cells_list d)).

Definition affected_area (d : display) : rect :=
  match fold_left aa_step (touched_points d) (None, None) with
  | (Some tl, Some br) => with_corners tl br
  | _ => rect_zero
  end.

(* mod.rs:354-359 *)
Definition affected_area_origin (d : display) : rect :=
  match bottom_right (affected_area d) with
  | Some br => with_corners (P 0 0) br
  | None => rect_zero
  end.

(* mod.rs:501-505 PartialEq: only the pixel arrays are compared (not the flags) *)
Definition opt_eqb (a b : option Z) : bool :=
  match a, b with
  | Some x, Some y => x =? y
  | None, None => true
  | _, _ => false
  end.
Fixpoint list_eqb (a b : list (option Z)) : bool :=
  match a, b with
  | [], [] => true
  | x :: s, y :: t => opt_eqb x y && list_eqb s t
  | _, _ => false
  end.
Definition mock_eq (a b : display) : bool := list_eqb (cells_list a) (cells_list b).

(* mod.rs:480-498 diff *)
Definition diff_color (s o : option Z) : option Z :=
  match s, o with
  | Some _, None => Some DIFF_ONLY_SELF
  | None, Some _ => Some DIFF_ONLY_OTHER
  | Some a, Some b => if negb (a =? b) then Some DIFF_DIFFERENT else None
  | None, None => None
  end.

Fixpoint diff_loop (a b : display) (acc : display) (l : list point) : result display :=
  match l with
  | [] => Ok acc
  | p :: t =>
      bind (get_pixel a p) (fun sc =>
      bind (get_pixel b p) (fun oc =>
      bind (set_pixel_unchecked acc p (diff_color sc oc)) (fun acc' => diff_loop a b acc' t)))
  end.
Definition diff (a b : display) : result display := diff_loop a b new_display (points bounding_box).

(* mod.rs:421-429 swap_xy *)
Fixpoint swap_loop (a : display) (acc : display) (l : list point) : result display :=
  match l with
  | [] => Ok acc
  | p :: t =>
      bind (get_pixel a (P (py p) (px p))) (fun v =>
      bind (set_pixel_unchecked acc p v) (fun acc' => swap_loop a acc' t))
  end.
Definition swap_xy (a : display) : result display := swap_loop a new_display (points bounding_box).

(* mod.rs:460-472 map: for point in bounding_box().points() { target.set_pixel_unchecked(point, self.get_pixel(point).map(f)) } *)
Fixpoint map_loop (f : Z -> Z) (a : display) (acc : display) (l : list point) : result display :=
  match l with
  | [] => Ok acc
  | p :: t =>
      bind (get_pixel a p) (fun v =>
      bind (set_pixel_unchecked acc p (option_map f v)) (fun acc' => map_loop f a acc' t))
  end.
Definition map_display (f : Z -> Z) (a : display) : result display := map_loop f a new_display (points bounding_box).

(* the colour function the correspondence suites pass to map: raw value shifted by k, modulo the number of raw values *)
Definition shift_color (n k v : Z) : Z := (v + k) mod n.

(* mod.rs:257-265 from_points: new display, set_pixels(points, Some(color)) *)
Definition from_points (l : list point) (c : Z) : result display := set_pixels new_display l (Some c).

(* ---- ColorMapping, from_pattern, Debug ------------------------------------------------------- *)
Fixpoint lookup (k : Z) (l : list (Z * Z)) : option Z :=
  match l with
  | [] => None
  | (a, b) :: t => if a =? k then Some b else lookup k t
  end.

(* color_mapping.rs: char_to_color / color_to_char through the generated tables *)
Definition char_to_color (m : mapping) (ch : Z) : result Z :=
  match lookup ch (m_c2col m) with Some v => Ok v | None => Panic PBadChar end.
Definition color_to_char (m : mapping) (v : Z) : result Z :=
  match lookup v (m_col2c m) with
  | Some ch => Ok ch
  | None => match m_default m with Some ch => Ok ch | None => Panic PUnwrap end
  end.

Definition SPACE : Z := 32.

Fixpoint mapM {A B} (f : A -> result B) (l : list A) : result (list B) :=
  match l with
  | [] => Ok []
  | x :: t => bind (f x) (fun y => bind (mapM f t) (fun ys => Ok (y :: ys)))
  end.

(* iter.chain(repeat(d)).take(n) *)
Definition pad {A} (n : nat) (d : A) (l : list A) : list A := firstn n (l ++ repeat d n).

(* mod.rs:551-554 *)
Definition pattern_char (m : mapping) (ch : Z) : result (option Z) :=
  if ch =? SPACE then Ok None else bind (char_to_color m ch) (fun v => Ok (Some v)).

(* mod.rs:563-565: for (i, color) in pattern_colors.enumerate() { display.pixels[i] = color } *)
Fixpoint store_from (c : cellmap) (i : Z) (l : list (option Z)) : result cellmap :=
  match l with
  | [] => Ok c
  | v :: t => bind (arr_set c i v) (fun c' => store_from c' (i + 1) t)
  end.

Definition zlen {A} (l : list A) : Z := Z.of_nat (length l).

(* mod.rs:521-568; a pattern is a list of rows, a row the list of its chars (code points).
   `row.len()` is the byte length: the model is restricted to ASCII rows (see props/C20.py). *)
Definition from_pattern (m : mapping) (pat : list (list Z)) : result display :=
  let width := match pat with [] => 0 | r :: _ => zlen r end in
  if negb (width <=? SIZE) then Panic PPatternWidth
  else if negb (zlen pat <=? SIZE) then Panic PPatternHeight
  else if negb (forallb (fun r => zlen r =? width) pat) then Panic PPatternRow
  else
    bind (mapM (fun row => bind (mapM (pattern_char m) row) (fun cs => Ok (pad (Z.to_nat SIZE) None cs))) pat) (fun rows =>
    let colors := pad (Z.to_nat NCELLS) None (concat rows) in
    bind (store_from (PositiveMap.empty Z) 0 colors) (fun c => Ok (D c false false))).

(* slice.chunks(n) for n > 0 *)
Fixpoint chunks_fuel {A} (fuel : nat) (n : nat) (l : list A) : list (list A) :=
  match fuel with
  | O => []
  | Datatypes.S f => match l with [] => [] | _ => firstn n l :: chunks_fuel f n (skipn n l) end
  end.
Definition chunks {A} (n : nat) (l : list A) : list (list A) := chunks_fuel (length l) n l.

Definition row_is_empty (row : list (option Z)) : bool := forallb (fun c => negb (is_some c)) row.

(* mod.rs:682-686: pixels.rchunks(SIZE).take_while(all none).count(); SIZE divides the array length, so the
   reverse chunks are the chunks in reverse order *)
Definition empty_rows (d : display) : nat :=
  length (take_while row_is_empty (rev (chunks (Z.to_nat SIZE) (cells_list d)))).

(* mod.rs:689-694: the rows that are printed *)
Definition debug_rows (m : mapping) (d : display) : result (list (list Z)) :=
  mapM (fun row => mapM (fun c : option Z => match c with None => Ok SPACE | Some v => color_to_char m v end) row)
       (firstn (Z.to_nat SIZE - empty_rows d)%nat (chunks (Z.to_nat SIZE) (cells_list d))).

(* decimal digits of a small natural number *)
Fixpoint dec_fuel (fuel : nat) (n : Z) (acc : list Z) : list Z :=
  match fuel with
  | O => acc
  | Datatypes.S f => let acc' := (48 + n mod 10) :: acc in if n <? 10 then acc' else dec_fuel f (n / 10) acc'
  end.
Definition decimal (n : Z) : list Z := dec_fuel 20 n [].

(* "MockDisplay[" "(" " empty rows skipped)" "]" *)
Definition STR_HEAD : list Z := [77; 111; 99; 107; 68; 105; 115; 112; 108; 97; 121; 91].
Definition STR_SKIP : list Z := [32; 101; 109; 112; 116; 121; 32; 114; 111; 119; 115; 32; 115; 107; 105; 112; 112; 101; 100; 41].

(* mod.rs:681-701: the whole Debug output as code points *)
Definition debug_string (m : mapping) (d : display) : result (list Z) :=
  bind (debug_rows m d) (fun rows =>
    let e := Z.of_nat (empty_rows d) in
    Ok (STR_HEAD ++ [10] ++ concat (map (fun r => r ++ [10]) rows)
        ++ (if 0 <? e then [40] ++ decimal e ++ STR_SKIP ++ [10] else []) ++ [93; 10])).

(* the generated ColorMapping tables (referenced here so that they are extracted) *)
Definition mappings : list mapping := all_mappings.
