(* C08 - Model of the panic sites of the arithmetic of embedded-graphics.

   For each covered Rust function `f` an executable boolean `f_ok : args -> bool` that is the
   conjunction, in source order, of "this intermediate fits its Rust type / this divisor is not
   zero / this debug_assert holds" for EVERY arithmetic site of `f` (and of the callees it reaches,
   through their own `_ok`).  `f_ok x = true`  <->  a build with overflow checks and debug
   assertions does not panic in `f x`.  Values are computed with the unbounded models of
   Model/Geometry.v, Model/Line.v, Model/Style.v; Rust's saturating operations are modelled as
   saturating (Prelude), `as` casts between integer types of equal width as the wrap they are.

   Definitions only (extracted and run against the implementation by the `ok_*` suites).
   The skeleton each `_ok` was written against is recorded at the end (`recorded`) and compared with
   the table regenerated from the source (Gen/ArithSites.v) by `C08_sites_covered`.

   usize: the bound is a parameter `um` (= usize::MAX).  Theorems are stated for every um >= u32::MAX
   (32 and 64 bit targets); the correspondence runs with um = 2^64-1 (the harness host). *)
From Coq Require Import String.
From EG Require Import Base.Prelude Model.Geometry Model.Line Model.Style.
Open Scope Z_scope.

(* ---- machine ranges ----------------------------------------------------------------------- *)
Definition i64_max : Z := 9223372036854775807.
Definition i64_min : Z := -9223372036854775808.
Definition u64_max : Z := 18446744073709551615.
Definition i32 (x : Z) : bool := in_i32 x.
Definition u32 (x : Z) : bool := in_u32 x.
Definition i64 (x : Z) : bool := (i64_min <=? x) && (x <=? i64_max).
Definition u64 (x : Z) : bool := (0 <=? x) && (x <=? u64_max).
Definition usz (um x : Z) : bool := (0 <=? x) && (x <=? um).
Definition nz (x : Z) : bool := negb (x =? 0).
(* usize::MAX of a 64-bit host (the correspondence harness) *)
Definition um64 : Z := u64_max.

(* ---- display scale (the domain of C08) ---------------------------------------------------- *)
Definition ds_max : Z := 1024.
Definition ds_wmax : Z := 128.
Definition ds_coord (x : Z) : Prop := - ds_max <= x <= ds_max.
Definition ds_ext (w : Z) : Prop := 0 <= w <= ds_max.
Definition ds_width (w : Z) : Prop := 0 <= w <= ds_wmax.
Definition ds_point (p : point) : Prop := ds_coord (px p) /\ ds_coord (py p).
Definition ds_size (s : size) : Prop := ds_ext (sw s) /\ ds_ext (sh s).
Definition ds_rect (r : rect) : Prop := ds_point (tl r) /\ ds_size (sz r).
Definition ds_line (l : line) : Prop := ds_point (l_start l) /\ ds_point (l_end l).
Definition ds_offset (n : Z) : Prop := - ds_wmax <= n <= ds_wmax.
(* vertices of the edge lines of a thick segment: Line::extents stays within 6w+8 of the segment
   (C07_join_extents_within), i.e. within 1024 + 6*128 + 8 = 1800 at display scale *)
Definition edge_max : Z := ds_max + 6 * ds_wmax + 8.
Definition edge_point (p : point) : Prop := - edge_max <= px p <= edge_max /\ - edge_max <= py p <= edge_max.
Definition edge_line (l : line) : Prop := edge_point (l_start l) /\ edge_point (l_end l).

(* =========================================================================================== *)
(* core/src/geometry/point.rs                                                                   *)
(* =========================================================================================== *)
Definition pmul (a : point) (k : Z) : point := P (px a * k) (py a * k).
Definition pdiv (a : point) (k : Z) : point := P (Z.quot (px a) k) (Z.quot (py a) k).
Definition pabs (a : point) : point := P (Z.abs (px a)) (Z.abs (py a)).

(* point.rs:156 Point::abs  (i32::abs overflows for MIN) *)
Definition point_abs_ok (a : point) : bool := i32 (Z.abs (px a)) && i32 (Z.abs (py a)).
(* point.rs:168-176, 275-283, 300-309, 348-357: `other.width as i32` wraps; debug_assert!(width >= 0) *)
Definition size_as_i32_ok (s : size) : bool := (sw s <=? i32_max) && (sh s <=? i32_max).
(* point.rs:168 Point::sub_size (= Sub<Size>, SubAssign<Size>) *)
Definition point_sub_size_ok (a : point) (s : size) : bool :=
  size_as_i32_ok s && i32 (px a - sw s) && i32 (py a - sh s).
(* point.rs:219 component_mul *)
Definition point_component_mul_ok (a b : point) : bool := i32 (px a * px b) && i32 (py a * py b).
(* point.rs:238 component_div: division by zero, MIN / -1 *)
Definition point_component_div_ok (a b : point) : bool :=
  nz (px b) && i32 (Z.quot (px a) (px b)) && nz (py b) && i32 (Z.quot (py a) (py b)).
(* point.rs:261 Add for Point (= AddAssign 287) *)
Definition point_add_ok (a b : point) : bool := i32 (px a + px b) && i32 (py a + py b).
(* point.rs:275 Add<Size> for Point (= AddAssign<Size> 300) *)
Definition point_add_size_ok (a : point) (s : size) : bool :=
  size_as_i32_ok s && i32 (px a + sw s) && i32 (py a + sh s).
(* point.rs:315 Sub for Point (= SubAssign 335) *)
Definition point_sub_ok (a b : point) : bool := i32 (px a - px b) && i32 (py a - py b).
(* point.rs:363 Mul<i32> (= MulAssign 369) *)
Definition point_mul_ok (a : point) (k : Z) : bool := i32 (px a * k) && i32 (py a * k).
(* point.rs:378 Div<i32> (= DivAssign 384) *)
Definition point_div_ok (a : point) (k : Z) : bool :=
  nz k && i32 (Z.quot (px a) k) && i32 (Z.quot (py a) k).
(* point.rs:405 Neg *)
Definition point_neg_ok (a : point) : bool := i32 (- px a) && i32 (- py a).

(* =========================================================================================== *)
(* core/src/geometry/size.rs                                                                    *)
(* =========================================================================================== *)
(* size.rs:160,171 saturating_add / saturating_sub: no panic site *)
Definition size_saturating_ok (a b : size) : bool := true.
(* size.rs:181 div_u32 (= Div<u32> 313, DivAssign 319) *)
Definition size_div_ok (a : size) (k : Z) : bool := nz k.
(* size.rs:186 from_bounding_box: i32 subtraction, unsigned_abs() + 1 in u32 *)
Definition from_bounding_box_ok (c1 c2 : point) : bool :=
  i32 (px c1 - px c2) && u32 (Z.abs (px c1 - px c2) + 1) && i32 (py c1 - py c2) && u32 (Z.abs (py c1 - py c2) + 1).
(* size.rs:228 component_mul, 245 component_div *)
Definition size_component_mul_ok (a b : size) : bool := u32 (sw a * sw b) && u32 (sh a * sh b).
Definition size_component_div_ok (a b : size) : bool := nz (sw b) && nz (sh b).
(* size.rs:268 Add (= AddAssign 274) *)
Definition size_add_ok (a b : size) : bool := u32 (sw a + sw b) && u32 (sh a + sh b).
(* size.rs:283 Sub (= SubAssign 289) *)
Definition size_sub_ok (a b : size) : bool := u32 (sw a - sw b) && u32 (sh a - sh b).
(* size.rs:298 Mul<u32> (= MulAssign 304) *)
Definition size_mul_ok (a : size) (k : Z) : bool := u32 (sw a * k) && u32 (sh a * k).
Definition smul (a : size) (k : Z) : size := S (sw a * k) (sh a * k).

(* =========================================================================================== *)
(* core/src/primitives/rectangle/mod.rs                                                         *)
(* =========================================================================================== *)
(* rectangle/mod.rs:76 center_offset: saturating_sub, / 2: no panic site *)
Definition center_offset_ok (s : size) : bool := true.
(* rectangle/mod.rs:110 with_corners -> from_bounding_box *)
Definition with_corners_ok (c1 c2 : point) : bool := from_bounding_box_ok c1 c2.
(* rectangle/mod.rs:119 with_center: center.sub_size(center_offset(size)) *)
Definition with_center_ok (c : point) (s : size) : bool := point_sub_size_ok c (center_offset s).
(* rectangle/mod.rs:126 center: top_left + center_offset(size) *)
Definition center_ok (r : rect) : bool := point_add_size_ok (tl r) (center_offset (sz r)).
(* rectangle/mod.rs:135 bottom_right: top_left + size - Point::new(1, 1) *)
Definition bottom_right_ok (r : rect) : bool :=
  if (0 <? sw (sz r)) && (0 <? sh (sz r))
  then point_add_size_ok (tl r) (sz r) && point_sub_ok (padd_size (tl r) (sz r)) (P 1 1)
  else true.
(* rectangle/mod.rs:147 contains *)
Definition contains_ok (r : rect) (p : point) : bool :=
  if (px (tl r) <=? px p) && (py (tl r) <=? py p) then bottom_right_ok r else true.
(* rectangle/mod.rs:175 intersection *)
Definition intersection_ok (self other : rect) : bool :=
  bottom_right_ok other && bottom_right_ok self &&
  match bottom_right other, bottom_right self with
  | Some obr, Some sbr =>
      if overlaps (px (tl self)) (px sbr) (px (tl other)) (px obr)
         && overlaps (py (tl self)) (py sbr) (py (tl other)) (py obr)
      then with_corners_ok (component_max (tl self) (tl other)) (component_min sbr obr)
      else true
  | Some _, None => contains_ok other (tl self)
  | None, Some _ => contains_ok self (tl other)
  | None, None => true
  end.
(* rectangle/mod.rs:480 anchor_x, 508 anchor_y: delta = max(sat, 1) - 1 ; top_left + ... *)
Definition anchor_x_ok (r : rect) (a : anchor_x) : bool :=
  i32 (anchor_delta (sw (sz r))) && i32 (anchor_x_of r a).
Definition anchor_y_ok (r : rect) (a : anchor_y) : bool :=
  i32 (anchor_delta (sh (sz r))) && i32 (anchor_y_of r a).
Definition anchor_point_ok (r : rect) (a : anchor) : bool := anchor_x_ok r (ax a) && anchor_y_ok r (ay a).
(* rectangle/mod.rs:363 envelope *)
Definition envelope_ok (self other : rect) : bool :=
  anchor_point_ok self (A AXRight AYBottom) && anchor_point_ok other (A AXRight AYBottom) &&
  with_corners_ok (component_min (tl self) (tl other))
    (component_max (anchor_point self (A AXRight AYBottom)) (anchor_point other (A AXRight AYBottom))).
(* rectangle/mod.rs:399 resize_width_mut, 412 resize_height_mut *)
Definition resized_width_ok (r : rect) (w : Z) (a : anchor_x) : bool :=
  i32 (resize_delta (sw (sz r)) w) && i32 (px (tl (resized_width r w a))).
Definition resized_height_ok (r : rect) (h : Z) (a : anchor_y) : bool :=
  i32 (resize_delta (sh (sz r)) h) && i32 (py (tl (resized_height r h a))).
Definition resized_ok (r : rect) (s : size) (a : anchor) : bool :=
  resized_width_ok r (sw s) (ax a) && resized_height_ok (resized_width r (sw s) (ax a)) (sh s) (ay a).
(* rectangle/mod.rs:428 offset: `offset as u32 * 2` / `(-offset) as u32 * 2`, center, with_center *)
Definition offset_size (s : size) (n : Z) : size :=
  if 0 <=? n then size_sat_add s (S (n * 2) (n * 2)) else size_sat_sub s (S ((- n) * 2) ((- n) * 2)).
Definition offset_amount_ok (n : Z) : bool :=
  if 0 <=? n then u32 (n * 2) else i32 (- n) && u32 ((- n) * 2).
Definition offset_ok (r : rect) (n : Z) : bool :=
  offset_amount_ok n && center_ok r && with_center_ok (center r) (offset_size (sz r) n).
(* rectangle/mod.rs:550 rows, 589 columns: saturating only *)
Definition rows_columns_ok (r : rect) : bool := true.

(* =========================================================================================== *)
(* src/geometry/mod.rs  (PointExt)                                                              *)
(* =========================================================================================== *)
Definition rotate_90 (a : point) : point := P (- py a) (px a).
Definition dot_product (a b : point) : Z := px a * px b + py a * py b.
Definition determinant (a b : point) : Z := px a * py b - py a * px b.
Definition length_squared (a : point) : Z := px a * px a + py a * py a.
(* geometry/mod.rs:38 *)
Definition rotate_90_ok (a : point) : bool := i32 (- py a).
(* geometry/mod.rs:42 *)
Definition dot_product_ok (a b : point) : bool :=
  i32 (px a * px b) && i32 (py a * py b) && i32 (dot_product a b).
(* geometry/mod.rs:46 *)
Definition determinant_ok (a b : point) : bool :=
  i32 (px a * py b) && i32 (py a * px b) && i32 (determinant a b).
(* geometry/mod.rs:50 *)
Definition length_squared_ok (a : point) : bool :=
  i32 (px a * px a) && i32 (py a * py a) && i32 (length_squared a).

(* =========================================================================================== *)
(* src/primitives/primitive_style.rs                                                            *)
(* =========================================================================================== *)
(* primitive_style.rs:86 outside_stroke_width, 97 inside_stroke_width: `/ 2`, saturating_add: no panic site *)
Definition stroke_widths_ok (s : style) : bool := true.
(* primitive_style.rs:119 stroke_area: offset = outside.saturating_as(); primitive.offset(offset)   [P = Rectangle] *)
Definition rect_stroke_area_ok (s : style) (r : rect) : bool := offset_ok r (stroke_area_offset s).
(* primitive_style.rs:127 fill_area: -inside.saturating_as::<i32>() ; primitive.offset(offset) *)
Definition fill_area_offset_ok (s : style) : bool :=
  match stroke_kind s with Solid => i32 (- sat_u32_to_i32 (inside_stroke_width s)) | Dotted => true end.
Definition rect_fill_area_ok (s : style) (r : rect) : bool :=
  fill_area_offset_ok s && offset_ok r (fill_area_offset s).

(* =========================================================================================== *)
(* src/primitives/circle/mod.rs                                                                 *)
(* =========================================================================================== *)
(* circle/mod.rs:89 center_2x: top_left * 2 + Size::new(radius, radius), radius = diameter.saturating_sub(1) *)
Definition circle_center_2x (t : point) (d : Z) : point :=
  padd_size (pmul t 2) (S (sat_sub_u32 d 1) (sat_sub_u32 d 1)).
Definition circle_center_2x_ok (t : point) (d : Z) : bool :=
  point_mul_ok t 2 && point_add_size_ok (pmul t 2) (S (sat_sub_u32 d 1) (sat_sub_u32 d 1)).
(* circle/mod.rs:180 diameter_to_threshold: u32 pow *)
Definition diameter_to_threshold (d : Z) : Z := if d <=? 4 then d * d - d / 2 else d * d.
Definition diameter_to_threshold_ok (d : Z) : bool :=
  u32 (d * d) && (if d <=? 4 then u32 (d * d - d / 2) else true).
(* circle/mod.rs:130 contains: delta = center_2x() - point * 2; delta.length_squared() as u32 < threshold() *)
Definition circle_contains_ok (t : point) (d : Z) (p : point) : bool :=
  circle_center_2x_ok t d && point_mul_ok p 2 && point_sub_ok (circle_center_2x t d) (pmul p 2) &&
  length_squared_ok (psub (circle_center_2x t d) (pmul p 2)) && diameter_to_threshold_ok d.
(* circle/mod.rs:108 OffsetOutline::offset: 2 * offset as u32 / 2 * (-offset) as u32 ; with_center(center(), d) *)
Definition circle_offset_diameter (d n : Z) : Z :=
  if 0 <=? n then sat_add_u32 d (2 * n) else sat_sub_u32 d (2 * (- n)).
Definition circle_offset_ok (t : point) (d n : Z) : bool :=
  offset_amount_ok n && center_ok (R t (S d d)) &&
  with_center_ok (center (R t (S d d))) (S (circle_offset_diameter d n) (circle_offset_diameter d n)).

(* =========================================================================================== *)
(* src/primitives/ellipse/mod.rs                                                                *)
(* =========================================================================================== *)
(* ellipse/mod.rs:109 center_2x(top_left, size): top_left * 2 + size.saturating_sub(Size::new(1, 1)) *)
Definition ellipse_center_2x (t : point) (s : size) : point := padd_size (pmul t 2) (size_sat_sub s (S 1 1)).
Definition ellipse_center_2x_ok (t : point) (s : size) : bool :=
  point_mul_ok t 2 && point_add_size_ok (pmul t 2) (size_sat_sub s (S 1 1)).
(* ellipse/mod.rs:188 EllipseContains::new: a = (w as u64).pow(2); b = (h as u64).pow(2);
   threshold = if w == h { diameter_to_threshold(w) as u64 } else { b * a } *)
Definition ellipse_threshold (s : size) : Z :=
  if sw s =? sh s then diameter_to_threshold (sw s) else (sh s * sh s) * (sw s * sw s).
Definition ellipse_contains_new_ok (s : size) : bool :=
  u64 (sw s * sw s) && u64 (sh s * sh s) &&
  (if sw s =? sh s then diameter_to_threshold_ok (sw s) else u64 ((sh s * sh s) * (sw s * sw s))).
(* ellipse/mod.rs:207 EllipseContains::contains: x = (p.x as i64).pow(2) as u64 ...; x + y | b * x + a * y *)
Definition ellipse_contains_point_ok (s : size) (q : point) : bool :=
  let a := sw s * sw s in let b := sh s * sh s in
  let x := px q * px q in let y := py q * py q in
  i64 x && i64 y &&
  (if a =? b then u64 (x + y) else u64 (b * x) && u64 (a * y) && u64 (b * x + a * y)).
(* ellipse/mod.rs:126 contains: EllipseContains::new(size).contains(point * 2 - center_2x()) *)
Definition ellipse_contains_ok (t : point) (s : size) (p : point) : bool :=
  ellipse_contains_new_ok s && point_mul_ok p 2 && ellipse_center_2x_ok t s &&
  point_sub_ok (pmul p 2) (ellipse_center_2x t s) &&
  ellipse_contains_point_ok s (psub (pmul p 2) (ellipse_center_2x t s)).
(* ellipse/mod.rs:93 OffsetOutline::offset *)
Definition ellipse_offset_size (s : size) (n : Z) : size :=
  if 0 <=? n then size_sat_add s (S (2 * n) (2 * n)) else size_sat_sub s (S (2 * (- n)) (2 * (- n))).
Definition ellipse_offset_ok (t : point) (s : size) (n : Z) : bool :=
  offset_amount_ok n && center_ok (R t s) && with_center_ok (center (R t s)) (ellipse_offset_size s n).

(* =========================================================================================== *)
(* src/primitives/rounded_rectangle/ellipse_quadrant.rs, corner_radii.rs                        *)
(* =========================================================================================== *)
Inductive quadrant := QTopLeft | QTopRight | QBottomRight | QBottomLeft.
(* ellipse_quadrant.rs:29 EllipseQuadrant::new *)
Definition quadrant_ellipse_top_left (t : point) (radius : size) (q : quadrant) : point :=
  match q with
  | QTopLeft => t
  | QTopRight => psub_size t (S (sw radius) 0)
  | QBottomRight => psub_size t radius
  | QBottomLeft => psub_size t (S 0 (sh radius))
  end.
Definition ellipse_quadrant_new_ok (t : point) (radius : size) (q : quadrant) : bool :=
  match q with
  | QTopLeft => true
  | QTopRight => point_sub_size_ok t (S (sw radius) 0)
  | QBottomRight => point_sub_size_ok t radius
  | QBottomLeft => point_sub_size_ok t (S 0 (sh radius))
  end &&
  size_mul_ok radius 2 && ellipse_center_2x_ok (quadrant_ellipse_top_left t radius q) (smul radius 2) &&
  size_mul_ok radius 2 && ellipse_contains_new_ok (smul radius 2).
(* ellipse_quadrant.rs:52 contains: self.ellipse.contains(point * 2 - self.center_2x) *)
Definition ellipse_quadrant_contains_ok (t : point) (radius : size) (q : quadrant) (p : point) : bool :=
  let c := ellipse_center_2x (quadrant_ellipse_top_left t radius q) (smul radius 2) in
  point_mul_ok p 2 && point_sub_ok (pmul p 2) c && ellipse_contains_point_ok (smul radius 2) (psub (pmul p 2) c).

(* corner_radii.rs:60 CornerRadii::confine *)
Record radii := Radii { r_tl : size; r_tr : size; r_br : size; r_bl : size }.
Definition confine_step (acc : Z * Z) (rs : Z * Z) : Z * Z :=
  let '(size, corner_size) := acc in let '(radii, side) := rs in
  if (side <? radii) && ((corner_size =? 0) || (corner_size * side <? radii * size))
  then (side, radii) else acc.
Definition confine_choice (c : radii) (bb : size) : Z * Z :=
  fold_left confine_step
    [(sw (r_tl c) + sw (r_tr c), sw bb); (sh (r_tr c) + sh (r_br c), sh bb);
     (sw (r_bl c) + sw (r_br c), sw bb); (sh (r_tl c) + sh (r_bl c), sh bb)] (0, 0).
Definition confine_step_ok (acc : Z * Z) (rs : Z * Z) : bool :=
  let '(size, corner_size) := acc in let '(radii, side) := rs in
  if (side <? radii) && negb (corner_size =? 0) then u64 (radii * size) && u64 (corner_size * side) else true.
Definition confine_ok (c : radii) (bb : size) : bool :=
  u32 (sw (r_tl c) + sw (r_tr c)) && u32 (sh (r_tr c) + sh (r_br c)) &&
  u32 (sw (r_bl c) + sw (r_br c)) && u32 (sh (r_tl c) + sh (r_bl c)) &&
  (let l := [(sw (r_tl c) + sw (r_tr c), sw bb); (sh (r_tr c) + sh (r_br c), sh bb);
             (sw (r_bl c) + sw (r_br c), sw bb); (sh (r_tl c) + sh (r_bl c), sh bb)] in
   fst (fold_left (fun st rs => (fst st && confine_step_ok (snd st) rs, confine_step (snd st) rs)) l (true, (0, 0)))) &&
  (let '(size, corner_size) := confine_choice c bb in
   if 0 <? corner_size
   then size_mul_ok (r_tl c) size && size_div_ok (smul (r_tl c) size) corner_size &&
        size_mul_ok (r_tr c) size && size_div_ok (smul (r_tr c) size) corner_size &&
        size_mul_ok (r_br c) size && size_div_ok (smul (r_br c) size) corner_size &&
        size_mul_ok (r_bl c) size && size_div_ok (smul (r_bl c) size) corner_size
   else true).

(* =========================================================================================== *)
(* src/primitives/line/mod.rs, points.rs, bresenham.rs                                          *)
(* =========================================================================================== *)
(* line/mod.rs:180 delta *)
Definition line_delta (l : line) : point := psub (l_end l) (l_start l).
Definition line_delta_ok (l : line) : bool := point_sub_ok (l_end l) (l_start l).
(* line/mod.rs:100 perpendicular: delta = end - start; (delta.y, -delta.x); start + delta *)
Definition perpendicular (l : line) : line :=
  let d := line_delta l in L (l_start l) (padd (l_start l) (P (py d) (- px d))).
Definition perpendicular_ok (l : line) : bool :=
  let d := line_delta l in
  line_delta_ok l && i32 (- px d) && point_add_ok (l_start l) (P (py d) (- px d)).
(* line/mod.rs:175 midpoint: start + (end - start) / 2 *)
Definition midpoint_ok (l : line) : bool :=
  line_delta_ok l && point_div_ok (line_delta l) 2 && point_add_ok (l_start l) (pdiv (line_delta l) 2).
(* bresenham.rs:42 BresenhamParameters::new: end - start; delta.abs(); 2 * minor; 2 * major *)
Definition bparams_new_ok (l : line) : bool :=
  line_delta_ok l && point_abs_ok (line_delta l) &&
  i32 (error_step_major (bparams_new l)) && i32 (error_step_minor (bparams_new l)).
(* bresenham.rs:215 major_length: (end - start).abs(); max as u32 + 1 *)
Definition major_length_ok (l : line) : bool :=
  line_delta_ok l && point_abs_ok (line_delta l) && u32 (major_length l).
(* bresenham.rs:140 Bresenham::next *)
Definition bnext_ok (p : bparams) (s : bstate) : bool :=
  (if error_threshold p <? b_error s
   then point_add_ok (b_point s) (pos_step_minor p) && i32 (b_error s - error_step_minor p) else true) &&
  point_add_ok (fst (bnext p s)) (pos_step_major p) && i32 (b_error (snd (bnext p s))).
(* points.rs:17 Points::new + points.rs:50 next, driven to the end: `points_remaining` = major_length calls of next *)
Fixpoint bresenham_run_ok (p : bparams) (s : bstate) (n : nat) : bool :=
  match n with
  | O => true
  | Datatypes.S k => bnext_ok p s && bresenham_run_ok p (snd (bnext p s)) k
  end.
Definition line_points_ok (l : line) : bool :=
  major_length_ok l && bparams_new_ok l &&
  bresenham_run_ok (bparams_new l) (BS (l_start l) 0) (Z.to_nat (major_length l)).
(* the explicit step bound of the loop: Points yields exactly major_length points *)
Definition line_points_steps (l : line) : Z := major_length l.

(* bresenham.rs:76 increase_error, 91 decrease_error: returns (ok, new error) *)
Definition increase_error (p : bparams) (e : Z) : Z :=
  let e1 := e + error_step_major p in if error_threshold p <? e1 then e1 - error_step_minor p else e1.
Definition increase_error_ok (p : bparams) (e : Z) : bool :=
  let e1 := e + error_step_major p in
  i32 e1 && (if error_threshold p <? e1 then i32 (e1 - error_step_minor p) else true).
Definition decrease_error (p : bparams) (e : Z) : Z :=
  let e1 := e - error_step_major p in if e1 <=? - error_threshold p then e1 + error_step_minor p else e1.
Definition decrease_error_ok (p : bparams) (e : Z) : bool :=
  let e1 := e - error_step_major p in
  i32 e1 && i32 (- error_threshold p) && (if e1 <=? - error_threshold p then i32 (e1 + error_step_minor p) else true).
(* bresenham.rs:105 mirror_extra_points *)
Definition mirror_extra_points (p : bparams) : bool :=
  if negb (px (pos_step_major p) =? 0) then px (pos_step_major p) =? py (pos_step_minor p)
  else py (pos_step_major p) =? - px (pos_step_minor p).
(* bresenham.rs:155 next_all *)
Definition next_all (p : bparams) (s : bstate) : bstate :=
  if error_threshold p <? b_error s
  then BS (padd (b_point s) (pos_step_minor p)) (b_error s - error_step_minor p)
  else BS (padd (b_point s) (pos_step_major p)) (b_error s + error_step_major p).
Definition next_all_ok (p : bparams) (s : bstate) : bool :=
  if error_threshold p <? b_error s
  then point_add_ok (b_point s) (pos_step_minor p) && i32 (b_error s - error_step_minor p) &&
       (if negb (px (pos_step_major p) =? 0) then true else i32 (- px (pos_step_minor p))) &&
       (if mirror_extra_points p
        then point_add_ok (b_point s) (pos_step_minor p) &&
             point_sub_ok (padd (b_point s) (pos_step_minor p)) (pos_step_major p) else true)
  else point_add_ok (b_point s) (pos_step_major p) && i32 (b_error s + error_step_major p).
(* bresenham.rs:177 previous_all *)
Definition previous_all (p : bparams) (s : bstate) : bstate :=
  if b_error s <=? - error_threshold p
  then BS (psub (b_point s) (pos_step_minor p)) (b_error s + error_step_minor p)
  else BS (psub (b_point s) (pos_step_major p)) (b_error s - error_step_major p).
Definition previous_all_ok (p : bparams) (s : bstate) : bool :=
  i32 (- error_threshold p) &&
  if b_error s <=? - error_threshold p
  then point_sub_ok (b_point s) (pos_step_minor p) && i32 (b_error s + error_step_minor p) &&
       (if negb (px (pos_step_major p) =? 0) then true else i32 (- px (pos_step_minor p))) &&
       (if negb (mirror_extra_points p)
        then point_sub_ok (b_point s) (pos_step_minor p) &&
             point_add_ok (psub (b_point s) (pos_step_minor p)) (pos_step_major p) else true)
  else point_sub_ok (b_point s) (pos_step_major p) && i32 (b_error s - error_step_major p).

(* =========================================================================================== *)
(* src/primitives/line/thick_points.rs                                                          *)
(* =========================================================================================== *)
Definition horizontal_line : line := L (P 0 0) (P 1 0).                 (* thick_points.rs:12 *)
(* thick_points.rs:81 ParallelsIterator::new(line, thickness, StrokeOffset::None) *)
Definition thick_line_used (l0 : line) : line :=
  if point_eqb (l_start l0) (l_end l0) then horizontal_line else l0.
Definition thickness_threshold (l0 : line) (t : Z) : Z :=
  (t * 2) * (t * 2) * length_squared (line_delta (thick_line_used l0)).
Definition thickness_accumulator0 (l0 : line) : Z :=
  let par := bparams_new (thick_line_used l0) in Z.quot (error_step_minor par + error_step_major par) 2.
Definition parallels_new_ok (l0 : line) (t : Z) : bool :=
  let l := thick_line_used l0 in
  let par := bparams_new l in
  let perp := bparams_new (perpendicular l) in
  bparams_new_ok l && perpendicular_ok l && bparams_new_ok (perpendicular l) &&
  (* delta = line.delta(); length_squared = i64::from(delta.x).pow(2) + i64::from(delta.y).pow(2);
     (i64::from(thickness) * 2).pow(2) * length_squared   (thick_points.rs:98-100, 64 bit since ebfcc70) *)
  line_delta_ok l && i64 (px (line_delta l) * px (line_delta l)) && i64 (py (line_delta l) * py (line_delta l)) &&
  i64 (length_squared (line_delta l)) &&
  i64 (t * 2) && i64 ((t * 2) * (t * 2)) &&
  i64 (thickness_threshold l0 t) &&
  (* (error_step.minor + error_step.major) / 2 *)
  i32 (error_step_minor par + error_step_major par) &&
  (* flip: perpendicular.position_step.minor == -parallel.position_step.major *)
  point_neg_ok (pos_step_major par) &&
  (* skip centre line: next_parallel(Left) = left.next_all(perpendicular), error 0 is never > threshold *)
  next_all_ok perp (BS (l_start l0) 0).
(* thick_points.rs:219 ThickPoints::new: major_length(line), ParallelsIterator::new *)
Definition thick_points_new_ok (l0 : line) (t : Z) : bool := major_length_ok l0 && parallels_new_ok l0 t.
(* line/styled.rs:22 StyledPixelsIterator::new: stroke_width.saturating_as() *)
Definition styled_line_new_ok (l0 : line) (w : Z) : bool := thick_points_new_ok l0 (sat_u32_to_i32 w).
(* thick_points.rs:170 ParallelsIterator::next: i64::from(acc).pow(2) > threshold; acc += perpendicular step *)
Definition parallels_next_ok (acc thr step : Z) : bool :=
  i64 (acc * acc) && (if thr <? acc * acc then true else i32 (acc + step)).
(* thick_points.rs:232 ThickPoints::next: `remaining -= 1` guarded by > 0; Extra lines: parallel_length - 1 *)
Definition thick_points_next_ok (parallel_length : Z) : bool := u32 (parallel_length - 1).

(* =========================================================================================== *)
(* src/primitives/common/linear_equation.rs, line/intersection_params.rs, common/line_join.rs    *)
(* =========================================================================================== *)
(* linear_equation.rs:41 from_line: normal = delta().rotate_90(); origin_distance = start.dot_product(normal) *)
Definition le_normal (l : line) : point := rotate_90 (line_delta l).
Definition le_distance (l : line) : Z := dot_product (l_start l) (le_normal l).
Definition from_line_ok (l : line) : bool :=
  line_delta_ok l && rotate_90_ok (line_delta l) && dot_product_ok (l_start l) (le_normal l).
(* linear_equation.rs:52 distance: point.dot_product(normal) - origin_distance *)
Definition le_point_distance_ok (l : line) (p : point) : bool :=
  dot_product_ok p (le_normal l) && i32 (dot_product p (le_normal l) - le_distance l).
(* intersection_params.rs:60 from_lines *)
Definition ip_denominator (l1 l2 : line) : Z := determinant (le_normal l1) (le_normal l2).
Definition from_lines_ok (l1 l2 : line) : bool :=
  from_line_ok l1 && from_line_ok l2 && determinant_ok (le_normal l1) (le_normal l2).
(* intersection_params.rs:74 nearly_colinear_has_error: i64 pow; line1.delta().dot_product(line2.delta()) in i32; i64 abs *)
Definition nearly_colinear_ok (l1 l2 : line) : bool :=
  i64 (ip_denominator l1 l2 * ip_denominator l1 l2) &&
  line_delta_ok l1 && line_delta_ok l2 && dot_product_ok (line_delta l1) (line_delta l2) &&
  i64 (Z.abs (dot_product (line_delta l1) (line_delta l2))).
(* intersection_params.rs:82 intersection: determinant closures in i64, round_div *)
Definition det64_ok (a0 a1 b0 b1 : Z) : bool := i64 (a0 * b1) && i64 (a1 * b0) && i64 (a0 * b1 - a1 * b0).
Definition round_div (den num : Z) : Z :=
  let '(n, d) := if den <? 0 then (- num, - den) else (num, den) in
  Z.max i32_min (Z.min (Z.div (n + Z.quot d 2) d) i32_max).
Definition round_div_ok (den num : Z) : bool :=
  (if den <? 0 then i64 (- num) && i64 (- den) else true) &&
  let '(n, d) := if den <? 0 then (- num, - den) else (num, den) in
  i64 (n + Z.quot d 2) && nz d && i64 (Z.div (n + Z.quot d 2) d).
Definition ip_x_numerator (l1 l2 : line) : Z := le_distance l1 * py (le_normal l2) - le_distance l2 * py (le_normal l1).
Definition ip_y_numerator (l1 l2 : line) : Z := px (le_normal l1) * le_distance l2 - px (le_normal l2) * le_distance l1.
Definition ip_intersection_ok (l1 l2 : line) : bool :=
  let den := ip_denominator l1 l2 in
  if den =? 0 then true else
  det64_ok (le_distance l1) (le_distance l2) (py (le_normal l1)) (py (le_normal l2)) &&
  det64_ok (px (le_normal l1)) (px (le_normal l2)) (le_distance l1) (le_distance l2) &&
  round_div_ok den (ip_x_numerator l1 l2) && round_div_ok den (ip_y_numerator l1 l2).
Definition ip_intersection (l1 l2 : line) : option point :=
  let den := ip_denominator l1 l2 in
  if den =? 0 then None else Some (P (round_div den (ip_x_numerator l1 l2)) (round_div den (ip_y_numerator l1 l2))).
(* line_join.rs:127 from_points, the miter test: miter_delta = intersection - mid; squared length in i64;
   miter_limit = (i64::from(width) * 2).pow(2) *)
Definition miter_ok (inter mid : point) (width : Z) : bool :=
  point_sub_ok inter mid &&
  i64 (px (psub inter mid) * px (psub inter mid)) && i64 (py (psub inter mid) * py (psub inter mid)) &&
  i64 (length_squared (psub inter mid)) &&
  i64 (width * 2) && i64 ((width * 2) * (width * 2)).
(* intersection_params.rs:74 value of nearly_colinear_has_error *)
Definition nearly_colinear (l1 l2 : line) : bool :=
  ip_denominator l1 l2 * ip_denominator l1 l2 <? Z.abs (dot_product (line_delta l1) (line_delta l2)).
(* line_join.rs:296 intersections(): the point used for one side: the intersection of (second edge, first edge), or
   the end of the first edge when the lines are nearly colinear; None = colinear (no join geometry) *)
Definition join_point (second first : line) : option point :=
  match ip_intersection second first with
  | Some p => Some (if nearly_colinear second first then l_end first else p)
  | None => None
  end.
(* linear_equation.rs:52 value of distance *)
Definition le_point_dist (l : line) (p : point) : Z := dot_product p (le_normal l) - le_distance l.
(* line_join.rs:296 intersections(first_left, first_right, second_left, second_right), then the self-intersection
   test and the miter test of LineJoin::from_points (line_join.rs:127), given the four edge lines, with the
   control flow of the code: outer side = sign of the first denominator; only that side's check_side and miter
   length are evaluated, the latter only when the segments do not self-intersect *)
Definition join_edges_ok (fl fr sl sr : line) (mid : point) (width : Z) : bool :=
  from_lines_ok sl fl && ip_intersection_ok sl fl &&
  match ip_intersection sl fl with
  | None => true
  | Some _ =>
      nearly_colinear_ok sl fl && from_lines_ok sr fr && ip_intersection_ok sr fr &&
      match ip_intersection sr fr with
      | None => true
      | Some _ =>
          nearly_colinear_ok sr fr &&
          let outer_left := ip_denominator sl fl <? 0 in
          (if outer_left then from_line_ok fr && le_point_distance_ok fr (l_end sr)
           else from_line_ok fl && le_point_distance_ok fl (l_end sl)) &&
          let self_intersection :=
            if outer_left then le_point_dist fr (l_end sr) <=? 0 else 0 <=? le_point_dist fl (l_end sl) in
          if self_intersection then true
          else match (if outer_left then join_point sl fl else join_point sr fr) with
               | Some q => miter_ok q mid width
               | None => true
               end
      end
  end.

(* =========================================================================================== *)
(* src/primitives/triangle/mod.rs                                                               *)
(* =========================================================================================== *)
(* triangle/mod.rs:181 area_doubled: -p2.y * p3.x + p1.y * (p3.x - p2.x) + p1.x * (p2.y - p3.y) + p2.x * p3.y *)
Definition area_doubled (p1 p2 p3 : point) : Z :=
  - py p2 * px p3 + py p1 * (px p3 - px p2) + px p1 * (py p2 - py p3) + px p2 * py p3.
Definition area_doubled_ok (p1 p2 p3 : point) : bool :=
  i32 (- py p2) && i32 (- py p2 * px p3) && i32 (px p3 - px p2) && i32 (py p1 * (px p3 - px p2)) &&
  i32 (- py p2 * px p3 + py p1 * (px p3 - px p2)) && i32 (py p2 - py p3) && i32 (px p1 * (py p2 - py p3)) &&
  i32 (- py p2 * px p3 + py p1 * (px p3 - px p2) + px p1 * (py p2 - py p3)) && i32 (px p2 * py p3) &&
  i32 (area_doubled p1 p2 p3).
(* triangle/mod.rs:85 contains, the barycentric part (the bounding-box test and the Bresenham edge test
   are Rectangle::with_corners / contains and Line::points) *)
Definition tri_s (p1 p2 p3 p : point) : Z :=
  py p1 * px p3 - px p1 * py p3 + (py p3 - py p1) * px p + (px p1 - px p3) * py p.
Definition tri_t (p1 p2 p3 p : point) : Z :=
  px p1 * py p2 - py p1 * px p2 + (py p1 - py p2) * px p + (px p2 - px p1) * py p.
Definition tri_bary_ok (a0 a1 b0 b1 c d e f pxx pyy : Z) : bool :=
  (* a0 * b0 - a1 * b1 + (c - d) * px + (e - f) * py *)
  i32 (a0 * b0) && i32 (a1 * b1) && i32 (a0 * b0 - a1 * b1) && i32 (c - d) && i32 ((c - d) * pxx) &&
  i32 (a0 * b0 - a1 * b1 + (c - d) * pxx) && i32 (e - f) && i32 ((e - f) * pyy) &&
  i32 (a0 * b0 - a1 * b1 + (c - d) * pxx + (e - f) * pyy).
Definition tri_contains_ok (p1 p2 p3 p : point) : bool :=
  tri_bary_ok (py p1) (px p1) (px p3) (py p3) (py p3) (py p1) (px p1) (px p3) (px p) (py p) &&
  tri_bary_ok (px p1) (py p1) (py p2) (px p2) (py p1) (py p2) (px p2) (px p1) (px p) (py p) &&
  (if negb (Bool.eqb (tri_s p1 p2 p3 p <? 0) (tri_t p1 p2 p3 p <? 0)) then true
   else area_doubled_ok p1 p2 p3 &&
        (if area_doubled p1 p2 p3 =? 0 then true
         else if area_doubled p1 p2 p3 <? 0
              then (if (tri_s p1 p2 p3 p <=? 0) && (tri_t p1 p2 p3 p <=? 0) then i32 (tri_s p1 p2 p3 p + tri_t p1 p2 p3 p) else true)
              else (if (0 <=? tri_s p1 p2 p3 p) && (0 <=? tri_t p1 p2 p3 p) then i32 (tri_s p1 p2 p3 p + tri_t p1 p2 p3 p) else true))).

(* triangle/mod.rs:142 bounding_box, 325 sort_two_yx, 200 sorted_yx: comparisons only *)
Definition tri_bbox (p1 p2 p3 : point) : rect :=
  with_corners (P (Z.min (Z.min (px p1) (px p2)) (px p3)) (Z.min (Z.min (py p1) (py p2)) (py p3)))
               (P (Z.max (Z.max (px p1) (px p2)) (px p3)) (Z.max (Z.max (py p1) (py p2)) (py p3))).
Definition tri_bbox_ok (p1 p2 p3 : point) : bool :=
  with_corners_ok (P (Z.min (Z.min (px p1) (px p2)) (px p3)) (Z.min (Z.min (py p1) (py p2)) (py p3)))
                  (P (Z.max (Z.max (px p1) (px p2)) (px p3)) (Z.max (Z.max (py p1) (py p2)) (py p3))).
Definition sort_two_yx (a b : point) : point * point :=
  if (py a <? py b) || ((py a =? py b) && (px a <? px b)) then (a, b) else (b, a).
Definition sorted_yx (p1 p2 p3 : point) : point * point * point :=
  let '(y1, y2) := sort_two_yx p1 p2 in
  let '(y1, y3) := sort_two_yx p3 y1 in
  let '(y2, y3) := sort_two_yx y3 y2 in (y1, y2, y3).
(* result of the barycentric block: None = `return false` (colinear), Some b = is_inside *)
Definition tri_bary (p1 p2 p3 p : point) : option bool :=
  let s := tri_s p1 p2 p3 p in let t := tri_t p1 p2 p3 p in let a := area_doubled p1 p2 p3 in
  if negb (Bool.eqb (s <? 0) (t <? 0)) then Some false
  else if a =? 0 then None
  else if a <? 0 then Some ((s <=? 0) && (t <=? 0) && (a <=? s + t))
  else Some ((0 <=? s) && (0 <=? t) && (s + t <=? a)).
(* triangle/mod.rs:85 contains, whole path; the edge test constructs three line::Points eagerly (their
   Bresenham runs are line_points_ok) *)
Definition line_points_new_ok (l : line) : bool := major_length_ok l && bparams_new_ok l.
Definition triangle_contains_ok (p1 p2 p3 p : point) : bool :=
  tri_bbox_ok p1 p2 p3 && contains_ok (tri_bbox p1 p2 p3) p &&
  if negb (contains (tri_bbox p1 p2 p3) p) then true else
  tri_contains_ok p1 p2 p3 p &&
  match tri_bary p1 p2 p3 p with
  | None => true
  | Some true => true
  | Some false =>
      let '(y1, y2, y3) := sorted_yx p1 p2 p3 in
      line_points_new_ok (L y1 y2) && line_points_new_ok (L y1 y3) && line_points_new_ok (L y2 y3)
  end.

(* =========================================================================================== *)
(* src/text/mod.rs, src/text/text.rs                                                            *)
(* =========================================================================================== *)
(* text/mod.rs:265 LineHeight::to_absolute: Pixels(px) => px ; Percent(p) => base * p / 100  (u32) *)
Definition line_height_ok (percent : bool) (v base : Z) : bool := if percent then u32 (base * v) else true.
Definition line_height_abs (percent : bool) (v base : Z) : Z := if percent then base * v / 100 else v.
(* text.rs:116 lines(): per line  p = position - (next_position - Point::new(1, 0)) [/ 2]; position.y += line_height *)
Inductive halign := HLeft | HCenter | HRight.
Definition text_line_ok (pos : point) (al : halign) (np : point) (lh : Z) : bool :=
  match al with
  | HLeft => true
  | HRight => point_sub_ok np (P 1 0) && point_sub_ok pos (psub np (P 1 0))
  | HCenter => point_sub_ok np (P 1 0) && point_div_ok (psub np (P 1 0)) 2 &&
               point_sub_ok pos (pdiv (psub np (P 1 0)) 2)
  end && i32 (py pos + lh).
(* n lines: position.y advances by line_height per line: the explicit bound of the loop is the line count *)
Fixpoint text_lines_ok (pos : point) (al : halign) (widths : list Z) (lh : Z) : bool :=
  match widths with
  | [] => true
  | w :: rest => text_line_ok pos al (P w 0) lh && text_lines_ok (P (px pos) (py pos + lh)) al rest lh
  end.

(* ---- src/mono_font/mono_text_style.rs: a mono font = character width cw, height ch, spacing sp, baseline row bl,
   underline (offset uo, height uh); n = number of characters of the line ---- *)
Inductive vbaseline := BTop | BBottom | BMiddle | BAlphabetic.
(* mono_text_style.rs:170 baseline_offset: saturating_sub / saturating_as only: no panic site *)
Definition baseline_offset (b : vbaseline) (ch bl : Z) : Z :=
  match b with
  | BTop => 0
  | BBottom => sat_u32_to_i32 (sat_sub_u32 ch 1)
  | BMiddle => sat_u32_to_i32 (sat_sub_u32 ch 1 / 2)
  | BAlphabetic => sat_u32_to_i32 bl
  end.
Definition baseline_offset_ok (b : vbaseline) (ch bl : Z) : bool := true.
(* mono_text_style.rs:75 line_elements: `width as i32`, `spacing as i32`; position.x += ... once per character / gap *)
Fixpoint line_elements_ok (x cw sp : Z) (n : nat) : bool :=
  match n with
  | O => true
  | Datatypes.S O => i32 (x + cw)
  | Datatypes.S k => i32 (x + cw) && i32 (x + cw + sp) && line_elements_ok (x + cw + sp) cw sp k
  end.
(* mono_text_style.rs:193 draw_string with neither text nor background colour (the other branches walk line_elements):
   position - (0, offset); (cw + sp) * count as u32; position + Size; next.x - position.x; next + (0, offset) *)
Definition draw_string_plain_ok (pos : point) (bo cw sp n : Z) : bool :=
  point_sub_ok pos (P 0 bo) && u32 (cw + sp) && u32 ((cw + sp) * n) &&
  point_add_size_ok (psub pos (P 0 bo)) (S ((cw + sp) * n) 0) &&
  (if 0 <? (cw + sp) * n then i32 ((px pos + (cw + sp) * n) - px pos) else true) &&
  point_add_ok (padd_size (psub pos (P 0 bo)) (S ((cw + sp) * n) 0)) (P 0 bo).
(* mono_text_style.rs:237 draw_whitespace: position - (0, offset); position + (width.saturating_as(), offset) *)
Definition draw_whitespace_ok (pos : point) (bo width : Z) : bool :=
  point_sub_ok pos (P 0 bo) && point_add_ok (psub pos (P 0 bo)) (P (sat_u32_to_i32 width) bo).
(* mono_text_style.rs:263 measure_string: position - (0, offset); count as u32 * (cw + sp) saturating_sub sp;
   underline.height + underline.offset; position + bb_size.x_axis() *)
Definition measure_width (cw sp n : Z) : Z := sat_sub_u32 (n * (cw + sp)) sp.
Definition measure_string_ok (pos : point) (bo cw sp n uo uh : Z) (underline : bool) : bool :=
  point_sub_ok pos (P 0 bo) && u32 (cw + sp) && u32 (n * (cw + sp)) &&
  (if underline then u32 (uh + uo) else true) &&
  point_add_size_ok pos (S (measure_width cw sp n) 0).

(* =========================================================================================== *)
(* src/image/image_raw.rs, src/iterator/contiguous.rs                                           *)
(* =========================================================================================== *)
(* image_raw.rs:197 bytes_per_row(width, bpp) = (width as usize * bpp + 7) / 8 *)
Definition bytes_per_row (w bpp : Z) : Z := (w * bpp + 7) / 8.
Definition bytes_per_row_ok (um w bpp : Z) : bool := usz um (w * bpp) && usz um (w * bpp + 7).
(* image_raw.rs:145 new: bytes_per_row(..) * size.height as usize *)
Definition image_new_ok (um w h bpp : Z) : bool := bytes_per_row_ok um w bpp && usz um (bytes_per_row w bpp * h).
(* image_raw.rs:185 data_width: if bpp < 8 { 8 / bpp as u32 ; bytes_per_row(..) as u32 * pixels_per_byte } *)
Definition data_width (w bpp : Z) : Z :=
  if bpp <? 8 then ((bytes_per_row w bpp) mod 4294967296) * (8 / bpp) else w.
Definition data_width_ok (um w bpp : Z) : bool :=
  if bpp <? 8 then nz bpp && bytes_per_row_ok um w bpp && u32 (((bytes_per_row w bpp) mod 4294967296) * (8 / bpp)) else true.
(* image_raw.rs:209 draw: row_skip = data_width() - size.width *)
Definition image_draw_ok (um w bpp : Z) : bool := data_width_ok um w bpp && u32 (data_width w bpp - w).
(* image_raw.rs:221 draw_sub_image *)
Definition sub_image_draws (w h ax_ ay_ aw ah : Z) : bool :=
  negb ((ah =? 0) || (aw =? 0) || (ax_ <? 0) || (ay_ <? 0) || (w <? ax_ + aw) || (h <? ay_ + ah)).
Definition image_draw_sub_ok (um w h bpp ax_ ay_ aw ah : Z) : bool :=
  if (ah =? 0) || (aw =? 0) || (ax_ <? 0) || (ay_ <? 0) then true else
  u32 (ax_ + aw) &&
  if w <? ax_ + aw then true else
  u32 (ay_ + ah) &&
  if h <? ay_ + ah then true else
  data_width_ok um w bpp && usz um (ay_ * data_width w bpp) && usz um (ay_ * data_width w bpp + ax_) &&
  usz um (data_width w bpp - aw).
(* image_raw.rs:265 pixel: p.x as usize + p.y as usize * data_width() as usize *)
Definition wrap_i32 (v : Z) : Z := if v <=? i32_max then v else v - 4294967296.     (* u32 `as i32` *)
Definition image_pixel_ok (um w h bpp x y : Z) : bool :=
  if (x <? 0) || (y <? 0) || (wrap_i32 w <=? x) || (wrap_i32 h <=? y) then true else
  data_width_ok um w bpp && usz um (y * data_width w bpp) && usz um (x + y * data_width w bpp).
(* image_raw.rs:298 ContiguousPixels::new: `initial_skip - 1` guarded by > 0; remaining_y *)
Record cpix := CP { cp_rx : Z; cp_w : Z; cp_ry : Z }.
Definition cpix_new (w h : Z) : cpix := CP (if 0 <? h then w else 0) w (if 0 <? w then sat_sub_u32 h 1 else 0).
Definition cpix_new_ok (um initial_skip : Z) : bool := if 0 <? initial_skip then usz um (initial_skip - 1) else true.
(* image_raw.rs:330 ContiguousPixels::next: Some(new state) while it yields, None at the end *)
Definition cpix_next (s : cpix) : option cpix :=
  if 0 <? cp_rx s then Some (CP (cp_rx s - 1) (cp_w s) (cp_ry s))
  else if cp_ry s =? 0 then None else Some (CP (cp_w s - 1) (cp_w s) (cp_ry s - 1)).
Definition cpix_next_ok (s : cpix) : bool :=
  if 0 <? cp_rx s then u32 (cp_rx s - 1)
  else if cp_ry s =? 0 then true else u32 (cp_ry s - 1) && u32 (cp_w s - 1).
Fixpoint cpix_run_ok (s : cpix) (fuel : nat) : bool :=
  match fuel with
  | O => true
  | Datatypes.S k => cpix_next_ok s && match cpix_next s with Some s' => cpix_run_ok s' k | None => true end
  end.
(* number of `next` calls until None, inclusive: the explicit step bound (w * h colours + 1) *)
Fixpoint cpix_steps (s : cpix) (fuel : nat) : option Z :=
  match fuel with
  | O => None
  | Datatypes.S k => match cpix_next s with None => Some 1 | Some s' => option_map (Z.add 1) (cpix_steps s' k) end
  end.
(* contiguous.rs:68 Cropped::new *)
Definition cropped_new_ok (um : Z) (w h : Z) (crop : rect) : bool :=
  let ca := intersection (R (P 0 0) (S w h)) crop in
  intersection_ok (R (P 0 0) (S w h)) crop &&
  usz um (py (tl ca)) && usz um (py (tl ca) * w) && usz um (px (tl ca)) && usz um (py (tl ca) * w + px (tl ca)) &&
  (if 0 <? py (tl ca) * w + px (tl ca) then usz um (py (tl ca) * w + px (tl ca) - 1) else true).
(* contiguous.rs:96 Cropped::next *)
Record crop_st := CS { cs_x : Z; cs_y : Z; cs_w : Z; cs_h : Z }.
Definition cropped_next (s : crop_st) : option crop_st :=
  if (cs_h s <=? cs_y s) || (cs_w s =? 0) then None
  else if cs_x s <? cs_w s then Some (CS (cs_x s + 1) (cs_y s) (cs_w s) (cs_h s))
  else Some (CS 1 (cs_y s + 1) (cs_w s) (cs_h s)).
Definition cropped_next_ok (s : crop_st) : bool :=
  if (cs_h s <=? cs_y s) || (cs_w s =? 0) then true
  else if cs_x s <? cs_w s then u32 (cs_x s + 1) else u32 (cs_y s + 1).

(* =========================================================================================== *)
(* documented panics and constant indices (formerly unmodelled)                                  *)
(* =========================================================================================== *)
(* indexing a fixed-size array / slice of length len at idx *)
Definition index_ok (len idx : Z) : bool := (0 <=? idx) && (idx <? len).
(* point.rs:393 Index<usize> for Point, size.rs:328 Index<usize> for Size: `_ => panic!("index out of bounds")`:
   precondition idx < 2 *)
Definition point_index_ok (idx : Z) : bool := index_ok 2 idx.
(* point.rs:417,423 / size.rs:344,350 From<[T; 2]>, From<&[T; 2]> (and the nalgebra Vector2 variants 509,519 / 387,397):
   other[0], other[1] on a two element array *)
Definition from_array2_ok : bool := index_ok 2 0 && index_ok 2 1.
(* point.rs:449-487 TryFrom conversions: try_into() returns a Result, no panic site *)
Definition try_from_ok : bool := true.
(* triangle/mod.rs:170 Triangle::from_slice: panics unless the slice has exactly three points *)
Definition tri_from_slice_ok (len : Z) : bool := len =? 3.
(* triangle/mod.rs:188 sorted_clockwise: area_doubled(); vertices[1], [0], [2] on [Point; 3] *)
Definition sorted_clockwise_ok (p1 p2 p3 : point) : bool :=
  area_doubled_ok p1 p2 p3 && index_ok 3 1 && index_ok 3 0 && index_ok 3 2.
(* triangle/mod.rs:249 is_collapsed, one join i (0..2): vertices[(i + 1) % 3], vertices[(i + 2) % 3] (usize);
   LinearEquation::from_line(&opposite).check_side(inner_point, Left) with the opposite edge's right extent and the
   inner corner of the join (the three joins and the extents are join_from_points_ok / extents_ok of OverflowWalk) *)
Definition is_collapsed_step_ok (um i : Z) (opposite : line) (inner : point) : bool :=
  usz um (i + 1) && index_ok 3 ((i + 1) mod 3) && usz um (i + 2) && index_ok 3 ((i + 2) mod 3) &&
  from_line_ok opposite && le_point_distance_ok opposite inner.
(* image_raw.rs:174 ImageRaw::new_const: panics exactly when ImageRaw::new answers Err(InvalidDataSize) *)
Definition image_new_const_ok (um w h bpp len : Z) : bool :=
  image_new_ok um w h bpp && (len =? bytes_per_row w bpp * h).
(* linear_equation.rs:78 OriginLinearEquation::with_angle: the trigonometry (angle.cos() * Real::from(SCALE) -> i32)
   is an external call; its integer part: Point::new(0, -NORMAL_VECTOR_SCALE) or Point::new(c, s).rotate_90(),
   with c, s the scaled cosine / sine handed back by `Real` *)
Definition normal_vector_scale : Z := 1024.
Definition with_angle_ok (is_180 : bool) (c s : Z) : bool :=
  if is_180 then i32 (- normal_vector_scale) else rotate_90_ok (P c s).

(* =========================================================================================== *)
(* The tie to the source: the skeleton (translate/gen_arith.py) each predicate was written against.   *)
(* (file, function, skeleton, the predicate that models its sites).  Regenerate with             *)
(* translate/record_skeletons.py AFTER re-reading the changed function and updating its predicate. *)
(* =========================================================================================== *)
Open Scope string_scope.
Definition recorded : list (string * string * string * string) := [
  ("core/src/geometry/point.rs", "Point::abs", ".abs .abs", "point_abs_ok");
  ("core/src/geometry/point.rs", "Point::sub_size", "as:i32 as:i32 debug_assert! 0 debug_assert! 0 sub sub", "point_sub_size_ok");
  ("core/src/geometry/point.rs", "Point::component_mul", "mul mul", "point_component_mul_ok");
  ("core/src/geometry/point.rs", "Point::component_div", "div div", "point_component_div_ok");
  ("core/src/geometry/point.rs", "Add for Point::add", "add add", "point_add_ok");
  ("core/src/geometry/point.rs", "Add for Point::add#2", "as:i32 as:i32 debug_assert! 0 debug_assert! 0 add add", "point_add_size_ok");
  ("core/src/geometry/point.rs", "AddAssign for Point::add_assign", "add= add=", "point_add_ok");
  ("core/src/geometry/point.rs", "AddAssign for Point::add_assign#2", "as:i32 as:i32 debug_assert! 0 debug_assert! 0 add= add=", "point_add_size_ok");
  ("core/src/geometry/point.rs", "Sub for Point::sub", "sub sub", "point_sub_ok");
  ("core/src/geometry/point.rs", "SubAssign for Point::sub_assign", "sub= sub=", "point_sub_ok");
  ("core/src/geometry/point.rs", "SubAssign for Point::sub_assign#2", "as:i32 as:i32 debug_assert! 0 debug_assert! 0 sub= sub=", "point_sub_size_ok");
  ("core/src/geometry/point.rs", "Mul for Point::mul", "mul mul", "point_mul_ok");
  ("core/src/geometry/point.rs", "MulAssign for Point::mul_assign", "mul= mul=", "point_mul_ok");
  ("core/src/geometry/point.rs", "Div for Point::div", "div div", "point_div_ok");
  ("core/src/geometry/point.rs", "DivAssign for Point::div_assign", "div= div=", "point_div_ok");
  ("core/src/geometry/point.rs", "Index for Point::index", "0 1 panic!", "point_index_ok");
  ("core/src/geometry/point.rs", "Neg for Point::neg", "neg neg", "point_neg_ok");
  ("core/src/geometry/point.rs", "From for Point::from#2", "index 0 index 1", "from_array2_ok");
  ("core/src/geometry/point.rs", "From for Point::from#3", "index 0 index 1", "from_array2_ok");
  ("core/src/geometry/point.rs", "TryFrom for ( u32 , u32 )::try_from", "( .try_into .try_into )", "try_from_ok");
  ("core/src/geometry/point.rs", "TryFrom for Point::try_from", "0 .try_into 1 .try_into", "try_from_ok");
  ("core/src/geometry/point.rs", "TryFrom for [ u32 ; 2 ]::try_from", ".try_into .try_into", "try_from_ok");
  ("core/src/geometry/point.rs", "TryFrom for Point::try_from#2", "index 0 .try_into index 1 .try_into", "try_from_ok (and from_array2_ok)");
  ("core/src/geometry/point.rs", "TryFrom for Point::try_from#3", "index 0 .try_into index 1 .try_into", "try_from_ok (and from_array2_ok)");
  ("core/src/geometry/point.rs", "From for Point::from#4", "index 0 index 1", "from_array2_ok");
  ("core/src/geometry/point.rs", "From for Point::from#5", "index 0 index 1", "from_array2_ok");
  ("core/src/geometry/size.rs", "Size::saturating_add", ".saturating_add( ) .saturating_add( )", "size_saturating_ok");
  ("core/src/geometry/size.rs", "Size::saturating_sub", ".saturating_sub( ) .saturating_sub( )", "size_saturating_ok");
  ("core/src/geometry/size.rs", "Size::div_u32", "div div", "size_div_ok");
  ("core/src/geometry/size.rs", "Size::from_bounding_box", "( sub ) .unsigned_abs add 1 ( sub ) .unsigned_abs add 1", "from_bounding_box_ok");
  ("core/src/geometry/size.rs", "Size::component_mul", "mul mul", "size_component_mul_ok");
  ("core/src/geometry/size.rs", "Size::component_div", "div div", "size_component_div_ok");
  ("core/src/geometry/size.rs", "Add for Size::add", "add add", "size_add_ok");
  ("core/src/geometry/size.rs", "AddAssign for Size::add_assign", "add= add=", "size_add_ok");
  ("core/src/geometry/size.rs", "Sub for Size::sub", "sub sub", "size_sub_ok");
  ("core/src/geometry/size.rs", "SubAssign for Size::sub_assign", "sub= sub=", "size_sub_ok");
  ("core/src/geometry/size.rs", "Mul for Size::mul", "mul mul", "size_mul_ok");
  ("core/src/geometry/size.rs", "MulAssign for Size::mul_assign", "mul= mul=", "size_mul_ok");
  ("core/src/geometry/size.rs", "DivAssign for Size::div_assign", "div= div=", "size_div_ok");
  ("core/src/geometry/size.rs", "Index for Size::index", "0 1 panic!", "point_index_ok");
  ("core/src/geometry/size.rs", "From for Size::from#2", "index 0 index 1", "from_array2_ok");
  ("core/src/geometry/size.rs", "From for Size::from#3", "index 0 index 1", "from_array2_ok");
  ("core/src/geometry/size.rs", "From for Size::from#4", "index 0 index 1", "from_array2_ok");
  ("core/src/geometry/size.rs", "From for Size::from#5", "index 0 index 1", "from_array2_ok");
  ("core/src/primitives/rectangle/mod.rs", "center_offset", ".saturating_sub( 1 ) 2", "center_offset_ok");
  ("core/src/primitives/rectangle/mod.rs", "Rectangle::center", "add", "center_ok");
  ("core/src/primitives/rectangle/mod.rs", "Rectangle::bottom_right", "0 0 add sub 1 1", "bottom_right_ok");
  ("core/src/primitives/rectangle/mod.rs", "Rectangle::resize_width_mut", ".saturating_as 1 sub .saturating_as 1 add= 0 div 2", "resized_width_ok");
  ("core/src/primitives/rectangle/mod.rs", "Rectangle::resize_height_mut", ".saturating_as 1 sub .saturating_as 1 add= 0 div 2", "resized_height_ok");
  ("core/src/primitives/rectangle/mod.rs", "Rectangle::offset", "0 .saturating_add( as:u32 mul 2 ) .saturating_sub( ( neg ) as:u32 mul 2 )", "offset_ok");
  ("core/src/primitives/rectangle/mod.rs", "Rectangle::anchor_x", ".saturating_as 1 sub 1 add 0 div 2", "anchor_x_ok");
  ("core/src/primitives/rectangle/mod.rs", "Rectangle::anchor_y", ".saturating_as 1 sub 1 add 0 div 2", "anchor_y_ok");
  ("core/src/primitives/rectangle/mod.rs", "Rectangle::rows", ".saturating_add( .saturating_as )", "rows_columns_ok");
  ("core/src/primitives/rectangle/mod.rs", "Rectangle::columns", ".saturating_add( .saturating_as )", "rows_columns_ok");
  ("src/geometry/mod.rs", "PointExt for Point::rotate_90", "neg", "rotate_90_ok");
  ("src/geometry/mod.rs", "PointExt for Point::dot_product", "mul add mul", "dot_product_ok");
  ("src/geometry/mod.rs", "PointExt for Point::determinant", "mul sub mul", "determinant_ok");
  ("src/geometry/mod.rs", "PointExt for Point::length_squared", ".pow( 2 ) add .pow( 2 )", "length_squared_ok");
  ("src/primitives/primitive_style.rs", "PrimitiveStyle::outside_stroke_width", "0 div 2", "stroke_widths_ok");
  ("src/primitives/primitive_style.rs", "PrimitiveStyle::inside_stroke_width", ".saturating_add( 1 ) div 2 0", "stroke_widths_ok");
  ("src/primitives/primitive_style.rs", "PrimitiveStyle::stroke_area", ".saturating_as", "rect_stroke_area_ok");
  ("src/primitives/primitive_style.rs", "PrimitiveStyle::fill_area", "neg .saturating_as 0", "rect_fill_area_ok");
  ("src/primitives/circle/mod.rs", "Circle::center_2x", ".saturating_sub( 1 ) mul 2 add", "circle_center_2x_ok");
  ("src/primitives/circle/mod.rs", "OffsetOutline for Circle::offset", "0 .saturating_add( 2 mul as:u32 ) .saturating_sub( 2 mul ( neg ) as:u32 )", "circle_offset_ok");
  ("src/primitives/circle/mod.rs", "ContainsPoint for Circle::contains", "sub mul 2 as:u32", "circle_contains_ok");
  ("src/primitives/circle/mod.rs", "Transform for Circle::translate", "add", "point_add_ok");
  ("src/primitives/circle/mod.rs", "Transform for Circle::translate_mut", "add=", "point_add_ok");
  ("src/primitives/circle/mod.rs", "diameter_to_threshold", "4 .pow( 2 ) sub div 2 .pow( 2 )", "diameter_to_threshold_ok");
  ("src/primitives/ellipse/mod.rs", "OffsetOutline for Ellipse::offset", "0 .saturating_add( 2 mul as:u32 ) .saturating_sub( 2 mul ( neg ) as:u32 )", "ellipse_offset_ok");
  ("src/primitives/ellipse/mod.rs", "center_2x", ".saturating_sub( 1 1 ) mul 2 add", "ellipse_center_2x_ok");
  ("src/primitives/ellipse/mod.rs", "ContainsPoint for Ellipse::contains", "mul 2 sub", "ellipse_contains_ok");
  ("src/primitives/ellipse/mod.rs", "Transform for Ellipse::translate", "add", "point_add_ok");
  ("src/primitives/ellipse/mod.rs", "Transform for Ellipse::translate_mut", "add=", "point_add_ok");
  ("src/primitives/ellipse/mod.rs", "EllipseContains::new", "( as:u64 ) .pow( 2 ) ( as:u64 ) .pow( 2 ) as:u64 mul", "ellipse_contains_new_ok");
  ("src/primitives/ellipse/mod.rs", "EllipseContains::contains", "( as:i64 ) .pow( 2 ) as:u64 ( as:i64 ) .pow( 2 ) as:u64 add mul add mul", "ellipse_contains_point_ok");
  ("src/primitives/rounded_rectangle/ellipse_quadrant.rs", "EllipseQuadrant::new", "sub sub sub mul 2 mul 2", "ellipse_quadrant_new_ok");
  ("src/primitives/rounded_rectangle/ellipse_quadrant.rs", "ContainsPoint for EllipseQuadrant::contains", "mul 2 sub", "ellipse_quadrant_contains_ok");
  ("src/primitives/rounded_rectangle/corner_radii.rs", "CornerRadii::confine", "0 0 add add add add ( ) ( ) ( ) ( ) ( 0 u64::from( ) mul u64::from( ) u64::from( ) mul u64::from( ) ) 0 ( mul ) div ( mul ) div ( mul ) div ( mul ) div", "confine_ok");
  ("src/primitives/line/mod.rs", "Line::with_delta", "add add", "point_add_ok");
  ("src/primitives/line/mod.rs", "Line::perpendicular", "sub neg add", "perpendicular_ok");
  ("src/primitives/line/mod.rs", "Line::extents", ".saturating_as add ( ) ( ) ( ) ( ) ( ) ( ) ( ) ( ) ( ) ( ) 0 0 sub add sub 1 add sub 1 ( )", "OverflowWalk.extents_ok");
  ("src/primitives/line/mod.rs", "Line::midpoint", "add ( sub ) div 2", "midpoint_ok");
  ("src/primitives/line/mod.rs", "Line::delta", "sub", "line_delta_ok");
  ("src/primitives/line/mod.rs", "Transform for Line::translate", "add add", "point_add_ok");
  ("src/primitives/line/mod.rs", "Transform for Line::translate_mut", "add= add=", "point_add_ok");
  ("src/primitives/line/points.rs", "Iterator for Points::next", "0 sub= 1", "line_points_ok");
  ("src/primitives/line/bresenham.rs", "BresenhamParameters::new", "sub 0 1 neg 1 0 1 neg 1 .abs ( ) ( ) ( ) 2 mul 2 mul", "bparams_new_ok");
  ("src/primitives/line/bresenham.rs", "BresenhamParameters::increase_error", "add= sub=", "increase_error_ok");
  ("src/primitives/line/bresenham.rs", "BresenhamParameters::decrease_error", "sub= neg add=", "decrease_error_ok");
  ("src/primitives/line/bresenham.rs", "BresenhamParameters::mirror_extra_points", "0 neg", "next_all_ok");
  ("src/primitives/line/bresenham.rs", "Bresenham::next", "add= sub= add= add=", "bnext_ok");
  ("src/primitives/line/bresenham.rs", "Bresenham::next_all", "add= sub= add= sub= add= add=", "next_all_ok");
  ("src/primitives/line/bresenham.rs", "Bresenham::previous_all", "neg sub= add= sub= add= sub= sub=", "previous_all_ok");
  ("src/primitives/line/bresenham.rs", "major_length", "( sub ) .abs as:u32 add 1", "major_length_ok");
  ("src/primitives/line/thick_points.rs", "ParallelsIterator::new", "i64::from( ) .pow( 2 ) add i64::from( ) .pow( 2 ) ( i64::from( ) mul 2 ) .pow( 2 ) mul ( add ) div 2 neg 0 0 .swap", "parallels_new_ok, OverflowWalk.parallels_new_so_ok");
  ("src/primitives/line/thick_points.rs", "Iterator for ParallelsIterator::next", "i64::from( ) .pow( 2 ) ( ) add= ( ) add= ( ) .swap", "parallels_next_ok, OverflowWalk.parallels_step_ok");
  ("src/primitives/line/thick_points.rs", "Iterator for ThickPoints::next", "0 sub= 1 ( ) sub= 1", "thick_points_next_ok, OverflowWalk.thick_points_ok");
  ("src/primitives/line/intersection_params.rs", "IntersectionParams::nearly_colinear_has_error", "i64::from( ) .pow( 2 ) i64::from( ) .abs", "nearly_colinear_ok");
  ("src/primitives/line/intersection_params.rs", "IntersectionParams::intersection", "0 0 i64::from( ) ( ) 0 ( neg neg ) ( ) ( add div 2 ) .div_euclid( ) .saturating_as ( ) ( ) i64::from( 0 ) mul i64::from( 1 ) sub i64::from( 1 ) mul i64::from( 0 ) ( ) ( ) ( )", "ip_intersection_ok");
  ("src/primitives/common/linear_equation.rs", "const NORMAL_VECTOR_SCALE", "1 shl 10", "constant item, evaluated by rustc");
  ("src/primitives/common/linear_equation.rs", "LinearEquation::distance", "sub", "le_point_distance_ok");
  ("src/primitives/common/linear_equation.rs", "OriginLinearEquation::with_angle", "f180.0 0 neg i32::from( mul Real::from( ) ) i32::from( mul Real::from( ) )", "with_angle_ok");
  ("src/primitives/common/line_join.rs", "LineJoin::from_points", "( ) ( ) ( ) sub i64::from( ) .pow( 2 ) add i64::from( ) .pow( 2 ) ( i64::from( ) mul 2 ) .pow( 2 )", "miter_ok, join_edges_ok, OverflowWalk.join_from_points_ok");
  ("src/primitives/triangle/mod.rs", "ContainsPoint for Triangle::contains", "mul sub mul add ( sub ) mul add ( sub ) mul mul sub mul add ( sub ) mul add ( sub ) mul ( 0 ) ( 0 ) 0 0 0 0 add 0 0 add", "triangle_contains_ok");
  ("src/primitives/triangle/mod.rs", "Triangle::from_slice", "panic!", "tri_from_slice_ok");
  ("src/primitives/triangle/mod.rs", "Triangle::area_doubled", "neg mul add mul ( sub ) add mul ( sub ) add mul", "area_doubled_ok");
  ("src/primitives/triangle/mod.rs", "Triangle::sorted_clockwise", "0 index 1 index 0 index 2", "sorted_clockwise_ok");
  ("src/primitives/triangle/mod.rs", "Triangle::is_collapsed", "( ) index ( add 1 ) rem 3 index ( add 2 ) rem 3 1", "is_collapsed_step_ok");
  ("src/primitives/triangle/mod.rs", "Transform for Triangle::translate_mut", "add=", "point_add_ok");
  ("src/mono_font/mono_text_style.rs", "MonoTextStyle::line_elements", "as:i32 as:i32 add= ( ) add= ( ) ( )", "line_elements_ok");
  ("src/mono_font/mono_text_style.rs", "MonoTextStyle::baseline_offset", "0 .saturating_sub( 1 ) .saturating_as ( .saturating_sub( 1 ) div 2 ) .saturating_as .saturating_as", "baseline_offset_ok");
  ("src/mono_font/mono_text_style.rs", "TextRenderer for MonoTextStyle::draw_string", "sub 0 ( ) ( ) ( ) ( ) ( ) ( add ) mul as:u32 add 0 ( sub ) as:u32 add 0", "draw_string_plain_ok (and line_elements_ok)");
  ("src/mono_font/mono_text_style.rs", "TextRenderer for MonoTextStyle::draw_whitespace", "sub 0 0 add .saturating_as", "draw_whitespace_ok");
  ("src/mono_font/mono_text_style.rs", "TextRenderer for MonoTextStyle::measure_string", "sub 0 ( as:u32 mul ( add ) ) .saturating_sub( ) ( add ) add", "measure_string_ok");
  ("src/text/mod.rs", "LineHeight::to_absolute", "mul div 100", "line_height_ok");
  ("src/text/text.rs", "Transform for Text::translate", "add", "point_add_ok");
  ("src/text/text.rs", "Transform for Text::translate_mut", "add=", "point_add_ok");
  ("src/text/text.rs", "Text::line_height", ".saturating_as", "line_height_ok");
  ("src/text/text.rs", "Text::lines", "sub ( sub 1 0 ) sub ( sub 1 0 ) div 2 add= ( )", "text_line_ok");
  ("src/image/image_raw.rs", "ImageRaw::new", "mul as:usize", "image_new_ok");
  ("src/image/image_raw.rs", "ImageRaw::new_const", "panic!", "image_new_const_ok");
  ("src/image/image_raw.rs", "ImageRaw::data_width", "8 8 div as:u32 as:u32 mul", "data_width_ok");
  ("src/image/image_raw.rs", "bytes_per_row", "( as:usize mul add 7 ) div 8", "bytes_per_row_ok");
  ("src/image/image_raw.rs", "ImageDrawable for ImageRaw::draw", "sub 0 as:usize", "image_draw_ok");
  ("src/image/image_raw.rs", "ImageDrawable for ImageRaw::draw_sub_image", "0 0 as:u32 add as:u32 add ( ) as:usize as:usize mul add as:usize sub as:usize", "image_draw_sub_ok");
  ("src/image/image_raw.rs", "GetPixel for ImageRaw::pixel", "0 0 as:i32 as:i32 as:usize add as:usize mul as:usize", "image_pixel_ok");
  ("src/image/image_raw.rs", "ContiguousPixels::new", "0 sub 1 0 .saturating_sub( 1 ) 0 0 0", "cpix_new_ok");
  ("src/image/image_raw.rs", "Iterator for ContiguousPixels::next", "0 sub= 1 0 sub= 1 sub 1", "cpix_next_ok");
  ("src/iterator/contiguous.rs", "Cropped::new", "as:usize mul as:usize add as:usize 0 sub 1 0 0 .saturating_sub( ) as:usize", "cropped_new_ok");
  ("src/iterator/contiguous.rs", "Iterator for Cropped::next", "0 add= 1 1 add= 1", "cropped_next_ok")
].

Definition unmodelled_fns : list (string * string) := [

].

(* a skeleton made of integer literals (and grouping parentheses) only has no operation that could panic *)
Fixpoint skel_trivial (s : string) : bool :=
  match s with
  | EmptyString => true
  | String c r =>
      let n := Ascii.nat_of_ascii c in
      (Nat.eqb n 32 || Nat.eqb n 40 || Nat.eqb n 41 || (Nat.leb 48 n && Nat.leb n 57)) && skel_trivial r
  end.
Definition site_recorded (f fn sk : string) : bool :=
  existsb (fun r => match r with (f', fn', sk', _) => String.eqb f f' && String.eqb fn fn' && String.eqb sk sk' end) recorded.
Definition site_unmodelled (f fn : string) : bool :=
  existsb (fun r => String.eqb f (fst r) && String.eqb fn (snd r)) unmodelled_fns.
(* a row of the regenerated table is covered when its skeleton is the recorded one, or literal-only, or the
   function is in the explicit unmodelled list *)
Definition site_covered (row : string * string * string) : bool :=
  match row with (f, fn, sk) => skel_trivial sk || site_recorded f fn sk || site_unmodelled f fn end.
(* no stale record: every recorded / unmodelled function still exists in the regenerated table *)
Definition record_live (table : list (string * string * string)) (f fn : string) : bool :=
  existsb (fun row => match row with (f', fn', _) => String.eqb f f' && String.eqb fn fn' end) table.
Definition records_live (table : list (string * string * string)) : bool :=
  forallb (fun r => match r with (f, fn, _, _) => record_live table f fn end) recorded &&
  forallb (fun r => record_live table (fst r) (snd r)) unmodelled_fns.
