(* C08 - panic-site predicates for the rest of the rendering path (files added to translate/gen_arith.py in round 3):
   scanline iterators of circle / ellipse / rounded rectangle, DistanceIterator, Sector, PlaneSector::point_type,
   sector stroke thresholds, RoundedRectangle (confined quadrants, contains, offset), polyline translation, Scanline,
   thick segment iterators, triangle edge intersections, MonoFont::glyph, decoration boxes, glyph mapping ranges,
   solid and dotted rectangle borders (integer part).  Same conventions as Model/Overflow.v.  Definitions only. *)
From EG Require Import Base.Prelude Model.Geometry Model.Line Model.Style Model.Overflow.
Open Scope Z_scope.

(* ---- circle/points.rs:61 Scanlines::next, circle/styled.rs:170 StyledScanlines::next,
        common/distance_iterator.rs:48 DistanceIterator::next: delta = Point::new(x, y) * 2 - center_2x;
        delta.length_squared() as u32 ---- *)
Definition scan_probe_ok (c2x q : point) : bool :=
  point_mul_ok q 2 && point_sub_ok (pmul q 2) c2x && length_squared_ok (psub (pmul q 2) c2x).
(* ... the scanline is shortened on the right by what was skipped on the left: x..columns.end - (x - columns.start) *)
Definition scan_shorten_ok (cstart cend x : Z) : bool := i32 (x - cstart) && i32 (cend - (x - cstart)).

(* ---- ellipse/points.rs:64, ellipse/styled.rs:167: scaled_y = y * 2 - center_2x.y; probe x * 2 - center_2x.x ---- *)
Definition ellipse_scan_row_ok (c2y y : Z) : bool := i32 (y * 2) && i32 (y * 2 - c2y).
Definition ellipse_scan_probe_ok (s : size) (c2x x scaled_y : Z) : bool :=
  i32 (x * 2) && i32 (x * 2 - c2x) && ellipse_contains_point_ok s (P (x * 2 - c2x) scaled_y).

(* ---- sector/mod.rs:131 center_2x (= circle), :158 contains: to_circle().contains(p), delta = p * 2 - center_2x,
        PlaneSector::contains(delta) = two OriginLinearEquation::distance = dot products with the half plane normals ---- *)
Definition plane_sector_contains_ok (nl nr delta : point) : bool := dot_product_ok delta nl && dot_product_ok delta nr.
Definition sector_contains_ok (t : point) (d : Z) (nl nr p : point) : bool :=
  circle_contains_ok t d p &&
  (* evaluated only when the circle contains p; conjoined unconditionally (stronger) *)
  circle_center_2x_ok t d && point_mul_ok p 2 && point_sub_ok (pmul p 2) (circle_center_2x t d) &&
  plane_sector_contains_ok nl nr (psub (pmul p 2) (circle_center_2x t d)).
(* common/plane_sector.rs:103 point_type: distances to both half planes, -outside_threshold, -inside_threshold *)
Definition point_type_ok (nl nr delta : point) (inside_thr outside_thr : Z) : bool :=
  dot_product_ok delta nr && dot_product_ok delta nl && i32 (- outside_thr) && i32 (- inside_thr).
(* sector/styled.rs:38 StyledPixelsIterator::new, the integer part: stroke widths saturating_as,
   w * NORMAL_VECTOR_SCALE * 2 -/+ NORMAL_VECTOR_SCALE, -outside * NORMAL_VECTOR_SCALE * 4 *)
Definition sector_thresholds_ok (iw ow : Z) : bool :=
  i32 (iw * 1024) && i32 (iw * 1024 * 2) && i32 (iw * 1024 * 2 - 1024) &&
  i32 (ow * 1024) && i32 (ow * 1024 * 2) && i32 (ow * 1024 * 2 + 1024) &&
  i32 (- ow) && i32 (- ow * 1024) && i32 (- ow * 1024 * 4).

(* ---- RoundedRectangle ---- *)
(* corner_radii.rs:60 the value confine returns *)
Definition sdiv (s : size) (k : Z) : size := S (sw s / k) (sh s / k).
Definition confined (c : radii) (bb : size) : radii :=
  let '(size, cs) := confine_choice c bb in
  if 0 <? cs then Radii (sdiv (smul (r_tl c) size) cs) (sdiv (smul (r_tr c) size) cs)
                        (sdiv (smul (r_br c) size) cs) (sdiv (smul (r_bl c) size) cs)
  else c.
Definition quadrant_radius (c : radii) (q : quadrant) : size :=
  match q with QTopLeft => r_tl c | QTopRight => r_tr c | QBottomRight => r_br c | QBottomLeft => r_bl c end.
(* rounded_rectangle/mod.rs:211 get_confined_corner_quadrant: corners.confine(size); the quadrant's top left corner
   top_left | top_left + size.x_axis() - tr.x_axis() | top_left + size - br | top_left + size.y_axis() - bl.y_axis() *)
Definition quadrant_top_left (r : rect) (cc : radii) (q : quadrant) : point :=
  match q with
  | QTopLeft => tl r
  | QTopRight => psub_size (padd_size (tl r) (S (sw (sz r)) 0)) (S (sw (r_tr cc)) 0)
  | QBottomRight => psub_size (padd_size (tl r) (sz r)) (r_br cc)
  | QBottomLeft => psub_size (padd_size (tl r) (S 0 (sh (sz r)))) (S 0 (sh (r_bl cc)))
  end.
Definition confined_quadrant_ok (r : rect) (c : radii) (q : quadrant) : bool :=
  confine_ok c (sz r) &&
  let cc := confined c (sz r) in
  match q with
  | QTopLeft => true
  | QTopRight => point_add_size_ok (tl r) (S (sw (sz r)) 0) && point_sub_size_ok (padd_size (tl r) (S (sw (sz r)) 0)) (S (sw (r_tr cc)) 0)
  | QBottomRight => point_add_size_ok (tl r) (sz r) && point_sub_size_ok (padd_size (tl r) (sz r)) (r_br cc)
  | QBottomLeft => point_add_size_ok (tl r) (S 0 (sh (sz r))) && point_sub_size_ok (padd_size (tl r) (S 0 (sh (sz r)))) (S 0 (sh (r_bl cc)))
  end &&
  ellipse_quadrant_new_ok (quadrant_top_left r cc q) (quadrant_radius cc q) q.
(* rounded_rectangle/mod.rs:364 RoundedRectangleContains::new: four quadrants; rows.start + h as i32, rows.end - h as i32 *)
Definition rrect_contains_new_ok (r : rect) (c : radii) : bool :=
  let cc := confined c (sz r) in
  confined_quadrant_ok r c QTopLeft && confined_quadrant_ok r c QTopRight &&
  confined_quadrant_ok r c QBottomLeft && confined_quadrant_ok r c QBottomRight &&
  i32 (fst (rows r) + sh (r_tl cc)) && i32 (snd (rows r) - sh (r_bl cc)) &&
  i32 (fst (rows r) + sh (r_tr cc)) && i32 (snd (rows r) - sh (r_br cc)).
(* ellipse/mod.rs:207 the value of EllipseContains::contains *)
Definition ellipse_point_in (s : size) (q : point) : bool :=
  let a := sw s * sw s in let b := sh s * sh s in
  let x := px q * px q in let y := py q * py q in
  if a =? b then x + y <? ellipse_threshold s else b * x + a * y <? ellipse_threshold s.
(* ellipse_quadrant.rs:52 the value of EllipseQuadrant::contains *)
Definition quadrant_contains (t : point) (radius : size) (q : quadrant) (p : point) : bool :=
  ellipse_point_in (smul radius 2)
    (psub (pmul p 2) (ellipse_center_2x (quadrant_ellipse_top_left t radius q) (smul radius 2))).
(* rounded_rectangle/mod.rs:392 contains, with the control flow of the code: outside rows x columns nothing is
   evaluated; each quadrant test only under its two range conditions; a failed test returns at once *)
Definition rrect_contains_ok (r : rect) (c : radii) (p : point) : bool :=
  let cc := confined c (sz r) in
  rrect_contains_new_ok r c &&
  let '(r0, r1) := rows r in let '(c0, c1) := columns r in
  if negb ((r0 <=? py p) && (py p <? r1) && (c0 <=? px p) && (px p <? c1)) then true else
  let qt q := quadrant_top_left r cc q in
  let qcols q := columns (R (qt q) (quadrant_radius cc q)) in
  let test (cond : bool) (q : quadrant) (k : bool) : bool :=
    if cond then ellipse_quadrant_contains_ok (qt q) (quadrant_radius cc q) q p &&
                 (if quadrant_contains (qt q) (quadrant_radius cc q) q p then k else true)
    else k in
  test ((py p <? r0 + sh (r_tl cc)) && (px p <? snd (qcols QTopLeft))) QTopLeft
   (test ((py p <? r0 + sh (r_tr cc)) && (fst (qcols QTopRight) <=? px p)) QTopRight
    (test ((r1 - sh (r_bl cc) <=? py p) && (px p <? snd (qcols QBottomLeft))) QBottomLeft
     (test ((r1 - sh (r_br cc) <=? py p) && (fst (qcols QBottomRight) <=? px p)) QBottomRight true))).
(* rounded_rectangle/mod.rs:244 offset: rectangle.offset(offset); offset as u32 / (-offset) as u32; saturating corners *)
Definition rrect_offset_ok (r : rect) (n : Z) : bool :=
  offset_ok r n && (if 0 <=? n then true else i32 (- n)).
(* rounded_rectangle/points.rs:55, styled.rs:172 Scanlines::next: rfind(..).map(|x| x + 1) *)
Definition rrect_scan_end_ok (x : Z) : bool := i32 (x + 1).

(* ---- polyline/mod.rs:89 bounding_box, :134 translate, points.rs:20,50: vertex + translate ---- *)
Definition polyline_vertex_ok (v t : point) : bool := point_add_ok v t.
Fixpoint polyline_vertices_ok (vs : list point) (t : point) : bool :=
  match vs with [] => true | v :: rest => polyline_vertex_ok v t && polyline_vertices_ok rest t end.

(* ---- common/scanline.rs ---- *)
(* :33 extend: x..x + 1 / x + 1 *)
Definition scanline_extend_ok (x : Z) : bool := i32 (x + 1).
(* :72 touches: self.x.start - 1, other.x.end - 1, other.x.start - 1, self.x.end - 1 (all conjoined: stronger) *)
Definition scanline_touches_ok (s e os oe : Z) : bool := i32 (s - 1) && i32 (oe - 1) && i32 (os - 1) && i32 (e - 1).
(* :115 to_rectangle, :140 draw: (x.end - x.start) as u32 when not empty *)
Definition scanline_width_ok (s e : Z) : bool := if s <? e then i32 (e - s) else true.

(* ---- common/thick_segment_iter.rs:87 next, closed_thick_segment_iter.rs:35 new, :94 next ---- *)
(* points.len() - 2 (the iterator is only running, stop = false, for >= 2 points) *)
Definition segment_iter_last_ok (um len : Z) : bool := usz um (len - 2).
(* ClosedThickSegmentIter::new: [start, end] | empty | points.last().unwrap(), points[0], points[1]:
   a single point panics (index 1 of a one element slice); the only caller passes the 3 vertices of a triangle *)
Definition closed_iter_new_ok (len : Z) : bool :=
  if (len =? 2) || (len =? 0) then true else (0 <? len) && index_ok len 0 && index_ok len 1.
Definition closed_iter_next_ok (um idx len : Z) : bool :=
  usz um (idx + 1) && (if idx + 1 =? len then usz um (len - 2) else true).
(* triangle/scanline_intersections.rs:88 edge_intersections: vertices[idx % 3] ... [(idx + 3) % 3], idx += 1, idx < 3 *)
Definition edge_intersections_ok (um idx : Z) : bool :=
  index_ok 3 (idx mod 3) && usz um (idx + 1) && index_ok 3 ((idx + 1) mod 3) && usz um (idx + 2) &&
  index_ok 3 ((idx + 2) mod 3) && usz um (idx + 3) && index_ok 3 ((idx + 3) mod 3).

(* ---- mono_font/mod.rs:100 MonoFont::glyph: image width iw, cell cw x ch, gi = glyph_mapping.index(c) as u32
        (a usize index is truncated, no panic) ---- *)
Definition glyph_ok (iw cw ch gi : Z) : bool :=
  if (cw =? 0) || (iw <? cw) then true
  else
    let gpr := iw / cw in
    let row := gi / gpr in
    nz gpr && u32 (row * gpr) && u32 (gi - row * gpr) && u32 ((gi - row * gpr) * cw) && u32 (row * ch).
(* mono_font/mod.rs:194 default_strikethrough (saturating), :202 default_underline: glyph_height + 1,
   :209 get_bounding_box: position + Size::new(0, offset) *)
Definition default_underline_ok (h : Z) : bool := u32 (h + 1).
Definition decoration_box_ok (pos : point) (offset : Z) : bool := point_add_size_ok pos (S 0 offset).
(* mono_font/mapping.rs:86 ranges: index += end as usize - start as usize + 1 (a range with end < start in the
   mapping string underflows); index += 1 *)
Definition mapping_range_ok (um index start end_ : Z) : bool :=
  usz um (end_ - start) && usz um (end_ - start + 1) && usz um (index + (end_ - start + 1)).

(* ---- rectangle/styled.rs:184 draw_styled, solid stroke: the four border rectangles ---- *)
Definition rect_solid_borders_ok (s : style) (r : rect) : bool :=
  let fa := offset r (fill_area_offset s) in
  let sa := offset r (stroke_area_offset s) in
  let w := stroke_width s in
  let top_h := Z.min w (sh (sz sa) / 2) in
  let bsw := Z.min w (sh (sz sa) - top_h) in
  rect_fill_area_ok s r && rect_stroke_area_ok s r &&
  u32 (sh (sz sa) - top_h) &&
  point_add_size_ok (tl sa) (S 0 (sat_sub_u32 (sh (sz sa)) bsw)) &&
  (if 0 <? sh (sz fa)
   then point_add_size_ok (tl sa) (S 0 top_h) && u32 (w * 2) && u32 (sw (sz sa) + 1) &&
        let lw := Z.min (w * 2) (sw (sz sa) + 1) / 2 in
        point_add_ok (padd_size (tl sa) (S 0 top_h)) (P (wrap_i32 (sat_sub_u32 (sw (sz sa)) lw)) 0)
   else true).
(* rectangle/styled.rs:184 dotted stroke, integer part: dot_size, border_size = stroke_area.size - dot_size,
   the side vectors, nb_dots of both layouts ((length + dot) / (2 * dot), length / (2 * dot)), `1..=nb_dots - 1`,
   *side / length as i32 * offset;  the positions themselves are `Real` arithmetic (external) *)
Definition rect_dotted_int_ok (s : style) (r : rect) : bool :=
  let sa := offset r (stroke_area_offset s) in
  let dot := Z.min (Z.min (stroke_width s) (sh (sz sa) / 2)) (sw (sz sa) / 2) in
  rect_fill_area_ok s r && rect_stroke_area_ok s r &&
  (if dot =? 0 then true
   else
     size_sub_ok (sz sa) (S dot dot) &&
     let bw := sw (sz sa) - dot in let bh := sh (sz sa) - dot in
     size_as_i32_ok (S bw bh) &&
     u32 (2 * dot) && nz (2 * dot) &&
     (if dot <? 4
      then (* clockwise layout: side / length as i32 for the sides that carry dots *)
           (if 0 <? bw / (2 * dot) then nz bw else true) && (if 0 <? bh / (2 * dot) then nz bh else true) &&
           i32 (- bw) && i32 (- bh)
      else u32 (bw + dot) && u32 (bh + dot) && u32 ((bw + dot) / (2 * dot) - 1) && u32 ((bh + dot) / (2 * dot) - 1) &&
           point_add_ok (tl sa) (P bw bh))).

(* ---- image/sub_image.rs SubImage::new(parent, area): parent.bounding_box().intersection(area)
        (parent = an image of pw x ph pixels at the origin) ---- *)
Definition sub_image_new_ok (pw ph : Z) (a : rect) : bool := intersection_ok (R (P 0 0) (S pw ph)) a.
(* recorded finding (known_findings.txt, class K08_subimage_area_overflow), decided from the input: the area's
   bottom right corner does not fit i32 (extent >= 2^31, or top_left + size > i32::MAX).  Such an area is not
   rejected: Point + Size panics ("width is too large" / add with overflow) *)
Definition K08_subimage_area_overflow (a : rect) : bool := negb (bottom_right_ok a).
Definition machine_rect (a : rect) : bool :=
  i32 (px (tl a)) && i32 (py (tl a)) && u32 (sw (sz a)) && u32 (sh (sz a)).

(* ---- circle/styled.rs:31, ellipse/styled.rs:11 StyledPixelsIterator::new: stroke_area / fill_area (offsets of the
        outline), then StyledScanlines::new: Scanlines::new(stroke_area) (rows / columns saturating, center_2x,
        threshold) and the fill threshold ---- *)
Definition circle_offset_top_left (t : point) (d n : Z) : point :=
  tl (with_center (center (R t (S d d))) (S (circle_offset_diameter d n) (circle_offset_diameter d n))).
Definition styled_circle_new_ok (s : style) (t : point) (d : Z) : bool :=
  circle_offset_ok t d (stroke_area_offset s) && fill_area_offset_ok s && circle_offset_ok t d (fill_area_offset s) &&
  circle_center_2x_ok (circle_offset_top_left t d (stroke_area_offset s)) (circle_offset_diameter d (stroke_area_offset s)) &&
  diameter_to_threshold_ok (circle_offset_diameter d (stroke_area_offset s)) &&
  diameter_to_threshold_ok (circle_offset_diameter d (fill_area_offset s)).
Definition ellipse_offset_top_left (t : point) (sz_ : size) (n : Z) : point :=
  tl (with_center (center (R t sz_)) (ellipse_offset_size sz_ n)).
Definition styled_ellipse_new_ok (s : style) (t : point) (sz_ : size) : bool :=
  ellipse_offset_ok t sz_ (stroke_area_offset s) && fill_area_offset_ok s && ellipse_offset_ok t sz_ (fill_area_offset s) &&
  ellipse_center_2x_ok (ellipse_offset_top_left t sz_ (stroke_area_offset s)) (ellipse_offset_size sz_ (stroke_area_offset s)) &&
  ellipse_contains_new_ok (ellipse_offset_size sz_ (stroke_area_offset s)) &&
  ellipse_contains_new_ok (ellipse_offset_size sz_ (fill_area_offset s)).
