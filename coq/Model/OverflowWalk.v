(* C08 - the per-step predicates of Model/Overflow.v evaluated along the walk of the thick-line state machine of
   Model/Thickline.v (line builder): ParallelsIterator::new for the three stroke offsets, next_parallel,
   Iterator::next, the whole sequence of parallels, Line::extents and ThickPoints (every Bresenham run).
   Definitions only; the recursion is exactly that of Model/Thickline.v with a site check at every step. *)
From EG Require Import Base.Prelude Model.Geometry Model.Style Model.Line Model.Thickline Model.Overflow.
Open Scope Z_scope.

(* thick_points.rs:132-165 next_parallel: next_all / previous_all on the perpendicular, then decrease_error /
   increase_error on the parallel error, until a parallel is returned *)
Fixpoint next_parallel_ok (fuel : nat) (s : pstate) (sd : side) : bool :=
  match fuel with
  | O => true
  | Datatypes.S f =>
      let decrease := match sd with SLeft => flip s | SRight => negb (flip s) end in
      let error := match sd with SLeft => left_error s | SRight => right_error s end in
      (match sd with
       | SLeft => Overflow.next_all_ok (perp_params s) (p_left s)
       | SRight => Overflow.previous_all_ok (perp_params s) (p_right s)
       end) &&
      let '(point, b') := match sd with
                          | SLeft => bnext_all (perp_params s) (p_left s)
                          | SRight => bprevious_all (perp_params s) (p_right s)
                          end in
      let s1 := match sd with
                | SLeft => PS (par_params s) (perp_params s) (thick_acc s) (thick_thr s) (flip s)
                              b' (left_error s) (p_right s) (right_error s) (next_side s) (p_offset s)
                | SRight => PS (par_params s) (perp_params s) (thick_acc s) (thick_thr s) (flip s)
                               (p_left s) (left_error s) b' (right_error s) (next_side s) (p_offset s)
                end in
      let set_error (s : pstate) (e : Z) : pstate :=
        match sd with
        | SLeft => PS (par_params s) (perp_params s) (thick_acc s) (thick_thr s) (flip s)
                      (p_left s) e (p_right s) (right_error s) (next_side s) (p_offset s)
        | SRight => PS (par_params s) (perp_params s) (thick_acc s) (thick_thr s) (flip s)
                       (p_left s) (left_error s) (p_right s) e (next_side s) (p_offset s)
        end in
      match point with
      | BNormal _ => true
      | BExtra _ =>
          if decrease then
            Overflow.decrease_error_ok (par_params s) error &&
            let '(e', took) := Thickline.decrease_error (par_params s) error in
            if took then true else next_parallel_ok f (set_error s1 e') sd
          else
            Overflow.increase_error_ok (par_params s) error &&
            let '(e', took) := Thickline.increase_error (par_params s) error in
            if took then true else next_parallel_ok f (set_error s1 e') sd
      end
  end.

(* thick_points.rs:171-209 Iterator::next: i64 square of the accumulator, next_parallel, accumulator += step *)
Definition parallels_step_ok (s : pstate) : bool :=
  Overflow.i64 (thick_acc s * thick_acc s) &&
  if thick_thr s <? thick_acc s * thick_acc s then true
  else
    next_parallel_ok np_fuel s (next_side s) &&
    match next_parallel np_fuel s (next_side s) with
    | None => true
    | Some (point, _, s1) =>
        match point with
        | BNormal _ => Overflow.i32 (thick_acc s1 + error_step_minor (perp_params s1))
        | BExtra _ => Overflow.i32 (thick_acc s1 + error_step_major (perp_params s1))
        end
    end.

(* every call of next() until it answers None *)
Fixpoint parallels_run_ok (fuel : nat) (s : pstate) : bool :=
  parallels_step_ok s &&
  match fuel with
  | O => true
  | Datatypes.S f => match parallels_next s with Yield _ s' => parallels_run_ok f s' | _ => true end
  end.

(* thick_points.rs:81-129 ParallelsIterator::new for any stroke offset: the sites of Overflow.parallels_new_ok, then
   the skipped centre line = next_parallel(next_side.swap()) *)
Definition parallels_new_so_ok (l0 : line) (thickness : Z) (so : stroke_offset) : bool :=
  Overflow.parallels_new_ok l0 thickness &&
  let l := if point_eqb (l_start l0) (l_end l0) then Thickline.horizontal_line else l0 in
  let par := bparams_new l in
  let perp := bparams_new (Thickline.perpendicular l) in
  let delta := psub (l_end l) (l_start l) in
  let thr := (thickness * 2) * (thickness * 2) * (px delta * px delta + py delta * py delta) in
  let acc := Z.quot (error_step_minor par + error_step_major par) 2 in
  let fl := point_eqb (pos_step_minor perp) (point_neg (pos_step_major par)) in
  let ns := match so with SONone => SRight | SOLeft => SLeft | SORight => SRight end in
  next_parallel_ok np_fuel
    (PS par perp acc thr fl (BS (l_start l0) 0) 0 (BS (l_start l0) 0) 0 ns so) (side_swap ns).

(* the whole ParallelsIterator: new + every next *)
Definition parallels_ok (l : line) (thickness : Z) (so : stroke_offset) : bool :=
  parallels_new_so_ok l thickness so &&
  match parallels_new l thickness so with
  | Some s => parallels_run_ok (parallels_fuel l thickness) s
  | None => false
  end.

(* line/mod.rs:110 Line::extents: thickness.saturating_as(); position_step.major + position_step.minor;
   the walk; end - start; left_start + delta - reduce; right_start + delta - reduce *)
Definition extents_edge_ok (l : line) (e : line) : bool :=
  Overflow.point_add_ok (l_start e) (psub (l_end l) (l_start l)) &&
  Overflow.i32 (px (l_end e)) && Overflow.i32 (py (l_end e)).
Definition extents_ok (l : line) (w : Z) (so : stroke_offset) : bool :=
  let par := bparams_new (if point_eqb (l_start l) (l_end l) then Thickline.horizontal_line else l) in
  parallels_ok l (sat_u32_to_i32 w) so &&
  Overflow.point_add_ok (pos_step_major par) (pos_step_minor par) &&
  Overflow.line_delta_ok l &&
  match extents l w so with
  | Some (a, b) => extents_edge_ok l a && extents_edge_ok l b
  | None => false
  end.

(* thick_points.rs:213-247 ThickPoints driven to the end: the walk, then Bresenham::next along every parallel
   (major_length points, one fewer on Extra parallels: `parallel_length - 1`) *)
Definition thick_points_ok (l : line) (thickness : Z) : bool :=
  Overflow.major_length_ok l && parallels_ok l thickness SONone &&
  match parallels l thickness SONone with
  | None => false
  | Some ps =>
      let par := bparams_new (if point_eqb (l_start l) (l_end l) then Thickline.horizontal_line else l) in
      forallb (fun bt : bstate * ltype =>
                 match snd bt with
                 | LNormal => Overflow.bresenham_run_ok par (fst bt) (Z.to_nat (major_length l))
                 | LExtra => Overflow.thick_points_next_ok (major_length l) &&
                             Overflow.bresenham_run_ok par (fst bt) (Z.to_nat (major_length l - 1))
                 end) ps
  end.
(* line/styled.rs: the whole styled line: stroke_width.saturating_as(), ThickPoints *)
Definition styled_line_pixels_ok (l : line) (w : Z) : bool := thick_points_ok l (sat_u32_to_i32 w).

(* line_join.rs:127 LineJoin::from_points from its three vertices: both extents, then the join arithmetic on the
   four edge lines (Overflow.join_edges_ok) *)
Definition join_from_points_ok (start mid end_ : point) (w : Z) (so : stroke_offset) : bool :=
  extents_ok (L start mid) w so && extents_ok (L mid end_) w so &&
  match extents (L start mid) w so, extents (L mid end_) w so with
  | Some (fl, fr), Some (sl, sr) => Overflow.join_edges_ok fl fr sl sr mid w
  | _, _ => false
  end.
