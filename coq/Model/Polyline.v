(* Model of src/primitives/polyline/mod.rs (Polyline, bounding_box, translate) and
   src/primitives/polyline/points.rs (the Points iterator, step by step, and the list it yields).
   Definitions only (extracted).  The segment iterator `line::Points` is represented by the list of
   points it still has to yield (a suffix of Line.line_points). *)
From EG Require Import Base.Prelude Model.Geometry Model.Line.

(* polyline/mod.rs:58-64 *)
Record polyline := PL { pl_translate : point; pl_vertices : list point }.

(* polyline/mod.rs:71-76  Polyline::new *)
Definition polyline_new (vs : list point) : polyline := PL (P 0 0) vs.

(* polyline/points.rs:13-17 *)
Record ppoints := PP { pp_vertices : list point; pp_translate : point; pp_segment : list point }.

(* polyline/points.rs:20-44  Points::new; line::Points::empty() yields nothing *)
Definition ppoints_new (pl : polyline) : ppoints :=
  match pl_vertices pl with
  | start :: rest =>
      match rest with
      | e :: _ => PP rest (pl_translate pl)
                    (line_points (L (padd start (pl_translate pl)) (padd e (pl_translate pl))))
      | [] => PP [] (P 0 0) []
      end
  | [] => PP [] (P 0 0) []
  end.

(* polyline/points.rs:49-65  Iterator::next.  Result: None = fuel exhausted (never happens, see
   Proofs/Polyline.v ppoints_next_fuel_ok); Some (r, s') = returned item r and the state afterwards.
   `self.nth(1)` is Iterator::nth's default: one `next()` whose item is dropped (a `None` there ends
   nth with `None`), then the `next()` that is returned. *)
Fixpoint ppoints_next (fuel : nat) (s : ppoints) : option (option point * ppoints) :=
  match fuel with
  | O => None
  | Datatypes.S k =>
      match pp_segment s with
      | p :: seg' => Some (Some p, PP (pp_vertices s) (pp_translate s) seg')
      | [] =>
          match pp_vertices s with
          | [] => Some (None, s)                              (* split_first()? *)
          | start :: rest =>
              match rest with
              | [] => Some (None, s)                          (* rest.first()? *)
              | e :: _ =>
                  let s1 := PP rest (pp_translate s)
                              (line_points (L (padd start (pp_translate s)) (padd e (pp_translate s)))) in
                  match ppoints_next k s1 with                (* self.nth(1): skipped item *)
                  | None => None
                  | Some (None, s2) => Some (None, s2)
                  | Some (Some _, s2) => ppoints_next k s2    (* self.nth(1): returned item *)
                  end
              end
          end
      end
  end.

(* fuel for one call of next: each nested call consumes a vertex *)
Definition ppoints_next_fuel (s : ppoints) : nat := Datatypes.S (length (pp_vertices s)).

(* the list a `for` loop sees: items up to the first None *)
Fixpoint ppoints_collect (n : nat) (s : ppoints) : list point :=
  match n with
  | O => []
  | Datatypes.S k =>
      match ppoints_next (ppoints_next_fuel s) s with
      | Some (Some p, s') => p :: ppoints_collect k s'
      | _ => []
      end
  end.

(* consecutive vertex pairs *)
Fixpoint segments (vs : list point) : list line :=
  match vs with
  | a :: t => match t with b :: _ => L a b :: segments t | [] => [] end
  | [] => []
  end.

(* upper bound on the number of items: all points of all segment lines, plus the final None *)
Definition polyline_fuel (pl : polyline) : nat :=
  Datatypes.S (fold_right (fun l acc => (Z.to_nat (major_length l) + acc)%nat) O
                 (segments (map (fun v => padd v (pl_translate pl)) (pl_vertices pl)))).

(* PointsIter::points, polyline/mod.rs:80-86 *)
Definition polyline_points (pl : polyline) : list point :=
  ppoints_collect (polyline_fuel pl) (ppoints_new pl).

(* polyline/mod.rs:88-114  Dimensions::bounding_box (note: the one-vertex arm ignores `translate`) *)
Definition polyline_bounding_box (pl : polyline) : rect :=
  match pl_vertices pl with
  | [] => rect_zero
  | [v] => R v (S 0 0)
  | vs =>
      let tvs := map (fun v => padd v (pl_translate pl)) vs in
      let top_left := fold_left (fun acc v => P (Z.min (px acc) (px v)) (Z.min (py acc) (py v))) tvs (P i32_max i32_max) in
      let bottom_right := fold_left (fun acc v => P (Z.max (px acc) (px v)) (Z.max (py acc) (py v))) tvs (P i32_min i32_min) in
      with_corners top_left bottom_right
  end.

(* polyline/mod.rs:135-140  Transform::translate *)
Definition polyline_translate (pl : polyline) (by_ : point) : polyline :=
  PL (padd (pl_translate pl) by_) (pl_vertices pl).
