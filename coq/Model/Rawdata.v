(* Model of core/src/pixelcolor/raw/{mod,load_store,to_bytes}.rs and src/iterator/raw.rs.
   Definitions only (extracted to OCaml and run against the implementation).

   Buffers are `list Z` of bytes 0..255, indices are non-negative Z (usize), raw values are Z.
   u8 bit operations are modelled with Z.land / Z.lor / Z.lxor / Z.shiftl / Z.shiftr and an explicit
   truncation to 8 bits (`u8`), exactly as the Rust expressions are written; the arithmetic reading
   (/ 2^k mod 2^b) is a THEOREM (Proofs/Rawdata.v), not a definition.
   `index.checked_mul(N)` is modelled as written (None above usize::MAX of the target U). `index + 1`
   (iterator) and `len * (8 / bpp)` (size_hint) are unbounded here; they coincide with usize arithmetic
   when 8 * len <= usize::MAX (len_ok in Proofs/Rawdata.v), i.e. for every slice below 2 EiB. *)
From EG Require Import Base.Prelude.

(* The width of usize is a parameter of the model: every function that goes through checked_mul /
   saturating_add takes the target's usize (implicitly, as the instance U of this class).  Rust guarantees
   usize >= 16 bits; the instances are the three pointer widths Rust supports.  The correspondence runs the
   64-bit instance (the harness target); the theorems hold for every instance. *)
Class Usize := { usize_max : Z; usize_at_least_16 : 65535 <= usize_max }.
Definition usize16 : Usize := {| usize_max := 65535; usize_at_least_16 := proj1 (Z.leb_le 65535 65535) (eq_refl true) |}.
Definition usize32 : Usize := {| usize_max := 4294967295; usize_at_least_16 := proj1 (Z.leb_le 65535 4294967295) (eq_refl true) |}.
Definition usize64 : Usize := {| usize_max := 18446744073709551615; usize_at_least_16 := proj1 (Z.leb_le 65535 18446744073709551615) (eq_refl true) |}.

Section WithUsize.
Context {U : Usize}.

Definition sat_add_usize (a b : Z) : Z := Z.min (a + b) usize_max.
Definition sat_sub_usize (a b : Z) : Z := Z.max (a - b) 0.

(* raw/mod.rs:270-276  impl_raw_data!(RawU1: u8, 1, ..) .. impl_raw_data!(RawU32: u32, 32, ..) *)
Inductive rawty := U1 | U2 | U4 | U8 | U16 | U24 | U32.
Definition all_rawty : list rawty := [U1; U2; U4; U8; U16; U24; U32].

(* RawData::BITS_PER_PIXEL *)
Definition bits (t : rawty) : Z :=
  match t with U1 => 1 | U2 => 2 | U4 => 4 | U8 => 8 | U16 => 16 | U24 => 24 | U32 => 32 end.

(* raw/mod.rs:214  MASK = Storage::MAX >> (Storage::BITS - bpp) *)
Definition mask (t : rawty) : Z := Z.shiftr (2 ^ (match t with U16 => 16 | U24 | U32 => 32 | _ => 8 end) - 1)
                                            ((match t with U16 => 16 | U24 | U32 => 32 | _ => 8 end) - bits t).

(* raw/mod.rs:199  $type::new(value) = $type(value & MASK) *)
Definition raw_new (t : rawty) (v : Z) : Z := Z.land v (mask t).

(* DataOrder::IS_ALTERNATE_ORDER: false = LittleEndianMsb0, true = BigEndianLsb0  (raw/mod.rs:300-306) *)
Definition order := bool.

(* ---- byte buffers ------------------------------------------------------------------------- *)
Definition u8 (x : Z) : Z := Z.land x 255.            (* truncation of an u8 expression *)
Definition not8 (x : Z) : Z := Z.lxor (u8 x) 255.      (* !x on u8 *)

Definition buf_len (buf : list Z) : Z := Z.of_nat (length buf).

(* slice.get(i): bounds test first (also keeps Z.to_nat small when the model is executed) *)
Definition get (buf : list Z) (i : Z) : option Z :=
  if i <? buf_len buf then nth_error buf (Z.to_nat i) else None.

(* slice[i] = v   (no-op when i is out of range; callers test `get` first) *)
Fixpoint upd (buf : list Z) (n : nat) (v : Z) : list Z :=
  match buf, n with
  | [], _ => []
  | _ :: r, O => v :: r
  | x :: r, Datatypes.S k => x :: upd r k v
  end.

(* slice.get(start..)  : None iff start > len *)
Definition get_from (buf : list Z) (start : Z) : option (list Z) :=
  if start <=? buf_len buf then Some (skipn (Z.to_nat start) buf) else None.
(* slice.get(0..n) : None iff n > len *)
Definition get_prefix (buf : list Z) (n : Z) : option (list Z) :=
  if n <=? buf_len buf then Some (firstn (Z.to_nat n) buf) else None.
(* buffer[start..start+len(bytes)].copy_from_slice(bytes) *)
Definition splice (buf : list Z) (start : Z) (bytes : list Z) : list Z :=
  firstn (Z.to_nat start) buf ++ bytes ++ skipn (Z.to_nat start + length bytes) buf.

(* uN::from_le_bytes / from_be_bytes, to_le_bytes / to_be_bytes (n bytes) *)
Definition from_le (l : list Z) : Z := fold_right (fun b acc => b + 256 * acc) 0 l.
Definition from_be (l : list Z) : Z := from_le (rev l).
Fixpoint to_le (n : nat) (v : Z) : list Z :=
  match n with O => [] | Datatypes.S k => v mod 256 :: to_le k (v / 256) end.
Definition to_be (n : nat) (v : Z) : list Z := rev (to_le n v).

(* ---- load_store.rs:11-22  bit_position ---------------------------------------------------- *)
Definition bit_position (t : rawty) (alt : order) (index : Z) : Z * Z :=
  let pixels_per_byte := 8 / bits t in
  let byte_index := index / pixels_per_byte in
  let bit_index := (if alt then index mod pixels_per_byte
                    else (pixels_per_byte - 1) - (index mod pixels_per_byte)) * bits t in
  (byte_index, bit_index).

(* load_store.rs:28-35  buffer.get(byte_index).map(|byte| byte >> bit_index).map(Into::into)
   (Into::into = From<u8> = Self::new = & MASK) *)
Definition load_bits (t : rawty) (alt : order) (buf : list Z) (index : Z) : option Z :=
  let '(byte_index, bit_index) := bit_position t alt index in
  option_map (fun byte => raw_new t (Z.shiftr byte bit_index)) (get buf byte_index).

(* load_store.rs:38-49  byte' = (byte & !(MASK << bit_index)) | (self.into_inner() << bit_index) *)
Definition store_byte (t : rawty) (bit_index v byte : Z) : Z :=
  Z.lor (Z.land byte (not8 (Z.shiftl (mask t) bit_index))) (u8 (Z.shiftl v bit_index)).

(* result of store: the buffer afterwards and whether Ok(()) was returned *)
Definition store_bits (t : rawty) (alt : order) (v : Z) (buf : list Z) (index : Z) : list Z * bool :=
  let '(byte_index, bit_index) := bit_position t alt index in
  match get buf byte_index with
  | None => (buf, false)
  | Some byte => (upd buf (Z.to_nat byte_index) (store_byte t bit_index v byte), true)
  end.

(* load_store.rs:57-68  RawU8 *)
Definition load_u8 (buf : list Z) (index : Z) : option Z := option_map (raw_new U8) (get buf index).
Definition store_u8 (v : Z) (buf : list Z) (index : Z) : list Z * bool :=
  match get buf index with
  | None => (buf, false)
  | Some _ => (upd buf (Z.to_nat index) v, true)
  end.

(* load_store.rs:70-175  RawU16 / RawU24 / RawU32 *)
Definition nbytes (t : rawty) : Z := bits t / 8.

(* usize::checked_mul *)
Definition checked_mul_usize (a b : Z) : option Z := if a * b <=? usize_max then Some (a * b) else None.

(* load_store.rs:72-75, 97-101 (U16), 108-111, 141-145 (U24), 152-155, 177-181 (U32):
   index.checked_mul(N).and_then(|start| buffer.get(start..)).and_then(|buffer| buffer.get(0..N)) *)
Definition get_pixel_bytes (t : rawty) (buf : list Z) (index : Z) : option (list Z) :=
  match checked_mul_usize index (nbytes t) with
  | None => None
  | Some start =>
      match get_from buf start with
      | Some rest => get_prefix rest (nbytes t)
      | None => None
      end
  end.

Definition decode_bytes (t : rawty) (alt : order) (bytes : list Z) : Z :=
  match t with
  | U24 =>
      (* bytes_extended[1..4] / [0..3]; new_unmasked *)
      if alt then from_be (0 :: bytes) else from_le (bytes ++ [0])
  | _ => raw_new t (if alt then from_be bytes else from_le bytes)
  end.

Definition load_bytes (t : rawty) (alt : order) (buf : list Z) (index : Z) : option Z :=
  option_map (decode_bytes t alt) (get_pixel_bytes t buf index).

Definition encode_bytes (t : rawty) (alt : order) (v : Z) : list Z :=
  match t with
  | U24 =>
      (* [bytes[1], bytes[2], bytes[3]] of to_be_bytes / [bytes[0], bytes[1], bytes[2]] of to_le_bytes (u32) *)
      if alt then skipn 1 (to_be 4 v) else firstn 3 (to_le 4 v)
  | _ => if alt then to_be (Z.to_nat (nbytes t)) v else to_le (Z.to_nat (nbytes t)) v
  end.

Definition store_bytes (t : rawty) (alt : order) (v : Z) (buf : list Z) (index : Z) : list Z * bool :=
  let bytes := encode_bytes t alt v in
  match get_pixel_bytes t buf index with
  | None => (buf, false)
  | Some _ => (splice buf (index * nbytes t) bytes, true)
  end.

(* RawData::load::<O> / RawData::store::<O>  (raw/mod.rs:226-233 dispatch to LoadStore) *)
Definition load (t : rawty) (alt : order) (buf : list Z) (index : Z) : option Z :=
  match t with
  | U1 | U2 | U4 => load_bits t alt buf index
  | U8 => load_u8 buf index
  | _ => load_bytes t alt buf index
  end.

Definition store (t : rawty) (alt : order) (v : Z) (buf : list Z) (index : Z) : list Z * bool :=
  match t with
  | U1 | U2 | U4 => store_bits t alt v buf index
  | U8 => store_u8 v buf index
  | _ => store_bytes t alt v buf index
  end.

(* ---- src/iterator/raw.rs  RawDataIterator -------------------------------------------------- *)
Record iter := It { it_data : list Z; it_index : Z }.

(* raw.rs:76-83 *)
Definition iter_new (data : list Z) : iter := It data 0.

(* raw.rs:91-95  R::load::<O>(self.data, self.index).inspect(|_| self.index += 1) *)
Definition iter_next (t : rawty) (alt : order) (s : iter) : option Z * iter :=
  match load t alt (it_data s) (it_index s) with
  | Some v => (Some v, It (it_data s) (it_index s + 1))
  | None => (None, s)
  end.

(* raw.rs:98-101  self.index = self.index.saturating_add(n); self.next() *)
Definition iter_nth (t : rawty) (alt : order) (s : iter) (n : Z) : option Z * iter :=
  iter_next t alt (It (it_data s) (sat_add_usize (it_index s) n)).

(* raw.rs:103-113 *)
Definition pixels_total (t : rawty) (len : Z) : Z :=
  if 8 <=? bits t then len / (bits t / 8) else len * (8 / bits t).

Definition size_hint (t : rawty) (s : iter) : Z * option Z :=
  let size := sat_sub_usize (pixels_total t (buf_len (it_data s))) (it_index s) in
  (size, Some size).

(* the iterator as the total list it yields when driven to the first None (fuel never runs out:
   Proofs/Rawdata.v iter_fuel_ok) *)
Fixpoint iter_collect (t : rawty) (alt : order) (fuel : nat) (s : iter) : option (list Z) :=
  match fuel with
  | O => None
  | Datatypes.S k =>
      match iter_next t alt s with
      | (Some v, s') => option_map (cons v) (iter_collect t alt k s')
      | (None, _) => Some []
      end
  end.

Definition iter_fuel (t : rawty) (s : iter) : nat :=
  Datatypes.S (Z.to_nat (pixels_total t (buf_len (it_data s)) - it_index s)).

Definition iter_list (t : rawty) (alt : order) (s : iter) : option (list Z) :=
  iter_collect t alt (iter_fuel t s) s.

End WithUsize.
