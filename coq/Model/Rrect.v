(* Model of src/primitives/rounded_rectangle/{mod,corner_radii,ellipse_quadrant,points,styled}.rs,
   src/primitives/common/{scanline,styled_scanline}.rs (the parts the rounded rectangle uses) and a
   private copy of EllipseContains / center_2x / diameter_to_threshold (ellipse/mod.rs, circle/mod.rs;
   to be unified with the ellipse model later).
   Definitions only (extracted to OCaml and run against the implementation).  Integers are unbounded Z;
   the machine range in which model and code coincide is stated with the theorems (Proofs/Rrect.v). *)
From EG Require Import Base.Prelude Model.Geometry Model.Style.

(* ---- corner_radii.rs --------------------------------------------------------------------- *)
(* corner_radii.rs:31-43 *)
Record radii := CR { r_tl : size; r_tr : size; r_br : size; r_bl : size }.

(* corner_radii.rs:50-57  CornerRadii::new *)
Definition radii_equal (s : size) : radii := CR s s s s.

(* corner_radii.rs:76-82: one turn of the `for (radii, side) in [...]` loop; state = (size, corner_size).
   The comparison is done in u64 in the code (no overflow for u32 operands). *)
Definition confine_step (acc : Z * Z) (rs : Z * Z) : Z * Z :=
  let '(size, corner_size) := acc in
  let '(radii, side) := rs in
  if (side <? radii) && ((corner_size =? 0) || (corner_size * side <? radii * size))
  then (side, radii)
  else acc.

(* size.rs: Size * u32, Size / u32 (u32 arithmetic: truncating division of non-negatives) *)
Definition size_scale (s : size) (num den : Z) : size := S (sw s * num / den) (sh s * num / den).

(* corner_radii.rs:60-95  CornerRadii::confine *)
Definition confine (c : radii) (bb : size) : radii :=
  let top_radii := sw (r_tl c) + sw (r_tr c) in
  let right_radii := sh (r_tr c) + sh (r_br c) in
  let bottom_radii := sw (r_bl c) + sw (r_br c) in
  let left_radii := sh (r_tl c) + sh (r_bl c) in
  let '(size, corner_size) :=
    fold_left confine_step
      [(top_radii, sw bb); (right_radii, sh bb); (bottom_radii, sw bb); (left_radii, sh bb)] (0, 0) in
  if 0 <? corner_size
  then CR (size_scale (r_tl c) size corner_size) (size_scale (r_tr c) size corner_size)
          (size_scale (r_br c) size corner_size) (size_scale (r_bl c) size corner_size)
  else c.

(* ---- private copy of the ellipse test ---------------------------------------------------- *)
(* circle/mod.rs:180-186 *)
Definition rr_diameter_to_threshold (d : Z) : Z := if d <=? 4 then d * d - d / 2 else d * d.

(* ellipse/mod.rs:178-182 *)
Record ellipse_contains := EC { ec_a : Z; ec_b : Z; ec_threshold : Z }.

(* ellipse/mod.rs:188-204  EllipseContains::new (u64 products; the circle threshold is still u32) *)
Definition ec_new (s : size) : ellipse_contains :=
  let a := sw s * sw s in
  let b := sh s * sh s in
  EC a b (if sw s =? sh s then rr_diameter_to_threshold (sw s) else b * a).

(* ellipse/mod.rs:207-218  EllipseContains::contains *)
Definition ec_contains (e : ellipse_contains) (p : point) : bool :=
  let x := px p * px p in
  let y := py p * py p in
  if ec_a e =? ec_b e then x + y <? ec_threshold e
  else ec_b e * x + ec_a e * y <? ec_threshold e.

(* ellipse/mod.rs:109-113  center_2x(top_left, size) *)
Definition rr_center_2x (top_left : point) (s : size) : point :=
  padd_size (P (px top_left * 2) (py top_left * 2)) (size_sat_sub s (S 1 1)).

(* ellipse/mod.rs:125-130  Ellipse::contains of Ellipse::new(top_left, s) *)
Definition rr_ellipse_contains (top_left : point) (s : size) (p : point) : bool :=
  ec_contains (ec_new s) (psub (P (px p * 2) (py p * 2)) (rr_center_2x top_left s)).

(* ---- ellipse_quadrant.rs ------------------------------------------------------------------ *)
Inductive quadrant := QTopLeft | QTopRight | QBottomRight | QBottomLeft.

(* ellipse_quadrant.rs:22-26 *)
Record equad := EQ { eq_bbox : rect; eq_center_2x : point; eq_ellipse : ellipse_contains }.

Definition x_axis (s : size) : size := S (sw s) 0.
Definition y_axis (s : size) : size := S 0 (sh s).

(* ellipse_quadrant.rs:29-42  EllipseQuadrant::new *)
Definition eq_new (top_left : point) (radius : size) (q : quadrant) : equad :=
  let ellipse_top_left :=
    match q with
    | QTopLeft => top_left
    | QTopRight => psub_size top_left (x_axis radius)
    | QBottomRight => psub_size top_left radius
    | QBottomLeft => psub_size top_left (y_axis radius)
    end in
  let d := S (sw radius * 2) (sh radius * 2) in
  EQ (R top_left radius) (rr_center_2x ellipse_top_left d) (ec_new d).

(* ellipse_quadrant.rs:52-54 *)
Definition eq_contains (q : equad) (p : point) : bool :=
  ec_contains (eq_ellipse q) (psub (P (px p * 2) (py p * 2)) (eq_center_2x q)).

(* ---- rounded_rectangle/mod.rs -------------------------------------------------------------- *)
(* mod.rs:141-147 *)
Record rrect := RR { rr_rect : rect; rr_corners : radii }.

(* mod.rs:162-164 *)
Definition rr_with_equal_corners (r : rect) (s : size) : rrect := RR r (radii_equal s).

(* mod.rs:207-209 *)
Definition rr_confine_radii (r : rrect) : rrect := RR (rr_rect r) (confine (rr_corners r) (sz (rr_rect r))).

(* mod.rs:211-240  get_confined_corner_quadrant *)
Definition corner_quadrant (r : rrect) (q : quadrant) : equad :=
  let top_left := tl (rr_rect r) in
  let size := sz (rr_rect r) in
  let c := confine (rr_corners r) size in
  match q with
  | QTopLeft => eq_new top_left (r_tl c) QTopLeft
  | QTopRight => eq_new (psub_size (padd_size top_left (x_axis size)) (x_axis (r_tr c))) (r_tr c) QTopRight
  | QBottomRight => eq_new (psub_size (padd_size top_left size) (r_br c)) (r_br c) QBottomRight
  | QBottomLeft => eq_new (psub_size (padd_size top_left (y_axis size)) (y_axis (r_bl c))) (r_bl c) QBottomLeft
  end.

(* mod.rs:243-269  OffsetOutline::offset *)
Definition rr_offset (r : rrect) (n : Z) : rrect :=
  let f := fun s : size =>
    if 0 <=? n then size_sat_add s (S n n) else size_sat_sub s (S (- n) (- n)) in
  let c := rr_corners r in
  RR (offset (rr_rect r) n) (CR (f (r_tl c)) (f (r_tr c)) (f (r_br c)) (f (r_bl c))).

(* mod.rs:311-316  Transform::translate (translate_mut: mod.rs:333-337 moves the same field in place) *)
Definition rr_translate (r : rrect) (d : point) : rrect := RR (translate_rect (rr_rect r) d) (rr_corners r).

(* mod.rs:342-361  RoundedRectangleContains; ranges are (start, end) pairs *)
Record rrc := RRC {
  c_rows : Z * Z; c_columns : Z * Z;
  c_srl : Z * Z;            (* straight_rows_left *)
  c_srr : Z * Z;            (* straight_rows_right *)
  c_tl : equad; c_tr : equad; c_bl : equad; c_br : equad
}.

(* mod.rs:364-390  RoundedRectangleContains::new *)
Definition rrc_new (r : rrect) : rrc :=
  let top_left := corner_quadrant r QTopLeft in
  let top_right := corner_quadrant r QTopRight in
  let bottom_left := corner_quadrant r QBottomLeft in
  let bottom_right := corner_quadrant r QBottomRight in
  let rws := rows (rr_rect r) in
  let cols := columns (rr_rect r) in
  RRC rws cols
      (fst rws + sh (sz (eq_bbox top_left)), snd rws - sh (sz (eq_bbox bottom_left)))
      (fst rws + sh (sz (eq_bbox top_right)), snd rws - sh (sz (eq_bbox bottom_right)))
      top_left top_right bottom_left bottom_right.

(* Range<i32>::contains *)
Definition in_rng (r : Z * Z) (v : Z) : bool := (fst r <=? v) && (v <? snd r).

(* mod.rs:392-430  RoundedRectangleContains::contains (after `fix: ... overlapping opposite corners`:
   every quadrant whose region holds the point is tested, not only the first one) *)
Definition rrc_contains (c : rrc) (p : point) : bool :=
  if negb (in_rng (c_rows c) (py p) && in_rng (c_columns c) (px p)) then false
  else if (py p <? fst (c_srl c)) && (px p <? snd (columns (eq_bbox (c_tl c)))) && negb (eq_contains (c_tl c) p)
  then false
  else if (py p <? fst (c_srr c)) && (fst (columns (eq_bbox (c_tr c))) <=? px p) && negb (eq_contains (c_tr c) p)
  then false
  else if (snd (c_srl c) <=? py p) && (px p <? snd (columns (eq_bbox (c_bl c)))) && negb (eq_contains (c_bl c) p)
  then false
  else if (snd (c_srr c) <=? py p) && (fst (columns (eq_bbox (c_br c))) <=? px p) && negb (eq_contains (c_br c) p)
  then false
  else true.

(* mod.rs:281-286 *)
Definition rr_contains (r : rrect) (p : point) : bool := rrc_contains (rrc_new r) p.

(* mod.rs:288-292 *)
Definition rr_bounding_box (r : rrect) : rect := rr_rect r.

(* ---- rounded_rectangle/points.rs ----------------------------------------------------------- *)
(* A scanline is (y, (x.start, x.end)). *)
Definition scanline := (Z * (Z * Z))%type.

(* Iterator::rfind on a range *)
Definition rfind (f : Z -> bool) (l : list Z) : option Z := find f (rev l).

(* points.rs:60-66 / 79-85: which corner quadrant (if any) a row belongs to *)
Definition left_quadrant (c : rrc) (y : Z) : option equad :=
  if y <? fst (c_srl c) then Some (c_tl c)
  else if snd (c_srl c) <=? y then Some (c_bl c)
  else None.
Definition right_quadrant (c : rrc) (y : Z) : option equad :=
  if y <? fst (c_srr c) then Some (c_tr c)
  else if snd (c_srr c) <=? y then Some (c_br c)
  else None.

(* points.rs:70-77 *)
Definition scan_x_start (c : rrc) (y : Z) : Z :=
  match left_quadrant c y with
  | None => fst (c_columns c)
  | Some q =>
      let qc := columns (eq_bbox q) in
      match find (fun x => eq_contains q (P x y)) (range (fst qc) (snd qc)) with
      | Some x => x
      | None => snd qc
      end
  end.

(* points.rs:87-95 *)
Definition scan_x_end (c : rrc) (y : Z) : Z :=
  match right_quadrant c y with
  | None => snd (c_columns c)
  | Some q =>
      let qc := columns (eq_bbox q) in
      match rfind (fun x => eq_contains q (P x y)) (range (fst qc) (snd qc)) with
      | Some x => x + 1
      | None => fst qc
      end
  end.

(* points.rs:55-102  Scanlines as the list it yields: one turn of the loop per row, rows whose
   range is empty are skipped, the iterator ends when `rows` is exhausted. *)
Definition scanlines (c : rrc) : list scanline :=
  filter (fun s : scanline => fst (snd s) <? snd (snd s))
         (map (fun y => (y, (scan_x_start c y, scan_x_end c y))) (range (fst (c_rows c)) (snd (c_rows c)))).

(* scanline.rs:157-163  the points a Scanline yields *)
Definition scanline_points (s : scanline) : list point :=
  map (fun x => P x (fst s)) (range (fst (snd s)) (snd (snd s))).

(* points.rs:27-36  Points::next: when the current scanline is exhausted the next one is fetched and
   ITS first point is returned; a fetched scanline without points ends the iteration. *)
Fixpoint points_of_scanlines (l : list scanline) : list point :=
  match l with
  | [] => []
  | s :: t =>
      match scanline_points s with
      | [] => []
      | ps => ps ++ points_of_scanlines t
      end
  end.

(* mod.rs:273-279, points.rs:19-24 *)
Definition rr_points (r : rrect) : list point := points_of_scanlines (scanlines (rrc_new r)).

(* ---- common/styled_scanline.rs, rounded_rectangle/styled.rs ------------------------------- *)
(* styled_scanline.rs:8-12 *)
Record sscan := SS { ss_y : Z; ss_stroke : Z * Z; ss_fill : Z * Z }.

(* styled_scanline.rs:16-24 *)
Definition ss_new (y : Z) (stroke_range : Z * Z) (fill_range : option (Z * Z)) : sscan :=
  SS y stroke_range
     (match fill_range with Some f => f | None => (snd stroke_range, snd stroke_range) end).

(* styled_scanline.rs:29-43 *)
Definition ss_stroke_left (s : sscan) : scanline := (ss_y s, (fst (ss_stroke s), fst (ss_fill s))).
Definition ss_stroke_right (s : sscan) : scanline := (ss_y s, (snd (ss_fill s), snd (ss_stroke s))).
Definition ss_fill_line (s : sscan) : scanline := (ss_y s, ss_fill s).

(* styled.rs:169-196  StyledScanlines::next applied to one scanline of the stroke area *)
Definition styled_scanline (fill_area : rrc) (s : scanline) : sscan :=
  let y := fst s in
  let xr := range (fst (snd s)) (snd (snd s)) in
  if in_rng (c_rows fill_area) y then
    let fill_range :=
      match find (fun x => rrc_contains fill_area (P x y)) xr with
      | Some fill_start =>
          let fill_end :=
            match rfind (fun x => rrc_contains fill_area (P x y)) xr with
            | Some x => x + 1
            | None => fill_start
            end in
          Some (fill_start, fill_end)
      | None => None
      end in
    ss_new y (snd s) fill_range
  else ss_new y (snd s) None.

(* styled.rs:160-166 *)
Definition styled_scanlines (stroke_area fill_area : rrect) : list sscan :=
  map (styled_scanline (rrc_new fill_area)) (scanlines (rrc_new stroke_area)).

(* primitive_style.rs:119-139 with OffsetOutline for RoundedRectangle *)
Definition rr_stroke_area (r : rrect) (st : style) : rrect := rr_offset r (stroke_area_offset st).
Definition rr_fill_area (r : rrect) (st : style) : rrect := rr_offset r (fill_area_offset st).

(* A draw call: fill_solid(area, colour). *)
Definition fill_call := (rect * Z)%type.

(* scanline.rs:140-154  Scanline::draw *)
Definition scanline_draw (s : scanline) (color : Z) : list fill_call :=
  let a := fst (snd s) in let b := snd (snd s) in
  if a <? b then [(R (P a (fst s)) (S (b - a) 1), color)] else [].

(* styled_scanline.rs:46-65 *)
Definition ss_draw_stroke (s : sscan) (sc : Z) : list fill_call :=
  scanline_draw (ss_stroke_left s) sc ++ scanline_draw (ss_stroke_right s) sc.
Definition ss_draw_stroke_and_fill (s : sscan) (sc fc : Z) : list fill_call :=
  scanline_draw (ss_stroke_left s) sc ++ scanline_draw (ss_fill_line s) fc ++ scanline_draw (ss_stroke_right s) sc.

(* styled.rs:110-142  draw_styled: the fill_solid calls issued on a fault-free target *)
Definition rr_draw (r : rrect) (st : style) : list fill_call :=
  match effective_stroke_color st, fill_color st with
  | Some sc, None =>
      flat_map (fun s => ss_draw_stroke s sc) (styled_scanlines (rr_stroke_area r st) (rr_fill_area r st))
  | Some sc, Some fc =>
      flat_map (fun s => ss_draw_stroke_and_fill s sc fc) (styled_scanlines (rr_stroke_area r st) (rr_fill_area r st))
  | None, Some fc =>
      flat_map (fun s => scanline_draw s fc) (scanlines (rrc_new (rr_fill_area r st)))
  | None, None => []
  end.

Definition colored (c : Z) (l : list point) : list (point * Z) := map (fun p => (p, c)) l.

(* styled.rs:50-96  StyledPixelsIterator as the list it yields (note: `stroke_color`, not
   `effective_stroke_color`, selects the branch) *)
Definition rr_pixels (r : rrect) (st : style) : list (point * Z) :=
  let ssl := styled_scanlines (rr_stroke_area r st) (rr_fill_area r st) in
  match stroke_color st, fill_color st with
  | Some sc, None =>
      flat_map (fun s => colored sc (scanline_points (ss_stroke_left s))
                         ++ colored sc (scanline_points (ss_stroke_right s))) ssl
  | Some sc, Some fc =>
      flat_map (fun s => colored sc (scanline_points (ss_stroke_left s))
                         ++ colored fc (scanline_points (ss_fill_line s))
                         ++ colored sc (scanline_points (ss_stroke_right s))) ssl
  | None, Some fc => flat_map (fun s => colored fc (scanline_points (ss_fill_line s))) ssl
  | None, None => []
  end.

(* styled.rs:145-151 *)
Definition rr_styled_bounding_box (r : rrect) (st : style) : rect :=
  offset (rr_bounding_box r) (sat_u32_to_i32 (outside_stroke_width st)).

(* ---- every intermediate fits its Rust type (C08 part; `true` = no overflow anywhere in the family) -------------- *)
Definition fits_u32 (v : Z) : bool := (0 <=? v) && (v <=? u32_max).
Definition fits_u64 (v : Z) : bool := (0 <=? v) && (v <=? 18446744073709551615).
Definition fits_i64 (v : Z) : bool := (-9223372036854775808 <=? v) && (v <=? 9223372036854775807).

(* corner_radii.rs:70-83: the (size, corner_size) the loop ends with *)
Definition confine_choice (c : radii) (bb : size) : Z * Z :=
  fold_left confine_step
    [(sw (r_tl c) + sw (r_tr c), sw bb); (sh (r_tr c) + sh (r_br c), sh bb);
     (sw (r_bl c) + sw (r_br c), sw bb); (sh (r_tl c) + sh (r_bl c), sh bb)] (0, 0).

(* corner_radii.rs:64-67 (u32 sums), 87-90 (Size * u32 in u32; the comparisons of line 78 are u64 products of u32 values
   and always fit) *)
Definition confine_arith_ok (c : radii) (bb : size) : bool :=
  fits_u32 (sw (r_tl c) + sw (r_tr c)) && fits_u32 (sh (r_tr c) + sh (r_br c)) &&
  fits_u32 (sw (r_bl c) + sw (r_br c)) && fits_u32 (sh (r_tl c) + sh (r_bl c)) &&
  (let '(side, corner_size) := confine_choice c bb in
   if 0 <? corner_size
   then forallb (fun s : size => fits_u32 (sw s * side) && fits_u32 (sh s * side)) [r_tl c; r_tr c; r_br c; r_bl c]
   else true).

(* ellipse_quadrant.rs:29-41 with ellipse/mod.rs:109-113, 188-204, circle/mod.rs:180-186:
   Point - Size in i32 (the Size is cast with a debug assertion), radius * 2 in u32, top_left * 2 + (size - 1) in i32, squares and their product in u64,
   the circle threshold diameter.pow(2) in u32 *)
Definition quadrant_arith_ok (t : point) (rad : size) (q : quadrant) : bool :=
  let etl := match q with
             | QTopLeft => t
             | QTopRight => psub_size t (x_axis rad)
             | QBottomRight => psub_size t rad
             | QBottomLeft => psub_size t (y_axis rad)
             end in
  let dw := sw rad * 2 in let dh := sh rad * 2 in
  in_i32 (sw rad) && in_i32 (sh rad) && in_i32 (px etl) && in_i32 (py etl) &&
  fits_u32 dw && fits_u32 dh &&
  in_i32 (px etl * 2) && in_i32 (py etl * 2) &&
  in_i32 (sat_sub_u32 dw 1) && in_i32 (sat_sub_u32 dh 1) &&
  in_i32 (px etl * 2 + sat_sub_u32 dw 1) && in_i32 (py etl * 2 + sat_sub_u32 dh 1) &&
  fits_u64 (dw * dw) && fits_u64 (dh * dh) &&
  (if dw =? dh then fits_u32 (dw * dw) else fits_u64 (dh * dh * (dw * dw))).

(* ellipse_quadrant.rs:52-54 with ellipse/mod.rs:207-218: point * 2 - center_2x in i32, squares in i64, weighted sum in u64 *)
Definition quadrant_contains_arith_ok (e : equad) (p : point) : bool :=
  let u := px p * 2 - px (eq_center_2x e) in
  let v := py p * 2 - py (eq_center_2x e) in
  in_i32 (px p * 2) && in_i32 (py p * 2) && in_i32 u && in_i32 v &&
  fits_i64 (u * u) && fits_i64 (v * v) &&
  (if ec_a (eq_ellipse e) =? ec_b (eq_ellipse e) then fits_u64 (u * u + v * v)
   else fits_u64 (ec_b (eq_ellipse e) * (u * u)) && fits_u64 (ec_a (eq_ellipse e) * (v * v)) &&
        fits_u64 (ec_b (eq_ellipse e) * (u * u) + ec_a (eq_ellipse e) * (v * v))).

(* mod.rs:211-240 (Point + Size - Size in i32), 364-390 (rows.start + height as i32, rows.end - height as i32),
   points.rs:93 / styled.rs:184 (x + 1 for x inside the row) *)
Definition rr_arith_ok (r : rrect) : bool :=
  let t := tl (rr_rect r) in let s := sz (rr_rect r) in
  let c := confine (rr_corners r) s in
  confine_arith_ok (rr_corners r) s &&
  in_i32 (sw s) && in_i32 (sh s) &&
  in_i32 (px t + sw s) && in_i32 (py t + sh s) &&
  in_i32 (px t + sw s - sw (r_tr c)) && in_i32 (px t + sw s - sw (r_br c)) &&
  in_i32 (py t + sh s - sh (r_br c)) && in_i32 (py t + sh s - sh (r_bl c)) &&
  quadrant_arith_ok t (r_tl c) QTopLeft &&
  quadrant_arith_ok (eq_bbox (corner_quadrant r QTopRight)).(tl) (r_tr c) QTopRight &&
  quadrant_arith_ok (eq_bbox (corner_quadrant r QBottomRight)).(tl) (r_br c) QBottomRight &&
  quadrant_arith_ok (eq_bbox (corner_quadrant r QBottomLeft)).(tl) (r_bl c) QBottomLeft &&
  in_i32 (py t + sh (r_tl c)) && in_i32 (py t + sh (r_tr c)) &&
  in_i32 (snd (rows (rr_rect r)) - sh (r_bl c)) && in_i32 (snd (rows (rr_rect r)) - sh (r_br c)) &&
  in_i32 (snd (columns (rr_rect r)) + 1).

(* ---- class of the known finding (FINDINGS-C06.md, known_findings.txt) ------------------------ *)
(* some point of fill_area() lies outside stroke_area(): the two areas confine their radii separately *)
Definition K06_rrect_fill_outside_stroke (r : rrect) (st : style) : bool :=
  let fa := rr_fill_area r st in
  let sa := rr_stroke_area r st in
  existsb (fun p => rr_contains fa p && negb (rr_contains sa p)) (points (rr_bounding_box fa)).

(* ---- pixel maps ---------------------------------------------------------------------------- *)
(* The pixel writes a target with bounding box `bb` performs for fill_solid calls: the points of the
   area, row-major, that lie inside `bb` (the meaning shared by the trait default
   fill_solid -> fill_contiguous -> draw_iter and by a native fill_solid; C01(a)). *)
Definition writes_of_calls (bb : rect) (cs : list fill_call) : list (point * Z) :=
  flat_map (fun c : fill_call => colored (snd c) (filter (contains bb) (points (fst c)))) cs.

(* draw_iter on a target with bounding box `bb` *)
Definition writes_of_pixels (bb : rect) (ps : list (point * Z)) : list (point * Z) :=
  filter (fun w => contains bb (fst w)) ps.

(* the colour a point has after the writes (None = untouched): the last write wins *)
Definition pix_get (ws : list (point * Z)) (p : point) : option Z :=
  fold_left (fun acc w => if point_eqb (fst w) p then Some (snd w) else acc) ws None.
