(* Model of the Sector and Arc families:
     src/primitives/common/{plane_sector,linear_equation,distance_iterator}.rs
     src/primitives/sector/{mod,points,styled}.rs, src/primitives/arc/{mod,points,styled}.rs
   and of the few Circle functions they call (src/primitives/circle/mod.rs), under names of their own
   (prefix sc_) so that this file does not clash with the circle family's model.
   Definitions only (extracted to OCaml and run against the implementation).

   The trigonometry is an EXTERNAL CALL: `PlaneSector::new(angle_start, angle_sweep)` derives two integer
   normal vectors and a set operation from sin/cos (f32 via micromath, or the I16F16 table).  The model takes
   the result of that call - a `plane_sector` value - as a parameter; the hook
   `verif_hooks::plane_sector_parts` exposes the same value of the real code to the correspondence check.
   Likewise the bevel line of a styled sector (kind + normal vector) is a parameter. *)
From EG Require Import Base.Prelude Model.Geometry Model.Style.

(* ---- geometry/mod.rs:38-53 PointExt ---------------------------------------------------- *)
Definition sm_dot (a b : point) : Z := px a * px b + py a * py b.
Definition sm_len2 (a : point) : Z := px a * px a + py a * py a.
(* `point * 2` *)
Definition sm_twice (p : point) : point := P (px p * 2) (py p * 2).

(* ---- circle/mod.rs (the parts arcs and sectors use) ------------------------------------ *)
Record sm_circle := SC { sc_tl : point; sc_d : Z }.

(* circle/mod.rs:180-186 diameter_to_threshold *)
Definition sm_d2t (d : Z) : Z := if d <=? 4 then d * d - d / 2 else d * d.

(* circle/mod.rs:89-94 center_2x  (sector/mod.rs:96-101 is a copy of it) *)
Definition sm_center_2x (tl : point) (d : Z) : point :=
  let radius := sat_sub_u32 d 1 in
  P (px tl * 2 + radius) (py tl * 2 + radius).

Definition sc_center_2x (c : sm_circle) : point := sm_center_2x (sc_tl c) (sc_d c).
(* circle/mod.rs:97-99 *)
Definition sc_threshold (c : sm_circle) : Z := sm_d2t (sc_d c).
(* circle/mod.rs:143-147 *)
Definition sc_bbox (c : sm_circle) : rect := R (sc_tl c) (S (sc_d c) (sc_d c)).
(* circle/mod.rs:84-86 *)
Definition sc_center (c : sm_circle) : point := center (sc_bbox c).
(* circle/mod.rs:77-81 *)
Definition sc_with_center (ctr : point) (d : Z) : sm_circle := SC (tl (with_center ctr (S d d))) d.

(* circle/mod.rs:107-117 OffsetOutline for Circle *)
Definition sc_offset (c : sm_circle) (off : Z) : sm_circle :=
  let d := if 0 <=? off then sat_add_u32 (sc_d c) (2 * off)
           else sat_sub_u32 (sc_d c) (2 * (- off)) in
  sc_with_center (sc_center c) d.

(* circle/mod.rs:132-139 ContainsPoint for Circle *)
Definition sc_contains (c : sm_circle) (p : point) : bool :=
  let delta := psub (sc_center_2x c) (sm_twice p) in
  sm_len2 delta <? sc_threshold c.

(* ---- common/distance_iterator.rs:33-45 + circle/mod.rs:101-103 distances() -------------- *)
(* the list of (point, delta, distance) the iterator yields *)
Definition sm_dist_item (c2x : point) (p : point) : point * point * Z :=
  let delta := psub (sm_twice p) c2x in (p, delta, sm_len2 delta).

Definition sc_distances (c : sm_circle) : list (point * point * Z) :=
  map (sm_dist_item (sc_center_2x c)) (points (sc_bbox c)).

(* ---- common/plane_sector.rs ------------------------------------------------------------ *)
Inductive sm_op := OpIntersection | OpUnion | OpEntirePlane.

(* plane_sector.rs:16-24 Operation::execute *)
Definition sm_exec (o : sm_op) (first second : bool) : bool :=
  match o with
  | OpIntersection => first && second
  | OpUnion => first || second
  | OpEntirePlane => true
  end.

(* the normal vectors of the two OriginLinearEquations and the operation: the RESULT of PlaneSector::new *)
Record plane_sector := PS { ps_left : point; ps_right : point; ps_op : sm_op }.

(* linear_equation.rs:88-90 OriginLinearEquation::distance *)
Definition sm_odist (n : point) (p : point) : Z := sm_dot p n.

(* plane_sector.rs:99-104 contains; linear_equation.rs:94-101 check_side (Left: <= 0, Right: >= 0) *)
Definition ps_contains (ps : plane_sector) (p : point) : bool :=
  let correct_side_1 := sm_odist (ps_left ps) p <=? 0 in
  let correct_side_2 := 0 <=? sm_odist (ps_right ps) p in
  sm_exec (ps_op ps) correct_side_1 correct_side_2.

Inductive point_type := PtStroke | PtFill.

(* plane_sector.rs:113-139 point_type *)
Definition ps_point_type (ps : plane_sector) (p : point) (inside_threshold outside_threshold : Z)
  : option point_type :=
  let distance_right := sm_odist (ps_right ps) p in
  let distance_left := sm_odist (ps_left ps) p in
  if sm_exec (ps_op ps) (- outside_threshold <=? distance_right) (distance_left <=? outside_threshold)
  then
    if sm_exec (ps_op ps) (inside_threshold <=? distance_right) (distance_left <=? - inside_threshold)
    then Some PtFill
    else Some PtStroke
  else None.

(* ---- linear_equation.rs:16-58 LinearEquation ------------------------------------------- *)
Record lin_eq := LE { le_normal : point; le_origin_distance : Z }.
(* linear_equation.rs:45-47 *)
Definition le_distance (e : lin_eq) (p : point) : Z := sm_dot p (le_normal e) - le_origin_distance e.
(* linear_equation.rs:50-57, side = Left *)
Definition le_check_left (e : lin_eq) (p : point) : bool := le_distance e p <=? 0.

(* linear_equation.rs:7 *)
Definition sm_normal_vector_scale : Z := 1024.

(* ---- sector/mod.rs --------------------------------------------------------------------- *)
(* angle_start/angle_sweep are represented by the plane sector PlaneSector::new derives from them *)
Record sector := Sec { se_tl : point; se_d : Z; se_ps : plane_sector }.

(* sector/mod.rs:86-88 *)
Definition se_to_circle (s : sector) : sm_circle := SC (se_tl s) (se_d s).
(* sector/mod.rs:96-101 *)
Definition se_center_2x (s : sector) : point := sm_center_2x (se_tl s) (se_d s).
(* sector/mod.rs:141-145 *)
Definition se_bbox (s : sector) : rect := R (se_tl s) (S (se_d s) (se_d s)).
(* sector/mod.rs:104-110 OffsetOutline: the angles (hence the plane sector) are kept *)
Definition se_offset (s : sector) (off : Z) : sector :=
  let c := sc_offset (se_to_circle s) off in Sec (sc_tl c) (sc_d c) (se_ps s).

(* sector/mod.rs:67-81 with_center: `Rectangle::with_center(center, Size::new_equal(diameter)).top_left` *)
Definition se_with_center (ctr : point) (d : Z) (ps : plane_sector) : sector :=
  Sec (tl (with_center ctr (S d d))) d ps.
(* sector/mod.rs:83-90 from_circle *)
Definition se_from_circle (c : sm_circle) (ps : plane_sector) : sector := Sec (sc_tl c) (sc_d c) ps.
(* sector/mod.rs:92-94 center: bounding_box().center() *)
Definition se_center (s : sector) : point := center (se_bbox s).

(* sector/mod.rs:122-131 ContainsPoint *)
Definition se_contains (s : sector) (p : point) : bool :=
  if sc_contains (se_to_circle s) p
  then ps_contains (se_ps s) (psub (sm_twice p) (se_center_2x s))
  else false.

(* sector/points.rs:21-46 Points::new + next: `find` over the distance iterator, repeatedly *)
Definition se_points (s : sector) : list point :=
  let circle := se_to_circle s in
  let threshold := sc_threshold circle in
  map (fun t => fst (fst t))
    (filter (fun t => let '(_, delta, distance) := t in
                      (distance <? threshold) && ps_contains (se_ps s) delta)
       (sc_distances circle)).

(* sector/mod.rs:148-162 Transform *)
Definition se_translate (s : sector) (by_ : point) : sector := Sec (padd (se_tl s) by_) (se_d s) (se_ps s).

(* ---- sector/styled.rs ------------------------------------------------------------------ *)
Inductive bevel_kind := BevelInterior | BevelExterior.

(* styled.rs:105-160 Iterator::next, the body of one `loop` round for one item of the distance iterator:
   the pixels (0 or 1) it contributes *)
Definition se_styled_item (ps : plane_sector) (outer_threshold inner_threshold : Z)
    (stroke_threshold_inside stroke_threshold_outside : Z) (bevel : option (bevel_kind * lin_eq))
    (stroke_color fill_color : option Z) (t : point * point * Z) : list (point * Z) :=
  let '(point, delta, distance) := t in
  if distance <? outer_threshold then
    match ps_point_type ps delta stroke_threshold_inside stroke_threshold_outside with
    | None => []
    | Some point_type =>
        (* Bevel the line join: None = `continue` *)
        let beveled :=
          match point_type, bevel with
          | PtStroke, Some (kind, equation) =>
              if le_check_left equation delta
              then match kind with BevelInterior => Some PtFill | BevelExterior => None end
              else Some PtStroke
          | _, _ => Some point_type
          end in
        match beveled with
        | None => []
        | Some pt1 =>
            (* Add the outer circular stroke *)
            let pt2 := match pt1 with
                       | PtFill => if inner_threshold <=? distance then PtStroke else PtFill
                       | PtStroke => PtStroke
                       end in
            match (match pt2 with PtStroke => stroke_color | PtFill => fill_color end) with
            | Some c => [(point, c)]
            | None => []
            end
        end
    end
  else [].

(* styled.rs:40-100 StyledPixelsIterator::new + the whole iteration.
   bev = None when neither bevel applies, else the kind and the normal vector of
   LinearEquation::with_angle_and_distance(half_sweep +- 90deg, _) (external trigonometry). *)
Definition se_styled_pixels (s : sector) (st : style) (bev : option (bevel_kind * point)) : list (point * Z) :=
  let stroke_area := se_offset s (stroke_area_offset st) in
  let fill_area := se_offset s (fill_area_offset st) in
  let stroke_area_circle := se_to_circle stroke_area in
  let iter := if negb (is_transparent st) then sc_distances stroke_area_circle else [] in
  let outer_threshold := sc_threshold stroke_area_circle in
  let inner_threshold := sc_threshold (se_to_circle fill_area) in
  let plane_sector := se_ps stroke_area in
  let inside_stroke_width := sat_u32_to_i32 (inside_stroke_width st) in
  let outside_stroke_width := sat_u32_to_i32 (outside_stroke_width st) in
  let stroke_threshold_inside := inside_stroke_width * sm_normal_vector_scale * 2 - sm_normal_vector_scale in
  let stroke_threshold_outside := outside_stroke_width * sm_normal_vector_scale * 2 + sm_normal_vector_scale in
  let threshold := - outside_stroke_width * sm_normal_vector_scale * 4 in
  let bevel := match bev with Some (k, n) => Some (k, LE n threshold) | None => None end in
  flat_map (se_styled_item plane_sector outer_threshold inner_threshold
              stroke_threshold_inside stroke_threshold_outside bevel (stroke_color st) (fill_color st)) iter.

(* styled.rs:191-197 styled_bounding_box *)
Definition se_styled_bbox (s : sector) (st : style) : rect :=
  offset (se_bbox s) (sat_u32_to_i32 (outside_stroke_width st)).

(* ---- arc/mod.rs, arc/points.rs --------------------------------------------------------- *)
Record arc := Arc { ar_tl : point; ar_d : Z; ar_ps : plane_sector }.

(* arc/mod.rs:84-86 *)
Definition ar_to_circle (a : arc) : sm_circle := SC (ar_tl a) (ar_d a).
(* arc/mod.rs:107-111 *)
Definition ar_bbox (a : arc) : rect := R (ar_tl a) (S (ar_d a) (ar_d a)).
(* arc/mod.rs:59-71 with_center: from_circle(Circle::with_center(center, diameter), ..) *)
Definition ar_from_circle (c : sm_circle) (ps : plane_sector) : arc := Arc (sc_tl c) (sc_d c) ps.
Definition ar_with_center (ctr : point) (d : Z) (ps : plane_sector) : arc := ar_from_circle (sc_with_center ctr d) ps.
(* arc/mod.rs:88-90 center *)
Definition ar_center (a : arc) : point := center (ar_bbox a).
(* arc/mod.rs:114-128 *)
Definition ar_translate (a : arc) (by_ : point) : arc := Arc (padd (ar_tl a) by_) (ar_d a) (ar_ps a).

(* the `find` predicate shared by arc/points.rs:47-53 and arc/styled.rs:62-68 *)
Definition ar_keep (ps : plane_sector) (outer_threshold inner_threshold : Z) (t : point * point * Z) : bool :=
  let '(_, delta, distance) := t in
  (distance <? outer_threshold) && (inner_threshold <=? distance) && ps_contains ps delta.

(* arc/points.rs:23-55 *)
Definition ar_points (a : arc) : list point :=
  let outer_circle := ar_to_circle a in
  let inner_circle := sc_offset outer_circle (-1) in
  map (fun t => fst (fst t))
    (filter (ar_keep (ar_ps a) (sc_threshold outer_circle) (sc_threshold inner_circle))
       (sc_distances outer_circle)).

(* ---- arc/styled.rs --------------------------------------------------------------------- *)
(* styled.rs:31-70 StyledPixelsIterator::new + next: nothing at all without a stroke colour *)
Definition ar_styled_pixels (a : arc) (st : style) : list (point * Z) :=
  let circle := ar_to_circle a in
  let outside_edge := sc_offset circle (sat_u32_to_i32 (outside_stroke_width st)) in
  let inside_edge := sc_offset circle (- sat_u32_to_i32 (inside_stroke_width st)) in
  let iter := if negb (is_transparent st) then sc_distances outside_edge else [] in
  match stroke_color st with
  | None => []
  | Some c =>
      map (fun t => (fst (fst t), c))
        (filter (ar_keep (ar_ps a) (sc_threshold outside_edge) (sc_threshold inside_edge)) iter)
  end.

(* styled.rs:101-107 styled_bounding_box *)
Definition ar_styled_bbox (a : arc) (st : style) : rect :=
  offset (ar_bbox a) (sat_u32_to_i32 (outside_stroke_width st)).
