(* Model of src/primitives/primitive_style.rs (the parts every styled primitive shares).
   Colours are abstract tags (Z). Definitions only. *)
From EG Require Import Base.Prelude.

Inductive alignment := Inside | Center | Outside.
Inductive stroke_style := Solid | Dotted.

Record style := Style {
  fill_color : option Z;
  stroke_color : option Z;
  stroke_width : Z;                (* u32 *)
  stroke_alignment : alignment;
  stroke_kind : stroke_style
}.

(* primitive_style.rs:86-92 *)
Definition outside_stroke_width (s : style) : Z :=
  match stroke_alignment s with
  | Inside => 0
  | Center => stroke_width s / 2
  | Outside => stroke_width s
  end.

(* primitive_style.rs:95-101 *)
Definition inside_stroke_width (s : style) : Z :=
  match stroke_alignment s with
  | Inside => stroke_width s
  | Center => sat_add_u32 (stroke_width s) 1 / 2
  | Outside => 0
  end.

(* primitive_style.rs:104-106 *)
Definition is_transparent (s : style) : bool :=
  (match stroke_color s with None => true | Some _ => false end || (stroke_width s =? 0))
  && match fill_color s with None => true | Some _ => false end.

(* primitive_style.rs:111-113 *)
Definition effective_stroke_color (s : style) : option Z :=
  match stroke_color s with
  | Some c => if 0 <? stroke_width s then Some c else None
  | None => None
  end.

(* primitive_style.rs:119-124: the offset handed to OffsetOutline::offset for the stroke area *)
Definition stroke_area_offset (s : style) : Z := sat_u32_to_i32 (outside_stroke_width s).

(* primitive_style.rs:127-139: ... and for the fill area *)
Definition fill_area_offset (s : style) : Z :=
  match stroke_kind s with
  | Solid => - sat_u32_to_i32 (inside_stroke_width s)
  | Dotted => 0
  end.
