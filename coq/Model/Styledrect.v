(* Model of src/primitives/rectangle/styled.rs for the SOLID stroke style: draw_styled as the list of
   fill_solid calls (fill rectangle + up to four border rectangles) and the StyledPixelsIterator.
   The dotted stroke style (styled.rs:72-182, 205-238) is outside properties C01/C05/C06 ("solid stroke")
   and is not modelled.  Definitions only. *)
From EG Require Import Base.Prelude Model.Geometry Model.Style Model.Circle.

(* core/src/primitives/rectangle/mod.rs:58-62 Dimensions::bounding_box returns *self *)
Definition rect_bbox (r : rect) : rect := r.

(* primitive_style.rs:119-139 with P = Rectangle *)
Definition rect_stroke_area (r : rect) (st : style) : rect := offset r (stroke_area_offset st).
Definition rect_fill_area (r : rect) (st : style) : rect := offset r (fill_area_offset st).

(* styled.rs:184-293 draw_styled, `else` branch (Solid) of the stroke style test *)
Definition rect_draw_styled (r : rect) (st : style) : list fill_call :=
  let fill_area := rect_fill_area r st in
  (* styled.rs:196-199 *)
  (match fill_color st with Some fc => [(fill_area, fc)] | None => [] end) ++
  (* styled.rs:202-204 *)
  match effective_stroke_color st with
  | None => []
  | Some sc =>
      let stroke_width := stroke_width st in
      let stroke_area := rect_stroke_area r st in
      let saw := sw (sz stroke_area) in
      let sah := sh (sz stroke_area) in
      (* styled.rs:240-246 *)
      let top_border := R (tl stroke_area) (S saw (Z.min stroke_width (sah / 2))) in
      (* styled.rs:248-249 *)
      let bottom_stroke_width := Z.min stroke_width (sah - sh (sz top_border)) in
      (* styled.rs:251-258 *)
      let bottom_border :=
        R (padd_size (tl top_border) (S 0 (sat_sub_u32 sah bottom_stroke_width))) (S saw bottom_stroke_width) in
      [(top_border, sc); (bottom_border, sc)] ++
      (* styled.rs:263-283 *)
      (if 0 <? sh (sz fill_area) then
         let left_border :=
           R (padd_size (tl stroke_area) (S 0 (sh (sz top_border))))
             (S (Z.min (stroke_width * 2) (saw + 1) / 2) (sh (sz fill_area))) in
         let right_border :=
           translate_rect left_border (P (sat_sub_u32 saw (sw (sz left_border))) 0) in
         [(left_border, sc); (right_border, sc)]
       else [])
  end.

(* styled.rs:28-43 new + 45-63 next: every point of the stroke area, coloured by fill_area.contains;
   points whose colour is None are skipped.  Uses style.stroke_color (not the effective one). *)
Definition rect_styled_pixels (r : rect) (st : style) : list (point * Z) :=
  let pts := if negb (is_transparent st) then points (rect_stroke_area r st) else [] in
  let fill_area := rect_fill_area r st in
  flat_map (fun p =>
              match (if contains fill_area p then fill_color st else stroke_color st) with
              | Some c => [(p, c)]
              | None => []
              end) pts.

(* styled.rs:296-302 *)
Definition rect_styled_bbox (r : rect) (st : style) : rect :=
  offset r (sat_u32_to_i32 (outside_stroke_width st)).
