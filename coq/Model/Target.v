(* Model of the draw-target layer:
     core/src/draw_target/mod.rs        (trait defaults fill_contiguous / fill_solid / clear)
     src/draw_target/{clipped,cropped,translated,color_converted}.rs   (the four adapters)
     src/iterator/contiguous.rs         (the `Cropped` colour iterator)
     src/iterator/pixel.rs              (the `Translated` pixel iterator)
   Definitions only (extracted to OCaml and run against the implementation).
   Colours are abstract tags (Z).  Iterators are the total lists they yield. *)
From EG Require Import Base.Prelude Model.Geometry.

Definition color := Z.

(* A colour stream handed to fill_contiguous: a finite iterator or core::iter::repeat(c)
   (the latter is what the default fill_solid passes, core/src/draw_target/mod.rs:408). *)
Inductive stream := Fin (l : list color) | Rep (c : color).

Inductive call :=
| DrawIter (ps : list (point * color))
| FillContiguous (area : rect) (cs : stream)
| FillSolid (area : rect) (c : color)
| Clear (c : color).

(* The two kinds of parent target: one that implements draw_iter only and inherits the trait
   defaults, one that implements all four methods natively with their documented meaning. *)
Inductive kind := DefaultOnly | Native.

(* ---- stream primitives --------------------------------------------------------------- *)
(* Iterator::next *)
Definition snext (s : stream) : option color * stream :=
  match s with
  | Fin [] => (None, Fin [])
  | Fin (c :: t) => (Some c, Fin t)
  | Rep c => (Some c, Rep c)
  end.

(* Iterator::nth(n): skips n items and returns the next one *)
Definition snth (n : nat) (s : stream) : option color * stream :=
  match s with
  | Fin l => (nth_error l n, Fin (skipn (Datatypes.S n) l))
  | Rep c => (Some c, Rep c)
  end.

(* the item at absolute position i of the stream (specification helper; i >= 0) *)
Definition sget (s : stream) (i : Z) : option color :=
  match s with
  | Fin l => nth_error l (Z.to_nat i)
  | Rep c => Some c
  end.

(* points.zip(colors) *)
Definition szip (pts : list point) (s : stream) : list (point * color) :=
  match s with
  | Fin l => zip pts l
  | Rep c => map (fun p => (p, c)) pts
  end.

(* colors.map(f) *)
Definition smap (f : color -> color) (s : stream) : stream :=
  match s with
  | Fin l => Fin (map f l)
  | Rep c => Rep (f c)
  end.

(* colors.take(n) *)
Definition stake (n : nat) (s : stream) : list color :=
  match s with
  | Fin l => firstn n l
  | Rep c => repeat c n
  end.

(* src/iterator/contiguous.rs:27-31 IntoPixels::new (ContiguousIteratorExt::into_pixels, src/iterator/mod.rs:26):
     bounding_box.points().zip(iter), mapped to Pixel(p, c) *)
Definition into_pixels (bounding_box : rect) (cs : stream) : list (point * color) := szip (points bounding_box) cs.

(* ---- pixel maps ---------------------------------------------------------------------- *)
Definition pixmap := point -> option color.
Definition empty_map : pixmap := fun _ => None.
Definition set_px (m : pixmap) (p : point) (c : color) : pixmap :=
  fun q => if point_eqb q p then Some c else m q.

(* The draw_iter of a conforming target with bounding box bb: stores the pixels inside bb in
   iteration order and ignores the rest (DrawTarget contract, core/src/draw_target/mod.rs:300-311;
   harness IterTarget / NativeTarget). *)
Definition draw_iter (bb : rect) (ps : list (point * color)) (m : pixmap) : pixmap :=
  fold_left (fun m pc => if contains bb (fst pc) then set_px m (fst pc) (snd pc) else m) ps m.

(* core/src/draw_target/mod.rs:388-398
     self.draw_iter(area.points().zip(colors).map(|(pos, color)| Pixel(pos, color))) *)
Definition default_fill_contiguous (bb area : rect) (cs : stream) (m : pixmap) : pixmap :=
  draw_iter bb (szip (points area) cs) m.

(* core/src/draw_target/mod.rs:408-410   self.fill_contiguous(area, core::iter::repeat(color)) *)
Definition default_fill_solid (bb area : rect) (c : color) (m : pixmap) : pixmap :=
  default_fill_contiguous bb area (Rep c) m.

(* core/src/draw_target/mod.rs:422-424   self.fill_solid(&self.bounding_box(), color) *)
Definition default_clear (bb : rect) (c : color) (m : pixmap) : pixmap :=
  default_fill_solid bb bb c m.

(* Row-major index of p inside area. *)
Definition idx_in (area : rect) (p : point) : Z :=
  (py p - py (tl area)) * sw (sz area) + (px p - px (tl area)).

(* Documented meaning of the three fill methods (core/src/draw_target/mod.rs:330-424), pointwise:
   only area /\ bounding box is touched; the colour for a point is the one at its row-major index in
   the area; colours beyond the area are ignored; if the stream ends early the remaining points keep
   their value. *)
Definition native_fill_contiguous (bb area : rect) (cs : stream) (m : pixmap) : pixmap :=
  fun p => if contains area p && contains bb p
           then match sget cs (idx_in area p) with Some c => Some c | None => m p end
           else m p.
Definition native_fill_solid (bb area : rect) (c : color) (m : pixmap) : pixmap :=
  fun p => if contains area p && contains bb p then Some c else m p.
Definition native_clear (bb : rect) (c : color) (m : pixmap) : pixmap :=
  fun p => if contains bb p then Some c else m p.

Definition paint (bb : rect) (k : kind) (c : call) (m : pixmap) : pixmap :=
  match k, c with
  | _, DrawIter ps => draw_iter bb ps m
  | DefaultOnly, FillContiguous area cs => default_fill_contiguous bb area cs m
  | DefaultOnly, FillSolid area col => default_fill_solid bb area col m
  | DefaultOnly, Clear col => default_clear bb col m
  | Native, FillContiguous area cs => native_fill_contiguous bb area cs m
  | Native, FillSolid area col => native_fill_solid bb area col m
  | Native, Clear col => native_clear bb col m
  end.

Definition paint_all (bb : rect) (k : kind) (cs : list call) (m : pixmap) : pixmap :=
  fold_left (fun m c => paint bb k c m) cs m.

Definition render (bb : rect) (k : kind) (cs : list call) : pixmap := paint_all bb k cs empty_map.

(* ---- the same semantics as an ordered list of pixel stores (executable side) ------------ *)
Definition inside (bb : rect) (l : list (point * color)) : list (point * color) :=
  filter (fun pc => contains bb (fst pc)) l.

(* DefaultOnly: the stores of the trait defaults.  Native: the stores of the harness's reference
   target (harness/src/util.rs NativeTarget): fill_contiguous takes w*h colours, pairs them with
   area.points() and keeps those inside bb; fill_solid walks area.intersection(bb).points();
   clear walks bb.points(). *)
Definition writes (bb : rect) (k : kind) (c : call) : list (point * color) :=
  match k, c with
  | _, DrawIter ps => inside bb ps
  | DefaultOnly, FillContiguous area cs => inside bb (szip (points area) cs)
  | DefaultOnly, FillSolid area col => inside bb (szip (points area) (Rep col))
  | DefaultOnly, Clear col => inside bb (szip (points bb) (Rep col))
  | Native, FillContiguous area cs =>
      inside bb (zip (points area) (stake (Z.to_nat (sw (sz area) * sh (sz area))) cs))
  | Native, FillSolid area col => map (fun p => (p, col)) (points (intersection area bb))
  | Native, Clear col => map (fun p => (p, col)) (points bb)
  end.

Definition writes_all (bb : rect) (k : kind) (cs : list call) : list (point * color) :=
  flat_map (writes bb k) cs.

(* the colour of the last store to p, if any *)
Fixpoint last_write (p : point) (l : list (point * color)) : option color :=
  match l with
  | [] => None
  | (q, c) :: t =>
      match last_write p t with
      | Some c' => Some c'
      | None => if point_eqb q p then Some c else None
      end
  end.

(* ---- src/iterator/contiguous.rs: the Cropped colour iterator --------------------------- *)
Record cropped_st := CS {
  c_iter : stream;
  c_x : Z;             (* u32 *)
  c_y : Z;             (* u32 *)
  c_size : size;
  c_row_skip : Z       (* usize *)
}.

(* contiguous.rs:68-87.  `as usize` of top_left.x/y: both are >= 0 because crop_area is an
   intersection with a rectangle at the origin (or Rectangle::zero()).  row_skip: saturating_sub. *)
Definition cropped_new (iter : stream) (size : size) (crop_area : rect) : cropped_st :=
  let crop_area := intersection (R (P 0 0) size) crop_area in
  let initial_skip := py (tl crop_area) * sw size + px (tl crop_area) in
  let iter := if 0 <? initial_skip then snd (snth (Z.to_nat (initial_skip - 1)) iter) else iter in
  CS iter 0 0 (sz crop_area) (sat_sub_u32 (sw size) (sw (sz crop_area))).

(* contiguous.rs:95-114 *)
Definition cropped_next (st : cropped_st) : option color * cropped_st :=
  if (sh (c_size st) <=? c_y st) || (sw (c_size st) =? 0) then (None, st)
  else if c_x st <? sw (c_size st) then
    let (c, it) := snext (c_iter st) in
    (c, CS it (c_x st + 1) (c_y st) (c_size st) (c_row_skip st))
  else
    let y := c_y st + 1 in
    if y <? sh (c_size st) then
      let (c, it) := snth (Z.to_nat (c_row_skip st)) (c_iter st) in
      (c, CS it 1 y (c_size st) (c_row_skip st))
    else (None, CS (c_iter st) 1 y (c_size st) (c_row_skip st)).

(* what a `for` loop over the iterator sees: items up to the first None *)
Fixpoint cropped_collect (fuel : nat) (st : cropped_st) : option (list color) :=
  match fuel with
  | O => None
  | Datatypes.S f =>
      match cropped_next st with
      | (None, _) => Some []
      | (Some c, st') =>
          match cropped_collect f st' with Some l => Some (c :: l) | None => None end
      end
  end.

(* every call to next() yields one item, and at most width*height items are yielded *)
Definition cropped_fuel (st : cropped_st) : nat :=
  Datatypes.S (Z.to_nat (sw (c_size st) * sh (c_size st))).

Definition cropped_iter (iter : stream) (size : size) (crop_area : rect) : list color :=
  let st := cropped_new iter size crop_area in
  match cropped_collect (cropped_fuel st) st with Some l => l | None => [] end.

(* ---- the adapters ---------------------------------------------------------------------- *)
Inductive adapter :=
| Clip (a : rect)                  (* DrawTargetExt::clipped(&a) *)
| Crop (a : rect)                  (* DrawTargetExt::cropped(&a) *)
| Transl (d : point)               (* DrawTargetExt::translated(d) *)
| Conv (f : color -> color).       (* DrawTargetExt::color_converted::<C>(), f = C::into *)

Definition translate_pixels (d : point) (ps : list (point * color)) : list (point * color) :=
  map (fun pc => (padd (fst pc) d, snd pc)) ps.

(* translated.rs:42-65, iterator/pixel.rs:30-34 *)
Definition transl_call (offset : point) (c : call) : call :=
  match c with
  | DrawIter ps => DrawIter (translate_pixels offset ps)
  | FillContiguous area cs => FillContiguous (translate_rect area offset) cs
  | FillSolid area col => FillSolid (translate_rect area offset) col
  | Clear col => Clear col
  end.

(* clipped.rs:65-69 *)
Definition clip_fill_solid (clip_area area : rect) (col : color) : call :=
  FillSolid (intersection area clip_area) col.

(* clipped.rs:39-69; clear is inherited: fill_solid(&self.bounding_box(), color) with
   bounding_box() = clip_area (clipped.rs:76-78) *)
Definition clip_call (clip_area : rect) (c : call) : call :=
  match c with
  | DrawIter ps => DrawIter (filter (fun pc => contains clip_area (fst pc)) ps)
  | FillContiguous area cs =>
      let inter := intersection clip_area area in
      if rect_eqb inter area then FillContiguous area cs
      else
        let crop_area := translate_rect inter (pneg (tl area)) in
        FillContiguous inter (Fin (cropped_iter cs (sz area) crop_area))
  | FillSolid area col => clip_fill_solid clip_area area col
  | Clear col => clip_fill_solid clip_area clip_area col
  end.

(* cropped.rs:44-60: every method forwards to self.parent, a Translated by area.top_left; clear is
   inherited: fill_solid(&Rectangle::new(Point::zero(), self.size), color) (cropped.rs:63-70,
   core/src/geometry/mod.rs:85-92) *)
Definition crop_call (offset : point) (size : size) (c : call) : call :=
  match c with
  | Clear col => transl_call offset (FillSolid (R (P 0 0) size) col)
  | _ => transl_call offset c
  end.

(* color_converted.rs:43-65 *)
Definition conv_call (f : color -> color) (c : call) : call :=
  match c with
  | DrawIter ps => DrawIter (map (fun pc => (fst pc, f (snd pc))) ps)
  | FillContiguous area cs => FillContiguous area (smap f cs)
  | FillSolid area col => FillSolid area (f col)
  | Clear col => Clear (f col)
  end.

(* One call on the adapter becomes exactly one call on its parent.  pbb = parent.bounding_box() at
   construction: Clipped::new (clipped.rs:25-29) and Cropped::new (cropped.rs:27-34) intersect once. *)
Definition lower1c (ad : adapter) (pbb : rect) (c : call) : call :=
  match ad with
  | Clip a => clip_call (intersection a pbb) c
  | Crop a => let area := intersection a pbb in crop_call (tl area) (sz area) c
  | Transl d => transl_call d c
  | Conv f => conv_call f c
  end.

Definition lower1 (ad : adapter) (pbb : rect) (c : call) : list call := [lower1c ad pbb c].

(* Dimensions::bounding_box() of the adapter: clipped.rs:76-78, cropped.rs:63-70,
   translated.rs:72-74, color_converted.rs:72-74 *)
Definition bbox_of (ad : adapter) (pbb : rect) : rect :=
  match ad with
  | Clip a => intersection a pbb
  | Crop a => R (P 0 0) (sz (intersection a pbb))
  | Transl d => translate_rect pbb (pneg d)
  | Conv _ => pbb
  end.

(* Stacks: head = outermost adapter (the one the user draws on), bb = box of the real target. *)
Fixpoint bbox_stack (st : list adapter) (bb : rect) : rect :=
  match st with
  | [] => bb
  | ad :: rest => bbox_of ad (bbox_stack rest bb)
  end.

Fixpoint lower (st : list adapter) (bb : rect) (c : call) : list call :=
  match st with
  | [] => [c]
  | ad :: rest => flat_map (lower rest bb) (lower1 ad (bbox_stack rest bb) c)
  end.

(* all pixel stores the real target performs for a history of calls issued on the stack *)
Definition run_stack (bb : rect) (k : kind) (st : list adapter) (ops : list call) : list (point * color) :=
  flat_map (fun op => writes_all bb k (lower st bb op)) ops.

(* the colour map of the harness's test colour pair (harness/src/suites/c03.rs: impl From<K2> for K) *)
Definition conv_test (c : color) : color := (c * 7 + 3) mod 256.
