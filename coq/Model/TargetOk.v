(* Arithmetic sites of the draw-target layer (C08 part "targets"): for every function of
     src/draw_target/{clipped,cropped,translated}.rs, src/iterator/contiguous.rs (Cropped), src/iterator/pixel.rs
   a boolean saying that every intermediate fits its Rust type (i32 / u32 / usize taken as 32 bit), in source
   order, including the Rectangle / Point operations these functions call
   (core/src/primitives/rectangle/mod.rs bottom_right, contains, intersection, translate;
    core/src/geometry/point.rs Add, Add<Size>, Sub, Neg).  `true` = the function runs without overflow.
   Definitions only (extracted). *)
From EG Require Import Base.Prelude Model.Geometry Model.Target.

(* Point + Point (point.rs Add): two i32 additions *)
Definition padd_ok (a b : point) : bool := in_i32 (px a + px b) && in_i32 (py a + py b).
(* -Point (point.rs:402-408) *)
Definition pneg_ok (a : point) : bool := in_i32 (- px a) && in_i32 (- py a).
Definition point_i32 (a : point) : bool := in_i32 (px a) && in_i32 (py a).

(* Rectangle::bottom_right (rectangle/mod.rs:135-141): top_left + size - Point(1,1); Point + Size casts
   width/height to i32 (debug_assert >= 0), adds, then subtracts 1 *)
Definition br_ok (r : rect) : bool :=
  if (0 <? sw (sz r)) && (0 <? sh (sz r))
  then (sw (sz r) <=? i32_max) && (sh (sz r) <=? i32_max)
       && in_i32 (px (tl r) + sw (sz r)) && in_i32 (py (tl r) + sh (sz r))
  else true.

(* Rectangle::intersection (rectangle/mod.rs:221-254): both bottom_right(), contains() (bottom_right again),
   with_corners -> Size::from_bounding_box: (c1 - c2).unsigned_abs() + 1 *)
Definition inter_ok (a b : rect) : bool :=
  br_ok a && br_ok b &&
  match bottom_right b, bottom_right a with
  | Some obr, Some sbr =>
      let c1 := component_max (tl a) (tl b) in
      let c2 := component_min sbr obr in
      in_i32 (px c1 - px c2) && in_i32 (py c1 - py c2)
      && in_u32 (Z.abs (px c1 - px c2) + 1) && in_u32 (Z.abs (py c1 - py c2) + 1)
  | _, _ => true
  end.

(* Rectangle::translate: top_left + by *)
Definition translate_ok (r : rect) (d : point) : bool := padd_ok (tl r) d.

(* contiguous.rs:68-87 Cropped::new: intersection; y as usize * width as usize + x as usize (usize = 32 bit);
   the casts `as usize` need non-negative values *)
Definition cropped_new_ok (size : size) (crop_area : rect) : bool :=
  let ca := intersection (R (P 0 0) size) crop_area in
  inter_ok (R (P 0 0) size) crop_area
  && (0 <=? px (tl ca)) && (0 <=? py (tl ca))
  && in_u32 (py (tl ca) * sw size) && in_u32 (py (tl ca) * sw size + px (tl ca)).

(* contiguous.rs:95-114 Cropped::next: self.x += 1 / self.y += 1 on u32 *)
Definition cropped_next_ok (st : cropped_st) : bool :=
  if (sh (c_size st) <=? c_y st) || (sw (c_size st) =? 0) then true
  else if c_x st <? sw (c_size st) then in_u32 (c_x st + 1)
  else in_u32 (c_y st + 1).

(* one call on an adapter: clipped.rs:39-70, cropped.rs:44-60 (-> translated.rs), translated.rs:42-66,
   iterator/pixel.rs:30-34; the inherited clear of Clipped / Cropped is fill_solid(bounding_box()) *)
Definition transl_call_ok (offset : point) (c : call) : bool :=
  match c with
  | DrawIter ps => forallb (fun pc => padd_ok (fst pc) offset) ps
  | FillContiguous area _ | FillSolid area _ => translate_ok area offset
  | Clear _ => true
  end.

Definition clip_call_ok (clip_area : rect) (c : call) : bool :=
  match c with
  | DrawIter ps => br_ok clip_area
  | FillContiguous area cs =>
      let inter := intersection clip_area area in
      inter_ok clip_area area
      && (if rect_eqb inter area then true
          else pneg_ok (tl area) && translate_ok inter (pneg (tl area))
               && cropped_new_ok (sz area) (translate_rect inter (pneg (tl area))))
  | FillSolid area _ => inter_ok area clip_area
  | Clear _ => inter_ok clip_area clip_area
  end.

Definition lower1c_ok (ad : adapter) (pbb : rect) (c : call) : bool :=
  match ad with
  | Clip a => clip_call_ok (intersection a pbb) c
  | Crop a =>
      let area := intersection a pbb in
      match c with
      | Clear col => transl_call_ok (tl area) (FillSolid (R (P 0 0) (sz area)) col)
      | _ => transl_call_ok (tl area) c
      end
  | Transl d => transl_call_ok d c
  | Conv _ => true
  end.

(* construction of an adapter and its bounding_box(): Clipped::new / Cropped::new intersect with the parent
   box; Translated::bounding_box is parent box .translate(-offset) *)
Definition new_ok (ad : adapter) (pbb : rect) : bool :=
  match ad with
  | Clip a | Crop a => inter_ok a pbb
  | Transl d => pneg_ok d && translate_ok pbb (pneg d)
  | Conv _ => true
  end.

Fixpoint build_ok (st : list adapter) (bb : rect) : bool :=
  match st with
  | [] => true
  | ad :: rest => build_ok rest bb && new_ok ad (bbox_stack rest bb)
  end.

(* Geometry of the call an adapter issues on its parent: areas and pixel positions as in lower1c, colour streams
   dropped (the site predicates never look at colours).  Proofs/TargetOk.v: lower1g = strip o lower1c, and
   stack_ok below equals the same recursion over the real lowered calls (stack_ok_real).  Evaluating this form
   does not run the Cropped iterator over the whole area. *)
Definition strip (c : call) : call :=
  match c with FillContiguous a _ => FillContiguous a (Fin []) | _ => c end.

Definition lower1g (ad : adapter) (pbb : rect) (c : call) : call :=
  match ad, c with
  | Clip a, FillContiguous area _ =>
      let inter := intersection (intersection a pbb) area in
      if rect_eqb inter area then FillContiguous area (Fin []) else FillContiguous inter (Fin [])
  | _, _ => strip (lower1c ad pbb (strip c))
  end.

Fixpoint stack_ok (st : list adapter) (bb : rect) (c : call) : bool :=
  match st with
  | [] => true
  | ad :: rest =>
      let pbb := bbox_stack rest bb in
      lower1c_ok ad pbb c && stack_ok rest bb (lower1g ad pbb c)
  end.
