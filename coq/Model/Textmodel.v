(* Model of src/text/{text,mod,text_style}.rs: Text::lines / draw / bounding_box with a MonoTextStyle
   character style (Model/Fontmodel.v).  Strings are lists of code points; '\n' = 10, '\r' = 13.
   Definitions only. *)
From EG Require Import Base.Prelude Model.Geometry Model.Fontmodel.

(* text/mod.rs *)
Inductive halign := ALeft | ACenter | ARight.
Inductive lheight := LHPixels (n : Z) | LHPercent (percent : Z).

(* text_style.rs TextStyle *)
Record tstyle := TStyle {
  t_align : halign;
  t_base : vbase;
  t_lh : lheight
}.

(* text/mod.rs LineHeight::to_absolute (u32 arithmetic) *)
Definition to_absolute (lh : lheight) (base_line_height : Z) : Z :=
  match lh with
  | LHPixels p => p
  | LHPercent percent => base_line_height * percent / 100
  end.

(* text.rs:109-114 Text::line_height *)
Definition text_line_height (f : font) (ts : tstyle) : Z :=
  sat_u32_to_i32 (to_absolute (t_lh ts) (cs_line_height f)).

(* str::split('\n'): always at least one piece *)
Fixpoint split_nl (s : list Z) : list (list Z) :=
  match s with
  | [] => [[]]
  | c :: rest =>
      let r := split_nl rest in
      if c =? 10 then [] :: r
      else match r with
           | [] => [[c]]              (* unreachable: split_nl never returns [] *)
           | l :: ls => (c :: l) :: ls
           end
  end.

(* str::strip_suffix('\r').unwrap_or(line) *)
Fixpoint strip_cr (l : list Z) : list Z :=
  match l with
  | [] => []
  | [c] => if c =? 13 then [] else [c]
  | c :: t => c :: strip_cr t
  end.

(* text.rs:121-149 the closure of Text::lines for one line; returns the draw position *)
Definition line_position (f : font) (s : cstyle) (ts : tstyle) (position : point) (line : list Z) : point :=
  match t_align ts with
  | ALeft => position
  | ARight =>
      let next := snd (measure_string f s line (P 0 0) (t_base ts)) in
      psub position (psub next (P 1 0))
  | ACenter =>
      let next := snd (measure_string f s line (P 0 0) (t_base ts)) in
      let d := psub next (P 1 0) in
      psub position (P (Z.quot (px d) 2) (Z.quot (py d) 2))
  end.

(* text.rs:116-152 Text::lines as the list it yields *)
Fixpoint lines_from (f : font) (s : cstyle) (ts : tstyle) (position : point) (ls : list (list Z))
  : list (list Z * point) :=
  match ls with
  | [] => []
  | raw :: rest =>
      let line := strip_cr raw in
      let p := line_position f s ts position line in
      (line, p) :: lines_from f s ts (P (px position) (py position + text_line_height f ts)) rest
  end.

Definition text_lines (f : font) (s : cstyle) (ts : tstyle) (position : point) (text : list Z)
  : list (list Z * point) :=
  lines_from f s ts position (split_nl text).

(* text.rs:159-176 Drawable::draw: all calls, and the returned position *)
Fixpoint draw_lines (F : mfont) (s : cstyle) (b : vbase) (next : point) (ls : list (list Z * point))
  : list call * point :=
  match ls with
  | [] => ([], next)
  | (line, p) :: rest =>
      let r := draw_string F s line p b in
      let r2 := draw_lines F s b (snd r) rest in
      (fst r ++ fst r2, snd r2)
  end.

Definition text_draw (F : mfont) (s : cstyle) (ts : tstyle) (position : point) (text : list Z)
  : list call * point :=
  draw_lines F s (t_base ts) position (text_lines (mf_geom F) s ts position text).

(* text.rs:178-189 update_min_max *)
Definition update_min_max (mm : option (point * point)) (bb : rect) : option (point * point) :=
  match bottom_right bb with
  | Some br =>
      match mm with
      | Some (mn, mx) =>
          Some (P (Z.min (px mn) (px (tl bb))) (Z.min (py mn) (py (tl bb))),
                P (Z.max (px mx) (px br)) (Z.max (py mx) (py br)))
      | None => Some (tl bb, br)
      end
  | None => mm
  end.

(* text.rs:191-208 Dimensions::bounding_box *)
Definition text_bbox (f : font) (s : cstyle) (ts : tstyle) (position : point) (text : list Z) : rect :=
  let mm := fold_left (fun acc lp => update_min_max acc (fst (measure_string f s (fst lp) (snd lp) (t_base ts))))
                      (text_lines f s ts position text) None in
  match mm with
  | Some (mn, mx) => with_corners mn mx
  | None => R position (S 0 0)
  end.
