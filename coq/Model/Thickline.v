(* Model of the thick line machinery: Bresenham::next_all / previous_all / mirror_extra_points and
   increase_error / decrease_error (src/primitives/line/bresenham.rs), ParallelsIterator and ThickPoints
   (src/primitives/line/thick_points.rs), Line::perpendicular / extents (src/primitives/line/mod.rs),
   StyledPixelsIterator / styled_bounding_box (src/primitives/line/styled.rs).
   Definitions only.  Iterators are the lists they yield; the two loops carry explicit fuel and answer
   None when it runs out (Proofs/Thickline.v: it never does for the fuel passed here). *)
From EG Require Import Base.Prelude Model.Geometry Model.Style Model.Line.

(* bresenham.rs:78-88  BresenhamParameters::increase_error: (new error, minor step taken) *)
Definition increase_error (p : bparams) (e : Z) : Z * bool :=
  let e1 := e + error_step_major p in
  if error_threshold p <? e1 then (e1 - error_step_minor p, true) else (e1, false).

(* bresenham.rs:94-104  BresenhamParameters::decrease_error *)
Definition decrease_error (p : bparams) (e : Z) : Z * bool :=
  let e1 := e - error_step_major p in
  if e1 <=? - error_threshold p then (e1 + error_step_minor p, true) else (e1, false).

(* bresenham.rs:109-115 *)
Definition mirror_extra_points (p : bparams) : bool :=
  if negb (px (pos_step_major p) =? 0)
  then px (pos_step_major p) =? py (pos_step_minor p)
  else py (pos_step_major p) =? - px (pos_step_minor p).

(* bresenham.rs:201-213  BresenhamPoint *)
Inductive bpoint := BNormal (p : point) | BExtra (p : point).

(* bresenham.rs:155-174  Bresenham::next_all *)
Definition bnext_all (p : bparams) (s : bstate) : bpoint * bstate :=
  let point := b_point s in
  if error_threshold p <? b_error s then
    let s' := BS (padd (b_point s) (pos_step_minor p)) (b_error s - error_step_minor p) in
    let point := if mirror_extra_points p
                 then psub (padd point (pos_step_minor p)) (pos_step_major p) else point in
    (BExtra point, s')
  else
    (BNormal point, BS (padd (b_point s) (pos_step_major p)) (b_error s + error_step_major p)).

(* bresenham.rs:177-197  Bresenham::previous_all *)
Definition bprevious_all (p : bparams) (s : bstate) : bpoint * bstate :=
  let point := b_point s in
  if b_error s <=? - error_threshold p then
    let s' := BS (psub (b_point s) (pos_step_minor p)) (b_error s + error_step_minor p) in
    let point := if negb (mirror_extra_points p)
                 then padd (psub point (pos_step_minor p)) (pos_step_major p) else point in
    (BExtra point, s')
  else
    (BNormal point, BS (psub (b_point s) (pos_step_major p)) (b_error s - error_step_major p)).

(* common/mod.rs:52-68 LineSide, common/mod.rs:25-34 StrokeOffset, thick_points.rs:16-19 ParallelLineType *)
Inductive side := SLeft | SRight.
Definition side_swap (s : side) : side := match s with SLeft => SRight | SRight => SLeft end.
Inductive stroke_offset := SONone | SOLeft | SORight.
Inductive ltype := LNormal | LExtra.

(* thick_points.rs:30-77  ParallelsIterator *)
Record pstate := PS {
  par_params : bparams;
  perp_params : bparams;
  thick_acc : Z;
  thick_thr : Z;
  flip : bool;
  p_left : bstate;
  left_error : Z;
  p_right : bstate;
  right_error : Z;
  next_side : side;
  p_offset : stroke_offset
}.

(* mod.rs:99-104  Line::perpendicular *)
Definition perpendicular (l : line) : line :=
  let delta := psub (l_end l) (l_start l) in
  let delta := P (py delta) (- px delta) in
  L (l_start l) (padd (l_start l) delta).

(* thick_points.rs:132-165  next_parallel: the loop runs until a parallel is returned; fuel = iterations *)
Fixpoint next_parallel (fuel : nat) (s : pstate) (sd : side) : option (bpoint * Z * pstate) :=
  match fuel with
  | O => None
  | Datatypes.S f =>
      let decrease := match sd with SLeft => flip s | SRight => negb (flip s) end in
      let error := match sd with SLeft => left_error s | SRight => right_error s end in
      let '(point, b') := match sd with
                          | SLeft => bnext_all (perp_params s) (p_left s)
                          | SRight => bprevious_all (perp_params s) (p_right s)
                          end in
      let s1 := match sd with
                | SLeft => PS (par_params s) (perp_params s) (thick_acc s) (thick_thr s) (flip s)
                              b' (left_error s) (p_right s) (right_error s) (next_side s) (p_offset s)
                | SRight => PS (par_params s) (perp_params s) (thick_acc s) (thick_thr s) (flip s)
                               (p_left s) (left_error s) b' (right_error s) (next_side s) (p_offset s)
                end in
      let set_error (s : pstate) (e : Z) : pstate :=
        match sd with
        | SLeft => PS (par_params s) (perp_params s) (thick_acc s) (thick_thr s) (flip s)
                      (p_left s) e (p_right s) (right_error s) (next_side s) (p_offset s)
        | SRight => PS (par_params s) (perp_params s) (thick_acc s) (thick_thr s) (flip s)
                       (p_left s) (left_error s) (p_right s) e (next_side s) (p_offset s)
        end in
      match point with
      | BNormal _ => Some (point, error, s1)
      | BExtra _ =>
          if decrease then
            let '(e', took) := decrease_error (par_params s) error in
            if took then Some (point, error, set_error s1 e')      (* error_before_decrease *)
            else next_parallel f (set_error s1 e') sd
          else
            let '(e', took) := increase_error (par_params s) error in
            if took then Some (point, e', set_error s1 e')
            else next_parallel f (set_error s1 e') sd
      end
  end.

(* never more than one Extra point is skipped before a parallel is returned (Proofs/Thickline.v) *)
Definition np_fuel : nat := 4.

Definition horizontal_line : line := L (P 0 0) (P 1 0).
Definition point_neg (p : point) : point := P (- px p) (- py p).

(* thick_points.rs:81-129  ParallelsIterator::new *)
Definition parallels_new (l0 : line) (thickness : Z) (so : stroke_offset) : option pstate :=
  let start_point := l_start l0 in
  let l := if point_eqb (l_start l0) (l_end l0) then horizontal_line else l0 in
  let parallel_parameters := bparams_new l in
  let perpendicular_parameters := bparams_new (perpendicular l) in
  let delta := psub (l_end l) (l_start l) in
  let thickness_threshold := (thickness * 2) * (thickness * 2) * (px delta * px delta + py delta * py delta) in
  let thickness_accumulator :=
    Z.quot (error_step_minor parallel_parameters + error_step_major parallel_parameters) 2 in
  let flip := point_eqb (pos_step_minor perpendicular_parameters)
                        (point_neg (pos_step_major parallel_parameters)) in
  let next_side := match so with SONone => SRight | SOLeft => SLeft | SORight => SRight end in
  let self_ := PS parallel_parameters perpendicular_parameters thickness_accumulator thickness_threshold
                  flip (BS start_point 0) 0 (BS start_point 0) 0 next_side so in
  (* Skip center line *)
  match next_parallel np_fuel self_ (side_swap next_side) with
  | Some (_, _, s) => Some s
  | None => None
  end.

Definition set_acc_side (s : pstate) (acc : Z) (sd : side) : pstate :=
  PS (par_params s) (perp_params s) acc (thick_thr s) (flip s)
     (p_left s) (left_error s) (p_right s) (right_error s) sd (p_offset s).

Inductive step_result {A} := Fuel_out | Done | Yield (a : A) (s : pstate).
Arguments step_result : clear implicits.

(* thick_points.rs:171-209  <ParallelsIterator as Iterator>::next *)
Definition parallels_next (s : pstate) : step_result (bstate * ltype) :=
  if thick_thr s <? thick_acc s * thick_acc s then Done
  else
    match next_parallel np_fuel s (next_side s) with
    | None => Fuel_out
    | Some (point, error, s1) =>
        let '(ret, acc) :=
          match point with
          | BNormal q => ((BS q error, LNormal), thick_acc s1 + error_step_minor (perp_params s1))
          | BExtra q => ((BS q error, LExtra), thick_acc s1 + error_step_major (perp_params s1))
          end in
        let sd := match p_offset s1 with SONone => side_swap (next_side s1) | _ => next_side s1 end in
        Yield ret (set_acc_side s1 acc sd)
    end.

(* the whole sequence of parallels *)
Fixpoint parallels_run (fuel : nat) (s : pstate) : option (list (bstate * ltype)) :=
  match fuel with
  | O => None
  | Datatypes.S f =>
      match parallels_next s with
      | Fuel_out => None
      | Done => Some []
      | Yield a s' => match parallels_run f s' with Some t => Some (a :: t) | None => None end
      end
  end.

(* enough for every thickness: each parallel adds at least 2 to an accumulator that starts positive and
   stops beyond 2 * thickness * length; far fewer are needed (about 3 * thickness) *)
Definition parallels_fuel (l : line) (thickness : Z) : nat :=
  Z.to_nat (4 * Z.max thickness 0 + 8).

Definition parallels (l : line) (thickness : Z) (so : stroke_offset) : option (list (bstate * ltype)) :=
  match parallels_new l thickness so with
  | Some s => parallels_run (parallels_fuel l thickness) s
  | None => None
  end.

(* thick_points.rs:213-247  ThickPoints::new + Iterator::next, as the whole list:
   every Normal parallel has major_length(line) points, every Extra parallel one fewer *)
Definition thick_points (l : line) (thickness : Z) : option (list point) :=
  match parallels l thickness SONone with
  | None => None
  | Some ps =>
      let par := bparams_new (if point_eqb (l_start l) (l_end l) then horizontal_line else l) in
      let len := major_length l in
      Some (flat_map (fun bt : bstate * ltype =>
                        let n := match snd bt with LNormal => len | LExtra => len - 1 end in
                        bresenham_run par (fst bt) (Z.to_nat n)) ps)
  end.

(* styled.rs:17-49  StyledPixelsIterator: no pixels without an effective stroke colour *)
Definition styled_line_pixels (l : line) (st : style) : option (list (point * Z)) :=
  match effective_stroke_color st with
  | None => Some []
  | Some c =>
      match thick_points l (sat_u32_to_i32 (stroke_width st)) with
      | Some ps => Some (map (fun p => (p, c)) ps)
      | None => None
      end
  end.

(* mod.rs:109-170  Line::extents *)
Fixpoint last_alternating (ps : list (bstate * ltype)) (right_turn : bool)
                          (el er : point * ltype) : (point * ltype) * (point * ltype) :=
  match ps with
  | [] => (el, er)
  | (b, t) :: rest =>
      if right_turn then last_alternating rest false el (b_point b, t)
      else last_alternating rest true (b_point b, t) er
  end.

Definition extents (l : line) (thickness : Z) (so : stroke_offset) : option (line * line) :=
  let par := bparams_new (if point_eqb (l_start l) (l_end l) then horizontal_line else l) in
  match parallels l (sat_u32_to_i32 thickness) so with
  | None => None
  | Some ps =>
      let reduce := padd (pos_step_major par) (pos_step_minor par) in
      let init := (l_start l, LNormal) in
      let lastp := match last_opt ps with Some (b, t) => (b_point b, t) | None => init end in
      let '(el, er) :=
        match so with
        | SONone => last_alternating ps true init init
        | SOLeft => (lastp, init)
        | SORight => (init, lastp)
        end in
      let delta := psub (l_end l) (l_start l) in
      let mk (e : point * ltype) : line :=
        L (fst e) (psub (padd (fst e) delta)
                        (match snd e with LNormal => P 0 0 | LExtra => reduce end)) in
      Some (mk el, mk er)
  end.

(* styled.rs:72-88  styled_bounding_box *)
Definition styled_line_bounding_box (l : line) (st : style) : option rect :=
  match extents l (stroke_width st) SONone with
  | None => None
  | Some (a, b) =>
      let mn := component_min (component_min (component_min (l_start a) (l_end a)) (l_start b)) (l_end b) in
      let mx := component_max (component_max (component_max (l_start a) (l_end a)) (l_start b)) (l_end b) in
      Some (with_corners mn mx)
  end.
