(* Model of src/primitives/triangle/{mod,points,scanline_iterator,scanline_intersections}.rs and of
   src/primitives/common/scanline.rs, for the filled triangle (Triangle::points(): stroke width 0,
   StrokeOffset::None, has_fill = true) and Triangle::contains().  Definitions only (extracted). *)
From EG Require Import Base.Prelude Model.Geometry Model.Line.

(* triangle/mod.rs:68-71 *)
Record triangle := T { v1 : point; v2 : point; v3 : point }.

(* triangle/mod.rs:184-188  (`-p2.y * p3.x` is `(-p2.y) * p3.x`) *)
Definition area_doubled (t : triangle) : Z :=
  let p1 := v1 t in let p2 := v2 t in let p3 := v3 t in
  (- py p2) * px p3 + py p1 * (px p3 - px p2) + px p1 * (py p2 - py p3) + px p2 * py p3.

(* triangle/mod.rs:323-333 *)
Definition sort_two_yx (p1 p2 : point) : point * point :=
  if (py p1 <? py p2) || ((py p1 =? py p2) && (px p1 <? px p2)) then (p1, p2) else (p2, p1).

(* triangle/mod.rs:206-214 *)
Definition sorted_yx (t : triangle) : triangle :=
  let p1 := v1 t in let p2 := v2 t in let p3 := v3 t in
  let '(y1, y2) := sort_two_yx p1 p2 in
  let '(y1, y3) := sort_two_yx p3 y1 in
  let '(y2, y3) := sort_two_yx y3 y2 in
  T y1 y2 y3.

(* triangle/mod.rs:191-200 *)
Definition sorted_clockwise (t : triangle) : triangle :=
  match area_doubled t ?= 0 with
  | Lt => T (v2 t) (v1 t) (v3 t)
  | Gt => t
  | Eq => sorted_yx t
  end.

(* triangle/mod.rs:146-158  Dimensions::bounding_box *)
Definition tri_bounding_box (t : triangle) : rect :=
  let p1 := v1 t in let p2 := v2 t in let p3 := v3 t in
  let x_min := Z.min (Z.min (px p1) (px p2)) (px p3) in
  let y_min := Z.min (Z.min (py p1) (py p2)) (py p3) in
  let x_max := Z.max (Z.max (px p1) (px p2)) (px p3) in
  let y_max := Z.max (Z.max (py p1) (py p2)) (py p3) in
  with_corners (P x_min y_min) (P x_max y_max).

(* ---- common/scanline.rs ------------------------------------------------------------------ *)

(* scanline.rs:9-14: y and the half-open x range *)
Record scanline := SL { sl_y : Z; sl_start : Z; sl_end : Z }.

(* scanline.rs:22-25 *)
Definition sl_new_empty (y : Z) : scanline := SL y 0 0.

(* scanline.rs:28-30  Range::is_empty is !(start < end) *)
Definition sl_is_empty (s : scanline) : bool := negb (sl_start s <? sl_end s).

(* scanline.rs:33-41 *)
Definition sl_extend (s : scanline) (x : Z) : scanline :=
  if sl_is_empty s then SL (sl_y s) x (x + 1)
  else if x <? sl_start s then SL (sl_y s) x (sl_end s)
  else if sl_end s <=? x then SL (sl_y s) (sl_start s) (x + 1)
  else s.

(* Iterator::skip_while *)
Fixpoint drop_while {A} (f : A -> bool) (l : list A) : list A :=
  match l with [] => [] | x :: t => if f x then drop_while f t else l end.

(* scanline.rs:47-67 *)
Definition bresenham_intersection (s : scanline) (l : line) : scanline :=
  let '(lo, hi) := if py (l_start l) <=? py (l_end l)
                   then (py (l_start l), py (l_end l)) else (py (l_end l), py (l_start l)) in
  if negb ((lo <=? sl_y s) && (sl_y s <=? hi)) then s
  else
    let y := sl_y s in
    fold_left (fun acc p => sl_extend acc (px p))
      (take_while (fun p => py p =? y) (drop_while (fun p => negb (py p =? y)) (line_points l)))
      s.

(* scanline.rs:156-162  Iterator for Scanline, as the list of the remaining points *)
Definition sl_points (s : scanline) : list point :=
  map (fun x => P x (sl_y s)) (range (sl_start s) (sl_end s)).

(* ---- triangle/mod.rs:216-236  scanline_intersection ---------------------------------------- *)
Definition tri_scanline_intersection (t : triangle) (scanline_y : Z) : scanline :=
  let st := sorted_yx t in
  let p1 := v1 st in let p2 := v2 st in let p3 := v3 st in
  let scanline := sl_new_empty scanline_y in
  if area_doubled t =? 0 then bresenham_intersection scanline (L p1 p3)
  else
    bresenham_intersection
      (bresenham_intersection (bresenham_intersection scanline (L p1 p2)) (L p1 p3))
      (L p2 p3).

(* ---- triangle/scanline_iterator.rs + scanline_intersections.rs, for stroke_width = 0, has_fill,
   StrokeOffset::None (is_collapsed is false because the offset is not Right; edge_intersections
   yields nothing for width 0, so `internal` = triangle.scanline_intersection(y), first/second are
   empty: scanline_intersections.rs:139-189).
   ScanlineIterator::new (scanline_iterator.rs:21-49) loads the first row of the bounding box;
   next() (:62-72) yields the loaded line when it is not empty, else moves to the next row and
   returns whatever that row gives - an empty row then ends the iteration (`for` reading). *)
Definition tri_scanlines (t : triangle) : list scanline :=
  let ct := sorted_clockwise t in
  let '(y0, y1) := rows (tri_bounding_box t) in
  match range y0 y1 with
  | [] => []
  | y :: rs =>
      let first := tri_scanline_intersection ct y in
      (if sl_is_empty first then [] else [first])
      ++ take_while (fun s => negb (sl_is_empty s)) (map (tri_scanline_intersection ct) rs)
  end.

(* triangle/points.rs:17-46  Points::new / next: the points of the scanlines, one line after the other *)
Definition tri_points (t : triangle) : list point := flat_map sl_points (tri_scanlines t).

(* ---- triangle/mod.rs:85-144  ContainsPoint::contains ------------------------------------------ *)
(* the `is_inside` block; None models the early `return false` for a == 0 *)
Definition tri_is_inside (t : triangle) (p : point) : option bool :=
  let p1 := v1 t in let p2 := v2 t in let p3 := v3 t in
  let s := py p1 * px p3 - px p1 * py p3 + (py p3 - py p1) * px p + (px p1 - px p3) * py p in
  let t_ := px p1 * py p2 - py p1 * px p2 + (py p1 - py p2) * px p + (px p2 - px p1) * py p in
  if negb (Bool.eqb (s <? 0) (t_ <? 0)) then Some false
  else
    let a := area_doubled t in
    if a =? 0 then None
    else if a <? 0 then Some ((s <=? 0) && (t_ <=? 0) && (a <=? s + t_))
    else Some ((0 <=? s) && (0 <=? t_) && (s + t_ <=? a)).

(* the three border lines between the (y,x)-sorted vertices, chained (mod.rs:132-143) *)
Definition tri_edge_points (t : triangle) : list point :=
  let st := sorted_yx t in
  line_points (L (v1 st) (v2 st)) ++ line_points (L (v1 st) (v3 st)) ++ line_points (L (v2 st) (v3 st)).

Definition tri_contains (t : triangle) (p : point) : bool :=
  if negb (contains (tri_bounding_box t) p) then false
  else
    match tri_is_inside t p with
    | None => false
    | Some true => true
    | Some false => existsb (fun lp => point_eqb lp p) (tri_edge_points t)
    end.

(* triangle/mod.rs:288-301  Transform::translate *)
Definition tri_translate (t : triangle) (by_ : point) : triangle :=
  T (padd (v1 t) by_) (padd (v2 t) by_) (padd (v3 t) by_).
