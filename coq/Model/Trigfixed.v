(* Exact integer model of the `fixed_point` trigonometry behind PlaneSector::new:
     src/geometry/real.rs   (cfg(feature = "fixed_point"): Real = I16F16 of the `fixed` crate 1.x)
     src/geometry/angle.rs  (cfg(feature = "fixed_point"): Trigonometry::sin / cos over the 91-entry table)
     src/primitives/common/linear_equation.rs  OriginLinearEquation::with_angle
     src/primitives/common/plane_sector.rs     PlaneSector::new
   An I16F16 value is modelled by its BIT PATTERN b : Z (value = b / 65536).  Semantics of the `fixed` operations
   used (fixed-1.31.0/src/arith.rs mul_div_widen!, macros_round.rs), read from the source and confirmed by the
   correspondence suite fx_parts on the fixed_point harness binary:
     a * b   bits = floor (a * b / 2^16)             (i64 product, arithmetic shift right)
     a / b   bits = trunc (a * 2^16 / b)             (i64 division, toward zero)
     round() ties away from zero, result an integer value
     i32::from(Real) = round_to_zero().to_num()      (toward zero)
     Real::from(n : i32) bits = n * 2^16;  a + b, -a, abs exact
   Overflow: debug builds panic, release builds wrap; the model is unbounded and is the code for
   |angle bits| <= 11_000_000 (about +-167 rad: 180 * angle must stay below 2^15), see fx_angle_ok.
   Constants and the table come from coq/Gen/SinTable.v (translate/gen_sin.py).  Definitions only. *)
From EG Require Import Base.Prelude Model.Geometry Model.Sectormodel Gen.SinTable.

Definition fx_one : Z := 65536.
(* arith.rs:581-592 overflowing_mul, frac_nbits = 16 *)
Definition fx_mul (a b : Z) : Z := (a * b) / fx_one.
(* arith.rs:640-661 overflowing_div *)
Definition fx_div (a b : Z) : Z := Z.quot (a * fx_one) b.
(* Real::from(i32) = I16F16::from_num *)
Definition fx_of_int (n : Z) : Z := n * fx_one.
(* macros_round.rs:974-1000 overflowing_round (signed): the integer VALUE of round() *)
Definition fx_round_int (b : Z) : Z :=
  let q := b / fx_one in
  let f := b mod fx_one in
  if f <? 32768 then q
  else if (f =? 32768) && (b <? 0) then q
  else q + 1.
(* real.rs From<Real> for i32: round_to_zero().to_num::<i32>() *)
Definition fx_to_i32 (b : Z) : Z := Z.quot b fx_one.

Definition fx_angle_ok (a : Z) : bool := Z.abs a <=? 11000000.

(* angle.rs:156-250 `degree` before rem_euclid *)
Definition fx_degree (a : Z) : Z :=
  fx_round_int (fx_div (fx_mul (fx_of_int 180) a) pi_bits).

(* angle.rs:251-262: quadrant symmetry over the table; d = degree.rem_euclid(360) *)
Definition fx_sin_of_degree (d : Z) : Z :=
  if d <=? 90 then nth (Z.to_nat d) sin_table 0
  else if d <=? 180 then nth (Z.to_nat (180 - d)) sin_table 0
  else if d <=? 270 then - nth (Z.to_nat (d - 180)) sin_table 0
  else - nth (Z.to_nat (360 - d)) sin_table 0.

(* Trigonometry::sin, ::cos (bits) *)
Definition fx_sin (a : Z) : Z := fx_sin_of_degree ((fx_degree a) mod 360).
Definition fx_cos (a : Z) : Z := fx_sin (a + frac_pi_2_bits).

(* linear_equation.rs:62-77 with_angle *)
Definition fx_with_angle (a : Z) : point :=
  if a =? angle_180deg_bits then P 0 (- normal_vector_scale)
  else
    let x := fx_to_i32 (fx_mul (fx_cos a) (fx_of_int normal_vector_scale)) in
    let y := fx_to_i32 (fx_mul (fx_sin a) (fx_of_int normal_vector_scale)) in
    P (- y) x.   (* rotate_90 *)

(* plane_sector.rs:48-76 PlaneSector::new on angle bit patterns *)
Definition fx_plane_sector (start sweep : Z) : plane_sector :=
  let sweep_abs := Z.abs sweep in
  if tau_bits <=? sweep_abs then PS (P 0 normal_vector_scale) (P 0 normal_vector_scale) OpEntirePlane
  else
    let operation := if pi_bits <=? sweep_abs then OpUnion else OpIntersection in
    let angle_end := start + sweep in
    let '(s, e) := if sweep <? 0 then (angle_end, start) else (start, angle_end) in
    PS (fx_with_angle e) (fx_with_angle s) operation.
