(* Model of the two CONSUMERS of the triangle / polyline scanline generators:
     src/primitives/triangle/styled.rs   StyledPixelsIterator (pixels()) and draw_styled (draw())
     src/primitives/polyline/styled.rs   StyledPixelsIterator and draw_styled, thin (width <= 1) and thick
     src/primitives/common/scanline.rs   to_rectangle
   The generators (triangle::ScanlineIterator for stroked triangles, polyline::ScanlineIterator) are parameters:
   the items every row yields (triangle: the iterator is not fused and the two consumers drive it differently, so the
   protocol of next() is part of the model) resp. the list of items (polyline).  For the cases where the generator is modelled (triangle with stroke width 0:
   Model/Triangle.v tri_scanlines; thin polyline: Model/Polyline.v polyline_points) the functions at the end of the
   file put generator and consumer together; these are what the correspondence suites run.
   Definitions only (extracted).  Colours are abstract tags (Z). *)
From EG Require Import Base.Prelude Model.Geometry Model.Line Model.Style Model.Polyline Model.Triangle.

(* common/mod.rs PointType *)
Inductive point_type := PTStroke | PTFill.

(* scanline.rs:112-121  to_rectangle *)
Definition sl_to_rectangle (s : scanline) : rect :=
  let width := if negb (sl_is_empty s) then sl_end s - sl_start s else 0 in
  R (P (sl_start s) (sl_y s)) (S width 1).

(* DrawTarget::fill_solid(area, c), documented meaning: every point of area gets c (row-major order of the
   default implementation, core/src/draw_target/mod.rs:388-410) *)
Definition fill_writes (rc : rect * Z) : list (point * Z) := map (fun p => (p, snd rc)) (points (fst rc)).

(* ---- triangle/scanline_iterator.rs: the generator both consumers drive -------------------------------- *)

(* The generator is NOT a list: triangle::ScanlineIterator is an un-fused iterator.  It is given by `rows`, the items
   that the ScanlineIntersections of every row of the (styled) bounding box yield, and its state is the part of the
   current row not yet yielded plus the rows not yet loaded. *)
Definition tline : Type := (scanline * point_type)%type.
Record gen_state := GS { g_cur : list tline; g_rows : list (list tline) }.

(* scanline_iterator.rs:21-58  new: the first row is loaded; a bounding box without rows gives empty() *)
Definition gen_new (rows : list (list tline)) : gen_state :=
  match rows with r :: rest => GS r rest | [] => GS [] [] end.

(* scanline_iterator.rs:62-72  next: `self.intersections.next().or_else(|| { self.scanline_y = self.rows.next()?;
   reset_with_new_scanline; self.intersections.next() })` - when the current row is used up exactly ONE further row is
   loaded; if that row yields nothing the call returns None although later rows may yield again *)
Definition gen_next (g : gen_state) : option tline * gen_state :=
  match g_cur g with
  | x :: r => (Some x, GS r (g_rows g))
  | [] =>
      match g_rows g with
      | [] => (None, g)
      | row :: rest => match row with x :: r => (Some x, GS r rest) | [] => (None, GS [] rest) end
      end
  end.

(* what repeated next() calls yield up to the first None *)
Fixpoint gen_go (rows : list (list tline)) : list tline :=
  match rows with
  | [] => []
  | r :: rest => match r with [] => [] | _ => r ++ gen_go rest end
  end.
Definition gen_run (g : gen_state) : list tline := g_cur g ++ gen_go (g_rows g).

(* the sequence a `for` loop sees (draw_styled, Triangle::points()) *)
Definition for_sequence (rows : list (list tline)) : list tline := gen_run (gen_new rows).

(* the sequence StyledPixelsIterator sees: new() calls next() once and ignores a None there (styled.rs:35-37), then
   next() is called until the first None *)
Definition pixels_sequence (rows : list (list tline)) : list tline :=
  match gen_next (gen_new rows) with
  | (Some x, g) => x :: gen_run g
  | (None, g) => gen_run g
  end.

(* ---- triangle/styled.rs ---------------------------------------------------------------------- *)

(* styled.rs:17-24: lines_iter is the generator state, current_line (a Scanline used as an iterator,
   scanline.rs:156-162) is represented by the points it still has to yield *)
Record tsp_state := TSP {
  tsp_gen : gen_state;
  tsp_current : list point;
  tsp_color : option Z;
  tsp_fill : option Z;
  tsp_stroke : option Z
}.

(* styled.rs:27-52  StyledPixelsIterator::new *)
Definition tsp_new (st : style) (rows : list (list tline)) : tsp_state :=
  let '(first, g) := gen_next (gen_new rows) in
  let '(current_line, point_type) :=
    match first with
    | Some (l, k) => (sl_points l, k)
    | None => ([], PTStroke)                   (* unwrap_or_else(|| (Scanline::new_empty(0), PointType::Stroke)) *)
    end in
  let current_color := match point_type with PTStroke => effective_stroke_color st | PTFill => fill_color st end in
  TSP g current_line current_color (fill_color st) (effective_stroke_color st).

(* styled.rs:58-76  Iterator::next: the `loop`.  None = fuel exhausted (never, see Proofs/Tristyled.v);
   Some (r, s') = returned item and the state afterwards *)
Fixpoint tsp_next (fuel : nat) (s : tsp_state) : option (option (point * Z) * tsp_state) :=
  match fuel with
  | O => None
  | Datatypes.S k =>
      let fetch :=
        match gen_next (tsp_gen s) with
        | (None, g) => Some (None, TSP g (tsp_current s) (tsp_color s) (tsp_fill s) (tsp_stroke s))   (* self.lines_iter.next()? *)
        | (Some (l, kd), g) =>
            tsp_next k (TSP g (sl_points l)
                          (match kd with PTStroke => tsp_stroke s | PTFill => tsp_fill s end)
                          (tsp_fill s) (tsp_stroke s))
        end in
      match tsp_color s with
      | Some c =>
          match tsp_current s with
          | p :: r => Some (Some (p, c), TSP (tsp_gen s) r (tsp_color s) (tsp_fill s) (tsp_stroke s))
          | [] => fetch
          end
      | None => fetch
      end
  end.

(* each nested call of the loop consumes one item of the generator *)
Definition gen_size (g : gen_state) : nat :=
  (length (g_cur g) + fold_right (fun r acc => (length r + acc)%nat) O (g_rows g))%nat.
Definition tsp_next_fuel (s : tsp_state) : nat := Datatypes.S (gen_size (tsp_gen s)).

Fixpoint tsp_collect (n : nat) (s : tsp_state) : list (point * Z) :=
  match n with
  | O => []
  | Datatypes.S k =>
      match tsp_next (tsp_next_fuel s) s with
      | Some (Some pc, s') => pc :: tsp_collect k s'
      | _ => []
      end
  end.

(* upper bound on the number of items: all points of all lines, plus the final None *)
Definition tsp_fuel (rows : list (list tline)) : nat :=
  Datatypes.S (fold_right (fun lk acc => (length (sl_points (fst lk)) + acc)%nat) O (concat rows)).

(* Styled<Triangle>::pixels() for a generator whose rows yield `rows` *)
Definition tri_styled_pixels (st : style) (rows : list (list tline)) : list (point * Z) :=
  tsp_collect (tsp_fuel rows) (tsp_new st rows).

(* styled.rs:86-121  draw_styled: the fill_solid calls, for the sequence `lines` the `for` loop sees *)
Definition tri_draw_styled (st : style) (lines : list tline) : list (rect * Z) :=
  if is_transparent st then []
  else
    flat_map (fun lk =>
                let color := match snd lk with PTStroke => effective_stroke_color st | PTFill => fill_color st end in
                match color with
                | Some c =>
                    let rect := sl_to_rectangle (fst lk) in
                    if negb (is_zero_sized rect) then [(rect, c)] else []
                | None => []
                end) lines.

(* ---- polyline/styled.rs ---------------------------------------------------------------------- *)

(* polyline/scanline_iterator.rs:62-76  ScanlineIterator::next: `raw` is what the per-row ScanlineIntersections
   yield, row after row; empty scanlines are skipped by the loop *)
Definition poly_scanlines (raw : list scanline) : list scanline := filter (fun s => negb (sl_is_empty s)) raw.

(* styled.rs:99-140  Thick branch of StyledPixelsIterator: state = (remaining scanlines, remaining points of line_iter).
   `*line_iter = scanline_iter.next()?; line_iter.next()` ends the iteration when the fetched scanline has no point. *)
Fixpoint poly_thick_points (lines : list scanline) (current : list point) (n : nat) : list point :=
  match n with
  | O => []
  | Datatypes.S k =>
      match current with
      | p :: r => p :: poly_thick_points lines r k
      | [] =>
          match lines with
          | [] => []
          | l :: rest =>
              match sl_points l with
              | p :: r => p :: poly_thick_points rest r k
              | [] => []
              end
          end
      end
  end.

(* Styled<Polyline>::pixels(), width > 1, for a generator that yields `lines` (styled.rs:84-97 new: the first scanline
   is fetched with unwrap_or_else(new_empty); 107-141 next) *)
Definition poly_styled_pixels_thick (st : style) (translate : point) (lines : list scanline) : list (point * Z) :=
  match effective_stroke_color st with
  | None => []                                                             (* let stroke_color = self.stroke_color?; *)
  | Some c =>
      let '(first, rest) := match lines with l :: r => (sl_points l, r) | [] => ([], []) end in
      map (fun p => (padd p translate, c))
          (poly_thick_points rest first
             (Datatypes.S (fold_right (fun l acc => (length (sl_points l) + acc)%nat) O lines)))
  end.

(* styled.rs:41-58 draw_thick + 163-181: fill_solid on `target.translated(self.translate)`
   (src/draw_target/translated.rs: the area is moved by the offset); the `translate != zero` test only avoids the adapter *)
Definition poly_draw_styled_thick (st : style) (translate : point) (lines : list scanline) : list (rect * Z) :=
  match stroke_color st with
  | None => []
  | Some c =>
      flat_map (fun l => let rect := sl_to_rectangle l in
                         if negb (is_zero_sized rect) then [(translate_rect rect translate, c)] else []) lines
  end.

(* width <= 1: styled.rs:84-86 Thin(primitive.points()), 107-112, 123 *)
Definition poly_styled_pixels_thin (st : style) (pl : polyline) : list (point * Z) :=
  match effective_stroke_color st with
  | None => []
  | Some c => map (fun p => (p, c)) (polyline_points pl)
  end.

(* styled.rs:158-162: width 0 => nothing, width 1 => one draw_iter with the points *)
Definition poly_draw_styled_thin (st : style) (pl : polyline) : list (point * Z) :=
  match stroke_color st with
  | None => []
  | Some c => if stroke_width st =? 0 then [] else map (fun p => (p, c)) (polyline_points pl)
  end.

(* ---- generator + consumer where the generator is modelled ------------------------------------------ *)

(* The rows of triangle::ScanlineIterator for stroke width 0 (scanline_intersections.rs:45-49, 139-207): is_collapsed is
   false (`stroke_width > 0 && ...`), there are no edge intersections, `internal` is the triangle's scanline of the row when
   there is a fill colour and empty otherwise, and next() yields it (labelled Fill) only when it is not empty.
   The rows are those of styled_bounding_box = bounding_box() (styled.rs:130), the triangle is sorted clockwise. *)
Definition tri_rows_w0 (has_fill : bool) (t : triangle) : list (list tline) :=
  let ct := sorted_clockwise t in
  let '(y0, y1) := rows (tri_bounding_box t) in
  map (fun y => let s := if has_fill then tri_scanline_intersection ct y else sl_new_empty y in
                if sl_is_empty s then [] else [(s, PTFill)])
      (range y0 y1).

Definition has_fill (st : style) : bool := match fill_color st with Some _ => true | None => false end.

Definition tri_styled_pixels_w0 (st : style) (t : triangle) : list (point * Z) :=
  tri_styled_pixels st (tri_rows_w0 (has_fill st) t).

Definition tri_draw_styled_w0 (st : style) (t : triangle) : list (rect * Z) :=
  tri_draw_styled st (for_sequence (tri_rows_w0 (has_fill st) t)).
