(* Proofs about Model/Circle.v: the circle's contains / scanlines / points (C05, C18 integer part). *)
From EG Require Import Base.Prelude Base.Lemmas Model.Geometry Model.Style Model.Circle Proofs.Geometry Proofs.Scanline.
From Coq Require Import ZifyBool.

Ltac Zify.zify_post_hook ::= Z.to_euclidean_division_equations.
Set Default Timeout 60.

(* range in which the saturating operations of the model are not reached (= rect_ok of the bounding box) *)
Definition circle_ok (c : circle) : Prop := point_ok (c_tl c) /\ 0 <= c_d c <= bound.

(* the points of a rectangle in row-major order (for rect_ok rectangles this is Rectangle::points()) *)
Definition box_points (r : rect) : list point :=
  row_major (px (tl r)) (px (tl r) + sw (sz r)) (py (tl r)) (py (tl r) + sh (sz r)).

Lemma In_box_points r p : In p (box_points r) <-> contains r p = true.
Proof. unfold box_points. rewrite In_row_major, contains_spec. tauto. Qed.

Lemma circle_bbox_ok c : circle_ok c -> rect_ok (circle_bbox c).
Proof. intros [H1 H2]. unfold rect_ok, size_ok, circle_bbox. cbn [tl sz sw sh]. tauto. Qed.

(* ---- arithmetic facts ------------------------------------------------------------------- *)
Lemma sq_between u v w : u <= v <= w -> v * v <= u * u \/ v * v <= w * w.
Proof. intros H. destruct (Z_le_gt_dec 0 v); [right|left]; nia. Qed.

Lemma sq_lt_abs a d : 0 <= d -> a * a < d * d -> - d < a < d.
Proof. intros Hd H. split; destruct (Z_le_gt_dec 0 a); nia. Qed.

Lemma abs_lt_sq a d : - d < a < d -> a * a < d * d.
Proof. intros H. destruct (Z_le_gt_dec 0 a); nia. Qed.

Lemma abs_le_sq a d : - d <= a <= d -> a * a <= d * d.
Proof. intros H. destruct (Z_le_gt_dec 0 a); nia. Qed.

Lemma threshold_le_sq d : 0 <= d -> diameter_to_threshold d <= d * d.
Proof. intros H. unfold diameter_to_threshold. destruct (d <=? 4); lia. Qed.

(* the d <= 4 correction: thresholds 0, 1, 3, 8, 14 *)
Lemma threshold_small d : 0 <= d <= 4 ->
  diameter_to_threshold d = match d with 0 => 0 | 1 => 1 | 2 => 3 | 3 => 8 | _ => 14 end.
Proof.
  intros H. assert (d = 0 \/ d = 1 \/ d = 2 \/ d = 3 \/ d = 4) as [->|[->|[->|[->| ->]]]] by lia; reflexivity.
Qed.

Lemma threshold_big d : 4 < d -> diameter_to_threshold d = d * d.
Proof. intros H. unfold diameter_to_threshold. destruct (d <=? 4) eqn:E; [lia|reflexivity]. Qed.

(* (d-1)^2 + 1 < threshold: the column through the centre is hit in every row of the box *)
Lemma threshold_gt d : 1 <= d -> (d - 1) * (d - 1) + (if Z.even d then 1 else 0) < diameter_to_threshold d.
Proof.
  intros H. destruct (Z_le_gt_dec d 4).
  - rewrite threshold_small by lia.
    assert (d = 1 \/ d = 2 \/ d = 3 \/ d = 4) as [->|[->|[->| ->]]] by lia; cbn; lia.
  - rewrite threshold_big by lia. destruct (Z.even d); nia.
Qed.

Lemma threshold_mono d e : 0 <= d <= e -> diameter_to_threshold d <= diameter_to_threshold e.
Proof.
  intros H. destruct (Z_le_gt_dec e 4).
  - rewrite !threshold_small by lia.
    assert (d = 0 \/ d = 1 \/ d = 2 \/ d = 3 \/ d = 4) as [->|[->|[->|[->| ->]]]] by lia;
    assert (e = 0 \/ e = 1 \/ e = 2 \/ e = 3 \/ e = 4) as [->|[->|[->|[->| ->]]]] by lia; cbn; lia.
  - rewrite (threshold_big e) by lia. pose proof (threshold_le_sq d ltac:(lia)). nia.
Qed.

(* ---- contains --------------------------------------------------------------------------- *)
(* contains in plain arithmetic: doubled centre 2*tl + (d-1), squared doubled distance against the threshold *)
Lemma circle_contains_arith c p :
  1 <= c_d c ->
  circle_contains c p =
  ((2 * px p - (2 * px (c_tl c) + c_d c - 1)) * (2 * px p - (2 * px (c_tl c) + c_d c - 1)) +
   (2 * py p - (2 * py (c_tl c) + c_d c - 1)) * (2 * py p - (2 * py (c_tl c) + c_d c - 1)) <? diameter_to_threshold (c_d c)).
Proof.
  intros H. unfold circle_contains, circle_center_2x, circle_threshold, length_squared, psub, sat_sub_u32.
  cbn [px py]. rewrite Z.max_l by lia. f_equal. ring.
Qed.

Lemma circle_contains_zero c p : c_d c = 0 -> circle_contains c p = false.
Proof.
  intros H. unfold circle_contains, circle_threshold, length_squared. rewrite H.
  change (diameter_to_threshold 0) with 0. apply Z.ltb_ge. nia.
Qed.

Lemma circle_row_pred_contains c y x :
  circle_row_pred (circle_center_2x c) (circle_threshold c) y x = circle_contains c (P x y).
Proof.
  unfold circle_row_pred, circle_contains, length_squared, psub. cbn [px py]. f_equal. ring.
Qed.

Theorem circle_contains_in_bbox c p :
  circle_ok c -> circle_contains c p = true -> contains (circle_bbox c) p = true.
Proof.
  intros [_ Hd] H. destruct (Z.eq_dec (c_d c) 0) as [E|E]; [rewrite circle_contains_zero in H by assumption; discriminate|].
  rewrite circle_contains_arith in H by lia. apply Z.ltb_lt in H.
  pose proof (threshold_le_sq (c_d c) ltac:(lia)) as Ht.
  rewrite contains_spec. unfold circle_bbox. cbn [tl sz sw sh].
  set (a := 2 * px p - (2 * px (c_tl c) + c_d c - 1)) in *.
  set (b := 2 * py p - (2 * py (c_tl c) + c_d c - 1)) in *.
  assert (a * a < c_d c * c_d c) as Ha by nia.
  assert (b * b < c_d c * c_d c) as Hb by nia.
  apply sq_lt_abs in Ha; [|lia]. apply sq_lt_abs in Hb; [|lia]. subst a b. lia.
Qed.

(* ---- the row predicate: symmetric, convex, and hit in every row -------------------------- *)
Lemma circle_row_sym cx cy thr y a b : a + b - 1 = cx -> row_sym (circle_row_pred (P cx cy) thr y) a b.
Proof.
  intros E x _. unfold circle_row_pred, length_squared, psub. cbn [px py]. f_equal. subst cx. ring.
Qed.

Lemma circle_row_convex cx cy thr y a b : row_convex (circle_row_pred (P cx cy) thr y) a b.
Proof.
  intros x v z _ Hv _. unfold circle_row_pred, length_squared, psub. cbn [px py]. rewrite !Z.ltb_lt.
  set (e := (y * 2 - cy) * (y * 2 - cy)). intros H1 H2.
  destruct (sq_between (x * 2 - cx) (v * 2 - cx) (z * 2 - cx) ltac:(lia)); lia.
Qed.

Lemma circle_every_row_hit c y :
  1 <= c_d c -> py (c_tl c) <= y < py (c_tl c) + c_d c ->
  exists x, px (c_tl c) <= x < px (c_tl c) + c_d c /\
            circle_row_pred (circle_center_2x c) (circle_threshold c) y x = true.
Proof.
  intros Hd Hy. exists (px (c_tl c) + (c_d c - 1) / 2). split; [lia|].
  rewrite circle_row_pred_contains, circle_contains_arith by assumption. cbn [px py]. apply Z.ltb_lt.
  pose proof (threshold_gt (c_d c) Hd) as Ht.
  set (dx := 2 * (px (c_tl c) + (c_d c - 1) / 2) - (2 * px (c_tl c) + c_d c - 1)).
  set (dy := 2 * y - (2 * py (c_tl c) + c_d c - 1)).
  assert (dx * dx <= (if Z.even (c_d c) then 1 else 0)) as Hx.
  { subst dx. destruct (Z.even (c_d c)) eqn:E.
    - assert (-1 <= 2 * (px (c_tl c) + (c_d c - 1) / 2) - (2 * px (c_tl c) + c_d c - 1) <= 0) by lia. nia.
    - rewrite <- Z.negb_odd in E. apply negb_false_iff in E. apply Z.odd_spec in E. destruct E as [k E].
      assert (2 * (px (c_tl c) + (c_d c - 1) / 2) - (2 * px (c_tl c) + c_d c - 1) = 0) by lia. nia. }
  assert (dy * dy <= (c_d c - 1) * (c_d c - 1)) as Hy2 by (apply abs_le_sq; subst dy; lia).
  lia.
Qed.

(* ---- points() --------------------------------------------------------------------------- *)
Theorem circle_points_spec c :
  circle_ok c -> circle_points c = filter (circle_contains c) (box_points (circle_bbox c)).
Proof.
  intros Hok. pose proof (circle_bbox_ok c Hok) as Hbb.
  unfold circle_points, circle_scanlines, box_points.
  destruct (rows_columns_spec _ Hbb) as [-> ->]. unfold circle_bbox. cbn [tl sz sw sh].
  rewrite scan_rows_points.
  - rewrite filter_row_major. apply flat_map_ext_in. intros y _. f_equal.
    apply filter_ext_in'. intros x _. apply circle_row_pred_contains.
  - intros y Hy. apply In_range in Hy. destruct Hok as [_ Hd].
    unfold circle_center_2x, sat_sub_u32. rewrite Z.max_l by lia. split.
    + apply circle_row_sym. cbn [px]. lia.
    + apply circle_row_convex.
  - intros _ y Hy. apply In_range in Hy. apply circle_every_row_hit; lia.
Qed.

(* ---- what "= filter contains (row-major box)" gives: each once, row-major, exactly the accepted points ---- *)
From Coq Require Import Sorting.Sorted.

Lemma filter_strongly_sorted {A} (R : A -> A -> Prop) (f : A -> bool) l :
  StronglySorted R l -> StronglySorted R (filter f l).
Proof.
  induction 1 as [|a l Hs IH Hall]; cbn [filter]; [constructor|].
  destruct (f a); [|assumption]. constructor; [assumption|].
  rewrite Forall_forall in *. intros x Hx. apply filter_In in Hx. apply Hall, Hx.
Qed.

Theorem filter_box_sorted (f : point -> bool) r : StronglySorted lt_yx (filter f (box_points r)).
Proof. apply filter_strongly_sorted, row_major_sorted. Qed.

Theorem filter_box_nodup (f : point -> bool) r : NoDup (filter f (box_points r)).
Proof. apply lt_yx_irrefl_sorted, filter_box_sorted. Qed.

Theorem filter_box_in (f : point -> bool) r p :
  (f p = true -> contains r p = true) -> (In p (filter f (box_points r)) <-> f p = true).
Proof. intros H. rewrite filter_In, In_box_points. tauto. Qed.

Theorem circle_points_in c p : circle_ok c -> (In p (circle_points c) <-> circle_contains c p = true).
Proof.
  intros H. rewrite circle_points_spec by assumption. apply filter_box_in, circle_contains_in_bbox, H.
Qed.
