(* Machine ranges of Circle::contains / Ellipse::contains and of the scanline iterators: the exact condition under
   which every intermediate result fits its Rust type (so the unbounded model IS the machine computation), simple
   sufficient conditions, and the C05 / C18 statements restricted to that range. *)
From EG Require Import Base.Prelude Base.Lemmas Model.Geometry Model.Style Model.Circle Model.Ellipse
  Proofs.Geometry Proofs.Scanline Proofs.Circle Proofs.Ellipse Proofs.Curvefacts.
From Coq Require Import ZifyBool.

Ltac Zify.zify_post_hook ::= Z.to_euclidean_division_equations.
Set Default Timeout 60.

(* ---- circle ---- *)
(* a probe point for which contains() neither panics (overflow checks) nor wraps (release): by definition the exact bound *)
Definition probe_ok (c : circle) (p : point) : Prop := circle_contains_fits c p = true.

(* shapes whose own points() / draw() only make such probes: diameter <= 2^15 (2*(d-1)^2 <= i32::MAX) *)
Definition circle_mok (c : circle) : Prop := circle_ok c /\ c_d c <= 32768.

(* the doubled squared distance the code computes *)
Definition cdist2m (c : circle) (p : point) : Z :=
  length_squared (psub (circle_center_2x c) (P (px p * 2) (py p * 2))).

Lemma sq_le_bound a m : 0 <= m -> a * a <= m * m -> - m <= a <= m.
Proof. intros Hm H. split; destruct (Z_le_gt_dec 0 a); nia. Qed.

(* exact characterisation: for a circle in range with d < 2^16, a probe is fine iff 4*dist^2 fits i32 *)
Theorem probe_ok_iff c p :
  circle_ok c -> c_d c <= 65535 -> (probe_ok c p <-> cdist2m c p <= i32_max).
Proof.
  intros [[Hx Hy] Hd] Hd2. unfold probe_ok, circle_contains_fits, cdist2m, length_squared, psub, circle_center_2x,
    in_i32, in_u32, i32_max, i32_min, u32_max, sat_sub_u32, bound in *. cbn [px py].
  set (cx := px (c_tl c) * 2 + Z.max (c_d c - 1) 0). set (cy := py (c_tl c) * 2 + Z.max (c_d c - 1) 0).
  set (dx := cx - px p * 2). set (dy := cy - py p * 2).
  pose proof (Z.square_nonneg dx). pose proof (Z.square_nonneg dy).
  assert (c_d c * c_d c <= 65535 * 65535) by nia.
  split.
  - intros Hf. lia.
  - intros Hf.
    assert (- 46341 <= dx <= 46341) by (apply (sq_le_bound dx 46341); nia).
    assert (- 46341 <= dy <= 46341) by (apply (sq_le_bound dy 46341); nia).
    subst dx dy cx cy. lia.
Qed.

Theorem circle_box_probe_ok c p : circle_mok c -> contains (circle_bbox c) p = true -> probe_ok c p.
Proof.
  intros [Hok Hd] Hin. apply probe_ok_iff; [assumption|lia|].
  apply contains_spec in Hin. unfold circle_bbox in Hin. cbn [tl sz sw sh] in Hin.
  destruct Hok as [_ Hd0].
  unfold cdist2m, length_squared, psub, circle_center_2x, sat_sub_u32, i32_max. cbn [px py].
  rewrite Z.max_l by lia.
  set (dx := px (c_tl c) * 2 + (c_d c - 1) - px p * 2). set (dy := py (c_tl c) * 2 + (c_d c - 1) - py p * 2).
  assert (dx * dx <= 32767 * 32767) by (apply abs_le_sq; subst dx; lia).
  assert (dy * dy <= 32767 * 32767) by (apply abs_le_sq; subst dy; lia). lia.
Qed.

Theorem circle_checked_agrees c p : probe_ok c p -> circle_contains_checked c p = Some (circle_contains c p).
Proof. unfold probe_ok, circle_contains_checked. intros ->. reflexivity. Qed.

(* the release build's wrap-around made visible: 4*dist^2 = 2^32 + 121 does not fit, the low 32 bits are below the threshold *)
Example circle_far_probe_not_ok :
  circle_contains_checked (Circ (P 0 0) 11) (P 32773 5) = None /\ circle_contains (Circ (P 0 0) 11) (P 32773 5) = false.
Proof. split; reflexivity. Qed.

(* C05 / C18 statements with the range made explicit *)
Theorem circle_contains_in_bbox_m c p :
  circle_mok c -> probe_ok c p -> circle_contains c p = true -> contains (circle_bbox c) p = true.
Proof. intros [H _] _. apply circle_contains_in_bbox, H. Qed.

Theorem circle_points_in_m c p :
  circle_mok c -> probe_ok c p -> (In p (circle_points c) <-> circle_contains c p = true).
Proof. intros [H _] _. apply circle_points_in, H. Qed.

Theorem circle_points_spec_m c :
  circle_mok c -> circle_points c = filter (circle_contains c) (box_points (circle_bbox c)).
Proof. intros [H _]. apply circle_points_spec, H. Qed.

(* every point points() yields and every point it tests lies in the box, hence is probed without overflow *)
Theorem circle_points_probes_ok c p : circle_mok c -> In p (box_points (circle_bbox c)) -> probe_ok c p.
Proof. intros H Hin. apply circle_box_probe_ok; [assumption|]. apply In_box_points, Hin. Qed.

Theorem circle_band_m c p :
  circle_mok c -> probe_ok c p -> 1 <= c_d c ->
  (circle_contains c p = true -> cdist2 c p < (c_d c + 1) * (c_d c + 1)) /\
  (cdist2 c p < (c_d c - 1) * (c_d c - 1) -> circle_contains c p = true).
Proof. intros _ _. apply circle_band. Qed.

(* ---- ellipse ---- *)
Definition eprobe_ok (e : ellipse) (p : point) : Prop := ellipse_contains_fits e p = true.

(* shapes whose own points() / draw() only make such probes: w*h <= 2^31 *)
Definition ellipse_mok (e : ellipse) : Prop := ellipse_ok e /\ sw (e_sz e) * sh (e_sz e) <= 2147483648.

Theorem ellipse_checked_agrees e p : eprobe_ok e p -> ellipse_contains_checked e p = Some (ellipse_contains e p).
Proof. unfold eprobe_ok, ellipse_contains_checked. intros ->. reflexivity. Qed.

Lemma u64_products w h X Y :
  1 <= w -> 1 <= h -> w * h <= 2147483648 -> 0 <= X <= (w - 1) * (w - 1) -> 0 <= Y <= (h - 1) * (h - 1) ->
  let a := w * w in let b := h * h in
  0 <= a <= 18446744073709551615 /\ 0 <= b <= 18446744073709551615 /\ 0 <= b * a <= 18446744073709551615 /\
  0 <= X + Y <= 18446744073709551615 /\ 0 <= b * X <= 18446744073709551615 /\ 0 <= a * Y <= 18446744073709551615 /\
  0 <= b * X + a * Y <= 18446744073709551615 /\ (w = h -> w * w <= 4294967295).
Proof.
  intros Hw Hh Hwh HX HY a b.
  assert (0 <= a /\ 0 <= b) as [Ha Hb] by (subst a b; nia).
  assert (b * a = (w * h) * (w * h)) as Eba by (subst a b; ring).
  assert (0 <= w * h) by nia.
  assert ((w * h) * (w * h) <= 2147483648 * 2147483648) as Hsq by nia.
  assert (X <= a) by (subst a; nia). assert (Y <= b) by (subst b; nia).
  assert (b * X <= b * a) as HbX by (apply Z.mul_le_mono_nonneg_l; assumption).
  assert (a * Y <= a * b) as HaY by (apply Z.mul_le_mono_nonneg_l; assumption).
  assert (a * b = b * a) as Eab by ring.
  assert (0 <= b * X) by (apply Z.mul_nonneg_nonneg; lia). assert (0 <= a * Y) by (apply Z.mul_nonneg_nonneg; lia).
  assert (a <= b * a) by nia. assert (b <= b * a) by nia.
  assert (Hc : w = h -> w * w <= 4294967295) by (intros ->; nia).
  assert (0 <= X /\ 0 <= Y) as [HX0 HY0] by lia.
  clear Hw Hh Hwh HX HY. repeat split; try lia; exact Hc.
Qed.

Theorem ellipse_box_probe_ok e p : ellipse_mok e -> contains (ellipse_bbox e) p = true -> eprobe_ok e p.
Proof.
  intros [[[Hx Hy] [Hw Hh]] Hwh] Hin. apply contains_spec in Hin. unfold ellipse_bbox in Hin. cbn [tl sz] in Hin.
  unfold eprobe_ok, ellipse_contains_fits, in_i32, in_u32, in_u64, i32_max, i32_min, u32_max, sat_sub_u32, bound in *.
  set (w := sw (e_sz e)) in *. set (h := sh (e_sz e)) in *.
  assert (1 <= w) as Hw1 by lia. assert (1 <= h) as Hh1 by lia.
  rewrite !Z.max_l by lia.
  set (dx := px p * 2 - (px (e_tl e) * 2 + (w - 1))). set (dy := py p * 2 - (py (e_tl e) * 2 + (h - 1))).
  assert (- (w - 1) <= dx <= w - 1) as Hdx by (subst dx; lia).
  assert (- (h - 1) <= dy <= h - 1) as Hdy by (subst dy; lia).
  assert (0 <= dx * dx <= (w - 1) * (w - 1)) as HX by (split; [apply Z.square_nonneg|apply abs_le_sq; lia]).
  assert (0 <= dy * dy <= (h - 1) * (h - 1)) as HY by (split; [apply Z.square_nonneg|apply abs_le_sq; lia]).
  pose proof (u64_products w h _ _ Hw1 Hh1 Hwh HX HY) as U. cbv zeta in U.
  destruct U as (U1 & U2 & U3 & U4 & U5 & U6 & U7 & U8).
  rewrite !andb_true_iff. repeat split; try (clear U1 U2 U3 U4 U5 U6 U7 U8 HX HY; lia).
  all: try lia.
  - destruct (w =? h) eqn:E; [apply Z.eqb_eq in E; specialize (U8 E)|]; lia.
  - destruct (w * w =? h * h); lia.
Qed.

Theorem ellipse_contains_in_bbox_m e p :
  ellipse_mok e -> eprobe_ok e p -> ellipse_contains e p = true -> contains (ellipse_bbox e) p = true.
Proof. intros [H _] _. apply ellipse_contains_in_bbox, H. Qed.

Theorem ellipse_points_in_m e p :
  ellipse_mok e -> eprobe_ok e p -> (In p (ellipse_points e) <-> ellipse_contains e p = true).
Proof. intros [H _] _. apply ellipse_points_in, H. Qed.

Theorem ellipse_points_spec_m e :
  ellipse_mok e -> ellipse_points e = filter (ellipse_contains e) (box_points (ellipse_bbox e)).
Proof. intros [H _]. apply ellipse_points_spec, H. Qed.

Theorem ellipse_points_probes_ok e p : ellipse_mok e -> In p (box_points (ellipse_bbox e)) -> eprobe_ok e p.
Proof. intros H Hin. apply ellipse_box_probe_ok; [assumption|]. apply In_box_points, Hin. Qed.

Theorem ellipse_band_m e p :
  ellipse_mok e -> eprobe_ok e p -> 1 <= sw (e_sz e) -> 1 <= sh (e_sz e) ->
  (ellipse_contains e p = true -> ideal_in (sw (e_sz e) + 1) (sh (e_sz e) + 1) (eX e p) (eY e p)) /\
  (ideal_in (sw (e_sz e) - 1) (sh (e_sz e) - 1) (eX e p) (eY e p) -> ellipse_contains e p = true).
Proof. intros _ _. apply ellipse_band_contains. Qed.

(* ---- remaining C18 statements on the machine range ---- *)
Lemma cdist2m_mirror_x c p : 1 <= c_d c -> cdist2m c (mirror_x (px (c_tl c)) (c_d c) p) = cdist2m c p.
Proof.
  intros Hd. unfold cdist2m, length_squared, psub, circle_center_2x, mirror_x, sat_sub_u32. cbn [px py].
  rewrite Z.max_l by lia. ring.
Qed.

Lemma cdist2m_mirror_y c p : 1 <= c_d c -> cdist2m c (mirror_y (py (c_tl c)) (c_d c) p) = cdist2m c p.
Proof.
  intros Hd. unfold cdist2m, length_squared, psub, circle_center_2x, mirror_y, sat_sub_u32. cbn [px py].
  rewrite Z.max_l by lia. ring.
Qed.

Theorem circle_sym_x_m c p :
  circle_mok c -> probe_ok c p -> 1 <= c_d c ->
  probe_ok c (mirror_x (px (c_tl c)) (c_d c) p) /\
  circle_contains c (mirror_x (px (c_tl c)) (c_d c) p) = circle_contains c p.
Proof.
  intros [Hok Hd] Hp Hd1. split; [|apply circle_sym_x, Hd1].
  apply probe_ok_iff; [assumption|lia|]. rewrite cdist2m_mirror_x by assumption. apply probe_ok_iff in Hp; [assumption|assumption|lia].
Qed.

Theorem circle_sym_y_m c p :
  circle_mok c -> probe_ok c p -> 1 <= c_d c ->
  probe_ok c (mirror_y (py (c_tl c)) (c_d c) p) /\
  circle_contains c (mirror_y (py (c_tl c)) (c_d c) p) = circle_contains c p.
Proof.
  intros [Hok Hd] Hp Hd1. split; [|apply circle_sym_y, Hd1].
  apply probe_ok_iff; [assumption|lia|]. rewrite cdist2m_mirror_y by assumption. apply probe_ok_iff in Hp; [assumption|assumption|lia].
Qed.

Theorem circle_row_contiguous_m c y x1 x2 x3 :
  circle_mok c -> probe_ok c (P x1 y) -> probe_ok c (P x3 y) ->
  x1 <= x2 <= x3 -> circle_contains c (P x1 y) = true -> circle_contains c (P x3 y) = true ->
  probe_ok c (P x2 y) /\ circle_contains c (P x2 y) = true.
Proof.
  intros [Hok Hd] H1 H3 Hx C1 C3. split; [|eapply circle_row_contiguous; eassumption].
  apply circle_box_probe_ok; [split; assumption|].
  apply circle_contains_in_bbox in C1, C3; try assumption. rewrite contains_spec in *. cbn [px py] in *. lia.
Qed.

Theorem circle_col_contiguous_m c x y1 y2 y3 :
  circle_mok c -> probe_ok c (P x y1) -> probe_ok c (P x y3) ->
  y1 <= y2 <= y3 -> circle_contains c (P x y1) = true -> circle_contains c (P x y3) = true ->
  probe_ok c (P x y2) /\ circle_contains c (P x y2) = true.
Proof.
  intros [Hok Hd] H1 H3 Hy C1 C3. split; [|eapply circle_col_contiguous; eassumption].
  apply circle_box_probe_ok; [split; assumption|].
  apply circle_contains_in_bbox in C1, C3; try assumption. rewrite contains_spec in *. cbn [px py] in *. lia.
Qed.

Theorem circle_touches_box_m c :
  circle_mok c -> 1 <= c_d c ->
  let x0 := px (c_tl c) in let y0 := py (c_tl c) in let d := c_d c in
  (exists x, x0 <= x < x0 + d /\ circle_contains c (P x y0) = true) /\
  (exists x, x0 <= x < x0 + d /\ circle_contains c (P x (y0 + d - 1)) = true) /\
  (exists y, y0 <= y < y0 + d /\ circle_contains c (P x0 y) = true) /\
  (exists y, y0 <= y < y0 + d /\ circle_contains c (P (x0 + d - 1) y) = true).
Proof. intros [H _]. apply circle_touches_box, H. Qed.

Theorem circle_eq_ellipse_m c p :
  circle_mok c -> probe_ok c p -> eprobe_ok (circle_as_ellipse c) p ->
  ellipse_contains (circle_as_ellipse c) p = circle_contains c p.
Proof. intros _ _ _. apply circle_eq_ellipse. Qed.

Theorem circle_points_eq_ellipse_m c : circle_mok c -> ellipse_points (circle_as_ellipse c) = circle_points c.
Proof. intros [H _]. apply circle_points_eq_ellipse, H. Qed.

(* the equal-axes ellipse of a circle in range is in range (d*d <= 2^30) *)
Theorem circle_as_ellipse_mok c : circle_mok c -> ellipse_mok (circle_as_ellipse c).
Proof.
  intros [[Hp Hd] Hd2]. unfold ellipse_mok, ellipse_ok, circle_as_ellipse, size_ok. cbn [e_tl e_sz sw sh].
  split; [split; [exact Hp|split; exact Hd]|nia].
Qed.

Theorem ellipse_sym_x_m e p :
  ellipse_mok e -> eprobe_ok e p -> 1 <= sw (e_sz e) -> 1 <= sh (e_sz e) ->
  ellipse_contains e (mirror_x (px (e_tl e)) (sw (e_sz e)) p) = ellipse_contains e p.
Proof. intros _ _. apply ellipse_sym_x. Qed.

Theorem ellipse_sym_y_m e p :
  ellipse_mok e -> eprobe_ok e p -> 1 <= sw (e_sz e) -> 1 <= sh (e_sz e) ->
  ellipse_contains e (mirror_y (py (e_tl e)) (sh (e_sz e)) p) = ellipse_contains e p.
Proof. intros _ _. apply ellipse_sym_y. Qed.

Theorem ellipse_row_contiguous_m e y x1 x2 x3 :
  ellipse_mok e -> eprobe_ok e (P x1 y) -> eprobe_ok e (P x3 y) ->
  x1 <= x2 <= x3 -> ellipse_contains e (P x1 y) = true -> ellipse_contains e (P x3 y) = true ->
  eprobe_ok e (P x2 y) /\ ellipse_contains e (P x2 y) = true.
Proof.
  intros [Hok Hwh] H1 H3 Hx C1 C3. split; [|eapply ellipse_row_contiguous; eassumption].
  apply ellipse_box_probe_ok; [split; assumption|].
  apply ellipse_contains_in_bbox in C1, C3; try assumption. rewrite contains_spec in *. cbn [px py] in *. lia.
Qed.

Theorem ellipse_col_contiguous_m e x y1 y2 y3 :
  ellipse_mok e -> eprobe_ok e (P x y1) -> eprobe_ok e (P x y3) ->
  y1 <= y2 <= y3 -> ellipse_contains e (P x y1) = true -> ellipse_contains e (P x y3) = true ->
  eprobe_ok e (P x y2) /\ ellipse_contains e (P x y2) = true.
Proof.
  intros [Hok Hwh] H1 H3 Hy C1 C3. split; [|eapply ellipse_col_contiguous; eassumption].
  apply ellipse_box_probe_ok; [split; assumption|].
  apply ellipse_contains_in_bbox in C1, C3; try assumption. rewrite contains_spec in *. cbn [px py] in *. lia.
Qed.

(* degenerate sizes: nothing is accepted (so the band / symmetry clauses are about the empty set) *)
Theorem circle_zero_empty c p : c_d c = 0 -> circle_contains c p = false.
Proof. apply circle_contains_zero. Qed.

(* ---- styled shapes: when the stroke area is in the machine range, so is everything draw() / pixels() compute ---- *)
From EG Require Import Proofs.Circlestyled Proofs.Ellipsestyled.

Theorem circle_styled_machine_ok c st :
  circle_sok c -> style_ok st -> c_d c + 2 * stroke_width st <= 32768 ->
  circle_mok (circle_stroke_area c st) /\ circle_mok (circle_fill_area c st).
Proof.
  intros Hc Hs Hr. destruct (circle_areas c st Hc Hs) as (HA & HB & _).
  destruct (offsets_range st Hs) as (E1 & R1 & R2 & E2). destruct (stroke_split st Hs) as [Hsum _].
  pose proof Hc as [_ Hd]. unfold circle_stroke_area, circle_fill_area, circle_mok.
  split; (split; [assumption|]); rewrite !circle_offset_d, ?E1, ?E2.
  - unfold u32_max, sbound in *. destruct (0 <=? outside_stroke_width st) eqn:E; lia.
  - unfold u32_max, sbound in *. destruct (stroke_kind st);
      match goal with |- context [0 <=? ?n] => destruct (0 <=? n) eqn:E end; lia.
Qed.

Theorem ellipse_styled_machine_ok e st :
  ellipse_sok e -> style_ok st ->
  (sw (e_sz e) + 2 * stroke_width st) * (sh (e_sz e) + 2 * stroke_width st) <= 2147483648 ->
  ellipse_mok (ellipse_stroke_area e st) /\ ellipse_mok (ellipse_fill_area e st).
Proof.
  intros He Hs Hr. destruct (ellipse_areas e st He Hs) as (HA & HB & _).
  destruct (offsets_range st Hs) as (E1 & R1 & R2 & E2). destruct (stroke_split st Hs) as [Hsum _].
  pose proof He as [_ [Hw Hh]]. unfold ellipse_stroke_area, ellipse_fill_area, ellipse_mok.
  unfold style_ok in Hs.
  split; (split; [assumption|]); rewrite !ellipse_offset_w, !ellipse_offset_h, ?E1, ?E2;
  set (w := sw (e_sz e)) in *; set (h := sh (e_sz e)) in *; set (W := stroke_width st) in *;
  set (out := outside_stroke_width st) in *; set (ins := inside_stroke_width st) in *; clearbody w h W out ins.
  - unfold u32_max, sbound in *. destruct (0 <=? out) eqn:E; [|lia].
    rewrite !Z.min_l by lia. assert (w + 2 * out <= w + 2 * W) by lia. assert (h + 2 * out <= h + 2 * W) by lia. nia.
  - unfold u32_max, sbound in *.
    assert (0 <= W * (w + h) /\ 0 <= W * W) as [? ?] by (split; apply Z.mul_nonneg_nonneg; lia).
    assert ((w + 2 * W) * (h + 2 * W) = w * h + 2 * (W * (w + h)) + 4 * (W * W)) as Ering by ring.
    assert (w * h <= 2147483648) by lia.
    destruct (stroke_kind st); match goal with |- context [0 <=? ?n] => destruct (0 <=? n) eqn:E end;
      rewrite ?Z.min_l by lia; try lia.
Qed.
