(* Cross-cutting facts for the families rectangle / circle / ellipse:
   C01(b) pixels() and draw() give the same pixel map; C02 everything drawn lies in the styled bounding box and
   transparent styles draw nothing; C07 contains / points / draw commute with translation. *)
From EG Require Import Base.Prelude Base.Lemmas Model.Geometry Model.Style Model.Circle Model.Ellipse Model.Styledrect
  Proofs.Geometry Proofs.Scanline Proofs.Circle Proofs.Ellipse Proofs.Circlestyled Proofs.Ellipsestyled Proofs.Styledrect.
From Coq Require Import ZifyBool.

Ltac Zify.zify_post_hook ::= Z.to_euclidean_division_equations.
Set Default Timeout 60.

(* ================= C01(b): pixels() vs draw() ================= *)
Theorem rect_pixels_draw r st p :
  rect_sok r -> style_ok st -> stroke_kind st = Solid ->
  last_write (rect_styled_pixels r st) p = render (rect_draw_styled r st) p.
Proof. intros. rewrite rect_pixels_spec, rect_styled_spec by assumption. reflexivity. Qed.

Theorem circle_pixels_draw c st p :
  circle_sok c -> style_ok st -> last_write (circle_styled_pixels c st) p = render (circle_draw_styled c st) p.
Proof. intros. rewrite circle_pixels_spec, circle_styled_spec by assumption. reflexivity. Qed.

Theorem ellipse_pixels_draw e st p :
  ellipse_sok e -> style_ok st -> last_write (ellipse_styled_pixels e st) p = render (ellipse_draw_styled e st) p.
Proof. intros. rewrite ellipse_pixels_spec, ellipse_styled_spec by assumption. reflexivity. Qed.

(* ================= C02: styled bounding box ================= *)
Lemma styled_map_some F S st p : styled_map F S st p <> None -> F p = true \/ S p = true.
Proof.
  unfold styled_map. destruct (F p); [left; reflexivity|]. destruct (S p); [right; reflexivity|]. cbn. congruence.
Qed.

Lemma circle_bbox_offset c n : circle_bbox (circle_offset c n) = offset (circle_bbox c) n.
Proof.
  unfold circle_bbox, circle_offset, circle_with_center, circle_center, offset, with_center, size_sat_add, size_sat_sub.
  cbn [tl sz sw sh c_tl c_d]. replace (n * 2) with (2 * n) by ring. replace (- n * 2) with (2 * - n) by ring.
  destruct (0 <=? n); reflexivity.
Qed.

Lemma ellipse_bbox_offset e n : ellipse_bbox (ellipse_offset e n) = offset (ellipse_bbox e) n.
Proof.
  unfold ellipse_bbox, ellipse_offset, ellipse_with_center, ellipse_center, offset, with_center.
  cbn [tl sz sw sh e_tl e_sz]. replace (n * 2) with (2 * n) by ring. replace (- n * 2) with (2 * - n) by ring.
  destruct (0 <=? n); reflexivity.
Qed.

(* the styled bounding box is the bounding box of the stroke area *)
Theorem circle_stroke_area_bbox c st : circle_bbox (circle_stroke_area c st) = circle_styled_bbox c st.
Proof. unfold circle_stroke_area, circle_styled_bbox, stroke_area_offset. apply circle_bbox_offset. Qed.

Theorem ellipse_stroke_area_bbox e st : ellipse_bbox (ellipse_stroke_area e st) = ellipse_styled_bbox e st.
Proof. unfold ellipse_stroke_area, ellipse_styled_bbox, stroke_area_offset. apply ellipse_bbox_offset. Qed.

Theorem rect_stroke_area_bbox r st : rect_bbox (rect_stroke_area r st) = rect_styled_bbox r st.
Proof. reflexivity. Qed.

Theorem circle_drawn_in_bbox c st p :
  circle_sok c -> style_ok st ->
  render (circle_draw_styled c st) p <> None -> contains (circle_styled_bbox c st) p = true.
Proof.
  intros Hc Hs. rewrite circle_styled_spec by assumption. destruct (circle_areas c st Hc Hs) as (HA & HB & Hcc).
  intros H. rewrite <- circle_stroke_area_bbox. apply circle_contains_in_bbox; [assumption|].
  apply styled_map_some in H. destruct H as [H|H]; [|exact H]. apply (concentric_sub _ _ p Hcc H).
Qed.

Theorem ellipse_drawn_in_bbox e st p :
  ellipse_sok e -> style_ok st ->
  render (ellipse_draw_styled e st) p <> None -> contains (ellipse_styled_bbox e st) p = true.
Proof.
  intros He Hs. rewrite ellipse_styled_spec by assumption. destruct (ellipse_areas e st He Hs) as (HA & HB & Hcc).
  intros H. rewrite <- ellipse_stroke_area_bbox. apply ellipse_contains_in_bbox; [assumption|].
  apply styled_map_some in H. destruct H as [H|H]; [|exact H]. apply (econcentric_sub _ _ p HA HB Hcc H).
Qed.

Theorem rect_drawn_in_bbox r st p :
  rect_sok r -> style_ok st -> stroke_kind st = Solid ->
  render (rect_draw_styled r st) p <> None -> contains (rect_styled_bbox r st) p = true.
Proof.
  intros Hr Hs Hk. rewrite rect_styled_spec by assumption. intros H.
  apply styled_map_some in H. destruct H as [H|H]; [|exact H]. apply (rect_fill_sub_stroke r st p Hr Hs Hk H).
Qed.

(* the same for the items of pixels() *)
Lemma last_write_in ws (p : point) (c : Z) : In (p, c) ws -> last_write ws p <> None.
Proof.
  intros Hin. unfold last_write.
  destruct (fold_pick_cases (fun qc : point * Z => point_eqb (fst qc) p) snd ws) as [[H1 H2]|(a & H1 & H2 & H3)]; cbn zeta in *.
  - specialize (H2 _ Hin). cbn [fst] in H2. unfold point_eqb in H2. lia.
  - rewrite H3. discriminate.
Qed.

Theorem circle_pixels_in_bbox c st p col :
  circle_sok c -> style_ok st -> In (p, col) (circle_styled_pixels c st) -> contains (circle_styled_bbox c st) p = true.
Proof.
  intros Hc Hs Hin. apply circle_drawn_in_bbox; try assumption. rewrite <- circle_pixels_draw by assumption.
  eapply last_write_in, Hin.
Qed.

Theorem ellipse_pixels_in_bbox e st p col :
  ellipse_sok e -> style_ok st -> In (p, col) (ellipse_styled_pixels e st) -> contains (ellipse_styled_bbox e st) p = true.
Proof.
  intros He Hs Hin. apply ellipse_drawn_in_bbox; try assumption. rewrite <- ellipse_pixels_draw by assumption.
  eapply last_write_in, Hin.
Qed.

Theorem rect_pixels_in_bbox r st p col :
  rect_sok r -> style_ok st -> stroke_kind st = Solid ->
  In (p, col) (rect_styled_pixels r st) -> contains (rect_styled_bbox r st) p = true.
Proof.
  intros Hr Hs Hk Hin. apply rect_drawn_in_bbox; try assumption. rewrite <- rect_pixels_draw by assumption.
  eapply last_write_in, Hin.
Qed.

(* transparent styles: draw() issues no call at all, pixels() yields nothing *)
Lemma transparent_colors st :
  is_transparent st = true -> effective_stroke_color st = None /\ fill_color st = None.
Proof.
  unfold is_transparent, effective_stroke_color. destruct (fill_color st); [rewrite andb_false_r; discriminate|].
  destruct (stroke_color st); [|split; reflexivity]. cbn [orb andb]. rewrite andb_true_r. intros H.
  assert ((0 <? stroke_width st) = false) as -> by lia. split; reflexivity.
Qed.

Theorem circle_transparent c st : is_transparent st = true -> circle_draw_styled c st = [].
Proof. intros H. destruct (transparent_colors st H) as [E1 E2]. unfold circle_draw_styled. rewrite E1, E2. reflexivity. Qed.

Theorem ellipse_transparent e st : is_transparent st = true -> ellipse_draw_styled e st = [].
Proof. intros H. destruct (transparent_colors st H) as [E1 E2]. unfold ellipse_draw_styled. rewrite E1, E2. reflexivity. Qed.

Theorem rect_transparent r st : is_transparent st = true -> rect_draw_styled r st = [].
Proof. intros H. destruct (transparent_colors st H) as [E1 E2]. unfold rect_draw_styled. rewrite E1, E2. reflexivity. Qed.

Lemma no_writes_nil (ws : list (point * Z)) : (forall p, last_write ws p = None) -> ws = [].
Proof.
  destruct ws as [|[p c] t]; [reflexivity|]. intros H. exfalso.
  apply (last_write_in ((p, c) :: t) p c); [left; reflexivity|apply H].
Qed.

Lemma styled_map_transparent F S st p : is_transparent st = true -> styled_map F S st p = None.
Proof.
  intros H. destruct (transparent_colors st H) as [E1 E2]. unfold styled_map, effective_stroke_color in *. rewrite E2.
  destruct (F p); [reflexivity|]. destruct (stroke_color st); [|destruct (_ && _); reflexivity].
  destruct (0 <? stroke_width st); [discriminate|]. rewrite andb_false_r. reflexivity.
Qed.

Theorem circle_pixels_transparent c st :
  circle_sok c -> style_ok st -> is_transparent st = true -> circle_styled_pixels c st = [].
Proof.
  intros Hc Hs H. apply no_writes_nil. intros p. rewrite circle_pixels_spec by assumption. apply styled_map_transparent, H.
Qed.

Theorem ellipse_pixels_transparent e st :
  ellipse_sok e -> style_ok st -> is_transparent st = true -> ellipse_styled_pixels e st = [].
Proof.
  intros He Hs H. apply no_writes_nil. intros p. rewrite ellipse_pixels_spec by assumption. apply styled_map_transparent, H.
Qed.

Theorem rect_pixels_transparent r st : is_transparent st = true -> rect_styled_pixels r st = [].
Proof. intros H. unfold rect_styled_pixels. rewrite H. reflexivity. Qed.

(* ================= C07: translation ================= *)
(* circle/mod.rs Transform::translate, ellipse/mod.rs Transform::translate: only the top-left corner moves *)
Definition circle_translate (c : circle) (d : point) : circle := Circ (padd (c_tl c) d) (c_d c).
Definition ellipse_translate (e : ellipse) (d : point) : ellipse := Ell (padd (e_tl e) d) (e_sz e).

Theorem circle_contains_translate c d p : circle_contains (circle_translate c d) (padd p d) = circle_contains c p.
Proof.
  unfold circle_contains, circle_translate, circle_center_2x, circle_threshold, length_squared, psub, padd.
  cbn [c_tl c_d px py]. f_equal. ring.
Qed.

Theorem ellipse_contains_translate e d p : ellipse_contains (ellipse_translate e d) (padd p d) = ellipse_contains e p.
Proof.
  unfold ellipse_contains, ellipse_translate, ellipse_center_2x, psub, padd. cbn [e_tl e_sz px py]. f_equal. f_equal; ring.
Qed.

Theorem circle_bbox_translate c d : circle_bbox (circle_translate c d) = translate_rect (circle_bbox c) d.
Proof. reflexivity. Qed.

Theorem ellipse_bbox_translate e d : ellipse_bbox (ellipse_translate e d) = translate_rect (ellipse_bbox e) d.
Proof. reflexivity. Qed.

(* row-major enumeration of a shifted box = shifted enumeration *)
Lemma range_from_shift a k n : range_from (a + k) n = map (fun x => x + k) (range_from a n).
Proof.
  revert a. induction n as [|n IH]; intros a; cbn [range_from map]; [reflexivity|].
  f_equal. replace (a + k + 1) with (a + 1 + k) by ring. apply IH.
Qed.

Lemma range_shift a b k : range (a + k) (b + k) = map (fun x => x + k) (range a b).
Proof. unfold range. replace (b + k - (a + k)) with (b - a) by ring. apply range_from_shift. Qed.

Lemma flat_map_map {A B C} (f : B -> list C) (g : A -> B) l : flat_map f (map g l) = flat_map (fun x => f (g x)) l.
Proof. induction l as [|a l IH]; cbn [map flat_map]; [reflexivity|]. rewrite IH. reflexivity. Qed.

Lemma map_flat_map {A B C} (h : B -> C) (f : A -> list B) l : map h (flat_map f l) = flat_map (fun x => map h (f x)) l.
Proof. induction l as [|a l IH]; cbn [map flat_map]; [reflexivity|]. rewrite map_app, IH. reflexivity. Qed.

Lemma box_points_translate r d : box_points (translate_rect r d) = map (fun p => padd p d) (box_points r).
Proof.
  unfold box_points, translate_rect, row_major, padd. cbn [tl sz px py].
  replace (px (tl r) + px d + sw (sz r)) with (px (tl r) + sw (sz r) + px d) by ring.
  replace (py (tl r) + py d + sh (sz r)) with (py (tl r) + sh (sz r) + py d) by ring.
  rewrite !range_shift, flat_map_map, map_flat_map.
  apply flat_map_ext_in. intros y _. rewrite !map_map. reflexivity.
Qed.

Lemma filter_map_shift (f g : point -> bool) (h : point -> point) l :
  (forall p, f (h p) = g p) -> filter f (map h l) = map h (filter g l).
Proof.
  intros E. induction l as [|a l IH]; cbn [map filter]; [reflexivity|]. rewrite E. destruct (g a); cbn [map]; rewrite IH; reflexivity.
Qed.

Theorem circle_points_translate c d :
  circle_ok c -> circle_ok (circle_translate c d) ->
  circle_points (circle_translate c d) = map (fun p => padd p d) (circle_points c).
Proof.
  intros H1 H2. rewrite !circle_points_spec by assumption. rewrite circle_bbox_translate, box_points_translate.
  apply filter_map_shift. intros p. apply circle_contains_translate.
Qed.

Theorem ellipse_points_translate e d :
  ellipse_ok e -> ellipse_ok (ellipse_translate e d) ->
  ellipse_points (ellipse_translate e d) = map (fun p => padd p d) (ellipse_points e).
Proof.
  intros H1 H2. rewrite !ellipse_points_spec by assumption. rewrite ellipse_bbox_translate, box_points_translate.
  apply filter_map_shift. intros p. apply ellipse_contains_translate.
Qed.

Theorem rect_points_translate r d :
  rect_ok r -> rect_ok (translate_rect r d) -> points (translate_rect r d) = map (fun p => padd p d) (points r).
Proof.
  intros H1 H2. rewrite !rect_points_spec by assumption. unfold rect_bbox. rewrite box_points_translate.
  apply filter_map_shift. intros p. apply contains_translate.
Qed.

(* offsetting commutes with translation (no range hypothesis), hence so do the stroke and fill areas *)
Lemma circle_offset_translate c d n : circle_offset (circle_translate c d) n = circle_translate (circle_offset c n) d.
Proof.
  unfold circle_offset, circle_translate, circle_with_center, circle_center, circle_bbox, with_center, center, psub_size, padd_size, padd.
  cbn [tl sz px py sw sh c_tl c_d]. f_equal. f_equal; ring.
Qed.

Lemma ellipse_offset_translate e d n : ellipse_offset (ellipse_translate e d) n = ellipse_translate (ellipse_offset e n) d.
Proof.
  unfold ellipse_offset, ellipse_translate, ellipse_with_center, ellipse_center, ellipse_bbox, with_center, center, psub_size, padd_size, padd.
  cbn [tl sz px py sw sh e_tl e_sz]. f_equal. f_equal; ring.
Qed.

Lemma rect_offset_translate r d n : offset (translate_rect r d) n = translate_rect (offset r n) d.
Proof.
  unfold offset, translate_rect, with_center, center, psub_size, padd_size, padd. cbn [tl sz px py sw sh].
  f_equal. f_equal; ring.
Qed.

Lemma styled_map_ext F S F' S' st p q :
  F' q = F p -> S' q = S p -> styled_map F' S' st q = styled_map F S st p.
Proof. intros E1 E2. unfold styled_map. rewrite E1, E2. reflexivity. Qed.

Theorem circle_draw_translate c d st p :
  circle_sok c -> circle_sok (circle_translate c d) -> style_ok st ->
  render (circle_draw_styled (circle_translate c d) st) (padd p d) = render (circle_draw_styled c st) p.
Proof.
  intros H1 H2 Hs. rewrite !circle_styled_spec by assumption. unfold circle_fill_area, circle_stroke_area.
  apply styled_map_ext; rewrite circle_offset_translate; apply circle_contains_translate.
Qed.

Theorem circle_pixels_translate c d st p :
  circle_sok c -> circle_sok (circle_translate c d) -> style_ok st ->
  last_write (circle_styled_pixels (circle_translate c d) st) (padd p d) = last_write (circle_styled_pixels c st) p.
Proof. intros H1 H2 Hs. rewrite !circle_pixels_draw by assumption. apply circle_draw_translate; assumption. Qed.

Theorem ellipse_draw_translate e d st p :
  ellipse_sok e -> ellipse_sok (ellipse_translate e d) -> style_ok st ->
  render (ellipse_draw_styled (ellipse_translate e d) st) (padd p d) = render (ellipse_draw_styled e st) p.
Proof.
  intros H1 H2 Hs. rewrite !ellipse_styled_spec by assumption. unfold ellipse_fill_area, ellipse_stroke_area.
  apply styled_map_ext; rewrite ellipse_offset_translate; apply ellipse_contains_translate.
Qed.

Theorem ellipse_pixels_translate e d st p :
  ellipse_sok e -> ellipse_sok (ellipse_translate e d) -> style_ok st ->
  last_write (ellipse_styled_pixels (ellipse_translate e d) st) (padd p d) = last_write (ellipse_styled_pixels e st) p.
Proof. intros H1 H2 Hs. rewrite !ellipse_pixels_draw by assumption. apply ellipse_draw_translate; assumption. Qed.

Theorem rect_draw_translate r d st p :
  rect_sok r -> rect_sok (translate_rect r d) -> style_ok st -> stroke_kind st = Solid ->
  render (rect_draw_styled (translate_rect r d) st) (padd p d) = render (rect_draw_styled r st) p.
Proof.
  intros H1 H2 Hs Hk. rewrite !rect_styled_spec by assumption. unfold rect_fill_area, rect_stroke_area.
  apply styled_map_ext; rewrite rect_offset_translate; apply contains_translate.
Qed.

Theorem rect_pixels_translate r d st p :
  rect_sok r -> rect_sok (translate_rect r d) -> style_ok st -> stroke_kind st = Solid ->
  last_write (rect_styled_pixels (translate_rect r d) st) (padd p d) = last_write (rect_styled_pixels r st) p.
Proof. intros H1 H2 Hs Hk. rewrite !rect_pixels_draw by assumption. apply rect_draw_translate; assumption. Qed.

(* styled bounding boxes move with the shape *)
Theorem circle_styled_bbox_translate c d st :
  circle_styled_bbox (circle_translate c d) st = translate_rect (circle_styled_bbox c st) d.
Proof. unfold circle_styled_bbox. rewrite circle_bbox_translate. apply rect_offset_translate. Qed.

Theorem ellipse_styled_bbox_translate e d st :
  ellipse_styled_bbox (ellipse_translate e d) st = translate_rect (ellipse_styled_bbox e st) d.
Proof. unfold ellipse_styled_bbox. rewrite ellipse_bbox_translate. apply rect_offset_translate. Qed.

Theorem rect_styled_bbox_translate r d st :
  rect_styled_bbox (translate_rect r d) st = translate_rect (rect_styled_bbox r st) d.
Proof. unfold rect_styled_bbox. apply rect_offset_translate. Qed.
