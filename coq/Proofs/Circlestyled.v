(* Proofs about the styled circle of Model/Circle.v (C06, C01(b), C02): stroke and fill follow
   fill_area()/stroke_area(); geometry of the two areas. *)
From EG Require Import Base.Prelude Base.Lemmas Model.Geometry Model.Style Model.Circle
  Proofs.Geometry Proofs.Scanline Proofs.Circle.
From Coq Require Import ZifyBool.

Ltac Zify.zify_post_hook ::= Z.to_euclidean_division_equations.
Set Default Timeout 60.

(* ---- ranges for styled shapes: positions, extents and stroke width within 2^27, so that the stroke area
        (grown by up to the stroke width on every side) stays inside the +-2^29 range of the unstyled lemmas ---- *)
Definition sbound : Z := 134217728. (* 2^27 *)
Definition point_sok (p : point) : Prop := - sbound <= px p <= sbound /\ - sbound <= py p <= sbound.
Definition size_sok (s : size) : Prop := 0 <= sw s <= sbound /\ 0 <= sh s <= sbound.
Definition style_ok (st : style) : Prop := 0 <= stroke_width st <= sbound.
Definition circle_sok (c : circle) : Prop := point_sok (c_tl c) /\ 0 <= c_d c <= sbound.

(* the pixel map the property demands: fill colour on the fill area, stroke colour on the rest of the stroke
   area (if the stroke has a width), nothing elsewhere; a colour that is not set paints nothing *)
Definition styled_map (F S : point -> bool) (st : style) (p : point) : option Z :=
  if F p then fill_color st
  else if S p && (0 <? stroke_width st) then stroke_color st else None.

(* ---- the inside / outside split of the stroke width (primitive_style.rs:86-101) ---------- *)
Theorem stroke_split st :
  style_ok st ->
  inside_stroke_width st + outside_stroke_width st = stroke_width st /\
  match stroke_alignment st with
  | Inside => outside_stroke_width st = 0
  | Outside => inside_stroke_width st = 0
  | Center => outside_stroke_width st <= inside_stroke_width st <= outside_stroke_width st + 1
  end.
Proof.
  unfold style_ok, sbound, inside_stroke_width, outside_stroke_width, sat_add_u32, u32_max.
  intros H. destruct (stroke_alignment st); lia.
Qed.

Lemma offsets_range st :
  style_ok st ->
  stroke_area_offset st = outside_stroke_width st /\ 0 <= outside_stroke_width st <= sbound /\
  0 <= inside_stroke_width st <= sbound /\
  fill_area_offset st = match stroke_kind st with Solid => - inside_stroke_width st | Dotted => 0 end.
Proof.
  unfold style_ok, sbound, stroke_area_offset, fill_area_offset, inside_stroke_width, outside_stroke_width,
    sat_add_u32, sat_u32_to_i32, u32_max, i32_max.
  intros H. destruct (stroke_alignment st), (stroke_kind st); lia.
Qed.

Lemma offsets_zero st : stroke_width st = 0 -> stroke_area_offset st = 0 /\ fill_area_offset st = 0.
Proof.
  unfold stroke_area_offset, fill_area_offset, inside_stroke_width, outside_stroke_width.
  intros ->. destruct (stroke_alignment st), (stroke_kind st); split; reflexivity.
Qed.

(* ---- OffsetOutline for circles (circle/mod.rs:107-117) ----------------------------------- *)
Ltac unf_circ :=
  unfold circle_sok, point_sok, circle_ok, point_ok, bound, sbound, circle_offset, circle_with_center, circle_center,
    circle_center_2x, circle_bbox, with_center, center, center_offset, psub_size, padd_size, size_sat_sub,
    sat_sub_u32, sat_add_u32, u32_max in *;
  cbn [tl sz px py sw sh c_tl c_d] in *.

Lemma circle_offset_d c n :
  c_d (circle_offset c n) = if 0 <=? n then Z.min (c_d c + 2 * n) u32_max else Z.max (c_d c - 2 * (- n)) 0.
Proof. unfold circle_offset, circle_with_center, sat_add_u32, sat_sub_u32. destruct (0 <=? n); reflexivity. Qed.

(* growing a non-degenerate circle: every side moves out by n *)
Theorem circle_offset_grow c n :
  circle_ok c -> 1 <= c_d c -> 0 <= n <= bound ->
  circle_offset c n = Circ (P (px (c_tl c) - n) (py (c_tl c) - n)) (c_d c + 2 * n).
Proof.
  intros Hc Hd Hn. destruct c as [[x y] d]. unf_circ.
  destruct (0 <=? n) eqn:E; [|lia]. f_equal; [f_equal|]; lia.
Qed.

(* shrinking: every side moves in by n while 2n < d; otherwise the circle collapses to diameter 0 *)
Theorem circle_offset_shrink c n :
  circle_ok c -> 0 < n <= bound ->
  (2 * n < c_d c -> circle_offset c (- n) = Circ (P (px (c_tl c) + n) (py (c_tl c) + n)) (c_d c - 2 * n)) /\
  (c_d c <= 2 * n -> c_d (circle_offset c (- n)) = 0).
Proof.
  intros Hc Hn. destruct c as [[x y] d]. unf_circ.
  destruct (0 <=? - n) eqn:E; [lia|]. split; intros H; [f_equal; [f_equal|]|]; lia.
Qed.

Lemma circle_offset_ok c n : circle_sok c -> - sbound <= n <= sbound -> circle_ok (circle_offset c n).
Proof.
  intros Hc Hn. destruct c as [[x y] d]. unf_circ.
  destruct (0 <=? n) eqn:E; cbn [px py]; lia.
Qed.

(* the doubled centre does not move as long as the result is not degenerate *)
Lemma circle_offset_center_2x c n :
  circle_sok c -> - sbound <= n <= sbound -> 1 <= c_d c -> 1 <= c_d (circle_offset c n) ->
  circle_center_2x (circle_offset c n) = circle_center_2x c.
Proof.
  intros Hc Hn Hd. destruct c as [[x y] d]. unf_circ.
  destruct (0 <=? n) eqn:E; cbn [px py]; intros Hd'; f_equal; lia.
Qed.

(* ---- two circles in the stroke-area / fill-area relation ---------------------------------- *)
Definition concentric (A B : circle) : Prop :=
  c_d B = 0 \/ (1 <= c_d B <= c_d A /\ circle_center_2x B = circle_center_2x A).

Lemma areas_concentric c n m :
  circle_sok c -> 0 <= n <= sbound -> - sbound <= m <= 0 -> concentric (circle_offset c n) (circle_offset c m).
Proof.
  intros Hc Hn Hm. unfold concentric. pose proof Hc as [_ Hd0].
  pose proof (circle_offset_d c m) as Em. pose proof (circle_offset_d c n) as En.
  destruct (Z_le_gt_dec (c_d (circle_offset c m)) 0) as [Hz|Hp].
  - left. unfold sbound, u32_max in *. destruct (0 <=? m) eqn:E; lia.
  - right.
    assert (1 <= c_d c) as Hd by (unfold sbound, u32_max in *; destruct (0 <=? m) eqn:E; lia).
    assert (1 <= c_d (circle_offset c n)) as Hdn by (unfold sbound, u32_max in *; destruct (0 <=? n) eqn:E; lia).
    split.
    + unfold sbound, u32_max in *. destruct (0 <=? m) eqn:E1, (0 <=? n) eqn:E2; lia.
    + rewrite !circle_offset_center_2x by (try assumption; lia). reflexivity.
Qed.

Lemma concentric_sub A B p : concentric A B -> circle_contains B p = true -> circle_contains A p = true.
Proof.
  intros [Hz|[Hd Hc]] H; [rewrite circle_contains_zero in H by assumption; discriminate|].
  unfold circle_contains in *. rewrite Hc in H. unfold circle_threshold in *.
  pose proof (threshold_mono (c_d B) (c_d A) ltac:(lia)). lia.
Qed.

Lemma concentric_fill_pred A B y x :
  concentric A B ->
  circle_row_pred (circle_center_2x A) (circle_threshold B) y x = circle_contains B (P x y).
Proof.
  intros [Hz|[Hd Hc]].
  - rewrite circle_contains_zero by assumption. unfold circle_row_pred, circle_threshold, length_squared. rewrite Hz.
    change (diameter_to_threshold 0) with 0. apply Z.ltb_ge. nia.
  - rewrite <- Hc. apply circle_row_pred_contains.
Qed.

(* ---- the plain scanlines of a circle describe its point set row by row -------------------- *)
Lemma sl_ok_ext (F G : point -> bool) s : (forall p, F p = G p) -> sl_ok F s -> sl_ok G s.
Proof. intros E [H1 H2]. split; [assumption|]. intros x. rewrite <- E. apply H2. Qed.

Theorem circle_scanlines_ok A :
  circle_ok A ->
  (forall s, In s (circle_scanlines A) ->
     sl_ok (circle_contains A) s /\ sl_x0 s + sl_x1 s - 1 = px (circle_center_2x A)) /\
  (forall p, circle_contains A p = true -> exists s, In s (circle_scanlines A) /\ sl_y s = py p).
Proof.
  intros Hok. pose proof (circle_bbox_ok A Hok) as Hbb. unfold circle_scanlines.
  destruct (rows_columns_spec _ Hbb) as [-> ->]. unfold circle_bbox. cbn [tl sz sw sh].
  set (c0 := px (c_tl A)). set (y0 := py (c_tl A)). set (d := c_d A).
  set (pred := circle_row_pred (circle_center_2x A) (circle_threshold A)).
  assert (Hrows : forall y, y0 <= y < y0 + d -> row_sym (pred y) c0 (c0 + d) /\ row_convex (pred y) c0 (c0 + d)).
  { intros y Hy. subst pred. unfold circle_center_2x, sat_sub_u32. fold d. rewrite Z.max_l by lia. split.
    - apply circle_row_sym. fold c0. lia.
    - apply circle_row_convex. }
  assert (Hhit : false = false -> forall y, y0 <= y < y0 + d -> exists x, c0 <= x < c0 + d /\ pred y x = true).
  { intros _ y Hy. apply circle_every_row_hit; fold d; fold y0; lia. }
  destruct (scan_rows_ok false pred c0 (c0 + d) y0 (y0 + d) Hrows Hhit) as [G1 G2]. cbv zeta in G1, G2.
  assert (Hext : forall p,
    ((y0 <=? py p) && (py p <? y0 + d) && (c0 <=? px p) && (px p <? c0 + d) && pred (py p) (px p)) = circle_contains A p).
  { intros p. subst pred. rewrite circle_row_pred_contains.
    replace (P (px p) (py p)) with p by (destruct p; reflexivity).
    destruct (circle_contains A p) eqn:E; [|apply andb_false_r].
    apply circle_contains_in_bbox in E; [|assumption]. apply contains_spec in E. unfold circle_bbox in E.
    cbn [tl sz sw sh] in E. fold c0 y0 d in E. lia. }
  split.
  - intros s Hin. destruct (G1 s Hin) as (A1 & A2 & A3 & A4 & A5). split.
    + eapply sl_ok_ext; [exact Hext|exact A1].
    + unfold circle_center_2x, sat_sub_u32. fold c0 d. cbn [px]. lia.
  - intros p Hp. apply G2. rewrite Hext. exact Hp.
Qed.

(* ---- the styled scanlines of a stroke area A and a fill area B ---------------------------- *)
Theorem circle_styled_scanlines_ok A B :
  circle_ok A -> concentric A B ->
  (forall s, In s (circle_styled_scanlines A B) -> ssl_ok (circle_contains A) (circle_contains B) s) /\
  (forall p, circle_contains A p = true -> exists s, In s (circle_styled_scanlines A B) /\ ss_y s = py p).
Proof.
  intros Hok Hcc. destruct (circle_scanlines_ok A Hok) as [G1 G2]. unfold circle_styled_scanlines.
  destruct (styled_scan_ok (circle_contains A) (circle_contains B)
              (circle_row_pred (circle_center_2x A) (circle_threshold B)) (circle_scanlines A)) as [H1 H2].
  - intros s Hin. destruct (G1 s Hin) as [A1 A2]. split; [exact A1|].
    destruct (circle_center_2x A) as [cx cy] eqn:E. cbn [px] in A2. split.
    + apply circle_row_sym. exact A2.
    + apply circle_row_convex.
  - intros x y. apply concentric_sub. exact Hcc.
  - intros s x _ _. symmetry. apply concentric_fill_pred. exact Hcc.
  - split; [exact H1|]. intros p Hp. apply H2. apply G2. exact Hp.
Qed.

(* ---- draw_styled and pixels() of two concentric areas ------------------------------------- *)
Section Areas.
  Variables (A B : circle).
  Hypothesis HA : circle_ok A.
  Hypothesis HB : circle_ok B.
  Hypothesis Hcc : concentric A B.
  Let S := circle_contains A.
  Let F := circle_contains B.
  Let l := circle_styled_scanlines A B.

  Lemma areas_sub p : F p = true -> S p = true.
  Proof. apply concentric_sub. exact Hcc. Qed.

  Lemma areas_both sc fc p :
    render (flat_map (fun s => draw_stroke_and_fill s sc fc) l) p = (if F p then Some fc else if S p then Some sc else None) /\
    last_write (pix_spans (spans_both sc fc l)) p = (if F p then Some fc else if S p then Some sc else None).
  Proof.
    destruct (circle_styled_scanlines_ok A B HA Hcc) as [H1 H2]. rewrite draw_both_spans.
    apply (spans_both_map S F l H1 H2 areas_sub sc fc p).
  Qed.

  Lemma areas_stroke sc p :
    render (flat_map (fun s => draw_stroke s sc) l) p = (if F p then None else if S p then Some sc else None) /\
    last_write (pix_spans (spans_stroke sc l)) p = (if F p then None else if S p then Some sc else None).
  Proof.
    destruct (circle_styled_scanlines_ok A B HA Hcc) as [H1 H2]. rewrite draw_stroke_spans.
    apply (spans_stroke_map S F l H1 H2 sc p).
  Qed.

  Lemma areas_fill_pix fc p :
    last_write (pix_spans (spans_fill fc l)) p = (if F p then Some fc else None).
  Proof.
    destruct (circle_styled_scanlines_ok A B HA Hcc) as [H1 H2].
    apply (spans_fill_map S F l H1 H2 areas_sub fc p).
  Qed.

  Lemma areas_fill_draw fc p :
    render (flat_map (fun s => scanline_draw s fc) (circle_scanlines B)) p = (if F p then Some fc else None).
  Proof.
    destruct (circle_scanlines_ok B HB) as [H1 H2]. rewrite draw_plain_spans.
    apply (spans_plain_map F (circle_scanlines B) fc p).
    - intros s Hin. apply H1. exact Hin.
    - exact H2.
  Qed.
End Areas.

Ltac fin_ifs := repeat (match goal with |- context [if ?b then _ else _] => destruct b end); reflexivity.

(* ---- C06 for the circle ------------------------------------------------------------------- *)
Lemma circle_areas c st :
  circle_sok c -> style_ok st ->
  circle_ok (circle_stroke_area c st) /\ circle_ok (circle_fill_area c st) /\
  concentric (circle_stroke_area c st) (circle_fill_area c st).
Proof.
  intros Hc Hs. destruct (offsets_range st Hs) as (E1 & R1 & R2 & E2). unfold circle_stroke_area, circle_fill_area.
  assert (- sbound <= fill_area_offset st <= 0) as Rf by (rewrite E2; destruct (stroke_kind st); unfold sbound in *; lia).
  rewrite E1. split; [|split].
  - apply circle_offset_ok; [assumption|lia].
  - apply circle_offset_ok; [assumption|unfold sbound in *; lia].
  - apply areas_concentric; assumption.
Qed.

Theorem circle_styled_spec c st p :
  circle_sok c -> style_ok st ->
  render (circle_draw_styled c st) p =
  styled_map (circle_contains (circle_fill_area c st)) (circle_contains (circle_stroke_area c st)) st p.
Proof.
  intros Hc Hs. destruct (circle_areas c st Hc Hs) as (HA & HB & Hcc).
  unfold circle_draw_styled, styled_map, effective_stroke_color.
  destruct (stroke_color st) as [sc|], (fill_color st) as [fc|], (0 <? stroke_width st) eqn:Ew;
    rewrite ?andb_true_r, ?andb_false_r; cbv beta iota;
    first [ rewrite (proj1 (areas_both _ _ HA Hcc _ _ p))
          | rewrite (proj1 (areas_stroke _ _ HA Hcc _ p))
          | rewrite (areas_fill_draw _ HB)
          | unfold render; cbn [flat_map fold_left] ];
    fin_ifs.
Qed.

Theorem circle_pixels_spec c st p :
  circle_sok c -> style_ok st ->
  last_write (circle_styled_pixels c st) p =
  styled_map (circle_contains (circle_fill_area c st)) (circle_contains (circle_stroke_area c st)) st p.
Proof.
  intros Hc Hs. destruct (circle_areas c st Hc Hs) as (HA & HB & Hcc).
  unfold circle_styled_pixels, styled_map. rewrite styled_pixels_spans.
  assert (Hw0 : (0 <? stroke_width st) = false ->
                circle_contains (circle_stroke_area c st) p = circle_contains (circle_fill_area c st) p).
  { intros E. assert (stroke_width st = 0) as Ew by (unfold style_ok in Hs; lia).
    unfold circle_stroke_area, circle_fill_area. destruct (offsets_zero st Ew) as [-> ->]. reflexivity. }
  destruct (stroke_color st) as [sc|], (fill_color st) as [fc|]; cbv beta iota;
    first [ rewrite (proj2 (areas_both _ _ HA Hcc _ _ p))
          | rewrite (proj2 (areas_stroke _ _ HA Hcc _ p))
          | rewrite (areas_fill_pix _ _ HA Hcc _ p)
          | unfold last_write, pix_spans; cbn [flat_map fold_left] ];
    destruct (0 <? stroke_width st); rewrite ?andb_true_r, ?andb_false_r;
    try (rewrite Hw0 by reflexivity); fin_ifs.
Qed.

(* ---- geometry of the two areas (C06: "grown by the outside part, shrunk by the inside part") ---- *)
Lemma circle_offset_zero c : circle_ok c -> circle_offset c 0 = c.
Proof. intros H. destruct c as [[x y] d]. unf_circ. cbn. f_equal; [f_equal|]; lia. Qed.

Theorem circle_stroke_area_grow c st :
  circle_sok c -> style_ok st -> 1 <= c_d c ->
  circle_stroke_area c st =
  Circ (P (px (c_tl c) - outside_stroke_width st) (py (c_tl c) - outside_stroke_width st))
       (c_d c + 2 * outside_stroke_width st).
Proof.
  intros Hc Hs Hd. destruct (offsets_range st Hs) as (E1 & R1 & _). unfold circle_stroke_area. rewrite E1.
  apply circle_offset_grow; [|assumption|unfold sbound, bound in *; lia].
  destruct Hc as [[? ?] ?]. unfold circle_ok, point_ok, sbound, bound in *. lia.
Qed.

Lemma circle_sok_ok c : circle_sok c -> circle_ok c.
Proof. intros [[? ?] ?]. unfold circle_ok, point_ok, sbound, bound in *. lia. Qed.

Theorem circle_fill_area_shrink c st :
  circle_sok c -> style_ok st -> stroke_kind st = Solid ->
  let ins := inside_stroke_width st in
  (2 * ins < c_d c -> circle_fill_area c st = Circ (P (px (c_tl c) + ins) (py (c_tl c) + ins)) (c_d c - 2 * ins)) /\
  (c_d c <= 2 * ins -> forall p, circle_contains (circle_fill_area c st) p = false).
Proof.
  intros Hc Hs Hk ins. destruct (offsets_range st Hs) as (_ & _ & R2 & E2). rewrite Hk in E2.
  unfold circle_fill_area. rewrite E2. fold ins in R2 |- *. pose proof (circle_sok_ok c Hc) as Hok.
  destruct (Z.eq_dec ins 0) as [->|Hn].
  - change (- 0) with 0. rewrite circle_offset_zero by assumption. split.
    + intros _. destruct c as [[x y] d]. cbn [c_tl c_d px py]. f_equal; [f_equal|]; lia.
    + intros Hd p. apply circle_contains_zero. destruct Hc as [_ Hc]. lia.
  - destruct (circle_offset_shrink c ins Hok ltac:(unfold sbound, bound in *; lia)) as [G1 G2]. split.
    + exact G1.
    + intros Hd p. apply circle_contains_zero. apply G2. exact Hd.
Qed.

(* an inside stroke never paints outside the shape; an outside stroke never paints inside it *)
Theorem circle_inside_stroke_stays_in c st p :
  circle_sok c -> style_ok st -> stroke_alignment st = Inside ->
  render (circle_draw_styled c st) p <> None -> circle_contains c p = true.
Proof.
  intros Hc Hs Ha. rewrite circle_styled_spec by assumption. destruct (circle_areas c st Hc Hs) as (HA & HB & Hcc).
  assert (circle_stroke_area c st = c) as E.
  { unfold circle_stroke_area, stroke_area_offset, outside_stroke_width. rewrite Ha. apply circle_offset_zero, circle_sok_ok, Hc. }
  unfold styled_map. pose proof (concentric_sub _ _ p Hcc) as Hsub. rewrite E in *.
  destruct (circle_contains (circle_fill_area c st) p); [intros _; apply Hsub; reflexivity|].
  destruct (circle_contains c p); [reflexivity|]. cbn. congruence.
Qed.

Theorem circle_outside_stroke_stays_out c st p :
  circle_sok c -> style_ok st -> stroke_alignment st = Outside ->
  circle_contains c p = true -> render (circle_draw_styled c st) p = fill_color st.
Proof.
  intros Hc Hs Ha Hp. rewrite circle_styled_spec by assumption.
  assert (circle_fill_area c st = c) as E.
  { unfold circle_fill_area, fill_area_offset, inside_stroke_width. rewrite Ha.
    destruct (stroke_kind st); apply circle_offset_zero, circle_sok_ok, Hc. }
  unfold styled_map. rewrite E, Hp. reflexivity.
Qed.

(* ---- the split of the stroke width for EVERY u32 width (the saturating branch included) ---- *)
Theorem stroke_split_sat st :
  0 <= stroke_width st <= u32_max ->
  (inside_stroke_width st + outside_stroke_width st = stroke_width st \/
   (stroke_alignment st = Center /\ stroke_width st = u32_max /\
    inside_stroke_width st = 2147483647 /\ outside_stroke_width st = 2147483647)) /\
  0 <= stroke_area_offset st <= i32_max /\ - i32_max <= fill_area_offset st <= 0 /\
  stroke_area_offset st = Z.min (outside_stroke_width st) i32_max /\
  (stroke_kind st = Solid -> fill_area_offset st = - Z.min (inside_stroke_width st) i32_max).
Proof.
  unfold stroke_area_offset, fill_area_offset, inside_stroke_width, outside_stroke_width, sat_add_u32, sat_u32_to_i32, u32_max, i32_max.
  intros H. destruct (stroke_alignment st) eqn:Ea, (stroke_kind st) eqn:Ek;
    (split; [|split; [|split; [|split; [reflexivity|intros; try reflexivity; try discriminate]]]]); try lia.
  all: destruct (Z.eq_dec (stroke_width st) 4294967295) as [E|E]; [right; rewrite E; repeat split; reflexivity|left; lia].
Qed.
