(* Lemmas about Model/Colormodel.v (properties C12 and C13).

   Method.  Every built-in colour type is a row of the GENERATED table Gen/ColorTable.v.  The macro
   bodies of rgb_color.rs / gray_color.rs / raw/mod.rs are transcribed once, generically, in the
   model; here they are proved correct for every row that satisfies a decidable well-formedness
   predicate (`row_wf`: masks are `ones`, channel positions are the Rgb / Bgr arm, widths fit the
   raw type), by general bit-field arithmetic (`pack3` lemmas: disjoint fields are sums).  That the
   rows of the regenerated table satisfy `row_wf` is decided by vm_compute (`table_wf`).  A changed
   shift, mask, width or position in the Rust source changes the table or Gen/ColorConsts.v and so
   breaks `table_wf` (or a later vm_compute obligation). *)
From EG Require Import Base.Prelude Base.Lemmas Gen.ColorConsts Gen.ColorTable Model.Colormodel.
From Coq Require Import ZifyBool Znumtheory.

Set Default Timeout 60.

(* ================================================================= 1. bit operations as arithmetic *)

Lemma pow2_pos n : 0 <= n -> 0 < 2 ^ n.
Proof. intros; apply Z.pow_pos_nonneg; lia. Qed.

Lemma land_ones_mod x n : 0 <= n -> Z.land x (Z.ones n) = x mod 2 ^ n.
Proof. intros; apply Z.land_ones; lia. Qed.

Lemma mod_mod_pow2 x n m : 0 <= n <= m -> (x mod 2 ^ m) mod 2 ^ n = x mod 2 ^ n.
Proof.
  intros H. symmetry. apply Zmod_div_mod; try (apply pow2_pos; lia).
  exists (2 ^ (m - n)). rewrite <- Z.pow_add_r by lia. f_equal; lia.
Qed.

Lemma mod_small_pow2 x n m : 0 <= n <= m -> (x mod 2 ^ n) mod 2 ^ m = x mod 2 ^ n.
Proof.
  intros H. apply Z.mod_small.
  pose proof (Z.mod_pos_bound x (2 ^ n) (pow2_pos n ltac:(lia))).
  assert (2 ^ n <= 2 ^ m) by (apply Z.pow_le_mono_r; lia). lia.
Qed.

(* a low field and a shifted high field do not overlap: `|` is `+` *)
Lemma land_low_high a b n : 0 <= n -> 0 <= a < 2 ^ n -> Z.land a (Z.shiftl b n) = 0.
Proof.
  intros Hn Ha. apply Z.bits_inj'. intros m Hm. rewrite Z.land_spec, Z.bits_0.
  destruct (Z_lt_ge_dec m n).
  - rewrite Z.shiftl_spec_low by lia. apply andb_false_r.
  - replace a with (a mod 2 ^ n) by (apply Z.mod_small; lia).
    rewrite Z.mod_pow2_bits_high by lia. reflexivity.
Qed.

Lemma lor_low_high a b n : 0 <= n -> 0 <= a < 2 ^ n -> Z.lor a (Z.shiftl b n) = a + b * 2 ^ n.
Proof.
  intros Hn Ha. rewrite <- Z.lxor_lor by (apply land_low_high; lia).
  rewrite <- Z.add_nocarry_lxor by (apply land_low_high; lia).
  rewrite Z.shiftl_mul_pow2 by lia. reflexivity.
Qed.

(* ================================================================= 2. three adjacent bit fields *)
(* widths w1 (least significant), w2, w3; value a1 + 2^w1 * (a2 + 2^w2 * a3) *)
Definition pack3 (w1 w2 : Z) (a1 a2 a3 : Z) : Z := a1 + 2 ^ w1 * (a2 + 2 ^ w2 * a3).

Section Fields.
  Variables w1 w2 : Z.
  Hypothesis H1 : 0 <= w1.
  Hypothesis H2 : 0 <= w2.
  Variables a1 a2 a3 : Z.
  Hypothesis A1 : 0 <= a1 < 2 ^ w1.
  Hypothesis A2 : 0 <= a2 < 2 ^ w2.

  Lemma pack3_bound w3 (H3 : 0 <= w3) (A3 : 0 <= a3 < 2 ^ w3) :
    0 <= pack3 w1 w2 a1 a2 a3 < 2 ^ (w1 + w2 + w3).
  Proof.
    unfold pack3. rewrite !Z.pow_add_r by lia.
    pose proof (pow2_pos w1 H1). pose proof (pow2_pos w2 H2). pose proof (pow2_pos w3 H3).
    generalize dependent (2 ^ w1). generalize dependent (2 ^ w2). generalize dependent (2 ^ w3).
    intros P3 ? ? P2 ? ? P1 ? ?.
    assert (0 <= a2 + P2 * a3 <= P2 * P3 - 1) by nia.
    generalize dependent (a2 + P2 * a3). intros q ?.
    assert (P1 * q <= P1 * (P2 * P3 - 1)) by (apply Z.mul_le_mono_nonneg_l; lia).
    split; nia.
  Qed.

  Lemma pack3_get1 : pack3 w1 w2 a1 a2 a3 mod 2 ^ w1 = a1.
  Proof.
    unfold pack3. rewrite (Z.mul_comm (2 ^ w1)), Z.mod_add by (pose proof (pow2_pos w1 H1); lia).
    apply Z.mod_small; lia.
  Qed.

  Lemma pack3_div1 : pack3 w1 w2 a1 a2 a3 / 2 ^ w1 = a2 + 2 ^ w2 * a3.
  Proof.
    unfold pack3. pose proof (pow2_pos w1 H1).
    rewrite (Z.mul_comm (2 ^ w1)), Z.div_add by lia. rewrite Z.div_small by lia. lia.
  Qed.

  Lemma pack3_get2 : (pack3 w1 w2 a1 a2 a3 / 2 ^ w1) mod 2 ^ w2 = a2.
  Proof.
    rewrite pack3_div1. pose proof (pow2_pos w2 H2).
    rewrite (Z.mul_comm (2 ^ w2)), Z.mod_add by lia. apply Z.mod_small; lia.
  Qed.

  Lemma pack3_div2 : pack3 w1 w2 a1 a2 a3 / 2 ^ (w1 + w2) = a3.
  Proof.
    rewrite Z.pow_add_r by lia. pose proof (pow2_pos w1 H1). pose proof (pow2_pos w2 H2).
    rewrite <- Z.div_div by lia. rewrite pack3_div1.
    rewrite (Z.mul_comm (2 ^ w2)), Z.div_add by lia. rewrite Z.div_small by lia. lia.
  Qed.

  Lemma pack3_get3 w3 (H3 : 0 <= w3) (A3 : 0 <= a3 < 2 ^ w3) :
    (pack3 w1 w2 a1 a2 a3 / 2 ^ (w1 + w2)) mod 2 ^ w3 = a3.
  Proof. rewrite pack3_div2. apply Z.mod_small; lia. Qed.

  (* the model's `|` of shifted fields is pack3 *)
  Lemma lor3_pack :
    Z.lor (Z.lor a1 (Z.shiftl a2 w1)) (Z.shiftl a3 (w1 + w2)) = pack3 w1 w2 a1 a2 a3.
  Proof.
    rewrite <- Z.lor_assoc.
    replace (Z.shiftl a3 (w1 + w2)) with (Z.shiftl (Z.shiftl a3 w2) w1)
      by (rewrite Z.shiftl_shiftl by lia; f_equal; lia).
    rewrite <- Z.shiftl_lor. rewrite (lor_low_high a2 a3 w2) by lia.
    rewrite lor_low_high by lia. unfold pack3. ring.
  Qed.
End Fields.

(* every value below 2^(w1+w2+w3) is the pack of its three fields *)
Lemma pack3_split w1 w2 c : 0 <= w1 -> 0 <= w2 ->
  c = pack3 w1 w2 (c mod 2 ^ w1) ((c / 2 ^ w1) mod 2 ^ w2) (c / 2 ^ (w1 + w2)).
Proof.
  intros H1 H2. unfold pack3. pose proof (pow2_pos w1 H1). pose proof (pow2_pos w2 H2).
  rewrite Z.pow_add_r by lia. rewrite <- Z.div_div by lia.
  rewrite (Z.add_comm ((c / 2 ^ w1) mod 2 ^ w2)).
  rewrite <- (Z.div_mod (c / 2 ^ w1) (2 ^ w2)) by lia.
  rewrite Z.add_comm. apply Z.div_mod. lia.
Qed.

(* ================================================================= 3. well-formed rows *)
Definition chan_ok (b : Z) : bool := (0 <=? b) && (b <=? 8).
Definition raw_wf (w : rawrow) : bool :=
  (1 <=? raw_bpp w) && (raw_bpp w <=? raw_sbits w) && (raw_mask_of w =? Z.ones (raw_bpp w)).
(* what the generic proofs below need from a row; every conjunct is a closed computation per row *)
Definition row_wf (t : crow) : bool :=
  raw_wf (c_raw t) &&
  match c_kind t with
  | KRgb o r g b =>
      chan_ok r && chan_ok g && chan_ok b && (r + g + b <=? bpp t)
      && (max_r t =? Z.ones r) && (max_g t =? Z.ones g) && (max_b t =? Z.ones b)
      && (rgb_mask t =? Z.ones (r + g + b))
      && match o with
         | ORgb => (rpos t =? g + b) && (gpos t =? b) && (bpos t =? 0)
         | OBgr => (rpos t =? 0) && (gpos t =? r) && (bpos t =? r + g)
         end
  | KGray => (bpp t <=? 8) && (max_luma t =? Z.ones (bpp t))
  | KBinary => (bpp t =? 1) && (bin_from_zero =? 0) && (bin_raw_off =? 0) && (bin_raw_on =? 1)
  end.

(* the regenerated table: decided by computation *)
Lemma table_wf : forallb row_wf color_table = true.
Proof. vm_compute. reflexivity. Qed.

Lemma in_table_wf t : In t color_table -> row_wf t = true.
Proof. intros H. exact (proj1 (forallb_forall row_wf color_table) table_wf t H). Qed.

Lemma wf_raw t : row_wf t = true ->
  1 <= bpp t <= sbits t /\ raw_mask_of (c_raw t) = Z.ones (bpp t).
Proof. unfold row_wf, raw_wf, bpp, sbits. intros H. lia. Qed.

Lemma raw_new_mod t v : row_wf t = true -> raw_new t v = v mod 2 ^ bpp t.
Proof.
  intros H. destruct (wf_raw t H) as [Hb Hm]. unfold raw_new, raw_new_of. rewrite Hm.
  apply land_ones_mod. lia.
Qed.

Record rgb_facts (t : crow) (o : corder) (r g b : Z) : Prop := {
  rf_r : 0 <= r <= 8; rf_g : 0 <= g <= 8; rf_b : 0 <= b <= 8;
  rf_used : r + g + b <= bpp t;
  rf_maxr : max_r t = Z.ones r; rf_maxg : max_g t = Z.ones g; rf_maxb : max_b t = Z.ones b;
  rf_mask : rgb_mask t = Z.ones (r + g + b);
  rf_pos : match o with
           | ORgb => rpos t = g + b /\ gpos t = b /\ bpos t = 0
           | OBgr => rpos t = 0 /\ gpos t = r /\ bpos t = r + g
           end }.

Lemma wf_rgb t o r g b : row_wf t = true -> c_kind t = KRgb o r g b -> rgb_facts t o r g b.
Proof.
  unfold row_wf, chan_ok. intros H Hk. rewrite Hk in H.
  destruct o; constructor; lia.
Qed.

(* accessor of a field of width w <= 8 at position p: `(c >> p) as u8 & ones w` *)
Lemma field_get c p w : 0 <= p -> 0 <= w <= 8 ->
  Z.land (as_u8 (Z.shiftr c p)) (Z.ones w) = (c / 2 ^ p) mod 2 ^ w.
Proof.
  intros Hp Hw. unfold as_u8. rewrite land_ones_mod by lia. rewrite Z.shiftr_div_pow2 by lia.
  change 256 with (2 ^ 8). apply mod_mod_pow2. lia.
Qed.

Section RgbRow.
  Variables (t : crow) (o : corder) (rb gb bb : Z).
  Hypothesis WF : row_wf t = true.
  Hypothesis HK : c_kind t = KRgb o rb gb bb.
  Let F := wf_rgb t o rb gb bb WF HK.

  Lemma rgb_bits : rbits t = rb /\ gbits t = gb /\ bbits t = bb /\ used_bits t = rb + gb + bb.
  Proof. unfold rbits, gbits, bbits, used_bits. rewrite HK. auto. Qed.

  Lemma rgb_from_raw d : from_raw t d = d mod 2 ^ (rb + gb + bb).
  Proof.
    destruct F. unfold from_raw. rewrite HK, rf_mask0. apply land_ones_mod. lia.
  Qed.

  Lemma rgb_to_raw c : to_raw t c = c mod 2 ^ bpp t.
  Proof. unfold to_raw. rewrite HK. apply raw_new_mod, WF. Qed.

  (* new() as a sum of the channel fields, accessors as div/mod: the layout in arithmetic *)
  Lemma rgb_new_pack r g b :
    rgb_new t r g b =
    match o with
    | ORgb => pack3 bb gb (b mod 2 ^ bb) (g mod 2 ^ gb) (r mod 2 ^ rb)
    | OBgr => pack3 rb gb (r mod 2 ^ rb) (g mod 2 ^ gb) (b mod 2 ^ bb)
    end.
  Proof.
    destruct F. unfold rgb_new. rewrite rf_maxr0, rf_maxg0, rf_maxb0.
    rewrite !land_ones_mod by lia.
    pose proof (Z.mod_pos_bound r (2 ^ rb) (pow2_pos rb ltac:(lia))).
    pose proof (Z.mod_pos_bound g (2 ^ gb) (pow2_pos gb ltac:(lia))).
    pose proof (Z.mod_pos_bound b (2 ^ bb) (pow2_pos bb ltac:(lia))).
    destruct o; destruct rf_pos0 as (-> & -> & ->).
    - rewrite Z.shiftl_0_r.
      rewrite Z.lor_comm, (Z.lor_comm (Z.shiftl _ (gb + bb))), Z.lor_assoc.
      rewrite (Z.add_comm gb bb). apply lor3_pack; lia.
    - rewrite Z.shiftl_0_r. apply lor3_pack; lia.
  Qed.

  Lemma rgb_get c :
    match o with
    | ORgb => get_r t c = (c / 2 ^ (bb + gb)) mod 2 ^ rb /\ get_g t c = (c / 2 ^ bb) mod 2 ^ gb /\ get_b t c = c mod 2 ^ bb
    | OBgr => get_r t c = c mod 2 ^ rb /\ get_g t c = (c / 2 ^ rb) mod 2 ^ gb /\ get_b t c = (c / 2 ^ (rb + gb)) mod 2 ^ bb
    end.
  Proof.
    destruct F. unfold get_r, get_g, get_b. rewrite rf_maxr0, rf_maxg0, rf_maxb0.
    destruct o; destruct rf_pos0 as (-> & -> & ->); rewrite !field_get by lia;
      rewrite ?Z.pow_0_r, ?Z.div_1_r, ?(Z.add_comm gb bb); auto.
  Qed.

  Lemma rgb_new_valid r g b : valid t (rgb_new t r g b).
  Proof.
    destruct F. unfold valid. destruct rgb_bits as (_ & _ & _ & ->). rewrite rgb_new_pack.
    pose proof (Z.mod_pos_bound r (2 ^ rb) (pow2_pos rb ltac:(lia))).
    pose proof (Z.mod_pos_bound g (2 ^ gb) (pow2_pos gb ltac:(lia))).
    pose proof (Z.mod_pos_bound b (2 ^ bb) (pow2_pos bb ltac:(lia))).
    destruct o.
    - replace (rb + gb + bb) with (bb + gb + rb) by lia. apply pack3_bound; lia.
    - apply pack3_bound; lia.
  Qed.

  Lemma rgb_new_get r g b :
    get_r t (rgb_new t r g b) = r mod 2 ^ rb /\
    get_g t (rgb_new t r g b) = g mod 2 ^ gb /\
    get_b t (rgb_new t r g b) = b mod 2 ^ bb.
  Proof.
    destruct F. pose proof (rgb_get (rgb_new t r g b)) as G. rewrite rgb_new_pack in *.
    pose proof (Z.mod_pos_bound r (2 ^ rb) (pow2_pos rb ltac:(lia))).
    pose proof (Z.mod_pos_bound g (2 ^ gb) (pow2_pos gb ltac:(lia))).
    pose proof (Z.mod_pos_bound b (2 ^ bb) (pow2_pos bb ltac:(lia))).
    destruct o; destruct G as (-> & -> & ->).
    - rewrite pack3_get1, pack3_get2, pack3_get3 by lia. auto.
    - rewrite pack3_get1, pack3_get2, pack3_get3 by lia. auto.
  Qed.

  (* a colour is determined by its channels: new(r(), g(), b()) = c *)
  Lemma rgb_new_of_get c : valid t c -> rgb_new t (get_r t c) (get_g t c) (get_b t c) = c.
  Proof.
    destruct F. unfold valid. destruct rgb_bits as (_ & _ & _ & ->). intros Hc.
    pose proof (rgb_get c) as G. rewrite rgb_new_pack.
    destruct o; destruct G as (-> & -> & ->); rewrite !Z.mod_mod by (pose proof (pow2_pos rb); pose proof (pow2_pos gb); pose proof (pow2_pos bb); lia).
    - rewrite (pack3_split bb gb c) at 4 by lia. f_equal. apply Z.mod_small.
      split. { apply Z.div_pos; [lia | apply pow2_pos; lia]. }
      apply Z.div_lt_upper_bound; [apply pow2_pos; lia|]. rewrite <- Z.pow_add_r by lia.
      replace (bb + gb + rb) with (rb + gb + bb) by lia. lia.
    - rewrite (pack3_split rb gb c) at 4 by lia. f_equal. apply Z.mod_small.
      split. { apply Z.div_pos; [lia | apply pow2_pos; lia]. }
      apply Z.div_lt_upper_bound; [apply pow2_pos; lia|]. rewrite <- Z.pow_add_r by lia. lia.
  Qed.
End RgbRow.

(* ================================================================= 4. gray and binary rows *)
Lemma wf_gray t : row_wf t = true -> c_kind t = KGray ->
  1 <= bpp t <= 8 /\ max_luma t = Z.ones (bpp t) /\ used_bits t = bpp t.
Proof.
  intros H Hk. pose proof (wf_raw t H). unfold row_wf in H. unfold used_bits. rewrite Hk in *. lia.
Qed.

Lemma wf_bin t : row_wf t = true -> c_kind t = KBinary ->
  bpp t = 1 /\ bin_from_zero = 0 /\ bin_raw_off = 0 /\ bin_raw_on = 1 /\ used_bits t = 1.
Proof.
  intros H Hk. unfold row_wf in H. unfold used_bits. rewrite Hk in *. lia.
Qed.

Lemma used_le_bpp t : row_wf t = true -> 0 <= used_bits t <= bpp t.
Proof.
  intros H. pose proof (wf_raw t H). destruct (c_kind t) eqn:Hk.
  - destruct (wf_bin t H Hk) as (? & ? & ? & ? & ->). lia.
  - destruct (wf_gray t H Hk) as (? & ? & ->). lia.
  - destruct (wf_rgb t o rb gb bb H Hk). destruct (rgb_bits t o rb gb bb Hk) as (_ & _ & _ & ->). lia.
Qed.

Lemma valid_lt_bpp t c : row_wf t = true -> valid t c -> 0 <= c < 2 ^ bpp t.
Proof.
  intros H [Hc0 Hc1]. pose proof (used_le_bpp t H).
  assert (2 ^ used_bits t <= 2 ^ bpp t) by (apply Z.pow_le_mono_r; lia). lia.
Qed.

Lemma bin_cases c : 0 <= c < 2 ^ 1 -> c = 0 \/ c = 1.
Proof. change (2 ^ 1) with 2. lia. Qed.

(* ================================================================= 5. C12: colour <-> raw *)
Lemma raw_roundtrip_wf t : row_wf t = true -> forall c, valid t c -> from_raw t (to_raw t c) = c.
Proof.
  intros H c Hv. pose proof (valid_lt_bpp t c H Hv) as Hb. destruct (c_kind t) eqn:Hk.
  - destruct (wf_bin t H Hk) as (Hbpp & Hz & Hoff & Hon & Hu).
    unfold valid in Hv. rewrite Hu in Hv. unfold from_raw, to_raw. rewrite Hk, raw_new_mod, Hbpp, Hz, Hoff, Hon by assumption.
    destruct (bin_cases c Hv) as [-> | ->]; reflexivity.
  - unfold from_raw, to_raw. rewrite Hk. reflexivity.
  - pose proof (wf_rgb t o rb gb bb H Hk) as F. destruct F.
    destruct (rgb_bits t o rb gb bb Hk) as (_ & _ & _ & Hu). unfold valid in Hv. rewrite Hu in Hv.
    rewrite (rgb_to_raw t o rb gb bb H Hk), (rgb_from_raw t o rb gb bb H Hk).
    rewrite mod_mod_pow2 by lia. apply Z.mod_small. lia.
Qed.

Lemma raw_fits_wf t : row_wf t = true -> forall c, valid t c -> 0 <= to_raw t c < 2 ^ bpp t /\ to_raw t c = c.
Proof.
  intros H c Hv. pose proof (valid_lt_bpp t c H Hv) as Hb. destruct (c_kind t) eqn:Hk.
  - destruct (wf_bin t H Hk) as (Hbpp & Hz & Hoff & Hon & Hu).
    unfold valid in Hv. rewrite Hu in Hv. unfold to_raw. rewrite Hk, raw_new_mod, Hbpp, Hoff, Hon by assumption.
    destruct (bin_cases c Hv) as [-> | ->]; cbv; intuition congruence.
  - unfold to_raw. rewrite Hk. auto.
  - rewrite (rgb_to_raw t o rb gb bb H Hk). rewrite Z.mod_small by lia. auto.
Qed.

(* storage value -> Raw::new -> colour: always a valid colour, and going back to raw only clears the unused bits *)
Lemma from_raw_valid_wf t : row_wf t = true -> forall v, valid t (from_raw t (raw_new t v)).
Proof.
  intros H v. rewrite raw_new_mod by assumption. pose proof (wf_raw t H) as [Hb _].
  unfold valid. destruct (c_kind t) eqn:Hk.
  - destruct (wf_bin t H Hk) as (Hbpp & Hz & Hoff & Hon & Hu). unfold from_raw. rewrite Hk, Hu.
    destruct (negb _); cbv; intuition congruence.
  - destruct (wf_gray t H Hk) as (? & ? & ->). unfold from_raw. rewrite Hk.
    apply Z.mod_pos_bound, pow2_pos. lia.
  - destruct (wf_rgb t o rb gb bb H Hk). destruct (rgb_bits t o rb gb bb Hk) as (_ & _ & _ & ->).
    rewrite (rgb_from_raw t o rb gb bb H Hk). apply Z.mod_pos_bound, pow2_pos. lia.
Qed.

Lemma raw_idem_wf t : row_wf t = true -> forall v,
  to_raw t (from_raw t (raw_new t v)) = Z.land v (Z.ones (used_bits t)).
Proof.
  intros H v. pose proof (used_le_bpp t H) as Hu. rewrite land_ones_mod by lia.
  rewrite raw_new_mod by assumption. pose proof (wf_raw t H) as [Hb _]. destruct (c_kind t) eqn:Hk.
  - destruct (wf_bin t H Hk) as (Hbpp & Hz & Hoff & Hon & ->).
    unfold from_raw, to_raw. rewrite Hk, raw_new_mod, Hbpp, Hz, Hoff, Hon by assumption.
    assert (v mod 2 ^ 1 = 0 \/ v mod 2 ^ 1 = 1) as [-> | ->]
      by (apply bin_cases, Z.mod_pos_bound; reflexivity); reflexivity.
  - destruct (wf_gray t H Hk) as (? & ? & ->). unfold from_raw, to_raw. rewrite Hk. reflexivity.
  - destruct (wf_rgb t o rb gb bb H Hk). destruct (rgb_bits t o rb gb bb Hk) as (_ & _ & _ & Hu').
    rewrite Hu' in *. rewrite (rgb_to_raw t o rb gb bb H Hk), (rgb_from_raw t o rb gb bb H Hk).
    rewrite (mod_mod_pow2 v) by lia. apply mod_small_pow2. lia.
Qed.

(* ... and a second trip changes nothing *)
Lemma raw_idem2_wf t : row_wf t = true -> forall v,
  let d := to_raw t (from_raw t (raw_new t v)) in to_raw t (from_raw t (raw_new t d)) = d.
Proof.
  intros H v d. subst d. rewrite !raw_idem_wf by assumption.
  pose proof (used_le_bpp t H). rewrite !land_ones_mod by lia. apply Z.mod_mod.
  pose proof (pow2_pos (used_bits t)). lia.
Qed.

(* ================================================================= 6. C12: constructors, accessors, layout *)
Lemma is_rgb_kind t : is_rgb t = true -> exists o r g b, c_kind t = KRgb o r g b.
Proof. unfold is_rgb. destruct (c_kind t); try discriminate. eauto. Qed.

Lemma is_rgb_order_kind t o : is_rgb_order t o = true -> exists r g b, c_kind t = KRgb o r g b.
Proof. unfold is_rgb_order. destruct (c_kind t) as [| |[] r g b]; destruct o; try discriminate; eauto. Qed.

Lemma new_channels_wf t : row_wf t = true -> is_rgb t = true -> forall r g b,
  get_r t (rgb_new t r g b) = r mod 2 ^ rbits t /\
  get_g t (rgb_new t r g b) = g mod 2 ^ gbits t /\
  get_b t (rgb_new t r g b) = b mod 2 ^ bbits t /\
  valid t (rgb_new t r g b).
Proof.
  intros H Hr r g b. destruct (is_rgb_kind t Hr) as (o & rb & gb & bb & Hk).
  destruct (rgb_bits t o rb gb bb Hk) as (-> & -> & -> & _).
  destruct (rgb_new_get t o rb gb bb H Hk r g b) as (? & ? & ?).
  pose proof (rgb_new_valid t o rb gb bb H Hk r g b). auto.
Qed.

Lemma new_of_channels_wf t : row_wf t = true -> is_rgb t = true -> forall c, valid t c ->
  rgb_new t (get_r t c) (get_g t c) (get_b t c) = c /\
  0 <= get_r t c <= max_r t /\ 0 <= get_g t c <= max_g t /\ 0 <= get_b t c <= max_b t.
Proof.
  intros H Hr c Hv. destruct (is_rgb_kind t Hr) as (o & rb & gb & bb & Hk).
  split. { apply (rgb_new_of_get t o rb gb bb H Hk c Hv). }
  destruct (wf_rgb t o rb gb bb H Hk). rewrite rf_maxr0, rf_maxg0, rf_maxb0, !Z.ones_equiv.
  pose proof (rgb_get t o rb gb bb H Hk c) as G.
  pose proof (pow2_pos rb ltac:(lia)). pose proof (pow2_pos gb ltac:(lia)). pose proof (pow2_pos bb ltac:(lia)).
  destruct o; destruct G as (-> & -> & ->);
    repeat match goal with |- context [?a mod ?b] =>
      lazymatch goal with H : 0 <= a mod b < b |- _ => fail | _ => pose proof (Z.mod_pos_bound a b ltac:(lia)) end end; lia.
Qed.

Lemma gray_new_wf t : row_wf t = true -> is_gray t = true -> forall l,
  luma_of t (gray_new t l) = l mod 2 ^ bpp t /\ valid t (gray_new t l) /\ max_luma t = 2 ^ bpp t - 1.
Proof.
  intros H Hg l. unfold is_gray in Hg. destruct (c_kind t) eqn:Hk; try discriminate.
  destruct (wf_gray t H Hk) as (Hb & Hm & Hu). unfold luma_of, gray_new, valid.
  rewrite raw_new_mod, Hu, Hm, Z.ones_equiv by assumption. split; [reflexivity|]. split; [|lia].
  apply Z.mod_pos_bound, pow2_pos. lia.
Qed.

(* layout: Rgb types carry red in the most significant used bits, blue in the least significant *)
Lemma layout_rgb_wf t : row_wf t = true -> is_rgb_order t ORgb = true ->
  let rb := rbits t in let gb := gbits t in let bb := bbits t in
  (forall r g b, to_raw t (rgb_new t r g b) = (r mod 2 ^ rb) * 2 ^ (gb + bb) + (g mod 2 ^ gb) * 2 ^ bb + b mod 2 ^ bb) /\
  (forall c, get_r t c = (c / 2 ^ (gb + bb)) mod 2 ^ rb /\ get_g t c = (c / 2 ^ bb) mod 2 ^ gb /\ get_b t c = c mod 2 ^ bb) /\
  rpos t + rb = used_bits t /\ gpos t + gb = rpos t /\ bpos t + bb = gpos t /\ bpos t = 0.
Proof.
  intros H Ho. destruct (is_rgb_order_kind t ORgb Ho) as (rb & gb & bb & Hk).
  destruct (rgb_bits t ORgb rb gb bb Hk) as (-> & -> & -> & ->). cbv zeta.
  pose proof (wf_rgb t ORgb rb gb bb H Hk) as F. destruct F. destruct rf_pos0 as (-> & -> & ->).
  split; [|split; [|lia]].
  - intros r g b. pose proof (rgb_new_valid t ORgb rb gb bb H Hk r g b) as Hv.
    destruct (raw_fits_wf t H _ Hv) as [_ ->]. rewrite (rgb_new_pack t ORgb rb gb bb H Hk).
    unfold pack3. rewrite Z.pow_add_r by lia. ring.
  - intros c. pose proof (rgb_get t ORgb rb gb bb H Hk c) as G. cbv beta iota in G.
    rewrite (Z.add_comm gb bb). exact G.
Qed.

(* Bgr types: blue in the most significant used bits, red in the least significant *)
Lemma layout_bgr_wf t : row_wf t = true -> is_rgb_order t OBgr = true ->
  let rb := rbits t in let gb := gbits t in let bb := bbits t in
  (forall r g b, to_raw t (rgb_new t r g b) = (b mod 2 ^ bb) * 2 ^ (rb + gb) + (g mod 2 ^ gb) * 2 ^ rb + r mod 2 ^ rb) /\
  (forall c, get_b t c = (c / 2 ^ (rb + gb)) mod 2 ^ bb /\ get_g t c = (c / 2 ^ rb) mod 2 ^ gb /\ get_r t c = c mod 2 ^ rb) /\
  bpos t + bb = used_bits t /\ gpos t + gb = bpos t /\ rpos t + rb = gpos t /\ rpos t = 0.
Proof.
  intros H Ho. destruct (is_rgb_order_kind t OBgr Ho) as (rb & gb & bb & Hk).
  destruct (rgb_bits t OBgr rb gb bb Hk) as (-> & -> & -> & ->). cbv zeta.
  pose proof (wf_rgb t OBgr rb gb bb H Hk) as F. destruct F. destruct rf_pos0 as (-> & -> & ->).
  split; [|split; [|lia]].
  - intros r g b. pose proof (rgb_new_valid t OBgr rb gb bb H Hk r g b) as Hv.
    destruct (raw_fits_wf t H _ Hv) as [_ ->]. rewrite (rgb_new_pack t OBgr rb gb bb H Hk).
    unfold pack3. rewrite Z.pow_add_r by lia. ring.
  - intros c. pose proof (rgb_get t OBgr rb gb bb H Hk c) as G. cbv beta iota in G. tauto.
Qed.

(* ================================================================= 7. C12: bytes *)
(* the four shapes of ToBytes impls (to_bytes.rs): whole u8 / u16 / u32 array, or 3 of the 4 bytes of a u32
   (be: [1..4], le: [0..3]); the row must be one of them and its BITS_PER_PIXEL must fit the bytes kept *)
Definition shape_is (w : rawrow) (sb nb bl bh ll lh : Z) : bool :=
  (raw_sbits w =? sb) && (raw_nbytes w =? nb) && (raw_be_lo w =? bl) && (raw_be_hi w =? bh)
  && (raw_le_lo w =? ll) && (raw_le_hi w =? lh) && (raw_bpp w <=? 8 * nb) && (8 * (nb - 1) <? raw_bpp w).
Definition bytes_wf (w : rawrow) : bool :=
  shape_is w 8 1 0 1 0 1 || shape_is w 16 2 0 2 0 2 || shape_is w 32 3 1 4 0 3 || shape_is w 32 4 0 4 0 4.

Lemma table_bytes_wf : forallb (fun t => bytes_wf (c_raw t)) color_table = true.
Proof. vm_compute. reflexivity. Qed.

Lemma shape_is_eq w sb nb bl bh ll lh : shape_is w sb nb bl bh ll lh = true ->
  raw_sbits w = sb /\ raw_nbytes w = nb /\ raw_be_lo w = bl /\ raw_be_hi w = bh /\ raw_le_lo w = ll /\ raw_le_hi w = lh
  /\ 8 * (nb - 1) < raw_bpp w <= 8 * nb.
Proof. unfold shape_is. lia. Qed.

Ltac bytes_compute :=
  unfold raw_to_be_bytes, raw_to_le_bytes, storage_be_bytes, storage_le_bytes, slice, range;
  repeat match goal with
  | |- context [Z.to_nat ?e] => let v := eval vm_compute in (Z.to_nat e) in change (Z.to_nat e) with v
  end;
  cbn [range_from map firstn skipn be_value le_value fold_left fold_right length];
  repeat match goal with
  | |- context [Z.shiftr ?x ?e] =>
      let v := eval vm_compute in e in
      let p := eval vm_compute in (2 ^ v) in
      replace (Z.shiftr x e) with (x / p) by (change p with (2 ^ v); symmetry; apply Z.shiftr_div_pow2; discriminate)
  end.

Lemma raw_bytes_agree w x : bytes_wf w = true -> 0 <= x < 2 ^ raw_bpp w ->
  be_value (raw_to_be_bytes w x) = x /\ le_value (raw_to_le_bytes w x) = x /\
  Z.of_nat (length (raw_to_be_bytes w x)) = raw_nbytes w /\ Z.of_nat (length (raw_to_le_bytes w x)) = raw_nbytes w /\
  8 * (raw_nbytes w - 1) < raw_bpp w <= 8 * raw_nbytes w.
Proof.
  unfold bytes_wf. intros H Hx.
  assert (forall n, raw_bpp w <= n -> 0 <= x < 2 ^ n) as Hle.
  { intros n Hn. assert (2 ^ raw_bpp w <= 2 ^ n) by (apply Z.pow_le_mono_r; lia). lia. }
  repeat (apply orb_prop in H; destruct H as [H | H]);
    apply shape_is_eq in H; destruct H as (Hs & Hn & Hbl & Hbh & Hll & Hlh & Hb);
    (split; [|split; [|split; [|split]]]); try lia;
    unfold raw_to_be_bytes, raw_to_le_bytes; rewrite ?Hs, ?Hn, ?Hbl, ?Hbh, ?Hll, ?Hlh.
  all: try (bytes_compute; reflexivity).
  all: bytes_compute.
  all: first [ pose proof (Hle 8 ltac:(lia)) as Hx8; change (2 ^ 8) with 256 in Hx8
             | pose proof (Hle 16 ltac:(lia)) as Hx8; change (2 ^ 16) with 65536 in Hx8
             | pose proof (Hle 24 ltac:(lia)) as Hx8; change (2 ^ 24) with 16777216 in Hx8
             | pose proof (Hle 32 ltac:(lia)) as Hx8; change (2 ^ 32) with 4294967296 in Hx8 ].
  all: clear Hle Hx Hb; Z.div_mod_to_equations; lia.
Qed.

(* the lists are lists of bytes, and the little-endian list is the big-endian one reversed (for any x) *)
Definition byte (x : Z) : Prop := 0 <= x < 256.
Lemma raw_bytes_shape w x : bytes_wf w = true ->
  Forall byte (raw_to_be_bytes w x) /\ raw_to_le_bytes w x = rev (raw_to_be_bytes w x).
Proof.
  unfold bytes_wf. intros H.
  repeat (apply orb_prop in H; destruct H as [H | H]);
    apply shape_is_eq in H; destruct H as (Hs & Hn & Hbl & Hbh & Hll & Hlh & Hb);
    unfold raw_to_be_bytes, raw_to_le_bytes; rewrite ?Hs, ?Hn, ?Hbl, ?Hbh, ?Hll, ?Hlh;
    bytes_compute; (split; [|reflexivity]);
    repeat (apply Forall_cons; [apply Z.mod_pos_bound; reflexivity|]); apply Forall_nil.
Qed.

Lemma bytes_agree_wf t : row_wf t = true -> bytes_wf (c_raw t) = true -> forall c, valid t c ->
  be_value (to_be_bytes t c) = into_storage t c /\
  le_value (to_le_bytes t c) = into_storage t c /\
  into_storage t c = to_raw t c /\
  Z.of_nat (length (to_be_bytes t c)) = raw_nbytes (c_raw t) /\
  Z.of_nat (length (to_le_bytes t c)) = raw_nbytes (c_raw t) /\
  8 * (raw_nbytes (c_raw t) - 1) < bpp t <= 8 * raw_nbytes (c_raw t) /\
  Forall byte (to_be_bytes t c) /\ to_le_bytes t c = rev (to_be_bytes t c).
Proof.
  intros H Hb c Hv. unfold to_be_bytes, to_le_bytes, into_storage.
  destruct (raw_fits_wf t H c Hv) as [Hf _].
  pose proof (raw_bytes_agree (c_raw t) (to_raw t c) Hb Hf).
  pose proof (raw_bytes_shape (c_raw t) (to_raw t c) Hb). unfold bpp. tauto.
Qed.

(* ================================================================= 8. C12 over the regenerated table *)
Lemma in_table_bytes_wf t : In t color_table -> bytes_wf (c_raw t) = true.
Proof. intros H. exact (proj1 (forallb_forall _ color_table) table_bytes_wf t H). Qed.

Lemma c12_raw_roundtrip : forall t, In t color_table -> forall c, valid t c -> from_raw t (to_raw t c) = c.
Proof. intros t Ht. apply raw_roundtrip_wf, in_table_wf, Ht. Qed.

Lemma c12_raw_fits : forall t, In t color_table -> forall c, valid t c ->
  0 <= to_raw t c < 2 ^ bpp t /\ to_raw t c = c.
Proof. intros t Ht. apply raw_fits_wf, in_table_wf, Ht. Qed.

Lemma c12_from_raw_valid : forall t, In t color_table -> forall v, valid t (from_raw t (raw_new t v)).
Proof. intros t Ht. apply from_raw_valid_wf, in_table_wf, Ht. Qed.

(* #[derive(Default)] / BinaryColor::default(): the all-zero value is a colour of every type, and it is BLACK / Off *)
Lemma c12_default_valid : forall t, In t color_table -> valid t 0 /\ color_black t = 0.
Proof.
  intros t Ht. pose proof (used_le_bpp t (in_table_wf t Ht)). split.
  - unfold valid. pose proof (pow2_pos (used_bits t)). lia.
  - clear H. revert t Ht. apply Forall_forall. vm_compute. repeat constructor.
Qed.

Lemma c12_raw_idem : forall t, In t color_table -> forall v,
  let d := to_raw t (from_raw t (raw_new t v)) in
  d = Z.land v (Z.ones (used_bits t)) /\ to_raw t (from_raw t (raw_new t d)) = d /\
  0 <= used_bits t <= bpp t /\ bpp t <= sbits t.
Proof.
  intros t Ht v d. pose proof (in_table_wf t Ht) as H. split; [apply raw_idem_wf, H|].
  split; [apply (raw_idem2_wf t H v)|]. pose proof (used_le_bpp t H). pose proof (wf_raw t H). lia.
Qed.

Lemma c12_new_channels : forall t, In t color_table -> is_rgb t = true -> forall r g b,
  get_r t (rgb_new t r g b) = r mod 2 ^ rbits t /\
  get_g t (rgb_new t r g b) = g mod 2 ^ gbits t /\
  get_b t (rgb_new t r g b) = b mod 2 ^ bbits t /\
  valid t (rgb_new t r g b).
Proof. intros t Ht. apply new_channels_wf, in_table_wf, Ht. Qed.

Lemma c12_new_of_channels : forall t, In t color_table -> is_rgb t = true -> forall c, valid t c ->
  rgb_new t (get_r t c) (get_g t c) (get_b t c) = c /\
  0 <= get_r t c <= max_r t /\ 0 <= get_g t c <= max_g t /\ 0 <= get_b t c <= max_b t.
Proof. intros t Ht. apply new_of_channels_wf, in_table_wf, Ht. Qed.

Lemma c12_gray_new : forall t, In t color_table -> is_gray t = true -> forall l,
  luma_of t (gray_new t l) = l mod 2 ^ bpp t /\ valid t (gray_new t l) /\ max_luma t = 2 ^ bpp t - 1.
Proof. intros t Ht. apply gray_new_wf, in_table_wf, Ht. Qed.

Lemma c12_layout_rgb : forall t, In t color_table -> is_rgb_order t ORgb = true ->
  let rb := rbits t in let gb := gbits t in let bb := bbits t in
  (forall r g b, to_raw t (rgb_new t r g b) = (r mod 2 ^ rb) * 2 ^ (gb + bb) + (g mod 2 ^ gb) * 2 ^ bb + b mod 2 ^ bb) /\
  (forall c, get_r t c = (c / 2 ^ (gb + bb)) mod 2 ^ rb /\ get_g t c = (c / 2 ^ bb) mod 2 ^ gb /\ get_b t c = c mod 2 ^ bb) /\
  rpos t + rb = used_bits t /\ gpos t + gb = rpos t /\ bpos t + bb = gpos t /\ bpos t = 0.
Proof. intros t Ht. apply layout_rgb_wf, in_table_wf, Ht. Qed.

Lemma c12_layout_bgr : forall t, In t color_table -> is_rgb_order t OBgr = true ->
  let rb := rbits t in let gb := gbits t in let bb := bbits t in
  (forall r g b, to_raw t (rgb_new t r g b) = (b mod 2 ^ bb) * 2 ^ (rb + gb) + (g mod 2 ^ gb) * 2 ^ rb + r mod 2 ^ rb) /\
  (forall c, get_b t c = (c / 2 ^ (rb + gb)) mod 2 ^ bb /\ get_g t c = (c / 2 ^ rb) mod 2 ^ gb /\ get_r t c = c mod 2 ^ rb) /\
  bpos t + bb = used_bits t /\ gpos t + gb = bpos t /\ rpos t + rb = gpos t /\ rpos t = 0.
Proof. intros t Ht. apply layout_bgr_wf, in_table_wf, Ht. Qed.

Lemma c12_bytes_agree : forall t, In t color_table -> forall c, valid t c ->
  be_value (to_be_bytes t c) = into_storage t c /\
  le_value (to_le_bytes t c) = into_storage t c /\
  into_storage t c = to_raw t c /\
  Z.of_nat (length (to_be_bytes t c)) = raw_nbytes (c_raw t) /\
  Z.of_nat (length (to_le_bytes t c)) = raw_nbytes (c_raw t) /\
  8 * (raw_nbytes (c_raw t) - 1) < bpp t <= 8 * raw_nbytes (c_raw t) /\
  Forall byte (to_be_bytes t c) /\ to_le_bytes t c = rev (to_be_bytes t c).
Proof. intros t Ht. apply bytes_agree_wf; [apply in_table_wf, Ht | apply in_table_bytes_wf, Ht]. Qed.

(* BinaryColor: Off <-> raw 0, On <-> raw 1, any non-zero raw is On *)
Lemma c12_binary : forall t, In t color_table -> c_kind t = KBinary ->
  to_raw t bin_off = 0 /\ to_raw t bin_on = 1 /\ from_raw t 0 = bin_off /\
  (forall d, d <> 0 -> from_raw t d = bin_on) /\ bpp t = 1.
Proof.
  intros t Ht Hk. pose proof (in_table_wf t Ht) as H.
  destruct (wf_bin t H Hk) as (Hbpp & Hz & Hoff & Hon & Hu).
  unfold to_raw, from_raw. rewrite Hk, !raw_new_mod, Hbpp, Hz, Hoff, Hon by assumption.
  repeat split; try reflexivity. intros d Hd. destruct (Z.eqb_spec d 0); [contradiction | reflexivity].
Qed.

(* the table has the 14 built-in types: 1 binary, 3 gray, 6 Rgb-ordered, 4 Bgr-ordered *)
Lemma c12_table_census :
  length color_table = 14%nat /\
  length (filter (fun t => match c_kind t with KBinary => true | _ => false end) color_table) = 1%nat /\
  length (filter is_gray color_table) = 3%nat /\
  length (filter (fun t => is_rgb_order t ORgb) color_table) = 6%nat /\
  length (filter (fun t => is_rgb_order t OBgr) color_table) = 4%nat /\
  NoDup (map c_id color_table) /\ NoDup (map c_name color_table).
Proof.
  repeat split; try (vm_compute; reflexivity).
  - vm_compute. repeat (constructor; [cbn; intuition discriminate|]). constructor.
  - vm_compute. repeat (constructor; [cbn; intuition discriminate|]). constructor.
Qed.

(* the documented format of a type is its name: "Rgb565" = red 5, green 6, blue 5 bits, red first;
   "Bgr565" blue first; "Gray4" = 4 bits; RGB types use the smallest whole number of bytes *)
Definition documented_name (t : crow) : list Z :=
  match c_kind t with
  | KRgb ORgb r g b => [82; 103; 98; 48 + r; 48 + g; 48 + b]
  | KRgb OBgr r g b => [66; 103; 114; 48 + r; 48 + g; 48 + b]
  | KGray => [71; 114; 97; 121; 48 + bpp t]
  | KBinary => [66; 105; 110; 97; 114; 121; 67; 111; 108; 111; 114]
  end.
Definition name_ok (t : crow) : bool :=
  list_eqb (c_name t) (documented_name t) &&
  (if is_rgb t then bpp t =? 8 * ((used_bits t + 7) / 8) else true).

Lemma list_eqb_eq a : forall b, list_eqb a b = true -> a = b.
Proof.
  induction a as [|x a IH]; intros [|y b] H; try discriminate; auto.
  cbn in H. apply andb_prop in H. destruct H as [H1 H2]. apply Z.eqb_eq in H1. f_equal; auto.
Qed.

Lemma table_names : forallb name_ok color_table = true.
Proof. vm_compute. reflexivity. Qed.

Lemma c12_names_document_layout : forall t, In t color_table ->
  c_name t = documented_name t /\ (is_rgb t = true -> bpp t = 8 * ((used_bits t + 7) / 8)).
Proof.
  intros t Ht. pose proof (proj1 (forallb_forall _ color_table) table_names t Ht) as H.
  unfold name_ok in H. apply andb_prop in H. destruct H as [H1 H2]. split; [apply list_eqb_eq, H1|].
  intros Hr. rewrite Hr in H2. lia.
Qed.

(* ================================================================= 9. C13: convert_channel *)
(* everything the property says about one channel, for one (from bits, to bits, value), as a boolean *)
Definition cc_check (fb tb v : Z) : bool :=
  let fm := 2 ^ fb - 1 in let tm := 2 ^ tb - 1 in
  let r := convert_channel fm tm v in
  (0 <=? r) && (r <=? tm)
  && (2 * Z.abs (r * fm - v * tm) <=? fm)                               (* nearest *)
  && (if v =? 0 then r =? 0 else true) && (if v =? fm then r =? tm else true)   (* ends *)
  && (if fb <=? tb then convert_channel tm fm r =? v else true)          (* widen, then narrow *)
  && (v * (Z.shiftl tm cc_shift / fm) + Z.shiftl cc_half_base (cc_shift - cc_half_sub) <? 2 ^ 32)  (* u32 *)
  && (Z.shiftl tm cc_shift <? 2 ^ 32).

Lemma cc_check_all_true :
  forallb (fun fb => forallb (fun tb => forallb (cc_check fb tb) (range 0 (2 ^ fb))) (range 1 9)) (range 1 9) = true.
Proof. vm_cast_no_check (eq_refl true). Qed.

Lemma forallb_range (P : Z -> bool) a b x : forallb P (range a b) = true -> a <= x < b -> P x = true.
Proof. intros H Hx. rewrite forallb_forall in H. apply H, In_range, Hx. Qed.

Lemma cc_check_true fb tb v : 1 <= fb <= 8 -> 1 <= tb <= 8 -> 0 <= v <= 2 ^ fb - 1 -> cc_check fb tb v = true.
Proof.
  intros Hf Ht Hv.
  assert (Hf' : 1 <= fb < 9) by lia. assert (Ht' : 1 <= tb < 9) by lia. assert (Hv' : 0 <= v < 2 ^ fb) by lia.
  pose proof (forallb_range _ 1 9 fb cc_check_all_true Hf') as H1. cbv beta in H1.
  pose proof (forallb_range _ 1 9 tb H1 Ht') as H2. cbv beta in H2.
  exact (forallb_range _ 0 (2 ^ fb) v H2 Hv').
Qed.

Lemma cc_spec fb tb v : 1 <= fb <= 8 -> 1 <= tb <= 8 -> 0 <= v <= 2 ^ fb - 1 ->
  let fm := 2 ^ fb - 1 in let tm := 2 ^ tb - 1 in
  let r := convert_channel fm tm v in
  0 <= r <= tm /\ 2 * Z.abs (r * fm - v * tm) <= fm /\
  (v = 0 -> r = 0) /\ (v = fm -> r = tm) /\ (fb <= tb -> convert_channel tm fm r = v) /\
  v * (Z.shiftl tm cc_shift / fm) + Z.shiftl cc_half_base (cc_shift - cc_half_sub) < 2 ^ 32.
Proof.
  intros Hf Ht Hv fm tm r. pose proof (cc_check_true fb tb v Hf Ht Hv) as H. unfold cc_check in H.
  fold fm tm in H. fold r in H.
  repeat (apply andb_prop in H; let H' := fresh in destruct H as [H H']).
  repeat split; try lia.
  - intros ->. rewrite Z.eqb_refl in *. lia.
  - intros E. rewrite E, Z.eqb_refl in *. lia.
  - intros E. apply Z.leb_le in E. rewrite E in *. lia.
Qed.

(* rounding to nearest is monotone (from cc_spec, no further computation) *)
Lemma cc_mono fb tb v1 v2 : 1 <= fb <= 8 -> 1 <= tb <= 8 -> 0 <= v1 -> v1 <= v2 -> v2 <= 2 ^ fb - 1 ->
  convert_channel (2 ^ fb - 1) (2 ^ tb - 1) v1 <= convert_channel (2 ^ fb - 1) (2 ^ tb - 1) v2.
Proof.
  intros Hf Ht H0 H12 H2.
  destruct (Z.eq_dec v1 v2) as [-> | Hne]; [lia|].
  destruct (cc_spec fb tb v1 Hf Ht ltac:(lia)) as (_ & N1 & _).
  destruct (cc_spec fb tb v2 Hf Ht ltac:(lia)) as (_ & N2 & _).
  cbv zeta in *.
  assert (1 <= 2 ^ fb - 1) by (pose proof (Z.pow_le_mono_r 2 1 fb); lia).
  assert (1 <= 2 ^ tb - 1) by (pose proof (Z.pow_le_mono_r 2 1 tb); lia).
  generalize dependent (convert_channel (2 ^ fb - 1) (2 ^ tb - 1) v1).
  generalize dependent (convert_channel (2 ^ fb - 1) (2 ^ tb - 1) v2).
  generalize dependent (2 ^ fb - 1). generalize dependent (2 ^ tb - 1).
  intros tm Htm fm Hfm Hv2 r2 N2 r1 N1.
  destruct (Z_le_gt_dec r1 r2); [assumption|exfalso].
  assert ((v2 - v1) * tm >= tm) by nia. nia.
Qed.

(* ================================================================= 10. C13: rows and pairs of the regenerated table *)
Definition rawrow_eq_dec (x y : rawrow) : {x = y} + {x <> y}.
Proof. decide equality; try apply Z.eq_dec; apply (list_eq_dec Z.eq_dec). Defined.
Definition ckind_eq_dec (x y : ckind) : {x = y} + {x <> y}.
Proof. decide equality; try apply Z.eq_dec. decide equality. Defined.
Definition crow_eq_dec (x y : crow) : {x = y} + {x <> y}.
Proof. decide equality; [apply rawrow_eq_dec | apply ckind_eq_dec | apply (list_eq_dec Z.eq_dec) | apply Z.eq_dec]. Defined.
Definition crow_eqb (x y : crow) : bool := if crow_eq_dec x y then true else false.
Definition in_table (t : crow) : bool := existsb (crow_eqb t) color_table.

Lemma in_table_In t : in_table t = true -> In t color_table.
Proof.
  unfold in_table. rewrite existsb_exists. intros (x & Hx & E). unfold crow_eqb in E.
  destruct (crow_eq_dec t x); [subst; assumption | discriminate].
Qed.

Definition is_bin (t : crow) : bool := match c_kind t with KBinary => true | _ => false end.
Definition chan_pos (t : crow) : bool :=
  match c_kind t with KRgb _ r g b => (1 <=? r) && (1 <=? g) && (1 <=? b) | _ => true end.
(* a row with the id of via_rgb / via_gray IS that row (ids are the model of type identity in into_or) *)
Definition id_ok (t : crow) : bool :=
  (if c_id t =? c_id via_rgb then crow_eqb t via_rgb else true) &&
  (if c_id t =? c_id via_gray then crow_eqb t via_gray else true).
Definition good_row (t : crow) : bool := row_wf t && chan_pos t && id_ok t && in_table t.
Definition family_kinds (f : family) (a b : crow) : bool :=
  match f with
  | FRgbRgb => is_rgb a && is_rgb b
  | FGrayGray => is_gray a && is_gray b
  | FGrayRgb => is_gray a && is_rgb b
  | FRgbGray => is_rgb a && is_gray b
  | FBinAny => is_bin a && (is_rgb b || is_gray b)
  | FGrayBin => is_gray a && is_bin b
  | FRgbBin => is_rgb a && is_bin b
  end.
Definition pair_wf (p : family * crow * crow) : bool :=
  let '(f, a, b) := p in
  good_row a && good_row b && negb (c_id a =? c_id b) && family_kinds f a b.

Lemma pairs_wf : forallb pair_wf conv_pairs = true.
Proof. vm_cast_no_check (eq_refl true). Qed.

Lemma pair_facts f a b : In (f, a, b) conv_pairs ->
  good_row a = true /\ good_row b = true /\ c_id a <> c_id b /\ family_kinds f a b = true.
Proof.
  intros H. pose proof (proj1 (forallb_forall _ conv_pairs) pairs_wf _ H) as W. unfold pair_wf in W.
  apply andb_prop in W. destruct W as [W W4]. apply andb_prop in W. destruct W as [W W3].
  apply andb_prop in W. destruct W as [W1 W2].
  split; [exact W1|]. split; [exact W2|]. split; [|exact W4].
  intros E. rewrite E, Z.eqb_refl in W3. discriminate.
Qed.

Lemma good_row_facts t : good_row t = true -> row_wf t = true /\ chan_pos t = true /\ id_ok t = true /\ In t color_table.
Proof.
  unfold good_row. intros W.
  apply andb_prop in W. destruct W as [W W4]. apply andb_prop in W. destruct W as [W W3].
  apply andb_prop in W. destruct W as [W1 W2].
  repeat split; auto. apply in_table_In. assumption.
Qed.

(* the two types the rgb -> gray / binary conversions go through: Rgb888 and Gray8 *)
Lemma via_facts :
  good_row via_rgb = true /\ is_rgb via_rgb = true /\ max_r via_rgb = 255 /\ max_g via_rgb = 255 /\ max_b via_rgb = 255 /\
  good_row via_gray = true /\ is_gray via_gray = true /\ max_luma via_gray = 255 /\ bpp via_gray = 8.
Proof. vm_compute. repeat split; reflexivity. Qed.

Lemma rgb_max t : row_wf t = true -> chan_pos t = true -> is_rgb t = true ->
  (1 <= rbits t <= 8 /\ max_r t = 2 ^ rbits t - 1) /\
  (1 <= gbits t <= 8 /\ max_g t = 2 ^ gbits t - 1) /\
  (1 <= bbits t <= 8 /\ max_b t = 2 ^ bbits t - 1).
Proof.
  intros H Hp Hr. destruct (is_rgb_kind t Hr) as (o & rb & gb & bb & Hk).
  destruct (rgb_bits t o rb gb bb Hk) as (-> & -> & -> & _).
  destruct (wf_rgb t o rb gb bb H Hk). unfold chan_pos in Hp. rewrite Hk in Hp.
  rewrite rf_maxr0, rf_maxg0, rf_maxb0, !Z.ones_equiv. lia.
Qed.

Lemma gray_max t : row_wf t = true -> is_gray t = true ->
  1 <= bpp t <= 8 /\ max_luma t = 2 ^ bpp t - 1 /\ (forall c, valid t c <-> 0 <= luma_of t c <= max_luma t).
Proof.
  intros H Hg. unfold is_gray in Hg. destruct (c_kind t) eqn:Hk; try discriminate.
  destruct (wf_gray t H Hk) as (Hb & Hm & Hu). rewrite Hm, Z.ones_equiv.
  split; [lia|]. split; [lia|]. intros c. unfold valid, luma_of. rewrite Hu. lia.
Qed.

(* channels of a valid rgb colour are within their maxima *)
Lemma rgb_chan_range t c : row_wf t = true -> is_rgb t = true -> valid t c ->
  0 <= get_r t c <= max_r t /\ 0 <= get_g t c <= max_g t /\ 0 <= get_b t c <= max_b t.
Proof. intros H Hr Hv. apply (new_of_channels_wf t H Hr c Hv). Qed.

(* new() of in-range channels returns them *)
Lemma rgb_new_small t r g b : row_wf t = true -> chan_pos t = true -> is_rgb t = true ->
  0 <= r <= max_r t -> 0 <= g <= max_g t -> 0 <= b <= max_b t ->
  get_r t (rgb_new t r g b) = r /\ get_g t (rgb_new t r g b) = g /\ get_b t (rgb_new t r g b) = b /\ valid t (rgb_new t r g b).
Proof.
  intros H Hp Hr Rr Rg Rb. destruct (rgb_max t H Hp Hr) as ((? & Er) & (? & Eg) & (? & Eb)).
  destruct (new_channels_wf t H Hr r g b) as (-> & -> & -> & Hv).
  rewrite !Z.mod_small by lia. auto.
Qed.

(* ================================================================= 11. C13: conversions, channel by channel *)
Section ConvRows.
  Variables a b : crow.
  Hypothesis Wa : row_wf a = true.
  Hypothesis Wb : row_wf b = true.
  Hypothesis Pa : chan_pos a = true.
  Hypothesis Pb : chan_pos b = true.

  Lemma conv_rgb_rgb_channels c : is_rgb a = true -> is_rgb b = true -> valid a c ->
    let c' := conv_rgb_rgb a b c in
    valid b c' /\
    get_r b c' = convert_channel (max_r a) (max_r b) (get_r a c) /\
    get_g b c' = convert_channel (max_g a) (max_g b) (get_g a c) /\
    get_b b c' = convert_channel (max_b a) (max_b b) (get_b a c).
  Proof.
    intros Ra Rb Hv. destruct (rgb_max a Wa Pa Ra) as ((Har & Ear) & (Hag & Eag) & (Hab & Eab)).
    destruct (rgb_max b Wb Pb Rb) as ((Hbr & Ebr) & (Hbg & Ebg) & (Hbb & Ebb)).
    destruct (rgb_chan_range a c Wa Ra Hv) as (Cr & Cg & Cb).
    cbv zeta. unfold conv_rgb_rgb.
    rewrite Ear in Cr. rewrite Eag in Cg. rewrite Eab in Cb.
    destruct (cc_spec _ _ _ Har Hbr Cr) as (B1 & _).
    destruct (cc_spec _ _ _ Hag Hbg Cg) as (B2 & _).
    destruct (cc_spec _ _ _ Hab Hbb Cb) as (B3 & _).
    cbv zeta in B1, B2, B3. rewrite <- Ear, <- Ebr in B1. rewrite <- Eag, <- Ebg in B2. rewrite <- Eab, <- Ebb in B3.
    destruct (rgb_new_small b _ _ _ Wb Pb Rb B1 B2 B3) as (-> & -> & -> & V). auto.
  Qed.

  Lemma conv_gray_gray_channels c : is_gray a = true -> is_gray b = true -> valid a c ->
    let c' := conv_gray_gray a b c in
    valid b c' /\ luma_of b c' = convert_channel (max_luma a) (max_luma b) (luma_of a c).
  Proof.
    intros Ga Gb Hv. destruct (gray_max a Wa Ga) as (Ha & Ea & Va). destruct (gray_max b Wb Gb) as (Hb & Eb & Vb).
    apply Va in Hv. cbv zeta. unfold conv_gray_gray.
    destruct (gray_new_wf b Wb Gb (convert_channel (max_luma a) (max_luma b) (luma_of a c))) as (-> & V & _).
    split; [exact V|]. rewrite Ea in Hv.
    destruct (cc_spec _ _ _ Ha Hb Hv) as (B1 & _). cbv zeta in B1. rewrite Ea, Eb.
    apply Z.mod_small. clear - B1. lia.
  Qed.

  Lemma conv_gray_rgb_channels c : is_gray a = true -> is_rgb b = true -> valid a c ->
    let c' := conv_gray_rgb a b c in
    valid b c' /\
    get_r b c' = convert_channel (max_luma a) (max_r b) (luma_of a c) /\
    get_g b c' = convert_channel (max_luma a) (max_g b) (luma_of a c) /\
    get_b b c' = convert_channel (max_luma a) (max_b b) (luma_of a c).
  Proof.
    intros Ga Rb Hv. destruct (gray_max a Wa Ga) as (Ha & Ea & Va). apply Va in Hv.
    destruct (rgb_max b Wb Pb Rb) as ((Hbr & Ebr) & (Hbg & Ebg) & (Hbb & Ebb)).
    cbv zeta. unfold conv_gray_rgb. rewrite Ea in Hv.
    destruct (cc_spec _ _ _ Ha Hbr Hv) as (B1 & _).
    destruct (cc_spec _ _ _ Ha Hbg Hv) as (B2 & _).
    destruct (cc_spec _ _ _ Ha Hbb Hv) as (B3 & _).
    cbv zeta in B1, B2, B3. rewrite <- Ea, <- Ebr in B1. rewrite <- Ea, <- Ebg in B2. rewrite <- Ea, <- Ebb in B3.
    destruct (rgb_new_small b _ _ _ Wb Pb Rb B1 B2 B3) as (-> & -> & -> & V). auto.
  Qed.
End ConvRows.

(* ================================================================= 12. C13: luma *)
Lemma luma888_lumaf c : luma888 c = lumaf (get_r via_rgb c) (get_g via_rgb c) (get_b via_rgb c).
Proof. reflexivity. Qed.

(* the constants of the regenerated Gen/ColorConsts.v: non-negative weights that sum to the divisor, rounding
   constant half the divisor, no overflow of u16 (and of the final `as u8`) for channels up to 255 *)
Definition luma_consts_ok : bool :=
  (0 <=? luma_wr) && (0 <=? luma_wg) && (0 <=? luma_wb) && (0 <=? luma_round) && (luma_round <? luma_div)
  && (luma_wr + luma_wg + luma_wb =? luma_div) && (2 * luma_round =? luma_div)
  && ((luma_wr + luma_wg + luma_wb) * 255 + luma_round <? 65536)
  && ((luma_wr + luma_wg + luma_wb) * 255 + luma_round <? 256 * luma_div).

Lemma luma_consts : luma_consts_ok = true.
Proof. vm_compute. reflexivity. Qed.

Lemma lumaf_plain r g b : 0 <= r <= 255 -> 0 <= g <= 255 -> 0 <= b <= 255 ->
  lumaf r g b = (r * luma_wr + g * luma_wg + b * luma_wb + luma_round) / luma_div /\
  0 <= lumaf r g b <= 255 /\ r * luma_wr + g * luma_wg + b * luma_wb + luma_round < 65536.
Proof.
  intros Hr Hg Hb. pose proof luma_consts as K. unfold luma_consts_ok in K. unfold lumaf, as_u8.
  generalize dependent luma_wr. generalize dependent luma_wg. generalize dependent luma_wb.
  generalize dependent luma_round. generalize dependent luma_div. intros dv rd wb wg wr K.
  assert (0 <= r * wr + g * wg + b * wb + rd < 256 * dv) as Hs by nia.
  assert (r * wr + g * wg + b * wb + rd < 65536) by nia.
  assert (0 < dv) by lia.
  assert (0 <= (r * wr + g * wg + b * wb + rd) / dv < 256) as Hq.
  { split; [apply Z.div_pos; lia | apply Z.div_lt_upper_bound; lia]. }
  rewrite Z.mod_small by lia. lia.
Qed.

Lemma lumaf_mono r1 g1 b1 r2 g2 b2 :
  0 <= r1 <= r2 -> r2 <= 255 -> 0 <= g1 <= g2 -> g2 <= 255 -> 0 <= b1 <= b2 -> b2 <= 255 ->
  lumaf r1 g1 b1 <= lumaf r2 g2 b2.
Proof.
  intros. destruct (lumaf_plain r1 g1 b1) as (-> & _); try lia. destruct (lumaf_plain r2 g2 b2) as (-> & _); try lia.
  pose proof luma_consts as K. unfold luma_consts_ok in K.
  apply Z.div_le_mono; [lia|]. nia.
Qed.

Lemma lumaf_gray g : 0 <= g <= 255 -> lumaf g g g = g.
Proof.
  intros Hg. destruct (lumaf_plain g g g) as (-> & _); try lia.
  pose proof luma_consts as K. unfold luma_consts_ok in K.
  replace (g * luma_wr + g * luma_wg + g * luma_wb + luma_round) with (luma_round + g * luma_div) by nia.
  rewrite Z.div_add by lia. rewrite Z.div_small by lia. lia.
Qed.

(* ================================================================= 13. C13: rgb -> gray, rgb -> binary *)
Lemma id_ok_rgb t : id_ok t = true -> c_id t = c_id via_rgb -> t = via_rgb.
Proof.
  unfold id_ok, crow_eqb. intros H E. apply Z.eqb_eq in E. rewrite E in H.
  destruct (crow_eq_dec t via_rgb); [assumption | discriminate].
Qed.
Lemma id_ok_gray t : id_ok t = true -> c_id t = c_id via_gray -> t = via_gray.
Proof.
  unfold id_ok, crow_eqb. intros H E. apply Z.eqb_eq in E. rewrite E in H.
  destruct (c_id via_gray =? c_id via_rgb); destruct (crow_eq_dec t via_gray); try assumption;
    try discriminate; rewrite andb_false_r in H; discriminate.
Qed.

(* convert_channel between equal maxima is the identity (by definition) *)
Lemma cc_same m v : convert_channel m m v = v.
Proof. unfold convert_channel. rewrite Z.eqb_refl. reflexivity. Qed.

(* `Rgb888::from(other)`: the reflexive impl (other is Rgb888) agrees with the channel-wise formula *)
Lemma into_via_rgb a c : good_row a = true -> is_rgb a = true -> valid a c ->
  let c' := into_or conv_rgb_rgb a via_rgb c in
  valid via_rgb c' /\
  get_r via_rgb c' = convert_channel (max_r a) 255 (get_r a c) /\
  get_g via_rgb c' = convert_channel (max_g a) 255 (get_g a c) /\
  get_b via_rgb c' = convert_channel (max_b a) 255 (get_b a c).
Proof.
  intros Ga Ra Hv. destruct (good_row_facts a Ga) as (Wa & Pa & Ia & _).
  destruct via_facts as (Gv & Rv & Mr & Mg & Mb & _). destruct (good_row_facts _ Gv) as (Wv & Pv & _).
  cbv zeta. unfold into_or. destruct (Z.eqb_spec (c_id a) (c_id via_rgb)) as [E | E].
  - apply (id_ok_rgb a Ia) in E. subst a. rewrite Mr, Mg, Mb, !cc_same. auto.
  - pose proof (conv_rgb_rgb_channels a via_rgb Wa Wv Pa Pv c Ra Rv Hv) as C. cbv zeta in C.
    rewrite Mr, Mg, Mb in C. exact C.
Qed.

(* `Gray8::new(intensity).into()` *)
Lemma from_via_gray b l : good_row b = true -> is_gray b = true -> 0 <= l <= 255 ->
  let c' := into_or conv_gray_gray via_gray b (gray_new via_gray l) in
  valid b c' /\ luma_of b c' = convert_channel 255 (max_luma b) l.
Proof.
  intros Gb Yb Hl. destruct (good_row_facts b Gb) as (Wb & Pb & Ib & _).
  destruct via_facts as (_ & _ & _ & _ & _ & Gv & Yv & Ml & Bv). destruct (good_row_facts _ Gv) as (Wv & Pv & _).
  destruct (gray_new_wf via_gray Wv Yv l) as (L & V & _). rewrite Bv, Z.mod_small in L by (change (2 ^ 8) with 256; lia).
  cbv zeta. unfold into_or. destruct (Z.eqb_spec (c_id via_gray) (c_id b)) as [E | E].
  - symmetry in E. apply (id_ok_gray b Ib) in E. subst b. rewrite Ml, cc_same. auto.
  - pose proof (conv_gray_gray_channels via_gray b Wv Wb (gray_new via_gray l) Yv Yb V) as C. cbv zeta in C.
    rewrite Ml, L in C. exact C.
Qed.

Lemma cc_to8 t c : row_wf t = true -> chan_pos t = true -> is_rgb t = true -> valid t c ->
  0 <= convert_channel (max_r t) 255 (get_r t c) <= 255 /\
  0 <= convert_channel (max_g t) 255 (get_g t c) <= 255 /\
  0 <= convert_channel (max_b t) 255 (get_b t c) <= 255.
Proof.
  intros W P R V. destruct (rgb_max t W P R) as ((Hr & Er) & (Hg & Eg) & (Hb & Eb)).
  destruct (rgb_chan_range t c W R V) as (Cr & Cg & Cb). rewrite Er in Cr. rewrite Eg in Cg. rewrite Eb in Cb.
  assert (H8 : 1 <= 8 <= 8) by lia.
  destruct (cc_spec _ _ _ Hr H8 Cr) as (B1 & _). destruct (cc_spec _ _ _ Hg H8 Cg) as (B2 & _).
  destruct (cc_spec _ _ _ Hb H8 Cb) as (B3 & _). cbv zeta in *. rewrite Er, Eg, Eb.
  change (2 ^ 8 - 1) with 255 in *. auto.
Qed.

Lemma luma_via_range a c : good_row a = true -> is_rgb a = true -> valid a c -> 0 <= luma_via a c <= 255.
Proof.
  intros Ga Ra Hv. destruct (good_row_facts a Ga) as (Wa & Pa & _).
  destruct (cc_to8 a c Wa Pa Ra Hv) as (B1 & B2 & B3). apply lumaf_plain; assumption.
Qed.

Lemma conv_rgb_gray_luma a b c : good_row a = true -> good_row b = true -> is_rgb a = true -> is_gray b = true -> valid a c ->
  let c' := conv_rgb_gray a b c in
  valid b c' /\ luma_of b c' = convert_channel 255 (max_luma b) (luma_via a c).
Proof.
  intros Ga Gb Ra Yb Hv. destruct (into_via_rgb a c Ga Ra Hv) as (V & Er & Eg & Eb). cbv zeta in *.
  unfold conv_rgb_gray. rewrite luma888_lumaf, Er, Eg, Eb. fold (luma_via a c).
  apply from_via_gray; auto. apply luma_via_range; auto.
Qed.

Lemma conv_rgb_bin_luma a c : good_row a = true -> is_rgb a = true -> valid a c ->
  conv_rgb_bin a c = bin_of_bool (luma_via a c >=? rgb_bin_threshold).
Proof.
  intros Ga Ra Hv. destruct (into_via_rgb a c Ga Ra Hv) as (V & Er & Eg & Eb). cbv zeta in *.
  unfold conv_rgb_bin. rewrite luma888_lumaf, Er, Eg, Eb. reflexivity.
Qed.

(* ================================================================= 14. C13 over the regenerated table *)
Lemma table_good : forallb good_row color_table = true.
Proof. vm_cast_no_check (eq_refl true). Qed.
Lemma in_table_good t : In t color_table -> good_row t = true.
Proof. intros H. exact (proj1 (forallb_forall _ color_table) table_good t H). Qed.

(* --- one channel *)
Lemma c13_channel_nearest : forall fb tb v, 1 <= fb <= 8 -> 1 <= tb <= 8 -> 0 <= v <= 2 ^ fb - 1 ->
  let fm := 2 ^ fb - 1 in let tm := 2 ^ tb - 1 in let r := convert_channel fm tm v in
  0 <= r <= tm /\ 2 * Z.abs (r * fm - v * tm) <= fm.
Proof. intros fb tb v Hf Ht Hv. destruct (cc_spec fb tb v Hf Ht Hv) as (B & N & _). auto. Qed.

Lemma c13_channel_mono : forall fb tb v1 v2, 1 <= fb <= 8 -> 1 <= tb <= 8 -> 0 <= v1 -> v1 <= v2 -> v2 <= 2 ^ fb - 1 ->
  convert_channel (2 ^ fb - 1) (2 ^ tb - 1) v1 <= convert_channel (2 ^ fb - 1) (2 ^ tb - 1) v2.
Proof. exact cc_mono. Qed.

Lemma pow2m1_ge1 n : 1 <= n -> 1 <= 2 ^ n - 1.
Proof. intros H. pose proof (Z.pow_le_mono_r 2 1 n ltac:(lia) H). lia. Qed.

Lemma c13_channel_ends : forall fb tb, 1 <= fb <= 8 -> 1 <= tb <= 8 ->
  convert_channel (2 ^ fb - 1) (2 ^ tb - 1) 0 = 0 /\ convert_channel (2 ^ fb - 1) (2 ^ tb - 1) (2 ^ fb - 1) = 2 ^ tb - 1.
Proof.
  intros fb tb Hf Ht. pose proof (pow2m1_ge1 fb ltac:(lia)).
  destruct (cc_spec fb tb 0 Hf Ht ltac:(lia)) as (_ & _ & E0 & _).
  destruct (cc_spec fb tb (2 ^ fb - 1) Hf Ht ltac:(lia)) as (_ & _ & _ & E1 & _). auto.
Qed.

Lemma c13_widen_narrow_id : forall fb tb v, 1 <= fb <= 8 -> 1 <= tb <= 8 -> fb <= tb -> 0 <= v <= 2 ^ fb - 1 ->
  convert_channel (2 ^ tb - 1) (2 ^ fb - 1) (convert_channel (2 ^ fb - 1) (2 ^ tb - 1) v) = v.
Proof. intros fb tb v Hf Ht Hle Hv. destruct (cc_spec fb tb v Hf Ht Hv) as (_ & _ & _ & _ & E & _). auto. Qed.

(* no intermediate of convert_channel leaves u32 (conversion.rs:13-16) *)
Lemma c13_channel_no_overflow : forall fb tb v, 1 <= fb <= 8 -> 1 <= tb <= 8 -> 0 <= v <= 2 ^ fb - 1 ->
  v * (Z.shiftl (2 ^ tb - 1) cc_shift / (2 ^ fb - 1)) + Z.shiftl cc_half_base (cc_shift - cc_half_sub) < 2 ^ 32.
Proof. intros fb tb v Hf Ht Hv. destruct (cc_spec fb tb v Hf Ht Hv) as (_ & _ & _ & _ & _ & E). auto. Qed.

(* the channel maxima of every row are 2^bits - 1 with 1 <= bits <= 8: the rows are instances of the channel theorems *)
Lemma c13_table_widths : forall t, In t color_table ->
  (is_rgb t = true -> (1 <= rbits t <= 8 /\ max_r t = 2 ^ rbits t - 1) /\ (1 <= gbits t <= 8 /\ max_g t = 2 ^ gbits t - 1) /\
                      (1 <= bbits t <= 8 /\ max_b t = 2 ^ bbits t - 1)) /\
  (is_gray t = true -> 1 <= bpp t <= 8 /\ max_luma t = 2 ^ bpp t - 1).
Proof.
  intros t Ht. destruct (good_row_facts t (in_table_good t Ht)) as (W & P & _). split.
  - intros R. apply rgb_max; assumption.
  - intros G. destruct (gray_max t W G) as (? & ? & _). auto.
Qed.

(* --- black and white *)
Definition bw_check (t : crow) : bool :=
  let k := color_black t in let w := color_white t in
  (0 <=? k) && (k <? 2 ^ used_bits t) && (0 <=? w) && (w <? 2 ^ used_bits t) &&
  match c_kind t with
  | KRgb _ _ _ _ => (get_r t k =? 0) && (get_g t k =? 0) && (get_b t k =? 0) &&
                    (get_r t w =? max_r t) && (get_g t w =? max_g t) && (get_b t w =? max_b t)
  | KGray => (luma_of t k =? 0) && (luma_of t w =? max_luma t)
  | KBinary => (k =? bin_off) && (w =? bin_on)
  end.
Lemma table_bw : forallb bw_check color_table = true.
Proof. vm_cast_no_check (eq_refl true). Qed.

Lemma c13_black_white_channels : forall t, In t color_table ->
  valid t (color_black t) /\ valid t (color_white t) /\
  (is_rgb t = true -> (get_r t (color_black t) = 0 /\ get_g t (color_black t) = 0 /\ get_b t (color_black t) = 0) /\
                      (get_r t (color_white t) = max_r t /\ get_g t (color_white t) = max_g t /\ get_b t (color_white t) = max_b t)) /\
  (is_gray t = true -> luma_of t (color_black t) = 0 /\ luma_of t (color_white t) = max_luma t) /\
  (c_kind t = KBinary -> color_black t = bin_off /\ color_white t = bin_on).
Proof.
  intros t Ht. pose proof (proj1 (forallb_forall _ color_table) table_bw t Ht) as H. unfold bw_check in H.
  unfold valid, is_rgb, is_gray. destruct (c_kind t); repeat split; intros; try discriminate; lia.
Qed.

Definition pair_bw_check (p : family * crow * crow) : bool :=
  let '(f, a, b) := p in
  (convert f a b (color_black a) =? color_black b) && (convert f a b (color_white a) =? color_white b).
Lemma pairs_bw : forallb pair_bw_check conv_pairs = true.
Proof. vm_cast_no_check (eq_refl true). Qed.

Lemma c13_black_white : forall f a b, In (f, a, b) conv_pairs ->
  convert f a b (color_black a) = color_black b /\ convert f a b (color_white a) = color_white b.
Proof.
  intros f a b H. pose proof (proj1 (forallb_forall _ conv_pairs) pairs_bw _ H) as W. cbn in W. lia.
Qed.

(* --- rgb -> rgb *)
Lemma rgb_pair_facts a b : In (FRgbRgb, a, b) conv_pairs ->
  row_wf a = true /\ row_wf b = true /\ chan_pos a = true /\ chan_pos b = true /\ is_rgb a = true /\ is_rgb b = true.
Proof.
  intros H. destruct (pair_facts _ _ _ H) as (Ga & Gb & _ & K). cbn in K. apply andb_prop in K.
  destruct (good_row_facts a Ga) as (? & ? & _). destruct (good_row_facts b Gb) as (? & ? & _). tauto.
Qed.

Lemma nearest_of_cc fb tb v fm tm : 1 <= fb <= 8 -> 1 <= tb <= 8 -> fm = 2 ^ fb - 1 -> tm = 2 ^ tb - 1 -> 0 <= v <= fm ->
  2 * Z.abs (convert_channel fm tm v * fm - v * tm) <= fm.
Proof. intros Hf Ht -> -> Hv. apply (cc_spec fb tb v Hf Ht Hv). Qed.

Lemma mono_of_cc fb tb v1 v2 fm tm : 1 <= fb <= 8 -> 1 <= tb <= 8 -> fm = 2 ^ fb - 1 -> tm = 2 ^ tb - 1 ->
  0 <= v1 <= fm -> 0 <= v2 <= fm -> v1 <= v2 -> convert_channel fm tm v1 <= convert_channel fm tm v2.
Proof. intros Hf Ht -> -> H1 H2 H12. apply cc_mono; lia. Qed.

Lemma c13_rgb_rgb_nearest : forall a b, In (FRgbRgb, a, b) conv_pairs -> forall c, valid a c ->
  let c' := convert FRgbRgb a b c in
  valid b c' /\
  2 * Z.abs (get_r b c' * max_r a - get_r a c * max_r b) <= max_r a /\
  2 * Z.abs (get_g b c' * max_g a - get_g a c * max_g b) <= max_g a /\
  2 * Z.abs (get_b b c' * max_b a - get_b a c * max_b b) <= max_b a.
Proof.
  intros a b H c Hv. destruct (rgb_pair_facts a b H) as (Wa & Wb & Pa & Pb & Ra & Rb).
  cbv zeta. cbn [convert].
  destruct (conv_rgb_rgb_channels a b Wa Wb Pa Pb c Ra Rb Hv) as (V & -> & -> & ->).
  destruct (rgb_max a Wa Pa Ra) as ((? & ?) & (? & ?) & (? & ?)). destruct (rgb_max b Wb Pb Rb) as ((? & ?) & (? & ?) & (? & ?)).
  destruct (rgb_chan_range a c Wa Ra Hv) as (? & ? & ?).
  split; [exact V|]. split; [|split].
  - apply (nearest_of_cc (rbits a) (rbits b)); assumption.
  - apply (nearest_of_cc (gbits a) (gbits b)); assumption.
  - apply (nearest_of_cc (bbits a) (bbits b)); assumption.
Qed.

(* every output channel depends on the same input channel only, monotonically *)
Lemma c13_rgb_rgb_mono : forall a b, In (FRgbRgb, a, b) conv_pairs -> forall c1 c2, valid a c1 -> valid a c2 ->
  (get_r a c1 <= get_r a c2 -> get_r b (convert FRgbRgb a b c1) <= get_r b (convert FRgbRgb a b c2)) /\
  (get_g a c1 <= get_g a c2 -> get_g b (convert FRgbRgb a b c1) <= get_g b (convert FRgbRgb a b c2)) /\
  (get_b a c1 <= get_b a c2 -> get_b b (convert FRgbRgb a b c1) <= get_b b (convert FRgbRgb a b c2)).
Proof.
  intros a b H c1 c2 Hv1 Hv2. destruct (rgb_pair_facts a b H) as (Wa & Wb & Pa & Pb & Ra & Rb).
  destruct (conv_rgb_rgb_channels a b Wa Wb Pa Pb c1 Ra Rb Hv1) as (_ & E1 & E2 & E3).
  destruct (conv_rgb_rgb_channels a b Wa Wb Pa Pb c2 Ra Rb Hv2) as (_ & F1 & F2 & F3). cbn [convert].
  rewrite E1, E2, E3, F1, F2, F3.
  destruct (rgb_max a Wa Pa Ra) as ((? & ?) & (? & ?) & (? & ?)). destruct (rgb_max b Wb Pb Rb) as ((? & ?) & (? & ?) & (? & ?)).
  destruct (rgb_chan_range a c1 Wa Ra Hv1) as (? & ? & ?). destruct (rgb_chan_range a c2 Wa Ra Hv2) as (? & ? & ?).
  split; [|split]; intros.
  - apply (mono_of_cc (rbits a) (rbits b)); assumption.
  - apply (mono_of_cc (gbits a) (gbits b)); assumption.
  - apply (mono_of_cc (bbits a) (bbits b)); assumption.
Qed.

(* equal depth (in particular RGB <-> BGR): all channels are kept *)
Lemma c13_same_depth_keeps_channels : forall a b, In (FRgbRgb, a, b) conv_pairs ->
  rbits a = rbits b -> gbits a = gbits b -> bbits a = bbits b -> forall c, valid a c ->
  get_r b (convert FRgbRgb a b c) = get_r a c /\ get_g b (convert FRgbRgb a b c) = get_g a c /\
  get_b b (convert FRgbRgb a b c) = get_b a c.
Proof.
  intros a b H Er Eg Eb c Hv. destruct (rgb_pair_facts a b H) as (Wa & Wb & Pa & Pb & Ra & Rb). cbn [convert].
  destruct (conv_rgb_rgb_channels a b Wa Wb Pa Pb c Ra Rb Hv) as (_ & -> & -> & ->).
  destruct (rgb_max a Wa Pa Ra) as ((_ & ->) & (_ & ->) & (_ & ->)). destruct (rgb_max b Wb Pb Rb) as ((_ & ->) & (_ & ->) & (_ & ->)).
  rewrite Er, Eg, Eb, !cc_same. auto.
Qed.

(* to a type with at least as many bits in every channel, and back: identity *)
Lemma c13_rgb_widen_narrow_id : forall a b, In (FRgbRgb, a, b) conv_pairs -> In (FRgbRgb, b, a) conv_pairs ->
  rbits a <= rbits b -> gbits a <= gbits b -> bbits a <= bbits b -> forall c, valid a c ->
  convert FRgbRgb b a (convert FRgbRgb a b c) = c.
Proof.
  intros a b H H' Lr Lg Lb c Hv. destruct (rgb_pair_facts a b H) as (Wa & Wb & Pa & Pb & Ra & Rb).
  destruct (conv_rgb_rgb_channels a b Wa Wb Pa Pb c Ra Rb Hv) as (V & E1 & E2 & E3). cbn [convert] in *.
  unfold conv_rgb_rgb at 1. rewrite E1, E2, E3.
  destruct (rgb_max a Wa Pa Ra) as ((Har & Ear) & (Hag & Eag) & (Hab & Eab)).
  destruct (rgb_max b Wb Pb Rb) as ((Hbr & Ebr) & (Hbg & Ebg) & (Hbb & Ebb)).
  destruct (rgb_chan_range a c Wa Ra Hv) as (Cr & Cg & Cb).
  rewrite Ear, Eag, Eab, Ebr, Ebg, Ebb in *.
  rewrite !c13_widen_narrow_id by assumption.
  apply (new_of_channels_wf a Wa Ra c Hv).
Qed.

(* --- gray -> gray *)
Lemma gray_pair_facts a b : In (FGrayGray, a, b) conv_pairs ->
  row_wf a = true /\ row_wf b = true /\ is_gray a = true /\ is_gray b = true.
Proof.
  intros H. destruct (pair_facts _ _ _ H) as (Ga & Gb & _ & K). cbn in K. apply andb_prop in K.
  destruct (good_row_facts a Ga) as (? & ? & _). destruct (good_row_facts b Gb) as (? & ? & _). tauto.
Qed.

Lemma c13_gray_gray_nearest : forall a b, In (FGrayGray, a, b) conv_pairs -> forall c, valid a c ->
  let c' := convert FGrayGray a b c in
  valid b c' /\ 2 * Z.abs (luma_of b c' * max_luma a - luma_of a c * max_luma b) <= max_luma a.
Proof.
  intros a b H c Hv. destruct (gray_pair_facts a b H) as (Wa & Wb & Ya & Yb). cbv zeta. cbn [convert].
  destruct (conv_gray_gray_channels a b Wa Wb c Ya Yb Hv) as (V & ->). split; [exact V|].
  destruct (gray_max a Wa Ya) as (? & ? & Va). destruct (gray_max b Wb Yb) as (? & ? & _). apply Va in Hv.
  apply (nearest_of_cc (bpp a) (bpp b)); assumption.
Qed.

Lemma c13_gray_gray_mono : forall a b, In (FGrayGray, a, b) conv_pairs -> forall c1 c2, valid a c1 -> valid a c2 ->
  luma_of a c1 <= luma_of a c2 -> luma_of b (convert FGrayGray a b c1) <= luma_of b (convert FGrayGray a b c2).
Proof.
  intros a b H c1 c2 Hv1 Hv2 L. destruct (gray_pair_facts a b H) as (Wa & Wb & Ya & Yb). cbn [convert].
  destruct (conv_gray_gray_channels a b Wa Wb c1 Ya Yb Hv1) as (_ & ->).
  destruct (conv_gray_gray_channels a b Wa Wb c2 Ya Yb Hv2) as (_ & ->).
  destruct (gray_max a Wa Ya) as (? & ? & Va). destruct (gray_max b Wb Yb) as (? & ? & _).
  apply Va in Hv1. apply Va in Hv2. apply (mono_of_cc (bpp a) (bpp b)); assumption.
Qed.

Lemma c13_gray_widen_narrow_id : forall a b, In (FGrayGray, a, b) conv_pairs -> In (FGrayGray, b, a) conv_pairs ->
  bpp a <= bpp b -> forall c, valid a c -> convert FGrayGray b a (convert FGrayGray a b c) = c.
Proof.
  intros a b H H' L c Hv. destruct (gray_pair_facts a b H) as (Wa & Wb & Ya & Yb). cbn [convert].
  destruct (conv_gray_gray_channels a b Wa Wb c Ya Yb Hv) as (V & E).
  destruct (conv_gray_gray_channels b a Wb Wa _ Yb Ya V) as (_ & E2). unfold luma_of in E2 at 1. rewrite E2, E.
  destruct (gray_max a Wa Ya) as (Ha & Ea & Va). destruct (gray_max b Wb Yb) as (Hb & Eb & _). apply Va in Hv.
  rewrite Ea, Eb in *. apply c13_widen_narrow_id; assumption.
Qed.

(* --- gray -> rgb: every channel is the gray value scaled to that channel's range *)
Lemma gray_rgb_pair_facts a b : In (FGrayRgb, a, b) conv_pairs ->
  row_wf a = true /\ row_wf b = true /\ chan_pos b = true /\ is_gray a = true /\ is_rgb b = true.
Proof.
  intros H. destruct (pair_facts _ _ _ H) as (Ga & Gb & _ & K). cbn in K. apply andb_prop in K.
  destruct (good_row_facts a Ga) as (? & ? & _). destruct (good_row_facts b Gb) as (? & ? & _). tauto.
Qed.

Lemma c13_gray_rgb_equal_scaling : forall a b, In (FGrayRgb, a, b) conv_pairs -> forall c, valid a c ->
  let c' := convert FGrayRgb a b c in
  valid b c' /\
  2 * Z.abs (get_r b c' * max_luma a - luma_of a c * max_r b) <= max_luma a /\
  2 * Z.abs (get_g b c' * max_luma a - luma_of a c * max_g b) <= max_luma a /\
  2 * Z.abs (get_b b c' * max_luma a - luma_of a c * max_b b) <= max_luma a.
Proof.
  intros a b H c Hv. destruct (gray_rgb_pair_facts a b H) as (Wa & Wb & Pb & Ya & Rb). cbv zeta. cbn [convert].
  assert (Pa : chan_pos a = true) by (unfold chan_pos, is_gray in *; destruct (c_kind a); try discriminate; reflexivity).
  destruct (conv_gray_rgb_channels a b Wa Wb Pb c Ya Rb Hv) as (V & -> & -> & ->). split; [exact V|].
  destruct (gray_max a Wa Ya) as (? & ? & Va). apply Va in Hv.
  destruct (rgb_max b Wb Pb Rb) as ((? & ?) & (? & ?) & (? & ?)).
  split; [|split].
  - apply (nearest_of_cc (bpp a) (rbits b)); assumption.
  - apply (nearest_of_cc (bpp a) (gbits b)); assumption.
  - apply (nearest_of_cc (bpp a) (bbits b)); assumption.
Qed.

Lemma c13_gray_rgb_mono : forall a b, In (FGrayRgb, a, b) conv_pairs -> forall c1 c2, valid a c1 -> valid a c2 ->
  luma_of a c1 <= luma_of a c2 ->
  get_r b (convert FGrayRgb a b c1) <= get_r b (convert FGrayRgb a b c2) /\
  get_g b (convert FGrayRgb a b c1) <= get_g b (convert FGrayRgb a b c2) /\
  get_b b (convert FGrayRgb a b c1) <= get_b b (convert FGrayRgb a b c2).
Proof.
  intros a b H c1 c2 Hv1 Hv2 L. destruct (gray_rgb_pair_facts a b H) as (Wa & Wb & Pb & Ya & Rb). cbn [convert].
  destruct (conv_gray_rgb_channels a b Wa Wb Pb c1 Ya Rb Hv1) as (_ & -> & -> & ->).
  destruct (conv_gray_rgb_channels a b Wa Wb Pb c2 Ya Rb Hv2) as (_ & -> & -> & ->).
  destruct (gray_max a Wa Ya) as (? & ? & Va). apply Va in Hv1. apply Va in Hv2.
  destruct (rgb_max b Wb Pb Rb) as ((? & ?) & (? & ?) & (? & ?)).
  split; [|split].
  - apply (mono_of_cc (bpp a) (rbits b)); assumption.
  - apply (mono_of_cc (bpp a) (gbits b)); assumption.
  - apply (mono_of_cc (bpp a) (bbits b)); assumption.
Qed.

(* gray -> rgb -> gray returns the original gray when every rgb channel has at least as many bits (finite: decided) *)
Definition grg_check (p : family * crow * crow) : bool :=
  let '(f, a, b) := p in
  match f with
  | FGrayRgb =>
      if (bpp a <=? rbits b) && (bpp a <=? gbits b) && (bpp a <=? bbits b) then
        match find_pair b a with
        | Some FRgbGray => forallb (fun c => convert FRgbGray b a (convert FGrayRgb a b c) =? c) (range 0 (2 ^ bpp a))
        | _ => false
        end
      else true
  | _ => true
  end.
Lemma pairs_grg : forallb grg_check conv_pairs = true.
Proof. vm_cast_no_check (eq_refl true). Qed.

Lemma c13_gray_rgb_gray_id : forall a b, In (FGrayRgb, a, b) conv_pairs ->
  bpp a <= rbits b -> bpp a <= gbits b -> bpp a <= bbits b -> forall c, valid a c ->
  find_pair b a = Some FRgbGray /\ convert FRgbGray b a (convert FGrayRgb a b c) = c.
Proof.
  intros a b H Lr Lg Lb c Hv. pose proof (proj1 (forallb_forall _ conv_pairs) pairs_grg _ H) as W. cbn in W.
  apply Z.leb_le in Lr, Lg, Lb. rewrite Lr, Lg, Lb in W. cbn in W.
  destruct (find_pair b a) as [[]|]; try discriminate. split; [reflexivity|].
  destruct (gray_rgb_pair_facts a b H) as (Wa & _ & _ & Ya & _). destruct (gray_max a Wa Ya) as (? & E & Va).
  apply Va in Hv. unfold luma_of in Hv. rewrite E in Hv.
  apply Z.eqb_eq. apply (forallb_range _ 0 (2 ^ bpp a) c W). lia.
Qed.

(* --- luma *)
Lemma c13_luma_gray_identity : forall g, 0 <= g <= 255 -> luma888 (rgb_new via_rgb g g g) = g.
Proof.
  intros g Hg. destruct via_facts as (Gv & Rv & Mr & Mg & Mb & _). destruct (good_row_facts _ Gv) as (Wv & Pv & _).
  rewrite luma888_lumaf.
  destruct (rgb_new_small via_rgb g g g Wv Pv Rv) as (-> & -> & -> & _); try lia.
  apply lumaf_gray, Hg.
Qed.

Lemma c13_luma_mono : forall c1 c2, valid via_rgb c1 -> valid via_rgb c2 ->
  get_r via_rgb c1 <= get_r via_rgb c2 -> get_g via_rgb c1 <= get_g via_rgb c2 -> get_b via_rgb c1 <= get_b via_rgb c2 ->
  luma888 c1 <= luma888 c2 /\ 0 <= luma888 c1 /\ luma888 c2 <= 255.
Proof.
  intros c1 c2 V1 V2 Lr Lg Lb. destruct via_facts as (Gv & Rv & Mr & Mg & Mb & _). destruct (good_row_facts _ Gv) as (Wv & Pv & _).
  destruct (rgb_chan_range via_rgb c1 Wv Rv V1) as (? & ? & ?). destruct (rgb_chan_range via_rgb c2 Wv Rv V2) as (? & ? & ?).
  rewrite Mr, Mg, Mb in *. rewrite !luma888_lumaf. split; [apply lumaf_mono; lia|].
  split; apply lumaf_plain; lia.
Qed.

Lemma c13_luma_weights : luma_wr + luma_wg + luma_wb = luma_div /\ 2 * luma_round = luma_div /\
  0 <= luma_wr /\ 0 <= luma_wg /\ 0 <= luma_wb /\ (luma_wr + luma_wg + luma_wb) * 255 + luma_round < 65536.
Proof. pose proof luma_consts as K. unfold luma_consts_ok in K. lia. Qed.

(* --- rgb -> gray: through Rgb888 and Gray8 (double rounding): extremes (c13_black_white) and monotone *)
Lemma rgb_gray_pair_facts a b : In (FRgbGray, a, b) conv_pairs ->
  good_row a = true /\ good_row b = true /\ is_rgb a = true /\ is_gray b = true.
Proof.
  intros H. destruct (pair_facts _ _ _ H) as (Ga & Gb & _ & K). cbn in K. apply andb_prop in K. tauto.
Qed.

Lemma luma_via_mono a c1 c2 : good_row a = true -> is_rgb a = true -> valid a c1 -> valid a c2 ->
  get_r a c1 <= get_r a c2 -> get_g a c1 <= get_g a c2 -> get_b a c1 <= get_b a c2 -> luma_via a c1 <= luma_via a c2.
Proof.
  intros Ga Ra V1 V2 Lr Lg Lb. destruct (good_row_facts a Ga) as (Wa & Pa & _).
  destruct (cc_to8 a c1 Wa Pa Ra V1) as (? & ? & ?). destruct (cc_to8 a c2 Wa Pa Ra V2) as (? & ? & ?).
  destruct (rgb_max a Wa Pa Ra) as ((? & ?) & (? & ?) & (? & ?)).
  destruct (rgb_chan_range a c1 Wa Ra V1) as (? & ? & ?). destruct (rgb_chan_range a c2 Wa Ra V2) as (? & ? & ?).
  assert (Hw8 : 1 <= 8 <= 8) by lia. assert (Ew8 : 255 = 2 ^ 8 - 1) by reflexivity.
  unfold luma_via. apply lumaf_mono; try lia; split; try lia.
  - apply (mono_of_cc (rbits a) 8); assumption.
  - apply (mono_of_cc (gbits a) 8); assumption.
  - apply (mono_of_cc (bbits a) 8); assumption.
Qed.

Lemma c13_rgb_gray_luma : forall a b, In (FRgbGray, a, b) conv_pairs -> forall c, valid a c ->
  let c' := convert FRgbGray a b c in
  valid b c' /\ luma_of b c' = convert_channel 255 (max_luma b) (luma_via a c) /\ 0 <= luma_via a c <= 255.
Proof.
  intros a b H c Hv. destruct (rgb_gray_pair_facts a b H) as (Ga & Gb & Ra & Yb). cbv zeta. cbn [convert].
  destruct (conv_rgb_gray_luma a b c Ga Gb Ra Yb Hv) as (V & E). split; [exact V|]. split; [exact E|].
  apply luma_via_range; assumption.
Qed.

Lemma c13_rgb_gray_mono : forall a b, In (FRgbGray, a, b) conv_pairs -> forall c1 c2, valid a c1 -> valid a c2 ->
  get_r a c1 <= get_r a c2 -> get_g a c1 <= get_g a c2 -> get_b a c1 <= get_b a c2 ->
  luma_of b (convert FRgbGray a b c1) <= luma_of b (convert FRgbGray a b c2).
Proof.
  intros a b H c1 c2 V1 V2 Lr Lg Lb. destruct (rgb_gray_pair_facts a b H) as (Ga & Gb & Ra & Yb). cbn [convert].
  destruct (conv_rgb_gray_luma a b c1 Ga Gb Ra Yb V1) as (_ & ->).
  destruct (conv_rgb_gray_luma a b c2 Ga Gb Ra Yb V2) as (_ & ->).
  pose proof (luma_via_range a c1 Ga Ra V1). pose proof (luma_via_range a c2 Ga Ra V2).
  pose proof (luma_via_mono a c1 c2 Ga Ra V1 V2 Lr Lg Lb).
  destruct (good_row_facts b Gb) as (Wb & _). destruct (gray_max b Wb Yb) as (? & ? & _).
  assert (Hw8 : 1 <= 8 <= 8) by lia. assert (Ew8 : 255 = 2 ^ 8 - 1) by reflexivity.
  apply (mono_of_cc 8 (bpp b)); assumption.
Qed.

(* --- to BinaryColor: On exactly for the upper half of the luma range *)
Definition gray_bin_check (p : family * crow * crow) : bool :=
  let '(f, a, b) := p in
  match f with
  | FGrayBin => forallb (fun c => Bool.eqb (convert FGrayBin a b c =? bin_on) (2 ^ (bpp a - 1) <=? luma_of a c)
                                  && Bool.eqb (convert FGrayBin a b c =? bin_off) (luma_of a c <? 2 ^ (bpp a - 1)))
                        (range 0 (2 ^ bpp a))
  | _ => true
  end.
Lemma pairs_gray_bin : forallb gray_bin_check conv_pairs = true.
Proof. vm_cast_no_check (eq_refl true). Qed.

Lemma c13_gray_binary_upper_half : forall a b, In (FGrayBin, a, b) conv_pairs -> forall c, valid a c ->
  (convert FGrayBin a b c = bin_on <-> 2 ^ (bpp a - 1) <= luma_of a c) /\
  (convert FGrayBin a b c = bin_off <-> luma_of a c < 2 ^ (bpp a - 1)) /\ 2 * 2 ^ (bpp a - 1) = max_luma a + 1.
Proof.
  intros a b H c Hv. pose proof (proj1 (forallb_forall _ conv_pairs) pairs_gray_bin _ H) as W. unfold gray_bin_check in W.
  destruct (pair_facts _ _ _ H) as (Ga & _ & _ & K). cbn in K. apply andb_prop in K. destruct K as [Ya _].
  destruct (good_row_facts a Ga) as (Wa & _). destruct (gray_max a Wa Ya) as (Hb & E & Va).
  apply Va in Hv. pose proof Hv as Hv'. unfold luma_of in Hv'. rewrite E in Hv'.
  pose proof (forallb_range _ 0 (2 ^ bpp a) c W ltac:(lia)) as C. cbv beta in C.
  apply andb_prop in C. destruct C as [C1 C2]. apply Bool.eqb_prop in C1, C2.
  split; [|split].
  - rewrite <- Z.eqb_eq, C1. apply Z.leb_le.
  - rewrite <- Z.eqb_eq, C2. apply Z.ltb_lt.
  - rewrite E. replace (bpp a) with (1 + (bpp a - 1)) at 2 by lia. rewrite Z.pow_add_r by lia. lia.
Qed.

Lemma c13_rgb_binary_upper_half : forall a b, In (FRgbBin, a, b) conv_pairs -> forall c, valid a c ->
  (convert FRgbBin a b c = bin_on <-> 128 <= luma_via a c) /\
  (convert FRgbBin a b c = bin_off <-> luma_via a c < 128) /\ 0 <= luma_via a c <= 255.
Proof.
  intros a b H c Hv. destruct (pair_facts _ _ _ H) as (Ga & _ & _ & K). cbn in K. apply andb_prop in K. destruct K as [Ra _].
  cbn [convert]. rewrite (conv_rgb_bin_luma a c Ga Ra Hv). pose proof (luma_via_range a c Ga Ra Hv).
  assert (rgb_bin_threshold = 128) as -> by reflexivity.
  unfold bin_of_bool, bin_on, bin_off. destruct (Z.geb_spec (luma_via a c) 128); split; try split; try lia; split; intros; try lia; discriminate.
Qed.

(* --- the list of provided conversions *)
Fixpoint nodupb (l : list Z) : bool :=
  match l with [] => true | x :: t => negb (existsb (Z.eqb x) t) && nodupb t end.
Lemma nodupb_NoDup l : nodupb l = true -> NoDup l.
Proof.
  induction l as [|x t IH]; intros H; constructor; cbn in H; apply andb_prop in H; destruct H as [H1 H2].
  - intros Hin. apply negb_true_iff in H1. assert (existsb (Z.eqb x) t = true); [|congruence].
    apply existsb_exists. exists x. split; [assumption | apply Z.eqb_refl].
  - apply IH, H2.
Qed.
Lemma c13_pairs_census :
  length conv_pairs = 182%nat /\
  (forall f a b, In (f, a, b) conv_pairs -> In a color_table /\ In b color_table /\ c_id a <> c_id b /\ family_kinds f a b = true) /\
  NoDup (map (fun p => (c_id (snd (fst p)), c_id (snd p))) conv_pairs) /\
  forallb (fun a => forallb (fun b => (c_id a =? c_id b) || match find_pair a b with Some _ => true | None => false end) color_table) color_table = true.
Proof.
  split; [vm_compute; reflexivity|]. split; [|split].
  - intros f a b H. destruct (pair_facts _ _ _ H) as (Ga & Gb & N & K).
    destruct (good_row_facts a Ga) as (_ & _ & _ & ?). destruct (good_row_facts b Gb) as (_ & _ & _ & ?). auto.
  - apply (NoDup_map_inv (fun q : Z * Z => fst q * 1000 + snd q)). rewrite map_map.
    apply nodupb_NoDup. vm_cast_no_check (eq_refl true).
  - vm_cast_no_check (eq_refl true).
Qed.

(* --- to BinaryColor is monotone; BinaryColor -> X -> BinaryColor is the identity *)
Lemma c13_rgb_binary_mono : forall a b, In (FRgbBin, a, b) conv_pairs -> forall c1 c2, valid a c1 -> valid a c2 ->
  get_r a c1 <= get_r a c2 -> get_g a c1 <= get_g a c2 -> get_b a c1 <= get_b a c2 ->
  convert FRgbBin a b c1 <= convert FRgbBin a b c2.
Proof.
  intros a b H c1 c2 V1 V2 Lr Lg Lb. destruct (pair_facts _ _ _ H) as (Ga & _ & _ & K). cbn in K. apply andb_prop in K. destruct K as [Ra _].
  cbn [convert]. rewrite (conv_rgb_bin_luma a c1 Ga Ra V1), (conv_rgb_bin_luma a c2 Ga Ra V2).
  pose proof (luma_via_mono a c1 c2 Ga Ra V1 V2 Lr Lg Lb).
  unfold bin_of_bool, bin_on, bin_off.
  destruct (Z.geb_spec (luma_via a c1) rgb_bin_threshold); destruct (Z.geb_spec (luma_via a c2) rgb_bin_threshold); lia.
Qed.

Lemma c13_gray_binary_mono : forall a b, In (FGrayBin, a, b) conv_pairs -> forall c1 c2, valid a c1 -> valid a c2 ->
  luma_of a c1 <= luma_of a c2 -> convert FGrayBin a b c1 <= convert FGrayBin a b c2.
Proof.
  intros a b H c1 c2 V1 V2 L.
  destruct (c13_gray_binary_upper_half a b H c1 V1) as (On1 & Off1 & _).
  destruct (c13_gray_binary_upper_half a b H c2 V2) as (On2 & Off2 & _).
  destruct (Z_le_gt_dec (2 ^ (bpp a - 1)) (luma_of a c1)) as [G | G].
  - rewrite (proj2 On1 G), (proj2 On2 ltac:(lia)). lia.
  - rewrite (proj2 Off1 ltac:(lia)). destruct (Z_le_gt_dec (2 ^ (bpp a - 1)) (luma_of a c2)) as [G2 | G2].
    + rewrite (proj2 On2 G2). unfold bin_off, bin_on. lia.
    + rewrite (proj2 Off2 ltac:(lia)). lia.
Qed.

Definition bin_rt_check (p : family * crow * crow) : bool :=
  let '(f, a, b) := p in
  match f with
  | FBinAny => match find_pair b a with
               | Some g => (convert g b a (convert FBinAny a b bin_off) =? bin_off) && (convert g b a (convert FBinAny a b bin_on) =? bin_on)
                           && (convert FBinAny a b bin_off =? color_black b) && (convert FBinAny a b bin_on =? color_white b)
               | None => false
               end
  | _ => true
  end.
Lemma pairs_bin_rt : forallb bin_rt_check conv_pairs = true.
Proof. vm_cast_no_check (eq_refl true). Qed.

Lemma c13_binary_roundtrip : forall a b, In (FBinAny, a, b) conv_pairs ->
  exists g, find_pair b a = Some g /\
  convert g b a (convert FBinAny a b bin_off) = bin_off /\ convert g b a (convert FBinAny a b bin_on) = bin_on /\
  convert FBinAny a b bin_off = color_black b /\ convert FBinAny a b bin_on = color_white b.
Proof.
  intros a b H. pose proof (proj1 (forallb_forall _ conv_pairs) pairs_bin_rt _ H) as W. unfold bin_rt_check in W.
  destruct (find_pair b a) as [g|]; [|discriminate]. exists g. split; [reflexivity|]. lia.
Qed.

(* ================================================================= 15. named constants and web colours *)
(* the eight named constants of RgbColor have the channels their names say (C12) *)
Lemma c12_named_constants : forall t, In t color_table -> is_rgb t = true ->
  map (fun c => (get_r t c, get_g t c, get_b t c)) (named_colors t) =
  [(0, 0, 0); (max_r t, 0, 0); (0, max_g t, 0); (0, 0, max_b t);
   (max_r t, max_g t, 0); (max_r t, 0, max_b t); (0, max_g t, max_b t); (max_r t, max_g t, max_b t)] /\
  Forall (valid t) (named_colors t) /\
  nth 0 (named_colors t) 0 = color_black t /\ nth 7 (named_colors t) 0 = color_white t.
Proof.
  intros t Ht R. destruct (good_row_facts t (in_table_good t Ht)) as (W & P & _).
  destruct (rgb_max t W P R) as ((? & Er) & (? & Eg) & (? & Eb)).
  assert (Hr : 0 <= max_r t <= max_r t) by lia. assert (Hg : 0 <= max_g t <= max_g t) by lia.
  assert (Hb : 0 <= max_b t <= max_b t) by lia.
  assert (Zr : 0 <= 0 <= max_r t) by lia. assert (Zg : 0 <= 0 <= max_g t) by lia. assert (Zb : 0 <= 0 <= max_b t) by lia.
  unfold named_colors. cbn [map nth].
  destruct (rgb_new_small t _ _ _ W P R Zr Zg Zb) as (-> & -> & -> & V0).
  destruct (rgb_new_small t _ _ _ W P R Hr Zg Zb) as (-> & -> & -> & V1).
  destruct (rgb_new_small t _ _ _ W P R Zr Hg Zb) as (-> & -> & -> & V2).
  destruct (rgb_new_small t _ _ _ W P R Zr Zg Hb) as (-> & -> & -> & V3).
  destruct (rgb_new_small t _ _ _ W P R Hr Hg Zb) as (-> & -> & -> & V4).
  destruct (rgb_new_small t _ _ _ W P R Hr Zg Hb) as (-> & -> & -> & V5).
  destruct (rgb_new_small t _ _ _ W P R Zr Hg Hb) as (-> & -> & -> & V6).
  destruct (rgb_new_small t _ _ _ W P R Hr Hg Hb) as (-> & -> & -> & V7).
  split; [reflexivity|]. split; [repeat (apply Forall_cons; [assumption|]); apply Forall_nil|].
  unfold color_black, color_white, is_rgb in *. destruct (c_kind t); try discriminate. auto.
Qed.

(* with_rgb888: every channel is the 8 bit argument scaled to nearest *)
Lemma web_facts :
  max_r web_src = 255 /\ max_g web_src = 255 /\ max_b web_src = 255 /\
  forallb (fun t => good_row t && is_rgb t) web_types = true /\
  forallb (fun e => match snd e with (r, g, b) => (0 <=? r) && (r <=? 255) && (0 <=? g) && (g <=? 255) && (0 <=? b) && (b <=? 255) end)
          web_colors = true.
Proof. repeat split; vm_cast_no_check (eq_refl true). Qed.

Lemma with_rgb888_nearest t r g b : good_row t = true -> is_rgb t = true ->
  0 <= r <= 255 -> 0 <= g <= 255 -> 0 <= b <= 255 ->
  let c := with_rgb888 t r g b in
  valid t c /\
  2 * Z.abs (get_r t c * 255 - r * max_r t) <= 255 /\
  2 * Z.abs (get_g t c * 255 - g * max_g t) <= 255 /\
  2 * Z.abs (get_b t c * 255 - b * max_b t) <= 255 /\
  (max_r t = 255 -> get_r t c = r) /\ (max_g t = 255 -> get_g t c = g) /\ (max_b t = 255 -> get_b t c = b).
Proof.
  intros G R Hr Hg Hb. destruct (good_row_facts t G) as (W & P & _).
  destruct web_facts as (Mr & Mg & Mb & _). cbv zeta. unfold with_rgb888. rewrite Mr, Mg, Mb.
  destruct (rgb_max t W P R) as ((Br & Er) & (Bg & Eg) & (Bb & Eb)).
  assert (Hw8 : 1 <= 8 <= 8) by lia. change 255 with (2 ^ 8 - 1) in Hr, Hg, Hb.
  destruct (cc_spec _ _ _ Hw8 Br Hr) as (B1 & N1 & _). destruct (cc_spec _ _ _ Hw8 Bg Hg) as (B2 & N2 & _).
  destruct (cc_spec _ _ _ Hw8 Bb Hb) as (B3 & N3 & _). cbv zeta in *.
  change (2 ^ 8 - 1) with 255 in *. rewrite <- Er in B1, N1. rewrite <- Eg in B2, N2. rewrite <- Eb in B3, N3.
  destruct (rgb_new_small t _ _ _ W P R B1 B2 B3) as (-> & -> & -> & V).
  split; [exact V|]. split; [exact N1|]. split; [exact N2|]. split; [exact N3|].
  split; [|split]; intros ->; apply cc_same.
Qed.

Lemma c13_web_colors : forall t, In t web_types -> forall n r g b, In (n, (r, g, b)) web_colors ->
  let c := with_rgb888 t r g b in
  In t color_table /\ is_rgb t = true /\ (0 <= r <= 255 /\ 0 <= g <= 255 /\ 0 <= b <= 255) /\
  valid t c /\
  2 * Z.abs (get_r t c * 255 - r * max_r t) <= 255 /\
  2 * Z.abs (get_g t c * 255 - g * max_g t) <= 255 /\
  2 * Z.abs (get_b t c * 255 - b * max_b t) <= 255 /\
  (max_r t = 255 -> get_r t c = r) /\ (max_g t = 255 -> get_g t c = g) /\ (max_b t = 255 -> get_b t c = b).
Proof.
  intros t Ht n r g b He. destruct web_facts as (_ & _ & _ & WT & WC).
  pose proof (proj1 (forallb_forall _ web_types) WT t Ht) as Gt. apply andb_prop in Gt. destruct Gt as [G R].
  pose proof (proj1 (forallb_forall _ web_colors) WC _ He) as Rg. cbn [snd] in Rg.
  destruct (good_row_facts t G) as (_ & _ & _ & It).
  assert (0 <= r <= 255 /\ 0 <= g <= 255 /\ 0 <= b <= 255) as (Hr & Hg & Hb) by lia.
  cbv zeta. split; [exact It|]. split; [exact R|]. split; [auto|]. apply with_rgb888_nearest; assumption.
Qed.

(* a pinned copy of the 141 CSS colour values of web_colors.rs (r * 65536 + g * 256 + b, in source order; CSS Color
   Module Level 3 basic + extended keywords without the "grey" spellings): a changed colour value breaks this proof.
   The 16 basic keywords are stated by name in c13_web_basic_keywords. *)
Definition css_values_pinned : list Z :=
  [15792383; 16444375; 65535; 8388564; 15794175; 16119260; 16770244; 0; 16772045; 255; 9055202; 10824234;
   14596231; 6266528; 8388352; 13789470; 16744272; 6591981; 16775388; 14423100; 65535; 139; 35723; 12092939;
   11119017; 25600; 12433259; 9109643; 5597999; 16747520; 10040012; 9109504; 15308410; 9419919; 4734347; 3100495;
   52945; 9699539; 16716947; 49151; 6908265; 2003199; 11674146; 16775920; 2263842; 16711935; 14474460; 16316671;
   16766720; 14329120; 8421504; 32768; 11403055; 15794160; 16738740; 13458524; 4915330; 16777200; 15787660; 15132410;
   16773365; 8190976; 16775885; 11393254; 15761536; 14745599; 16448210; 13882323; 9498256; 16758465; 16752762; 2142890;
   8900346; 7833753; 11584734; 16777184; 65280; 3329330; 16445670; 16711935; 8388608; 6737322; 205; 12211667;
   9662683; 3978097; 8087790; 64154; 4772300; 13047173; 1644912; 16121850; 16770273; 16770229; 16768685; 128;
   16643558; 8421376; 7048739; 16753920; 16729344; 14315734; 15657130; 10025880; 11529966; 14381203; 16773077; 16767673;
   13468991; 16761035; 14524637; 11591910; 8388736; 6697881; 16711680; 12357519; 4286945; 9127187; 16416882; 16032864;
   3050327; 16774638; 10506797; 12632256; 8900331; 6970061; 7372944; 16775930; 65407; 4620980; 13808780; 32896;
   14204888; 16737095; 4251856; 15631086; 16113331; 16777215; 16119285; 16776960; 10145074].
Definition web_lookup (name : list Z) : option (Z * Z * Z) :=
  match find (fun e => list_eqb (fst e) name) web_colors with Some e => Some (snd e) | None => None end.

Lemma c13_web_values_pinned :
  map (fun e => match snd e with (r, g, b) => r * 65536 + g * 256 + b end) web_colors = css_values_pinned /\
  length web_colors = 141%nat /\ length web_types = 8%nat.
Proof. repeat split; vm_compute; reflexivity. Qed.

(* CSS_BLACK, SILVER, GRAY, WHITE, MAROON, RED, PURPLE, FUCHSIA, GREEN, LIME, OLIVE, YELLOW, NAVY, BLUE, TEAL, AQUA *)
Lemma c13_web_basic_keywords :
  map web_lookup
    [[67; 83; 83; 95; 66; 76; 65; 67; 75];
     [67; 83; 83; 95; 83; 73; 76; 86; 69; 82];
     [67; 83; 83; 95; 71; 82; 65; 89];
     [67; 83; 83; 95; 87; 72; 73; 84; 69];
     [67; 83; 83; 95; 77; 65; 82; 79; 79; 78];
     [67; 83; 83; 95; 82; 69; 68];
     [67; 83; 83; 95; 80; 85; 82; 80; 76; 69];
     [67; 83; 83; 95; 70; 85; 67; 72; 83; 73; 65];
     [67; 83; 83; 95; 71; 82; 69; 69; 78];
     [67; 83; 83; 95; 76; 73; 77; 69];
     [67; 83; 83; 95; 79; 76; 73; 86; 69];
     [67; 83; 83; 95; 89; 69; 76; 76; 79; 87];
     [67; 83; 83; 95; 78; 65; 86; 89];
     [67; 83; 83; 95; 66; 76; 85; 69];
     [67; 83; 83; 95; 84; 69; 65; 76];
     [67; 83; 83; 95; 65; 81; 85; 65]] =
  map Some [(0, 0, 0); (192, 192, 192); (128, 128, 128); (255, 255, 255); (128, 0, 0); (255, 0, 0); (128, 0, 128); (255, 0, 255); (0, 128, 0); (0, 255, 0); (128, 128, 0); (255, 255, 0); (0, 0, 128); (0, 0, 255); (0, 128, 128); (0, 255, 255)].
Proof. vm_compute. reflexivity. Qed.

(* ================================================================= 16. round 2: pinned constants, FBinAny, RGB -> Gray error *)
(* the luma weights ARE the ITU-R BT.601 weights in 8 bit fixed point (0.299, 0.587, 0.114 to within 1/256):
   without this, any non-negative weights summing to the divisor would satisfy every other theorem *)
Lemma c13_luma_is_bt601 :
  (luma_wr = 77 /\ luma_wg = 150 /\ luma_wb = 29 /\ luma_div = 256 /\ luma_round = 128) /\
  (Z.abs (1000 * luma_wr - 299 * luma_div) <= 1000 /\ Z.abs (1000 * luma_wg - 587 * luma_div) <= 1000 /\
   Z.abs (1000 * luma_wb - 114 * luma_div) <= 1000).
Proof. vm_compute. intuition discriminate. Qed.

(* every other literal the translator reads (the theorems above constrain them semantically; this pins the values) *)
Lemma c13_constants_pinned :
  cc_shift = 24 /\ cc_half_base = 1 /\ cc_half_sub = 1 /\ rgb_bin_threshold = 128 /\
  gray_max_base = 255 /\ gray_max_bits = 8 /\ gray_50_base = 128 /\ gray_50_bits = 8 /\
  gray_black_arg = 0 /\ gray_white_arg = 255 /\ bin_from_zero = 0 /\ bin_raw_off = 0 /\ bin_raw_on = 1 /\
  c_name via_rgb = [82; 103; 98; 56; 56; 56] /\ c_name via_gray = [71; 114; 97; 121; 56] /\ c_name web_src = [82; 103; 98; 56; 56; 56].
Proof. vm_compute. repeat split; reflexivity. Qed.

(* BinaryColor -> X is monotone (Off = 0 <= On = 1 |-> black <= white in every channel) *)
Definition bin_mono_check (p : family * crow * crow) : bool :=
  let '(f, a, b) := p in
  match f with
  | FBinAny =>
      let k := convert FBinAny a b bin_off in let w := convert FBinAny a b bin_on in
      (used_bits a =? 1) &&
      match c_kind b with
      | KRgb _ _ _ _ => (get_r b k <=? get_r b w) && (get_g b k <=? get_g b w) && (get_b b k <=? get_b b w)
      | _ => luma_of b k <=? luma_of b w
      end
  | _ => true
  end.
Lemma pairs_bin_mono : forallb bin_mono_check conv_pairs = true.
Proof. vm_cast_no_check (eq_refl true). Qed.

Lemma c13_binary_to_any_mono : forall a b, In (FBinAny, a, b) conv_pairs -> forall c1 c2, valid a c1 -> valid a c2 -> c1 <= c2 ->
  (is_rgb b = true -> get_r b (convert FBinAny a b c1) <= get_r b (convert FBinAny a b c2) /\
                      get_g b (convert FBinAny a b c1) <= get_g b (convert FBinAny a b c2) /\
                      get_b b (convert FBinAny a b c1) <= get_b b (convert FBinAny a b c2)) /\
  (is_gray b = true -> luma_of b (convert FBinAny a b c1) <= luma_of b (convert FBinAny a b c2)).
Proof.
  intros a b H c1 c2 V1 V2 L. pose proof (proj1 (forallb_forall _ conv_pairs) pairs_bin_mono _ H) as W.
  unfold bin_mono_check in W. apply andb_prop in W. destruct W as [U W]. apply Z.eqb_eq in U.
  unfold valid in V1, V2. rewrite U in V1, V2. unfold is_rgb, is_gray.
  destruct (bin_cases c1 V1) as [-> | ->]; destruct (bin_cases c2 V2) as [-> | ->]; try lia;
    fold bin_off bin_on; destruct (c_kind b); split; intros; try discriminate; lia.
Qed.

(* the seven families partition the 182 conversions *)
Lemma c13_family_census :
  map (fun f => length (filter (fun p => match fst (fst p), f with
                                         | FRgbRgb, FRgbRgb | FGrayGray, FGrayGray | FGrayRgb, FGrayRgb | FRgbGray, FRgbGray
                                         | FBinAny, FBinAny | FGrayBin, FGrayBin | FRgbBin, FRgbBin => true
                                         | _, _ => false end) conv_pairs))
      [FRgbRgb; FGrayGray; FGrayRgb; FRgbGray; FBinAny; FGrayBin; FRgbBin] = [90; 6; 30; 30; 13; 3; 10]%nat.
Proof. vm_compute. reflexivity. Qed.

(* --- RGB -> Gray: two roundings.  Second stage is nearest w.r.t. the 8 bit luma; end to end the result is within
   1/2 + max_luma/255 target steps (1 step for Gray8, about 0.56 for Gray4, 0.51 for Gray2) of the exactly scaled
   BT.601 luma  max_luma * (wr * r/max_r + wg * g/max_g + wb * b/max_b) / div;  "nearest" (1/2 step) is FALSE. *)
Lemma c13_rgb_gray_second_stage_nearest : forall a b, In (FRgbGray, a, b) conv_pairs -> forall c, valid a c ->
  2 * Z.abs (luma_of b (convert FRgbGray a b c) * 255 - luma_via a c * max_luma b) <= 255.
Proof.
  intros a b H c Hv. destruct (c13_rgb_gray_luma a b H c Hv) as (_ & -> & R).
  destruct (rgb_gray_pair_facts a b H) as (_ & Gb & _ & Yb). destruct (good_row_facts b Gb) as (Wb & _).
  destruct (gray_max b Wb Yb) as (? & ? & _).
  assert (Hw8 : 1 <= 8 <= 8) by lia. assert (Ew8 : 255 = 2 ^ 8 - 1) by reflexivity.
  apply (nearest_of_cc 8 (bpp b)); assumption.
Qed.

Lemma scale_bound k x y : 0 <= k -> - y <= x <= y -> - (k * y) <= k * x <= k * y.
Proof. intros Hk [H1 H2]. split; [rewrite <- Z.mul_opp_r|]; apply Z.mul_le_mono_nonneg_l; lia. Qed.

Lemma rgb_gray_arith wr wg wb dv rd mr mg mb r g b r8 g8 b8 L o ml :
  0 <= wr -> 0 <= wg -> 0 <= wb -> wr + wg + wb = dv -> 2 * rd = dv -> 0 < mr -> 0 < mg -> 0 < mb -> 0 <= ml ->
  2 * Z.abs (r8 * mr - r * 255) <= mr -> 2 * Z.abs (g8 * mg - g * 255) <= mg -> 2 * Z.abs (b8 * mb - b * 255) <= mb ->
  dv * L <= wr * r8 + wg * g8 + wb * b8 + rd < dv * L + dv ->
  2 * Z.abs (o * 255 - L * ml) <= 255 ->
  let S := wr * r * mg * mb + wg * g * mr * mb + wb * b * mr * mg in
  let D := dv * mr * mg * mb in
  2 * 255 * Z.abs (o * D - ml * S) <= (2 * ml + 255) * D /\ (ml = 255 -> Z.abs (o * D - ml * S) <= D).
Proof.
  intros Hwr Hwg Hwb Hs Hrd Hmr Hmg Hmb Hml Nr Ng Nb Fl N2 S D.
  assert (Ar : - mr <= 2 * (r8 * mr - r * 255) <= mr) by lia.
  assert (Ag : - mg <= 2 * (g8 * mg - g * 255) <= mg) by lia.
  assert (Ab : - mb <= 2 * (b8 * mb - b * 255) <= mb) by lia.
  assert (C2 : - 255 <= 2 * (o * 255 - L * ml) <= 255) by lia.
  clear Nr Ng Nb N2.
  assert (0 <= mg * mb) by (apply Z.mul_nonneg_nonneg; lia). assert (0 <= mr * mb) by (apply Z.mul_nonneg_nonneg; lia).
  assert (0 <= mr * mg) by (apply Z.mul_nonneg_nonneg; lia).
  assert (HM : 0 <= mr * mg * mb) by (apply Z.mul_nonneg_nonneg; lia).
  pose proof (scale_bound (wr * (mg * mb)) _ _ ltac:(apply Z.mul_nonneg_nonneg; lia) Ar) as E1.
  pose proof (scale_bound (wg * (mr * mb)) _ _ ltac:(apply Z.mul_nonneg_nonneg; lia) Ag) as E2.
  pose proof (scale_bound (wb * (mr * mg)) _ _ ltac:(apply Z.mul_nonneg_nonneg; lia) Ab) as E3.
  (* rounding of the luma division *)
  assert (B : - dv <= 2 * (dv * L - (wr * r8 + wg * g8 + wb * b8)) <= dv) by lia.
  pose proof (scale_bound (mr * mg * mb) _ _ HM B) as E4.
  (* X = L * D - 255 * S is within D *)
  assert (X : - D <= L * D - 255 * S <= D) by (subst S D; lia).
  assert (HD : 0 <= D) by (subst D; rewrite <- !Z.mul_assoc; apply Z.mul_nonneg_nonneg; lia).
  pose proof (scale_bound ml _ _ Hml X) as E5.
  pose proof (scale_bound D (2 * (o * 255 - L * ml)) 255 HD ltac:(lia)) as E6.
  clear E1 E2 E3 E4 Ar Ag Ab B Fl.
  assert (I : 255 * (o * D - ml * S) = ml * (L * D - 255 * S) + (o * 255 - L * ml) * D) by ring.
  split.
  - generalize dependent (o * D - ml * S). generalize dependent (L * D - 255 * S). intros X0 ? ? T I. lia.
  - intros E. subst ml. assert (o = L) by lia. subst o. lia.
Qed.

Lemma frac_bounds wr wg wb dv mr mg mb r g b :
  0 <= wr -> 0 <= wg -> 0 <= wb -> wr + wg + wb = dv -> 0 < dv -> 1 <= mr -> 1 <= mg -> 1 <= mb ->
  0 <= r <= mr -> 0 <= g <= mg -> 0 <= b <= mb ->
  0 < dv * mr * mg * mb /\
  0 <= wr * r * mg * mb + wg * g * mr * mb + wb * b * mr * mg <= dv * mr * mg * mb.
Proof.
  intros Hwr Hwg Hwb Hs Hdv Hmr Hmg Hmb Hr Hg Hb. split; [repeat apply Z.mul_pos_pos; lia|].
  assert (0 <= mg * mb) by (apply Z.mul_nonneg_nonneg; lia). assert (0 <= mr * mb) by (apply Z.mul_nonneg_nonneg; lia).
  assert (0 <= mr * mg) by (apply Z.mul_nonneg_nonneg; lia).
  assert (0 <= wr * r <= wr * mr) by (split; [apply Z.mul_nonneg_nonneg | apply Z.mul_le_mono_nonneg_l]; lia).
  assert (0 <= wg * g <= wg * mg) by (split; [apply Z.mul_nonneg_nonneg | apply Z.mul_le_mono_nonneg_l]; lia).
  assert (0 <= wb * b <= wb * mb) by (split; [apply Z.mul_nonneg_nonneg | apply Z.mul_le_mono_nonneg_l]; lia).
  assert (T1 : 0 <= wr * r * (mg * mb) <= wr * mr * (mg * mb)) by (split; [apply Z.mul_nonneg_nonneg | apply Z.mul_le_mono_nonneg_r]; lia).
  assert (T2 : 0 <= wg * g * (mr * mb) <= wg * mg * (mr * mb)) by (split; [apply Z.mul_nonneg_nonneg | apply Z.mul_le_mono_nonneg_r]; lia).
  assert (T3 : 0 <= wb * b * (mr * mg) <= wb * mb * (mr * mg)) by (split; [apply Z.mul_nonneg_nonneg | apply Z.mul_le_mono_nonneg_r]; lia).
  subst dv.
  replace (wr * r * mg * mb) with (wr * r * (mg * mb)) by ring.
  replace (wg * g * mr * mb) with (wg * g * (mr * mb)) by ring.
  replace (wb * b * mr * mg) with (wb * b * (mr * mg)) by ring.
  replace ((wr + wg + wb) * mr * mg * mb) with (wr * mr * (mg * mb) + wg * mg * (mr * mb) + wb * mb * (mr * mg)) by ring.
  clear - T1 T2 T3.
  generalize dependent (wr * r * (mg * mb)). generalize dependent (wg * g * (mr * mb)). generalize dependent (wb * b * (mr * mg)).
  generalize (wr * mr * (mg * mb)) (wg * mg * (mr * mb)) (wb * mb * (mr * mg)). intros. lia.
Qed.

(* exactly scaled luma of a colour c of row a, as a fraction  luma_num / luma_den  of full scale *)
Definition luma_num (a : crow) (c : Z) : Z :=
  luma_wr * get_r a c * max_g a * max_b a + luma_wg * get_g a c * max_r a * max_b a + luma_wb * get_b a c * max_r a * max_g a.
Definition luma_den (a : crow) : Z := luma_div * max_r a * max_g a * max_b a.

Lemma c13_rgb_gray_error_bound_partial : forall a b, In (FRgbGray, a, b) conv_pairs -> forall c, valid a c ->
  let o := luma_of b (convert FRgbGray a b c) in
  0 < luma_den a /\ 0 <= luma_num a c <= luma_den a /\
  2 * 255 * Z.abs (o * luma_den a - max_luma b * luma_num a c) <= (2 * max_luma b + 255) * luma_den a /\
  (max_luma b = 255 -> Z.abs (o * luma_den a - max_luma b * luma_num a c) <= luma_den a).
Proof.
  intros a b H c Hv. cbv zeta.
  destruct (c13_rgb_gray_luma a b H c Hv) as (_ & Eo & RL).
  pose proof (c13_rgb_gray_second_stage_nearest a b H c Hv) as N2.
  destruct (rgb_gray_pair_facts a b H) as (Ga & Gb & Ra & Yb).
  destruct (good_row_facts a Ga) as (Wa & Pa & _). destruct (good_row_facts b Gb) as (Wb & _).
  destruct (gray_max b Wb Yb) as (Hb & Eb & _).
  destruct (rgb_max a Wa Pa Ra) as ((Hr & Er) & (Hg & Eg) & (Hbl & Ebl)).
  destruct (rgb_chan_range a c Wa Ra Hv) as (Cr & Cg & Cb).
  destruct (cc_to8 a c Wa Pa Ra Hv) as (B1 & B2 & B3).
  assert (Hw8 : 1 <= 8 <= 8) by lia. assert (Ew8 : 255 = 2 ^ 8 - 1) by reflexivity.
  pose proof (nearest_of_cc (rbits a) 8 (get_r a c) _ _ Hr Hw8 Er Ew8 Cr) as Nr.
  pose proof (nearest_of_cc (gbits a) 8 (get_g a c) _ _ Hg Hw8 Eg Ew8 Cg) as Ng.
  pose proof (nearest_of_cc (bbits a) 8 (get_b a c) _ _ Hbl Hw8 Ebl Ew8 Cb) as Nb.
  destruct (lumaf_plain _ _ _ B1 B2 B3) as (EL & _ & _). fold (luma_via a c) in EL.
  pose proof luma_consts as K. unfold luma_consts_ok in K.
  assert (Pr : 1 <= max_r a) by (rewrite Er; apply pow2m1_ge1; lia).
  assert (Pg : 1 <= max_g a) by (rewrite Eg; apply pow2m1_ge1; lia).
  assert (Pb : 1 <= max_b a) by (rewrite Ebl; apply pow2m1_ge1; lia).
  assert (Pl : 0 <= max_luma b) by (rewrite Eb; pose proof (pow2m1_ge1 (bpp b)); lia).
  assert (Fl : luma_div * luma_via a c <=
               luma_wr * convert_channel (max_r a) 255 (get_r a c) + luma_wg * convert_channel (max_g a) 255 (get_g a c) +
               luma_wb * convert_channel (max_b a) 255 (get_b a c) + luma_round < luma_div * luma_via a c + luma_div).
  { rewrite EL. set (W := _ + luma_round).
    replace (luma_wr * convert_channel (max_r a) 255 (get_r a c) + luma_wg * convert_channel (max_g a) 255 (get_g a c) +
             luma_wb * convert_channel (max_b a) 255 (get_b a c) + luma_round) with W by (subst W; ring).
    pose proof (Z.mul_div_le W luma_div ltac:(lia)). pose proof (Z.mul_succ_div_gt W luma_div ltac:(lia)). lia. }
  unfold luma_num, luma_den.
  destruct (frac_bounds luma_wr luma_wg luma_wb luma_div (max_r a) (max_g a) (max_b a) (get_r a c) (get_g a c) (get_b a c))
    as (D0 & F0); try assumption; try (clear - K; lia).
  split; [exact D0|]. split; [exact F0|].
  apply (rgb_gray_arith luma_wr luma_wg luma_wb luma_div luma_round (max_r a) (max_g a) (max_b a)
             (get_r a c) (get_g a c) (get_b a c) (convert_channel (max_r a) 255 (get_r a c))
             (convert_channel (max_g a) 255 (get_g a c)) (convert_channel (max_b a) 255 (get_b a c)) (luma_via a c));
      try assumption; clear - K Pr Pg Pb Pl; lia.
Qed.

(* the full clause (error at most half a target step) does NOT hold for this family: machine-checked witness
   Rgb565 (7, 11, 20) -> Gray8 gives 63, exactly scaled luma 62.04 (error 0.96 step) *)
Lemma c13_rgb_gray_nearest_refuted :
  exists a b c, In (FRgbGray, a, b) conv_pairs /\ valid a c /\
    2 * Z.abs (luma_of b (convert FRgbGray a b c) * luma_den a - max_luma b * luma_num a c) > luma_den a.
Proof.
  exists row_Rgb565, row_Gray8, (rgb_new row_Rgb565 7 11 20). split; [|vm_compute; intuition discriminate].
  unfold conv_pairs. repeat (first [left; reflexivity | right]).
Qed.
