(* C18, integer part for Circle and Ellipse: half-pixel bands around the ideal curves, mirror symmetry,
   row / column contiguity, the circle touches its box, circle = ellipse with equal axes. *)
From EG Require Import Base.Prelude Base.Lemmas Model.Geometry Model.Style Model.Circle Model.Ellipse
  Proofs.Geometry Proofs.Scanline Proofs.Circle Proofs.Ellipse.
From Coq Require Import ZifyBool.

Ltac Zify.zify_post_hook ::= Z.to_euclidean_division_equations.
Set Default Timeout 60.

(* doubled coordinates relative to the exact centre of the bounding box: the box (x, y, w, h) has its centre at
   (x + (w-1)/2, y + (h-1)/2) in pixel-centre coordinates, i.e. at (2x + w - 1, 2y + h - 1) when doubled *)
Definition rel2 (tl0 ext v : Z) : Z := 2 * v - (2 * tl0 + ext - 1).

(* ---- threshold between the squares of d-1 and d+1 (in fact d) ---------------------------- *)
Lemma threshold_ge d : 1 <= d -> (d - 1) * (d - 1) <= diameter_to_threshold d.
Proof.
  intros H. destruct (Z_le_gt_dec d 4).
  - rewrite threshold_small by lia. assert (d = 1 \/ d = 2 \/ d = 3 \/ d = 4) as [->|[->|[->| ->]]] by lia; cbn; lia.
  - rewrite threshold_big by lia. nia.
Qed.

(* ---- circle ---------------------------------------------------------------------------------- *)
Definition cdist2 (c : circle) (p : point) : Z :=
  rel2 (px (c_tl c)) (c_d c) (px p) * rel2 (px (c_tl c)) (c_d c) (px p) +
  rel2 (py (c_tl c)) (c_d c) (py p) * rel2 (py (c_tl c)) (c_d c) (py p).

Lemma circle_contains_dist c p : 1 <= c_d c -> circle_contains c p = (cdist2 c p <? diameter_to_threshold (c_d c)).
Proof. intros H. rewrite circle_contains_arith by assumption. reflexivity. Qed.

(* half-pixel band: every accepted pixel centre lies inside the ideal circle of radius (d+1)/2, every pixel
   centre inside the ideal circle of radius (d-1)/2 is accepted (doubled: d+1, d-1); covers the d <= 4 correction *)
Theorem circle_band c p :
  1 <= c_d c ->
  (circle_contains c p = true -> cdist2 c p < (c_d c + 1) * (c_d c + 1)) /\
  (cdist2 c p < (c_d c - 1) * (c_d c - 1) -> circle_contains c p = true).
Proof.
  intros Hd. rewrite circle_contains_dist by assumption. rewrite Z.ltb_lt.
  pose proof (threshold_le_sq (c_d c) ltac:(lia)). pose proof (threshold_ge (c_d c) Hd). split; intros; nia.
Qed.

Definition mirror_x (tl0 ext : Z) (p : point) : point := P (2 * tl0 + ext - 1 - px p) (py p).
Definition mirror_y (tl0 ext : Z) (p : point) : point := P (px p) (2 * tl0 + ext - 1 - py p).

Theorem circle_sym_x c p : 1 <= c_d c -> circle_contains c (mirror_x (px (c_tl c)) (c_d c) p) = circle_contains c p.
Proof.
  intros Hd. rewrite !circle_contains_dist by assumption. f_equal. unfold cdist2, mirror_x, rel2. cbn [px py]. ring.
Qed.

Theorem circle_sym_y c p : 1 <= c_d c -> circle_contains c (mirror_y (py (c_tl c)) (c_d c) p) = circle_contains c p.
Proof.
  intros Hd. rewrite !circle_contains_dist by assumption. f_equal. unfold cdist2, mirror_y, rel2. cbn [px py]. ring.
Qed.

Theorem circle_row_contiguous c y x1 x2 x3 :
  x1 <= x2 <= x3 -> circle_contains c (P x1 y) = true -> circle_contains c (P x3 y) = true ->
  circle_contains c (P x2 y) = true.
Proof.
  intros Hx. rewrite <- !circle_row_pred_contains. destruct (circle_center_2x c) as [cx cy].
  intros H1 H3. apply (circle_row_convex cx cy (circle_threshold c) y x1 (x3 + 1) x1 x2 x3); [lia|lia|lia|exact H1|exact H3].
Qed.

Theorem circle_col_contiguous c x y1 y2 y3 :
  y1 <= y2 <= y3 -> circle_contains c (P x y1) = true -> circle_contains c (P x y3) = true ->
  circle_contains c (P x y2) = true.
Proof.
  intros Hy. unfold circle_contains, length_squared, psub. destruct (circle_center_2x c) as [cx cy]. cbn [px py].
  rewrite !Z.ltb_lt. intros H1 H3.
  destruct (sq_between (cy - y3 * 2) (cy - y2 * 2) (cy - y1 * 2) ltac:(lia)) as [H|H]; lia.
Qed.

(* transposition: swapping the coordinates of the circle and of the point *)
Definition swap (p : point) : point := P (py p) (px p).
Lemma circle_contains_swap c p : circle_contains (Circ (swap (c_tl c)) (c_d c)) (swap p) = circle_contains c p.
Proof.
  unfold circle_contains, circle_center_2x, circle_threshold, length_squared, psub, swap. cbn [px py c_tl c_d].
  f_equal. ring.
Qed.

(* a circle of diameter >= 1 touches all four sides of its bounding box *)
Theorem circle_touches_box c :
  circle_ok c -> 1 <= c_d c ->
  let x0 := px (c_tl c) in let y0 := py (c_tl c) in let d := c_d c in
  (exists x, x0 <= x < x0 + d /\ circle_contains c (P x y0) = true) /\
  (exists x, x0 <= x < x0 + d /\ circle_contains c (P x (y0 + d - 1)) = true) /\
  (exists y, y0 <= y < y0 + d /\ circle_contains c (P x0 y) = true) /\
  (exists y, y0 <= y < y0 + d /\ circle_contains c (P (x0 + d - 1) y) = true).
Proof.
  intros Hok Hd x0 y0 d. subst x0 y0 d.
  assert (Hrow : forall y, py (c_tl c) <= y < py (c_tl c) + c_d c ->
            exists x, px (c_tl c) <= x < px (c_tl c) + c_d c /\ circle_contains c (P x y) = true).
  { intros y Hy. destruct (circle_every_row_hit c y Hd Hy) as (x & Hx & Hp). exists x. split; [assumption|].
    rewrite <- circle_row_pred_contains. exact Hp. }
  assert (Hcol : forall x, px (c_tl c) <= x < px (c_tl c) + c_d c ->
            exists y, py (c_tl c) <= y < py (c_tl c) + c_d c /\ circle_contains c (P x y) = true).
  { intros x Hx. destruct (circle_every_row_hit (Circ (swap (c_tl c)) (c_d c)) x) as (y & Hy & Hp);
      cbn [c_tl c_d swap px py]; try assumption.
    exists y. split; [assumption|]. rewrite circle_row_pred_contains in Hp.
    rewrite <- (circle_contains_swap c (P x y)). exact Hp. }
  split; [apply Hrow; lia|]. split; [apply Hrow; lia|]. split; apply Hcol; lia.
Qed.

(* ---- ellipse ---------------------------------------------------------------------------------- *)
(* ideal ellipse with (doubled) semi-axes w, h around the origin, on squared doubled coordinates X, Y *)
Definition ideal_in (w h X Y : Z) : Prop := (h * h) * X + (w * w) * Y < (h * h) * (w * w).

Definition eX (e : ellipse) (p : point) : Z :=
  rel2 (px (e_tl e)) (sw (e_sz e)) (px p) * rel2 (px (e_tl e)) (sw (e_sz e)) (px p).
Definition eY (e : ellipse) (p : point) : Z :=
  rel2 (py (e_tl e)) (sh (e_sz e)) (py p) * rel2 (py (e_tl e)) (sh (e_sz e)) (py p).

Lemma ellipse_contains_rel e p :
  1 <= sw (e_sz e) -> 1 <= sh (e_sz e) ->
  ellipse_contains e p = ell_in (sw (e_sz e)) (sh (e_sz e)) (eX e p) (eY e p).
Proof.
  intros Hw Hh. rewrite ellipse_contains_arith by lia. rewrite ellipse_center_2x_pos by assumption.
  unfold eX, eY, rel2. cbn [px py]. f_equal; ring.
Qed.

Lemma ideal_grow w h w' h' X Y :
  1 <= w <= w' -> 1 <= h <= h' -> 0 <= X -> 0 <= Y -> ideal_in w h X Y -> ideal_in w' h' X Y.
Proof.
  intros Hw Hh HX HY. unfold ideal_in.
  set (a := w * w). set (b := h * h). set (a' := w' * w'). set (b' := h' * h').
  assert (1 <= a <= a') by (subst a a'; nia). assert (1 <= b <= b') by (subst b b'; nia).
  clearbody a b a' b'. intros Hlt.
  destruct (Z_lt_le_dec (b' * X + a' * Y) (b' * a')) as [|Hge]; [assumption|exfalso].
  assert (a' * b' * (b * X + a * Y) < a' * b' * (b * a)) as H1 by (apply Z.mul_lt_mono_pos_l; nia).
  assert (a * b * (b' * a') <= a * b * (b' * X + a' * Y)) as H2 by (apply Z.mul_le_mono_nonneg_l; nia).
  assert (0 <= (a' - a) * (b' * b * X)) as H3 by (apply Z.mul_nonneg_nonneg; nia).
  assert (0 <= (b' - b) * (a' * a * Y)) as H4 by (apply Z.mul_nonneg_nonneg; nia).
  nia.
Qed.

Lemma ideal_circle d X Y : 1 <= d -> (ideal_in d d X Y <-> X + Y < d * d).
Proof. intros Hd. unfold ideal_in. split; intros H; nia. Qed.

(* half-pixel band around the ideal ellipse: accepted => inside the ideal ellipse with axes w+1, h+1;
   inside the ideal ellipse with axes w-1, h-1 => accepted *)
Theorem ellipse_band w h X Y :
  1 <= w -> 1 <= h -> 0 <= X -> 0 <= Y ->
  (ell_in w h X Y = true -> ideal_in (w + 1) (h + 1) X Y) /\
  (ideal_in (w - 1) (h - 1) X Y -> ell_in w h X Y = true).
Proof.
  intros Hw Hh HX HY. unfold ell_in. destruct (w =? h) eqn:E.
  - apply Z.eqb_eq in E. subst h. rewrite Z.ltb_lt.
    pose proof (threshold_le_sq w ltac:(lia)). pose proof (threshold_ge w Hw). split.
    + intros H1. assert (1 <= w + 1) as Hw1 by lia. apply (ideal_circle _ _ _ Hw1). nia.
    + intros H1. destruct (Z.eq_dec w 1) as [->|Hn]; [unfold ideal_in in H1; lia|].
      assert (1 <= w - 1) as Hw1 by lia. apply (ideal_circle _ _ _ Hw1) in H1. lia.
  - rewrite Z.ltb_lt. split.
    + intros H1. apply (ideal_grow w h); try lia. exact H1.
    + intros H1. destruct (Z.eq_dec w 1) as [->|Hnw]; [unfold ideal_in in H1; nia|].
      destruct (Z.eq_dec h 1) as [->|Hnh]; [unfold ideal_in in H1; nia|].
      apply (ideal_grow (w - 1) (h - 1) w h) in H1; try lia. exact H1.
Qed.

Theorem ellipse_band_contains e p :
  1 <= sw (e_sz e) -> 1 <= sh (e_sz e) ->
  (ellipse_contains e p = true -> ideal_in (sw (e_sz e) + 1) (sh (e_sz e) + 1) (eX e p) (eY e p)) /\
  (ideal_in (sw (e_sz e) - 1) (sh (e_sz e) - 1) (eX e p) (eY e p) -> ellipse_contains e p = true).
Proof.
  intros Hw Hh. rewrite ellipse_contains_rel by assumption.
  apply ellipse_band; try assumption; apply Z.square_nonneg.
Qed.

Theorem ellipse_sym_x e p :
  1 <= sw (e_sz e) -> 1 <= sh (e_sz e) ->
  ellipse_contains e (mirror_x (px (e_tl e)) (sw (e_sz e)) p) = ellipse_contains e p.
Proof.
  intros Hw Hh. rewrite !ellipse_contains_rel by assumption. f_equal. unfold eX, mirror_x, rel2. cbn [px py]. ring.
Qed.

Theorem ellipse_sym_y e p :
  1 <= sw (e_sz e) -> 1 <= sh (e_sz e) ->
  ellipse_contains e (mirror_y (py (e_tl e)) (sh (e_sz e)) p) = ellipse_contains e p.
Proof.
  intros Hw Hh. rewrite !ellipse_contains_rel by assumption. f_equal. unfold eY, mirror_y, rel2. cbn [px py]. ring.
Qed.

Theorem ellipse_row_contiguous e y x1 x2 x3 :
  ellipse_ok e -> x1 <= x2 <= x3 -> ellipse_contains e (P x1 y) = true -> ellipse_contains e (P x3 y) = true ->
  ellipse_contains e (P x2 y) = true.
Proof.
  intros [_ [Hw Hh]] Hx. rewrite !ellipse_contains_arith by lia. cbn [px py]. intros H1 H3.
  destruct (sq_between (x1 * 2 - px (ellipse_center_2x e)) (x2 * 2 - px (ellipse_center_2x e)) (x3 * 2 - px (ellipse_center_2x e)) ltac:(lia)) as [H|H].
  - eapply ell_in_mono; [| |exact H1]; split; try apply Z.square_nonneg; lia.
  - eapply ell_in_mono; [| |exact H3]; split; try apply Z.square_nonneg; lia.
Qed.

Theorem ellipse_col_contiguous e x y1 y2 y3 :
  ellipse_ok e -> y1 <= y2 <= y3 -> ellipse_contains e (P x y1) = true -> ellipse_contains e (P x y3) = true ->
  ellipse_contains e (P x y2) = true.
Proof.
  intros [_ [Hw Hh]] Hy. rewrite !ellipse_contains_arith by lia. cbn [px py]. intros H1 H3.
  destruct (sq_between (y1 * 2 - py (ellipse_center_2x e)) (y2 * 2 - py (ellipse_center_2x e)) (y3 * 2 - py (ellipse_center_2x e)) ltac:(lia)) as [H|H].
  - eapply ell_in_mono; [| |exact H1]; split; try apply Z.square_nonneg; lia.
  - eapply ell_in_mono; [| |exact H3]; split; try apply Z.square_nonneg; lia.
Qed.

(* ---- a circle is the ellipse with equal axes (incl. the small-diameter threshold) ------------- *)
Definition circle_as_ellipse (c : circle) : ellipse := Ell (c_tl c) (S (c_d c) (c_d c)).

Theorem circle_eq_ellipse c p : ellipse_contains (circle_as_ellipse c) p = circle_contains c p.
Proof.
  unfold ellipse_contains, ellipse_test_contains, ellipse_test_new, circle_as_ellipse, ellipse_center_2x, size_sat_sub.
  cbn [e_tl e_sz sw sh et_a et_b et_thr px py psub]. rewrite !Z.eqb_refl.
  unfold circle_contains, circle_center_2x, circle_threshold, length_squared, psub. cbn [px py]. f_equal. ring.
Qed.

Theorem circle_points_eq_ellipse c : circle_ok c -> ellipse_points (circle_as_ellipse c) = circle_points c.
Proof.
  intros Hok. rewrite circle_points_spec by assumption. rewrite ellipse_points_spec.
  - apply filter_ext_in'. intros p _. apply circle_eq_ellipse.
  - destruct Hok as [Hp Hd]. split; [exact Hp|]. split; exact Hd.
Qed.
