(* Proofs about Model/Ellipse.v: the ellipse's contains / scanlines / points (C05, C18 integer part). *)
From EG Require Import Base.Prelude Base.Lemmas Model.Geometry Model.Style Model.Circle Model.Ellipse
  Proofs.Geometry Proofs.Scanline Proofs.Circle.
From Coq Require Import ZifyBool.

Ltac Zify.zify_post_hook ::= Z.to_euclidean_division_equations.
Set Default Timeout 60.

Definition ellipse_ok (e : ellipse) : Prop := point_ok (e_tl e) /\ size_ok (e_sz e).

Lemma ellipse_bbox_ok e : ellipse_ok e -> rect_ok (ellipse_bbox e).
Proof. intros H. exact H. Qed.

(* ---- the test in plain arithmetic -------------------------------------------------------- *)
(* X, Y: squared doubled distances from the centre lines; w, h: the axes *)
Definition ell_in (w h X Y : Z) : bool :=
  if w =? h then X + Y <? diameter_to_threshold w else (h * h) * X + (w * w) * Y <? (h * h) * (w * w).

Lemma sq_eq_iff w h : 0 <= w -> 0 <= h -> (w * w =? h * h) = (w =? h).
Proof. intros. apply eq_true_iff_eq. rewrite !Z.eqb_eq. split; intros; [nia|subst; reflexivity]. Qed.

Lemma ellipse_test_arith s p :
  0 <= sw s -> 0 <= sh s ->
  ellipse_test_contains (ellipse_test_new s) p = ell_in (sw s) (sh s) (px p * px p) (py p * py p).
Proof.
  intros Hw Hh. unfold ellipse_test_contains, ellipse_test_new, ell_in. cbn [et_a et_b et_thr].
  rewrite sq_eq_iff by assumption. destruct (sw s =? sh s); reflexivity.
Qed.

Lemma ell_in_bounds w h X Y :
  0 <= w -> 0 <= h -> 0 <= X -> 0 <= Y -> ell_in w h X Y = true -> X < w * w /\ Y < h * h.
Proof.
  intros Hw Hh HX HY. unfold ell_in. destruct (w =? h) eqn:E.
  - apply Z.eqb_eq in E. subst h. rewrite Z.ltb_lt. pose proof (threshold_le_sq w Hw). lia.
  - rewrite Z.ltb_lt. intros H. split.
    + destruct (Z_lt_le_dec X (w * w)); [assumption|exfalso]. nia.
    + destruct (Z_lt_le_dec Y (h * h)); [assumption|exfalso]. nia.
Qed.

(* antitone in X and in Y *)
Lemma ell_in_mono w h X Y X' Y' :
  0 <= X' <= X -> 0 <= Y' <= Y -> ell_in w h X Y = true -> ell_in w h X' Y' = true.
Proof.
  intros HX HY. unfold ell_in. destruct (w =? h); rewrite !Z.ltb_lt; [lia|].
  intros H. assert (0 <= h * h) by nia. assert (0 <= w * w) by nia. nia.
Qed.

Lemma ellipse_center_2x_pos e :
  1 <= sw (e_sz e) -> 1 <= sh (e_sz e) ->
  ellipse_center_2x e = P (2 * px (e_tl e) + sw (e_sz e) - 1) (2 * py (e_tl e) + sh (e_sz e) - 1).
Proof.
  intros Hw Hh. unfold ellipse_center_2x, size_sat_sub, sat_sub_u32. cbn [sw sh]. f_equal; lia.
Qed.

Lemma ellipse_contains_arith e p :
  0 <= sw (e_sz e) -> 0 <= sh (e_sz e) ->
  ellipse_contains e p =
  ell_in (sw (e_sz e)) (sh (e_sz e))
    ((px p * 2 - px (ellipse_center_2x e)) * (px p * 2 - px (ellipse_center_2x e)))
    ((py p * 2 - py (ellipse_center_2x e)) * (py p * 2 - py (ellipse_center_2x e))).
Proof. intros Hw Hh. unfold ellipse_contains. rewrite ellipse_test_arith by assumption. reflexivity. Qed.

Lemma ellipse_row_pred_contains e y x :
  ellipse_row_pred (ellipse_center_2x e) (ellipse_test_new (e_sz e)) y x = ellipse_contains e (P x y).
Proof. reflexivity. Qed.

Theorem ellipse_contains_in_bbox e p :
  ellipse_ok e -> ellipse_contains e p = true -> contains (ellipse_bbox e) p = true.
Proof.
  intros [_ [Hw Hh]] H. rewrite ellipse_contains_arith in H by lia.
  apply ell_in_bounds in H; try lia; try apply Z.square_nonneg. destruct H as [HX HY].
  assert (1 <= sw (e_sz e)) as Hw1.
  { pose proof (Z.square_nonneg (px p * 2 - px (ellipse_center_2x e))). nia. }
  assert (1 <= sh (e_sz e)) as Hh1.
  { pose proof (Z.square_nonneg (py p * 2 - py (ellipse_center_2x e))). nia. }
  rewrite ellipse_center_2x_pos in HX, HY by assumption. cbn [px py] in HX, HY.
  apply sq_lt_abs in HX; [|lia]. apply sq_lt_abs in HY; [|lia].
  rewrite contains_spec. unfold ellipse_bbox. cbn [tl sz]. lia.
Qed.

(* ---- the row predicate: symmetric and convex --------------------------------------------- *)
Lemma ellipse_row_sym cx cy t y a b : a + b - 1 = cx -> row_sym (ellipse_row_pred (P cx cy) t y) a b.
Proof.
  intros E x _. unfold ellipse_row_pred, ellipse_test_contains. cbn [px py].
  replace (((a + b - 1 - x) * 2 - cx) * ((a + b - 1 - x) * 2 - cx)) with ((x * 2 - cx) * (x * 2 - cx))
    by (subst cx; ring).
  reflexivity.
Qed.

Lemma ellipse_row_convex cx cy t y a b :
  0 <= et_b t -> row_convex (ellipse_row_pred (P cx cy) t y) a b.
Proof.
  intros Hb x v z _ Hv _. unfold ellipse_row_pred, ellipse_test_contains. cbn [px py].
  set (Y := (y * 2 - cy) * (y * 2 - cy)).
  destruct (sq_between (x * 2 - cx) (v * 2 - cx) (z * 2 - cx) ltac:(lia)) as [Hs|Hs];
    destruct (et_a t =? et_b t); rewrite !Z.ltb_lt; intros H1 H2; nia.
Qed.

(* ---- points() --------------------------------------------------------------------------- *)
Theorem ellipse_points_spec e :
  ellipse_ok e -> ellipse_points e = filter (ellipse_contains e) (box_points (ellipse_bbox e)).
Proof.
  intros Hok. pose proof (ellipse_bbox_ok e Hok) as Hbb.
  unfold ellipse_points, ellipse_scanlines, box_points.
  destruct (rows_columns_spec _ Hbb) as [-> ->]. unfold ellipse_bbox. cbn [tl sz].
  rewrite scan_rows_points.
  - rewrite filter_row_major. reflexivity.
  - intros y Hy. apply In_range in Hy. destruct Hok as [_ [Hw Hh]].
    assert (1 <= sh (e_sz e)) by lia.
    destruct (Z_le_gt_dec (sw (e_sz e)) 0).
    + split; [intros x Hx; lia|intros x v z; lia].
    + rewrite ellipse_center_2x_pos by lia. split.
      * apply ellipse_row_sym. lia.
      * apply ellipse_row_convex. cbn [ellipse_test_new et_b]. nia.
  - intros E; discriminate.
Qed.

Theorem ellipse_points_in e p : ellipse_ok e -> (In p (ellipse_points e) <-> ellipse_contains e p = true).
Proof.
  intros H. rewrite ellipse_points_spec by assumption. apply filter_box_in, ellipse_contains_in_bbox, H.
Qed.
