(* Proofs about the styled ellipse of Model/Ellipse.v (C06, C01(b), C02). Same structure as Proofs/Circlestyled.v. *)
From EG Require Import Base.Prelude Base.Lemmas Model.Geometry Model.Style Model.Circle Model.Ellipse
  Proofs.Geometry Proofs.Scanline Proofs.Circle Proofs.Ellipse Proofs.Circlestyled.
From Coq Require Import ZifyBool.

Ltac Zify.zify_post_hook ::= Z.to_euclidean_division_equations.
Set Default Timeout 60.

Definition ellipse_sok (e : ellipse) : Prop := point_sok (e_tl e) /\ size_sok (e_sz e).

(* ---- OffsetOutline for ellipses (ellipse/mod.rs:92-103) ----------------------------------- *)
Ltac unf_ell :=
  unfold ellipse_sok, point_sok, size_sok, ellipse_ok, point_ok, size_ok, bound, sbound, ellipse_offset, ellipse_with_center,
    ellipse_center, ellipse_center_2x, ellipse_bbox, with_center, center, center_offset, psub_size, padd_size,
    size_sat_sub, size_sat_add, sat_sub_u32, sat_add_u32, u32_max in *;
  cbn [tl sz px py sw sh e_tl e_sz] in *.

Lemma ellipse_offset_w e n :
  sw (e_sz (ellipse_offset e n)) =
  if 0 <=? n then Z.min (sw (e_sz e) + 2 * n) u32_max else Z.max (sw (e_sz e) - 2 * (- n)) 0.
Proof. unfold ellipse_offset, ellipse_with_center, size_sat_add, size_sat_sub, sat_add_u32, sat_sub_u32. destruct (0 <=? n); reflexivity. Qed.

Lemma ellipse_offset_h e n :
  sh (e_sz (ellipse_offset e n)) =
  if 0 <=? n then Z.min (sh (e_sz e) + 2 * n) u32_max else Z.max (sh (e_sz e) - 2 * (- n)) 0.
Proof. unfold ellipse_offset, ellipse_with_center, size_sat_add, size_sat_sub, sat_add_u32, sat_sub_u32. destruct (0 <=? n); reflexivity. Qed.

Theorem ellipse_offset_grow e n :
  ellipse_ok e -> 1 <= sw (e_sz e) -> 1 <= sh (e_sz e) -> 0 <= n <= bound ->
  ellipse_offset e n = Ell (P (px (e_tl e) - n) (py (e_tl e) - n)) (S (sw (e_sz e) + 2 * n) (sh (e_sz e) + 2 * n)).
Proof.
  intros He Hw Hh Hn. destruct e as [[x y] [w h]]. unf_ell.
  destruct (0 <=? n) eqn:E; [|lia]. cbn [sw sh]. f_equal; f_equal; lia.
Qed.

Theorem ellipse_offset_shrink e n :
  ellipse_ok e -> 0 < n <= bound ->
  let o := ellipse_offset e (- n) in
  (2 * n < sw (e_sz e) -> px (e_tl o) = px (e_tl e) + n /\ sw (e_sz o) = sw (e_sz e) - 2 * n) /\
  (sw (e_sz e) <= 2 * n -> sw (e_sz o) = 0) /\
  (2 * n < sh (e_sz e) -> py (e_tl o) = py (e_tl e) + n /\ sh (e_sz o) = sh (e_sz e) - 2 * n) /\
  (sh (e_sz e) <= 2 * n -> sh (e_sz o) = 0).
Proof.
  intros He Hn. destruct e as [[x y] [w h]]. unf_ell.
  destruct (0 <=? - n) eqn:E; [lia|]. cbn [tl sz px py sw sh e_tl e_sz]. lia.
Qed.

Lemma ellipse_offset_ok e n : ellipse_sok e -> - sbound <= n <= sbound -> ellipse_ok (ellipse_offset e n).
Proof.
  intros He Hn. destruct e as [[x y] [w h]]. unf_ell.
  destruct (0 <=? n) eqn:E; cbn [tl sz px py sw sh e_tl e_sz]; lia.
Qed.

Lemma ellipse_offset_center_2x_x e n :
  ellipse_sok e -> - sbound <= n <= sbound -> 1 <= sw (e_sz e) -> 1 <= sw (e_sz (ellipse_offset e n)) ->
  px (ellipse_center_2x (ellipse_offset e n)) = px (ellipse_center_2x e).
Proof.
  intros He Hn Hw. destruct e as [[x y] [w h]]. unf_ell.
  destruct (0 <=? n) eqn:E; cbn [tl sz px py sw sh e_tl e_sz]; intros Hw'; lia.
Qed.

Lemma ellipse_offset_center_2x_y e n :
  ellipse_sok e -> - sbound <= n <= sbound -> 1 <= sh (e_sz e) -> 1 <= sh (e_sz (ellipse_offset e n)) ->
  py (ellipse_center_2x (ellipse_offset e n)) = py (ellipse_center_2x e).
Proof.
  intros He Hn Hw. destruct e as [[x y] [w h]]. unf_ell.
  destruct (0 <=? n) eqn:E; cbn [tl sz px py sw sh e_tl e_sz]; intros Hw'; lia.
Qed.

(* ---- the ellipse test: degenerate sizes, monotone in the size ------------------------------ *)
Lemma ell_in_false w h X Y :
  0 <= w -> 0 <= h -> 0 <= X -> 0 <= Y -> (w = 0 \/ h = 0) -> ell_in w h X Y = false.
Proof.
  intros Hw Hh HX HY Hz. unfold ell_in. destruct (w =? h) eqn:E.
  - apply Z.eqb_eq in E. assert (w = 0) as -> by lia. change (diameter_to_threshold 0) with 0. lia.
  - apply Z.ltb_ge. destruct Hz as [-> | ->]; nia.
Qed.

Lemma ell_in_grow w h w' h' X Y :
  1 <= w <= w' -> 1 <= h <= h' -> w' - h' = w - h -> 0 <= X -> 0 <= Y ->
  ell_in w h X Y = true -> ell_in w' h' X Y = true.
Proof.
  intros Hw Hh Hd HX HY. unfold ell_in. destruct (w =? h) eqn:E.
  - apply Z.eqb_eq in E. assert (w' = h') as E' by lia. rewrite <- E', Z.eqb_refl. rewrite !Z.ltb_lt.
    pose proof (threshold_mono w w' ltac:(lia)). lia.
  - assert ((w' =? h') = false) as -> by lia. rewrite !Z.ltb_lt.
    set (a := w * w). set (b := h * h). set (a' := w' * w'). set (b' := h' * h').
    assert (1 <= a <= a') by (subst a a'; nia). assert (1 <= b <= b') by (subst b b'; nia).
    clearbody a b a' b'. intros Hlt.
    destruct (Z_lt_le_dec (b' * X + a' * Y) (b' * a')) as [|Hge]; [assumption|exfalso].
    assert (a' * b' * (b * X + a * Y) < a' * b' * (b * a)) as H1 by (apply Z.mul_lt_mono_pos_l; nia).
    assert (a * b * (b' * a') <= a * b * (b' * X + a' * Y)) as H2 by (apply Z.mul_le_mono_nonneg_l; nia).
    assert (0 <= (a' - a) * (b' * b * X)) as H3 by (apply Z.mul_nonneg_nonneg; nia).
    assert (0 <= (b' - b) * (a' * a * Y)) as H4 by (apply Z.mul_nonneg_nonneg; nia).
    nia.
Qed.

(* ---- stroke area A / fill area B ----------------------------------------------------------- *)
Definition econcentric (A B : ellipse) : Prop :=
  (sw (e_sz B) = 0 \/ sh (e_sz B) = 0) \/
  (1 <= sw (e_sz B) <= sw (e_sz A) /\ 1 <= sh (e_sz B) <= sh (e_sz A) /\
   sw (e_sz A) - sh (e_sz A) = sw (e_sz B) - sh (e_sz B) /\ ellipse_center_2x B = ellipse_center_2x A).

Lemma eareas_concentric e n m :
  ellipse_sok e -> 0 <= n <= sbound -> - sbound <= m <= 0 -> econcentric (ellipse_offset e n) (ellipse_offset e m).
Proof.
  intros He Hn Hm. unfold econcentric. pose proof He as [_ [Hw0 Hh0]].
  pose proof (ellipse_offset_w e m) as Ewm. pose proof (ellipse_offset_w e n) as Ewn.
  pose proof (ellipse_offset_h e m) as Ehm. pose proof (ellipse_offset_h e n) as Ehn.
  assert (0 <= sw (e_sz (ellipse_offset e m)) /\ 0 <= sh (e_sz (ellipse_offset e m))) as [Hwm Hhm]
    by (unfold sbound, u32_max in *; destruct (0 <=? m) eqn:E; lia).
  destruct (Z.eq_dec (sw (e_sz (ellipse_offset e m))) 0) as [Hz|Hp]; [left; left; exact Hz|].
  destruct (Z.eq_dec (sh (e_sz (ellipse_offset e m))) 0) as [Hz2|Hp2]; [left; right; exact Hz2|].
  right.
  assert (1 <= sw (e_sz e) /\ 1 <= sh (e_sz e)) as [Hw Hh]
    by (unfold sbound, u32_max in *; destruct (0 <=? m) eqn:E; lia).
  assert (1 <= sw (e_sz (ellipse_offset e n)) /\ 1 <= sh (e_sz (ellipse_offset e n))) as [Hwn Hhn]
    by (unfold sbound, u32_max in *; destruct (0 <=? n) eqn:E; lia).
  split; [|split; [|split]].
  - unfold sbound, u32_max in *. destruct (0 <=? m) eqn:E1, (0 <=? n) eqn:E2; lia.
  - unfold sbound, u32_max in *. destruct (0 <=? m) eqn:E1, (0 <=? n) eqn:E2; lia.
  - unfold sbound, u32_max in *. destruct (0 <=? m) eqn:E1, (0 <=? n) eqn:E2; lia.
  - pose proof (ellipse_offset_center_2x_x e n He ltac:(lia) Hw Hwn).
    pose proof (ellipse_offset_center_2x_y e n He ltac:(lia) Hh Hhn).
    pose proof (ellipse_offset_center_2x_x e m He ltac:(lia) Hw ltac:(lia)).
    pose proof (ellipse_offset_center_2x_y e m He ltac:(lia) Hh ltac:(lia)).
    destruct (ellipse_center_2x (ellipse_offset e n)) as [a1 b1], (ellipse_center_2x (ellipse_offset e m)) as [a2 b2].
    cbn [px py] in *. congruence.
Qed.

Lemma econcentric_sub A B p :
  ellipse_ok A -> ellipse_ok B -> econcentric A B -> ellipse_contains B p = true -> ellipse_contains A p = true.
Proof.
  intros [_ [HwA HhA]] [_ [HwB HhB]] Hcc H.
  rewrite ellipse_contains_arith in * by lia.
  destruct Hcc as [Hz|(Hw & Hh & Hd & Hc)].
  - rewrite ell_in_false in H by first [lia | apply Z.square_nonneg]. discriminate.
  - rewrite <- Hc. apply (ell_in_grow (sw (e_sz B)) (sh (e_sz B))); first [assumption | apply Z.square_nonneg | lia].
Qed.

Lemma econcentric_fill_pred A B y x :
  ellipse_ok B -> econcentric A B ->
  ellipse_row_pred (ellipse_center_2x A) (ellipse_test_new (e_sz B)) y x = ellipse_contains B (P x y).
Proof.
  intros [_ [HwB HhB]] [Hz|(Hw & Hh & Hd & Hc)].
  - rewrite ellipse_contains_arith by lia. unfold ellipse_row_pred. rewrite ellipse_test_arith by lia.
    rewrite !ell_in_false by first [lia | apply Z.square_nonneg]. reflexivity.
  - rewrite <- Hc. reflexivity.
Qed.

(* ---- the plain scanlines of an ellipse ----------------------------------------------------- *)
Theorem ellipse_scanlines_ok A :
  ellipse_ok A ->
  (forall s, In s (ellipse_scanlines A) ->
     sl_ok (ellipse_contains A) s /\ sl_x0 s + sl_x1 s - 1 = px (ellipse_center_2x A)) /\
  (forall p, ellipse_contains A p = true -> exists s, In s (ellipse_scanlines A) /\ sl_y s = py p).
Proof.
  intros Hok. pose proof (ellipse_bbox_ok A Hok) as Hbb. unfold ellipse_scanlines.
  destruct (rows_columns_spec _ Hbb) as [-> ->]. unfold ellipse_bbox. cbn [tl sz].
  set (c0 := px (e_tl A)). set (y0 := py (e_tl A)). set (w := sw (e_sz A)). set (h := sh (e_sz A)).
  set (pred := ellipse_row_pred (ellipse_center_2x A) (ellipse_test_new (e_sz A))).
  destruct Hok as [Hp [Hw Hh]]. fold w in Hw. fold h in Hh.
  assert (Hrows : forall y, y0 <= y < y0 + h -> row_sym (pred y) c0 (c0 + w) /\ row_convex (pred y) c0 (c0 + w)).
  { intros y Hy. subst pred. destruct (Z_le_gt_dec w 0).
    - split; [intros x Hx; lia|intros x v z; lia].
    - rewrite ellipse_center_2x_pos by (fold w; fold h; lia). fold w h c0 y0. split.
      + apply ellipse_row_sym. lia.
      + apply ellipse_row_convex. cbn [ellipse_test_new et_b]. nia. }
  assert (Hhit : true = false -> forall y, y0 <= y < y0 + h -> exists x, c0 <= x < c0 + w /\ pred y x = true)
    by (intros E; discriminate).
  destruct (scan_rows_ok true pred c0 (c0 + w) y0 (y0 + h) Hrows Hhit) as [G1 G2]. cbv zeta in G1, G2.
  assert (Hext : forall p,
    ((y0 <=? py p) && (py p <? y0 + h) && (c0 <=? px p) && (px p <? c0 + w) && pred (py p) (px p)) = ellipse_contains A p).
  { intros p. subst pred. rewrite ellipse_row_pred_contains.
    replace (P (px p) (py p)) with p by (destruct p; reflexivity).
    destruct (ellipse_contains A p) eqn:E; [|apply andb_false_r].
    apply ellipse_contains_in_bbox in E; [|split; [assumption|split; assumption]].
    apply contains_spec in E. unfold ellipse_bbox in E. cbn [tl sz] in E. fold c0 y0 w h in E. lia. }
  split.
  - intros s Hin. destruct (G1 s Hin) as (A1 & A2 & A3 & A4 & A5). split.
    + eapply sl_ok_ext; [exact Hext|exact A1].
    + pose proof (proj1 A1) as A0. assert (1 <= w) by lia. assert (1 <= h) by lia.
      rewrite ellipse_center_2x_pos by (fold w; fold h; lia). fold w c0. cbn [px]. lia.
  - intros p Hp'. apply G2. rewrite Hext. exact Hp'.
Qed.

Theorem ellipse_styled_scanlines_ok A B :
  ellipse_ok A -> ellipse_ok B -> econcentric A B ->
  (forall s, In s (ellipse_styled_scanlines A B) -> ssl_ok (ellipse_contains A) (ellipse_contains B) s) /\
  (forall p, ellipse_contains A p = true -> exists s, In s (ellipse_styled_scanlines A B) /\ ss_y s = py p).
Proof.
  intros Hok HokB Hcc. destruct (ellipse_scanlines_ok A Hok) as [G1 G2]. unfold ellipse_styled_scanlines.
  destruct (styled_scan_ok (ellipse_contains A) (ellipse_contains B)
              (ellipse_row_pred (ellipse_center_2x A) (ellipse_test_new (e_sz B))) (ellipse_scanlines A)) as [H1 H2].
  - intros s Hin. destruct (G1 s Hin) as [A1 A2]. split; [exact A1|].
    destruct (ellipse_center_2x A) as [cx cy] eqn:E. cbn [px] in A2. split.
    + apply ellipse_row_sym. exact A2.
    + apply ellipse_row_convex. cbn [ellipse_test_new et_b]. nia.
  - intros x y. apply econcentric_sub; assumption.
  - intros s x _ _. symmetry. apply econcentric_fill_pred; assumption.
  - split; [exact H1|]. intros p Hp. apply H2. apply G2. exact Hp.
Qed.

Section Areas.
  Variables (A B : ellipse).
  Hypothesis HA : ellipse_ok A.
  Hypothesis HB : ellipse_ok B.
  Hypothesis Hcc : econcentric A B.
  Let S := ellipse_contains A.
  Let F := ellipse_contains B.
  Let l := ellipse_styled_scanlines A B.

  Lemma eareas_sub p : F p = true -> S p = true.
  Proof. apply econcentric_sub; assumption. Qed.

  Lemma eareas_both sc fc p :
    render (flat_map (fun s => draw_stroke_and_fill s sc fc) l) p = (if F p then Some fc else if S p then Some sc else None) /\
    last_write (pix_spans (spans_both sc fc l)) p = (if F p then Some fc else if S p then Some sc else None).
  Proof.
    destruct (ellipse_styled_scanlines_ok A B HA HB Hcc) as [H1 H2]. rewrite draw_both_spans.
    apply (spans_both_map S F l H1 H2 eareas_sub sc fc p).
  Qed.

  Lemma eareas_stroke sc p :
    render (flat_map (fun s => draw_stroke s sc) l) p = (if F p then None else if S p then Some sc else None) /\
    last_write (pix_spans (spans_stroke sc l)) p = (if F p then None else if S p then Some sc else None).
  Proof.
    destruct (ellipse_styled_scanlines_ok A B HA HB Hcc) as [H1 H2]. rewrite draw_stroke_spans.
    apply (spans_stroke_map S F l H1 H2 sc p).
  Qed.

  Lemma eareas_fill_pix fc p :
    last_write (pix_spans (spans_fill fc l)) p = (if F p then Some fc else None).
  Proof.
    destruct (ellipse_styled_scanlines_ok A B HA HB Hcc) as [H1 H2].
    apply (spans_fill_map S F l H1 H2 eareas_sub fc p).
  Qed.

  Lemma eareas_fill_draw fc p :
    render (flat_map (fun s => scanline_draw s fc) (ellipse_scanlines B)) p = (if F p then Some fc else None).
  Proof.
    destruct (ellipse_scanlines_ok B HB) as [H1 H2]. rewrite draw_plain_spans.
    apply (spans_plain_map F (ellipse_scanlines B) fc p).
    - intros s Hin. apply H1. exact Hin.
    - exact H2.
  Qed.
End Areas.

(* ---- C06 for the ellipse -------------------------------------------------------------------- *)
Lemma ellipse_areas e st :
  ellipse_sok e -> style_ok st ->
  ellipse_ok (ellipse_stroke_area e st) /\ ellipse_ok (ellipse_fill_area e st) /\
  econcentric (ellipse_stroke_area e st) (ellipse_fill_area e st).
Proof.
  intros He Hs. destruct (offsets_range st Hs) as (E1 & R1 & R2 & E2). unfold ellipse_stroke_area, ellipse_fill_area.
  assert (- sbound <= fill_area_offset st <= 0) as Rf by (rewrite E2; destruct (stroke_kind st); unfold sbound in *; lia).
  rewrite E1. split; [|split].
  - apply ellipse_offset_ok; [assumption|lia].
  - apply ellipse_offset_ok; [assumption|unfold sbound in *; lia].
  - apply eareas_concentric; assumption.
Qed.

Theorem ellipse_styled_spec e st p :
  ellipse_sok e -> style_ok st ->
  render (ellipse_draw_styled e st) p =
  styled_map (ellipse_contains (ellipse_fill_area e st)) (ellipse_contains (ellipse_stroke_area e st)) st p.
Proof.
  intros He Hs. destruct (ellipse_areas e st He Hs) as (HA & HB & Hcc).
  unfold ellipse_draw_styled, styled_map, effective_stroke_color.
  destruct (stroke_color st) as [sc|], (fill_color st) as [fc|], (0 <? stroke_width st) eqn:Ew;
    rewrite ?andb_true_r, ?andb_false_r; cbv beta iota;
    first [ rewrite (proj1 (eareas_both _ _ HA HB Hcc _ _ p))
          | rewrite (proj1 (eareas_stroke _ _ HA HB Hcc _ p))
          | rewrite (eareas_fill_draw _ HB)
          | unfold render; cbn [flat_map fold_left] ];
    fin_ifs.
Qed.

Theorem ellipse_pixels_spec e st p :
  ellipse_sok e -> style_ok st ->
  last_write (ellipse_styled_pixels e st) p =
  styled_map (ellipse_contains (ellipse_fill_area e st)) (ellipse_contains (ellipse_stroke_area e st)) st p.
Proof.
  intros He Hs. destruct (ellipse_areas e st He Hs) as (HA & HB & Hcc).
  unfold ellipse_styled_pixels, styled_map. rewrite styled_pixels_spans.
  assert (Hw0 : (0 <? stroke_width st) = false ->
                ellipse_contains (ellipse_stroke_area e st) p = ellipse_contains (ellipse_fill_area e st) p).
  { intros E. assert (stroke_width st = 0) as Ew by (unfold style_ok in Hs; lia).
    unfold ellipse_stroke_area, ellipse_fill_area. destruct (offsets_zero st Ew) as [-> ->]. reflexivity. }
  destruct (stroke_color st) as [sc|], (fill_color st) as [fc|]; cbv beta iota;
    first [ rewrite (proj2 (eareas_both _ _ HA HB Hcc _ _ p))
          | rewrite (proj2 (eareas_stroke _ _ HA HB Hcc _ p))
          | rewrite (eareas_fill_pix _ _ HA HB Hcc _ p)
          | unfold last_write, pix_spans; cbn [flat_map fold_left] ];
    destruct (0 <? stroke_width st); rewrite ?andb_true_r, ?andb_false_r;
    try (rewrite Hw0 by reflexivity); fin_ifs.
Qed.

(* ---- geometry of the two areas ---- *)
Lemma ellipse_sok_ok e : ellipse_sok e -> ellipse_ok e.
Proof. intros [[? ?] [? ?]]. unfold ellipse_ok, point_ok, size_ok, sbound, bound in *. lia. Qed.

Lemma ellipse_offset_zero e : ellipse_ok e -> ellipse_offset e 0 = e.
Proof. intros H. destruct e as [[x y] [w h]]. unf_ell. cbn. f_equal; f_equal; lia. Qed.

Lemma ellipse_contains_degenerate e p :
  ellipse_ok e -> sw (e_sz e) = 0 \/ sh (e_sz e) = 0 -> ellipse_contains e p = false.
Proof.
  intros [_ [Hw Hh]] Hz. rewrite ellipse_contains_arith by lia.
  apply ell_in_false; first [lia | apply Z.square_nonneg | exact Hz].
Qed.

Theorem ellipse_stroke_area_grow e st :
  ellipse_sok e -> style_ok st -> 1 <= sw (e_sz e) -> 1 <= sh (e_sz e) ->
  ellipse_stroke_area e st =
  Ell (P (px (e_tl e) - outside_stroke_width st) (py (e_tl e) - outside_stroke_width st))
      (S (sw (e_sz e) + 2 * outside_stroke_width st) (sh (e_sz e) + 2 * outside_stroke_width st)).
Proof.
  intros He Hs Hw Hh. destruct (offsets_range st Hs) as (E1 & R1 & _). unfold ellipse_stroke_area. rewrite E1.
  apply ellipse_offset_grow; [apply ellipse_sok_ok, He|assumption|assumption|unfold sbound, bound in *; lia].
Qed.

Theorem ellipse_fill_area_shrink e st :
  ellipse_sok e -> style_ok st -> stroke_kind st = Solid ->
  let ins := inside_stroke_width st in
  let fa := ellipse_fill_area e st in
  (2 * ins < sw (e_sz e) -> px (e_tl fa) = px (e_tl e) + ins /\ sw (e_sz fa) = sw (e_sz e) - 2 * ins) /\
  (2 * ins < sh (e_sz e) -> py (e_tl fa) = py (e_tl e) + ins /\ sh (e_sz fa) = sh (e_sz e) - 2 * ins) /\
  (sw (e_sz e) <= 2 * ins \/ sh (e_sz e) <= 2 * ins -> forall p, ellipse_contains fa p = false).
Proof.
  intros He Hs Hk ins fa. destruct (offsets_range st Hs) as (_ & _ & R2 & E2). rewrite Hk in E2.
  subst fa. unfold ellipse_fill_area. rewrite E2. fold ins in R2 |- *. pose proof (ellipse_sok_ok e He) as Hok.
  destruct (Z.eq_dec ins 0) as [->|Hn].
  - change (- 0) with 0. rewrite ellipse_offset_zero by assumption. split; [lia|split; [lia|]].
    intros Hz p. apply ellipse_contains_degenerate; [assumption|]. destruct Hok as [_ [? ?]]. lia.
  - destruct (ellipse_offset_shrink e ins Hok ltac:(unfold sbound, bound in *; lia)) as (G1 & G2 & G3 & G4).
    split; [exact G1|split; [exact G3|]].
    intros Hz p. apply ellipse_contains_degenerate.
    + apply ellipse_offset_ok; [assumption|unfold sbound in *; lia].
    + destruct Hz; [left; apply G2|right; apply G4]; assumption.
Qed.

Theorem ellipse_inside_stroke_stays_in e st p :
  ellipse_sok e -> style_ok st -> stroke_alignment st = Inside ->
  render (ellipse_draw_styled e st) p <> None -> ellipse_contains e p = true.
Proof.
  intros He Hs Ha. rewrite ellipse_styled_spec by assumption. destruct (ellipse_areas e st He Hs) as (HA & HB & Hcc).
  assert (ellipse_stroke_area e st = e) as E.
  { unfold ellipse_stroke_area, stroke_area_offset, outside_stroke_width. rewrite Ha. apply ellipse_offset_zero, ellipse_sok_ok, He. }
  unfold styled_map. pose proof (econcentric_sub _ _ p HA HB Hcc) as Hsub. rewrite E in *.
  destruct (ellipse_contains (ellipse_fill_area e st) p); [intros _; apply Hsub; reflexivity|].
  destruct (ellipse_contains e p); [reflexivity|]. cbn. congruence.
Qed.

Theorem ellipse_outside_stroke_stays_out e st p :
  ellipse_sok e -> style_ok st -> stroke_alignment st = Outside ->
  ellipse_contains e p = true -> render (ellipse_draw_styled e st) p = fill_color st.
Proof.
  intros He Hs Ha Hp. rewrite ellipse_styled_spec by assumption.
  assert (ellipse_fill_area e st = e) as E.
  { unfold ellipse_fill_area, fill_area_offset, inside_stroke_width. rewrite Ha.
    destruct (stroke_kind st); apply ellipse_offset_zero, ellipse_sok_ok, He. }
  unfold styled_map. rewrite E, Hp. reflexivity.
Qed.
