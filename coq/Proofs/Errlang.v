(* C04 - proofs about the error-flow skeleton semantics (Model/Errlang.v).

   Main result [propagating_stops]: in a table of functions in which every call site is Propagated and nothing is
   Other, for every entry function, every oracle (loop counts, branch choices, dynamic dispatch) and every call
   depth, if the fault-free run makes n calls on the underlying target then for every k < n the run in which the
   k-th call fails with e returns Err e (unchanged), and its log is exactly the first k calls of the fault-free
   log followed by the failing call - nothing afterwards. *)
From Coq Require Import String List Arith Bool Lia.
From EG Require Import Model.Errlang.
Import ListNotations.
Set Default Timeout 60.

Section Proofs.
  Variable E : Type.
  Notation st := (st E).
  Notation fault := (fault E).

  (* The contract a computation [f] (with result type R; [fail e] = "failed with e") satisfies at state x:
     relative to its fault-free run, (1) that run does not fail, only extends the log and keeps the deferred slot;
     (2) a fault behind its last call leaves it unchanged; (3) a fault at one of its calls makes it fail with
     exactly that error, right after that call. *)
  Definition contract {R : Type} (fail : E -> R) (f : fault -> st -> option (R * st)) (x : st) : Prop :=
    forall r0 x0, f None x = Some (r0, x0) ->
      (forall e, r0 <> fail e) /\
      (exists l, log x0 = log x ++ l) /\
      pend x0 = pend x /\
      forall k e, length (log x) <= k ->
        (length (log x0) <= k -> f (Some (k, e)) x = Some (r0, x0)) /\
        (k < length (log x0) ->
           exists x', f (Some (k, e)) x = Some (fail e, x') /\
                      log x' = firstn (S k) (log x0) /\ pend x' = pend x).

  Lemma firstn_app_le : forall (A : Type) n (l1 l2 : list A), n <= length l1 -> firstn n (l1 ++ l2) = firstn n l1.
  Proof.
    intros. rewrite firstn_app. replace (n - length l1) with 0 by lia. cbn. apply app_nil_r.
  Qed.

  Lemma pop_log : forall (x : st), log (snd (pop E x)) = log x /\ pend (snd (pop E x)) = pend x.
  Proof. intros x. unfold pop. destruct (orc x); cbn; auto. Qed.

  (* ---------------------------------------------------------------- a call that reaches the target *)
  Lemma leaf_contract : forall ev x, contract (@RErr E) (fun flt x => Some (leaf E flt ev x)) x.
  Proof.
    intros ev x r0 x0 H. cbn in H. inversion H; subst; clear H. unfold leaf. cbn [log pend orc].
    split; [discriminate|]. split; [eexists; reflexivity|]. split; [reflexivity|].
    intros k e Hk. rewrite app_length; cbn [length]. split; intros Hk2.
    - destruct (Nat.eqb_spec (length (log x)) k); [lia|reflexivity].
    - assert (length (log x) = k) by lia. subst k. rewrite Nat.eqb_refl.
      eexists; split; [reflexivity|]. cbn [log pend]. split; [|reflexivity].
      rewrite firstn_all2; [reflexivity|]. rewrite app_length; cbn [length]; lia.
  Qed.

  (* ---------------------------------------------------------------- sequencing *)
  Definition andthen (fa fb : fault -> st -> option (outcome E * st)) : fault -> st -> option (outcome E * st) :=
    fun flt x => match fa flt x with
                 | Some (Normal, x') => fb flt x'
                 | r => r
                 end.

  Lemma contract_seq : forall fa fb x,
    contract (@Failed E) fa x -> (forall x', contract (@Failed E) fb x') -> contract (@Failed E) (andthen fa fb) x.
  Proof.
    intros fa fb x Ha Hb r0 x0 H. unfold andthen in *.
    destruct (fa None x) as [[oa xa]|] eqn:Ea; [|discriminate].
    destruct (Ha _ _ Ea) as (nfa & [la Hla] & Hpa & Hka).
    destruct oa as [| |ea].
    - (* a ended normally, b runs *)
      destruct (Hb xa _ _ H) as (nfb & [lb Hlb] & Hpb & Hkb).
      split; [exact nfb|]. split; [exists (la ++ lb); rewrite Hlb, Hla, app_assoc; reflexivity|].
      split; [congruence|]. intros k e Hk. destruct (Hka k e Hk) as [Hka1 Hka2].
      assert (Hlen : length (log xa) <= length (log x0)) by (rewrite Hlb, app_length; lia).
      split; intros Hk2.
      + rewrite Hka1 by lia. apply (Hkb k e); lia.
      + destruct (le_lt_dec (length (log xa)) k) as [Hge|Hlt].
        * rewrite Hka1 by lia. destruct (Hkb k e Hge) as [_ Hkb2].
          destruct (Hkb2 Hk2) as (x' & Hx' & Hl' & Hp'). exists x'. repeat split; auto; congruence.
        * destruct (Hka2 Hlt) as (x' & Hx' & Hl' & Hp'). rewrite Hx'. exists x'. repeat split; auto.
          rewrite Hl', Hlb. symmetry. apply firstn_app_le. lia.
    - (* a returned: b does not run *)
      inversion H; subst; clear H. split; [exact nfa|]. split; [eauto|]. split; [exact Hpa|].
      intros k e Hk. destruct (Hka k e Hk) as [Hka1 Hka2]. split; intros Hk2.
      + rewrite Hka1 by lia. reflexivity.
      + destruct (Hka2 Hk2) as (x' & Hx' & Hl' & Hp'). rewrite Hx'. exists x'. auto.
    - exfalso. apply (nfa ea). reflexivity.
  Qed.

  Lemma contract_skip : forall x, contract (@Failed E) (fun _ x => Some (Normal, x)) x.
  Proof.
    intros x r0 x0 H. inversion H; subst; clear H.
    split; [discriminate|]. split; [exists []; rewrite app_nil_r; reflexivity|]. split; [reflexivity|].
    intros k e Hk. split; intros; [reflexivity|lia].
  Qed.

  Lemma contract_ret : forall x, contract (@Failed E) (fun _ x => Some (Returned, x)) x.
  Proof.
    intros x r0 x0 H. inversion H; subst; clear H.
    split; [discriminate|]. split; [exists []; rewrite app_nil_r; reflexivity|]. split; [reflexivity|].
    intros k e Hk. split; intros; [reflexivity|lia].
  Qed.

  Lemma iterate_andthen : forall (body : fault -> st -> option (outcome E * st)) n flt x,
    iterate E (body flt) (S n) x = andthen body (fun flt => iterate E (body flt) n) flt x.
  Proof. reflexivity. Qed.

  Lemma contract_iterate : forall (body : fault -> st -> option (outcome E * st)) n,
    (forall x, contract (@Failed E) body x) ->
    forall x, contract (@Failed E) (fun flt => iterate E (body flt) n) x.
  Proof.
    intros body n Hb. induction n as [|n IH]; intros x.
    - apply contract_skip.
    - intros r0 x0 H. rewrite iterate_andthen in H.
      destruct (contract_seq body (fun flt => iterate E (body flt) n) x (Hb x) IH r0 x0 H) as (A & B & C & D).
      repeat split; auto; intros; rewrite iterate_andthen; apply (D k e); auto.
  Qed.

  (* a computation that first reads the oracle: pop does not depend on the fault and touches neither log nor pend *)
  Lemma contract_pop : forall {R} (fail : E -> R) (g : nat -> fault -> st -> option (R * st)) x,
    (forall n x1, contract fail (g n) x1) ->
    contract fail (fun flt x => let (n, x1) := pop E x in g n flt x1) x.
  Proof.
    intros R fail g x Hg r0 x0 H. destruct (pop_log x) as [Hl Hp].
    destruct (pop E x) as [n x1] eqn:Epop. cbn in Hl, Hp.
    destruct (Hg n x1 r0 x0 H) as (A & B & C & D). rewrite Hl in B, D. rewrite Hp in C, D.
    split; [exact A|]. split; [exact B|]. split; [exact C|]. exact D.
  Qed.

  (* ---------------------------------------------------------------- skeletons *)
  Section Go.
    Variable fs : list fndef.
    Variable cf : fault -> fndef -> st -> option (callres E * st).
    Hypothesis cf_ok : forall f x, In f fs -> contract (@RErr E) (fun flt => cf flt f) x.

    Lemma candidates_in : forall c i f, nth_error (candidates fs c) i = Some f -> In f fs.
    Proof.
      intros c i f H. apply nth_error_In in H. unfold candidates in H. apply filter_In in H. tauto.
    Qed.

    Lemma do_call_contract : forall c site x,
      contract (@RErr E) (fun flt => do_call E fs (cf flt) flt c site) x.
    Proof.
      intros c site x. unfold do_call.
      apply (contract_pop (@RErr E)
               (fun n flt x1 => match n with
                                | O => Some (leaf E flt (c, site) x1)
                                | S i => match nth_error (candidates fs c) i with
                                         | Some f => cf flt f x1
                                         | None => Some (leaf E flt (c, site) x1)
                                         end
                                end)).
      intros n x1. destruct n as [|i]; [apply leaf_contract|].
      destruct (nth_error (candidates fs c) i) as [f|] eqn:En; [|apply leaf_contract].
      apply cf_ok. eapply candidates_in; eauto.
    Qed.

    Lemma call_contract : forall c site x,
      contract (@Failed E) (fun flt x => match do_call E fs (cf flt) flt c site x with
                                         | Some (r, x') => Some (dispose E Propagated r x')
                                         | None => None
                                         end) x.
    Proof.
      intros c site x r0 x0 H.
      destruct (do_call E fs (cf None) None c site x) as [[r xr]|] eqn:Ec; [|discriminate].
      destruct (do_call_contract c site x r xr Ec) as (nf & Hext & Hp & Hk).
      destruct r as [|e0]; [|exfalso; apply (nf e0); reflexivity].
      cbn in H. inversion H; subst; clear H.
      split; [discriminate|]. split; [exact Hext|]. split; [exact Hp|].
      intros k e Hle. destruct (Hk k e Hle) as [Hk1 Hk2]. split; intros Hk3.
      - rewrite Hk1 by lia. reflexivity.
      - destruct (Hk2 Hk3) as (x' & Hx' & Hl' & Hp'). rewrite Hx'. cbn. exists x'. auto.
    Qed.

    Lemma go_contract : forall s,
      sk_all_propagated s = true -> sk_no_other s = true ->
      forall x, contract (@Failed E) (fun flt => go E fs (cf flt) flt s) x.
    Proof.
      induction s as [|a IHa b IHb|b IHb|a IHa b IHb|c site d| |w]; cbn [sk_all_propagated sk_no_other]; intros Hp Hn x.
      - apply contract_skip.
      - apply andb_true_iff in Hp. apply andb_true_iff in Hn.
        apply (contract_seq (fun flt => go E fs (cf flt) flt a) (fun flt => go E fs (cf flt) flt b)).
        + apply IHa; tauto.
        + apply IHb; tauto.
      - cbn [go].
        apply (contract_pop (@Failed E) (fun n flt => iterate E (go E fs (cf flt) flt b) n)).
        intros n x1. apply (contract_iterate (fun flt => go E fs (cf flt) flt b)). apply IHb; auto.
      - apply andb_true_iff in Hp. apply andb_true_iff in Hn. cbn [go].
        apply (contract_pop (@Failed E) (fun n flt x1 => match n with
                                                        | O => go E fs (cf flt) flt a x1
                                                        | S _ => go E fs (cf flt) flt b x1
                                                        end)).
        intros n x1. destruct n; [apply IHa|apply IHb]; tauto.
      - destruct d; try discriminate. apply call_contract.
      - apply contract_ret.
      - discriminate.
    Qed.

    Lemma run_fn_contract : forall f,
      all_propagated f = true -> no_other f = true ->
      forall x, contract (@RErr E) (fun flt => run_fn E fs (cf flt) flt f) x.
    Proof.
      intros f Hp Hn x r0 x0 H. unfold run_fn in *.
      set (xs := {| log := log x; orc := orc x; pend := None |}) in *.
      destruct (go E fs (cf None) None (fbody f) xs) as [[o x1]|] eqn:Eg; [|discriminate].
      destruct (go_contract (fbody f) Hp Hn xs o x1 Eg) as (nf & Hext & Hpe & Hk).
      cbn [log pend xs] in Hext, Hpe, Hk. rewrite Hpe in H.
      assert (Hr : r0 = ROk /\ x0 = {| log := log x1; orc := orc x1; pend := pend x |}).
      { destruct o as [| |e0]; inversion H; auto. exfalso. apply (nf e0). reflexivity. }
      destruct Hr as [-> ->]. clear H. cbn [log pend].
      split; [discriminate|]. split; [exact Hext|]. split; [reflexivity|].
      intros k e Hle. destruct (Hk k e Hle) as [Hk1 Hk2]. split; intros Hk3.
      - rewrite Hk1 by lia. rewrite Hpe. destruct o as [| |e0]; try reflexivity. exfalso. apply (nf e0). reflexivity.
      - destruct (Hk2 Hk3) as (x' & Hx' & Hl' & Hp'). rewrite Hx'.
        eexists; split; [reflexivity|]. cbn [log pend]. auto.
    Qed.
  End Go.

  (* ---------------------------------------------------------------- whole runs *)
  Lemma exec_contract : forall fs,
    forallb all_propagated fs = true -> forallb no_other fs = true ->
    forall fuel f x, In f fs -> contract (@RErr E) (fun flt => exec E fs fuel flt f) x.
  Proof.
    intros fs Hp Hn fuel. induction fuel as [|fu IH]; intros f x Hin.
    - intros r0 x0 H. discriminate.
    - cbn [exec].
      apply (run_fn_contract fs (fun flt => exec E fs fu flt)).
      + intros g y Hg. apply IH. exact Hg.
      + rewrite forallb_forall in Hp. apply Hp. exact Hin.
      + rewrite forallb_forall in Hn. apply Hn. exact Hin.
  Qed.

  Lemma firstn_S_nth : forall (A : Type) (d : A) k (l : list A), k < length l -> firstn (S k) l = firstn k l ++ [nth k l d].
  Proof.
    intros A d k. induction k as [|k IH]; intros l Hk; destruct l as [|a l]; cbn in *; try lia.
    - reflexivity.
    - f_equal. apply IH. lia.
  Qed.

  (* The generic theorem.  [entry] is any function of the table, [o] any oracle, [fuel] any call depth for which
     the fault-free run is defined. *)
  Theorem propagating_stops : forall (prog : list fndef),
    forallb all_propagated prog = true -> forallb no_other prog = true ->
    forall fuel entry o r0 log0, In entry prog ->
    run E prog fuel None entry o = Some (r0, log0) ->
    r0 = ROk /\
    forall k e d, k < n_calls E prog fuel entry o ->
      exists logk,
        run E prog fuel (Some (k, e)) entry o = Some (RErr e, logk) /\   (* that call's error, unchanged *)
        logk = firstn k log0 ++ [nth k log0 d] /\                       (* fault-free prefix + the failing call *)
        length logk = S k.                                              (* no call afterwards *)
  Proof.
    intros prog Hp Hn fuel entry o r0 log0 Hin Hrun.
    unfold n_calls. rewrite Hrun. unfold run in *.
    destruct (exec E prog fuel None entry (init E o)) as [[r x0]|] eqn:Ex; [|discriminate].
    inversion Hrun; subst r log0; clear Hrun.
    destruct (exec_contract prog Hp Hn fuel entry (init E o) Hin r0 x0 Ex) as (nf & _ & _ & Hk).
    split.
    - destruct r0 as [|e0]; [reflexivity|]. exfalso. apply (nf e0). reflexivity.
    - intros k e d Hlt. cbn [log init length] in Hk.
      destruct (Hk k e (Nat.le_0_l k)) as [_ Hk2]. destruct (Hk2 Hlt) as (x' & Hx' & Hl' & _).
      rewrite Hx'. eexists; split; [reflexivity|]. rewrite Hl'. split.
      + apply firstn_S_nth. exact Hlt.
      + rewrite firstn_length. lia.
  Qed.

  (* and a fault that is not reached (k >= n) changes nothing *)
  Theorem unreached_fault_is_invisible : forall (prog : list fndef),
    forallb all_propagated prog = true -> forallb no_other prog = true ->
    forall fuel entry o r0 log0 k e, In entry prog ->
    run E prog fuel None entry o = Some (r0, log0) -> length log0 <= k ->
    run E prog fuel (Some (k, e)) entry o = Some (r0, log0).
  Proof.
    intros prog Hp Hn fuel entry o r0 log0 k e Hin Hrun Hk. unfold run in *.
    destruct (exec E prog fuel None entry (init E o)) as [[r x0]|] eqn:Ex; [|discriminate].
    inversion Hrun; subst r log0; clear Hrun.
    destruct (exec_contract prog Hp Hn fuel entry (init E o) Hin r0 x0 Ex) as (_ & _ & _ & Hc).
    destruct (Hc k e (Nat.le_0_l k)) as [Hc1 _]. rewrite Hc1 by exact Hk. reflexivity.
  Qed.
End Proofs.
