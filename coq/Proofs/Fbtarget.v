(* Framebuffer as a DrawTarget (property C10): it is a conforming draw_iter-only target in the sense of
   Model/Target.v, so fill_solid / fill_contiguous / clear (inherited trait defaults) have their documented
   meaning on the point -> colour map, for single calls and for histories of all five operations. *)
From EG Require Import Base.Prelude Base.Lemmas Model.Rawdata Proofs.Rawdata Model.Framebuffer Proofs.Framebuffer.
From EG Require Import Model.Geometry Proofs.Geometry Model.Target Proofs.Target.
From Coq Require Import ZifyBool.
Set Default Timeout 60.

Section WithUsize.
Context {U : Usize}.

(* the abstraction function: the colour map read through pixel() (None outside; Panic never occurs) *)
Definition fb_abs (c : fbcfg) (data : list Z) : pixmap :=
  fun p => match fb_pixel c data (px p, py p) with Pix v => v | Panic => None end.

(* the call of Model/Target.v that an operation is *)
Definition of_writes (l : list Proofs.Framebuffer.write) : list (point * color) :=
  map (fun o => (P (fst (fst o)) (snd (fst o)), snd o)) l.
Definition op_call (o : fbop) : call :=
  match o with
  | OpSet p v => DrawIter (of_writes [(p, v)])
  | OpDrawIter px => DrawIter (of_writes px)
  | OpFillSolid a v => FillSolid a v
  | OpFillContiguous a cs => FillContiguous a cs
  | OpClear v => Clear v
  end.

Lemma contains_bbox c p : contains (fb_bounding_box c) p = fb_insideb c (px p, py p).
Proof.
  apply eq_true_iff_eq. rewrite contains_spec. unfold fb_insideb, fb_bounding_box. cbn [tl sz px py sw sh fst snd]. lia.
Qed.

Lemma fb_bbox_fits c data : fb_ok c data -> rect_fits (fb_bounding_box c).
Proof.
  intros (Hw & Hh & _). unfold rect_fits, size_fits, fb_bounding_box, i32_min, i32_max in *. cbn [tl sz px py sw sh]. lia.
Qed.

Lemma pt_eqb_point_eqb q x y : pt_eqb (x, y) (px q, py q) = point_eqb q (P x y).
Proof. unfold pt_eqb, point_eqb. cbn [fst snd px py]. apply eq_true_iff_eq. lia. Qed.

Lemma draw_iter_ext bb ps m m' p : m p = m' p -> draw_iter bb ps m p = draw_iter bb ps m' p.
Proof. intros H. rewrite !draw_iter_spec, H. reflexivity. Qed.

Lemma to_of_writes l : to_writes (of_writes l) = l.
Proof.
  unfold to_writes, of_writes. rewrite map_map. rewrite <- (map_id l) at 2. apply map_ext.
  intros [[x y] v]. reflexivity.
Qed.

Lemma of_to_writes l : of_writes (to_writes l) = l.
Proof.
  unfold to_writes, of_writes. rewrite map_map. rewrite <- (map_id l) at 2. apply map_ext.
  intros [[x y] v]. reflexivity.
Qed.

(* Framebuffer::draw_iter IS the draw_iter of a conforming target with the framebuffer's bounding box *)
Lemma fb_draw_iter_target c ws : forall data p,
  fb_ok c data -> Forall (write_ok c) ws ->
  fb_abs c (fb_draw_iter c data ws) p = draw_iter (fb_bounding_box c) (of_writes ws) (fb_abs c data) p.
Proof.
  induction ws as [|[[x y] v] ws IH]; intros data p Ok F; [reflexivity|].
  inversion F as [|? ? Ho Fr]; subst. unfold fb_draw_iter, draw_iter, of_writes. cbn [fold_left map fst snd].
  destruct (fb_ok_set_pixel c data (x, y) v Ok Ho) as [Ok' _].
  fold (fb_draw_iter c (fb_set_pixel c data (x, y) v) ws). fold (of_writes ws).
  match goal with |- _ = fold_left ?f ?l ?m0 p => change (fold_left f l m0) with (draw_iter (fb_bounding_box c) l m0) end.
  rewrite IH by auto. apply draw_iter_ext.
  unfold fb_abs. rewrite fb_set_pixel_spec by auto. rewrite contains_bbox. cbn [px py].
  destruct (fb_insideb c (x, y)); cbn [andb]; [|reflexivity].
  unfold set_px. rewrite pt_eqb_point_eqb. destruct (point_eqb p (P x y)); reflexivity.
Qed.

(* every operation is the corresponding call painted on a draw_iter-only target ... *)
Lemma fb_step_paint_default c data o p :
  fb_ok c data -> fbop_ok c o ->
  fb_abs c (fb_step c data o) p = paint (fb_bounding_box c) DefaultOnly (op_call o) (fb_abs c data) p.
Proof.
  intros Ok Fo. rewrite fb_step_is_draw_iter, fb_draw_iter_target by auto.
  destruct o; cbn [op_writes op_call paint]; unfold default_clear, default_fill_solid, default_fill_contiguous;
    rewrite ?of_to_writes; reflexivity.
Qed.

(* ... and hence has the documented (native) meaning of that call *)
Definition fbop_fits (o : fbop) : Prop :=
  match o with OpFillSolid a _ | OpFillContiguous a _ => rect_fits a | _ => True end.

Lemma fb_step_paint c data o p :
  fb_ok c data -> fbop_ok c o -> fbop_fits o ->
  fb_abs c (fb_step c data o) p = paint (fb_bounding_box c) Native (op_call o) (fb_abs c data) p.
Proof.
  intros Ok Fo Ff. rewrite fb_step_paint_default by auto.
  apply paint_default_native; [eapply fb_bbox_fits; eauto|]. destruct o; cbn; auto.
Qed.

Lemma fb_step_ok c data o : fb_ok c data -> fbop_ok c o -> fb_ok c (fb_step c data o).
Proof.
  intros Ok Fo. rewrite fb_step_is_draw_iter. destruct (fb_draw_iter_spec c (op_writes c o) data (0, 0) Ok Fo) as [A _]. exact A.
Qed.

(* histories of all five operations = the calls painted in order *)
Lemma fb_history_paint c ops : forall data p,
  fb_ok c data -> Forall (fbop_ok c) ops -> Forall fbop_fits ops ->
  fb_abs c (fold_left (fb_step c) ops data) p =
  paint_all (fb_bounding_box c) Native (map op_call ops) (fb_abs c data) p.
Proof.
  induction ops as [|o ops IH]; intros data p Ok F1 F2; [reflexivity|].
  inversion F1; inversion F2; subst. cbn [fold_left map]. unfold paint_all. cbn [fold_left].
  fold (paint_all (fb_bounding_box c) Native (map op_call ops) (paint (fb_bounding_box c) Native (op_call o) (fb_abs c data))).
  rewrite IH by (auto using fb_step_ok).
  assert (E : forall m m' cs, m p = m' p -> paint_all (fb_bounding_box c) Native cs m p = paint_all (fb_bounding_box c) Native cs m' p).
  { intros m m' cs. revert m m'. unfold paint_all. induction cs as [|k cs IHc]; intros m m' H; cbn [fold_left]; auto.
    apply IHc. apply paint_native_local. exact H. }
  apply E. apply fb_step_paint; auto.
Qed.

(* ---- the three inherited methods, explicitly ---------------------------------------------------------------- *)
Definition stream_ok (c : fbcfg) (cs : stream) : Prop :=
  match cs with Fin l => Forall (raw_ok (fb_t c)) l | Rep v => raw_ok (fb_t c) v end.

Lemma szip_writes_ok c pts cs : stream_ok c cs -> Forall (write_ok c) (to_writes (szip pts cs)).
Proof.
  intros H. unfold to_writes. rewrite Forall_map. unfold write_ok. cbn [snd].
  destruct cs as [l|v]; cbn [szip stream_ok] in *.
  - revert l H. induction pts as [|q pts IH]; intros [|x l] H; cbn [zip]; constructor.
    + inversion H; auto.
    + apply IH. inversion H; auto.
  - rewrite Forall_map. apply Forall_forall. intros; exact H.
Qed.

Lemma fill_contiguous_ok c a cs : stream_ok c cs -> fbop_ok c (OpFillContiguous a cs).
Proof. intros H. apply szip_writes_ok; auto. Qed.
Lemma fill_solid_ok c a v : raw_ok (fb_t c) v -> fbop_ok c (OpFillSolid a v).
Proof. intros H. apply (szip_writes_ok c _ (Rep v)); auto. Qed.
Lemma clear_ok c v : raw_ok (fb_t c) v -> fbop_ok c (OpClear v).
Proof. intros H. apply (szip_writes_ok c _ (Rep v)); auto. Qed.

Lemma abs_pixel c data q : fb_ok c data -> fb_pixel c data q = Pix (fb_abs c data (P (fst q) (snd q))).
Proof.
  intros Ok. unfold fb_abs. cbn [px py]. destruct q as [x y]. cbn [fst snd].
  rewrite fb_pixel_is_load by auto. reflexivity.
Qed.

Lemma fb_fill_solid_spec c data a v q :
  fb_ok c data -> raw_ok (fb_t c) v -> rect_fits a ->
  fb_pixel c (fb_fill_solid c data a v) q =
  if fb_insideb c q && contains a (P (fst q) (snd q)) then Pix (Some v) else fb_pixel c data q.
Proof.
  intros Ok Hv Ha.
  pose proof (fb_step_ok c data (OpFillSolid a v) Ok (fill_solid_ok c a v Hv)) as Ok'. cbn [fb_step] in Ok'.
  rewrite (abs_pixel c _ q Ok'), (abs_pixel c data q Ok).
  pose proof (fb_step_paint c data (OpFillSolid a v) (P (fst q) (snd q)) Ok (fill_solid_ok c a v Hv) Ha) as H.
  cbn [fb_step op_call paint] in H. rewrite H. unfold native_fill_solid. rewrite contains_bbox. cbn [px py].
  replace (fst q, snd q) with q by (destruct q; reflexivity).
  rewrite andb_comm. destruct (_ && _); reflexivity.
Qed.

Lemma fb_clear_spec c data v q :
  fb_ok c data -> raw_ok (fb_t c) v ->
  fb_pixel c (fb_clear c data v) q = Pix (if fb_insideb c q then Some v else None).
Proof.
  intros Ok Hv. unfold fb_clear. rewrite fb_fill_solid_spec by (auto; eapply fb_bbox_fits; eauto).
  rewrite contains_bbox. cbn [px py]. replace (fst q, snd q) with q by (destruct q; reflexivity).
  destruct (fb_insideb c q) eqn:E; cbn [andb]; [reflexivity|]. apply fb_pixel_outside; auto.
Qed.

Lemma fb_fill_contiguous_spec c data a cs q :
  fb_ok c data -> stream_ok c cs -> rect_fits a ->
  fb_pixel c (fb_fill_contiguous c data a cs) q =
  if fb_insideb c q && contains a (P (fst q) (snd q))
  then match sget cs (idx_in a (P (fst q) (snd q))) with Some v => Pix (Some v) | None => fb_pixel c data q end
  else fb_pixel c data q.
Proof.
  intros Ok Hs Ha.
  pose proof (fb_step_ok c data (OpFillContiguous a cs) Ok (fill_contiguous_ok c a cs Hs)) as Ok'. cbn [fb_step] in Ok'.
  rewrite (abs_pixel c _ q Ok'), (abs_pixel c data q Ok).
  pose proof (fb_step_paint c data (OpFillContiguous a cs) (P (fst q) (snd q)) Ok (fill_contiguous_ok c a cs Hs) Ha) as H.
  cbn [fb_step op_call paint] in H. rewrite H. unfold native_fill_contiguous. rewrite contains_bbox. cbn [px py].
  replace (fst q, snd q) with q by (destruct q; reflexivity).
  rewrite andb_comm. destruct (_ && _); [|reflexivity]. destruct (sget cs _); reflexivity.
Qed.

(* bytes beyond BUFFER_SIZE: one inherited call *)
Lemma fb_step_tail c data o k :
  fb_ok c data -> fbop_ok c o -> fb_buffer_size c <= k -> byte_at (fb_step c data o) k = byte_at data k.
Proof.
  intros Ok Fo Hk. pose proof (fb_tail_untouched_history c [o] data k Ok (Forall_cons _ Fo (Forall_nil _)) Hk) as H.
  exact H.
Qed.

Lemma fill_ops_ok c a v cs :
  (raw_ok (fb_t c) v -> fbop_ok c (OpFillSolid a v) /\ fbop_ok c (OpClear v)) /\
  (stream_ok c cs -> fbop_ok c (OpFillContiguous a cs)).
Proof.
  split; [intros H; split; [apply fill_solid_ok|apply clear_ok]; auto | apply fill_contiguous_ok].
Qed.

End WithUsize.
