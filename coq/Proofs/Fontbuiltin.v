(* Facts about the built-in fonts, decided by computation over coq/Gen/FontTable.v, which
   translate/gen_fonts.py regenerates from src/mono_font/generated/*.rs, src/mono_font/mapping.rs and
   the fonts/raw files of the tree under test on every run (property C14, used by C02/C15). *)
From EG Require Import Base.Prelude Base.Lemmas Model.Geometry Proofs.Geometry Model.Fontmodel Proofs.Fontmodel
  Gen.FontTable Model.Fontbuiltin Proofs.FontGolden.
From Coq Require Import ZifyBool.
Set Default Timeout 120.

Definition mapping_chars (m : bmapping) : list Z := expand_chars (bm_raw m).

(* the characters of the mapping of a built-in font ([] if the table were inconsistent) *)
Definition builtin_chars (b : bfont) : list Z :=
  match mapping_of b with Some m => mapping_chars m | None => [] end.
Definition builtin_repl (b : bfont) : Z :=
  match mapping_of b with Some m => bm_repl m | None => 0 end.

Lemma builtin_index_eq b c : In b fonts -> mapping_of b <> None ->
  builtin_index b c = list_index (builtin_chars b) (builtin_repl b) c.
Proof.
  intros _ H. unfold builtin_index, builtin_chars, builtin_repl, mapping_chars, str_index.
  destruct (mapping_of b); [reflexivity|congruence].
Qed.

(* ---- every font row refers to a mapping of the table *)
Definition has_mapping_b (b : bfont) : bool := match mapping_of b with Some _ => true | None => false end.
Lemma all_have_mapping : forallb has_mapping_b fonts = true.
Proof. vm_compute. reflexivity. Qed.
Lemma builtin_has_mapping b : In b fonts -> mapping_of b <> None.
Proof.
  intros H. pose proof (proj1 (forallb_forall _ _) all_have_mapping b H) as E.
  unfold has_mapping_b in E. destruct (mapping_of b); congruence.
Qed.

(* ---- the translator's own expansion of each mapping string equals the model's StrGlyphMapping::chars *)
Definition expansion_agrees_b (m : bmapping) : bool := zlist_eqb (bm_chars m) (expand_chars (bm_raw m)).
Lemma all_expansions_agree : forallb expansion_agrees_b mappings = true.
Proof. vm_compute. reflexivity. Qed.

Lemma zlist_eqb_eq a : forall b, zlist_eqb a b = true -> a = b.
Proof.
  induction a as [|x a IH]; intros [|y b]; cbn [zlist_eqb]; try discriminate; auto.
  intros H. apply andb_prop in H. destruct H as [H1 H2]. apply Z.eqb_eq in H1. f_equal; auto.
Qed.

Lemma builtin_expansion_agrees m : In m mappings -> bm_chars m = expand_chars (bm_raw m).
Proof.
  intros H. apply zlist_eqb_eq. exact (proj1 (forallb_forall _ _) all_expansions_agree m H).
Qed.

(* ---- no character occurs twice in a mapping; '?' is mapped to the replacement index *)
Fixpoint nodupb (l : list Z) : bool :=
  match l with [] => true | x :: t => negb (existsb (fun y => y =? x) t) && nodupb t end.
Lemma nodupb_spec l : nodupb l = true -> NoDup l.
Proof.
  induction l as [|x t IH]; cbn [nodupb]; intros H; constructor.
  - apply andb_prop in H. destruct H as [H _]. intros Hin.
    assert (existsb (fun y => y =? x) t = true) by (apply existsb_exists; exists x; split; [assumption|apply Z.eqb_refl]).
    rewrite H0 in H. discriminate.
  - apply IH. apply andb_prop in H. tauto.
Qed.
Definition mapping_ok_b (m : bmapping) : bool :=
  nodupb (mapping_chars m) && (str_index (bm_raw m) (bm_repl m) 63 =? bm_repl m) &&
  (0 <=? bm_repl m) && (bm_repl m <? Z.of_nat (length (mapping_chars m))).
Lemma all_mappings_ok : forallb mapping_ok_b mappings = true.
Proof. vm_compute. reflexivity. Qed.

Lemma builtin_mapping_ok m : In m mappings ->
  NoDup (mapping_chars m) /\ str_index (bm_raw m) (bm_repl m) 63 = bm_repl m /\
  0 <= bm_repl m < Z.of_nat (length (mapping_chars m)).
Proof.
  intros H. pose proof (proj1 (forallb_forall _ _) all_mappings_ok m H) as E. unfold mapping_ok_b in E.
  apply andb_prop in E. destruct E as [E E4]. apply andb_prop in E. destruct E as [E E3].
  apply andb_prop in E. destruct E as [E1 E2].
  split; [apply nodupb_spec; assumption|]. split; lia.
Qed.

Lemma mapping_of_in b m : mapping_of b = Some m -> In m mappings.
Proof. unfold mapping_of. apply nth_error_In. Qed.

(* ---- cells: every index the mapping can produce designates a cell completely inside the atlas *)
Definition cells_inside_b (b : bfont) : bool :=
  let f := bf_font b in
  forallb (fun i => sub_image_visible f (glyph_area f i)) (range 0 (Z.of_nat (length (builtin_chars b))))
  && sub_image_visible f (glyph_area f (builtin_repl b)).
Lemma all_cells_inside : forallb cells_inside_b fonts = true.
Proof. vm_compute. reflexivity. Qed.

Theorem builtin_cells_inside b c :
  In b fonts -> sub_image_visible (bf_font b) (glyph_area (bf_font b) (builtin_index b c)) = true.
Proof.
  intros H. pose proof (proj1 (forallb_forall _ _) all_cells_inside b H) as E. unfold cells_inside_b in E.
  apply andb_prop in E. destruct E as [E1 E2].
  rewrite builtin_index_eq by (auto using builtin_has_mapping).
  destruct (index_range (builtin_chars b) (builtin_repl b) c) as [Hr| ->]; [|exact E2].
  rewrite forallb_forall in E1. apply E1. apply In_range. lia.
Qed.

(* ---- atlas: the raw file has exactly bytes_per_row * height bytes *)
Definition atlas_length_b (b : bfont) : bool := bf_rawlen b =? bytes_per_row (f_iw (bf_font b)) * f_ih (bf_font b).
Lemma all_atlas_lengths : forallb atlas_length_b fonts = true.
Proof. vm_compute. reflexivity. Qed.
Theorem builtin_atlas_length b :
  In b fonts -> bf_rawlen b = bytes_per_row (f_iw (bf_font b)) * f_ih (bf_font b).
Proof. intros H. apply Z.eqb_eq. exact (proj1 (forallb_forall _ _) all_atlas_lengths b H). Qed.

Definition builtin_wf_b (b : bfont) : bool := font_wfb (bf_font b) && (f_sp (bf_font b) =? 0).
Lemma all_builtin_wf : forallb builtin_wf_b fonts = true.
Proof. vm_compute. reflexivity. Qed.
Lemma builtin_font_wf_aux b : In b fonts -> font_wf (bf_font b) /\ f_sp (bf_font b) = 0.
Proof.
  intros H. pose proof (proj1 (forallb_forall _ _) all_builtin_wf b H) as E. unfold builtin_wf_b in E.
  apply andb_prop in E. destruct E as [E1 E2]. split; [apply font_wfb_spec; assumption|lia].
Qed.

(* ---- the atlas holds a whole number of cells and at least one cell per mapped character *)
Definition atlas_capacity_b (b : bfont) : bool :=
  let f := bf_font b in
  (f_iw f mod f_cw f =? 0) && (f_ih f mod f_ch f =? 0) &&
  (Z.of_nat (length (builtin_chars b)) <=? (f_iw f / f_cw f) * (f_ih f / f_ch f)).
Lemma all_atlas_capacity : forallb atlas_capacity_b fonts = true.
Proof. vm_compute. reflexivity. Qed.

(* the atlas has exactly the rows the mapping needs: height = ceil(#chars / glyphs_per_row) * cell height *)
Definition atlas_rows_b (b : bfont) : bool :=
  let f := bf_font b in
  let gpr := f_iw f / f_cw f in
  f_ih f =? ((Z.of_nat (length (builtin_chars b)) + gpr - 1) / gpr) * f_ch f.
Lemma all_atlas_rows : forallb atlas_rows_b fonts = true.
Proof. vm_compute. reflexivity. Qed.
Theorem builtin_atlas_rows b :
  In b fonts ->
  let f := bf_font b in
  let gpr := f_iw f / f_cw f in
  f_iw f = gpr * f_cw f /\ f_ih f = ((Z.of_nat (length (builtin_chars b)) + gpr - 1) / gpr) * f_ch f.
Proof.
  intros H. cbn zeta.
  pose proof (proj1 (forallb_forall _ _) all_atlas_rows b H) as E1. unfold atlas_rows_b in E1.
  pose proof (proj1 (forallb_forall _ _) all_atlas_capacity b H) as E2. unfold atlas_capacity_b in E2.
  destruct (builtin_font_wf_aux b H) as [Hw _]. red in Hw.
  split; [|lia]. apply andb_prop in E2. destruct E2 as [E2 _]. apply andb_prop in E2. destruct E2 as [E2 _].
  apply Z.eqb_eq in E2. rewrite Z.mul_comm. apply Z.div_exact; lia.
Qed.

(* ---- font records are well formed, without spacing *)
Theorem builtin_font_wf b : In b fonts -> font_wf (bf_font b) /\ f_sp (bf_font b) = 0.
Proof. exact (builtin_font_wf_aux b). Qed.

(* ---- metrics follow the generator's convention: underline 2 below the baseline, strikethrough at half
   the glyph height, both one pixel high *)
Definition deco_convention_b (b : bfont) : bool :=
  let f := bf_font b in
  (d_off (f_ul f) =? f_base f + 2) && (d_h (f_ul f) =? 1) && (d_off (f_st f) =? f_ch f / 2) && (d_h (f_st f) =? 1).
Lemma all_deco_convention : forallb deco_convention_b fonts = true.
Proof. vm_compute. reflexivity. Qed.
Theorem builtin_deco_convention b :
  In b fonts ->
  let f := bf_font b in
  f_ul f = Deco (f_base f + 2) 1 /\ f_st f = Deco (f_ch f / 2) 1.
Proof.
  intros H. cbn zeta. pose proof (proj1 (forallb_forall _ _) all_deco_convention b H) as E.
  unfold deco_convention_b in E. destruct (f_ul (bf_font b)) as [uo uh], (f_st (bf_font b)) as [so sh].
  cbn [d_off d_h] in E. split; f_equal; lia.
Qed.

(* ---- consequences for the index of a built-in font *)
Theorem builtin_index_nth b n c :
  In b fonts -> nth_error (builtin_chars b) n = Some c -> builtin_index b c = Z.of_nat n.
Proof.
  intros H Hn. rewrite builtin_index_eq by (auto using builtin_has_mapping).
  apply index_of_nth; [|assumption].
  unfold builtin_chars in *. destruct (mapping_of b) as [m|] eqn:E; [|destruct n; discriminate].
  apply builtin_mapping_ok. eapply mapping_of_in; eauto.
Qed.

Theorem builtin_index_injective b c1 c2 :
  In b fonts -> In c1 (builtin_chars b) -> In c2 (builtin_chars b) ->
  builtin_index b c1 = builtin_index b c2 -> c1 = c2.
Proof.
  intros H H1 H2. rewrite !builtin_index_eq by (auto using builtin_has_mapping).
  apply index_injective_on_mapped; assumption.
Qed.

(* an unmapped character gets the index of '?' *)
Theorem builtin_index_unmapped b c :
  In b fonts -> ~ In c (builtin_chars b) -> builtin_index b c = builtin_index b 63.
Proof.
  intros H Hn. pose proof (builtin_has_mapping b H) as Hm.
  unfold builtin_index, builtin_chars in *. destruct (mapping_of b) as [m|] eqn:E; [|congruence].
  destruct (builtin_mapping_ok m (mapping_of_in _ _ E)) as (_ & E63 & _).
  rewrite E63. apply index_spec. exact Hn.
Qed.

Theorem builtin_question_mark_mapped b : In b fonts -> In 63 (builtin_chars b).
Proof.
  intros H. pose proof (proj1 (forallb_forall _ _) all_cells_inside b H) as _.
  revert b H. apply Forall_forall.
  assert (E : forallb (fun b => existsb (fun c => c =? 63) (builtin_chars b)) fonts = true) by (vm_compute; reflexivity).
  apply Forall_forall. intros b Hb. pose proof (proj1 (forallb_forall _ _) E b Hb) as E1.
  apply existsb_exists in E1. destruct E1 as (c & Hc & Ec). apply Z.eqb_eq in Ec. subst. assumption.
Qed.

Theorem builtin_unmapped_is_question_mark b c :
  In b fonts -> ~ In c (builtin_chars b) -> builtin_index b c = builtin_index b 63 /\ In 63 (builtin_chars b).
Proof. intros H Hn. split; [apply builtin_index_unmapped; assumption|apply builtin_question_mark_mapped; assumption]. Qed.

(* ---- every index a built-in mapping returns is far inside the u32 / i32 range of MonoFont::glyph *)
Definition index_small_b (b : bfont) : bool :=
  let f := bf_font b in
  let top := Z.max (Z.of_nat (length (builtin_chars b))) (builtin_repl b + 1) in
  (0 <=? builtin_repl b) && (top <? 4294967296) && ((top + 1) * f_ch f <? 2147483648).
Lemma all_index_small : forallb index_small_b fonts = true.
Proof. vm_compute. reflexivity. Qed.

Theorem builtin_glyph_index_ok b c : In b fonts -> glyph_index_ok (bf_font b) (builtin_index b c).
Proof.
  intros H. pose proof (proj1 (forallb_forall _ _) all_index_small b H) as E. unfold index_small_b in E.
  destruct (builtin_font_wf b H) as [Hw _]. destruct Hw as (Hok & Hcw & Hch & _).
  rewrite builtin_index_eq by (auto using builtin_has_mapping).
  pose proof (index_range (builtin_chars b) (builtin_repl b) c) as Hr.
  apply glyph_index_small_ok; try lia; nia.
Qed.

(* ---- end to end: a character of a built-in font shows exactly its atlas cell *)
Lemma builtin_cell_colour b atlas s c n dx dy :
  In b fonts -> builtin_index b c = Z.of_nat n ->
  let f := bf_font b in
  let gpr := f_iw f / f_cw f in
  cell_colour (MFont f (builtin_index b) atlas) s c dx dy =
  if atlas ((Z.of_nat n mod gpr) * f_cw f + dx) ((Z.of_nat n / gpr) * f_ch f + dy) then cs_text s else cs_bg s.
Proof.
  intros Hb Hn f gpr. destruct (builtin_font_wf b Hb) as [Hw _]. fold f in Hw. destruct Hw as (Hok & Hcw & Hch & _).
  unfold cell_colour. cbn [mf_geom mf_index mf_atlas]. fold f.
  pose proof (builtin_cells_inside b c Hb) as Hv. fold f in Hv. rewrite Hv, Hn.
  rewrite glyph_area_cell by lia. cbn zeta. cbn [tl px py]. reflexivity.
Qed.

Theorem builtin_char_shows_its_cell b atlas s text pos bl i c n dx dy :
  In b fonts ->
  let f := bf_font b in
  let F := MFont f (builtin_index b) atlas in
  draw_ok f pos (length text) -> cs_ul s = DNone -> cs_st s = DNone ->
  nth_error text i = Some c -> nth_error (builtin_chars b) n = Some c ->
  0 <= dx < f_cw f -> 0 <= dy < f_ch f ->
  let gpr := f_iw f / f_cw f in
  render (fst (draw_string F s text pos bl))
    (P (px pos + Z.of_nat i * f_cw f + dx) (py pos - baseline_offset f bl + dy)) =
  if atlas ((Z.of_nat n mod gpr) * f_cw f + dx) ((Z.of_nat n / gpr) * f_ch f + dy) then cs_text s else cs_bg s.
Proof.
  intros Hb f F Hd Hu Hs Hi Hn Hdx Hdy gpr.
  destruct (builtin_font_wf b Hb) as [Hw Hsp]. fold f in Hw, Hsp. destruct Hw as (Hok & _).
  pose proof (draw_string_cell_plain F s text pos bl i c dx dy) as E. cbn zeta in E.
  change (mf_geom F) with f in E. rewrite Hsp, Z.add_0_r in E. rewrite E; try assumption.
  - apply builtin_cell_colour; [assumption|]. apply builtin_index_nth; assumption.
  - intros c' _. apply builtin_glyph_index_ok. exact Hb.
Qed.

(* a character that the mapping does not contain shows the cell of '?' *)
Theorem builtin_unmapped_shows_question_mark b atlas s text pos bl i c n dx dy :
  In b fonts ->
  let f := bf_font b in
  let F := MFont f (builtin_index b) atlas in
  draw_ok f pos (length text) -> cs_ul s = DNone -> cs_st s = DNone ->
  nth_error text i = Some c -> ~ In c (builtin_chars b) -> nth_error (builtin_chars b) n = Some 63 ->
  0 <= dx < f_cw f -> 0 <= dy < f_ch f ->
  let gpr := f_iw f / f_cw f in
  render (fst (draw_string F s text pos bl))
    (P (px pos + Z.of_nat i * f_cw f + dx) (py pos - baseline_offset f bl + dy)) =
  if atlas ((Z.of_nat n mod gpr) * f_cw f + dx) ((Z.of_nat n / gpr) * f_ch f + dy) then cs_text s else cs_bg s.
Proof.
  intros Hb f F Hd Hu Hs Hi Hnc Hn Hdx Hdy gpr.
  destruct (builtin_font_wf b Hb) as [Hw Hsp]. fold f in Hw, Hsp. destruct Hw as (Hok & _).
  pose proof (draw_string_cell_plain F s text pos bl i c dx dy) as E. cbn zeta in E.
  change (mf_geom F) with f in E. rewrite Hsp, Z.add_0_r in E. rewrite E; try assumption.
  - apply builtin_cell_colour; [assumption|].
    rewrite (builtin_index_unmapped b c Hb Hnc). apply builtin_index_nth; assumption.
  - intros c' _. apply builtin_glyph_index_ok. exact Hb.
Qed.

(* mapped characters of a built-in font occupy pairwise disjoint cells *)
Theorem builtin_cells_disjoint b c1 c2 p :
  In b fonts -> In c1 (builtin_chars b) -> In c2 (builtin_chars b) -> c1 <> c2 ->
  contains (glyph_area (bf_font b) (builtin_index b c1)) p && contains (glyph_area (bf_font b) (builtin_index b c2)) p = false.
Proof.
  intros Hb H1 H2 Hne. destruct (builtin_font_wf b Hb) as [Hw _].
  assert (R : forall c, In c (builtin_chars b) -> 0 <= builtin_index b c).
  { intros c Hc. rewrite builtin_index_eq by (auto using builtin_has_mapping).
    destruct (proj1 (list_index_spec (builtin_chars b) (builtin_repl b) c) Hc) as (n & -> & _). lia. }
  apply glyph_areas_disjoint; auto.
  intros E. apply Hne. eapply builtin_index_injective; eauto.
Qed.

(* ---- glyph bitmaps: the files of the tree under test are the committed reference (Proofs/FontGolden.v) *)
Fixpoint bitmaps_eqb (a b : list (list Z * Z)) : bool :=
  match a, b with
  | [], [] => true
  | (n1, d1) :: s, (n2, d2) :: t => zlist_eqb n1 n2 && (d1 =? d2) && bitmaps_eqb s t
  | _, _ => false
  end.
Lemma bitmaps_eqb_eq a : forall b, bitmaps_eqb a b = true -> a = b.
Proof.
  induction a as [|[n1 d1] a IH]; intros [|[n2 d2] b]; cbn [bitmaps_eqb]; try discriminate; auto.
  intros H. apply andb_prop in H. destruct H as [H H3]. apply andb_prop in H. destruct H as [H1 H2].
  apply zlist_eqb_eq in H1. apply Z.eqb_eq in H2. subst. f_equal. apply IH. exact H3.
Qed.
Theorem builtin_bitmaps_unchanged : map (fun b => (bf_name b, bf_digest b)) fonts = golden_bitmaps.
Proof. apply bitmaps_eqb_eq. vm_compute. reflexivity. Qed.
