(* Lemmas about Model/Fontmodel.v (property C14): glyph mapping, glyph cells, and the pixel map of
   MonoTextStyle::draw_string.  Proofs only, not extracted. *)
From EG Require Import Base.Prelude Base.Lemmas Model.Geometry Proofs.Geometry Model.Fontmodel.
From Coq Require Import ZifyBool.

Ltac Zify.zify_post_hook ::= Z.to_euclidean_division_equations.
Set Default Timeout 60.

(* ====================================================================== mapping *)

Lemma find_index_spec c l i :
  match find_index c l i with
  | Some k => exists n, k = i + Z.of_nat n /\ nth_error l n = Some c /\
                        (forall m, (m < n)%nat -> nth_error l m <> Some c)
  | None => ~ In c l
  end.
Proof.
  revert i; induction l as [|v t IH]; intros i; cbn [find_index].
  - intros [].
  - destruct (Z.eqb_spec c v) as [->|Hne].
    + exists O. repeat split; [lia|intros m Hm; lia].
    + specialize (IH (i + 1)). destruct (find_index c t (i + 1)) as [k|].
      * destruct IH as (n & -> & Hn & Hmin). exists (Datatypes.S n). repeat split; [lia|exact Hn|].
        intros [|m] Hm; cbn [nth_error]; [congruence|apply Hmin; lia].
      * intros [H|H]; [congruence|contradiction].
Qed.

(* index = position of the FIRST occurrence, or the replacement index *)
Lemma list_index_spec chars repl c :
  (In c chars ->
     exists n, list_index chars repl c = Z.of_nat n /\ nth_error chars n = Some c /\
               (forall m, (m < n)%nat -> nth_error chars m <> Some c)) /\
  (~ In c chars -> list_index chars repl c = repl).
Proof.
  unfold list_index. pose proof (find_index_spec c chars 0) as H.
  destruct (find_index c chars 0) as [k|]; split.
  - intros _. destruct H as (n & -> & H1 & H2). exists n. repeat split; auto.
  - intros Hn. destruct H as (n & _ & H1 & _). exfalso. apply Hn. eapply nth_error_In; eauto.
  - intros Hin. contradiction.
  - reflexivity.
Qed.

Lemma index_spec data repl c :
  (In c (expand_chars data) ->
     exists n, str_index data repl c = Z.of_nat n /\ nth_error (expand_chars data) n = Some c /\
               (forall m, (m < n)%nat -> nth_error (expand_chars data) m <> Some c)) /\
  (~ In c (expand_chars data) -> str_index data repl c = repl).
Proof. apply list_index_spec. Qed.

Lemma index_range chars repl c :
  (0 <= list_index chars repl c < Z.of_nat (length chars)) \/ list_index chars repl c = repl.
Proof.
  destruct (in_dec Z.eq_dec c chars) as [Hin|Hn].
  - left. destruct (proj1 (list_index_spec chars repl c) Hin) as (n & -> & Hn & _).
    assert (n < length chars)%nat by (apply nth_error_Some; congruence). lia.
  - right. apply list_index_spec; assumption.
Qed.

Lemma NoDup_nth_error_inj {A} (l : list A) i j x :
  NoDup l -> nth_error l i = Some x -> nth_error l j = Some x -> i = j.
Proof.
  intros Hnd Hi Hj. rewrite NoDup_nth_error in Hnd. apply Hnd.
  - apply nth_error_Some. congruence.
  - congruence.
Qed.

(* distinct mapped characters have distinct indices (no hypothesis on the list: the first
   occurrence decides) *)
Lemma index_injective_on_mapped chars repl c1 c2 :
  In c1 chars -> In c2 chars -> list_index chars repl c1 = list_index chars repl c2 -> c1 = c2.
Proof.
  intros H1 H2 E.
  destruct (proj1 (list_index_spec chars repl c1) H1) as (n1 & E1 & N1 & _).
  destruct (proj1 (list_index_spec chars repl c2) H2) as (n2 & E2 & N2 & _).
  assert (n1 = n2) by lia. subst. congruence.
Qed.

Lemma str_contains_spec data c : str_contains data c = true <-> In c (expand_chars data).
Proof.
  unfold str_contains. rewrite existsb_exists. split.
  - intros (v & Hv & E). apply Z.eqb_eq in E. subst. assumption.
  - intros H. exists c. split; [assumption|apply Z.eqb_refl].
Qed.

(* with NoDup: the n-th character of the mapping has index n *)
Lemma index_of_nth chars repl n c :
  NoDup chars -> nth_error chars n = Some c -> list_index chars repl c = Z.of_nat n.
Proof.
  intros Hnd Hn.
  destruct (proj1 (list_index_spec chars repl c) (nth_error_In _ _ Hn)) as (k & -> & Hk & _).
  f_equal. eapply NoDup_nth_error_inj; eauto.
Qed.

(* ====================================================================== pixel maps *)

Definition orelse {A} (a b : option A) : option A := match a with Some _ => a | None => b end.

Lemma last_write_app p a b acc : last_write p (a ++ b) acc = last_write p b (last_write p a acc).
Proof. revert acc; induction a as [|[q c] a IH]; intros acc; cbn [app last_write]; auto. Qed.

Lemma last_write_acc p ws acc : last_write p ws acc = orelse (last_write p ws None) acc.
Proof.
  revert acc; induction ws as [|[q c] ws IH]; intros acc; cbn [last_write]; [reflexivity|].
  rewrite IH. rewrite (IH (if point_eqb q p then Some c else None)).
  destruct (last_write p ws None); cbn [orelse]; [reflexivity|].
  destruct (point_eqb q p); reflexivity.
Qed.

Lemma writes_app a b : writes (a ++ b) = writes a ++ writes b.
Proof. unfold writes. apply flat_map_app. Qed.

Lemma render_app a b p : render (a ++ b) p = orelse (render b p) (render a p).
Proof. unfold render. rewrite writes_app, last_write_app. apply last_write_acc. Qed.

Lemma render_nil p : render [] p = None.
Proof. reflexivity. Qed.

Lemma point_eqb_eq a b : point_eqb a b = true <-> a = b.
Proof. destruct a as [x1 y1], b as [x2 y2]. unfold point_eqb. cbn [px py]. split; [intros H; f_equal; lia|intros [= -> ->]; lia]. Qed.

(* writes "colour g q at every point q of l for which g q is defined" *)
Definition pw (g : point -> option Z) (l : list point) : list (point * Z) :=
  flat_map (fun q => match g q with Some c => [(q, c)] | None => [] end) l.

Lemma last_write_pw g l p :
  last_write p (pw g l) None = if existsb (fun q => point_eqb q p) l then g p else None.
Proof.
  unfold pw. induction l as [|q l IH]; cbn [flat_map existsb]; [reflexivity|].
  rewrite last_write_app, last_write_acc, IH.
  destruct (point_eqb q p) eqn:E; cbn [orb].
  - apply point_eqb_eq in E. subst q.
    destruct (existsb (fun q => point_eqb q p) l); cbn [orelse].
    + destruct (g p) eqn:G; cbn [orelse]; [reflexivity|].
      cbn [last_write]. reflexivity.
    + destruct (g p) eqn:G; cbn [last_write]; [|reflexivity].
      rewrite (proj2 (point_eqb_eq p p) eq_refl). reflexivity.
  - destruct (existsb (fun q => point_eqb q p) l).
    + destruct (g p); cbn [orelse]; [reflexivity|].
      destruct (g q); cbn [last_write]; [rewrite E|]; reflexivity.
    + cbn [orelse]. destruct (g q); cbn [last_write]; [rewrite E|]; reflexivity.
Qed.

Lemma existsb_points r p :
  rect_ok r -> existsb (fun q => point_eqb q p) (points r) = contains r p.
Proof.
  intros H. apply eq_true_iff_eq. rewrite existsb_exists, <- points_spec by assumption. split.
  - intros (q & Hq & E). apply point_eqb_eq in E. subst. assumption.
  - intros Hp. exists p. split; [assumption|apply point_eqb_eq; reflexivity].
Qed.

Lemma last_write_pw_rect g r p :
  rect_ok r -> last_write p (pw g (points r)) None = if contains r p then g p else None.
Proof. intros H. rewrite last_write_pw, existsb_points by assumption. reflexivity. Qed.

(* ---- FillSolid *)
Lemma fill_solid_pw r c : call_writes (FillSolid r c) = pw (fun _ => Some c) (points r).
Proof.
  cbn [call_writes]. unfold pw. induction (points r) as [|q l IH]; cbn [map flat_map app]; congruence.
Qed.

Lemma writes_single c : writes [c] = call_writes c.
Proof. unfold writes. cbn [flat_map]. apply app_nil_r. Qed.

Lemma render_fill_solid r c p :
  rect_ok r -> render [FillSolid r c] p = if contains r p then Some c else None.
Proof.
  intros H. unfold render. rewrite writes_single, fill_solid_pw. apply last_write_pw_rect; assumption.
Qed.

(* ---- zip of a rectangle's points with the bits of an atlas area of the same size *)
Lemma zip_app {A B} (l1 l2 : list A) (m1 m2 : list B) :
  length l1 = length m1 -> zip (l1 ++ l2) (m1 ++ m2) = zip l1 m1 ++ zip l2 m2.
Proof.
  revert m1; induction l1 as [|a l1 IH]; intros [|b m1]; cbn [length app zip]; try discriminate; auto.
  intros [= H]. f_equal. apply IH; assumption.
Qed.

Lemma zip_map_range_from {A B} (f : Z -> A) (g : Z -> B) a b n :
  zip (map f (range_from a n)) (map g (range_from b n)) =
  map (fun x => (f x, g (x - a + b))) (range_from a n).
Proof.
  revert a b; induction n as [|n IH]; intros a b; cbn [range_from map zip]; [reflexivity|].
  f_equal; [f_equal; f_equal; lia|]. rewrite IH. apply map_ext_in. intros x _. f_equal. f_equal. lia.
Qed.

Lemma zip_rows (atlas : Z -> Z -> bool) x0 ax y0 ay nw nh :
  zip (flat_map (fun y => map (fun x => P x y) (range_from x0 nw)) (range_from y0 nh))
      (flat_map (fun y => map (fun x => atlas x y) (range_from ax nw)) (range_from ay nh)) =
  map (fun q => (q, atlas (px q - x0 + ax) (py q - y0 + ay)))
      (flat_map (fun y => map (fun x => P x y) (range_from x0 nw)) (range_from y0 nh)).
Proof.
  revert y0 ay; induction nh as [|nh IH]; intros y0 ay; cbn [range_from flat_map]; [reflexivity|].
  rewrite zip_app by (rewrite !map_length, !length_range_from; reflexivity).
  rewrite map_app. f_equal.
  - rewrite zip_map_range_from, map_map. apply map_ext. intros x. cbn [px py]. f_equal. f_equal. lia.
  - rewrite IH. apply map_ext_in. intros q _. f_equal. f_equal. lia.
Qed.

Lemma zip_points_area_bits (atlas : Z -> Z -> bool) pos a w h :
  rect_ok (R pos (S w h)) ->
  zip (points (R pos (S w h))) (area_bits atlas (R a (S w h))) =
  map (fun q => (q, atlas (px q - px pos + px a) (py q - py pos + py a))) (points (R pos (S w h))).
Proof.
  intros H. rewrite points_row_major by assumption.
  destruct (is_zero_sized (R pos (S w h))); [reflexivity|].
  unfold area_bits, row_major, range. cbn [tl sz px py sw sh].
  replace (px pos + w - px pos) with w by lia. replace (py pos + h - py pos) with h by lia.
  replace (px a + w - px a) with w by lia. replace (py a + h - py a) with h by lia.
  apply zip_rows.
Qed.

Lemma zip_map_r {A B C} (f : B -> C) (l : list A) (m : list B) :
  zip l (map f m) = map (fun ab => (fst ab, f (snd ab))) (zip l m).
Proof.
  revert m; induction l as [|a l IH]; intros [|b m]; cbn [zip map fst snd]; auto. f_equal. apply IH.
Qed.

(* colour that MonoFontDrawTarget gives a glyph bit *)
Definition mode_colour (m : mode) (bit : bool) : option Z :=
  match m with
  | Fg t => if bit then Some t else None
  | Bg b => if bit then None else Some b
  | Both t b => Some (if bit then t else b)
  end.

Lemma mft_fill_contiguous_writes m (bitf : point -> bool) r l :
  writes (mft_fill_contiguous m r (map bitf l)) = writes (mft_fill_contiguous m r (map bitf l)).
Proof. reflexivity. Qed.

Lemma fg_pw (bitf : point -> bool) t l :
  map (fun pb : point * bool => (fst pb, t)) (filter (fun pb : point * bool => snd pb) (map (fun q => (q, bitf q)) l)) =
  pw (fun q => if bitf q then Some t else None) l.
Proof.
  unfold pw. induction l as [|q l IH]; cbn [map filter flat_map snd]; [reflexivity|].
  destruct (bitf q); cbn [map fst app]; congruence.
Qed.

Lemma bg_pw (bitf : point -> bool) b l :
  map (fun pb : point * bool => (fst pb, b)) (filter (fun pb : point * bool => negb (snd pb)) (map (fun q => (q, bitf q)) l)) =
  pw (fun q => if bitf q then None else Some b) l.
Proof.
  unfold pw. induction l as [|q l IH]; cbn [map filter flat_map snd]; [reflexivity|].
  destruct (bitf q); cbn [negb map fst app]; congruence.
Qed.

Lemma both_pw (bitf : point -> bool) (t b : Z) l :
  map (fun ab : point * bool => (fst ab, if snd ab then t else b)) (map (fun q => (q, bitf q)) l) =
  pw (fun q => Some (if bitf q then t else b)) l.
Proof.
  unfold pw. induction l as [|q l IH]; cbn [map flat_map fst snd app]; congruence.
Qed.

(* the writes of one glyph: Image::new(&glyph, pos).draw on a MonoFontDrawTarget *)
Lemma glyph_writes m atlas pos a w h :
  rect_ok (R pos (S w h)) ->
  writes (mft_fill_contiguous m (R pos (S w h)) (area_bits atlas (R a (S w h)))) =
  pw (fun q => mode_colour m (atlas (px q - px pos + px a) (py q - py pos + py a))) (points (R pos (S w h))).
Proof.
  intros H. destruct m as [t|b|t b]; cbn [mft_fill_contiguous]; rewrite writes_single; cbn [call_writes mode_colour].
  - rewrite zip_points_area_bits by assumption. apply fg_pw.
  - rewrite zip_points_area_bits by assumption. apply bg_pw.
  - rewrite zip_map_r, zip_points_area_bits by assumption.
    apply (both_pw (fun q => atlas (px q - px pos + px a) (py q - py pos + py a))).
Qed.

Lemma render_glyph m atlas pos a w h p :
  rect_ok (R pos (S w h)) ->
  render (mft_fill_contiguous m (R pos (S w h)) (area_bits atlas (R a (S w h)))) p =
  if contains (R pos (S w h)) p
  then mode_colour m (atlas (px p - px pos + px a) (py p - py pos + py a)) else None.
Proof.
  intros H. unfold render. rewrite glyph_writes by assumption. apply last_write_pw_rect; assumption.
Qed.

Lemma render_mft_fill_solid m r p :
  rect_ok r -> render (mft_fill_solid m r false) p = if contains r p then mode_colour m false else None.
Proof.
  intros H. destruct m as [t|b|t b]; cbn [mft_fill_solid mode_colour].
  - rewrite render_nil. destruct (contains r p); reflexivity.
  - apply render_fill_solid; assumption.
  - apply render_fill_solid; assumption.
Qed.

(* ====================================================================== ranges *)
(* half = 2^28: positions within +-2^28 and line extents within 2^28 keep every rectangle that is
   handed to the target inside rect_ok (+-2^29), where Rectangle::points does not saturate. *)
Definition half : Z := 268435456.

Definition font_ok (f : font) : Prop :=
  0 <= f_iw f /\ 0 <= f_ih f /\ 0 <= f_cw f /\ 0 <= f_sp f /\ 0 <= f_ch f <= half /\ 0 <= f_base f <= half /\
  0 <= d_off (f_ul f) <= half /\ 0 <= d_h (f_ul f) <= half /\
  0 <= d_off (f_st f) <= half /\ 0 <= d_h (f_st f) <= half.

(* The glyph index: MonoFont::glyph (mod.rs:109-114) converts `index(c)` with `as u32` and computes
   row * character_size.height in u32, then casts to i32.  The model's glyph_area is unbounded; the two agree
   when the index fits u32 and the cell's bottom edge stays below 2^31 (nothing is asked when glyph() takes
   its early exit and never calls index()). *)
Definition glyph_index_ok (f : font) (gi : Z) : Prop :=
  f_cw f = 0 \/ f_iw f < f_cw f \/
  (0 <= gi < 4294967296 /\ (gi / (f_iw f / f_cw f) + 1) * f_ch f < 2147483648).
Definition index_ok (F : mfont) (text : list Z) : Prop :=
  forall c, In c text -> glyph_index_ok (mf_geom F) (mf_index F c).

Lemma index_ok_app F l1 l2 : index_ok F (l1 ++ l2) <-> index_ok F l1 /\ index_ok F l2.
Proof.
  unfold index_ok. split.
  - intros H. split; intros c Hc; apply H, in_or_app; [left|right]; exact Hc.
  - intros [H1 H2] c Hc. apply in_app_or in Hc. destruct Hc; [apply H1|apply H2]; assumption.
Qed.

Lemma index_ok_incl F l1 l2 : incl l1 l2 -> index_ok F l2 -> index_ok F l1.
Proof. unfold index_ok. intros Hi H c Hc. apply H, Hi, Hc. Qed.

(* a small index is always fine: (gi + 1) * ch < 2^31 *)
Lemma glyph_index_small_ok f gi :
  0 <= f_cw f -> 0 <= gi < 4294967296 -> 0 <= f_ch f -> (gi + 1) * f_ch f < 2147483648 -> glyph_index_ok f gi.
Proof.
  intros Hcw H0 Hch H. unfold glyph_index_ok.
  destruct (Z.eq_dec (f_cw f) 0) as [E|E]; [left; exact E|].
  destruct (Z_lt_dec (f_iw f) (f_cw f)) as [L|L]; [right; left; exact L|].
  right. right. split; [lia|].
  assert (0 < f_iw f / f_cw f) by (apply Z.div_str_pos; lia).
  assert (gi / (f_iw f / f_cw f) <= gi) by (apply Z.div_le_upper_bound; nia). nia.
Qed.

(* a line of n characters starting at pos *)
Definition line_ok (f : font) (pos : point) (n : nat) : Prop :=
  - half <= px pos /\ px pos + Z.of_nat n * (f_cw f + f_sp f) <= half /\ - bound <= py pos <= half.

Lemma line_ok_tail f pos n :
  font_ok f -> line_ok f pos (Datatypes.S n) -> line_ok f (P (px pos + f_cw f + f_sp f) (py pos)) n.
Proof.
  unfold font_ok, line_ok, half, bound. cbn [px py]. intros Hf H.
  rewrite Nat2Z.inj_succ in H. nia.
Qed.

Lemma line_ok_cell f pos n :
  font_ok f -> line_ok f pos (Datatypes.S n) -> rect_ok (R pos (S (f_cw f) (f_ch f))).
Proof.
  unfold font_ok, line_ok, half, rect_ok, point_ok, size_ok, bound. cbn [tl sz px py sw sh]. intros Hf H.
  rewrite Nat2Z.inj_succ in H. nia.
Qed.

Lemma line_ok_spacing f pos n :
  font_ok f -> line_ok f pos (Datatypes.S (Datatypes.S n)) ->
  rect_ok (R (P (px pos + f_cw f) (py pos)) (S (f_sp f) (f_ch f))).
Proof.
  unfold font_ok, line_ok, half, rect_ok, point_ok, size_ok, bound. cbn [tl sz px py sw sh]. intros Hf H.
  rewrite !Nat2Z.inj_succ in H. nia.
Qed.

(* ====================================================================== one element *)

(* what MonoFontDrawTarget + style give: on -> text colour, off -> background colour *)
Definition mode_matches (s : cstyle) (m : mode) : Prop :=
  mode_colour m true = cs_text s /\ mode_colour m false = cs_bg s.

(* colour of pixel (dx, dy) of the cell that shows character c *)
Definition cell_colour (F : mfont) (s : cstyle) (c : Z) (dx dy : Z) : option Z :=
  let f := mf_geom F in
  let a := glyph_area f (mf_index F c) in
  if sub_image_visible f a
  then (if mf_atlas F (px (tl a) + dx) (py (tl a) + dy) then cs_text s else cs_bg s)
  else None.

Lemma mode_colour_matches s m bit :
  mode_matches s m -> mode_colour m bit = if bit then cs_text s else cs_bg s.
Proof. intros [H1 H2]. destruct bit; assumption. Qed.

Lemma glyph_area_cases f gi :
  glyph_area f gi = rect_zero \/ sz (glyph_area f gi) = S (f_cw f) (f_ch f).
Proof. unfold glyph_area. destruct ((f_cw f =? 0) || (f_iw f <? f_cw f)); [left|right]; reflexivity. Qed.

Lemma render_char F s m pos c p :
  mode_matches s m -> rect_ok (R pos (S (f_cw (mf_geom F)) (f_ch (mf_geom F)))) ->
  render (draw_elem F s m (pos, EChar c)) p =
  if contains (R pos (S (f_cw (mf_geom F)) (f_ch (mf_geom F)))) p
  then cell_colour F s c (px p - px pos) (py p - py pos) else None.
Proof.
  intros Hm Hr. unfold draw_elem, cell_colour. cbn [fst snd].
  set (f := mf_geom F) in *. set (a := glyph_area f (mf_index F c)).
  destruct (glyph_area_cases f (mf_index F c)) as [E|E]; fold a in E.
  - rewrite E. cbn. destruct (contains _ p); reflexivity.
  - destruct (sub_image_visible f a).
    + destruct a as [[ax ay] sa]. cbn [sz tl px py] in *. subst sa.
      rewrite render_glyph by assumption. cbn [px py].
      destruct (contains _ p); [|reflexivity].
      rewrite (mode_colour_matches s m) by assumption.
      replace (px p - px pos + ax) with (ax + (px p - px pos)) by lia.
      replace (py p - py pos + ay) with (ay + (py p - py pos)) by lia. reflexivity.
    + rewrite render_nil. destruct (contains _ p); reflexivity.
Qed.

Lemma contains_zero_width pos h p : contains (R pos (S 0 h)) p = false.
Proof.
  destruct (contains (R pos (S 0 h)) p) eqn:E; [|reflexivity].
  apply contains_spec in E. cbn [tl sz px py sw sh] in E. lia.
Qed.

Lemma render_spacing F s m pos p :
  mode_matches s m -> 0 <= f_sp (mf_geom F) ->
  (0 < f_sp (mf_geom F) -> rect_ok (R pos (S (f_sp (mf_geom F)) (f_ch (mf_geom F))))) ->
  render (draw_elem F s m (pos, ESpacing)) p =
  if contains (R pos (S (f_sp (mf_geom F)) (f_ch (mf_geom F)))) p then cs_bg s else None.
Proof.
  intros Hm H0 Hr. unfold draw_elem. cbn [fst snd]. set (f := mf_geom F) in *.
  destruct (Z.ltb_spec 0 (f_sp f)) as [Hs|Hs].
  - destruct (cs_bg s) as [g|] eqn:Eg; cbn [is_none].
    + rewrite render_mft_fill_solid by auto. rewrite (proj2 Hm), Eg. reflexivity.
    + rewrite render_nil. destruct (contains _ p); reflexivity.
  - replace (f_sp f) with 0 by lia. rewrite contains_zero_width, render_nil. reflexivity.
Qed.

(* ====================================================================== one line (draw_string_binary) *)

Fixpoint line_pixel (F : mfont) (s : cstyle) (pos : point) (text : list Z) (p : point) : option Z :=
  match text with
  | [] => None
  | c :: rest =>
      let f := mf_geom F in
      if contains (R pos (S (f_cw f) (f_ch f))) p
      then cell_colour F s c (px p - px pos) (py p - py pos)
      else match rest with
           | [] => None
           | _ :: _ =>
               if contains (R (P (px pos + f_cw f) (py pos)) (S (f_sp f) (f_ch f))) p then cs_bg s
               else line_pixel F s (P (px pos + f_cw f + f_sp f) (py pos)) rest p
           end
  end.

Lemma line_pixel_left F s pos text p :
  0 <= f_cw (mf_geom F) -> 0 <= f_sp (mf_geom F) -> px p < px pos -> line_pixel F s pos text p = None.
Proof.
  intros Hcw Hsp. revert pos. induction text as [|c rest IH]; intros pos Hp; cbn [line_pixel]; [reflexivity|].
  destruct (contains (R pos _) p) eqn:E1.
  { apply contains_spec in E1. cbn [tl sz px py sw sh] in E1. lia. }
  destruct rest as [|c2 rest2]; [reflexivity|].
  destruct (contains (R (P _ _) _) p) eqn:E2.
  { apply contains_spec in E2. cbn [tl sz px py sw sh] in E2. lia. }
  apply IH. cbn [px]. lia.
Qed.

Lemma line_elements_cons f pos c c2 rest :
  line_elements f pos (c :: c2 :: rest) =
  ((pos, EChar c) :: (P (px pos + f_cw f) (py pos), ESpacing)
     :: fst (line_elements f (P (px pos + f_cw f + f_sp f) (py pos)) (c2 :: rest)),
   snd (line_elements f (P (px pos + f_cw f + f_sp f) (py pos)) (c2 :: rest))).
Proof. reflexivity. Qed.

Lemma line_pixel_cons2 F s pos c c2 rest p :
  line_pixel F s pos (c :: c2 :: rest) p =
  if contains (R pos (S (f_cw (mf_geom F)) (f_ch (mf_geom F)))) p
  then cell_colour F s c (px p - px pos) (py p - py pos)
  else if contains (R (P (px pos + f_cw (mf_geom F)) (py pos)) (S (f_sp (mf_geom F)) (f_ch (mf_geom F)))) p
       then cs_bg s
       else line_pixel F s (P (px pos + f_cw (mf_geom F) + f_sp (mf_geom F)) (py pos)) (c2 :: rest) p.
Proof. reflexivity. Qed.

Lemma render_binary F s m pos text p :
  mode_matches s m -> font_ok (mf_geom F) -> line_ok (mf_geom F) pos (length text) ->
  render (fst (draw_string_binary F s m pos text)) p = line_pixel F s pos text p.
Proof.
  intros Hm Hf. revert pos. induction text as [|c rest IH]; intros pos Hl; [reflexivity|].
  unfold draw_string_binary in *. cbn [fst] in *.
  assert (Hcw : 0 <= f_cw (mf_geom F)) by (red in Hf; tauto).
  assert (Hsp : 0 <= f_sp (mf_geom F)) by (red in Hf; tauto).
  destruct rest as [|c2 rest2].
  - cbn [line_elements fst flat_map line_pixel]. rewrite app_nil_r.
    rewrite render_char by (auto; eapply line_ok_cell; eauto). reflexivity.
  - rewrite line_elements_cons. cbn [fst flat_map].
    rewrite !render_app. fold (flat_map (draw_elem F s m)).
    rewrite IH by (apply line_ok_tail; assumption).
    rewrite render_char by (auto; eapply line_ok_cell; eauto).
    assert (Hrs : rect_ok (R (P (px pos + f_cw (mf_geom F)) (py pos)) (S (f_sp (mf_geom F)) (f_ch (mf_geom F)))))
      by (apply (line_ok_spacing _ _ (length rest2)); assumption).
    rewrite (render_spacing F s m _ p Hm Hsp (fun _ => Hrs)).
    rewrite line_pixel_cons2.
    set (LP := line_pixel F s _ (c2 :: rest2) p).
    assert (HL : px p < px pos + f_cw (mf_geom F) + f_sp (mf_geom F) -> LP = None)
      by (intros; apply line_pixel_left; cbn [px]; lia).
    destruct (contains (R pos _) p) eqn:E1.
    + apply contains_spec in E1. cbn [tl sz px py sw sh] in E1.
      rewrite HL by lia. cbn [orelse].
      destruct (contains (R (P _ _) _) p) eqn:E2.
      { apply contains_spec in E2. cbn [tl sz px py sw sh] in E2. lia. }
      reflexivity.
    + destruct (contains (R (P _ _) _) p) eqn:E2.
      * apply contains_spec in E2. cbn [tl sz px py sw sh] in E2.
        rewrite HL by lia. cbn [orelse]. destruct (cs_bg s); reflexivity.
      * cbn [orelse]. destruct LP; reflexivity.
Qed.

(* ---- closed forms of line_pixel *)
Lemma line_pixel_cell F s text : forall pos i c dx dy,
  0 <= f_cw (mf_geom F) -> 0 <= f_sp (mf_geom F) ->
  nth_error text i = Some c -> 0 <= dx < f_cw (mf_geom F) -> 0 <= dy < f_ch (mf_geom F) ->
  line_pixel F s pos text (P (px pos + Z.of_nat i * (f_cw (mf_geom F) + f_sp (mf_geom F)) + dx) (py pos + dy)) =
  cell_colour F s c dx dy.
Proof.
  induction text as [|c0 rest IH]; intros pos i c dx dy Hcw Hsp Hn Hdx Hdy; [destruct i; discriminate|].
  cbn [line_pixel]. destruct i as [|i].
  - injection Hn as ->. cbn [Z.of_nat]. rewrite Z.mul_0_l, Z.add_0_r.
    rewrite (proj2 (contains_spec _ _)) by (cbn [tl sz px py sw sh]; lia).
    cbn [px py]. f_equal; lia.
  - cbn [nth_error] in Hn.
    destruct (contains (R pos _) _) eqn:E1.
    { apply contains_spec in E1. cbn [tl sz px py sw sh] in E1. rewrite Nat2Z.inj_succ in E1. nia. }
    destruct rest as [|c2 rest2]; [destruct i; discriminate|].
    destruct (contains (R (P _ _) _) _) eqn:E2.
    { apply contains_spec in E2. cbn [tl sz px py sw sh] in E2. rewrite Nat2Z.inj_succ in E2. nia. }
    rewrite <- (IH (P (px pos + f_cw (mf_geom F) + f_sp (mf_geom F)) (py pos)) i c dx dy) by assumption.
    f_equal. cbn [px py]. f_equal. rewrite Nat2Z.inj_succ. lia.
Qed.

Lemma line_pixel_spacing F s text : forall pos i dx dy,
  0 <= f_cw (mf_geom F) -> 0 <= f_sp (mf_geom F) ->
  (Datatypes.S i < length text)%nat -> 0 <= dx < f_sp (mf_geom F) -> 0 <= dy < f_ch (mf_geom F) ->
  line_pixel F s pos text
    (P (px pos + Z.of_nat i * (f_cw (mf_geom F) + f_sp (mf_geom F)) + f_cw (mf_geom F) + dx) (py pos + dy)) = cs_bg s.
Proof.
  induction text as [|c0 rest IH]; intros pos i dx dy Hcw Hsp Hn Hdx Hdy; [cbn [length] in Hn; lia|].
  cbn [line_pixel]. cbn [length] in Hn.
  destruct (contains (R pos _) _) eqn:E1.
  { apply contains_spec in E1. cbn [tl sz px py sw sh] in E1. nia. }
  destruct rest as [|c2 rest2]; [cbn [length] in Hn; lia|].
  destruct i as [|i].
  - cbn [Z.of_nat]. rewrite Z.mul_0_l, Z.add_0_r.
    rewrite (proj2 (contains_spec _ _)) by (cbn [tl sz px py sw sh]; lia). reflexivity.
  - destruct (contains (R (P _ _) _) _) eqn:E2.
    { apply contains_spec in E2. cbn [tl sz px py sw sh] in E2. rewrite Nat2Z.inj_succ in E2. nia. }
    rewrite <- (IH (P (px pos + f_cw (mf_geom F) + f_sp (mf_geom F)) (py pos)) i dx dy); auto; [|lia].
    f_equal. cbn [px py]. f_equal. rewrite Nat2Z.inj_succ. lia.
Qed.

(* width of a line of n characters: n cells and n-1 spacings (mono_text_style.rs: measure_string) *)
Definition line_width (f : font) (n : nat) : Z :=
  match n with O => 0 | Datatypes.S k => Z.of_nat n * f_cw f + Z.of_nat k * f_sp f end.

Lemma line_pixel_outside F s text : forall pos p,
  0 <= f_cw (mf_geom F) -> 0 <= f_sp (mf_geom F) ->
  contains (R pos (S (line_width (mf_geom F) (length text)) (f_ch (mf_geom F)))) p = false ->
  line_pixel F s pos text p = None.
Proof.
  induction text as [|c0 rest IH]; intros pos p Hcw Hsp H; [reflexivity|].
  cbn [line_pixel].
  assert (Hc : ~ (px pos <= px p < px pos + line_width (mf_geom F) (length (c0 :: rest)) /\
                  py pos <= py p < py pos + f_ch (mf_geom F))).
  { intros Hc. rewrite (proj2 (contains_spec _ _)) in H by (cbn [tl sz px py sw sh]; exact Hc). discriminate. }
  clear H. cbn [length] in Hc. unfold line_width in Hc.
  destruct (contains (R pos _) p) eqn:E1.
  { apply contains_spec in E1. cbn [tl sz px py sw sh] in E1. exfalso. apply Hc.
    rewrite Nat2Z.inj_succ. nia. }
  destruct rest as [|c2 rest2]; [reflexivity|].
  destruct (contains (R (P _ _) _) p) eqn:E2.
  { apply contains_spec in E2. cbn [tl sz px py sw sh] in E2. exfalso. apply Hc.
    cbn [length]. rewrite !Nat2Z.inj_succ. nia. }
  apply IH; auto.
  match goal with |- ?b = false => destruct b eqn:E3; [|reflexivity] end.
  apply contains_spec in E3. cbn [tl sz px py sw sh length] in E3. unfold line_width in E3.
  exfalso. apply Hc. cbn [length]. rewrite !Nat2Z.inj_succ in *. nia.
Qed.

Lemma line_elements_snd f text : forall pos,
  snd (line_elements f pos text) = P (px pos + line_width f (length text)) (py pos).
Proof.
  induction text as [|c rest IH]; intros pos.
  - cbn. destruct pos; cbn. f_equal; lia.
  - destruct rest as [|c2 rest2].
    + cbn [line_elements snd length line_width Z.of_nat]. cbn [px py]. f_equal. lia.
    + rewrite line_elements_cons. cbn [snd]. rewrite IH. cbn [px py length]. f_equal.
      unfold line_width. rewrite !Nat2Z.inj_succ. lia.
Qed.

(* ====================================================================== draw_string *)

Lemma line_pixel_transparent F s text : forall pos p,
  cs_text s = None -> cs_bg s = None -> line_pixel F s pos text p = None.
Proof.
  induction text as [|c rest IH]; intros pos p Ht Hb; [reflexivity|]. cbn [line_pixel].
  unfold cell_colour. rewrite Ht, Hb.
  destruct (contains (R pos _) p).
  { destruct (sub_image_visible _ _); [destruct (mf_atlas _ _ _)|]; reflexivity. }
  destruct rest; [reflexivity|]. destruct (contains _ p); [reflexivity|]. apply IH; assumption.
Qed.

Lemma baseline_offset_range f b : font_ok f -> 0 <= baseline_offset f b <= half.
Proof.
  unfold font_ok, half. intros H. destruct b; unfold baseline_offset, sat_u32_to_i32, sat_sub_u32, i32_max; lia.
Qed.

(* documented offsets: Top 0, Bottom ch-1, Middle (ch-1)/2, Alphabetic = the font's baseline *)
Lemma baseline_offset_spec f b :
  font_ok f ->
  baseline_offset f b =
  match b with
  | BTop => 0
  | BBottom => Z.max 0 (f_ch f - 1)
  | BMiddle => Z.max 0 (f_ch f - 1) / 2
  | BAlphabetic => f_base f
  end.
Proof.
  unfold font_ok, half. intros H. destruct b; unfold baseline_offset, sat_u32_to_i32, sat_sub_u32, i32_max; lia.
Qed.

(* x advance of draw_string: n cells and n-1 spacings; without text and background colour the code
   takes the shortcut n * (cw + sp) (mono_text_style.rs:223-228) *)
Definition advance (f : font) (s : cstyle) (n : nat) : Z :=
  if is_none (cs_text s) && is_none (cs_bg s) then (f_cw f + f_sp f) * Z.of_nat n else line_width f n.

Definition draw_ok (f : font) (pos : point) (n : nat) : Prop :=
  - half <= px pos /\ px pos + Z.of_nat n * (f_cw f + f_sp f) <= half /\ - half <= py pos <= half.

Lemma line_width_range f n :
  0 <= f_cw f -> 0 <= f_sp f -> 0 <= line_width f n <= Z.of_nat n * (f_cw f + f_sp f).
Proof. intros. destruct n; unfold line_width; [lia|]. rewrite !Nat2Z.inj_succ. nia. Qed.

Lemma advance_range f s n :
  0 <= f_cw f -> 0 <= f_sp f -> 0 <= advance f s n <= Z.of_nat n * (f_cw f + f_sp f).
Proof.
  intros. unfold advance. destruct (_ && _); [nia|apply line_width_range; assumption].
Qed.

Lemma draw_string_next F s text pos b :
  snd (draw_string F s text pos b) = P (px pos + advance (mf_geom F) s (length text)) (py pos).
Proof.
  unfold draw_string, advance. cbn [snd].
  destruct (cs_text s) as [t|], (cs_bg s) as [g|]; cbn [is_none andb snd px py];
    unfold draw_string_binary; cbn [snd]; rewrite ?line_elements_snd; cbn [px py]; f_equal; lia.
Qed.

Definition deco_part (d : deco) (col : option Z) (o : point) (w : Z) (p : point) : option Z :=
  match col with
  | Some c => if contains (deco_box d o w) p then Some c else None
  | None => None
  end.

(* decorations: the underline is drawn after (over) the strikethrough; nothing when the advance is 0 *)
Definition deco_pixel (f : font) (s : cstyle) (o : point) (w : Z) (p : point) : option Z :=
  if 0 <? w
  then orelse (deco_part (f_ul f) (effective_color (cs_ul s) (cs_text s)) o w p)
              (deco_part (f_st f) (effective_color (cs_st s) (cs_text s)) o w p)
  else None.

Lemma render_deco_part d col o w p :
  rect_ok (deco_box d o w) ->
  render (match col with Some c => [FillSolid (deco_box d o w) c] | None => [] end) p = deco_part d col o w p.
Proof. intros H. unfold deco_part. destruct col; [apply render_fill_solid; assumption|reflexivity]. Qed.

Lemma render_decorations f s w o p :
  rect_ok (deco_box (f_ul f) o w) -> rect_ok (deco_box (f_st f) o w) ->
  render (draw_decorations f s w o) p =
  orelse (deco_part (f_ul f) (effective_color (cs_ul s) (cs_text s)) o w p)
         (deco_part (f_st f) (effective_color (cs_st s) (cs_text s)) o w p).
Proof.
  intros H1 H2. unfold draw_decorations. rewrite render_app, !render_deco_part by assumption. reflexivity.
Qed.

Definition origin (f : font) (pos : point) (b : vbase) : point := P (px pos) (py pos - baseline_offset f b).

Lemma style_mode_cases s :
  (exists m, mode_matches s m /\
     (forall F pos text b, draw_string F s text pos b =
        let o := origin (mf_geom F) pos b in
        let r := draw_string_binary F s m o text in
        (fst r ++ (if px o <? px (snd r) then draw_decorations (mf_geom F) s (px (snd r) - px o) o else []),
         P (px (snd r)) (py (snd r) + baseline_offset (mf_geom F) b)))) \/
  (cs_text s = None /\ cs_bg s = None).
Proof.
  destruct (cs_text s) as [t|] eqn:Et, (cs_bg s) as [g|] eqn:Eg.
  - left. exists (Both t g). split; [split; cbn; congruence|]. intros. unfold draw_string. rewrite Et, Eg. reflexivity.
  - left. exists (Fg t). split; [split; cbn; congruence|]. intros. unfold draw_string. rewrite Et, Eg. reflexivity.
  - left. exists (Bg g). split; [split; cbn; congruence|]. intros. unfold draw_string. rewrite Et, Eg. reflexivity.
  - right. auto.
Qed.

Lemma deco_box_ok d o w :
  0 <= d_off d <= half -> 0 <= d_h d <= half -> 0 <= w <= bound ->
  - half <= px o <= half -> - bound <= py o <= half -> rect_ok (deco_box d o w).
Proof.
  unfold deco_box, rect_ok, point_ok, size_ok, half, bound. cbn [tl sz px py sw sh]. lia.
Qed.

(* the pixel map of MonoTextStyle::draw_string *)
Theorem render_draw_string F s text pos b p :
  font_ok (mf_geom F) -> draw_ok (mf_geom F) pos (length text) -> index_ok F text ->
  render (fst (draw_string F s text pos b)) p =
  let o := origin (mf_geom F) pos b in
  orelse (deco_pixel (mf_geom F) s o (advance (mf_geom F) s (length text)) p) (line_pixel F s o text p).
Proof.
  intros Hf Hd _. set (f := mf_geom F) in *. cbn zeta.
  pose proof (baseline_offset_range f b Hf) as Hbo.
  assert (Hcw : 0 <= f_cw f) by (red in Hf; tauto).
  assert (Hsp : 0 <= f_sp f) by (red in Hf; tauto).
  pose proof (advance_range f s (length text) Hcw Hsp) as Ha.
  assert (Hlo : line_ok f (origin f pos b) (length text)).
  { unfold draw_ok, line_ok, origin, half, bound in *. cbn [px py]. lia. }
  assert (Hdo : forall d, 0 <= d_off d <= half -> 0 <= d_h d <= half ->
                rect_ok (deco_box d (origin f pos b) (advance f s (length text)))).
  { intros d H1 H2. apply deco_box_ok; auto; unfold draw_ok, line_ok, origin, half, bound in *; cbn [px py]; lia. }
  assert (Hul : rect_ok (deco_box (f_ul f) (origin f pos b) (advance f s (length text))))
    by (apply Hdo; red in Hf; tauto).
  assert (Hst : rect_ok (deco_box (f_st f) (origin f pos b) (advance f s (length text))))
    by (apply Hdo; red in Hf; tauto).
  destruct (style_mode_cases s) as [(m & Hm & E)|[Et Eb]].
  - rewrite E. cbn zeta. cbn [fst]. fold f. rewrite render_app.
    rewrite render_binary by assumption.
    unfold draw_string_binary. cbn [snd]. rewrite line_elements_snd. cbn [px]. fold f.
    assert (Ea : advance f s (length text) = line_width f (length text)).
    { unfold advance. destruct Hm as [H1 H2]. destruct m; cbn in H1, H2; rewrite <- ?H1, <- ?H2; reflexivity. }
    rewrite <- Ea.
    replace (px (origin f pos b) + advance f s (length text) - px (origin f pos b))
      with (advance f s (length text)) by lia.
    unfold deco_pixel.
    replace (px (origin f pos b) <? px (origin f pos b) + advance f s (length text))
      with (0 <? advance f s (length text)) by lia.
    destruct (0 <? advance f s (length text)); [|reflexivity].
    rewrite render_decorations by assumption. reflexivity.
  - rewrite line_pixel_transparent by assumption. unfold draw_string. rewrite Et, Eb. fold f.
    change (P (px pos) (py pos - baseline_offset f b)) with (origin f pos b).
    cbn [fst snd app]. cbn [px].
    assert (Ea : advance f s (length text) = (f_cw f + f_sp f) * Z.of_nat (length text)).
    { unfold advance. rewrite Et, Eb. reflexivity. }
    rewrite <- Ea.
    replace (px (origin f pos b) + advance f s (length text) - px (origin f pos b))
      with (advance f s (length text)) by lia.
    unfold deco_pixel.
    replace (px (origin f pos b) <? px (origin f pos b) + advance f s (length text))
      with (0 <? advance f s (length text)) by lia.
    destruct (0 <? advance f s (length text)).
    + rewrite render_decorations by assumption. destruct (orelse _ _); reflexivity.
    + reflexivity.
Qed.

(* ====================================================================== well-formed font records *)
(* what a usable MonoFont record satisfies: positive cell inside the atlas row, strikethrough inside the
   glyph height, baseline inside the glyph, everything far below the i32 range.  Checked for every
   built-in font by computation over the regenerated table (Proofs/Fontbuiltin.v). *)
Definition font_wf (f : font) : Prop :=
  font_ok f /\ 0 < f_cw f <= f_iw f /\ 0 < f_ch f <= f_ih f /\ f_base f < f_ch f /\
  d_off (f_st f) + d_h (f_st f) <= f_ch f.

Definition font_wfb (f : font) : bool :=
  (0 <=? f_iw f) && (0 <=? f_ih f) && (0 <=? f_cw f) && (0 <=? f_sp f) && (0 <=? f_ch f) && (f_ch f <=? half) &&
  (0 <=? f_base f) && (f_base f <=? half) &&
  (0 <=? d_off (f_ul f)) && (d_off (f_ul f) <=? half) && (0 <=? d_h (f_ul f)) && (d_h (f_ul f) <=? half) &&
  (0 <=? d_off (f_st f)) && (d_off (f_st f) <=? half) && (0 <=? d_h (f_st f)) && (d_h (f_st f) <=? half) &&
  (0 <? f_cw f) && (f_cw f <=? f_iw f) && (0 <? f_ch f) && (f_ch f <=? f_ih f) && (f_base f <? f_ch f) &&
  (d_off (f_st f) + d_h (f_st f) <=? f_ch f).

Lemma font_wfb_spec f : font_wfb f = true -> font_wf f.
Proof. unfold font_wfb, font_wf, font_ok. intros H. lia. Qed.

(* glyph(): index -> row / column of the atlas (mod.rs:100-124) *)
Lemma glyph_area_cell f gi :
  0 < f_cw f <= f_iw f -> 0 <= gi ->
  let gpr := f_iw f / f_cw f in
  glyph_area f gi = R (P ((gi mod gpr) * f_cw f) ((gi / gpr) * f_ch f)) (S (f_cw f) (f_ch f)).
Proof.
  intros H Hg. cbn zeta. unfold glyph_area.
  replace ((f_cw f =? 0) || (f_iw f <? f_cw f)) with false by lia.
  assert (0 < f_iw f / f_cw f) by (apply Z.div_str_pos; lia).
  f_equal. f_equal. f_equal. rewrite Z.mod_eq by lia. lia.
Qed.

Lemma sub_image_visible_inside f a :
  0 <= sw (sz a) -> 0 <= sh (sz a) ->
  (sub_image_visible f a = true <->
   0 < sw (sz a) /\ 0 < sh (sz a) /\ 0 <= px (tl a) /\ 0 <= py (tl a) /\
   px (tl a) + sw (sz a) <= f_iw f /\ py (tl a) + sh (sz a) <= f_ih f).
Proof. unfold sub_image_visible, is_zero_sized. intros. lia. Qed.

(* ====================================================================== closed forms at draw_string level *)
Lemma draw_string_cell F s text pos b i c dx dy :
  font_ok (mf_geom F) -> draw_ok (mf_geom F) pos (length text) -> index_ok F text ->
  nth_error text i = Some c -> 0 <= dx < f_cw (mf_geom F) -> 0 <= dy < f_ch (mf_geom F) ->
  let f := mf_geom F in
  let p := P (px pos + Z.of_nat i * (f_cw f + f_sp f) + dx) (py pos - baseline_offset f b + dy) in
  render (fst (draw_string F s text pos b)) p =
  orelse (deco_pixel f s (origin f pos b) (advance f s (length text)) p) (cell_colour F s c dx dy).
Proof.
  intros Hf Hd Hi Hn Hdx Hdy. cbn zeta. rewrite render_draw_string by assumption. cbn zeta. f_equal.
  apply (line_pixel_cell F s text (origin (mf_geom F) pos b)); auto; red in Hf; tauto.
Qed.

Lemma draw_string_spacing F s text pos b i dx dy :
  font_ok (mf_geom F) -> draw_ok (mf_geom F) pos (length text) -> index_ok F text ->
  (Datatypes.S i < length text)%nat -> 0 <= dx < f_sp (mf_geom F) -> 0 <= dy < f_ch (mf_geom F) ->
  let f := mf_geom F in
  let p := P (px pos + Z.of_nat i * (f_cw f + f_sp f) + f_cw f + dx) (py pos - baseline_offset f b + dy) in
  render (fst (draw_string F s text pos b)) p =
  orelse (deco_pixel f s (origin f pos b) (advance f s (length text)) p) (cs_bg s).
Proof.
  intros Hf Hd Hi Hn Hdx Hdy. cbn zeta. rewrite render_draw_string by assumption. cbn zeta. f_equal.
  apply (line_pixel_spacing F s text (origin (mf_geom F) pos b)); auto; red in Hf; tauto.
Qed.

Lemma draw_string_elsewhere F s text pos b p :
  font_ok (mf_geom F) -> draw_ok (mf_geom F) pos (length text) -> index_ok F text ->
  let f := mf_geom F in
  contains (R (origin f pos b) (S (line_width f (length text)) (f_ch f))) p = false ->
  render (fst (draw_string F s text pos b)) p =
  deco_pixel f s (origin f pos b) (advance f s (length text)) p.
Proof.
  intros Hf Hd Hi f H. rewrite render_draw_string by assumption. cbn zeta.
  rewrite line_pixel_outside; auto; try (red in Hf; tauto).
  destruct (deco_pixel _ _ _ _ _); reflexivity.
Qed.

Lemma deco_pixel_plain f s o w p : cs_ul s = DNone -> cs_st s = DNone -> deco_pixel f s o w p = None.
Proof. intros H1 H2. unfold deco_pixel. rewrite H1, H2. cbn. destruct (0 <? w); reflexivity. Qed.

Lemma draw_string_cell_plain F s text pos b i c dx dy :
  font_ok (mf_geom F) -> draw_ok (mf_geom F) pos (length text) -> index_ok F text ->
  cs_ul s = DNone -> cs_st s = DNone ->
  nth_error text i = Some c -> 0 <= dx < f_cw (mf_geom F) -> 0 <= dy < f_ch (mf_geom F) ->
  let f := mf_geom F in
  render (fst (draw_string F s text pos b))
    (P (px pos + Z.of_nat i * (f_cw f + f_sp f) + dx) (py pos - baseline_offset f b + dy)) =
  cell_colour F s c dx dy.
Proof.
  intros Hf Hd Hi H1 H2 Hn Hdx Hdy. cbn zeta.
  pose proof (draw_string_cell F s text pos b i c dx dy Hf Hd Hi Hn Hdx Hdy) as E. cbn zeta in E. rewrite E.
  rewrite deco_pixel_plain by assumption. reflexivity.
Qed.

Lemma underline_covers F s text pos b p col :
  font_ok (mf_geom F) -> draw_ok (mf_geom F) pos (length text) -> index_ok F text ->
  let f := mf_geom F in
  let next := snd (draw_string F s text pos b) in
  effective_color (cs_ul s) (cs_text s) = Some col ->
  px pos <= px p < px next ->
  py pos - baseline_offset f b + d_off (f_ul f) <= py p < py pos - baseline_offset f b + d_off (f_ul f) + d_h (f_ul f) ->
  render (fst (draw_string F s text pos b)) p = Some col.
Proof.
  intros Hf Hd Hi f next Hc Hx Hy. subst next. rewrite draw_string_next in Hx. cbn [px] in Hx.
  rewrite render_draw_string by assumption. cbn zeta. fold f in Hx |- *.
  unfold deco_pixel. replace (0 <? advance f s (length text)) with true by lia.
  rewrite Hc. unfold deco_part at 1.
  rewrite (proj2 (contains_spec _ _)) by (unfold deco_box, origin; cbn [tl sz px py sw sh]; lia).
  reflexivity.
Qed.

Lemma strikethrough_covers F s text pos b p col :
  font_ok (mf_geom F) -> draw_ok (mf_geom F) pos (length text) -> index_ok F text ->
  let f := mf_geom F in
  let next := snd (draw_string F s text pos b) in
  effective_color (cs_st s) (cs_text s) = Some col ->
  px pos <= px p < px next ->
  py pos - baseline_offset f b + d_off (f_st f) <= py p < py pos - baseline_offset f b + d_off (f_st f) + d_h (f_st f) ->
  deco_part (f_ul f) (effective_color (cs_ul s) (cs_text s)) (origin f pos b) (px next - px pos) p = None ->
  render (fst (draw_string F s text pos b)) p = Some col.
Proof.
  intros Hf Hd Hi f next Hc Hx Hy Hu. subst next. rewrite draw_string_next in Hx, Hu. cbn [px] in Hx, Hu.
  rewrite render_draw_string by assumption. cbn zeta. fold f in Hx, Hu |- *.
  replace (px pos + advance f s (length text) - px pos) with (advance f s (length text)) in Hu by lia.
  unfold deco_pixel. replace (0 <? advance f s (length text)) with true by lia.
  rewrite Hu. cbn [orelse]. rewrite Hc. unfold deco_part.
  rewrite (proj2 (contains_spec _ _)) by (unfold deco_box, origin; cbn [tl sz px py sw sh]; lia).
  reflexivity.
Qed.

(* ====================================================================== distinct indices, distinct cells *)
Lemma glyph_area_injective f i j :
  font_wf f -> 0 <= i -> 0 <= j -> glyph_area f i = glyph_area f j -> i = j.
Proof.
  intros (Hok & Hcw & Hch & _) Hi Hj E.
  rewrite !glyph_area_cell in E by lia. cbn zeta in E.
  injection E as E1 E2.
  assert (0 < f_iw f / f_cw f) by (apply Z.div_str_pos; lia).
  assert (i mod (f_iw f / f_cw f) = j mod (f_iw f / f_cw f)) by nia.
  assert (i / (f_iw f / f_cw f) = j / (f_iw f / f_cw f)) by nia.
  rewrite (Z.div_mod i (f_iw f / f_cw f)), (Z.div_mod j (f_iw f / f_cw f)) by lia. congruence.
Qed.

(* stronger: the cells of two different indices have no pixel in common *)
Lemma glyph_areas_disjoint f i j p :
  font_wf f -> 0 <= i -> 0 <= j -> i <> j ->
  contains (glyph_area f i) p && contains (glyph_area f j) p = false.
Proof.
  intros (Hok & Hcw & Hch & _) Hi Hj Hne.
  destruct (contains (glyph_area f i) p) eqn:E1; [|reflexivity].
  destruct (contains (glyph_area f j) p) eqn:E2; [|reflexivity]. exfalso.
  rewrite glyph_area_cell in E1, E2 by lia. cbn zeta in E1, E2.
  apply contains_spec in E1, E2. cbn [tl sz px py sw sh] in E1, E2.
  assert (Hg : 0 < f_iw f / f_cw f) by (apply Z.div_str_pos; lia).
  set (g := f_iw f / f_cw f) in *.
  pose proof (Z.mod_pos_bound i g Hg). pose proof (Z.mod_pos_bound j g Hg).
  assert (i mod g = j mod g) by nia.
  assert (0 <= i / g) by (apply Z.div_pos; lia). assert (0 <= j / g) by (apply Z.div_pos; lia).
  assert (i / g = j / g) by nia.
  apply Hne. rewrite (Z.div_mod i g), (Z.div_mod j g) by lia. congruence.
Qed.

(* ====================================================================== zero-width fonts (the null font) *)
(* character width 0 and spacing 0: MonoFont::glyph takes its early exit, no element is drawn, the line has no width *)
Lemma line_width_zero f n : f_cw f = 0 -> f_sp f = 0 -> line_width f n = 0.
Proof. intros H1 H2. unfold line_width. destruct n; [reflexivity|]. rewrite H1, H2. lia. Qed.

Lemma draw_string_binary_zero_width F s m text pos :
  f_cw (mf_geom F) = 0 -> f_sp (mf_geom F) = 0 ->
  draw_string_binary F s m pos text = ([], pos).
Proof.
  intros Hcw Hsp. unfold draw_string_binary.
  assert (He : forall pe, draw_elem F s m pe = []).
  { intros [p [c|]]; unfold draw_elem; cbn [fst snd].
    - unfold glyph_area. rewrite Hcw. cbn. reflexivity.
    - rewrite Hsp. reflexivity. }
  f_equal.
  - induction (fst (line_elements (mf_geom F) pos text)) as [|pe l IH]; [reflexivity|].
    cbn [flat_map]. rewrite He, IH. reflexivity.
  - rewrite line_elements_snd, line_width_zero by assumption. destruct pos as [x y]. cbn [px py]. f_equal. lia.
Qed.

Theorem draw_string_zero_width F s text pos b :
  f_cw (mf_geom F) = 0 -> f_sp (mf_geom F) = 0 ->
  draw_string F s text pos b = ([], pos).
Proof.
  intros Hcw Hsp. unfold draw_string.
  destruct (cs_text s) as [t|], (cs_bg s) as [g|]; rewrite ?draw_string_binary_zero_width by assumption;
    cbn [fst snd px py app]; rewrite ?Hcw, ?Hsp; cbn [Z.add Z.mul];
    rewrite ?Z.add_0_r, Z.ltb_irrefl; f_equal; destruct pos as [x y]; cbn [px py]; f_equal; lia.
Qed.
