(* Lemmas about Model/Framebuffer.v (property C10): set_pixel is RawData::store at the pixel's index in
   ImageRaw's layout; pixel()/as_image() is RawData::load there; hence the refinement to a point -> colour
   map, histories, out-of-bounds writes, the untouched tail of an oversized buffer. *)
From EG Require Import Base.Prelude Base.Lemmas Model.Rawdata Proofs.Rawdata Model.Framebuffer.
From EG Require Model.Geometry Model.Target.
From Coq Require Import ZifyBool.

Ltac Zify.zify_post_hook ::= Z.to_euclidean_division_equations.
Set Default Timeout 60.

Section WithUsize.
Context {U : Usize}.

(* ---- ranges of validity ------------------------------------------------------------------------------ *)
(* WIDTH, HEIGHT fit the `as u32` / `as i32` casts of as_image / pixel; data is the [u8; N] array with
   N >= BUFFER_SIZE (CHECK_N) and below 2 EiB *)
Definition fb_ok (c : fbcfg) (data : list Z) : Prop :=
  0 <= fb_w c <= i32_max /\ 0 <= fb_h c <= i32_max /\
  bytes_ok data /\ len_ok data /\ fb_buffer_size c <= buf_len data.

Definition fb_inside (c : fbcfg) (p : Z * Z) : Prop := 0 <= fst p < fb_w c /\ 0 <= snd p < fb_h c.
Definition fb_insideb (c : fbcfg) (p : Z * Z) : bool :=
  (0 <=? fst p) && (fst p <? fb_w c) && (0 <=? snd p) && (snd p <? fb_h c).
Definition pt_eqb (p q : Z * Z) : bool := (fst p =? fst q) && (snd p =? snd q).

Lemma fb_insideb_iff c p : fb_insideb c p = true <-> fb_inside c p.
Proof. unfold fb_insideb, fb_inside. lia. Qed.

Lemma pt_eqb_iff p q : pt_eqb p q = true <-> p = q.
Proof.
  unfold pt_eqb. destruct p, q; cbn [fst snd]. split.
  - intros H. f_equal; lia.
  - intros H. inversion H. lia.
Qed.

(* the padded row width in pixels (ImageRaw::data_width) and the raw index of a point *)
Definition fb_data_width (c : fbcfg) : Z :=
  if bits (fb_t c) <? 8 then bytes_per_row (fb_w c) (bits (fb_t c)) * (8 / bits (fb_t c)) else fb_w c.
Definition pix_index (c : fbcfg) (p : Z * Z) : Z := fst p + snd p * fb_data_width c.

(* ---- index arithmetic ----------------------------------------------------------------------------------- *)
Lemma pix_index_range c p :
  0 <= fb_w c -> 0 <= fb_h c -> fb_inside c p ->
  0 <= pix_index c p < pixels_total (fb_t c) (fb_buffer_size c).
Proof.
  intros Hw Hh [Hx Hy]. unfold pix_index, fb_data_width, fb_buffer_size, buffer_size_bpp, bytes_per_row, pixels_total.
  destruct p as [x y]. cbn [fst snd] in *. destruct c as [t alt w h]. cbn [fb_t fb_w fb_h] in *.
  destruct t; cbn [bits];
    repeat match goal with |- context [?a <? 8] => let b := eval vm_compute in (a <? 8) in change (a <? 8) with b end;
    repeat match goal with |- context [8 <=? ?a] => let b := eval vm_compute in (8 <=? a) in change (8 <=? a) with b end;
    cbv iota; divs.
  - set (r := (w * 1 + 7) / 8). assert (w <= r * 8) by (unfold r; lia). nia.
  - set (r := (w * 2 + 7) / 8). assert (w <= r * 4) by (unfold r; lia). nia.
  - set (r := (w * 4 + 7) / 8). assert (w <= r * 2) by (unfold r; lia). nia.
  - replace ((w * 8 + 7) / 8) with w by lia. replace (w * h / 1) with (w * h) by lia. nia.
  - replace ((w * 16 + 7) / 8) with (w * 2) by lia. replace (w * 2 * h / 2) with (w * h) by nia. nia.
  - replace ((w * 24 + 7) / 8) with (w * 3) by lia. replace (w * 3 * h / 3) with (w * h) by nia. nia.
  - replace ((w * 32 + 7) / 8) with (w * 4) by lia. replace (w * 4 * h / 4) with (w * h) by nia. nia.
Qed.

Lemma data_width_ge c : 0 <= fb_w c -> fb_w c <= fb_data_width c.
Proof.
  intros Hw. unfold fb_data_width, bytes_per_row. destruct c as [t alt w h]. cbn [fb_t fb_w] in *.
  destruct t; cbn [bits];
    repeat match goal with |- context [?a <? 8] => let b := eval vm_compute in (a <? 8) in change (a <? 8) with b end;
    cbv iota; divs; lia.
Qed.

Lemma pix_index_inj c p q :
  0 <= fb_w c -> fb_inside c p -> fb_inside c q -> pix_index c p = pix_index c q -> p = q.
Proof.
  intros Hw [Px Py] [Qx Qy] E. pose proof (data_width_ge c Hw) as G. unfold pix_index in E.
  destruct p as [x y], q as [x' y']. cbn [fst snd] in *.
  assert (y = y') by nia. subst. f_equal. lia.
Qed.

Lemma pixels_total_mono t a b : 0 <= a <= b -> pixels_total t a <= pixels_total t b.
Proof.
  intros H. unfold pixels_total. destruct t; cbn [bits];
    repeat match goal with |- context [8 <=? ?a] => let b := eval vm_compute in (8 <=? a) in change (8 <=? a) with b end;
    cbv iota; divs; lia.
Qed.

Lemma buffer_size_nonneg c : 0 <= fb_w c -> 0 <= fb_h c -> 0 <= fb_buffer_size c.
Proof.
  intros. unfold fb_buffer_size, buffer_size_bpp. assert (0 < bits (fb_t c)) by (destruct (fb_t c); cbv; auto).
  assert (0 <= (fb_w c * bits (fb_t c) + 7) / 8) by (apply Z.div_pos; nia). nia.
Qed.

(* ---- set_pixel = RawData::store at pix_index ------------------------------------------------------------- *)
Lemma set_pixel_outside c data p v : ~ fb_inside c p -> fb_set_pixel c data p v = data.
Proof.
  intros N. unfold fb_set_pixel, fb_inside in *. destruct p as [x y]. cbn [fst snd] in N.
  destruct ((0 <=? x) && (0 <=? y)) eqn:E1; auto.
  destruct ((x <? fb_w c) && (y <? fb_h c)) eqn:E2; auto. exfalso. apply N. lia.
Qed.

Lemma sub_index_arith k r x y :
  0 < k -> (x + y * (r * k)) / k = r * y + x / k /\ (x + y * (r * k)) mod k = x mod k.
Proof.
  intros Hk. replace (x + y * (r * k)) with (x + (y * r) * k) by ring.
  rewrite Z.div_add, Z.mod_add by lia. split; lia.
Qed.

Lemma set_pixel_is_store c data p v :
  fb_ok c data -> fb_inside c p ->
  fb_set_pixel c data p v = fst (store (fb_t c) (fb_alt c) v data (pix_index c p)).
Proof.
  intros (Hw & Hh & Hb & Hl & Hn) Hin.
  pose proof (pix_index_range c p (proj1 Hw) (proj1 Hh) Hin) as R.
  pose proof (pixels_total_mono (fb_t c) _ _ (conj (buffer_size_nonneg c (proj1 Hw) (proj1 Hh)) Hn)) as Mo.
  assert (R' : 0 <= pix_index c p < pixels_total (fb_t c) (buf_len data)) by lia.
  destruct Hin as [Hx Hy]. unfold fb_set_pixel. destruct p as [x y]. cbn [fst snd] in *.
  replace ((0 <=? x) && (0 <=? y)) with true by lia.
  replace ((x <? fb_w c) && (y <? fb_h c)) with true by lia.
  destruct (rawty_cases (fb_t c)) as [St|[E8|Mt]].
  - rewrite store_sub_in by auto. cbn [fst].
    set (i := pix_index c (x, y)) in *.
    destruct (sub_total (fb_t c) (buf_len data) i St (proj1 R') (buf_len_nonneg data)) as (_ & M & _).
    pose proof (sb_load (fb_t c) (fb_alt c) (i mod ppb (fb_t c)) 0 St M ltac:(lia)) as L.
    cbv zeta in L. destruct L as (_ & L2 & _). rewrite L2.
    unfold store_byte. rewrite mask_val.
    assert (A : i / ppb (fb_t c) = (fb_w c * bits (fb_t c) + 7) / 8 * y + x / (8 / bits (fb_t c)) /\
                i mod ppb (fb_t c) = x mod (8 / bits (fb_t c))).
    { unfold i, pix_index, fb_data_width, bytes_per_row, ppb. cbn [fst snd].
      destruct (ppb_bits _ St) as (P1 & _ & P3). unfold ppb in P1.
      replace (bits (fb_t c) <? 8) with true by (destruct St as [E | [E | E]]; rewrite E; reflexivity).
      cbv iota. apply sub_index_arith; lia. }
    destruct A as [A1 A2]. rewrite A1, A2.
    destruct St as [E | [E | E]]; rewrite E; cbv zeta; reflexivity.
  - rewrite E8 in *. rewrite u8_total in R'. rewrite store_u8_in by auto. cbn [fst].
    unfold pix_index, fb_data_width. rewrite E8. change (bits U8 <? 8) with false. cbv iota. cbn [fst snd].
    f_equal. f_equal. lia.
  - rewrite store_multi_in by (auto; apply len_ok_usize; auto). cbn [fst].
    destruct (multi_nbytes _ Mt) as [Hn8 Hb8].
    unfold pix_index, fb_data_width. replace (bits (fb_t c) <? 8) with false by lia. cbv iota. cbn [fst snd].
    replace (x + y * fb_w c) with (y * fb_w c + x) by lia.
    destruct Mt as [E | [E | E]]; rewrite E; reflexivity.
Qed.

(* ---- load on a prefix ----------------------------------------------------------------------------------- *)
Lemma buf_len_firstn data m : 0 <= m <= buf_len data -> buf_len (firstn (Z.to_nat m) data) = m.
Proof. intros H. unfold buf_len in *. rewrite firstn_length. lia. Qed.

Lemma byte_at_firstn data m k : 0 <= k < m -> byte_at (firstn (Z.to_nat m) data) k = byte_at data k.
Proof.
  intros H. unfold byte_at. rewrite !nth_via_error, nth_error_firstn'.
  replace (Z.to_nat k <? Z.to_nat m)%nat with true by lia. reflexivity.
Qed.

Lemma load_prefix t alt data m i :
  len_ok data -> 0 <= m <= buf_len data -> 0 <= i < pixels_total t m ->
  load t alt (firstn (Z.to_nat m) data) i = load t alt data i.
Proof.
  intros Hl Hm Hi. apply len_ok_usize in Hl.
  pose proof (buf_len_firstn data m Hm) as BL.
  pose proof (pixels_total_mono t m (buf_len data) Hm) as Mo.
  destruct (rawty_cases t) as [St|[->|Mt]].
  - rewrite !load_sub_in by (auto; rewrite ?BL; lia).
    destruct (sub_total t m i St (proj1 Hi) (proj1 Hm)) as (T & _ & D).
    rewrite byte_at_firstn by lia. reflexivity.
  - rewrite u8_total in *. rewrite !load_u8_in by (rewrite ?BL; lia). rewrite byte_at_firstn by lia. reflexivity.
  - rewrite !load_multi_in by (auto; rewrite ?BL; lia). f_equal. f_equal.
    destruct (multi_nbytes t Mt) as [Hn _].
    pose proof (proj1 (multi_total t m i Mt (proj1 Hi) (proj1 Hm)) (proj2 Hi)) as Hr.
    unfold pixel_bytes. apply map_ext_in. intros k Hk. apply In_range in Hk.
    apply byte_at_firstn. nia.
Qed.

(* ---- pixel() = RawData::load at pix_index of the used prefix ----------------------------------------------- *)
Lemma as_image_ok c data :
  fb_ok c data ->
  fb_as_image c data =
  Some (Img (fb_t c) (fb_alt c) (firstn (Z.to_nat (fb_buffer_size c)) data) (fb_w c) (fb_h c)).
Proof.
  intros (Hw & Hh & Hb & Hl & Hn). pose proof (buffer_size_nonneg c (proj1 Hw) (proj1 Hh)) as H0.
  unfold fb_as_image, get_prefix. replace (fb_buffer_size c <=? buf_len data) with true by lia.
  unfold image_new. rewrite buf_len_firstn by lia.
  unfold fb_buffer_size at 1, buffer_size_bpp, bytes_per_row. rewrite Z.eqb_refl. reflexivity.
Qed.

Lemma nth_from_start t alt d n :
  0 <= n <= usize_max -> fst (iter_nth t alt (iter_new d) n) = load t alt d n.
Proof.
  intros H. unfold iter_nth, iter_new, iter_next. cbn [it_data it_index].
  rewrite sat_add_small by lia. rewrite Z.add_0_l. destruct (load t alt d n); reflexivity.
Qed.

Lemma fb_pixel_is_load c data p :
  fb_ok c data ->
  fb_pixel c data p =
  Pix (if fb_insideb c p then load (fb_t c) (fb_alt c) data (pix_index c p) else None).
Proof.
  intros Ok. pose proof Ok as (Hw & Hh & Hb & Hl & Hn).
  unfold fb_pixel. rewrite as_image_ok by auto. f_equal.
  unfold image_pixel. destruct p as [x y]. cbn [img_w img_h img_t img_alt img_data].
  destruct (fb_insideb c (x, y)) eqn:E.
  - apply fb_insideb_iff in E. pose proof E as [Hx Hy]. cbn [fst snd] in Hx, Hy.
    replace ((x <? 0) || (y <? 0) || (fb_w c <=? x) || (fb_h c <=? y)) with false by lia.
    pose proof (pix_index_range c (x, y) (proj1 Hw) (proj1 Hh) E) as R.
    pose proof (buffer_size_nonneg c (proj1 Hw) (proj1 Hh)) as H0.
    pose proof (total_bounds (fb_t c) (fb_buffer_size c) H0) as TB.
    change (x + y * data_width (Img (fb_t c) (fb_alt c) (firstn (Z.to_nat (fb_buffer_size c)) data) (fb_w c) (fb_h c)))
      with (pix_index c (x, y)).
    unfold len_ok in Hl. rewrite nth_from_start by lia.
    apply load_prefix; auto; lia.
  - replace ((x <? 0) || (y <? 0) || (fb_w c <=? x) || (fb_h c <=? y)) with true; auto.
    unfold fb_insideb in E. cbn [fst snd] in E. lia.
Qed.

(* ---- the refinement: set_pixel updates the point -> colour map ------------------------------------------------ *)
Lemma fb_ok_set_pixel c data p v :
  fb_ok c data -> raw_ok (fb_t c) v -> fb_ok c (fb_set_pixel c data p v) /\
  buf_len (fb_set_pixel c data p v) = buf_len data.
Proof.
  intros Ok Hv. pose proof Ok as (Hw & Hh & Hb & Hl & Hn).
  destruct (fb_insideb c p) eqn:E.
  - apply fb_insideb_iff in E. rewrite set_pixel_is_store by auto.
    pose proof (pix_index_range c p (proj1 Hw) (proj1 Hh) E) as R.
    pose proof (pixels_total_mono (fb_t c) _ _ (conj (buffer_size_nonneg c (proj1 Hw) (proj1 Hh)) Hn)) as Mo.
    destruct (load_store (fb_t c) (fb_alt c) v data (pix_index c p) Hb Hl Hv ltac:(lia)) as (b' & S & _ & BL & Bo).
    rewrite S. cbn [fst]. split; auto. unfold fb_ok, len_ok in *. rewrite BL. auto.
  - rewrite set_pixel_outside; auto. intros H. apply fb_insideb_iff in H. congruence.
Qed.

Lemma fb_set_pixel_spec c data p v q :
  fb_ok c data -> raw_ok (fb_t c) v ->
  fb_pixel c (fb_set_pixel c data p v) q =
  if fb_insideb c p && pt_eqb p q then Pix (Some v) else fb_pixel c data q.
Proof.
  intros Ok Hv. pose proof Ok as (Hw & Hh & Hb & Hl & Hn).
  destruct (fb_insideb c p) eqn:E; cbn [andb].
  - pose proof (proj1 (fb_ok_set_pixel c data p v Ok Hv)) as Ok'.
    rewrite !fb_pixel_is_load by auto.
    apply fb_insideb_iff in E. rewrite set_pixel_is_store by auto.
    pose proof (pix_index_range c p (proj1 Hw) (proj1 Hh) E) as R.
    pose proof (pixels_total_mono (fb_t c) _ _ (conj (buffer_size_nonneg c (proj1 Hw) (proj1 Hh)) Hn)) as Mo.
    destruct (pt_eqb p q) eqn:Epq.
    + apply pt_eqb_iff in Epq. subst q. replace (fb_insideb c p) with true by (symmetry; apply fb_insideb_iff; auto).
      destruct (load_store (fb_t c) (fb_alt c) v data (pix_index c p) Hb Hl Hv ltac:(lia)) as (b' & S & L & _).
      rewrite S. cbn [fst]. rewrite L. reflexivity.
    + destruct (fb_insideb c q) eqn:Eq; auto. apply fb_insideb_iff in Eq.
      pose proof (pix_index_range c q (proj1 Hw) (proj1 Hh) Eq) as Rq.
      rewrite store_frame; auto; try lia.
      intros Heq. apply pix_index_inj in Heq; auto; try lia. subst q.
      assert (pt_eqb p p = true) by (apply pt_eqb_iff; auto). congruence.
  - rewrite set_pixel_outside; auto. intros H. apply fb_insideb_iff in H. congruence.
Qed.

(* writes outside WIDTH x HEIGHT change no byte *)
Lemma fb_oob_noop c data p v : fb_insideb c p = false -> fb_set_pixel c data p v = data.
Proof. intros E. apply set_pixel_outside. intros H. apply fb_insideb_iff in H. congruence. Qed.

(* pixel() outside WIDTH x HEIGHT is None *)
Lemma fb_pixel_outside c data q : fb_ok c data -> fb_insideb c q = false -> fb_pixel c data q = Pix None.
Proof. intros Ok E. rewrite fb_pixel_is_load by auto. rewrite E. reflexivity. Qed.

(* pixel() inside never panics and returns a colour *)
Lemma fb_pixel_inside c data q :
  fb_ok c data -> fb_insideb c q = true -> exists v, fb_pixel c data q = Pix (Some v).
Proof.
  intros Ok E. pose proof Ok as (Hw & Hh & Hb & Hl & Hn). rewrite fb_pixel_is_load by auto. rewrite E.
  apply fb_insideb_iff in E.
  pose proof (pix_index_range c q (proj1 Hw) (proj1 Hh) E) as R.
  pose proof (pixels_total_mono (fb_t c) _ _ (conj (buffer_size_nonneg c (proj1 Hw) (proj1 Hh)) Hn)) as Mo.
  destruct (load_in_range (fb_t c) (fb_alt c) data (pix_index c q) Hl ltac:(lia)) as [v ->]. eauto.
Qed.

(* ---- a new framebuffer reads all-zero --------------------------------------------------------------------------- *)
Lemma byte_at_repeat0 n k : byte_at (repeat 0 n) k = 0.
Proof.
  unfold byte_at. generalize (Z.to_nat k) as m. induction n; intros [|m]; cbn [repeat nth]; auto.
Qed.

Lemma bytes_ok_repeat0 n : bytes_ok (repeat 0 n).
Proof. unfold bytes_ok. induction n; cbn [repeat]; constructor; auto. lia. Qed.

Lemma load_zero t alt buf i :
  len_ok buf -> (forall k, byte_at buf k = 0) -> 0 <= i < pixels_total t (buf_len buf) -> load t alt buf i = Some 0.
Proof.
  intros Hl Hz Hi. apply len_ok_usize in Hl. destruct (rawty_cases t) as [St|[->|Mt]].
  - rewrite load_sub_in by auto. rewrite Hz, Z.shiftr_0_l. unfold raw_new. rewrite Z.land_0_l. reflexivity.
  - rewrite u8_total in Hi. rewrite load_u8_in by auto. rewrite Hz. reflexivity.
  - rewrite load_multi_in by auto. f_equal. unfold pixel_bytes.
    rewrite (map_ext _ (fun _ => 0)) by (intros; apply Hz).
    destruct Mt as [->|[->| ->]]; destruct alt; reflexivity.
Qed.

Lemma fb_new_ok c n :
  0 <= fb_w c <= i32_max -> 0 <= fb_h c <= i32_max -> fb_buffer_size c <= Z.of_nat n -> 8 * Z.of_nat n <= usize_max ->
  fb_ok c (fb_new n).
Proof.
  intros Hw Hh Hn Hl. unfold fb_ok, fb_new, len_ok, buf_len. rewrite repeat_length.
  repeat split; try lia. apply bytes_ok_repeat0.
Qed.

Lemma fb_init c n q :
  fb_ok c (fb_new n) -> fb_pixel c (fb_new n) q = Pix (if fb_insideb c q then Some 0 else None).
Proof.
  intros Ok. pose proof Ok as (Hw & Hh & Hb & Hl & Hn). rewrite fb_pixel_is_load by auto.
  destruct (fb_insideb c q) eqn:E; auto. apply fb_insideb_iff in E.
  pose proof (pix_index_range c q (proj1 Hw) (proj1 Hh) E) as R.
  pose proof (pixels_total_mono (fb_t c) _ _ (conj (buffer_size_nonneg c (proj1 Hw) (proj1 Hh)) Hn)) as Mo.
  rewrite load_zero; auto; try lia. intros. apply byte_at_repeat0.
Qed.

(* ---- histories ------------------------------------------------------------------------------------------------------- *)
Definition write := ((Z * Z) * Z)%type.
Definition write_ok (c : fbcfg) (o : write) : Prop := raw_ok (fb_t c) (snd o).
(* the map a sequence of writes leaves at point q, starting from the value `init` *)
Definition last_write (c : fbcfg) (q : Z * Z) (ws : list write) (init : pixres) : pixres :=
  fold_left (fun m o => if fb_insideb c (fst o) && pt_eqb (fst o) q then Pix (Some (snd o)) else m) ws init.

Lemma fb_draw_iter_spec c ws : forall data q,
  fb_ok c data -> Forall (write_ok c) ws ->
  fb_ok c (fb_draw_iter c data ws) /\
  buf_len (fb_draw_iter c data ws) = buf_len data /\
  fb_pixel c (fb_draw_iter c data ws) q = last_write c q ws (fb_pixel c data q).
Proof.
  induction ws as [|o ws IH]; intros data q Ok F; [cbn; auto|].
  inversion F as [|? ? Ho Fr]; subst. unfold fb_draw_iter, last_write. cbn [fold_left].
  destruct (fb_ok_set_pixel c data (fst o) (snd o) Ok Ho) as [Ok' BL].
  destruct (IH (fb_set_pixel c data (fst o) (snd o)) q Ok' Fr) as (A & B & C).
  split; [exact A|]. split; [unfold fb_draw_iter in B; lia|].
  unfold fb_draw_iter in C. rewrite C. unfold last_write. f_equal. apply fb_set_pixel_spec; auto.
Qed.

(* operations: set_pixel, draw_iter and the three inherited DrawTarget methods (trait defaults), in any order *)
Inductive fbop :=
| OpSet (p : Z * Z) (v : Z)
| OpDrawIter (px : list write)
| OpFillSolid (area : Geometry.rect) (v : Z)
| OpFillContiguous (area : Geometry.rect) (colors : Target.stream)
| OpClear (v : Z).
Definition fb_step (c : fbcfg) (data : list Z) (o : fbop) : list Z :=
  match o with
  | OpSet p v => fb_set_pixel c data p v
  | OpDrawIter px => fb_draw_iter c data px
  | OpFillSolid a v => fb_fill_solid c data a v
  | OpFillContiguous a cs => fb_fill_contiguous c data a cs
  | OpClear v => fb_clear c data v
  end.
(* the pixel writes an operation performs, in order: for the inherited methods what the trait defaults hand
   to draw_iter (area.points() zipped with the colours) *)
Definition op_writes (c : fbcfg) (o : fbop) : list write :=
  match o with
  | OpSet p v => [(p, v)]
  | OpDrawIter px => px
  | OpFillSolid a v => to_writes (Target.szip (Geometry.points a) (Target.Rep v))
  | OpFillContiguous a cs => to_writes (Target.szip (Geometry.points a) cs)
  | OpClear v => to_writes (Target.szip (Geometry.points (fb_bounding_box c)) (Target.Rep v))
  end.
Definition fbop_ok (c : fbcfg) (o : fbop) : Prop := Forall (write_ok c) (op_writes c o).

Lemma fb_step_is_draw_iter c data o : fb_step c data o = fb_draw_iter c data (op_writes c o).
Proof. destruct o; reflexivity. Qed.

Lemma fb_run_flat c ops : forall data,
  fold_left (fb_step c) ops data = fb_draw_iter c data (flat_map (op_writes c) ops).
Proof.
  induction ops as [|o ops IH]; intros data; [reflexivity|]. cbn [fold_left flat_map].
  rewrite IH, fb_step_is_draw_iter. unfold fb_draw_iter. rewrite fold_left_app. reflexivity.
Qed.

Lemma fb_history c ops data q :
  fb_ok c data -> Forall (fbop_ok c) ops ->
  fb_ok c (fold_left (fb_step c) ops data) /\
  buf_len (fold_left (fb_step c) ops data) = buf_len data /\
  fb_pixel c (fold_left (fb_step c) ops data) q = last_write c q (flat_map (op_writes c) ops) (fb_pixel c data q).
Proof.
  intros Ok F. rewrite fb_run_flat. apply fb_draw_iter_spec; auto.
  clear Ok. induction F as [|o ops Ho F IH]; cbn [flat_map]; [constructor|]. apply Forall_app. split; auto.
Qed.

Lemma fb_history_new c n ops q :
  fb_ok c (fb_new n) -> Forall (fbop_ok c) ops ->
  fb_pixel c (fold_left (fb_step c) ops (fb_new n)) q =
  last_write c q (flat_map (op_writes c) ops) (Pix (if fb_insideb c q then Some 0 else None)).
Proof.
  intros Ok F. destruct (fb_history c ops (fb_new n) q Ok F) as (_ & _ & H). rewrite H, fb_init; auto.
Qed.

(* ---- bytes beyond BUFFER_SIZE are never modified -------------------------------------------------------------------- *)
Lemma store_bytes_beyond t alt v buf i m k :
  len_ok buf -> 0 <= m <= buf_len buf -> 0 <= i < pixels_total t m -> m <= k ->
  byte_at (fst (store t alt v buf i)) k = byte_at buf k.
Proof.
  intros Hl Hm Hi Hk. apply len_ok_usize in Hl.
  pose proof (pixels_total_mono t m (buf_len buf) Hm) as Mo.
  destruct (rawty_cases t) as [St|[->|Mt]].
  - rewrite store_sub_in by (auto; lia). cbn [fst].
    destruct (sub_total t m i St (proj1 Hi) (proj1 Hm)) as (T & _ & D).
    rewrite byte_at_upd_neq by lia. reflexivity.
  - rewrite u8_total in *. rewrite store_u8_in by lia. cbn [fst]. rewrite byte_at_upd_neq by lia. reflexivity.
  - rewrite store_multi_in by (auto; lia). cbn [fst].
    destruct (multi_nbytes t Mt) as [Hn _].
    pose proof (proj1 (multi_total t m i Mt (proj1 Hi) (proj1 Hm)) (proj2 Hi)) as Hr.
    pose proof (length_encode t alt v Mt) as Le.
    rewrite byte_at_splice by nia. rewrite Le.
    replace (k <? i * nbytes t) with false by nia.
    replace (k <? i * nbytes t + nbytes t) with false by nia. reflexivity.
Qed.

Lemma fb_tail_untouched c data p v k :
  fb_ok c data -> fb_buffer_size c <= k -> byte_at (fb_set_pixel c data p v) k = byte_at data k.
Proof.
  intros Ok Hk. pose proof Ok as (Hw & Hh & Hb & Hl & Hn).
  destruct (fb_insideb c p) eqn:E.
  - apply fb_insideb_iff in E. rewrite set_pixel_is_store by auto.
    pose proof (pix_index_range c p (proj1 Hw) (proj1 Hh) E) as R.
    apply (store_bytes_beyond _ _ _ _ _ (fb_buffer_size c)); auto.
    split; auto. apply buffer_size_nonneg; lia.
  - rewrite fb_oob_noop; auto.
Qed.

Lemma fb_tail_untouched_history c ops data k :
  fb_ok c data -> Forall (fbop_ok c) ops -> fb_buffer_size c <= k ->
  byte_at (fold_left (fb_step c) ops data) k = byte_at data k.
Proof.
  intros Ok F Hk. rewrite fb_run_flat.
  assert (G : Forall (write_ok c) (flat_map (op_writes c) ops)).
  { clear Ok. induction F as [|o ops' Ho F IH]; cbn [flat_map]; [constructor|]. apply Forall_app. split; auto. }
  revert data Ok. induction G as [|o ws Ho G IH]; intros data Ok; [reflexivity|].
  unfold fb_draw_iter. cbn [fold_left].
  destruct (fb_ok_set_pixel c data (fst o) (snd o) Ok Ho) as [Ok' _].
  unfold fb_draw_iter in IH. rewrite IH by auto. apply fb_tail_untouched; auto.
Qed.

(* ======================================================================================================
   Drawing as_image(): the colour stream ContiguousPixels hands to fill_contiguous
   ====================================================================================================== *)
(* rows of w items, each preceded by rs skipped items *)
Fixpoint rows_from (w rs : nat) (k : nat) (l : list Z) : list Z :=
  match k with
  | O => []
  | Datatypes.S k' => firstn w (skipn rs l) ++ rows_from w rs k' (skipn (rs + w) l)
  end.

Lemma skipn_cons_nth {A} (l : list A) n a : nth_error l n = Some a -> skipn n l = a :: skipn (Datatypes.S n) l.
Proof.
  revert n; induction l as [|x l IH]; intros [|n] H; cbn [nth_error] in H; try discriminate.
  - inversion H. reflexivity.
  - cbn [skipn]. rewrite (IH n H). reflexivity.
Qed.

Lemma skipn_skipn' {A} (l : list A) x y : skipn x (skipn y l) = skipn (y + x) l.
Proof.
  revert l; induction y as [|y IH]; intros l; [reflexivity|]. destruct l as [|a l]; cbn [skipn Nat.add].
  - destruct x; reflexivity.
  - apply IH.
Qed.

Lemma cpix_collect_spec t alt (w rs : nat) : (0 < w)%nat ->
  forall k x fuel s l,
    cp_width s = Z.of_nat w -> cp_row_skip s = Z.of_nat rs ->
    cp_rem_x s = Z.of_nat x -> cp_rem_y s = Z.of_nat k ->
    it_ok (cp_iter s) -> iter_list t alt (cp_iter s) = Some l ->
    (x + k * (rs + w) <= length l)%nat -> (x + k * w < fuel)%nat ->
    cpix_collect t alt fuel s = Some (firstn x l ++ rows_from w rs k (skipn x l)).
Proof.
  intros Hw. induction k as [|k IHk].
  - (* last row *)
    induction x as [|x IHx]; intros fuel s l Ew Er Ex Ey Ok El Hlen Hf; (destruct fuel as [|fuel]; [lia|]);
      cbn [cpix_collect]; unfold cpix_next.
    + replace (0 <? cp_rem_x s) with false by lia. replace (cp_rem_y s =? 0) with true by lia. reflexivity.
    + replace (0 <? cp_rem_x s) with true by lia.
      destruct (next_steps t alt (cp_iter s) l Ok El) as (A & B & _ & D).
      destruct l as [|a l']; [cbn [length] in Hlen; lia|]. cbn [hd_error tl] in *.
      destruct (iter_next t alt (cp_iter s)) as [r1 r2]. cbn [fst snd] in *. subst r1.
      cbn [length] in Hlen.
      rewrite (IHx fuel (CPix r2 (cp_rem_x s - 1) (cp_width s) (cp_rem_y s) (cp_row_skip s)) l');
        [reflexivity | cbn [cp_iter cp_rem_x cp_width cp_rem_y cp_row_skip]; auto; lia ..].
  - induction x as [|x IHx]; intros fuel s l Ew Er Ex Ey Ok El Hlen Hf; (destruct fuel as [|fuel]; [lia|]);
      cbn [cpix_collect]; unfold cpix_next.
    + replace (0 <? cp_rem_x s) with false by lia. replace (cp_rem_y s =? 0) with false by lia.
      destruct (nth_skips t alt (cp_iter s) (cp_row_skip s) l Ok ltac:(lia) El) as (A & B & _ & D & _).
      replace (Z.to_nat (cp_row_skip s)) with rs in * by lia.
      destruct (nth_error l rs) as [a|] eqn:En; [|apply nth_error_None in En; lia].
      destruct (iter_nth t alt (cp_iter s) (cp_row_skip s)) as [r1 r2]. cbn [fst snd] in *. subst r1.
      rewrite (IHk (w - 1)%nat fuel (CPix r2 (cp_width s - 1) (cp_width s) (cp_rem_y s - 1) (cp_row_skip s))
                   (skipn (Datatypes.S rs) l));
        [| cbn [cp_iter cp_rem_x cp_width cp_rem_y cp_row_skip]; auto; try rewrite skipn_length; lia ..].
      change (skipn 0 l) with l. cbn [firstn app option_map rows_from]. f_equal.
      rewrite (skipn_cons_nth l rs a En).
      destruct w as [|w']; [lia|]. cbn [firstn]. replace (Datatypes.S w' - 1)%nat with w' by lia.
      rewrite <- app_comm_cons. f_equal. f_equal. f_equal. rewrite skipn_skipn'. f_equal. lia.
    + replace (0 <? cp_rem_x s) with true by lia.
      destruct (next_steps t alt (cp_iter s) l Ok El) as (A & B & _ & D).
      destruct l as [|a l']; [cbn [length] in Hlen; lia|]. cbn [hd_error tl] in *.
      destruct (iter_next t alt (cp_iter s)) as [r1 r2]. cbn [fst snd] in *. subst r1.
      cbn [length] in Hlen.
      rewrite (IHx fuel (CPix r2 (cp_rem_x s - 1) (cp_width s) (cp_rem_y s) (cp_row_skip s)) l');
        [reflexivity | cbn [cp_iter cp_rem_x cp_width cp_rem_y cp_row_skip]; auto; lia ..].
Qed.

Lemma length_rows_from w rs k l : (k * (rs + w) <= length l)%nat -> length (rows_from w rs k l) = (k * w)%nat.
Proof.
  revert l; induction k as [|k IH]; intros l H; [reflexivity|]. cbn [rows_from].
  rewrite app_length, firstn_length, skipn_length, IH by (rewrite skipn_length; lia). lia.
Qed.

Lemma nth_rows_from w rs k : forall l y x,
  (k * (rs + w) <= length l)%nat -> (y < k)%nat -> (x < w)%nat ->
  nth_error (rows_from w rs k l) (y * w + x) = nth_error l (rs + y * (rs + w) + x).
Proof.
  induction k as [|k IH]; intros l y x Hl Hy Hx; [lia|]. cbn [rows_from].
  assert (Lf : length (firstn w (skipn rs l)) = w) by (rewrite firstn_length, skipn_length; lia).
  destruct y as [|y].
  - rewrite nth_error_app1 by lia. cbn [Nat.mul Nat.add]. rewrite nth_error_firstn'.
    replace (x <? w)%nat with true by lia. rewrite nth_error_skipn'. f_equal. lia.
  - rewrite nth_error_app2 by lia. rewrite Lf.
    replace (Datatypes.S y * w + x - w)%nat with (y * w + x)%nat by lia.
    rewrite IH by (try rewrite skipn_length; lia). rewrite nth_error_skipn'. f_equal. lia.
Qed.

Lemma idx_conv1 w c x : 0 <= w -> 0 <= c -> 0 <= x ->
  Z.to_nat ((c + 1) * w + x) = (Z.to_nat c * Z.to_nat w + Z.to_nat x + Z.to_nat w)%nat.
Proof.
  intros. apply Nat2Z.inj. rewrite !Nat2Z.inj_add, Nat2Z.inj_mul, !Z2Nat.id by nia. ring.
Qed.

Lemma idx_conv2 w b c x : 0 <= w -> 0 <= b -> 0 <= c -> 0 <= x ->
  Z.to_nat ((c + 1) * (b + w) + x) =
  (Z.to_nat w + (Z.to_nat b + Z.to_nat c * (Z.to_nat b + Z.to_nat w) + Z.to_nat x))%nat.
Proof.
  intros. apply Nat2Z.inj. rewrite !Nat2Z.inj_add, Nat2Z.inj_mul, !Nat2Z.inj_add, !Z2Nat.id by nia. ring.
Qed.

(* the stream of a whole image whose raw iterator has enough items: w * h colours, colour (x, y) is raw item
   y * data_width + x *)
Lemma image_draw_colors_spec im l :
  0 <= img_w im -> 0 <= img_h im -> img_h im <= u32_max -> img_w im <= data_width im ->
  len_ok (img_data im) ->
  iter_list (img_t im) (img_alt im) (iter_new (img_data im)) = Some l ->
  img_h im * data_width im <= Z.of_nat (length l) ->
  exists cols, image_draw_colors im = Some cols /\
    Z.of_nat (length cols) = img_w im * img_h im /\
    forall x y, 0 <= x < img_w im -> 0 <= y < img_h im ->
      nth_error cols (Z.to_nat (y * img_w im + x)) = nth_error l (Z.to_nat (y * data_width im + x)).
Proof.
  intros Hw Hh Hh32 Hdw Hl El Hlen. unfold image_draw_colors, cpix_new.
  replace (0 <? 0) with false by reflexivity.
  set (t := img_t im) in *. set (alt := img_alt im) in *. set (w := img_w im) in *. set (h := img_h im) in *.
  set (dw := data_width im) in *.
  destruct (Z.eq_dec w 0) as [W0|W0]; [|destruct (Z.eq_dec h 0) as [H0|H0]].
  - (* zero width *)
    exists []. replace (0 <? w) with false by lia. rewrite W0.
    cbn [cpix_collect]. unfold cpix_next. cbn [cp_rem_x cp_rem_y].
    replace (0 <? (if 0 <? h then 0 else 0)) with false by (destruct (0 <? h); reflexivity).
    cbn. split; [reflexivity|]. split; [lia|]. intros; lia.
  - (* zero height *)
    exists []. replace (0 <? h) with false by lia. rewrite H0.
    cbn [cpix_collect]. unfold cpix_next. cbn [cp_rem_x cp_rem_y].
    replace (0 <? 0) with false by reflexivity.
    replace ((if 0 <? w then sat_sub_u32 0 1 else 0) =? 0) with true
      by (destruct (0 <? w); reflexivity).
    split; [reflexivity|]. split; [cbn; lia|]. intros; lia.
  - replace (0 <? w) with true by lia. replace (0 <? h) with true by lia.
    assert (Es : sat_sub_u32 h 1 = h - 1) by (unfold sat_sub_u32; lia). rewrite Es.
    pose proof (cpix_collect_spec t alt (Z.to_nat w) (Z.to_nat (dw - w)) ltac:(lia)
                  (Z.to_nat (h - 1)) (Z.to_nat w) (Datatypes.S (Z.to_nat (w * h)))
                  (CPix (iter_new (img_data im)) w w (h - 1) (dw - w)) l) as S.
    cbn [cp_iter cp_rem_x cp_width cp_rem_y cp_row_skip] in S.
    assert (N1 : (Z.to_nat w + Z.to_nat (h - 1) * (Z.to_nat (dw - w) + Z.to_nat w) <= length l)%nat).
    { replace (Z.to_nat (dw - w) + Z.to_nat w)%nat with (Z.to_nat dw) by lia. nia. }
    rewrite S; try lia; auto; [| apply iter_new_ok; auto | nia].
    eexists. split; [reflexivity|].
    assert (N2 : (Z.to_nat (h - 1) * (Z.to_nat (dw - w) + Z.to_nat w) <= length (skipn (Z.to_nat w) l))%nat)
      by (rewrite skipn_length; lia).
    assert (Lf : length (firstn (Z.to_nat w) l) = Z.to_nat w) by (rewrite firstn_length; lia).
    split.
    + rewrite app_length, Lf, length_rows_from by auto. nia.
    + intros x y Hx Hy. destruct (Z.eq_dec y 0) as [->|Y0].
      * rewrite !Z.mul_0_l, !Z.add_0_l. rewrite nth_error_app1 by lia.
        rewrite nth_error_firstn'. replace (Z.to_nat x <? Z.to_nat w)%nat with true by lia. reflexivity.
      * assert (E1 : Z.to_nat (y * w + x) = (Z.to_nat (y - 1) * Z.to_nat w + Z.to_nat x + Z.to_nat w)%nat).
        { rewrite <- idx_conv1 by lia. f_equal. ring. }
        assert (E2 : Z.to_nat (y * dw + x) =
                     (Z.to_nat w + (Z.to_nat (dw - w) + Z.to_nat (y - 1) * (Z.to_nat (dw - w) + Z.to_nat w) + Z.to_nat x))%nat).
        { rewrite <- idx_conv2 by lia. f_equal. ring. }
        assert (Hy1 : (Z.to_nat (y - 1) < Z.to_nat (h - 1))%nat) by lia.
        assert (Hx1 : (Z.to_nat x < Z.to_nat w)%nat) by lia.
        rewrite E1, E2. clear E1 E2. generalize dependent (Z.to_nat (y - 1)). intros y1 Hy1.
        set (P := (y1 * Z.to_nat w)%nat).
        rewrite nth_error_app2 by (rewrite Lf; lia). rewrite Lf.
        replace (P + Z.to_nat x + Z.to_nat w - Z.to_nat w)%nat with (P + Z.to_nat x)%nat by lia. subst P.
        rewrite nth_rows_from by auto. rewrite nth_error_skipn'. reflexivity.
Qed.

Lemma fb_total_eq c :
  0 <= fb_w c -> 0 <= fb_h c -> pixels_total (fb_t c) (fb_buffer_size c) = fb_h c * fb_data_width c.
Proof.
  intros Hw Hh. unfold fb_data_width, fb_buffer_size, buffer_size_bpp, bytes_per_row, pixels_total.
  destruct c as [t alt w h]. cbn [fb_t fb_w fb_h] in *.
  destruct t; cbn [bits];
    repeat match goal with |- context [?a <? 8] => let b := eval vm_compute in (a <? 8) in change (a <? 8) with b end;
    repeat match goal with |- context [8 <=? ?a] => let b := eval vm_compute in (8 <=? a) in change (8 <=? a) with b end;
    cbv iota; divs.
  - ring.
  - ring.
  - ring.
  - replace ((w * 8 + 7) / 8) with w by lia. rewrite Z.div_1_r. ring.
  - replace ((w * 16 + 7) / 8) with (w * 2) by lia. replace (w * 2 * h) with (h * w * 2) by ring. apply Z.div_mul. lia.
  - replace ((w * 24 + 7) / 8) with (w * 3) by lia. replace (w * 3 * h) with (h * w * 3) by ring. apply Z.div_mul. lia.
  - replace ((w * 32 + 7) / 8) with (w * 4) by lia. replace (w * 4 * h) with (h * w * 4) by ring. apply Z.div_mul. lia.
Qed.

(* drawing as_image(): fill_contiguous receives exactly WIDTH * HEIGHT colours, colour number y * WIDTH + x
   is pixel (x, y) of the framebuffer *)
Lemma fb_as_image_draw c data :
  fb_ok c data ->
  exists im cols,
    fb_as_image c data = Some im /\ image_draw_colors im = Some cols /\
    Z.of_nat (length cols) = fb_w c * fb_h c /\
    forall x y, 0 <= x < fb_w c -> 0 <= y < fb_h c ->
      fb_pixel c data (x, y) = Pix (nth_error cols (Z.to_nat (y * fb_w c + x))).
Proof.
  intros Ok. pose proof Ok as (Hw & Hh & Hb & Hl & Hn).
  pose proof (buffer_size_nonneg c (proj1 Hw) (proj1 Hh)) as H0.
  set (d := firstn (Z.to_nat (fb_buffer_size c)) data).
  set (im := Img (fb_t c) (fb_alt c) d (fb_w c) (fb_h c)).
  assert (BL : buf_len d = fb_buffer_size c) by (apply buf_len_firstn; lia).
  assert (Ld : len_ok d) by (unfold len_ok in *; lia).
  destruct (iter_is_loads (fb_t c) (fb_alt c) (iter_new d) (iter_new_ok d Ld)) as (l & El & _ & Len).
  unfold it_total in Len. cbn [iter_new it_data it_index] in Len. rewrite BL, fb_total_eq in Len by lia.
  assert (DW : data_width im = fb_data_width c) by reflexivity.
  pose proof (data_width_ge c (proj1 Hw)) as Ge.
  assert (P3 : img_h im <= u32_max) by (cbn [img_h im]; unfold i32_max, u32_max in *; lia).
  assert (P4 : img_w im <= data_width im) by (rewrite DW; exact Ge).
  assert (P7 : img_h im * data_width im <= Z.of_nat (length l)).
  { rewrite DW. cbn [img_h im]. assert (0 <= fb_h c * fb_data_width c) by nia. lia. }
  destruct (image_draw_colors_spec im l (proj1 Hw) (proj1 Hh) P3 P4 Ld El P7) as (cols & E1 & E2 & E3).
  exists im, cols. split; [apply as_image_ok; auto|]. split; [exact E1|]. split; [exact E2|].
  intros x y Hx Hy. cbn [img_w img_h] in E3. rewrite E3 by auto. rewrite DW.
  rewrite fb_pixel_is_load by auto.
  assert (In : fb_inside c (x, y)) by (split; auto).
  replace (fb_insideb c (x, y)) with true by (symmetry; apply fb_insideb_iff; auto).
  pose proof (pix_index_range c (x, y) (proj1 Hw) (proj1 Hh) In) as R. f_equal.
  rewrite (items_nth (fb_t c) (fb_alt c) (iter_new d) l _ (iter_new_ok d Ld) El).
  cbn [iter_new it_data it_index]. rewrite Z.add_0_l.
  assert (Pi : pix_index c (x, y) = y * fb_data_width c + x) by (unfold pix_index; cbn [fst snd]; ring).
  rewrite Z2Nat.id by lia. rewrite <- Pi. unfold d. symmetry. apply load_prefix; auto; lia.
Qed.

End WithUsize.
