(* Lemmas about Model/Geometry.v: every Rectangle method agrees with the point set
   "top-left plus size" (property C16). *)
From EG Require Import Base.Prelude Base.Lemmas Model.Geometry.
From Coq Require Import ZifyBool Sorting.Sorted.

Ltac Zify.zify_post_hook ::= Z.to_euclidean_division_equations.
Set Default Timeout 40.

(* Range on which the unbounded model and the i32/u32 machine arithmetic coincide for every
   Rectangle method (no saturation is reached, no intermediate leaves its type). *)
Definition bound : Z := 536870912. (* 2^29 *)
Definition point_ok (p : point) : Prop := - bound <= px p <= bound /\ - bound <= py p <= bound.
Definition size_ok (s : size) : Prop := 0 <= sw s <= bound /\ 0 <= sh s <= bound.
Definition rect_ok (r : rect) : Prop := point_ok (tl r) /\ size_ok (sz r).

(* Sizes are non-negative in every rectangle the implementation can build (u32). *)
Definition size_nonneg (r : rect) : Prop := 0 <= sw (sz r) /\ 0 <= sh (sz r).

Ltac unf :=
  unfold rect_ok, point_ok, size_ok, size_nonneg, bound in *;
  unfold intersection, envelope, offset, resized in *;
  unfold resized_width, resized_height, anchor_point, with_center, center, with_corners, rows, columns,
    translate_rect, is_zero_sized in *;
  unfold contains, anchor_x_of, anchor_y_of, resize_delta, center_offset, size_from_bounding_box in *;
  unfold bottom_right, overlaps, anchor_delta, size_sat_sub, size_sat_add, component_min, component_max,
    psub_size, padd_size, padd, psub, rect_zero in *;
  unfold sat_sub_u32, sat_add_u32, sat_u32_to_i32, sat_add_i32, i32_max, i32_min, u32_max in *;
  cbn [tl sz px py sw sh ax ay] in *.

(* one case split per boolean test, simplifying projections after each *)
Ltac split_ifs :=
  repeat match goal with
  | |- context [if ?b then _ else _] =>
      match type of b with bool => destruct b eqn:?; cbn [tl sz px py sw sh ax ay] in * end
  end.

(* remove saturations that the range hypotheses make vacuous (keeps lia's case analysis small) *)
Ltac nosat :=
  repeat match goal with
  | |- context [Z.min ?a 2147483647] => rewrite (Z.min_l a 2147483647) by lia
  | H : context [Z.min ?a 2147483647] |- _ => rewrite (Z.min_l a 2147483647) in H by lia
  | |- context [Z.min ?a 4294967295] => rewrite (Z.min_l a 4294967295) by lia
  | H : context [Z.min ?a 4294967295] |- _ => rewrite (Z.min_l a 4294967295) in H by lia
  end.

Ltac destr_rects :=
  repeat match goal with
  | r : rect |- _ =>
      let x := fresh "x" in let y := fresh "y" in let w := fresh "w" in let h := fresh "h" in
      destruct r as [[x y] [w h]]
  | p : point |- _ => let x := fresh "x" in let y := fresh "y" in destruct p as [x y]
  | s : size |- _ => let w := fresh "w" in let h := fresh "h" in destruct s as [w h]
  end.

(* ---- contains is "top-left plus size" ---------------------------------- *)
Lemma contains_spec r p :
  contains r p = true <->
  px (tl r) <= px p < px (tl r) + sw (sz r) /\ py (tl r) <= py p < py (tl r) + sh (sz r).
Proof.
  destr_rects. unf.
  split_ifs; lia.
Qed.

Lemma bottom_right_spec r :
  match bottom_right r with
  | Some br => contains r br = true /\ (forall p, contains r p = true -> px p <= px br /\ py p <= py br)
  | None => forall p, contains r p = false
  end.
Proof.
  destruct (bottom_right r) as [br|] eqn:E.
  - split.
    + apply contains_spec. destr_rects. unf. destruct (_ && _) eqn:?; inversion E; subst; lia.
    + intros p Hp. apply contains_spec in Hp. destr_rects. unf.
      destruct (_ && _) eqn:?; inversion E; subst; cbn [px py] in *; lia.
  - intros p. destruct (contains r p) eqn:Hc; [|reflexivity].
    apply contains_spec in Hc. destr_rects. unf. destruct (_ && _) eqn:?; [discriminate|]. cbn [px py] in *; lia.
Qed.

(* ---- intersection ------------------------------------------------------- *)
Theorem intersection_spec a b p :
  contains (intersection a b) p = contains a p && contains b p.
Proof.
  apply eq_true_iff_eq. rewrite andb_true_iff, !contains_spec.
  destr_rects. unf.
  split_ifs; lia.
Qed.



Lemma intersection_size_nonneg a b : size_nonneg a -> size_nonneg b -> size_nonneg (intersection a b).
Proof.
  destr_rects. unf.
  split_ifs; lia.
Qed.

Theorem intersection_empty a b :
  size_nonneg a -> size_nonneg b ->
  (forall p, contains a p && contains b p = false) -> is_zero_sized (intersection a b) = true.
Proof.
  intros Ha Hb H.
  destruct (is_zero_sized (intersection a b)) eqn:E; [reflexivity|exfalso].
  specialize (H (tl (intersection a b))). rewrite <- intersection_spec in H.
  pose proof (intersection_size_nonneg a b Ha Hb) as Hn.
  assert (contains (intersection a b) (tl (intersection a b)) = true) as Hc.
  { apply contains_spec. revert E Hn. generalize (intersection a b). intros r E Hn.
    destr_rects. unf. lia. }
  congruence.
Qed.

Theorem intersection_comm_pts a b p :
  contains (intersection a b) p = contains (intersection b a) p.
Proof. rewrite !intersection_spec. apply andb_comm. Qed.

Theorem intersection_sub_l a b p : contains (intersection a b) p = true -> contains a p = true.
Proof. rewrite intersection_spec, andb_true_iff. tauto. Qed.

Theorem intersection_sub_r a b p : contains (intersection a b) p = true -> contains b p = true.
Proof. rewrite intersection_spec, andb_true_iff. tauto. Qed.

Theorem with_corners_spec c1 c2 p :
  contains (with_corners c1 c2) p = true <->
  Z.min (px c1) (px c2) <= px p <= Z.max (px c1) (px c2) /\
  Z.min (py c1) (py c2) <= py p <= Z.max (py c1) (py c2).
Proof. rewrite contains_spec. destr_rects. unf. lia. Qed.

(* ---- envelope ----------------------------------------------------------- *)
(* As documented, zero sized dimensions are treated as 1: "pts1 r" is the point set of r with
   every zero extent replaced by 1. *)
Definition widen1 (r : rect) : rect := R (tl r) (S (Z.max 1 (sw (sz r))) (Z.max 1 (sh (sz r)))).

Lemma widen1_contains_tl r : contains (widen1 r) (tl r) = true.
Proof. apply contains_spec. unfold widen1. destr_rects. cbn [tl sz px py sw sh]. lia. Qed.

Lemma anchor_br r :
  rect_ok r ->
  anchor_point r (A AXRight AYBottom) =
  P (px (tl r) + Z.max 1 (sw (sz r)) - 1) (py (tl r) + Z.max 1 (sh (sz r)) - 1).
Proof. intros H. destr_rects. unf. f_equal; lia. Qed.

Lemma widen1_contains_br r : rect_ok r -> contains (widen1 r) (anchor_point r (A AXRight AYBottom)) = true.
Proof.
  intros H. rewrite anchor_br by assumption. apply contains_spec. unfold widen1.
  destr_rects. cbn [tl sz px py sw sh]. lia.
Qed.

Theorem envelope_upper a b p :
  rect_ok a -> rect_ok b ->
  contains (widen1 a) p = true \/ contains (widen1 b) p = true -> contains (envelope a b) p = true.
Proof.
  intros Ha Hb. unfold envelope. rewrite !anchor_br by assumption. rewrite with_corners_spec, !contains_spec.
  unfold widen1, component_min, component_max. clear Ha Hb. destr_rects. cbn [tl sz px py sw sh].
  intros [[Hx Hy]|[Hx Hy]]; (split; [clear Hy|clear Hx]; lia).
Qed.

Theorem envelope_least a b c :
  rect_ok a -> rect_ok b ->
  (forall p, contains (widen1 a) p = true \/ contains (widen1 b) p = true -> contains c p = true) ->
  forall p, contains (envelope a b) p = true -> contains c p = true.
Proof.
  intros Ha Hb H p Hp.
  (* c contains the extreme corners of both operands, hence the whole envelope *)
  pose proof (H (tl a) (or_introl (widen1_contains_tl a))) as Ha1.
  pose proof (H (tl b) (or_intror (widen1_contains_tl b))) as Hb1.
  pose proof (H _ (or_introl (widen1_contains_br a Ha))) as Ha2.
  pose proof (H _ (or_intror (widen1_contains_br b Hb))) as Hb2.
  clear H. unfold envelope in Hp. rewrite !anchor_br in * by assumption.
  apply with_corners_spec in Hp.
  revert Ha1 Hb1 Ha2 Hb2 Hp. rewrite !contains_spec. clear Ha Hb. destr_rects.
  unfold component_min, component_max. cbn [tl sz px py sw sh].
  intros [Ha1x Ha1y] [Hb1x Hb1y] [Ha2x Ha2y] [Hb2x Hb2y] [Hx Hy].
  split; [clear Hy Ha1y Hb1y Ha2y Hb2y|clear Hx Ha1x Hb1x Ha2x Hb2x]; lia.
Qed.

(* ---- with_corners / with_center / center -------------------------------- *)
Theorem with_center_center r : rect_ok r -> with_center (center r) (sz r) = r.
Proof. intros H. destr_rects. unf. f_equal. f_equal; lia. Qed.

Theorem center_with_center c s : size_ok s -> center (with_center c s) = c.
Proof. intros H. destr_rects. unf. f_equal; lia. Qed.

(* the centre is the midpoint of top-left and bottom-right, rounded towards the top left *)
Theorem center_within r br :
  rect_ok r -> bottom_right r = Some br ->
  0 <= px (tl r) + px br - 2 * px (center r) <= 1 /\ 0 <= py (tl r) + py br - 2 * py (center r) <= 1.
Proof.
  intros H E. destr_rects. unf. destruct (_ && _) eqn:?; inversion E; subst; cbn [px py]. lia.
Qed.

(* ---- anchors and resizing ---------------------------------------------- *)
Theorem anchor_point_spec r a :
  rect_ok r ->
  let w := Z.max 1 (sw (sz r)) in let h := Z.max 1 (sh (sz r)) in
  px (anchor_point r a) = px (tl r) + match ax a with AXLeft => 0 | AXCenter => (w - 1) / 2 | AXRight => w - 1 end /\
  py (anchor_point r a) = py (tl r) + match ay a with AYTop => 0 | AYCenter => (h - 1) / 2 | AYBottom => h - 1 end.
Proof.
  intros H. destruct a as [x y]. destr_rects. unf. rewrite !Z.quot_div_nonneg by lia.
  destruct x, y; cbn [px py]; lia.
Qed.

(* Resizing keeps an edge or corner anchor exactly fixed. *)
Theorem resized_anchor_fixed r s a :
  rect_ok r -> size_ok s ->
  (ax a <> AXCenter -> px (anchor_point (resized r s a) a) = px (anchor_point r a)) /\
  (ay a <> AYCenter -> py (anchor_point (resized r s a) a) = py (anchor_point r a)).
Proof.
  intros H Hs. destruct a as [x y]. destr_rects. unf.
  destruct x, y; cbn [px py]; split; intros; try congruence; lia.
Qed.

(* A centre anchor moves by at most one pixel. *)
Theorem resized_center_near r s a :
  rect_ok r -> size_ok s ->
  Z.abs (px (anchor_point (resized r s a) a) - px (anchor_point r a)) <= 1 /\
  Z.abs (py (anchor_point (resized r s a) a) - py (anchor_point r a)) <= 1.
Proof.
  intros H Hs. destruct a as [x y]. destr_rects. unf. nosat.
  destruct x, y; cbn [px py]; split; lia.
Qed.

Theorem resized_size r s a : sz (resized r s a) = s.
Proof. destruct s. reflexivity. Qed.

(* ---- offset ------------------------------------------------------------- *)
(* Growing: every side of a non-empty rectangle moves out by n. *)
Theorem offset_grow r n p :
  rect_ok r -> 0 <= n <= bound -> 0 < sw (sz r) -> 0 < sh (sz r) ->
  (contains (offset r n) p = true <->
   px (tl r) - n <= px p < px (tl r) + sw (sz r) + n /\ py (tl r) - n <= py p < py (tl r) + sh (sz r) + n).
Proof.
  intros H Hn Hw Hh. rewrite contains_spec. destr_rects. unf.
  destruct (0 <=? n) eqn:?; cbn [tl sz px py sw sh]; lia.
Qed.

(* Shrinking: each side moves in by |n| while 2|n| < extent; otherwise that extent is 0. *)
Theorem offset_shrink r n :
  rect_ok r -> 0 < n <= bound ->
  let o := offset r (- n) in
  (2 * n < sw (sz r) -> px (tl o) = px (tl r) + n /\ sw (sz o) = sw (sz r) - 2 * n) /\
  (sw (sz r) <= 2 * n -> sw (sz o) = 0) /\
  (2 * n < sh (sz r) -> py (tl o) = py (tl r) + n /\ sh (sz o) = sh (sz r) - 2 * n) /\
  (sh (sz r) <= 2 * n -> sh (sz o) = 0).
Proof.
  intros H Hn. destr_rects. unf.
  destruct (0 <=? - n) eqn:?; cbn [tl sz px py sw sh]; lia.
Qed.

Theorem offset_zero r : rect_ok r -> offset r 0 = r.
Proof. intros H. destr_rects. unf. cbn. f_equal. f_equal; lia. f_equal; lia. Qed.

(* ---- rows / columns / points -------------------------------------------- *)
Theorem rows_columns_spec r :
  rect_ok r ->
  rows r = (py (tl r), py (tl r) + sh (sz r)) /\ columns r = (px (tl r), px (tl r) + sw (sz r)).
Proof. intros H. destr_rects. unf. split; f_equal; lia. Qed.

Definition row_major (x0 x1 y0 y1 : Z) : list point :=
  flat_map (fun y => map (fun x => P x y) (range x0 x1)) (range y0 y1).

Lemma In_row_major x0 x1 y0 y1 p :
  In p (row_major x0 x1 y0 y1) <-> x0 <= px p < x1 /\ y0 <= py p < y1.
Proof.
  unfold row_major. rewrite in_flat_map. split.
  - intros (y & Hy & Hp). apply in_map_iff in Hp. destruct Hp as (x & <- & Hx).
    apply In_range in Hy, Hx. cbn [px py]. lia.
  - intros (Hx & Hy). exists (py p). split; [apply In_range; lia|].
    apply in_map_iff. exists (px p). split; [destruct p; reflexivity|apply In_range; lia].
Qed.

Definition lt_yx (a b : point) : Prop := py a < py b \/ (py a = py b /\ px a < px b).

Lemma row_major_sorted x0 x1 y0 y1 : StronglySorted lt_yx (row_major x0 x1 y0 y1).
Proof.
  unfold row_major, range at 2. generalize (Z.to_nat (y1 - y0)) as n. intros n. revert y0.
  induction n as [|n IH]; intros y0; cbn [range_from flat_map]; [constructor|].
  assert (forall l, StronglySorted Z.lt l ->
            StronglySorted lt_yx (map (fun x => P x y0) l ++
              flat_map (fun y => map (fun x => P x y) (range x0 x1)) (range_from (y0+1) n))) as Hrow.
  { induction l as [|x l IHl]; intros Hs; cbn [map app]; [apply IH|].
    inversion Hs as [|? ? Hs' Hall]; subst. constructor; [apply IHl; assumption|].
    apply Forall_app. split.
    - apply Forall_forall. intros q Hq. apply in_map_iff in Hq. destruct Hq as (x' & <- & Hx').
      right. cbn [px py]. split; [reflexivity|]. rewrite Forall_forall in Hall. auto.
    - apply Forall_forall. intros q Hq. apply in_flat_map in Hq. destruct Hq as (y & Hy & Hq).
      apply in_map_iff in Hq. destruct Hq as (x' & <- & _). apply In_range_from in Hy.
      left. cbn [py]. lia. }
  apply Hrow. apply range_sorted.
Qed.

Lemma lt_yx_irrefl_sorted l : StronglySorted lt_yx l -> NoDup l.
Proof.
  induction 1 as [|a l Hs IH Hall]; constructor; auto.
  intros Hin. rewrite Forall_forall in Hall. specialize (Hall a Hin). unfold lt_yx in Hall. lia.
Qed.

Lemma length_row_major x0 x1 y0 y1 :
  Z.of_nat (length (row_major x0 x1 y0 y1)) = Z.max 0 (x1 - x0) * Z.max 0 (y1 - y0).
Proof.
  unfold row_major. rewrite <- (length_range y0 y1). generalize (range y0 y1). intros l.
  induction l as [|y l IH]; cbn [flat_map length]; [lia|].
  rewrite app_length, map_length, Nat2Z.inj_add, IH, length_range. lia.
Qed.

Theorem points_row_major r :
  rect_ok r ->
  points r = if is_zero_sized r then []
             else row_major (px (tl r)) (px (tl r) + sw (sz r)) (py (tl r)) (py (tl r) + sh (sz r)).
Proof.
  intros H. unfold points. destruct (rows_columns_spec r H) as [-> ->]. reflexivity.
Qed.

Theorem points_spec r p : rect_ok r -> (In p (points r) <-> contains r p = true).
Proof.
  intros H. rewrite points_row_major by assumption. rewrite contains_spec.
  destruct (is_zero_sized r) eqn:E.
  - cbn [In]. destr_rects. unf. lia.
  - apply In_row_major.
Qed.

Theorem points_sorted r : rect_ok r -> StronglySorted lt_yx (points r).
Proof.
  intros H. rewrite points_row_major by assumption.
  destruct (is_zero_sized r); [constructor|apply row_major_sorted].
Qed.

Theorem points_nodup r : rect_ok r -> NoDup (points r).
Proof. intros H. apply lt_yx_irrefl_sorted, points_sorted, H. Qed.

Theorem points_length r : rect_ok r -> Z.of_nat (length (points r)) = sw (sz r) * sh (sz r).
Proof.
  intros H. rewrite points_row_major by assumption.
  destruct (is_zero_sized r) eqn:E.
  - destr_rects. unf. cbn [length]. lia.
  - rewrite length_row_major. destr_rects. unf. lia.
Qed.

(* ---- additions after the independent audit (round 1) ---------------------- *)
(* resized_width / resized_height are `resized` with the other extent kept *)
Theorem resized_width_is_resized r w a : resized_width r w (ax a) = resized r (S w (sh (sz r))) a.
Proof.
  destruct r as [[x y] [w0 h0]], a as [ax0 ay0].
  unfold resized, resized_width, resized_height, resize_delta. cbn [tl sz px py sw sh ax ay].
  rewrite Z.sub_diag. destruct ay0; cbn; rewrite ?Z.add_0_r; reflexivity.
Qed.

Theorem resized_height_is_resized r h a : resized_height r h (ay a) = resized r (S (sw (sz r)) h) a.
Proof.
  destruct r as [[x y] [w0 h0]], a as [ax0 ay0].
  unfold resized, resized_width, resized_height, resize_delta. cbn [tl sz px py sw sh ax ay].
  rewrite Z.sub_diag. destruct ax0; cbn; rewrite ?Z.add_0_r; reflexivity.
Qed.

(* offset per axis, INCLUDING zero extents: a side of positive length moves out by n on both ends;
   a zero extent is treated like a 1 pixel extent for the centre, so the result is the 2n wide range
   starting n-1 before the old position (not n): the statement "every side moves by n" is about
   rectangles that have sides. *)
Theorem offset_grow_axis r n : rect_ok r -> 0 <= n <= bound ->
  let o := offset r n in
  (0 < sw (sz r) -> px (tl o) = px (tl r) - n /\ sw (sz o) = sw (sz r) + 2*n) /\
  (sw (sz r) = 0 -> 0 < n -> px (tl o) = px (tl r) - (n-1) /\ sw (sz o) = 2*n) /\
  (0 < sh (sz r) -> py (tl o) = py (tl r) - n /\ sh (sz o) = sh (sz r) + 2*n) /\
  (sh (sz r) = 0 -> 0 < n -> py (tl o) = py (tl r) - (n-1) /\ sh (sz o) = 2*n).
Proof.
  intros H Hn. destruct r as [[x y] [w h]]. unf.
  destruct (0 <=? n) eqn:?; cbn [tl sz px py sw sh]; lia.
Qed.

Lemma widen1_id r : 0 < sw (sz r) -> 0 < sh (sz r) -> widen1 r = r.
Proof. destruct r as [[x y] [w h]]. unfold widen1. cbn [tl sz sw sh]. intros. f_equal. f_equal; lia. Qed.

(* for rectangles that have points, the envelope is the least rectangle containing both *)
Theorem envelope_least_nonzero a b c : rect_ok a -> rect_ok b ->
  0 < sw (sz a) -> 0 < sh (sz a) -> 0 < sw (sz b) -> 0 < sh (sz b) ->
  (forall p, contains a p = true \/ contains b p = true -> contains c p = true) ->
  forall p, contains (envelope a b) p = true -> contains c p = true.
Proof.
  intros Ha Hb ? ? ? ? H. apply envelope_least; auto. rewrite !widen1_id by assumption. exact H.
Qed.

(* ---- translation -------------------------------------------------------- *)
Theorem contains_translate r d p :
  contains (translate_rect r d) (padd p d) = contains r p.
Proof.
  apply eq_true_iff_eq. rewrite !contains_spec. destr_rects. unf. lia.
Qed.
