(* Translation equivariance of the Rectangle model (property C07, geometry part):
   every Rectangle query commutes with moving the rectangle by d. *)
From EG Require Import Base.Prelude Base.Lemmas Model.Geometry Proofs.Geometry.
From Coq Require Import ZifyBool.

Ltac Zify.zify_post_hook ::= Z.to_euclidean_division_equations.
Set Default Timeout 40.

Lemma range_from_shift a n k : range_from (a + k) n = map (fun x => x + k) (range_from a n).
Proof.
  revert a. induction n as [|n IH]; intros a; cbn [range_from map]; [reflexivity|].
  f_equal. replace (a + k + 1) with (a + 1 + k) by lia. apply IH.
Qed.

Lemma range_shift a b k : range (a + k) (b + k) = map (fun x => x + k) (range a b).
Proof. unfold range. replace (b + k - (a + k)) with (b - a) by lia. apply range_from_shift. Qed.

Lemma row_major_shift x0 x1 y0 y1 dx dy :
  row_major (x0 + dx) (x1 + dx) (y0 + dy) (y1 + dy) =
  map (fun p => padd p (P dx dy)) (row_major x0 x1 y0 y1).
Proof.
  unfold row_major. rewrite (range_shift y0 y1 dy), (range_shift x0 x1 dx).
  generalize (range y0 y1) as ys. intros ys.
  induction ys as [|y ys IH]; cbn [map flat_map]; [reflexivity|].
  rewrite map_app, IH. f_equal. rewrite !map_map. apply map_ext. intros x. reflexivity.
Qed.

Theorem points_translate r d :
  rect_ok r -> rect_ok (translate_rect r d) ->
  points (translate_rect r d) = map (fun p => padd p d) (points r).
Proof.
  intros H Ht. rewrite (points_row_major _ Ht), (points_row_major _ H).
  destruct r as [[x y] [w h]], d as [dx dy].
  unfold translate_rect, is_zero_sized, padd. cbn [tl sz px py sw sh].
  destruct ((h =? 0) || (w =? 0)); [reflexivity|].
  replace (x + dx + w) with (x + w + dx) by lia. replace (y + dy + h) with (y + h + dy) by lia.
  apply row_major_shift.
Qed.

Theorem bottom_right_translate r d :
  bottom_right (translate_rect r d) = option_map (fun p => padd p d) (bottom_right r).
Proof.
  destruct r as [[x y] [w h]], d as [dx dy]. unfold bottom_right, translate_rect, padd.
  cbn [tl sz px py sw sh]. destruct ((0 <? w) && (0 <? h)); cbn [option_map px py]; [|reflexivity].
  do 2 f_equal; lia.
Qed.

Theorem center_translate r d : center (translate_rect r d) = padd (center r) d.
Proof.
  destruct r as [[x y] [w h]], d as [dx dy]. unfold center, translate_rect, padd, padd_size.
  cbn [tl sz px py sw sh]. f_equal; lia.
Qed.

Theorem anchor_point_translate r a d : anchor_point (translate_rect r d) a = padd (anchor_point r a) d.
Proof.
  destruct r as [[x y] [w h]], d as [dx dy], a as [a1 a2].
  unfold anchor_point, anchor_x_of, anchor_y_of, translate_rect, padd. cbn [tl sz px py sw sh ax ay].
  f_equal; lia.
Qed.

Theorem intersection_translate a b d p :
  contains (intersection (translate_rect a d) (translate_rect b d)) (padd p d) =
  contains (intersection a b) p.
Proof. rewrite !intersection_spec, !contains_translate. reflexivity. Qed.

Theorem size_translate r d : sz (translate_rect r d) = sz r.
Proof. reflexivity. Qed.

Theorem translate_compose r d e : translate_rect (translate_rect r d) e = translate_rect r (padd d e).
Proof.
  destruct r as [[x y] [w h]], d as [dx dy], e as [ex ey]. unfold translate_rect, padd.
  cbn [tl sz px py]. do 2 f_equal; lia.
Qed.
