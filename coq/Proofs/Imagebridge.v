(* Bridge between the two models of ImageRaw / raw load: Model/Imageraw.v (property C09, the image builder's)
   and Model/Rawdata.v + Model/Framebuffer.v (properties C11 / C10).  Both were written against the same Rust
   lines and are tied to the code separately; here they are proved equal, so that
     - C11's closed-form layouts apply to Imageraw.raw_load,
     - C09's image_draw_spec applies to Framebuffer::as_image(): the pixel map a target holds after drawing
       Image::new(&fb.as_image(), o) is the framebuffer's content shifted by o. *)
From EG Require Import Base.Prelude Base.Lemmas Model.Rawdata Proofs.Rawdata Model.Framebuffer Proofs.Framebuffer.
From EG Require Import Model.Geometry Proofs.Geometry.
From EG Require Model.Imageraw Proofs.Imageraw Model.Target Proofs.Fbtarget.
From Coq Require Import ZifyBool.

Ltac Zify.zify_post_hook ::= Z.to_euclidean_division_equations.
Set Default Timeout 60.

(* Model/Imageraw.v is written for a 64-bit usize; the bridge is therefore stated for the usize64 instance *)
Local Existing Instance usize64.

(* ---- raw load ----------------------------------------------------------------------------------------------- *)
Lemma get_byte_eq buf i : 0 <= i -> Imageraw.get_byte buf i = get buf i.
Proof.
  intros Hi. unfold Imageraw.get_byte, get. destruct (i <? buf_len buf) eqn:E; [reflexivity|].
  apply nth_error_None. unfold buf_len in E. lia.
Qed.

Lemma decode_eq t alt bytes :
  multi_byte t -> bytes_ok bytes -> Z.of_nat (length bytes) = nbytes t ->
  decode_bytes t alt bytes = if alt then Imageraw.from_be_bytes bytes else Imageraw.from_le_bytes bytes.
Proof.
  intros Mt Hb Hn. unfold bytes_ok in Hb.
  destruct Mt as [->|[->| ->]]; nb;
    repeat (destruct bytes as [|? bytes]; cbn [length] in Hn; try lia);
    repeat match goal with H : Forall _ (_ :: _) |- _ => inversion H; clear H; subst end;
    destruct alt; unfold decode_bytes, from_be, Imageraw.from_be_bytes;
    cbn [rev app from_le fold_right fold_left Imageraw.from_le_bytes]; rewrite ?raw_new_mod; cbn [bits]; lia.
Qed.

Lemma bytes_ok_pixel_bytes t buf i : bytes_ok buf -> bytes_ok (pixel_bytes t buf i).
Proof.
  intros Hb. unfold bytes_ok, pixel_bytes. rewrite Forall_map. apply Forall_forall. intros k _. apply byte_at_ok; auto.
Qed.

Lemma length_pixel_bytes t buf i : 0 <= nbytes t -> Z.of_nat (length (pixel_bytes t buf i)) = nbytes t.
Proof. intros H. unfold pixel_bytes. rewrite map_length, length_range. lia. Qed.

(* Imageraw's raw load (indexed by the bit depth) is Rawdata.load (indexed by the raw type) *)
Lemma raw_load_eq_load t alt buf i :
  bytes_ok buf -> len_ok buf -> 0 <= i ->
  Imageraw.raw_load (bits t) alt buf i = load t alt buf i.
Proof.
  intros Hb Hl Hi. pose proof (len_ok_usize buf Hl) as Hu.
  destruct (Z_lt_ge_dec i (pixels_total t (buf_len buf))) as [In|Out].
  - destruct (rawty_cases t) as [St|[->|Mt]].
    + rewrite load_sub_in by auto. unfold Imageraw.raw_load.
      replace (bits t <? 8) with true by (destruct St as [->|[->| ->]]; reflexivity).
      change (Imageraw.bit_position (bits t) alt i) with (bit_position t alt i).
      rewrite bit_position_eq by auto.
      destruct (sub_total t (buf_len buf) i St Hi (buf_len_nonneg buf)) as (T & M & D).
      rewrite get_byte_eq, get_lt by lia. fold (byte_at buf (i / ppb t)).
      pose proof (sb_load t alt (i mod ppb t) (byte_at buf (i / ppb t)) St M (byte_at_ok _ _ Hb)) as S.
      cbv zeta in S. destruct S as (S1 & _). rewrite S1. reflexivity.
    + rewrite u8_total in In. rewrite load_u8_in by auto. unfold Imageraw.raw_load.
      change (bits U8 <? 8) with false. change (bits U8 =? 8) with true. cbv iota.
      rewrite get_byte_eq, get_lt by lia. fold (byte_at buf i). rewrite raw_new_byte by (apply byte_at_ok; auto). reflexivity.
    + rewrite load_multi_in by auto. destruct (multi_nbytes t Mt) as [Hn Hb8].
      pose proof (proj1 (multi_total t (buf_len buf) i Mt Hi (buf_len_nonneg buf)) In) as Hr.
      unfold Imageraw.raw_load. replace (bits t <? 8) with false by lia. replace (bits t =? 8) with false by lia.
      fold (nbytes t). fold (buf_len buf). cbv zeta.
      replace (i * nbytes t <=? buf_len buf) with true by nia.
      rewrite skipn_length. replace (nbytes t <=? _) with true by (unfold buf_len in *; nia).
      rewrite pixel_bytes_eq by lia.
      rewrite decode_eq by (auto using bytes_ok_pixel_bytes; apply length_pixel_bytes; lia).
      destruct alt; reflexivity.
  - rewrite load_oob by lia. destruct (rawty_cases t) as [St|[->|Mt]].
    + unfold Imageraw.raw_load.
      replace (bits t <? 8) with true by (destruct St as [->|[->| ->]]; reflexivity).
      change (Imageraw.bit_position (bits t) alt i) with (bit_position t alt i).
      rewrite bit_position_eq by auto.
      destruct (sub_total t (buf_len buf) i St Hi (buf_len_nonneg buf)) as (T & M & D).
      rewrite get_byte_eq by lia. replace (get buf (i / ppb t)) with (@None Z); [reflexivity|].
      symmetry. apply get_None_iff; lia.
    + rewrite u8_total in Out. unfold Imageraw.raw_load.
      change (bits U8 <? 8) with false. change (bits U8 =? 8) with true. cbv iota.
      rewrite get_byte_eq by lia. apply get_None_iff; lia.
    + destruct (multi_nbytes t Mt) as [Hn Hb8].
      pose proof (multi_total t (buf_len buf) i Mt Hi (buf_len_nonneg buf)) as Hr.
      unfold Imageraw.raw_load. replace (bits t <? 8) with false by lia. replace (bits t =? 8) with false by lia.
      fold (nbytes t). fold (buf_len buf). cbv zeta.
      destruct (i * nbytes t <=? buf_len buf) eqn:E; [|reflexivity].
      rewrite skipn_length. replace (nbytes t <=? _) with false; [reflexivity|]. unfold buf_len in *. nia.
Qed.

(* ---- ImageRaw ---------------------------------------------------------------------------------------------------- *)
(* the Imageraw.v image that a Framebuffer.v image is *)
Definition to_ir (im : Framebuffer.image) : Imageraw.image_raw :=
  Imageraw.IR (img_data im) (S (img_w im) (img_h im)) (bits (img_t im)) (img_alt im).

Lemma data_width_eq im : Imageraw.data_width (to_ir im) = Framebuffer.data_width im.
Proof. reflexivity. Qed.

Lemma usize_max_eq : Imageraw.usize_max = @Rawdata.usize_max usize64.
Proof. reflexivity. Qed.

Lemma image_pixel_eq im p :
  bytes_ok (img_data im) -> len_ok (img_data im) -> 0 <= Framebuffer.data_width im ->
  Framebuffer.image_pixel im (px p, py p) = Imageraw.raw_pixel (to_ir im) p.
Proof.
  intros Hb Hl Hd. unfold Framebuffer.image_pixel, Imageraw.raw_pixel.
  cbn [to_ir Imageraw.ir_size Imageraw.ir_bpp Imageraw.ir_alt Imageraw.ir_data sw sh].
  replace ((px p <? 0) || (py p <? 0) || (px p >=? img_w im) || (py p >=? img_h im))
    with ((px p <? 0) || (py p <? 0) || (img_w im <=? px p) || (img_h im <=? py p)) by lia.
  destruct (_ || _) eqn:E; [reflexivity|].
  change (Imageraw.data_width (to_ir im)) with (Framebuffer.data_width im).
  set (n := px p + py p * Framebuffer.data_width im).
  assert (Hn : 0 <= n) by (unfold n; nia).
  unfold iter_nth, iter_new, iter_next, Imageraw.raw_nth, Imageraw.raw_next. cbn [it_data it_index].
  unfold Imageraw.sat_add_usize, sat_add_usize, Imageraw.usize_max. cbn [usize_max usize64].
  rewrite raw_load_eq_load by (auto; lia).
  destruct (load _ _ _ _); reflexivity.
Qed.

(* ---- drawing Framebuffer::as_image() ---------------------------------------------------------------------------- *)
Lemma bits_bpp_ok t : Imageraw.bpp_ok (bits t).
Proof. unfold Imageraw.bpp_ok. destruct t; cbn; tauto. Qed.

Lemma fb_as_image_render c data o :
  fb_ok c data -> fb_w c <= bound -> fb_h c <= bound -> point_ok o ->
  exists im,
    fb_as_image c data = Some im /\ Imageraw.img_ok (to_ir im) /\
    forall bb q,
      Imageraw.render bb (Imageraw.image_draw (Imageraw.Img (Imageraw.Raw (to_ir im)) o)) q =
      if contains bb q && contains (R o (S (fb_w c) (fb_h c))) q then Fbtarget.fb_abs c data (psub q o) else None.
Proof.
  intros Ok Bw Bh Ho. pose proof Ok as (Hw & Hh & Hb & Hl & Hn).
  pose proof (buffer_size_nonneg c (proj1 Hw) (proj1 Hh)) as H0.
  set (d := firstn (Z.to_nat (fb_buffer_size c)) data).
  set (im := Framebuffer.Img (fb_t c) (fb_alt c) d (fb_w c) (fb_h c)).
  assert (Ei : fb_as_image c data = Some im) by (apply as_image_ok; auto).
  assert (BL : buf_len d = fb_buffer_size c) by (apply buf_len_firstn; lia).
  assert (Ld : len_ok d) by (unfold len_ok in *; lia).
  assert (Bd : bytes_ok d).
  { unfold bytes_ok, d in *. rewrite Forall_forall in *. intros x Hx. apply Hb. eapply firstn_In_local; eauto. }
  assert (Iok : Imageraw.img_ok (to_ir im)).
  { unfold Imageraw.img_ok. cbn [to_ir im Imageraw.ir_bpp Imageraw.ir_size Imageraw.ir_data img_t img_w img_h img_alt img_data sw sh].
    split; [apply bits_bpp_ok|]. split; [unfold size_ok; cbn [sw sh]; lia|].
    fold (buf_len d). rewrite BL. reflexivity. }
  exists im. split; [exact Ei|]. split; [exact Iok|].
  intros bb q. rewrite Imageraw.image_draw_spec by (cbn [Imageraw.d_wf]; auto).
  rewrite Imageraw.image_box_eq, Imageraw.padd_zero_l.
  cbn [Imageraw.d_size to_ir Imageraw.ir_size im img_w img_h].
  destruct (contains bb q && contains (R o (S (fb_w c) (fb_h c))) q); [|reflexivity].
  cbn [Imageraw.d_pixel]. unfold Fbtarget.fb_abs, fb_pixel. rewrite Ei.
  rewrite <- image_pixel_eq; auto.
  change (Framebuffer.data_width im) with (fb_data_width c).
  pose proof (data_width_ge c (proj1 Hw)). lia.
Qed.
