(* ImageRaw<C, O> with a real colour type C: the tie between the raw values of Model/Imageraw.v (C09) and the colour
   model of Model/Colormodel.v (C12).  In the code the only place where C enters is `r.into()` = `C::from(raw)`:
   image_raw.rs:272 `.nth(..).map(|r| r.into())` (pixel) and :345 `.map(|c| c.into())` (ContiguousPixels::next).
   Not extracted; definitions here are the composition of two extracted models. *)
From EG Require Import Base.Prelude Base.Lemmas Gen.ColorConsts Gen.ColorTable Model.Geometry Proofs.Geometry
  Model.Colormodel Proofs.Colormodel Model.Imageraw Proofs.Imageraw.
From Coq Require Import ZifyBool.

Ltac Zify.zify_post_hook ::= Z.to_euclidean_division_equations.
Set Default Timeout 60.

(* pixel() of ImageRaw<C, O>: Some(C::from(raw)) *)
Definition typed_pixel (t : crow) (img : image_raw) (p : point) : option Z :=
  option_map (from_raw t) (raw_pixel img p).
Definition typed_d_pixel (t : crow) (d : drawable) (p : point) : option Z :=
  option_map (from_raw t) (d_pixel d p).
(* the colour stream as the target sees it *)
Definition typed_call (t : crow) (c : icall) : icall :=
  match c with FillContiguous a cs => FillContiguous a (map (from_raw t) cs) end.
Definition typed_image_draw (t : crow) (i : image) : list icall := map (typed_call t) (image_draw i).

(* bytes are 0..255 (the same predicate as bytes_ok of Proofs/Rawdata.v) *)
Definition data_ok (data : list Z) : Prop := Forall (fun b => 0 <= b < 256) data.

(* ---- mapping the colours of a call list maps the pixel map --------------------------------------------- *)
Lemma zip_map_r {A B C} (f : B -> C) (l : list A) (cs : list B) :
  zip l (map f cs) = map (fun w => (fst w, f (snd w))) (zip l cs).
Proof.
  revert cs. induction l as [|a l IH]; intros [|c cs]; cbn [zip map fst snd]; try reflexivity. f_equal. apply IH.
Qed.

Lemma last_write_map (f : Z -> Z) q ws :
  last_write q (map (fun w => (fst w, f (snd w))) ws) = option_map f (last_write q ws).
Proof.
  induction ws as [|[p c] t IH]; cbn [map last_write fst snd]; [reflexivity|].
  rewrite IH. destruct (last_write q t); cbn [option_map]; [reflexivity|].
  destruct (point_eqb p q); reflexivity.
Qed.

Lemma filter_map_fst {A B} (g : A -> bool) (f : B -> B) (ws : list (A * B)) :
  filter (fun w => g (fst w)) (map (fun w => (fst w, f (snd w))) ws) =
  map (fun w => (fst w, f (snd w))) (filter (fun w => g (fst w)) ws).
Proof.
  induction ws as [|[p c] t IH]; cbn [map filter fst snd]; [reflexivity|].
  destruct (g p); cbn [map fst snd]; rewrite IH; reflexivity.
Qed.

Theorem render_typed t bb calls q :
  render bb (map (typed_call t) calls) q = option_map (from_raw t) (render bb calls q).
Proof.
  unfold render, writes.
  assert (E : flat_map (call_writes bb) (map (typed_call t) calls) =
              map (fun w => (fst w, from_raw t (snd w))) (flat_map (call_writes bb) calls)).
  { induction calls as [|[a cs] l IH]; cbn [map flat_map]; [reflexivity|].
    rewrite map_app, IH. f_equal. cbn [typed_call call_writes]. rewrite zip_map_r.
    apply (filter_map_fst (contains bb) (from_raw t)). }
  rewrite E. apply last_write_map.
Qed.

(* C09 for a typed image: target point q shows C::from(raw pixel (q - o)) inside the box, nothing else *)
Theorem typed_image_draw_spec t d o bb q :
  d_wf d -> is_zero_sized (d_box d) = true \/ offset_fits o (d_size d) ->
  render bb (typed_image_draw t (Img d o)) q =
  if contains bb q && contains (image_box (Img d o)) q then typed_d_pixel t d (psub q o) else None.
Proof.
  intros H Ho. unfold typed_image_draw. rewrite render_typed, image_draw_spec_fits by assumption.
  unfold typed_d_pixel. destruct (_ && _); reflexivity.
Qed.

Theorem typed_pixel_none_iff t img p :
  img_ok img -> (typed_pixel t img p = None <-> contains (origin_box (ir_size img)) p = false).
Proof.
  intros H. unfold typed_pixel. rewrite <- (pixel_none_iff img p H).
  destruct (raw_pixel img p); cbn [option_map]; split; intros E; try discriminate; reflexivity.
Qed.

(* ---- the raw values are RawUx values: 0 <= v < 2^bpp -------------------------------------------------- *)
Lemma In_firstn {A} n (l : list A) x : In x (firstn n l) -> In x l.
Proof.
  revert l. induction n as [|n IH]; intros [|a l]; cbn [firstn In]; try tauto. intros [E|Hin]; [left; exact E|right; auto].
Qed.
Lemma In_skipn {A} n (l : list A) x : In x (skipn n l) -> In x l.
Proof.
  revert l. induction n as [|n IH]; intros [|a l]; cbn [skipn In]; try tauto. intros Hin. right. auto.
Qed.

Lemma from_le_bytes_bound l : data_ok l -> 0 <= from_le_bytes l < 256 ^ Z.of_nat (length l).
Proof.
  induction 1 as [|b l Hb Hl IH]; [cbn; lia|].
  cbn [from_le_bytes length]. rewrite Nat2Z.inj_succ, Z.pow_succ_r by lia. lia.
Qed.

Lemma from_be_bytes_bound l : data_ok l -> 0 <= from_be_bytes l < 256 ^ Z.of_nat (length l).
Proof.
  unfold from_be_bytes.
  assert (G : forall acc m, data_ok l -> 0 <= m -> 0 <= acc < 256 ^ m ->
              0 <= fold_left (fun a b => a * 256 + b) l acc < 256 ^ (m + Z.of_nat (length l))).
  { induction l as [|b l IH]; intros acc m Hd Hm Ha; cbn [fold_left length].
    - replace (m + Z.of_nat 0) with m by lia. exact Ha.
    - inversion Hd as [|? ? Hb Hl]; subst.
      replace (m + Z.of_nat (Datatypes.S (length l))) with ((m + 1) + Z.of_nat (length l)) by lia.
      apply IH; [assumption|lia|]. rewrite Z.pow_add_r by lia. change (256 ^ 1) with 256. lia. }
  intros Hd. apply (G 0 0 Hd); [lia|]. change (256 ^ 0) with 1. lia.
Qed.

Lemma raw_load_range bpp alt data i v :
  bpp_ok bpp -> data_ok data -> raw_load bpp alt data i = Some v -> 0 <= v < 2 ^ bpp.
Proof.
  intros Hb Hd. unfold raw_load, bit_position, get_byte.
  assert (Hsub : forall l, (forall x, In x l -> In x data) -> data_ok l).
  { intros l Hl. apply Forall_forall. intros x Hx. unfold data_ok in Hd. rewrite Forall_forall in Hd. auto. }
  assert (Hmulti : forall k, 0 < k -> 256 ^ k = 2 ^ bpp -> bpp / 8 = k ->
     (if i * k <=? Z.of_nat (length data)
      then (if k <=? Z.of_nat (length (skipn (Z.to_nat (i * k)) data))
            then Some (if alt then from_be_bytes (firstn (Z.to_nat k) (skipn (Z.to_nat (i * k)) data))
                       else from_le_bytes (firstn (Z.to_nat k) (skipn (Z.to_nat (i * k)) data))) else None)
      else None) = Some v -> 0 <= v < 2 ^ bpp).
  { intros k Hk Hp _. destruct (_ <=? _); [|discriminate]. destruct (k <=? _) eqn:E2; [|discriminate].
    intros E. inversion E; subst v. clear E.
    set (bytes := firstn (Z.to_nat k) (skipn (Z.to_nat (i * k)) data)).
    assert (Hbytes : data_ok bytes).
    { apply Hsub. intros x Hx. unfold bytes in Hx. apply In_firstn, In_skipn in Hx. exact Hx. }
    assert (Hlen : Z.of_nat (length bytes) = k) by (unfold bytes; rewrite firstn_length; lia).
    rewrite <- Hp, <- Hlen. destruct alt; [apply from_be_bytes_bound|apply from_le_bytes_bound]; exact Hbytes. }
  bpp_cases Hb; subst bpp; norm_consts.
  1-3: (destruct (nth_error data _) as [byte|]; [|discriminate]; intros E; inversion E; apply Z.mod_pos_bound; lia).
  - intros E. apply nth_error_In in E. unfold data_ok in Hd. rewrite Forall_forall in Hd. apply Hd in E.
    change (2 ^ 8) with 256. exact E.
  - apply (Hmulti 2); reflexivity || lia.
  - apply (Hmulti 3); reflexivity || lia.
  - apply (Hmulti 4); reflexivity || lia.
Qed.

Lemma raw_pixel_range img p v :
  img_ok img -> data_ok (ir_data img) -> raw_pixel img p = Some v -> 0 <= v < 2 ^ ir_bpp img.
Proof.
  intros H Hd. unfold raw_pixel. destruct (_ || _); [discriminate|]. unfold raw_nth, raw_next.
  destruct (raw_load _ _ _ _) as [v'|] eqn:E; cbn [fst]; [|discriminate].
  intros E'. inversion E'; subst v'. eapply raw_load_range; [apply H|exact Hd|exact E].
Qed.

(* ---- what a colour type does to the raw value ----------------------------------------------------------- *)
(* For every built-in colour type C (row t of the generated table) whose Raw has the image's bits per pixel:
   the colour handed to the target is a valid colour of C, and converting it back to raw storage (what the
   correspondence harness observes, `Into::<C::Raw>::into(c).into_inner()`) gives the raw value with the unused
   bits cleared - the raw value itself when C uses all bits of its Raw (every type except Rgb555/Bgr555/Rgb444/
   Bgr444/Rgb666/Bgr666). *)
Theorem typed_pixel_value t img p v :
  In t color_table -> ir_bpp img = bpp t -> img_ok img -> data_ok (ir_data img) ->
  raw_pixel img p = Some v ->
  typed_pixel t img p = Some (from_raw t v) /\
  valid t (from_raw t v) /\
  to_raw t (from_raw t v) = Z.land v (Z.ones (used_bits t)) /\
  (used_bits t = bpp t -> to_raw t (from_raw t v) = v).
Proof.
  intros Ht Hbpp H Hd E. pose proof (raw_pixel_range img p v H Hd E) as Hv. rewrite Hbpp in Hv.
  pose proof (in_table_wf t Ht) as Hwf.
  assert (Hnew : Colormodel.raw_new t v = v) by (rewrite raw_new_mod by exact Hwf; apply Z.mod_small; exact Hv).
  split; [unfold typed_pixel; rewrite E; reflexivity|].
  split; [rewrite <- Hnew at 1; apply c12_from_raw_valid; exact Ht|].
  destruct (c12_raw_idem t Ht v) as (E1 & _). cbv zeta in E1. rewrite Hnew in E1.
  split; [exact E1|]. intros Hu. pose proof (used_le_bpp t Hwf). rewrite E1, Hu, land_ones_mod by lia. apply Z.mod_small. exact Hv.
Qed.
