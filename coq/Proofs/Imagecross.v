(* Image / SubImage parts of the cross-cutting properties C01, C02, C07 (and helpers). *)
From EG Require Import Base.Prelude Base.Lemmas Model.Geometry Proofs.Geometry Model.Imageraw Proofs.Imageraw.
From Coq Require Import ZifyBool FinFun Sorting.Sorted.

Ltac Zify.zify_post_hook ::= Z.to_euclidean_division_equations.
Set Default Timeout 60.

Definition call_area (c : icall) : rect := match c with FillContiguous area _ => area end.
Definition call_colors (c : icall) : list Z := match c with FillContiguous _ cs => cs end.

Lemma image_box_img d o : image_box (Img d o) = R o (d_size d).
Proof. rewrite image_box_eq, padd_zero_l. reflexivity. Qed.

(* ---- the calls of Image::draw ----------------------------------------------------- *)
(* one fill_contiguous over the image's bounding box with the pixels in row-major order (or nothing at all
   for a zero sized SubImage) *)
Theorem image_draw_calls d o :
  d_wf d ->
  (exists cs, image_draw (Img d o) = [FillContiguous (image_box (Img d o)) cs] /\
              map Some cs = map (d_pixel d) (row_major 0 (sw (d_size d)) 0 (sh (d_size d)))) \/
  (image_draw (Img d o) = [] /\ is_zero_sized (image_box (Img d o)) = true).
Proof.
  intros H. unfold image_draw. cbn [im_drawable im_offset].
  destruct (d_draw_spec d H) as [(cs & -> & Hm)|(-> & Hz)].
  - left. exists cs. split; [reflexivity|exact Hm].
  - right. split; [reflexivity|exact Hz].
Qed.

(* ---- C02: everything drawn lies inside bounding_box() ------------------------------- *)
Theorem image_calls_in_bbox d o :
  d_wf d -> Forall (fun c => call_area c = image_box (Img d o)) (image_draw (Img d o)).
Proof.
  intros H. destruct (image_draw_calls d o H) as [(cs & -> & _)|(-> & _)]; repeat constructor.
Qed.

Theorem image_drawn_in_bbox d o bb q :
  d_wf d -> point_ok o ->
  render bb (image_draw (Img d o)) q <> None ->
  contains (image_box (Img d o)) q = true /\ contains bb q = true.
Proof.
  intros H Ho. rewrite image_draw_spec by assumption.
  destruct (contains bb q); cbn [andb]; [|congruence].
  destruct (contains (image_box (Img d o)) q); [auto|congruence].
Qed.

(* and conversely every point of the box (inside the target) is drawn: the box is tight *)
Theorem image_bbox_tight d o bb q :
  d_wf d -> point_ok o ->
  contains (image_box (Img d o)) q = true -> contains bb q = true ->
  render bb (image_draw (Img d o)) q <> None.
Proof.
  intros H Ho Hq Hb. rewrite image_draw_spec by assumption. rewrite Hq, Hb. cbn [andb].
  intros Hn. apply (d_pixel_none_iff d _ H) in Hn.
  rewrite image_box_img in Hq. apply contains_spec in Hq. cbn [tl sz] in Hq.
  assert (contains (d_box d) (psub q o) = true); [|congruence].
  apply origin_box_contains. unfold psub. cbn [px py]. lia.
Qed.

(* ---- C07: translation --------------------------------------------------------------- *)
Theorem image_translate_box i t : image_box (image_translate i t) = translate_rect (image_box i) t.
Proof.
  destruct i as [d o]. unfold image_translate, image_box, translate_rect. cbn [im_drawable im_offset tl sz].
  rewrite padd_assoc. reflexivity.
Qed.

Theorem image_translate_mut_eq i t : image_translate_mut i t = image_translate i t.
Proof. reflexivity. Qed.

Lemma translated_call_compose o t c : translated_call t (translated_call o c) = translated_call (padd o t) c.
Proof. destruct c as [area cs]. unfold translated_call, translate_rect. cbn [tl sz]. rewrite padd_assoc. reflexivity. Qed.

(* call level: the translated image issues the same calls, moved by t (no hypothesis at all) *)
Theorem image_translate_calls i t :
  image_draw (image_translate i t) = map (translated_call t) (image_draw i).
Proof.
  destruct i as [d o]. unfold image_translate, image_draw. cbn [im_drawable im_offset].
  rewrite map_map. apply map_ext. intros c. symmetry. apply translated_call_compose.
Qed.

(* pixel level: on targets whose boxes agree at the two points *)
Theorem image_translate_render i t bb bb' q :
  d_wf (im_drawable i) -> point_ok (im_offset i) -> point_ok (padd (im_offset i) t) ->
  contains bb' (padd q t) = contains bb q ->
  render bb' (image_draw (image_translate i t)) (padd q t) = render bb (image_draw i) q.
Proof.
  destruct i as [d o]. cbn [im_drawable im_offset]. intros H Ho Hot Hbb.
  unfold image_translate. cbn [im_drawable im_offset]. rewrite !image_draw_spec by assumption.
  rewrite !image_box_img, Hbb.
  assert (E : contains (R (padd o t) (d_size d)) (padd q t) = contains (R o (d_size d)) q).
  { apply (contains_translate (R o (d_size d)) t q). }
  rewrite E. replace (psub (padd q t) (padd o t)) with (psub q o); [reflexivity|].
  unfold psub, padd. cbn [px py]. f_equal; lia.
Qed.

Corollary image_translate_render_moved_target i t bb q :
  d_wf (im_drawable i) -> point_ok (im_offset i) -> point_ok (padd (im_offset i) t) ->
  render (translate_rect bb t) (image_draw (image_translate i t)) (padd q t) = render bb (image_draw i) q.
Proof. intros. apply image_translate_render; try assumption. apply contains_translate. Qed.

(* ---- C01: draw_iter-only target (trait default of fill_contiguous) vs native target ------------------ *)
(* core/src/draw_target/mod.rs fill_contiguous default: `self.draw_iter(area.points().zip(colors).map(Pixel))`,
   draw_iter keeps the pixels inside the target's box: this is Model call_writes, read back with last_write *)
Definition default_pix (bb : rect) (c : icall) (q : point) : option Z := last_write q (call_writes bb c).

(* documented meaning, as a native target implements it: the area clipped to the target, the colour of a point
   is the item at its row-major position in the area; a stream that ends early leaves the rest untouched *)
Definition native_pix (bb : rect) (c : icall) (q : point) : option Z :=
  match c with
  | FillContiguous area cs =>
      if contains bb q && contains area q
      then nth_error cs (Z.to_nat ((py q - py (tl area)) * sw (sz area) + (px q - px (tl area))))
      else None
  end.

Lemma nth_error_range_from a n k : (k < n)%nat -> nth_error (range_from a n) k = Some (a + Z.of_nat k).
Proof.
  revert a k. induction n as [|n IH]; intros a k Hk; [lia|].
  destruct k as [|k]; cbn [range_from nth_error]; [f_equal; lia|].
  rewrite IH by lia. f_equal. lia.
Qed.

Lemma nth_error_row_major x0 W : forall (n : nat) y0 H x y,
  0 <= x - x0 < W -> y - y0 = Z.of_nat n -> y - y0 < H ->
  nth_error (row_major x0 (x0 + W) y0 (y0 + H)) (Z.to_nat ((y - y0) * W + (x - x0))) = Some (P x y).
Proof.
  induction n as [|n IH]; intros y0 H x y Hx Hy HH.
  - rewrite (row_major_split x0 (x0 + W) y0 (y0 + 1)) by lia. rewrite row_major_one_row.
    assert (y = y0) by lia. subst y0.
    rewrite nth_error_app1 by (rewrite map_length; apply Nat2Z.inj_lt; rewrite length_range; lia).
    rewrite nth_error_map. unfold range. rewrite nth_error_range_from by lia. cbn [option_map]. f_equal. f_equal. lia.
  - rewrite (row_major_split x0 (x0 + W) y0 (y0 + 1)) by lia. rewrite row_major_one_row.
    assert (Hlen : length (map (fun x1 => P x1 y0) (range x0 (x0 + W))) = Z.to_nat W).
    { rewrite map_length. apply Nat2Z.inj. rewrite length_range. lia. }
    rewrite nth_error_app2 by (rewrite Hlen; nia). rewrite Hlen.
    replace (y0 + H) with ((y0 + 1) + (H - 1)) by lia.
    replace (Z.to_nat ((y - y0) * W + (x - x0)) - Z.to_nat W)%nat with (Z.to_nat ((y - (y0 + 1)) * W + (x - x0))) by nia.
    apply IH; lia.
Qed.

Lemma nth_error_zip {A B} (l : list A) (cs : list B) : forall k,
  nth_error (zip l cs) k =
  match nth_error l k, nth_error cs k with Some a, Some c => Some (a, c) | _, _ => None end.
Proof.
  revert cs. induction l as [|a l IH]; intros cs k.
  - cbn [zip]. destruct k; reflexivity.
  - destruct cs as [|c cs]; cbn [zip].
    + destruct k; cbn [nth_error]; [reflexivity|]. destruct (nth_error l k); reflexivity.
    + destruct k; cbn [nth_error]; [reflexivity|apply IH].
Qed.

Lemma NoDup_map_fst_zip {A B} (l : list A) (cs : list B) : NoDup l -> NoDup (map fst (zip l cs)).
Proof.
  revert cs. induction l as [|a l IH]; intros cs Hnd; [constructor|].
  destruct cs as [|c cs]; [constructor|]. cbn [zip map fst]. inversion Hnd; subst. constructor; [|apply IH; assumption].
  intros Hin. apply in_map_iff in Hin. destruct Hin as ([a' c'] & Ha & Hin). cbn [fst] in Ha. subst a'.
  apply in_zip_l in Hin. contradiction.
Qed.

(* the trait default and the documented (native) meaning of fill_contiguous leave the same pixel map, for every
   area within range, every stream (short, exact or too long) and every target box *)
Theorem fill_contiguous_default_eq_native bb area cs q :
  rect_ok area -> default_pix bb (FillContiguous area cs) q = native_pix bb (FillContiguous area cs) q.
Proof.
  intros Hr. unfold default_pix, native_pix, call_writes.
  rewrite (last_write_filter (contains bb)). destruct (contains bb q); cbn [andb]; [|reflexivity].
  destruct (contains area q) eqn:Ec.
  - assert (Hk : nth_error (points area)
                   (Z.to_nat ((py q - py (tl area)) * sw (sz area) + (px q - px (tl area)))) = Some q).
    { rewrite points_row_major by assumption. apply contains_spec in Ec.
      destruct (is_zero_sized area) eqn:Ez; [exfalso; unfold is_zero_sized in Ez; lia|].
      destruct q as [qx qy]. cbn [px py] in *.
      apply (nth_error_row_major _ _ (Z.to_nat (qy - py (tl area)))); lia. }
    set (k := Z.to_nat _) in *.
    destruct (nth_error cs k) as [c|] eqn:Ecs.
    + apply last_write_unique; [apply NoDup_map_fst_zip, points_nodup; assumption|].
      apply (nth_error_In _ k). rewrite nth_error_zip, Hk, Ecs. reflexivity.
    + apply last_write_none. intros c Hin. apply In_nth_error in Hin. destruct Hin as (k' & Hk').
      rewrite nth_error_zip in Hk'.
      destruct (nth_error (points area) k') as [a|] eqn:E1; [|discriminate].
      destruct (nth_error cs k') as [c'|] eqn:E2; [|discriminate]. inversion Hk'; subst a c'.
      assert (k' = k).
      { apply (proj1 (NoDup_nth_error (points area)) (points_nodup area Hr)); [|congruence].
        apply nth_error_Some. congruence. }
      congruence.
  - apply last_write_none. intros c Hin. apply in_zip_l in Hin. apply points_spec in Hin; [congruence|assumption].
Qed.

Definition render_default (bb : rect) (calls : list icall) (q : point) : option Z := render bb calls q.

(* the pixel map of a call list on a native target: later calls overwrite earlier ones *)
Fixpoint render_native (bb : rect) (calls : list icall) (q : point) : option Z :=
  match calls with
  | [] => None
  | c :: t => match render_native bb t q with Some v => Some v | None => native_pix bb c q end
  end.

Lemma last_write_app q a b :
  last_write q (a ++ b) = match last_write q b with Some v => Some v | None => last_write q a end.
Proof.
  induction a as [|[p c] a IH]; cbn [app last_write]; [destruct (last_write q b); reflexivity|].
  rewrite IH. destruct (last_write q b); reflexivity.
Qed.

Theorem render_default_eq_native bb calls q :
  Forall (fun c => rect_ok (call_area c)) calls ->
  render_default bb calls q = render_native bb calls q.
Proof.
  unfold render_default, render, writes. induction calls as [|c t IH]; intros H; [reflexivity|].
  inversion H as [|? ? Hc Ht]; subst. cbn [flat_map render_native]. rewrite last_write_app, (IH Ht).
  destruct (render_native bb t q); [reflexivity|].
  destruct c as [area cs]. apply (fill_contiguous_default_eq_native bb area cs q Hc).
Qed.

(* images: both kinds of target end up with pixel(q - o) inside the box and nothing else *)
Theorem image_default_eq_native d o bb q :
  d_wf d -> point_ok o ->
  render_default bb (image_draw (Img d o)) q = render_native bb (image_draw (Img d o)) q /\
  render_native bb (image_draw (Img d o)) q =
    (if contains bb q && contains (image_box (Img d o)) q then d_pixel d (psub q o) else None).
Proof.
  intros H Ho.
  assert (E : render_default bb (image_draw (Img d o)) q = render_native bb (image_draw (Img d o)) q).
  { destruct (image_draw_calls d o H) as [(cs & Hc & Hm)|(-> & _)]; [|reflexivity].
    destruct (is_zero_sized (image_box (Img d o))) eqn:Ez.
    - (* an empty area: nothing on either target *)
      rewrite Hc. unfold render_default, render, writes. cbn [flat_map render_native call_writes native_pix].
      unfold points. rewrite Ez. cbn [zip filter app last_write].
      replace (contains (image_box (Img d o)) q) with false; [rewrite andb_false_r; reflexivity|].
      symmetry. destruct (contains (image_box (Img d o)) q) eqn:Ec; [|reflexivity].
      apply contains_spec in Ec. unfold is_zero_sized in Ez. lia.
    - apply render_default_eq_native. rewrite Hc. constructor; [|constructor]. cbn [call_area].
      rewrite image_box_img in *. split; [exact Ho|]. apply d_size_ok; [assumption|exact Ez]. }
  split; [exact E|]. rewrite <- E. apply image_draw_spec; assumption.
Qed.
