(* Lemmas about Model/Imageraw.v (property C09). *)
From EG Require Import Base.Prelude Base.Lemmas Model.Geometry Proofs.Geometry Model.Imageraw.
From Coq Require Import ZifyBool.

Ltac Zify.zify_post_hook ::= Z.to_euclidean_division_equations.
Set Default Timeout 60.

(* ---- ImageRaw::new ------------------------------------------------------- *)
Theorem new_ok_iff bpp alt data s :
  (exists img, raw_new bpp alt data s = inl img) <->
  Z.of_nat (length data) = bytes_per_row (sw s) bpp * sh s.
Proof.
  unfold raw_new. destruct (Z.of_nat (length data) =? _) eqn:E; cbn [negb]; split.
  - intros _. lia.
  - intros _. eexists. reflexivity.
  - intros [img H]. discriminate.
  - intros H. lia.
Qed.

(* ---- the images the theorems speak about ---------------------------------- *)
(* the seven raw widths of core/src/pixelcolor/raw/mod.rs (RawU1 .. RawU32) *)
Definition bpp_ok (bpp : Z) : Prop := In bpp [1; 2; 4; 8; 16; 24; 32].

(* an image as `ImageRaw::new` returns it: data of exactly the required length; extents within 2^29
   (the range in which the unbounded model and the u32/usize arithmetic coincide) *)
Definition img_ok (img : image_raw) : Prop :=
  bpp_ok (ir_bpp img) /\ size_ok (ir_size img) /\
  Z.of_nat (length (ir_data img)) = bytes_per_row (sw (ir_size img)) (ir_bpp img) * sh (ir_size img).

Ltac bpp_cases H :=
  unfold bpp_ok in H; cbn [In] in H;
  destruct H as [H|[H|[H|[H|[H|[H|[H|[]]]]]]]]; symmetry in H.

Lemma raw_new_img_ok bpp alt data s img :
  bpp_ok bpp -> size_ok s -> raw_new bpp alt data s = inl img -> img_ok img.
Proof.
  intros Hb Hs. unfold raw_new. destruct (Z.of_nat (length data) =? _) eqn:E; cbn [negb]; [|discriminate].
  intros H. inversion H; subst. unfold img_ok. cbn [ir_bpp ir_size ir_data]. repeat split; try assumption; try apply Hs. lia.
Qed.

(* number of whole pixels in a buffer *)
Definition pixel_count (bpp : Z) (data : list Z) : Z :=
  if bpp <? 8 then Z.of_nat (length data) * (8 / bpp) else Z.of_nat (length data) / (bpp / 8).

(* evaluate the closed constants that appear once bpp is one of the seven literals *)
Ltac norm_consts :=
  change (8 / 1) with 8 in *; change (8 / 2) with 4 in *; change (8 / 4) with 2 in *;
  change (16 / 8) with 2 in *; change (24 / 8) with 3 in *; change (32 / 8) with 4 in *;
  change (1 <? 8) with true in *; change (2 <? 8) with true in *; change (4 <? 8) with true in *;
  change (8 <? 8) with false in *; change (16 <? 8) with false in *; change (24 <? 8) with false in *;
  change (32 <? 8) with false in *;
  change (8 =? 8) with true in *; change (16 =? 8) with false in *; change (24 =? 8) with false in *;
  change (32 =? 8) with false in *;
  cbv iota in *.

(* the raw iterator does not end before pixel_count items *)
Lemma raw_load_some bpp alt data i :
  bpp_ok bpp -> 0 <= i < pixel_count bpp data -> raw_load bpp alt data i <> None.
Proof.
  intros Hb Hi. unfold raw_load, pixel_count, bit_position, get_byte in *.
  bpp_cases Hb; subst bpp; norm_consts.
  1-3: (match goal with |- context [nth_error ?l ?n] => destruct (nth_error l n) eqn:G end;
        [discriminate| apply nth_error_None in G; exfalso; lia]).
  - match goal with |- context [nth_error ?l ?n] => destruct (nth_error l n) eqn:G end;
        [discriminate| apply nth_error_None in G; exfalso; lia].
  - rewrite skipn_length. destruct (_ <=? _) eqn:E1; [|exfalso; lia]. destruct (_ <=? _) eqn:E2; [discriminate|exfalso; lia].
  - rewrite skipn_length. destruct (_ <=? _) eqn:E1; [|exfalso; lia]. destruct (_ <=? _) eqn:E2; [discriminate|exfalso; lia].
  - rewrite skipn_length. destruct (_ <=? _) eqn:E1; [|exfalso; lia]. destruct (_ <=? _) eqn:E2; [discriminate|exfalso; lia].
Qed.
