(* Lemmas about Model/Imageraw.v (property C09). *)
From EG Require Import Base.Prelude Base.Lemmas Model.Geometry Proofs.Geometry Model.Imageraw.
From Coq Require Import ZifyBool.

Ltac Zify.zify_post_hook ::= Z.to_euclidean_division_equations.
Set Default Timeout 60.

(* ---- ImageRaw::new ------------------------------------------------------- *)
Theorem new_ok_iff bpp alt data s :
  (exists img, raw_new bpp alt data s = inl img) <->
  Z.of_nat (length data) = bytes_per_row (sw s) bpp * sh s.
Proof.
  unfold raw_new. destruct (Z.of_nat (length data) =? _) eqn:E; cbn [negb]; split.
  - intros _. lia.
  - intros _. eexists. reflexivity.
  - intros [img H]. discriminate.
  - intros H. lia.
Qed.

(* ---- the images the theorems speak about ---------------------------------- *)
(* the seven raw widths of core/src/pixelcolor/raw/mod.rs (RawU1 .. RawU32) *)
Definition bpp_ok (bpp : Z) : Prop := In bpp [1; 2; 4; 8; 16; 24; 32].

(* an image as `ImageRaw::new` returns it: data of exactly the required length; extents within 2^29
   (the range in which the unbounded model and the u32/usize arithmetic coincide) *)
Definition img_ok (img : image_raw) : Prop :=
  bpp_ok (ir_bpp img) /\ size_ok (ir_size img) /\
  Z.of_nat (length (ir_data img)) = bytes_per_row (sw (ir_size img)) (ir_bpp img) * sh (ir_size img).

Ltac bpp_cases H :=
  unfold bpp_ok in H; cbn [In] in H;
  destruct H as [H|[H|[H|[H|[H|[H|[H|[]]]]]]]]; symmetry in H.

Lemma raw_new_img_ok bpp alt data s img :
  bpp_ok bpp -> size_ok s -> raw_new bpp alt data s = inl img -> img_ok img.
Proof.
  intros Hb Hs. unfold raw_new. destruct (Z.of_nat (length data) =? _) eqn:E; cbn [negb]; [|discriminate].
  intros H. inversion H; subst. unfold img_ok. cbn [ir_bpp ir_size ir_data]. repeat split; try assumption; try apply Hs. lia.
Qed.

(* number of whole pixels in a buffer *)
Definition pixel_count (bpp : Z) (data : list Z) : Z :=
  if bpp <? 8 then Z.of_nat (length data) * (8 / bpp) else Z.of_nat (length data) / (bpp / 8).

(* evaluate the closed constants that appear once bpp is one of the seven literals *)
Ltac norm_consts :=
  change (8 / 1) with 8 in *; change (8 / 2) with 4 in *; change (8 / 4) with 2 in *;
  change (8 / 8) with 1 in *; change (16 / 8) with 2 in *; change (24 / 8) with 3 in *; change (32 / 8) with 4 in *;
  change (1 <? 8) with true in *; change (2 <? 8) with true in *; change (4 <? 8) with true in *;
  change (8 <? 8) with false in *; change (16 <? 8) with false in *; change (24 <? 8) with false in *;
  change (32 <? 8) with false in *;
  change (8 =? 8) with true in *; change (16 =? 8) with false in *; change (24 =? 8) with false in *;
  change (32 =? 8) with false in *;
  cbv iota in *.

Lemma opt_map_some_iff {A B} (o : option A) (f : A -> B) :
  match o with Some b => Some (f b) | None => None end <> None <-> o <> None.
Proof. destruct o; split; intros H; try discriminate; auto. Qed.

Lemma multi_load_iff {A} (k : Z) (data : list Z) i (f : list Z -> A) :
  0 < k -> 0 <= i ->
  ((if i * k <=? Z.of_nat (length data)
    then (if k <=? Z.of_nat (length (skipn (Z.to_nat (i * k)) data))
          then Some (f (firstn (Z.to_nat k) (skipn (Z.to_nat (i * k)) data))) else None)
    else None) <> None <-> i < Z.of_nat (length data) / k).
Proof.
  intros Hk Hi. rewrite skipn_length.
  assert (0 <= i * k) by nia.
  assert (Hq : i < Z.of_nat (length data) / k <-> (i + 1) * k <= Z.of_nat (length data)).
  { split; intros.
    - assert (i + 1 <= Z.of_nat (length data) / k) by lia.
      pose proof (Z.mul_div_le (Z.of_nat (length data)) k Hk). nia.
    - assert (i + 1 <= Z.of_nat (length data) / k) by (apply Z.div_le_lower_bound; lia). lia. }
  rewrite Hq.
  destruct (i * k <=? _) eqn:E1; [destruct (k <=? _) eqn:E2|];
    (split; [intros C; try (exfalso; apply C; reflexivity); lia | intros; try discriminate; exfalso; lia]).
Qed.

(* the raw iterator yields exactly the first pixel_count items: load succeeds exactly below it *)
Lemma raw_load_some_iff bpp alt data i :
  bpp_ok bpp -> 0 <= i -> (raw_load bpp alt data i <> None <-> i < pixel_count bpp data).
Proof.
  intros Hb Hi. unfold raw_load, pixel_count, bit_position, get_byte in *.
  bpp_cases Hb; subst bpp; norm_consts.
  1-3: rewrite opt_map_some_iff, nth_error_Some;
       match goal with |- context [Z.to_nat (?x / ?k)] => assert (0 <= x / k) by (apply Z.div_pos; lia) end; lia.
  - rewrite nth_error_Some; lia.
  - apply (multi_load_iff 2 data i (fun bytes => if alt then from_be_bytes bytes else from_le_bytes bytes)); lia.
  - apply (multi_load_iff 3 data i (fun bytes => if alt then from_be_bytes bytes else from_le_bytes bytes)); lia.
  - apply (multi_load_iff 4 data i (fun bytes => if alt then from_be_bytes bytes else from_le_bytes bytes)); lia.
Qed.

(* ---- padded row width and the number of items in the data -------------------- *)
Lemma data_width_bounds img :
  img_ok img -> sw (ir_size img) <= data_width img <= sw (ir_size img) + 7.
Proof.
  destruct img as [data [w h] bpp alt]. unfold img_ok, data_width, bytes_per_row, size_ok, bound.
  cbn [ir_bpp ir_size ir_data sw sh]. intros (Hb & Hs & _).
  bpp_cases Hb; subst bpp; norm_consts; lia.
Qed.

Lemma pixel_count_eq img :
  img_ok img -> pixel_count (ir_bpp img) (ir_data img) = data_width img * sh (ir_size img).
Proof.
  destruct img as [data [w h] bpp alt]. unfold img_ok, data_width, pixel_count, bytes_per_row, size_ok, bound.
  cbn [ir_bpp ir_size ir_data sw sh]. intros (Hb & Hs & Hl). rewrite Hl. clear Hl.
  bpp_cases Hb; subst bpp; norm_consts.
  1-3: ring.
  - replace ((w * 8 + 7) / 8) with w by lia. apply Z.div_1_r.
  - replace ((w * 16 + 7) / 8) with (w * 2) by lia. replace (w * 2 * h) with (w * h * 2) by ring. apply Z.div_mul. lia.
  - replace ((w * 24 + 7) / 8) with (w * 3) by lia. replace (w * 3 * h) with (w * h * 3) by ring. apply Z.div_mul. lia.
  - replace ((w * 32 + 7) / 8) with (w * 4) by lia. replace (w * 4 * h) with (w * h * 4) by ring. apply Z.div_mul. lia.
Qed.

(* the value at raw index i (0 where the data has ended; never used there by the theorems) *)
Definition raw_get (img : image_raw) (i : Z) : Z :=
  match raw_load (ir_bpp img) (ir_alt img) (ir_data img) i with Some v => v | None => 0 end.

Definition pcount (img : image_raw) : Z := data_width img * sh (ir_size img).

Lemma raw_load_get img i :
  img_ok img -> 0 <= i < pcount img ->
  raw_load (ir_bpp img) (ir_alt img) (ir_data img) i = Some (raw_get img i).
Proof.
  intros H Hi. unfold raw_get.
  destruct (raw_load _ _ _ i) eqn:E; [reflexivity|].
  exfalso. revert E. apply raw_load_some_iff; [apply H|lia|]. rewrite pixel_count_eq by assumption. apply Hi.
Qed.

Lemma raw_load_none img i :
  img_ok img -> pcount img <= i -> raw_load (ir_bpp img) (ir_alt img) (ir_data img) i = None.
Proof.
  intros H Hi. destruct (raw_load _ _ _ i) eqn:E; [|reflexivity]. exfalso.
  assert (0 <= pcount img).
  { unfold pcount. pose proof (data_width_bounds img H). destruct H as (_ & Hs & _). unfold size_ok in Hs. nia. }
  assert (Hn : raw_load (ir_bpp img) (ir_alt img) (ir_data img) i <> None) by (rewrite E; discriminate).
  apply raw_load_some_iff in Hn; [|apply H|lia]. rewrite pixel_count_eq in Hn by assumption. unfold pcount in *. lia.
Qed.

Lemma raw_next_get img i :
  img_ok img -> 0 <= i < pcount img ->
  raw_next (ir_bpp img) (ir_alt img) (ir_data img) i = (Some (raw_get img i), i + 1).
Proof. intros H Hi. unfold raw_next. rewrite raw_load_get by assumption. reflexivity. Qed.

Lemma pcount_bound img : img_ok img -> 0 <= pcount img < usize_max.
Proof.
  intros H. pose proof (data_width_bounds img H). destruct H as (_ & Hs & _).
  unfold pcount, size_ok, bound, usize_max in *.
  assert (data_width img * sh (ir_size img) <= (536870912 + 7) * 536870912) by nia. nia.
Qed.

Lemma sat_add_usize_small a b : 0 <= a -> 0 <= b -> a + b <= usize_max -> sat_add_usize a b = a + b.
Proof. intros. unfold sat_add_usize. lia. Qed.

(* ---- pixel() ---------------------------------------------------------------- *)
Lemma origin_box_contains s p :
  contains (origin_box s) p = true <-> 0 <= px p < sw s /\ 0 <= py p < sh s.
Proof. rewrite contains_spec. unfold origin_box. cbn [tl sz px py]. lia. Qed.

Lemma index_in_range img x y :
  img_ok img -> 0 <= x < sw (ir_size img) -> 0 <= y < sh (ir_size img) ->
  0 <= y * data_width img + x < pcount img.
Proof.
  intros H Hx Hy. pose proof (data_width_bounds img H). unfold pcount. nia.
Qed.

Lemma raw_pixel_inside img p :
  img_ok img -> contains (origin_box (ir_size img)) p = true ->
  raw_pixel img p = Some (raw_get img (py p * data_width img + px p)).
Proof.
  intros H Hc. apply origin_box_contains in Hc. destruct Hc as [Hx Hy].
  pose proof (index_in_range img _ _ H Hx Hy) as Hi. pose proof (pcount_bound img H).
  unfold raw_pixel.
  destruct (_ || _) eqn:E; [exfalso; lia|].
  unfold raw_nth. rewrite sat_add_usize_small by lia.
  replace (0 + (px p + py p * data_width img)) with (py p * data_width img + px p) by lia.
  rewrite raw_next_get by assumption. reflexivity.
Qed.

Lemma raw_pixel_outside img p :
  contains (origin_box (ir_size img)) p = false -> raw_pixel img p = None.
Proof.
  intros Hc. unfold raw_pixel. destruct (_ || _) eqn:E; [reflexivity|]. exfalso.
  assert (contains (origin_box (ir_size img)) p = true) by (apply origin_box_contains; lia). congruence.
Qed.

Theorem pixel_none_iff img p :
  img_ok img -> (raw_pixel img p = None <-> contains (origin_box (ir_size img)) p = false).
Proof.
  intros H. split.
  - intros E. destruct (contains _ p) eqn:C; [|reflexivity]. rewrite raw_pixel_inside in E by assumption. discriminate.
  - apply raw_pixel_outside.
Qed.

(* row padding, index form: pixel (x,y) is item number y * data_width + x of the raw iterator, where
   data_width is the row length in pixels including the padding up to a whole byte *)
Theorem pixel_layout img x y :
  img_ok img -> 0 <= x < sw (ir_size img) -> 0 <= y < sh (ir_size img) ->
  raw_pixel img (P x y) = raw_load (ir_bpp img) (ir_alt img) (ir_data img) (y * data_width img + x) /\
  raw_pixel img (P x y) <> None /\
  data_width img * ir_bpp img = 8 * bytes_per_row (sw (ir_size img)) (ir_bpp img).
Proof.
  intros H Hx Hy. assert (Hc : contains (origin_box (ir_size img)) (P x y) = true) by (apply origin_box_contains; cbn [px py]; lia).
  rewrite raw_pixel_inside by assumption. cbn [px py].
  rewrite raw_load_get by (try assumption; apply index_in_range; assumption).
  split; [reflexivity|]. split; [discriminate|].
  destruct img as [data [w h] bpp alt]. unfold img_ok, data_width, bytes_per_row in *.
  cbn [ir_bpp ir_size ir_data sw sh] in *. destruct H as (Hb & _ & _).
  bpp_cases Hb; subst bpp; norm_consts; lia.
Qed.
