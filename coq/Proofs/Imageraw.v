(* Lemmas about Model/Imageraw.v (property C09). *)
From EG Require Import Base.Prelude Base.Lemmas Model.Geometry Proofs.Geometry Model.Imageraw.
From Coq Require Import ZifyBool FinFun Sorting.Sorted.

Ltac Zify.zify_post_hook ::= Z.to_euclidean_division_equations.
Set Default Timeout 60.

(* ---- ImageRaw::new ------------------------------------------------------- *)
Theorem new_ok_iff bpp alt data s :
  (exists img, raw_new bpp alt data s = inl img) <->
  Z.of_nat (length data) = bytes_per_row (sw s) bpp * sh s.
Proof.
  unfold raw_new. destruct (Z.of_nat (length data) =? _) eqn:E; cbn [negb]; split.
  - intros _. lia.
  - intros _. eexists. reflexivity.
  - intros [img H]. discriminate.
  - intros H. lia.
Qed.

(* ---- the images the theorems speak about ---------------------------------- *)
(* the seven raw widths of core/src/pixelcolor/raw/mod.rs (RawU1 .. RawU32) *)
Definition bpp_ok (bpp : Z) : Prop := In bpp [1; 2; 4; 8; 16; 24; 32].

(* an image as `ImageRaw::new` returns it: data of exactly the required length; extents within 2^29
   (the range in which the unbounded model and the u32/usize arithmetic coincide) *)
Definition img_ok (img : image_raw) : Prop :=
  bpp_ok (ir_bpp img) /\ size_ok (ir_size img) /\
  Z.of_nat (length (ir_data img)) = bytes_per_row (sw (ir_size img)) (ir_bpp img) * sh (ir_size img).

Ltac bpp_cases H :=
  unfold bpp_ok in H; cbn [In] in H;
  destruct H as [H|[H|[H|[H|[H|[H|[H|[]]]]]]]]; symmetry in H.

Lemma raw_new_img_ok bpp alt data s img :
  bpp_ok bpp -> size_ok s -> raw_new bpp alt data s = inl img -> img_ok img.
Proof.
  intros Hb Hs. unfold raw_new. destruct (Z.of_nat (length data) =? _) eqn:E; cbn [negb]; [|discriminate].
  intros H. inversion H; subst. unfold img_ok. cbn [ir_bpp ir_size ir_data]. repeat split; try assumption; try apply Hs. lia.
Qed.

(* number of whole pixels in a buffer *)
Definition pixel_count (bpp : Z) (data : list Z) : Z :=
  if bpp <? 8 then Z.of_nat (length data) * (8 / bpp) else Z.of_nat (length data) / (bpp / 8).

(* evaluate the closed constants that appear once bpp is one of the seven literals *)
Ltac norm_consts :=
  change (8 / 1) with 8 in *; change (8 / 2) with 4 in *; change (8 / 4) with 2 in *;
  change (8 / 8) with 1 in *; change (16 / 8) with 2 in *; change (24 / 8) with 3 in *; change (32 / 8) with 4 in *;
  change (1 <? 8) with true in *; change (2 <? 8) with true in *; change (4 <? 8) with true in *;
  change (8 <? 8) with false in *; change (16 <? 8) with false in *; change (24 <? 8) with false in *;
  change (32 <? 8) with false in *;
  change (8 =? 8) with true in *; change (16 =? 8) with false in *; change (24 =? 8) with false in *;
  change (32 =? 8) with false in *;
  cbv iota in *.

Lemma opt_map_some_iff {A B} (o : option A) (f : A -> B) :
  match o with Some b => Some (f b) | None => None end <> None <-> o <> None.
Proof. destruct o; split; intros H; try discriminate; auto. Qed.

Lemma multi_load_iff {A} (k : Z) (data : list Z) i (f : list Z -> A) :
  0 < k -> 0 <= i ->
  ((if i * k <=? Z.of_nat (length data)
    then (if k <=? Z.of_nat (length (skipn (Z.to_nat (i * k)) data))
          then Some (f (firstn (Z.to_nat k) (skipn (Z.to_nat (i * k)) data))) else None)
    else None) <> None <-> i < Z.of_nat (length data) / k).
Proof.
  intros Hk Hi. rewrite skipn_length.
  assert (0 <= i * k) by nia.
  assert (Hq : i < Z.of_nat (length data) / k <-> (i + 1) * k <= Z.of_nat (length data)).
  { split; intros.
    - assert (i + 1 <= Z.of_nat (length data) / k) by lia.
      pose proof (Z.mul_div_le (Z.of_nat (length data)) k Hk). nia.
    - assert (i + 1 <= Z.of_nat (length data) / k) by (apply Z.div_le_lower_bound; lia). lia. }
  rewrite Hq.
  destruct (i * k <=? _) eqn:E1; [destruct (k <=? _) eqn:E2|];
    (split; [intros C; try (exfalso; apply C; reflexivity); lia | intros; try discriminate; exfalso; lia]).
Qed.

(* the raw iterator yields exactly the first pixel_count items: load succeeds exactly below it *)
Lemma raw_load_some_iff bpp alt data i :
  bpp_ok bpp -> 0 <= i -> (raw_load bpp alt data i <> None <-> i < pixel_count bpp data).
Proof.
  intros Hb Hi. unfold raw_load, pixel_count, bit_position, get_byte in *.
  bpp_cases Hb; subst bpp; norm_consts.
  1-3: rewrite opt_map_some_iff, nth_error_Some;
       match goal with |- context [Z.to_nat (?x / ?k)] => assert (0 <= x / k) by (apply Z.div_pos; lia) end; lia.
  - rewrite nth_error_Some; lia.
  - apply (multi_load_iff 2 data i (fun bytes => if alt then from_be_bytes bytes else from_le_bytes bytes)); lia.
  - apply (multi_load_iff 3 data i (fun bytes => if alt then from_be_bytes bytes else from_le_bytes bytes)); lia.
  - apply (multi_load_iff 4 data i (fun bytes => if alt then from_be_bytes bytes else from_le_bytes bytes)); lia.
Qed.

(* ---- padded row width and the number of items in the data -------------------- *)
Lemma data_width_bounds img :
  img_ok img -> sw (ir_size img) <= data_width img <= sw (ir_size img) + 7.
Proof.
  destruct img as [data [w h] bpp alt]. unfold img_ok, data_width, bytes_per_row, size_ok, bound.
  cbn [ir_bpp ir_size ir_data sw sh]. intros (Hb & Hs & _).
  bpp_cases Hb; subst bpp; norm_consts; lia.
Qed.

Lemma pixel_count_eq img :
  img_ok img -> pixel_count (ir_bpp img) (ir_data img) = data_width img * sh (ir_size img).
Proof.
  destruct img as [data [w h] bpp alt]. unfold img_ok, data_width, pixel_count, bytes_per_row, size_ok, bound.
  cbn [ir_bpp ir_size ir_data sw sh]. intros (Hb & Hs & Hl). rewrite Hl. clear Hl.
  bpp_cases Hb; subst bpp; norm_consts.
  1-3: ring.
  - replace ((w * 8 + 7) / 8) with w by lia. apply Z.div_1_r.
  - replace ((w * 16 + 7) / 8) with (w * 2) by lia. replace (w * 2 * h) with (w * h * 2) by ring. apply Z.div_mul. lia.
  - replace ((w * 24 + 7) / 8) with (w * 3) by lia. replace (w * 3 * h) with (w * h * 3) by ring. apply Z.div_mul. lia.
  - replace ((w * 32 + 7) / 8) with (w * 4) by lia. replace (w * 4 * h) with (w * h * 4) by ring. apply Z.div_mul. lia.
Qed.

(* the value at raw index i (0 where the data has ended; never used there by the theorems) *)
Definition raw_get (img : image_raw) (i : Z) : Z :=
  match raw_load (ir_bpp img) (ir_alt img) (ir_data img) i with Some v => v | None => 0 end.

Definition pcount (img : image_raw) : Z := data_width img * sh (ir_size img).

Lemma raw_load_get img i :
  img_ok img -> 0 <= i < pcount img ->
  raw_load (ir_bpp img) (ir_alt img) (ir_data img) i = Some (raw_get img i).
Proof.
  intros H Hi. unfold raw_get.
  destruct (raw_load _ _ _ i) eqn:E; [reflexivity|].
  exfalso. revert E. apply raw_load_some_iff; [apply H|lia|]. rewrite pixel_count_eq by assumption. apply Hi.
Qed.

Lemma raw_load_none img i :
  img_ok img -> pcount img <= i -> raw_load (ir_bpp img) (ir_alt img) (ir_data img) i = None.
Proof.
  intros H Hi. destruct (raw_load _ _ _ i) eqn:E; [|reflexivity]. exfalso.
  assert (0 <= pcount img).
  { unfold pcount. pose proof (data_width_bounds img H). destruct H as (_ & Hs & _). unfold size_ok in Hs. nia. }
  assert (Hn : raw_load (ir_bpp img) (ir_alt img) (ir_data img) i <> None) by (rewrite E; discriminate).
  apply raw_load_some_iff in Hn; [|apply H|lia]. rewrite pixel_count_eq in Hn by assumption. unfold pcount in *. lia.
Qed.

Lemma raw_next_get img i :
  img_ok img -> 0 <= i < pcount img ->
  raw_next (ir_bpp img) (ir_alt img) (ir_data img) i = (Some (raw_get img i), i + 1).
Proof. intros H Hi. unfold raw_next. rewrite raw_load_get by assumption. reflexivity. Qed.

Lemma pcount_bound img : img_ok img -> 0 <= pcount img < usize_max.
Proof.
  intros H. pose proof (data_width_bounds img H). destruct H as (_ & Hs & _).
  unfold pcount, size_ok, bound, usize_max in *.
  assert (data_width img * sh (ir_size img) <= (536870912 + 7) * 536870912) by nia. nia.
Qed.

Lemma sat_add_usize_small a b : 0 <= a -> 0 <= b -> a + b <= usize_max -> sat_add_usize a b = a + b.
Proof. intros. unfold sat_add_usize. lia. Qed.

(* ---- pixel() ---------------------------------------------------------------- *)
Lemma origin_box_contains s p :
  contains (origin_box s) p = true <-> 0 <= px p < sw s /\ 0 <= py p < sh s.
Proof. rewrite contains_spec. unfold origin_box. cbn [tl sz px py]. lia. Qed.

Lemma index_in_range img x y :
  img_ok img -> 0 <= x < sw (ir_size img) -> 0 <= y < sh (ir_size img) ->
  0 <= y * data_width img + x < pcount img.
Proof.
  intros H Hx Hy. pose proof (data_width_bounds img H). unfold pcount. nia.
Qed.

Lemma raw_pixel_inside img p :
  img_ok img -> contains (origin_box (ir_size img)) p = true ->
  raw_pixel img p = Some (raw_get img (py p * data_width img + px p)).
Proof.
  intros H Hc. apply origin_box_contains in Hc. destruct Hc as [Hx Hy].
  pose proof (index_in_range img _ _ H Hx Hy) as Hi. pose proof (pcount_bound img H).
  unfold raw_pixel.
  destruct (_ || _) eqn:E; [exfalso; lia|].
  unfold raw_nth. rewrite sat_add_usize_small by lia.
  replace (0 + (px p + py p * data_width img)) with (py p * data_width img + px p) by lia.
  rewrite raw_next_get by assumption. reflexivity.
Qed.

Lemma raw_pixel_outside img p :
  contains (origin_box (ir_size img)) p = false -> raw_pixel img p = None.
Proof.
  intros Hc. unfold raw_pixel. destruct (_ || _) eqn:E; [reflexivity|]. exfalso.
  assert (contains (origin_box (ir_size img)) p = true) by (apply origin_box_contains; lia). congruence.
Qed.

Theorem pixel_none_iff img p :
  img_ok img -> (raw_pixel img p = None <-> contains (origin_box (ir_size img)) p = false).
Proof.
  intros H. split.
  - intros E. destruct (contains _ p) eqn:C; [|reflexivity]. rewrite raw_pixel_inside in E by assumption. discriminate.
  - apply raw_pixel_outside.
Qed.

(* row padding, index form: pixel (x,y) is item number y * data_width + x of the raw iterator, where
   data_width is the row length in pixels including the padding up to a whole byte *)
Theorem pixel_layout img x y :
  img_ok img -> 0 <= x < sw (ir_size img) -> 0 <= y < sh (ir_size img) ->
  raw_pixel img (P x y) = raw_load (ir_bpp img) (ir_alt img) (ir_data img) (y * data_width img + x) /\
  raw_pixel img (P x y) <> None /\
  data_width img * ir_bpp img = 8 * bytes_per_row (sw (ir_size img)) (ir_bpp img).
Proof.
  intros H Hx Hy. assert (Hc : contains (origin_box (ir_size img)) (P x y) = true) by (apply origin_box_contains; cbn [px py]; lia).
  rewrite raw_pixel_inside by assumption. cbn [px py].
  rewrite raw_load_get by (try assumption; apply index_in_range; assumption).
  split; [reflexivity|]. split; [discriminate|].
  destruct img as [data [w h] bpp alt]. unfold img_ok, data_width, bytes_per_row in *.
  cbn [ir_bpp ir_size ir_data sw sh] in *. destruct H as (Hb & _ & _).
  bpp_cases Hb; subst bpp; norm_consts; lia.
Qed.

(* ---- ContiguousPixels ------------------------------------------------------- *)

(* one row: remaining_x = n items are taken with iter.next() *)
Lemma cp_run_row img n : forall fuel idx W ry skip,
  img_ok img -> 0 <= idx -> idx + Z.of_nat n <= pcount img ->
  cp_run (n + fuel) img (CP idx (Z.of_nat n) W ry skip) =
  match cp_run fuel img (CP (idx + Z.of_nat n) 0 W ry skip) with
  | Some l => Some (map (raw_get img) (range_from idx n) ++ l)
  | None => None
  end.
Proof.
  induction n as [|n IH]; intros fuel idx W ry skip H Hi Hn.
  - cbn [Nat.add range_from map app]. replace (idx + Z.of_nat 0) with idx by lia.
    change (Z.of_nat 0) with 0. destruct (cp_run fuel img _); reflexivity.
  - cbn [Nat.add cp_run]. unfold cp_next. cbn [cp_rx cp_index cp_width cp_ry cp_row_skip].
    destruct (0 <? Z.of_nat (Datatypes.S n)) eqn:E; [|exfalso; lia].
    rewrite raw_next_get by (try assumption; lia).
    replace (Z.of_nat (Datatypes.S n) - 1) with (Z.of_nat n) by lia.
    rewrite IH by (try assumption; lia).
    replace (idx + 1 + Z.of_nat n) with (idx + Z.of_nat (Datatypes.S n)) by lia.
    destruct (cp_run fuel img _); reflexivity.
Qed.

(* the rows after the first: each starts with iter.nth(row_skip), then width - 1 times next() *)
Fixpoint rows_list (img : image_raw) (idx W skip : Z) (n : nat) : list Z :=
  match n with
  | O => []
  | Datatypes.S k => map (raw_get img) (range_from (idx + skip) (Z.to_nat W)) ++ rows_list img (idx + skip + W) W skip k
  end.

Lemma cp_run_rows img W skip : forall n fuel idx,
  img_ok img -> 1 <= W -> 0 <= skip -> 0 <= idx ->
  idx + Z.of_nat n * (skip + W) <= pcount img ->
  (1 + n * Z.to_nat W <= fuel)%nat ->
  cp_run fuel img (CP idx 0 W (Z.of_nat n) skip) = Some (rows_list img idx W skip n).
Proof.
  induction n as [|n IH]; intros fuel idx H HW Hs Hi Hn Hf.
  - destruct fuel as [|fuel]; [lia|]. reflexivity.
  - destruct fuel as [|fuel]; [lia|].
    pose proof (pcount_bound img H) as Hpb.
    cbn [cp_run]. unfold cp_next. cbn [cp_rx cp_index cp_width cp_ry cp_row_skip].
    change (0 <? 0) with false. cbv iota.
    destruct (Z.of_nat (Datatypes.S n) =? 0) eqn:E; [exfalso; lia|].
    unfold raw_nth. rewrite sat_add_usize_small by nia.
    rewrite raw_next_get by (try assumption; nia).
    replace (Z.of_nat (Datatypes.S n) - 1) with (Z.of_nat n) by lia.
    set (m := Z.to_nat (W - 1)). assert (Hm : Z.of_nat m = W - 1) by (subst m; lia).
    replace fuel with (m + (fuel - m))%nat by nia.
    rewrite <- Hm.
    rewrite cp_run_row by (try assumption; nia).
    replace (idx + skip + 1 + Z.of_nat m) with (idx + skip + W) by lia.
    rewrite IH by (try assumption; nia).
    cbn [rows_list]. replace (Z.to_nat W) with (Datatypes.S m) by lia.
    cbn [range_from map app]. reflexivity.
Qed.

Lemma range_from_shift a n : range_from a n = map (fun x => a + x) (range_from 0 n).
Proof.
  revert a. induction n as [|n IH]; intros a; cbn [range_from map]; [reflexivity|].
  f_equal; [lia|]. rewrite (IH (a + 1)), (IH (0 + 1)), map_map. apply map_ext. intros; lia.
Qed.

Lemma map_row_major {A} (F : point -> A) x0 x1 y0 y1 :
  map F (row_major x0 x1 y0 y1) = flat_map (fun y => map (fun x => F (P x y)) (range x0 x1)) (range y0 y1).
Proof.
  unfold row_major. induction (range y0 y1) as [|y l IH]; cbn [flat_map map]; [reflexivity|].
  rewrite map_app, map_map, IH. reflexivity.
Qed.

Lemma row_major_split x0 x1 y0 ym y1 :
  y0 <= ym <= y1 -> row_major x0 x1 y0 y1 = row_major x0 x1 y0 ym ++ row_major x0 x1 ym y1.
Proof. intros H. unfold row_major. rewrite (range_app y0 ym y1) by assumption. apply flat_map_app. Qed.

Lemma row_major_one_row x0 x1 y : row_major x0 x1 y (y + 1) = map (fun x => P x y) (range x0 x1).
Proof.
  unfold row_major. rewrite (range_cons y (y + 1)) by lia. rewrite (range_nil (y + 1) (y + 1)) by lia.
  cbn [flat_map]. apply app_nil_r.
Qed.

(* rows_list as a map over the row-major grid: row y (counted from y0) starts at base + skip + y * (skip + W) *)
Lemma rows_list_grid img W skip base : forall n y0,
  0 <= W ->
  rows_list img (base + y0 * (skip + W)) W skip n =
  map (fun p => raw_get img (base + skip + py p * (skip + W) + px p)) (row_major 0 W y0 (y0 + Z.of_nat n)).
Proof.
  induction n as [|n IH]; intros y0 HW.
  - cbn [rows_list]. unfold row_major. rewrite (range_nil y0) by lia. reflexivity.
  - cbn [rows_list]. rewrite (row_major_split 0 W y0 (y0 + 1)) by lia. rewrite map_app. f_equal.
    + rewrite row_major_one_row, map_map. cbn [px py]. rewrite range_from_shift, map_map.
      unfold range. replace (W - 0) with W by lia. apply map_ext. intros; f_equal; lia.
    + replace (base + y0 * (skip + W) + skip + W) with (base + (y0 + 1) * (skip + W)) by lia.
      rewrite IH by assumption. replace (y0 + 1 + Z.of_nat n) with (y0 + Z.of_nat (Datatypes.S n)) by lia.
      reflexivity.
Qed.

(* the colours of the area (ax, ay, aw x ah) of the image, row by row *)
Definition area_stream (img : image_raw) (ax ay aw ah : Z) : list Z :=
  map (fun p => raw_get img ((ay + py p) * data_width img + (ax + px p))) (row_major 0 aw 0 ah).

Lemma cp_list_area img ax ay aw ah isk :
  img_ok img -> 0 <= ax -> 0 <= ay -> 0 < aw -> 0 < ah ->
  ax + aw <= sw (ir_size img) -> ay + ah <= sh (ir_size img) ->
  isk = ay * data_width img + ax ->
  cp_list img (cp_new img (S aw ah) isk (data_width img - aw)) = area_stream img ax ay aw ah.
Proof.
  intros H Hax Hay Haw Hah Hx Hy ->.
  pose proof (data_width_bounds img H) as Hdw. pose proof (pcount_bound img H) as Hpb.
  set (dw := data_width img) in *. set (isk := ay * dw + ax).
  assert (Hisk : 0 <= isk < pcount img) by (subst isk; apply index_in_range; [assumption|lia|lia]).
  assert (Hlast : isk + aw + (ah - 1) * dw <= pcount img) by (unfold pcount; fold dw; subst isk; nia).
  assert (Hidx : (if 0 <? isk
                  then snd (raw_nth (ir_bpp img) (ir_alt img) (ir_data img) 0 (isk - 1)) else 0) = isk).
  { destruct (0 <? isk) eqn:E; [|lia]. unfold raw_nth. rewrite sat_add_usize_small by lia.
    rewrite raw_next_get by (try assumption; lia). cbn [snd]. lia. }
  unfold cp_new. rewrite Hidx. cbn [sw sh].
  destruct (0 <? ah) eqn:E1; [|exfalso; lia]. destruct (0 <? aw) eqn:E2; [|exfalso; lia].
  unfold sat_sub_u32. rewrite Z.max_l by lia.
  unfold cp_list, cp_fuel. cbn [cp_rx cp_ry cp_width].
  set (n := Z.to_nat aw). set (m := Z.to_nat (ah - 1)).
  assert (Hn : Z.of_nat n = aw) by (subst n; lia). assert (Hm : Z.of_nat m = ah - 1) by (subst m; lia).
  replace (Datatypes.S (Z.to_nat (Z.max 0 aw + Z.max 0 (ah - 1) * Z.max 0 aw)))
    with (n + (1 + m * n))%nat by nia.
  transitivity (match cp_run (n + (1 + m * n)) img (CP isk (Z.of_nat n) aw (Z.of_nat m) (dw - aw)) with
                | Some l => l | None => [] end); [rewrite Hn, Hm; reflexivity|].
  assert (0 <= (ah - 1) * dw) by nia.
  rewrite cp_run_row by (try assumption; lia).
  rewrite Hn.
  rewrite cp_run_rows by (try assumption; try lia; subst n; try lia; nia).
  unfold area_stream. rewrite (row_major_split 0 aw 0 1 ah) by lia. rewrite map_app. f_equal.
  - change 1 with (0 + 1) at 1. rewrite row_major_one_row, map_map. cbn [px py].
    rewrite range_from_shift, map_map. unfold range. replace (aw - 0) with aw by lia.
    apply map_ext. intros; f_equal. subst isk. fold dw. lia.
  - replace (isk + aw) with ((isk + aw - dw) + 1 * (dw - aw + aw)) by lia.
    rewrite rows_list_grid by lia. replace (1 + Z.of_nat m) with ah by lia.
    apply map_ext. intros p. f_equal. subst isk. fold dw. lia.
Qed.

Lemma row_major_empty x0 x1 y0 y1 : x1 <= x0 \/ y1 <= y0 -> row_major x0 x1 y0 y1 = [].
Proof.
  intros H. apply length_zero_iff_nil. apply Nat2Z.inj. rewrite length_row_major. lia.
Qed.

(* ---- draw / draw_sub_image of ImageRaw -------------------------------------- *)
(* the area is not zero sized and lies inside a drawable of size s *)
Definition inside (s : size) (a : rect) : Prop :=
  0 < sw (sz a) /\ 0 < sh (sz a) /\ 0 <= px (tl a) /\ 0 <= py (tl a) /\
  px (tl a) + sw (sz a) <= sw s /\ py (tl a) + sh (sz a) <= sh s.

Lemma raw_draw_sub_image_inside img a :
  img_ok img -> inside (ir_size img) a ->
  raw_draw_sub_image img a =
  [FillContiguous (origin_box (sz a)) (area_stream img (px (tl a)) (py (tl a)) (sw (sz a)) (sh (sz a)))].
Proof.
  intros H (Hw & Hh & Hx & Hy & Hxw & Hyh). unfold raw_draw_sub_image.
  destruct (_ || _) eqn:E; [exfalso; unfold is_zero_sized in E; lia|].
  destruct a as [[ax ay] [aw ah]]. cbn [tl sz px py sw sh] in *.
  rewrite (cp_list_area img ax ay aw ah) by (try assumption; reflexivity). reflexivity.
Qed.

Lemma raw_draw_sub_image_zero img a : is_zero_sized a = true -> raw_draw_sub_image img a = [].
Proof. intros H. unfold raw_draw_sub_image. rewrite H. reflexivity. Qed.

Lemma raw_draw_eq img :
  img_ok img ->
  raw_draw img =
  [FillContiguous (origin_box (ir_size img)) (area_stream img 0 0 (sw (ir_size img)) (sh (ir_size img)))].
Proof.
  intros H. unfold raw_draw. f_equal. f_equal.
  destruct (Z_lt_le_dec 0 (sw (ir_size img))) as [Hw|Hw]; destruct (Z_lt_le_dec 0 (sh (ir_size img))) as [Hh|Hh].
  - destruct (ir_size img) as [w h] eqn:Es. cbn [sw sh] in *.
    apply cp_list_area; try assumption; try lia; rewrite Es; cbn [sw sh]; lia.
  - unfold area_stream. rewrite row_major_empty by lia. cbn [map].
    assert (sh (ir_size img) = 0) by (destruct H as (_ & Hs & _); unfold size_ok in Hs; lia).
    unfold cp_new, cp_list, cp_fuel. rewrite H0. change (0 <? 0) with false. cbv iota.
    cbn [cp_rx cp_ry cp_width]. destruct (0 <? sw (ir_size img)); reflexivity.
  - unfold area_stream. rewrite row_major_empty by lia. cbn [map].
    assert (sw (ir_size img) = 0) by (destruct H as (_ & Hs & _); unfold size_ok in Hs; lia).
    unfold cp_new, cp_list, cp_fuel. rewrite H0. change (0 <? 0) with false. cbv iota.
    cbn [cp_rx cp_ry cp_width]. destruct (0 <? sh (ir_size img)); reflexivity.
  - unfold area_stream. rewrite row_major_empty by lia. cbn [map].
    assert (sw (ir_size img) = 0) by (destruct H as (_ & Hs & _); unfold size_ok in Hs; lia).
    unfold cp_new, cp_list, cp_fuel. rewrite H0. change (0 <? 0) with false. cbv iota.
    cbn [cp_rx cp_ry cp_width]. destruct (0 <? sh (ir_size img)); reflexivity.
Qed.

(* ---- drawables: ImageRaw and SubImages of it, nested to any depth ------------------ *)
(* what SubImage::new can produce (see sub_image_wf below): a zero sized area, or an area inside the parent *)
Definition sub_wf (ps : size) (a : rect) : Prop :=
  size_nonneg a /\ (is_zero_sized a = true \/ inside ps a).

Fixpoint d_wf (d : drawable) : Prop :=
  match d with
  | Raw img => img_ok img
  | Sub parent a => d_wf parent /\ sub_wf (d_size parent) a
  end.

(* the pixel a drawable shows at p (relative to its own top left corner): specification side of SubImage,
   which has no pixel() of its own; for ImageRaw it is the real pixel() *)
Fixpoint d_pixel (d : drawable) (p : point) : option Z :=
  match d with
  | Raw img => raw_pixel img p
  | Sub parent a => if contains (origin_box (sz a)) p then d_pixel parent (padd p (tl a)) else None
  end.

Lemma d_size_nonneg d : d_wf d -> 0 <= sw (d_size d) /\ 0 <= sh (d_size d).
Proof.
  destruct d as [img|parent a]; cbn [d_wf d_size].
  - intros (_ & Hs & _). unfold size_ok in Hs. lia.
  - intros (_ & Hn & _). exact Hn.
Qed.

Lemma d_size_ok d : d_wf d -> is_zero_sized (d_box d) = false -> size_ok (d_size d).
Proof.
  induction d as [img|parent IH a]; cbn [d_wf d_size]; intros H Hz.
  - apply H.
  - destruct H as (Hp & Hn & [Hzero|Hin]).
    + unfold d_box, origin_box, is_zero_sized in *. cbn [d_size sz] in Hz. congruence.
    + destruct Hin as (Hw & Hh & Hx & Hy & Hxw & Hyh).
      assert (size_ok (d_size parent)) as Hs.
      { apply IH; [assumption|]. unfold d_box, origin_box, is_zero_sized. cbn [sz]. lia. }
      unfold size_ok in *. lia.
Qed.

Lemma d_draw_sub_image_zero d : forall a, is_zero_sized a = true -> d_draw_sub_image d a = [].
Proof.
  induction d as [img|parent IH a0]; intros a Hz; cbn [d_draw_sub_image].
  - apply raw_draw_sub_image_zero; assumption.
  - apply IH. exact Hz.
Qed.

Lemma padd_assoc p a b : padd (padd p a) b = padd p (padd a b).
Proof. unfold padd. cbn [px py]. f_equal; lia. Qed.

Lemma d_draw_sub_image_inside d : forall a,
  d_wf d -> inside (d_size d) a ->
  exists cs, d_draw_sub_image d a = [FillContiguous (origin_box (sz a)) cs] /\
             map Some cs = map (fun p => d_pixel d (padd p (tl a))) (row_major 0 (sw (sz a)) 0 (sh (sz a))).
Proof.
  induction d as [img|parent IH a0]; intros a H Hin; cbn [d_draw_sub_image d_wf d_size] in *.
  - eexists. split; [apply raw_draw_sub_image_inside; assumption|].
    unfold area_stream. rewrite map_map. apply map_ext_in. intros p Hp. apply In_row_major in Hp.
    destruct Hin as (Hw & Hh & Hx & Hy & Hxw & Hyh).
    cbn [d_pixel]. rewrite raw_pixel_inside; [|assumption|apply origin_box_contains; unfold padd; cbn [px py]; lia].
    f_equal. f_equal. unfold padd. cbn [px py]. lia.
  - destruct H as (Hp & Hn & Hsub).
    destruct Hin as (Hw & Hh & Hx & Hy & Hxw & Hyh).
    destruct Hsub as [Hzero|Hin0]; [exfalso; unfold is_zero_sized in Hzero; lia|].
    destruct Hin0 as (Hw0 & Hh0 & Hx0 & Hy0 & Hxw0 & Hyh0).
    destruct (IH (translate_rect a (tl a0)) Hp) as (cs & Hd & Hm).
    { unfold inside, translate_rect, padd. cbn [tl sz px py]. lia. }
    exists cs. split; [exact Hd|]. rewrite Hm. apply map_ext_in. intros p Hq. apply In_row_major in Hq.
    cbn [translate_rect tl sz] in Hq |- *. cbn [d_pixel].
    replace (contains (origin_box (sz a0)) (padd p (tl a))) with true
      by (symmetry; apply origin_box_contains; unfold padd; cbn [px py]; lia).
    rewrite padd_assoc. reflexivity.
Qed.

(* the one call a drawable's draw() makes; none for a zero sized SubImage *)
Theorem d_draw_spec d :
  d_wf d ->
  (exists cs, d_draw d = [FillContiguous (d_box d) cs] /\
              map Some cs = map (d_pixel d) (row_major 0 (sw (d_size d)) 0 (sh (d_size d)))) \/
  (d_draw d = [] /\ is_zero_sized (d_box d) = true).
Proof.
  destruct d as [img|parent a]; cbn [d_wf d_draw]; intros H.
  - left. eexists. split; [apply raw_draw_eq; assumption|].
    unfold area_stream. rewrite map_map. apply map_ext_in. intros p Hp. apply In_row_major in Hp.
    cbn [d_pixel d_size] in *. rewrite raw_pixel_inside; [|assumption|apply origin_box_contains; lia].
    f_equal; f_equal; lia.
  - destruct H as (Hp & Hn & [Hzero|Hin]).
    + right. split; [apply d_draw_sub_image_zero; assumption|exact Hzero].
    + left. destruct (d_draw_sub_image_inside parent a Hp Hin) as (cs & Hd & Hm).
      exists cs. split; [exact Hd|]. rewrite Hm. apply map_ext_in. intros p Hq. apply In_row_major in Hq.
      cbn [d_pixel d_size] in *.
      replace (contains (origin_box (sz a)) p) with true by (symmetry; apply origin_box_contains; lia).
      reflexivity.
Qed.

(* stream_exact: every colour stream handed to fill_contiguous has exactly width * height items *)
Theorem stream_exact d :
  d_wf d ->
  Forall (fun c => match c with
                   | FillContiguous area cs =>
                       area = d_box d /\ Z.of_nat (length cs) = sw (d_size d) * sh (d_size d)
                   end) (d_draw d) /\
  (length (d_draw d) <= 1)%nat /\
  (is_zero_sized (d_box d) = false -> length (d_draw d) = 1%nat).
Proof.
  intros H. pose proof (d_size_nonneg d H) as Hs.
  destruct (d_draw_spec d H) as [(cs & -> & Hm)|(-> & Hz)].
  - split; [|split; [cbn [length]; lia|reflexivity]].
    constructor; [|constructor]. split; [reflexivity|].
    apply (f_equal (@length _)) in Hm. rewrite !map_length in Hm. rewrite Hm, length_row_major. lia.
  - split; [constructor|]. split; [cbn [length]; lia|]. congruence.
Qed.

(* ---- the pixel map a list of calls leaves on a target with bounding box bb ------------ *)
Definition writes (bb : rect) (calls : list icall) : list (point * Z) := flat_map (call_writes bb) calls.

(* the colour written last to q, None when q was never written *)
Fixpoint last_write (q : point) (ws : list (point * Z)) : option Z :=
  match ws with
  | [] => None
  | (p, c) :: t =>
      match last_write q t with
      | Some v => Some v
      | None => if point_eqb p q then Some c else None
      end
  end.

Definition render (bb : rect) (calls : list icall) (q : point) : option Z := last_write q (writes bb calls).

Lemma point_eqb_eq a b : point_eqb a b = true <-> a = b.
Proof.
  destruct a as [ax ay], b as [bx b_y]. unfold point_eqb. cbn [px py]. split.
  - intros H. f_equal; lia.
  - intros H. inversion H. lia.
Qed.

Lemma point_eqb_refl a : point_eqb a a = true.
Proof. apply point_eqb_eq. reflexivity. Qed.

Lemma last_write_none q ws : (forall c, ~ In (q, c) ws) -> last_write q ws = None.
Proof.
  induction ws as [|[p c] t IH]; intros H; cbn [last_write]; [reflexivity|].
  rewrite IH by (intros c' Hc; apply (H c'); right; exact Hc).
  destruct (point_eqb p q) eqn:E; [|reflexivity].
  apply point_eqb_eq in E. subst p. exfalso. apply (H c). left. reflexivity.
Qed.

Lemma last_write_unique q v ws : NoDup (map fst ws) -> In (q, v) ws -> last_write q ws = Some v.
Proof.
  induction ws as [|[p c] t IH]; intros Hnd Hin; [destruct Hin|].
  cbn [map fst] in Hnd. inversion Hnd as [|? ? Hnotin Hnd']; subst. cbn [last_write].
  destruct Hin as [Heq|Hin].
  - inversion Heq; subst. rewrite last_write_none.
    + rewrite point_eqb_refl. reflexivity.
    + intros c' Hc. apply Hnotin. apply in_map_iff. exists (q, c'). split; [reflexivity|exact Hc].
  - rewrite (IH Hnd' Hin). reflexivity.
Qed.

Lemma last_write_filter (f : point -> bool) q ws :
  last_write q (filter (fun w => f (fst w)) ws) = if f q then last_write q ws else None.
Proof.
  induction ws as [|[p c] t IH]; cbn [filter last_write fst]; [destruct (f q); reflexivity|].
  destruct (f p) eqn:Ep; cbn [last_write]; rewrite IH.
  - destruct (f q) eqn:Eq; [reflexivity|].
    destruct (point_eqb p q) eqn:E; [|reflexivity]. apply point_eqb_eq in E. congruence.
  - destruct (f q) eqn:Eq; [|reflexivity].
    destruct (last_write q t); [reflexivity|].
    destruct (point_eqb p q) eqn:E; [|reflexivity]. apply point_eqb_eq in E. congruence.
Qed.

(* pairing a list of points g(p) with colours cs that are the values f(p) *)
Lemma zip_map_some {A} (g : A -> point) (f : A -> option Z) : forall (l : list A) (cs : list Z),
  map Some cs = map f l ->
  map fst (zip (map g l) cs) = map g l /\
  (forall a c, In (a, c) (zip (map g l) cs) <-> exists p, In p l /\ a = g p /\ f p = Some c).
Proof.
  induction l as [|x l IH]; intros [|c0 cs] Hm; cbn [map] in Hm; try discriminate.
  - split; [reflexivity|]. intros a c. cbn [map zip In]. split; [tauto|intros (p & [] & _)].
  - inversion Hm as [[Hc Hm']]. destruct (IH cs Hm') as (IH1 & IH2).
    split; [cbn [map zip fst]; f_equal; exact IH1|].
    intros a c. cbn [map zip In]. rewrite IH2. split.
    + intros [Heq|(p & Hp & Ha & Hf)].
      * inversion Heq; subst. exists x. split; [left; reflexivity|]. split; [reflexivity|]. symmetry; assumption.
      * exists p. split; [right; assumption|]. split; assumption.
    + intros (p & [Hx|Hp] & Ha & Hf).
      * subst p. left. rewrite Ha. f_equal. congruence.
      * right. exists p. split; [assumption|]. split; assumption.
Qed.

Lemma row_major_shift ox oy w h :
  row_major ox (ox + w) oy (oy + h) = map (fun p => padd p (P ox oy)) (row_major 0 w 0 h).
Proof.
  rewrite map_row_major. unfold row_major, padd. cbn [px py].
  assert (Hr : forall a n, range a (a + n) = map (fun x => x + a) (range 0 n)).
  { intros a n. unfold range. replace (a + n - a) with n by lia. replace (n - 0) with n by lia.
    rewrite range_from_shift. apply map_ext. intros; lia. }
  rewrite (Hr oy h), (Hr ox w). rewrite flat_map_concat_map, map_map, <- flat_map_concat_map.
  apply flat_map_ext. intros y. rewrite map_map. reflexivity.
Qed.

Lemma row_major_nodup x0 x1 y0 y1 : NoDup (row_major x0 x1 y0 y1).
Proof. apply lt_yx_irrefl_sorted, row_major_sorted. Qed.

Lemma padd_psub q o : padd (psub q o) o = q.
Proof. destruct q as [qx qy], o as [ox oy]. unfold padd, psub. cbn [px py]. f_equal; lia. Qed.

Lemma psub_padd p o : psub (padd p o) o = p.
Proof. destruct p as [qx qy], o as [ox oy]. unfold padd, psub. cbn [px py]. f_equal; lia. Qed.

(* A box of size s placed at o fits the i32 coordinate space: the exact condition under which
   `Rectangle::points()` (rows/columns with `saturating_add` and a saturating u32 -> i32 cast,
   core/src/primitives/rectangle/{mod,points}.rs) does not saturate, i.e. the unbounded model equals the code. *)
Definition offset_fits (o : point) (s : size) : Prop :=
  0 <= sw s <= i32_max /\ 0 <= sh s <= i32_max /\
  i32_min <= px o /\ px o + sw s <= i32_max /\ i32_min <= py o /\ py o + sh s <= i32_max.

Lemma point_ok_offset_fits o s : point_ok o -> size_ok s -> offset_fits o s.
Proof. unfold point_ok, size_ok, offset_fits, bound, i32_max, i32_min. lia. Qed.

Lemma points_row_major_fits r :
  offset_fits (tl r) (sz r) ->
  points r = if is_zero_sized r then []
             else row_major (px (tl r)) (px (tl r) + sw (sz r)) (py (tl r)) (py (tl r) + sh (sz r)).
Proof.
  intros H. unfold offset_fits, i32_max, i32_min in H. unfold points. destruct (is_zero_sized r); [reflexivity|].
  unfold columns, rows, sat_add_i32, sat_u32_to_i32, i32_max, i32_min, row_major.
  replace (Z.max (-2147483648) (Z.min (px (tl r) + Z.min (sw (sz r)) 2147483647) 2147483647))
    with (px (tl r) + sw (sz r)) by lia.
  replace (Z.max (-2147483648) (Z.min (py (tl r) + Z.min (sh (sz r)) 2147483647) 2147483647))
    with (py (tl r) + sh (sz r)) by lia.
  reflexivity.
Qed.

(* one fill_contiguous call over the box (o, w x h) whose colours are f over the row-major grid *)
Lemma render_grid bb o w h (f : point -> option Z) cs q :
  offset_fits o (S w h) ->
  map Some cs = map f (row_major 0 w 0 h) ->
  render bb [FillContiguous (R o (S w h)) cs] q =
  if contains bb q && contains (R o (S w h)) q then f (psub q o) else None.
Proof.
  intros Hfit Hm. unfold render, writes. cbn [flat_map call_writes]. rewrite app_nil_r.
  rewrite (last_write_filter (contains bb)).
  destruct (contains bb q); cbn [andb]; [|reflexivity].
  assert (Hpts : points (R o (S w h)) = map (fun p => padd p o) (row_major 0 w 0 h)).
  { rewrite points_row_major_fits by exact Hfit. cbn [tl sz sw sh].
    destruct (is_zero_sized (R o (S w h))) eqn:Ez.
    - unfold is_zero_sized in Ez. cbn [sz sw sh] in Ez. rewrite row_major_empty by lia. reflexivity.
    - destruct o as [ox oy]. cbn [px py]. apply row_major_shift. }
  rewrite Hpts. destruct (zip_map_some (fun p => padd p o) f _ _ Hm) as (Hfst & Hin).
  destruct (contains (R o (S w h)) q) eqn:Ec.
  - apply contains_spec in Ec. cbn [tl sz sw sh] in Ec.
    assert (Hp : In (psub q o) (row_major 0 w 0 h)).
    { apply In_row_major. unfold psub. cbn [px py]. lia. }
    assert (Hf : exists c, f (psub q o) = Some c).
    { apply (in_map f) in Hp. rewrite <- Hm in Hp. apply in_map_iff in Hp. destruct Hp as (c & Hc & _). eauto. }
    destruct Hf as (c & Hf). rewrite Hf. apply last_write_unique.
    + rewrite Hfst. apply FinFun.Injective_map_NoDup; [|apply row_major_nodup].
      intros a b Hab. rewrite <- (psub_padd a o), <- (psub_padd b o), Hab. reflexivity.
    + apply Hin. exists (psub q o). split; [assumption|]. split; [symmetry; apply padd_psub|assumption].
  - apply last_write_none. intros c Hc. apply Hin in Hc. destruct Hc as (p & Hp & Hq & _).
    apply In_row_major in Hp. subst q.
    assert (contains (R o (S w h)) (padd p o) = true); [|congruence].
    apply contains_spec. unfold padd. cbn [tl sz sw sh px py]. lia.
Qed.

(* pixel() of a drawable: None exactly outside its bounding box *)
Theorem d_pixel_none_iff d : forall p,
  d_wf d -> (d_pixel d p = None <-> contains (d_box d) p = false).
Proof.
  induction d as [img|parent IH a]; intros p H; cbn [d_wf d_pixel] in *.
  - apply pixel_none_iff. assumption.
  - unfold d_box. cbn [d_size]. destruct (contains (origin_box (sz a)) p) eqn:Ec; [|tauto].
    split; [|discriminate]. intros Hn. exfalso.
    destruct H as (Hp & Hnn & [Hz|Hin]).
    + apply origin_box_contains in Ec. unfold is_zero_sized in Hz. lia.
    + apply (IH _ Hp) in Hn. apply origin_box_contains in Ec.
      destruct Hin as (Hw & Hh & Hx & Hy & Hxw & Hyh).
      assert (contains (d_box parent) (padd p (tl a)) = true); [|congruence].
      apply origin_box_contains. unfold padd. cbn [px py]. lia.
Qed.

Lemma image_box_eq d o : image_box (Img d o) = R (padd (P 0 0) o) (d_size d).
Proof. reflexivity. Qed.

Lemma padd_zero_l o : padd (P 0 0) o = o.
Proof. destruct o as [ox oy]. reflexivity. Qed.

(* image_draw_spec: drawing Image(d, o) sets q to pixel(q - o) for q - o in the drawable's box (and inside
   the target), and touches nothing else *)
Theorem image_draw_spec_fits d o bb q :
  d_wf d -> is_zero_sized (d_box d) = true \/ offset_fits o (d_size d) ->
  render bb (image_draw (Img d o)) q =
  if contains bb q && contains (image_box (Img d o)) q then d_pixel d (psub q o) else None.
Proof.
  intros H Ho. unfold image_draw. cbn [im_drawable im_offset]. rewrite image_box_eq, padd_zero_l.
  destruct (is_zero_sized (d_box d)) eqn:Ez.
  - (* nothing to draw: either no call, or a call with an empty area *)
    assert (Hc : contains (R o (d_size d)) q = false).
    { destruct (contains (R o (d_size d)) q) eqn:Ec; [|reflexivity]. apply contains_spec in Ec.
      unfold is_zero_sized, d_box, origin_box in Ez. cbn [tl sz] in *. lia. }
    rewrite Hc, andb_false_r.
    destruct (d_draw_spec d H) as [(cs & -> & Hm)|(-> & _)]; [|reflexivity].
    cbn [map translated_call]. unfold render, writes. cbn [flat_map call_writes].
    unfold points. replace (is_zero_sized (translate_rect (d_box d) o)) with true by (symmetry; exact Ez).
    reflexivity.
  - destruct Ho as [Ho|Ho]; [congruence|].
    destruct (d_draw_spec d H) as [(cs & -> & Hm)|(_ & Hz)]; [|congruence].
    cbn [map translated_call]. unfold d_box, origin_box, translate_rect. cbn [tl sz]. rewrite padd_zero_l.
    destruct (d_size d) as [w h] eqn:Es. cbn [sw sh] in Hm.
    apply render_grid; assumption.
Qed.

Theorem image_draw_spec d o bb q :
  d_wf d -> point_ok o ->
  render bb (image_draw (Img d o)) q =
  if contains bb q && contains (image_box (Img d o)) q then d_pixel d (psub q o) else None.
Proof.
  intros H Ho. apply image_draw_spec_fits; [assumption|].
  destruct (is_zero_sized (d_box d)) eqn:Ez; [left; reflexivity|right].
  apply point_ok_offset_fits; [assumption|apply d_size_ok; assumption].
Qed.

(* ---- SubImage::new --------------------------------------------------------------- *)
Lemma d_box_nonneg d : d_wf d -> size_nonneg (d_box d).
Proof. intros H. apply d_size_nonneg in H. exact H. Qed.

Lemma intersection_origin_sub_wf ps area :
  0 <= sw ps -> 0 <= sh ps -> size_nonneg area -> sub_wf ps (intersection (origin_box ps) area).
Proof.
  intros Hw Hh Ha. set (r := intersection (origin_box ps) area).
  assert (Hn : size_nonneg r) by (apply intersection_size_nonneg; [split; assumption|assumption]).
  split; [exact Hn|]. destruct (is_zero_sized r) eqn:Ez; [left; reflexivity|right].
  destruct Hn as [Hrw Hrh]. unfold is_zero_sized in Ez.
  assert (H1 : contains r (tl r) = true) by (apply contains_spec; lia).
  assert (H2 : contains r (P (px (tl r) + sw (sz r) - 1) (py (tl r) + sh (sz r) - 1)) = true)
    by (apply contains_spec; cbn [px py]; lia).
  apply intersection_sub_l in H1, H2. apply origin_box_contains in H1, H2. cbn [px py] in H2.
  unfold inside. lia.
Qed.

Theorem sub_image_wf d area : d_wf d -> size_nonneg area -> d_wf (sub_image d area).
Proof.
  intros H Ha. unfold sub_image. cbn [d_wf]. split; [assumption|].
  pose proof (d_size_nonneg d H). apply intersection_origin_sub_wf; tauto.
Qed.

(* sub_image_spec: sub_image(area) behaves like an image made of the parent's pixels inside
   a' = area intersected with the parent's box: target point q shows parent pixel (q - o) + a'.top_left *)
Theorem sub_image_spec d area o bb q :
  d_wf d -> size_nonneg area -> point_ok o ->
  let a' := intersection (d_box d) area in
  d_wf (sub_image d area) /\
  d_size (sub_image d area) = sz a' /\
  (forall x, contains a' x = contains (d_box d) x && contains area x) /\
  render bb (image_draw (Img (sub_image d area) o)) q =
    (let x := padd (psub q o) (tl a') in
     if contains bb q && contains a' x then d_pixel d x else None).
Proof.
  intros H Ha Ho a'. pose proof (sub_image_wf d area H Ha) as Hwf.
  split; [exact Hwf|]. split; [reflexivity|]. split; [intros x; apply intersection_spec|].
  rewrite image_draw_spec by assumption. rewrite image_box_eq, padd_zero_l.
  unfold sub_image. fold a'. cbn [d_size d_pixel]. cbv zeta.
  assert (E1 : contains (R o (sz a')) q = contains (origin_box (sz a')) (psub q o)).
  { apply eq_true_iff_eq. rewrite contains_spec, origin_box_contains. unfold psub. cbn [tl sz px py]. lia. }
  assert (E2 : contains a' (padd (psub q o) (tl a')) = contains (origin_box (sz a')) (psub q o)).
  { apply eq_true_iff_eq. rewrite contains_spec, origin_box_contains. unfold psub, padd. cbn [tl sz px py]. lia. }
  rewrite E1, E2. destruct (contains bb q); cbn [andb]; [|reflexivity].
  destruct (contains (origin_box (sz a')) (psub q o)); reflexivity.
Qed.

(* an area that is not empty and lies inside a box is its own intersection with the box *)
Lemma intersection_inside s a : inside s a -> intersection (origin_box s) a = a.
Proof.
  intros (Hw & Hh & Hx & Hy & Hxw & Hyh). destruct a as [[ax ay] [aw ah]], s as [w h].
  cbn [tl sz px py sw sh] in *. unfold intersection, origin_box, bottom_right. cbn [tl sz px py sw sh].
  assert (E1 : (0 <? aw) && (0 <? ah) = true) by lia.
  assert (E2 : (0 <? w) && (0 <? h) = true) by lia.
  rewrite E1, E2. cbn [px py]. unfold overlaps. clear E1 E2.
  match goal with |- (if ?b then _ else _) = _ => assert (E3 : b = true) by lia; rewrite E3 end.
  unfold with_corners, component_max, component_min, size_from_bounding_box. cbn [px py].
  f_equal; f_equal; lia.
Qed.

Lemma contains_translate_psub r d x : contains (translate_rect r d) x = contains r (psub x d).
Proof. rewrite <- (padd_psub x d) at 1. apply contains_translate. Qed.

(* sub_sub_compose: a sub image of a sub image is the sub image of the root with the inner area moved by the
   outer area's top left corner (same calls, same pixels; same size unless empty) *)
Theorem sub_sub_compose d a1 a2 :
  d_wf d -> size_nonneg a1 -> size_nonneg a2 ->
  let s1 := sub_image d a1 in
  let a1' := intersection (d_box d) a1 in
  let a2' := intersection (d_box s1) a2 in
  let a12 := translate_rect a2' (tl a1') in
  d_draw (sub_image s1 a2) = d_draw (sub_image d a12) /\
  (forall p, d_pixel (sub_image s1 a2) p = d_pixel (sub_image d a12) p) /\
  (is_zero_sized a2' = true ->
     is_zero_sized (d_box (sub_image s1 a2)) = true /\ is_zero_sized (d_box (sub_image d a12)) = true) /\
  (is_zero_sized a2' = false ->
     d_size (sub_image s1 a2) = d_size (sub_image d a12) /\
     forall x, contains a12 x =
               contains (d_box d) x && contains a1 x && contains (translate_rect a2 (tl a1')) x).
Proof.
  intros H Ha1 Ha2 s1 a1' a2' a12.
  pose proof (sub_image_wf d a1 H Ha1) as Hwf1. fold s1 in Hwf1.
  pose proof (sub_image_wf s1 a2 Hwf1 Ha2) as Hwf12.
  assert (Hsub2 : sub_wf (d_size s1) a2') by (apply Hwf12).
  destruct Hsub2 as (Hn2 & [Hz2|Hin2]).
  - (* the inner area is empty: so is a12, and both draw nothing *)
    assert (Hz12 : is_zero_sized (intersection (d_box d) a12) = true).
    { assert (Hn12 : size_nonneg a12) by exact Hn2.
      pose proof (intersection_size_nonneg _ _ (d_box_nonneg d H) Hn12) as Hni.
      destruct (is_zero_sized (intersection (d_box d) a12)) eqn:E; [reflexivity|exfalso].
      unfold is_zero_sized in E. destruct Hni as [Hiw Hih].
      assert (Hc : contains (intersection (d_box d) a12) (tl (intersection (d_box d) a12)) = true)
        by (apply contains_spec; lia).
      apply intersection_sub_r, contains_spec in Hc. unfold is_zero_sized in Hz2.
      unfold a12, translate_rect in Hc. cbn [tl sz] in Hc. lia. }
    split; [|split; [|split]].
    + unfold sub_image. fold a2'. cbn [d_draw].
      rewrite !d_draw_sub_image_zero; [reflexivity|exact Hz12|exact Hz2].
    + intros p. unfold sub_image. fold a2'. cbn [d_pixel].
      replace (contains (origin_box (sz a2')) p) with false.
      2:{ symmetry. destruct (contains (origin_box (sz a2')) p) eqn:E; [|reflexivity].
          apply origin_box_contains in E. unfold is_zero_sized in Hz2. lia. }
      replace (contains (origin_box (sz (intersection (d_box d) a12))) p) with false; [reflexivity|].
      symmetry. destruct (contains (origin_box _) p) eqn:E; [|reflexivity].
      apply origin_box_contains in E. unfold is_zero_sized in Hz12. lia.
    + intros _. split; [exact Hz2|exact Hz12].
    + congruence.
  - (* the inner area is not empty: it lies inside a1', which lies inside d's box *)
    assert (Hsub1 : sub_wf (d_size d) a1') by (apply Hwf1).
    destruct Hsub1 as (Hn1 & [Hz1|Hin1]).
    { exfalso. destruct Hin2 as (Hw & Hh & Hx & Hy & Hxw & Hyh). unfold s1, sub_image in Hxw, Hyh.
      fold a1' in Hxw, Hyh. cbn [d_size] in Hxw, Hyh. unfold is_zero_sized in Hz1. lia. }
    assert (Hin12 : inside (d_size d) a12).
    { destruct Hin2 as (Hw & Hh & Hx & Hy & Hxw & Hyh). destruct Hin1 as (Hw1 & Hh1 & Hx1 & Hy1 & Hxw1 & Hyh1).
      unfold s1, sub_image in Hxw, Hyh. fold a1' in Hxw, Hyh. cbn [d_size] in Hxw, Hyh.
      unfold inside, a12, translate_rect, padd. cbn [tl sz px py]. lia. }
    assert (Heq : intersection (d_box d) a12 = a12) by (apply intersection_inside; exact Hin12).
    assert (Hnz : is_zero_sized a2' = false).
    { destruct Hin2 as (Hw & Hh & _). unfold is_zero_sized. lia. }
    split; [|split; [|split]].
    + unfold sub_image. fold a2'. rewrite Heq. reflexivity.
    + intros p. unfold sub_image. fold a2'. rewrite Heq. cbn [d_pixel].
      unfold s1, sub_image. fold a1'. cbn [d_pixel]. unfold a12 at 1. cbn [translate_rect sz tl].
      destruct (contains (origin_box (sz a2')) p) eqn:Ec; [|reflexivity].
      replace (contains (origin_box (sz a1')) (padd p (tl a2'))) with true; [rewrite padd_assoc; reflexivity|].
      symmetry. apply origin_box_contains in Ec. apply origin_box_contains.
      destruct Hin2 as (Hw & Hh & Hx & Hy & Hxw & Hyh).
      unfold s1, sub_image in Hxw, Hyh. fold a1' in Hxw, Hyh. cbn [d_size] in Hxw, Hyh.
      unfold padd. cbn [px py]. lia.
    + congruence.
    + intros _. split; [unfold sub_image; fold a2'; rewrite Heq; reflexivity|].
      intros x. unfold a12.
      rewrite !contains_translate_psub.
      unfold a2'. rewrite intersection_spec.
      rewrite <- (intersection_spec (d_box d) a1 x). fold a1'.
      assert (E : contains (d_box s1) (psub x (tl a1')) = contains a1' x).
      { apply eq_true_iff_eq. unfold d_box, s1, sub_image. fold a1'. cbn [d_size].
        rewrite origin_box_contains, contains_spec. unfold psub. cbn [px py]. lia. }
      rewrite E. reflexivity.
Qed.

(* ---- Image::with_center ------------------------------------------------------------ *)
Theorem with_center_spec d c :
  0 <= sw (d_size d) -> 0 <= sh (d_size d) ->
  let i := image_with_center d c in
  image_box i = with_center c (d_size d) /\
  sz (image_box i) = d_size d /\
  i = image_new d (psub_size c (S (Z.max (sw (d_size d) - 1) 0 / 2) (Z.max (sh (d_size d) - 1) 0 / 2))) /\
  center (image_box i) = c /\
  (forall br, bottom_right (image_box i) = Some br ->
     0 <= px (tl (image_box i)) + px br - 2 * px c <= 1 /\
     0 <= py (tl (image_box i)) + py br - 2 * py c <= 1).
Proof.
  intros Hw Hh i. unfold i, image_with_center, image_box, image_new. cbn [im_drawable im_offset].
  unfold d_box, origin_box, translate_rect. cbn [tl sz]. rewrite padd_zero_l.
  destruct (d_size d) as [w h]. cbn [sw sh] in *. destruct c as [cx cy].
  unfold with_center, center, center_offset, size_sat_sub, sat_sub_u32, psub_size, padd_size, bottom_right.
  cbn [tl sz px py sw sh].
  split; [reflexivity|]. split; [reflexivity|]. split; [reflexivity|]. split.
  - f_equal; lia.
  - intros br. destruct (_ && _) eqn:E; [|discriminate]. intros Hbr. inversion Hbr; subst br. cbn [px py].
    split; lia.
Qed.

(* ---- row padding, byte form: pixel (x,y) is item x of the y-th slice of bytes_per_row bytes ---------- *)
Definition row_bytes (img : image_raw) (y : Z) : list Z :=
  let bpr := bytes_per_row (sw (ir_size img)) (ir_bpp img) in
  firstn (Z.to_nat bpr) (skipn (Z.to_nat (y * bpr)) (ir_data img)).

Lemma nth_error_skipn_add {A} n (l : list A) m : nth_error (skipn n l) m = nth_error l (n + m).
Proof.
  revert l. induction n as [|n IH]; intros l; [reflexivity|].
  destruct l as [|a l]; cbn [skipn Nat.add nth_error]; [destruct m; reflexivity|apply IH].
Qed.

Lemma nth_error_firstn_lt {A} n (l : list A) m : (m < n)%nat -> nth_error (firstn n l) m = nth_error l m.
Proof.
  revert l m. induction n as [|n IH]; intros l m Hm; [lia|].
  destruct l as [|a l]; [destruct m; reflexivity|]. destruct m as [|m]; [reflexivity|].
  cbn [firstn nth_error]. apply IH. lia.
Qed.

Lemma skipn_skipn_add {A} a b (l : list A) : skipn b (skipn a l) = skipn (a + b) l.
Proof.
  revert l. induction a as [|a IH]; intros l; [reflexivity|].
  destruct l as [|x l]; [rewrite !skipn_nil; reflexivity|]. cbn [skipn Nat.add]. apply IH.
Qed.

Lemma slice_slice {A} a b n m (l : list A) :
  (b + m <= n)%nat -> firstn m (skipn b (firstn n (skipn a l))) = firstn m (skipn (a + b) l).
Proof.
  intros H. rewrite skipn_firstn_comm, firstn_firstn, skipn_skipn_add. f_equal. lia.
Qed.

Lemma sub_byte_row (ppb : Z) (data : list Z) bpr x y :
  0 < ppb -> 0 <= y -> 0 <= x < bpr * ppb ->
  nth_error data (Z.to_nat ((y * (bpr * ppb) + x) / ppb)) =
  nth_error (firstn (Z.to_nat bpr) (skipn (Z.to_nat (y * bpr)) data)) (Z.to_nat (x / ppb)) /\
  (y * (bpr * ppb) + x) mod ppb = x mod ppb.
Proof.
  intros Hp Hy Hx.
  assert (E : (y * (bpr * ppb) + x) / ppb = y * bpr + x / ppb).
  { replace (y * (bpr * ppb) + x) with (x + (y * bpr) * ppb) by ring. rewrite Z.div_add by lia. lia. }
  assert (0 <= x / ppb < bpr).
  { split; [apply Z.div_pos; lia|]. apply Z.div_lt_upper_bound; lia. }
  assert (0 <= y * bpr) by nia.
  split.
  - rewrite E, nth_error_firstn_lt by lia. rewrite nth_error_skipn_add. f_equal. lia.
  - replace (y * (bpr * ppb) + x) with (x + (y * bpr) * ppb) by ring. apply Z.mod_add. lia.
Qed.

Lemma multi_byte_row {A} (k : Z) (data : list Z) w x y (f : list Z -> A) :
  0 < k -> 0 <= y -> 0 <= x < w -> (y + 1) * (w * k) <= Z.of_nat (length data) ->
  let load := fun (buffer : list Z) (index : Z) =>
    if index * k <=? Z.of_nat (length buffer) then
      let rest := skipn (Z.to_nat (index * k)) buffer in
      if k <=? Z.of_nat (length rest) then Some (f (firstn (Z.to_nat k) rest)) else None
    else None in
  load data (y * w + x) = load (firstn (Z.to_nat (w * k)) (skipn (Z.to_nat (y * (w * k))) data)) x.
Proof.
  intros Hk Hy Hx Hl load. unfold load. cbv zeta.
  assert (0 <= y * w) by nia. assert (0 <= x * k) by nia. assert (0 <= y * (w * k)) by nia.
  assert ((x + 1) * k <= w * k) by nia.
  assert (E0 : (y * w + x) * k = y * (w * k) + x * k) by ring.
  rewrite !firstn_length, !skipn_length, firstn_length, skipn_length.
  destruct (_ <=? _) eqn:E1; [|exfalso; lia].
  destruct (k <=? _) eqn:E2; [|exfalso; lia].
  destruct (x * k <=? _) eqn:E3; [|exfalso; lia].
  destruct (k <=? Z.of_nat (Nat.min _ _ - _)) eqn:E4; [|exfalso; lia].
  f_equal. f_equal. rewrite slice_slice by lia. f_equal. f_equal. lia.
Qed.

Theorem pixel_row_layout img x y :
  img_ok img -> 0 <= x < sw (ir_size img) -> 0 <= y < sh (ir_size img) ->
  raw_pixel img (P x y) = raw_load (ir_bpp img) (ir_alt img) (row_bytes img y) x /\
  Z.of_nat (length (row_bytes img y)) = bytes_per_row (sw (ir_size img)) (ir_bpp img).
Proof.
  intros H Hx Hy. destruct (pixel_layout img x y H Hx Hy) as (-> & _ & _).
  destruct img as [data [w h] bpp alt]. unfold img_ok, row_bytes, data_width, size_ok, bound in *.
  cbn [ir_bpp ir_size ir_data ir_alt sw sh] in *. destruct H as (Hb & Hs & Hl).
  assert (Hlen : forall bpr, 0 <= bpr -> Z.of_nat (length data) = bpr * h ->
            Z.of_nat (length (firstn (Z.to_nat bpr) (skipn (Z.to_nat (y * bpr)) data))) = bpr).
  { intros bpr Hb0 Hd. rewrite firstn_length, skipn_length. nia. }
  split; [|apply Hlen; [unfold bytes_per_row; bpp_cases Hb; subst bpp; lia|exact Hl]].
  clear Hlen. unfold raw_load, bit_position, get_byte, bytes_per_row in *.
  bpp_cases Hb; subst bpp; norm_consts.
  - destruct (sub_byte_row 8 data ((w * 1 + 7) / 8) x y) as (-> & ->); try lia. reflexivity.
  - destruct (sub_byte_row 4 data ((w * 2 + 7) / 8) x y) as (-> & ->); try lia. reflexivity.
  - destruct (sub_byte_row 2 data ((w * 4 + 7) / 8) x y) as (-> & ->); try lia. reflexivity.
  - replace ((w * 8 + 7) / 8) with w in * by lia.
    rewrite nth_error_firstn_lt by lia. rewrite nth_error_skipn_add. f_equal. nia.
  - replace ((w * 16 + 7) / 8) with (w * 2) in * by lia.
    apply (multi_byte_row 2 data w x y (fun bytes => if alt then from_be_bytes bytes else from_le_bytes bytes)); nia.
  - replace ((w * 24 + 7) / 8) with (w * 3) in * by lia.
    apply (multi_byte_row 3 data w x y (fun bytes => if alt then from_be_bytes bytes else from_le_bytes bytes)); nia.
  - replace ((w * 32 + 7) / 8) with (w * 4) in * by lia.
    apply (multi_byte_row 4 data w x y (fun bytes => if alt then from_be_bytes bytes else from_le_bytes bytes)); nia.
Qed.

(* ---- a drawable in terms of its root ImageRaw ---------------------------------------------- *)
Fixpoint d_root (d : drawable) : image_raw :=
  match d with Raw img => img | Sub parent _ => d_root parent end.

(* where the drawable's top left corner lies in the root image: the sum of the (clipped) areas' corners *)
Fixpoint d_origin (d : drawable) : point :=
  match d with Raw _ => P 0 0 | Sub parent a => padd (tl a) (d_origin parent) end.

Lemma padd_zero_r p : padd p (P 0 0) = p.
Proof. destruct p as [x y]. unfold padd. cbn [px py]. f_equal; lia. Qed.

(* every pixel any chain of sub images shows is the root's pixel() at the accumulated offset, and the shown
   region lies inside the root's box *)
Theorem d_pixel_root d : forall p,
  d_wf d ->
  d_pixel d p = (if contains (d_box d) p then raw_pixel (d_root d) (padd p (d_origin d)) else None) /\
  (contains (d_box d) p = true -> contains (origin_box (ir_size (d_root d))) (padd p (d_origin d)) = true).
Proof.
  induction d as [img|parent IH a]; intros p H; cbn [d_wf d_pixel d_root d_origin] in *.
  - rewrite padd_zero_r. unfold d_box. cbn [d_size]. split; [|tauto].
    destruct (contains (origin_box (ir_size img)) p) eqn:Ec; [reflexivity|]. apply raw_pixel_outside. exact Ec.
  - unfold d_box. cbn [d_size]. destruct (contains (origin_box (sz a)) p) eqn:Ec; [|split; [reflexivity|discriminate]].
    destruct H as (Hp & Hn & [Hz|Hin]).
    { exfalso. apply origin_box_contains in Ec. unfold is_zero_sized in Hz. lia. }
    assert (Hc : contains (d_box parent) (padd p (tl a)) = true).
    { apply origin_box_contains in Ec. destruct Hin as (Hw & Hh & Hx & Hy & Hxw & Hyh).
      apply origin_box_contains. unfold padd. cbn [px py]. lia. }
    destruct (IH (padd p (tl a)) Hp) as (E1 & E2). rewrite E1, Hc, padd_assoc. split; [reflexivity|].
    intros _. rewrite <- padd_assoc. apply E2. exact Hc.
Qed.

(* ==== ranges in which the unbounded model equals the i32 / u32 code ============================== *)

(* An area handed to `sub_image` / `SubImage::new`: coordinates are i32, extents u32 (by type), and unless the
   area is zero sized its bottom right corner `top_left + size - (1,1)` is computable in i32
   (core/src/primitives/rectangle/mod.rs:137 through point.rs:275-282: `size.width as i32` must not be negative,
   the i32 addition must not overflow).  This is the exact condition under which `Rectangle::intersection`
   with the parent's box evaluates without panic / wrap-around; a zero sized area is only compared, never added.
   Outside it (e.g. width 2^31) the code panics with debug assertions (point.rs:279) and the model says nothing. *)
Definition area_fits (a : rect) : Prop :=
  i32_min <= px (tl a) <= i32_max /\ i32_min <= py (tl a) <= i32_max /\
  0 <= sw (sz a) <= u32_max /\ 0 <= sh (sz a) <= u32_max /\
  (is_zero_sized a = true \/
   (sw (sz a) <= i32_max /\ sh (sz a) <= i32_max /\
    px (tl a) + sw (sz a) <= i32_max /\ py (tl a) + sh (sz a) <= i32_max)).

Lemma rect_ok_area_fits a : rect_ok a -> area_fits a.
Proof.
  unfold rect_ok, point_ok, size_ok, area_fits, bound, i32_max, i32_min, u32_max.
  intros H. repeat split; try lia. all: right; lia.
Qed.

Lemma area_fits_nonneg a : area_fits a -> size_nonneg a.
Proof. unfold area_fits, size_nonneg. lia. Qed.

Theorem sub_image_wf_fits d area : d_wf d -> area_fits area -> d_wf (sub_image d area).
Proof. intros H Ha. apply sub_image_wf; [assumption|apply area_fits_nonneg; assumption]. Qed.

Theorem sub_image_spec_fits d area o bb q :
  d_wf d -> area_fits area ->
  let a' := intersection (d_box d) area in
  is_zero_sized a' = true \/ offset_fits o (sz a') ->
  d_wf (sub_image d area) /\
  d_size (sub_image d area) = sz a' /\
  (forall x, contains a' x = contains (d_box d) x && contains area x) /\
  render bb (image_draw (Img (sub_image d area) o)) q =
    (let x := padd (psub q o) (tl a') in
     if contains bb q && contains a' x then d_pixel d x else None).
Proof.
  intros H Ha a' Ho. pose proof (sub_image_wf_fits d area H Ha) as Hwf.
  split; [exact Hwf|]. split; [reflexivity|]. split; [intros x; apply intersection_spec|].
  rewrite image_draw_spec_fits by (try assumption; exact Ho). rewrite image_box_eq, padd_zero_l.
  unfold sub_image. fold a'. cbn [d_size d_pixel]. cbv zeta.
  assert (E1 : contains (R o (sz a')) q = contains (origin_box (sz a')) (psub q o)).
  { apply eq_true_iff_eq. rewrite contains_spec, origin_box_contains. unfold psub. cbn [tl sz px py]. lia. }
  assert (E2 : contains a' (padd (psub q o) (tl a')) = contains (origin_box (sz a')) (psub q o)).
  { apply eq_true_iff_eq. rewrite contains_spec, origin_box_contains. unfold psub, padd. cbn [tl sz px py]. lia. }
  rewrite E1, E2. destruct (contains bb q); cbn [andb]; [|reflexivity].
  destruct (contains (origin_box (sz a')) (psub q o)); reflexivity.
Qed.

Theorem sub_sub_compose_fits d a1 a2 :
  d_wf d -> area_fits a1 -> area_fits a2 ->
  let s1 := sub_image d a1 in
  let a1' := intersection (d_box d) a1 in
  let a2' := intersection (d_box s1) a2 in
  let a12 := translate_rect a2' (tl a1') in
  d_draw (sub_image s1 a2) = d_draw (sub_image d a12) /\
  (forall p, d_pixel (sub_image s1 a2) p = d_pixel (sub_image d a12) p) /\
  (is_zero_sized a2' = true ->
     is_zero_sized (d_box (sub_image s1 a2)) = true /\ is_zero_sized (d_box (sub_image d a12)) = true) /\
  (is_zero_sized a2' = false ->
     area_fits a12 /\
     d_size (sub_image s1 a2) = d_size (sub_image d a12) /\
     forall x, contains a12 x =
               contains (d_box d) x && contains a1 x && contains (translate_rect a2 (tl a1')) x).
Proof.
  intros H Ha1 Ha2 s1 a1' a2' a12.
  destruct (sub_sub_compose d a1 a2 H (area_fits_nonneg _ Ha1) (area_fits_nonneg _ Ha2)) as (E1 & E2 & E3 & E4).
  split; [exact E1|]. split; [exact E2|]. split; [exact E3|]. intros Hnz.
  destruct (E4 Hnz) as (E5 & E6). split; [|split; [exact E5|exact E6]].
  (* a12 is not empty and lies inside d's box, whose extents are <= 2^29 *)
  pose proof (sub_image_wf d a1 H (area_fits_nonneg _ Ha1)) as Hwf1. fold s1 in Hwf1.
  pose proof (sub_image_wf s1 a2 Hwf1 (area_fits_nonneg _ Ha2)) as Hwf12.
  assert (Hsub2 : sub_wf (d_size s1) a2') by (apply Hwf12).
  assert (Hsub1 : sub_wf (d_size d) a1') by (apply Hwf1).
  destruct Hsub2 as (_ & [Hz2|Hin2]); [unfold a2' in Hnz; fold a2' in Hnz; congruence|].
  destruct Hsub1 as (_ & [Hz1|Hin1]).
  { exfalso. destruct Hin2 as (Hw & Hh & Hx & Hy & Hxw & Hyh). unfold s1, sub_image in Hxw, Hyh.
    fold a1' in Hxw, Hyh. cbn [d_size] in Hxw, Hyh. unfold is_zero_sized in Hz1. lia. }
  assert (Hs : size_ok (d_size d)).
  { apply d_size_ok; [assumption|]. destruct Hin1 as (Hw & Hh & Hx & Hy & Hxw & Hyh).
    unfold is_zero_sized, d_box, origin_box. cbn [sz]. lia. }
  destruct Hin2 as (Hw & Hh & Hx & Hy & Hxw & Hyh). destruct Hin1 as (Hw1 & Hh1 & Hx1 & Hy1 & Hxw1 & Hyh1).
  unfold s1, sub_image in Hxw, Hyh. fold a1' in Hxw, Hyh. cbn [d_size] in Hxw, Hyh.
  unfold area_fits, a12, translate_rect, padd, size_ok, bound, i32_max, i32_min, u32_max in *.
  cbn [tl sz px py]. repeat split; try lia. all: right; lia.
Qed.

(* ---- Image::with_center: `center - center_offset(size)` (Point::sub_size: i32 subtraction) ---------- *)
Definition with_center_fits (c : point) (s : size) : Prop :=
  i32_min <= px c <= i32_max /\ i32_min <= py c <= i32_max /\
  i32_min <= px c - Z.max (sw s - 1) 0 / 2 /\ i32_min <= py c - Z.max (sh s - 1) 0 / 2.

Lemma point_ok_with_center_fits c s :
  point_ok c -> size_ok s -> with_center_fits c s /\ offset_fits (tl (with_center c s)) s.
Proof.
  destruct c as [cx cy], s as [w h].
  unfold point_ok, size_ok, with_center_fits, offset_fits, with_center, psub_size, center_offset, size_sat_sub,
    sat_sub_u32, bound, i32_max, i32_min. cbn [tl sz px py sw sh]. intros Hc Hs. lia.
Qed.

(* the pixel map of Image::with_center(d, c): d's pixels, placed so that the image's centre pixel
   ((w-1)/2, (h-1)/2) lands on c *)
Theorem with_center_draw_spec d c bb q :
  d_wf d ->
  is_zero_sized (d_box d) = true \/
    (with_center_fits c (d_size d) /\ offset_fits (tl (with_center c (d_size d))) (d_size d)) ->
  let o := tl (with_center c (d_size d)) in
  let m := P (Z.max (sw (d_size d) - 1) 0 / 2) (Z.max (sh (d_size d) - 1) 0 / 2) in
  o = psub c m /\
  render bb (image_draw (image_with_center d c)) q =
    (if contains bb q && contains (with_center c (d_size d)) q then d_pixel d (padd (psub q c) m) else None) /\
  (is_zero_sized (d_box d) = false -> contains bb c = true ->
     render bb (image_draw (image_with_center d c)) c = d_pixel d m /\ d_pixel d m <> None).
Proof.
  intros H Hfit o m.
  assert (Eo : o = psub c m).
  { unfold o, m, with_center, psub_size, center_offset, size_sat_sub, sat_sub_u32, psub. cbn [tl px py sw sh].
    reflexivity. }
  assert (Hr : forall q', render bb (image_draw (image_with_center d c)) q' =
     (if contains bb q' && contains (with_center c (d_size d)) q' then d_pixel d (padd (psub q' c) m) else None)).
  { intros q'. unfold image_with_center. fold o. rewrite image_draw_spec_fits; [|assumption|tauto].
    rewrite image_box_eq, padd_zero_l.
    replace (R o (d_size d)) with (with_center c (d_size d)) by reflexivity.
    replace (psub q' o) with (padd (psub q' c) m); [reflexivity|].
    rewrite Eo. unfold psub, padd. cbn [px py]. f_equal; lia. }
  split; [exact Eo|]. split; [apply Hr|].
  intros Hnz Hbc. rewrite Hr, Hbc. cbn [andb].
  pose proof (d_size_nonneg d H) as (Hw & Hh).
  unfold is_zero_sized, d_box, origin_box in Hnz. cbn [sz] in Hnz.
  assert (Hc : contains (with_center c (d_size d)) c = true).
  { apply contains_spec. unfold with_center, psub_size, center_offset, size_sat_sub, sat_sub_u32.
    cbn [tl sz px py sw sh]. lia. }
  rewrite Hc. replace (padd (psub c c) m) with m by (unfold psub, padd, m; cbn [px py]; f_equal; lia).
  split; [reflexivity|]. intros Hn. apply (d_pixel_none_iff d m H) in Hn.
  assert (contains (d_box d) m = true); [|congruence].
  apply origin_box_contains. unfold m. cbn [px py]. lia.
Qed.

(* ---- ImageDrawable::draw_sub_image called directly on an ImageRaw ---------------------------------- *)
(* image_raw.rs:226-231: the two sums `x as u32 + width`, `y as u32 + height` are u32 additions evaluated left
   to right inside an `||` chain; they are computed only when the earlier tests are false.  This is the exact
   condition under which they do not overflow (debug: panic at image_raw.rs:229/230; release: wrap-around, the
   area passes the test and the row skip underflows) - e.g. area (1,0) 4294967295 x 1 violates it. *)
Definition direct_area_fits (img : image_raw) (a : rect) : Prop :=
  i32_min <= px (tl a) <= i32_max /\ i32_min <= py (tl a) <= i32_max /\
  0 <= sw (sz a) <= u32_max /\ 0 <= sh (sz a) <= u32_max /\
  (is_zero_sized a = true \/ px (tl a) < 0 \/ py (tl a) < 0 \/
   (px (tl a) + sw (sz a) <= u32_max /\
    (px (tl a) + sw (sz a) > sw (ir_size img) \/ py (tl a) + sh (sz a) <= u32_max))).

Theorem draw_sub_image_direct img a :
  img_ok img -> direct_area_fits img a ->
  (inside (ir_size img) a ->
     raw_draw_sub_image img a =
     [FillContiguous (origin_box (sz a)) (area_stream img (px (tl a)) (py (tl a)) (sw (sz a)) (sh (sz a)))]) /\
  (~ inside (ir_size img) a -> raw_draw_sub_image img a = []).
Proof.
  intros H Hf. split.
  - apply raw_draw_sub_image_inside; assumption.
  - intros Hn. unfold raw_draw_sub_image. destruct (_ || _) eqn:E; [reflexivity|].
    exfalso. apply Hn. unfold direct_area_fits, inside, is_zero_sized in *. lia.
Qed.

(* areas that sub_image produces always satisfy it *)
Lemma inside_direct_area_fits img a : img_ok img -> inside (ir_size img) a -> direct_area_fits img a.
Proof.
  intros (_ & Hs & _) (Hw & Hh & Hx & Hy & Hxw & Hyh).
  unfold direct_area_fits, size_ok, bound, i32_max, i32_min, u32_max in *. repeat split; try lia.
  all: right; right; right; lia.
Qed.

Theorem with_center_spec_fits d c :
  0 <= sw (d_size d) -> 0 <= sh (d_size d) -> with_center_fits c (d_size d) ->
  let i := image_with_center d c in
  image_box i = with_center c (d_size d) /\
  sz (image_box i) = d_size d /\
  i = image_new d (psub_size c (S (Z.max (sw (d_size d) - 1) 0 / 2) (Z.max (sh (d_size d) - 1) 0 / 2))) /\
  center (image_box i) = c /\
  (forall br, bottom_right (image_box i) = Some br ->
     0 <= px (tl (image_box i)) + px br - 2 * px c <= 1 /\
     0 <= py (tl (image_box i)) + py br - 2 * py c <= 1).
Proof. intros Hw Hh _. apply with_center_spec; assumption. Qed.

(* ---- ImageRaw::new_const ---------------------------------------------------------------------------- *)
Theorem new_const_spec bpp alt data s :
  (Z.of_nat (length data) = bytes_per_row (sw s) bpp * sh s ->
     raw_new_const bpp alt data s = Some (IR data s bpp alt) /\ raw_new bpp alt data s = inl (IR data s bpp alt)) /\
  (Z.of_nat (length data) <> bytes_per_row (sw s) bpp * sh s ->
     raw_new_const bpp alt data s = None /\ raw_new bpp alt data s = inr (bytes_per_row (sw s) bpp * sh s)).
Proof.
  unfold raw_new_const, raw_new. destruct (Z.of_nat (length data) =? _) eqn:E; cbn [negb]; split; intros H;
    try (exfalso; lia); split; reflexivity.
Qed.

(* ---- ImageDrawable::draw_sub_image called directly on a SubImage ------------------------------------ *)
(* sub_image.rs:60-67 only re-bases; the bounds tests are those of the ROOT image (image_raw.rs:226-231).  So a
   direct call with an area outside the SubImage's own box, but inside the root, draws root pixels the SubImage
   does not show.  (Not reachable through `sub_image()`, which clips first; the trait documents the method as
   not for user code.) *)
Theorem d_draw_sub_image_root d : forall a,
  d_draw_sub_image d a = raw_draw_sub_image (d_root d) (translate_rect a (d_origin d)).
Proof.
  induction d as [img|parent IH a0]; intros a; cbn [d_draw_sub_image d_root d_origin].
  - unfold translate_rect. rewrite padd_zero_r. destruct a as [t s]. reflexivity.
  - rewrite IH. f_equal. unfold translate_rect. cbn [tl sz]. rewrite padd_assoc. reflexivity.
Qed.
