(* Lemmas about Model/Imageraw.v (property C09). *)
From EG Require Import Base.Prelude Base.Lemmas Model.Geometry Proofs.Geometry Model.Imageraw.
From Coq Require Import ZifyBool.

Ltac Zify.zify_post_hook ::= Z.to_euclidean_division_equations.
Set Default Timeout 60.

(* ---- ImageRaw::new ------------------------------------------------------- *)
Theorem new_ok_iff bpp alt data s :
  (exists img, raw_new bpp alt data s = inl img) <->
  Z.of_nat (length data) = bytes_per_row (sw s) bpp * sh s.
Proof.
  unfold raw_new. destruct (Z.of_nat (length data) =? _) eqn:E; cbn [negb]; split.
  - intros _. lia.
  - intros _. eexists. reflexivity.
  - intros [img H]. discriminate.
  - intros H. lia.
Qed.
