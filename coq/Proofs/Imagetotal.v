(* Image / SubImage part of C08: the image arithmetic is total on display-scale inputs, the rejecting branches
   reject without panic for all inputs, the colour iterator's counters never underflow and its fuel never runs out. *)
From EG Require Import Base.Prelude Base.Lemmas Model.Geometry Proofs.Geometry Model.Imageraw Proofs.Imageraw.
From Coq Require Import ZifyBool.

Ltac Zify.zify_post_hook ::= Z.to_euclidean_division_equations.
Set Default Timeout 60.

(* display scale (DESIGN section 5, C08): extents up to 1024, coordinates within +-1024 *)
Definition dscale : Z := 1024.
Definition size_display (s : size) : Prop := 0 <= sw s <= dscale /\ 0 <= sh s <= dscale.
Definition point_display (p : point) : Prop := - dscale <= px p <= dscale /\ - dscale <= py p <= dscale.

Ltac unf_ok :=
  unfold raw_new_ok, raw_draw_ok, raw_draw_sub_image_ok, raw_pixel_ok, data_width_ok, bytes_per_row_ok,
    data_width, bytes_per_row, in_u32, in_i32, u32_max, i32_max, i32_min, size_display, point_display, dscale in *.

Theorem new_total bpp s : bpp_ok bpp -> size_display s -> raw_new_ok bpp s = true.
Proof.
  intros Hb Hs. destruct s as [w h]. unf_ok. cbn [sw sh] in *.
  bpp_cases Hb; subst bpp; nia.
Qed.

Lemma data_width_total img : img_ok img -> size_display (ir_size img) -> data_width_ok img = true.
Proof.
  destruct img as [data [w h] bpp alt]. intros (Hb & _ & _) Hs. unf_ok. cbn [ir_bpp ir_size sw sh] in *.
  bpp_cases Hb; subst bpp; norm_consts; lia.
Qed.

Lemma data_width_display img :
  img_ok img -> size_display (ir_size img) -> sw (ir_size img) <= data_width img <= dscale + 7.
Proof.
  intros H Hs. pose proof (data_width_bounds img H). unfold size_display in Hs. lia.
Qed.

Theorem draw_total img : img_ok img -> size_display (ir_size img) -> raw_draw_ok img = true.
Proof.
  intros H Hs. unfold raw_draw_ok. rewrite data_width_total by assumption.
  pose proof (data_width_display img H Hs). cbn [andb]. lia.
Qed.

Theorem draw_sub_image_total img area :
  img_ok img -> size_display (ir_size img) -> point_display (tl area) -> size_display (sz area) ->
  raw_draw_sub_image_ok img area = true.
Proof.
  intros H Hs Hp Ha. pose proof (data_width_display img H Hs) as Hdw.
  unfold raw_draw_sub_image_ok. rewrite data_width_total by assumption.
  unfold size_display, point_display, dscale, in_u32, u32_max in *.
  destruct (_ || _) eqn:E0; [reflexivity|].
  destruct (_ >? sw (ir_size img)) eqn:E1; [lia|].
  destruct (_ >? sh (ir_size img)) eqn:E2; [lia|].
  assert (0 <= py (tl area) * data_width img <= 1024 * 1031) by nia.
  lia.
Qed.

Theorem pixel_total img p : img_ok img -> size_display (ir_size img) -> raw_pixel_ok img p = true.
Proof.
  intros H Hs. pose proof (data_width_display img H Hs) as Hdw.
  unfold raw_pixel_ok. rewrite data_width_total by assumption.
  unfold size_display, dscale, in_u32, u32_max in *.
  destruct (_ || _) eqn:E0; [reflexivity|].
  assert (0 <= py p * data_width img <= 1024 * 1031) by nia. lia.
Qed.

(* ---- rejection without panic, for ALL inputs ---------------------------------------- *)
Theorem pixel_oob_none img p : contains (origin_box (ir_size img)) p = false -> raw_pixel img p = None.
Proof. apply raw_pixel_outside. Qed.

Theorem draw_sub_image_rejects img area :
  ~ inside (ir_size img) area -> direct_area_fits img area -> raw_draw_sub_image img area = [].
Proof.
  intros Hn Hf. assert (Hw : 0 <= sw (sz area)) by (unfold direct_area_fits in Hf; lia).
  assert (Hh : 0 <= sh (sz area)) by (unfold direct_area_fits in Hf; lia). unfold raw_draw_sub_image. destruct (_ || _) eqn:E; [reflexivity|].
  exfalso. apply Hn. unfold inside, is_zero_sized in *. lia.
Qed.

Theorem sub_image_outside_empty d area o :
  d_wf d -> area_fits area -> (forall p, contains (d_box d) p && contains area p = false) ->
  image_draw (Img (sub_image d area) o) = [] /\ is_zero_sized (d_box (sub_image d area)) = true.
Proof.
  intros H Ha Hdis. apply area_fits_nonneg in Ha.
  assert (Hz : is_zero_sized (intersection (d_box d) area) = true).
  { apply intersection_empty; [apply d_box_nonneg; assumption|assumption|exact Hdis]. }
  split; [|exact Hz]. unfold image_draw, sub_image. cbn [im_drawable d_draw].
  rewrite d_draw_sub_image_zero by exact Hz. reflexivity.
Qed.

(* ---- ContiguousPixels: the counters never underflow ------------------------------------ *)
Definition cp_inv (st : cpix) : Prop :=
  0 <= cp_rx st /\ 0 <= cp_ry st /\ (0 < cp_ry st -> 1 <= cp_width st).

Lemma cp_new_inv img s isk skip : 0 <= sw s -> 0 <= sh s -> cp_inv (cp_new img s isk skip).
Proof.
  intros Hw Hh. unfold cp_inv, cp_new, sat_sub_u32. cbn [cp_rx cp_ry cp_width].
  destruct (0 <? sh s) eqn:E1; destruct (0 <? sw s) eqn:E2; lia.
Qed.

Lemma cp_next_inv img st : cp_inv st -> cp_next_ok st = true /\ cp_inv (snd (cp_next img st)).
Proof.
  destruct st as [idx rx W ry skip]. unfold cp_inv, cp_next_ok, cp_next. cbn [cp_rx cp_ry cp_width cp_index cp_row_skip].
  intros (Hrx & Hry & HW).
  destruct (0 <? rx) eqn:E1.
  - destruct (raw_next _ _ _ idx) as [v i]. cbn [snd cp_rx cp_ry cp_width]. lia.
  - destruct (ry =? 0) eqn:E2; [cbn [snd cp_rx cp_ry cp_width]; lia|].
    destruct (raw_nth _ _ _ idx skip) as [v i]. cbn [snd cp_rx cp_ry cp_width]. lia.
Qed.

Lemma cp_new_site_ok isk : 0 <= isk -> cp_new_ok isk = true.
Proof. intros H. unfold cp_new_ok. destruct (0 <? isk) eqn:E; lia. Qed.

(* every state the iterator goes through when it is pulled to its end *)
Fixpoint cp_states (fuel : nat) (img : image_raw) (st : cpix) : list cpix :=
  match fuel with
  | O => [st]
  | Datatypes.S k =>
      match cp_next img st with
      | (None, _) => [st]
      | (Some _, st') => st :: cp_states k img st'
      end
  end.

Theorem cp_counters_total img s isk skip fuel :
  0 <= sw s -> 0 <= sh s -> 0 <= isk ->
  cp_new_ok isk = true /\
  Forall (fun st => cp_next_ok st = true) (cp_states fuel img (cp_new img s isk skip)).
Proof.
  intros Hw Hh Hi. split; [apply cp_new_site_ok; assumption|].
  pose proof (cp_new_inv img s isk skip Hw Hh) as Hinv. revert Hinv. generalize (cp_new img s isk skip).
  induction fuel as [|fuel IH]; intros st Hinv; cbn [cp_states].
  - constructor; [apply (cp_next_inv img st Hinv)|constructor].
  - destruct (cp_next_inv img st Hinv) as (Hok & Hinv'). destruct (cp_next img st) as [[v|] st'].
    + constructor; [exact Hok|]. apply IH. exact Hinv'.
    + constructor; [exact Hok|constructor].
Qed.

(* ---- termination: the fuel the model passes never runs out ------------------------------ *)
Theorem cp_fuel_ok img area :
  img_ok img -> inside (ir_size img) area ->
  let st := cp_new img (sz area) (py (tl area) * data_width img + px (tl area)) (data_width img - sw (sz area)) in
  exists l, cp_run (cp_fuel st) img st = Some l /\
            Z.of_nat (length l) = sw (sz area) * sh (sz area).
Proof.
  intros H Hin st. destruct Hin as (Hw & Hh & Hx & Hy & Hxw & Hyh).
  destruct area as [[ax ay] [aw ah]]. cbn [tl sz px py sw sh] in *.
  pose proof (cp_list_area img ax ay aw ah _ H Hx Hy Hw Hh Hxw Hyh eq_refl) as Hl. fold st in Hl.
  unfold cp_list in Hl. destruct (cp_run (cp_fuel st) img st) as [l|] eqn:E.
  - exists l. split; [reflexivity|]. rewrite Hl. unfold area_stream. rewrite map_length, length_row_major. lia.
  - exfalso. apply (f_equal (@length Z)) in Hl. unfold area_stream in Hl. rewrite map_length in Hl.
    apply (f_equal Z.of_nat) in Hl. rewrite length_row_major in Hl. cbn [length] in Hl. nia.
Qed.

Theorem cp_fuel_ok_draw img :
  img_ok img ->
  let st := cp_new img (ir_size img) 0 (data_width img - sw (ir_size img)) in
  exists l, cp_run (cp_fuel st) img st = Some l /\
            Z.of_nat (length l) = sw (ir_size img) * sh (ir_size img).
Proof.
  intros H st.
  destruct (Z_lt_le_dec 0 (sw (ir_size img))) as [Hw|Hw]; destruct (Z_lt_le_dec 0 (sh (ir_size img))) as [Hh|Hh].
  - assert (Hin : inside (ir_size img) (R (P 0 0) (ir_size img))) by (unfold inside; cbn [tl sz px py]; lia).
    destruct (cp_fuel_ok img _ H Hin) as (l & Hl & Hn). cbn [tl sz px py] in Hl, Hn. exists l. split; [exact Hl|exact Hn].
  - assert (E : sh (ir_size img) = 0) by (destruct H as (_ & Hs & _); unfold size_ok in Hs; lia).
    exists []. split; [|cbn [length]; nia].
    unfold st, cp_new, cp_fuel. rewrite E. change (0 <? 0) with false. cbv iota. cbn [cp_rx cp_ry cp_width].
    destruct (0 <? sw (ir_size img)); reflexivity.
  - assert (E : sw (ir_size img) = 0) by (destruct H as (_ & Hs & _); unfold size_ok in Hs; lia).
    exists []. split; [|cbn [length]; nia].
    unfold st, cp_new, cp_fuel. rewrite E. change (0 <? 0) with false. cbv iota. cbn [cp_rx cp_ry cp_width].
    destruct (0 <? sh (ir_size img)); reflexivity.
  - assert (E : sw (ir_size img) = 0) by (destruct H as (_ & Hs & _); unfold size_ok in Hs; lia).
    exists []. split; [|cbn [length]; nia].
    unfold st, cp_new, cp_fuel. rewrite E. change (0 <? 0) with false. cbv iota. cbn [cp_rx cp_ry cp_width].
    destruct (0 <? sh (ir_size img)); reflexivity.
Qed.

(* ---- the i32 additions: re-basing of nested areas, Image offset, Image::translate -------- *)
Theorem padd_total a b : point_display a -> point_display b -> padd_ok a b = true.
Proof. unfold padd_ok. unf_ok. lia. Qed.

(* re-basing keeps an area that lies inside a display-scale sub image inside display scale *)
Theorem rebase_display ps a area :
  size_display ps -> inside ps a -> inside (sz a) area ->
  point_display (tl area) /\ point_display (tl a) /\ padd_ok (tl area) (tl a) = true /\
  inside ps (translate_rect area (tl a)).
Proof.
  intros Hs (Hw & Hh & Hx & Hy & Hxw & Hyh) (Hw' & Hh' & Hx' & Hy' & Hxw' & Hyh').
  unfold padd_ok, inside, translate_rect, padd. unf_ok. cbn [tl sz px py]. lia.
Qed.
