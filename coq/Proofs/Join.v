(* Proofs about Model/Join.v: every function of the thick stroke join machinery commutes with translation
   (property C07, join part).
   Layout: (1) rounding division, (2) linear equations, (3) intersections, (4) the parallels iterator and
   Line::extents, (5) line joins, (6) scanlines, thick segments and the thick polyline pipeline. *)
From EG Require Import Base.Prelude Base.Lemmas Model.Geometry Model.Style Model.Line Model.Thickline Model.Join.
From Coq Require Import ZifyBool.

Ltac Zify.zify_post_hook ::= Z.to_euclidean_division_equations.
Set Default Timeout 60.

(* point equalities: open the records, compare coordinates *)
Ltac pt_eq := unfold padd, psub in *; cbn [px py] in *; f_equal; lia.

Lemma padd_swap a b d : padd (padd a d) b = padd (padd a b) d.
Proof. pt_eq. Qed.
Lemma psub_padd_padd a b d : psub (padd a d) (padd b d) = psub a b.
Proof. pt_eq. Qed.
Lemma psub_padd_l a b d : psub (padd a d) b = padd (psub a b) d.
Proof. pt_eq. Qed.
Lemma point_eqb_padd a b d : point_eqb (padd a d) (padd b d) = point_eqb a b.
Proof.
  unfold point_eqb, padd; cbn [px py].
  destruct (px a =? px b) eqn:E1, (py a =? py b) eqn:E2;
  destruct (px a + px d =? px b + px d) eqn:E3, (py a + py d =? py b + py d) eqn:E4; try reflexivity; lia.
Qed.
Lemma point_eqb_eq a b : point_eqb a b = true <-> a = b.
Proof.
  unfold point_eqb. destruct a as [ax ay], b as [bx by_]; cbn [px py]. split.
  - intros H. apply andb_true_iff in H as [H1 H2]. f_equal; lia.
  - intros H. injection H as -> ->. rewrite !Z.eqb_refl. reflexivity.
Qed.

(* ================================================================================================ *)
(* (1) rounding division                                                                             *)
(* ================================================================================================ *)

(* the arithmetic core of repair a4a7ab8: rounding with floor((n + d/2) / d) commutes with adding
   multiples of the divisor -- which is what a translation does to the numerators (see (3)) *)
Lemma round_div_shift n k d : 0 < d -> (n + k * d + d / 2) / d = (n + d / 2) / d + k.
Proof.
  intros Hd. replace (n + k * d + d / 2) with ((n + d / 2) + k * d) by ring.
  apply Z.div_add. lia.
Qed.

Lemma div_euclid_pos a b : 0 < b -> div_euclid a b = a / b.
Proof. intros H. unfold div_euclid. destruct (0 <? b) eqn:E; [reflexivity | lia]. Qed.

(* div_euclid is Euclidean division: 0 <= remainder < |b| *)
Lemma div_euclid_spec a b : b <> 0 -> 0 <= a - b * div_euclid a b < Z.abs b.
Proof.
  intros Hb. unfold div_euclid. destruct (0 <? b) eqn:E.
  - assert (0 < b) by lia. pose proof (Z.mod_pos_bound a b H). rewrite Z.mod_eq in H0 by lia. lia.
  - assert (0 < - b) by lia. pose proof (Z.mod_pos_bound a (- b) H). rewrite Z.mod_eq in H0 by lia.
    replace (b * - (a / - b)) with (- b * (a / - b)) by ring. lia.
Qed.

Lemma round_div_raw_pos den num : 0 < den -> round_div_raw den num = (num + den / 2) / den.
Proof.
  intros H. unfold round_div_raw. destruct (den <? 0) eqn:E; [lia|].
  rewrite div_euclid_pos by lia. rewrite Z.quot_div_nonneg by lia. reflexivity.
Qed.

Lemma round_div_raw_neg den num : den < 0 -> round_div_raw den num = (- num + (- den) / 2) / (- den).
Proof.
  intros H. unfold round_div_raw. destruct (den <? 0) eqn:E; [|lia].
  rewrite div_euclid_pos by lia. rewrite Z.quot_div_nonneg by lia. reflexivity.
Qed.

(* translation adds k * den to a numerator; the rounded quotient moves by exactly k, whatever the signs *)
Lemma round_div_raw_shift den num k : den <> 0 ->
  round_div_raw den (num + k * den) = round_div_raw den num + k.
Proof.
  intros Hd. destruct (Z_lt_ge_dec den 0) as [Hn|Hp].
  - rewrite !round_div_raw_neg by lia.
    replace (- (num + k * den)) with (- num + k * (- den)) by ring.
    apply round_div_shift. lia.
  - rewrite !round_div_raw_pos by lia. apply round_div_shift. lia.
Qed.

(* the rounded quotient is the nearest integer, ties towards +infinity:  2*|den|*q - |den| <= 2*n' < 2*|den|*q + |den| *)
Lemma round_div_raw_nearest den num : den <> 0 ->
  let q := round_div_raw den num in
  let n' := if den <? 0 then - num else num in
  - Z.abs den <= 2 * (Z.abs den * q - n') + (Z.abs den mod 2) /\ 2 * (Z.abs den * q - n') < Z.abs den + 1.
Proof.
  intros Hd q n'. subst q n'. destruct (Z_lt_ge_dec den 0) as [Hn|Hp].
  - rewrite round_div_raw_neg by lia. destruct (den <? 0) eqn:E; [|lia].
    rewrite (Z.abs_neq den) by lia. lia.
  - rewrite round_div_raw_pos by lia. destruct (den <? 0) eqn:E; [lia|].
    rewrite (Z.abs_eq den) by lia. lia.
Qed.

(* no larger than the numerator in absolute value: used for the no-saturation range *)
Lemma round_div_raw_abs den num : den <> 0 -> Z.abs (round_div_raw den num) <= Z.abs num.
Proof.
  intros Hd. destruct (Z_lt_ge_dec den 0) as [Hn|Hp].
  - rewrite round_div_raw_neg by lia. nia.
  - rewrite round_div_raw_pos by lia. nia.
Qed.

Lemma sat_as_i32_id x : in_i32 x = true -> sat_as_i32 x = x.
Proof. unfold in_i32, sat_as_i32, i32_min, i32_max. lia. Qed.

(* ================================================================================================ *)
(* (2) linear equations                                                                              *)
(* ================================================================================================ *)

Lemma line_delta_translate l d : line_delta (translate_line l d) = line_delta l.
Proof. unfold line_delta, translate_line; cbn [l_start l_end]. apply psub_padd_padd. Qed.

Lemma le_from_line_translate l d :
  le_from_line (translate_line l d) =
  LE (normal_vector (le_from_line l))
     (origin_distance (le_from_line l) + dot_product d (normal_vector (le_from_line l))).
Proof.
  unfold le_from_line. rewrite line_delta_translate. cbn [normal_vector origin_distance].
  f_equal. unfold dot_product, translate_line, padd; cbn [l_start px py]. ring.
Qed.

(* the distance does not change when the point and the line move together *)
Lemma le_distance_translate l p d :
  le_distance (le_from_line (translate_line l d)) (padd p d) = le_distance (le_from_line l) p.
Proof.
  rewrite le_from_line_translate. unfold le_distance; cbn [normal_vector origin_distance].
  unfold dot_product, padd; cbn [px py]. ring.
Qed.

Lemma le_check_side_translate l p d s :
  le_check_side (le_from_line (translate_line l d)) (padd p d) s = le_check_side (le_from_line l) p s.
Proof. unfold le_check_side. rewrite le_distance_translate. reflexivity. Qed.

(* what the distance is: the cross product of the direction with (p - start); zero exactly on the line *)
Lemma le_distance_cross l p :
  le_distance (le_from_line l) p = determinant (line_delta l) (psub p (l_start l)).
Proof.
  unfold le_distance, le_from_line, determinant, dot_product, rotate_90, line_delta, psub;
  cbn [normal_vector origin_distance px py]. ring.
Qed.

(* ================================================================================================ *)
(* (3) intersections                                                                                 *)
(* ================================================================================================ *)

Definition tr_ip (d : point) (ip : iparams) : iparams :=
  ip_from_lines (translate_line (ip_line1 ip) d) (translate_line (ip_line2 ip) d).

Lemma ip_den_translate l1 l2 d :
  ip_den (ip_from_lines (translate_line l1 d) (translate_line l2 d)) = ip_den (ip_from_lines l1 l2).
Proof. unfold ip_from_lines; cbn [ip_den]. rewrite !le_from_line_translate. reflexivity. Qed.

Lemma ip_x_numerator_translate l1 l2 d :
  ip_x_numerator (ip_from_lines (translate_line l1 d) (translate_line l2 d)) =
  ip_x_numerator (ip_from_lines l1 l2) + px d * ip_den (ip_from_lines l1 l2).
Proof.
  unfold ip_x_numerator, ip_from_lines; cbn [ip_le1 ip_le2 ip_den]. rewrite !le_from_line_translate.
  cbn [normal_vector origin_distance]. unfold det2, determinant, dot_product. ring.
Qed.

Lemma ip_y_numerator_translate l1 l2 d :
  ip_y_numerator (ip_from_lines (translate_line l1 d) (translate_line l2 d)) =
  ip_y_numerator (ip_from_lines l1 l2) + py d * ip_den (ip_from_lines l1 l2).
Proof.
  unfold ip_y_numerator, ip_from_lines; cbn [ip_le1 ip_le2 ip_den]. rewrite !le_from_line_translate.
  cbn [normal_vector origin_distance]. unfold det2, determinant, dot_product. ring.
Qed.

Lemma nearly_colinear_translate l1 l2 d :
  nearly_colinear_has_error (ip_from_lines (translate_line l1 d) (translate_line l2 d)) =
  nearly_colinear_has_error (ip_from_lines l1 l2).
Proof.
  unfold nearly_colinear_has_error. rewrite ip_den_translate.
  unfold ip_from_lines; cbn [ip_line1 ip_line2]. rewrite !line_delta_translate. reflexivity.
Qed.

(* before the saturating cast the intersection point moves exactly with the lines: no hypothesis at all *)
Lemma ip_intersection_raw_translate l1 l2 d : ip_den (ip_from_lines l1 l2) <> 0 ->
  ip_intersection_raw (ip_from_lines (translate_line l1 d) (translate_line l2 d)) =
  padd (ip_intersection_raw (ip_from_lines l1 l2)) d.
Proof.
  intros Hd. unfold ip_intersection_raw.
  rewrite ip_den_translate, ip_x_numerator_translate, ip_y_numerator_translate.
  rewrite !round_div_raw_shift by assumption. reflexivity.
Qed.

Lemma ip_intersection_nosat ip : isect_nosat ip = true ->
  ip_intersection ip =
  if ip_den ip =? 0 then IColinear
  else IPoint (ip_intersection_raw ip) (if ip_den ip <? 0 then SLeft else SRight).
Proof.
  unfold isect_nosat, ip_intersection, pt_in_i32, ip_intersection_raw, round_div; cbn [px py].
  destruct (ip_den ip =? 0) eqn:E; [reflexivity|]. cbn [orb]. intros H.
  apply andb_true_iff in H as [Hx Hy]. rewrite !sat_as_i32_id by assumption. reflexivity.
Qed.

(* IntersectionParams::intersection commutes with translation whenever neither computation saturates *)
Lemma ip_intersection_translate l1 l2 d :
  isect_nosat (ip_from_lines l1 l2) = true ->
  isect_nosat (ip_from_lines (translate_line l1 d) (translate_line l2 d)) = true ->
  ip_intersection (ip_from_lines (translate_line l1 d) (translate_line l2 d)) =
  tr_isect d (ip_intersection (ip_from_lines l1 l2)).
Proof.
  intros H1 H2. rewrite (ip_intersection_nosat _ H1), (ip_intersection_nosat _ H2).
  rewrite ip_den_translate. destruct (ip_den (ip_from_lines l1 l2) =? 0) eqn:E; [reflexivity|].
  cbn [tr_isect]. rewrite ip_intersection_raw_translate by lia. reflexivity.
Qed.

(* ---- a coordinate range in which the cast is never reached ---------------------------------------
   With all four end points within +-B: |normal| <= 2B, |origin_distance| <= 4B^2, |numerator| <= 16B^3,
   and |rounded quotient| <= |numerator|.  16 * 511^3 = 2 134 925 296 < 2^31 - 1, while 16 * 512^3 = 2^31:
   B = 511 is the largest bound this estimate admits (the estimate is attained up to a constant: two lines
   of slopes 1/(2B) and 1/(2B-1) through lattice points within +-B meet about 8B^3 away). *)
Definition jbound : Z := 511.
Definition jpoint_ok (p : point) : Prop := - jbound <= px p <= jbound /\ - jbound <= py p <= jbound.
Definition jline_ok (l : line) : Prop := jpoint_ok (l_start l) /\ jpoint_ok (l_end l).

Lemma abs_mul_le a b A B : Z.abs a <= A -> Z.abs b <= B -> Z.abs (a * b) <= A * B.
Proof. intros. rewrite Z.abs_mul. apply Z.mul_le_mono_nonneg; lia. Qed.

Lemma isect_nosat_range l1 l2 : jline_ok l1 -> jline_ok l2 -> isect_nosat (ip_from_lines l1 l2) = true.
Proof.
  intros [[S1x S1y] [E1x E1y]] [[S2x S2y] [E2x E2y]]. unfold jbound in *.
  unfold isect_nosat. destruct (ip_den (ip_from_lines l1 l2) =? 0) eqn:E; [reflexivity|]. cbn [orb].
  assert (Hd : ip_den (ip_from_lines l1 l2) <> 0) by lia.
  unfold pt_in_i32, ip_intersection_raw; cbn [px py].
  pose proof (round_div_raw_abs _ (ip_x_numerator (ip_from_lines l1 l2)) Hd) as Hx.
  pose proof (round_div_raw_abs _ (ip_y_numerator (ip_from_lines l1 l2)) Hd) as Hy.
  clear E Hd.
  set (n1x := px (normal_vector (le_from_line l1))). set (n1y := py (normal_vector (le_from_line l1))).
  set (n2x := px (normal_vector (le_from_line l2))). set (n2y := py (normal_vector (le_from_line l2))).
  set (o1 := origin_distance (le_from_line l1)). set (o2 := origin_distance (le_from_line l2)).
  assert (N1x : Z.abs n1x <= 1022) by (subst n1x; unfold le_from_line, rotate_90, line_delta, psub; cbn; lia).
  assert (N1y : Z.abs n1y <= 1022) by (subst n1y; unfold le_from_line, rotate_90, line_delta, psub; cbn; lia).
  assert (N2x : Z.abs n2x <= 1022) by (subst n2x; unfold le_from_line, rotate_90, line_delta, psub; cbn; lia).
  assert (N2y : Z.abs n2y <= 1022) by (subst n2y; unfold le_from_line, rotate_90, line_delta, psub; cbn; lia).
  assert (O1 : Z.abs o1 <= 1044484).
  { subst o1. unfold le_from_line at 1; cbn [origin_distance]. fold (le_from_line l1).
    unfold dot_product. change (normal_vector (le_from_line l1)) with (P n1x n1y) || idtac.
    assert (Z.abs (px (l_start l1) * px (normal_vector (le_from_line l1))) <= 511 * 1022) by (apply abs_mul_le; [lia | exact N1x]).
    assert (Z.abs (py (l_start l1) * py (normal_vector (le_from_line l1))) <= 511 * 1022) by (apply abs_mul_le; [lia | exact N1y]).
    unfold le_from_line in *; cbn [normal_vector] in *. lia. }
  assert (O2 : Z.abs o2 <= 1044484).
  { subst o2. unfold le_from_line at 1; cbn [origin_distance]. fold (le_from_line l2).
    unfold dot_product.
    assert (Z.abs (px (l_start l2) * px (normal_vector (le_from_line l2))) <= 511 * 1022) by (apply abs_mul_le; [lia | exact N2x]).
    assert (Z.abs (py (l_start l2) * py (normal_vector (le_from_line l2))) <= 511 * 1022) by (apply abs_mul_le; [lia | exact N2y]).
    unfold le_from_line in *; cbn [normal_vector] in *. lia. }
  assert (X : Z.abs (ip_x_numerator (ip_from_lines l1 l2)) <= 2 * (1044484 * 1022)).
  { unfold ip_x_numerator, ip_from_lines, det2; cbn [ip_le1 ip_le2]. fold o1 o2 n1y n2y.
    pose proof (abs_mul_le _ _ _ _ O1 N2y). pose proof (abs_mul_le _ _ _ _ O2 N1y). lia. }
  assert (Y : Z.abs (ip_y_numerator (ip_from_lines l1 l2)) <= 2 * (1044484 * 1022)).
  { unfold ip_y_numerator, ip_from_lines, det2; cbn [ip_le1 ip_le2]. fold o1 o2 n1x n2x.
    pose proof (abs_mul_le _ _ _ _ N1x O2). pose proof (abs_mul_le _ _ _ _ N2x O1). lia. }
  unfold in_i32, i32_min, i32_max. lia.
Qed.

Lemma jline_ok_translate_start l d : l_start (translate_line l d) = padd (l_start l) d.
Proof. reflexivity. Qed.

(* IntersectionParams::intersection commutes with translation for lines within +-511 before and after *)
Lemma ip_intersection_translate_range l1 l2 d :
  jline_ok l1 -> jline_ok l2 -> jline_ok (translate_line l1 d) -> jline_ok (translate_line l2 d) ->
  ip_intersection (ip_from_lines (translate_line l1 d) (translate_line l2 d)) =
  tr_isect d (ip_intersection (ip_from_lines l1 l2)).
Proof. intros. apply ip_intersection_translate; apply isect_nosat_range; assumption. Qed.

(* ================================================================================================ *)
(* (4) the parallels iterator and Line::extents                                                      *)
(* ================================================================================================ *)

Definition tr_bs (d : point) (s : bstate) : bstate := BS (padd (b_point s) d) (b_error s).
Definition tr_bpt (d : point) (b : bpoint) : bpoint :=
  match b with BNormal p => BNormal (padd p d) | BExtra p => BExtra (padd p d) end.
Definition tr_ps (d : point) (s : pstate) : pstate :=
  PS (par_params s) (perp_params s) (thick_acc s) (thick_thr s) (flip s)
     (tr_bs d (p_left s)) (left_error s) (tr_bs d (p_right s)) (right_error s) (next_side s) (p_offset s).
Definition tr_np (d : point) (r : bpoint * Z * pstate) : bpoint * Z * pstate :=
  (tr_bpt d (fst (fst r)), snd (fst r), tr_ps d (snd r)).
Definition tr_par (d : point) (r : bstate * ltype) : bstate * ltype := (tr_bs d (fst r), snd r).
Definition tr_line2 (d : point) (r : line * line) : line * line :=
  (translate_line (fst r) d, translate_line (snd r) d).

Lemma bnext_all_tr p s d :
  bnext_all p (tr_bs d s) = (tr_bpt d (fst (bnext_all p s)), tr_bs d (snd (bnext_all p s))).
Proof.
  unfold bnext_all, tr_bs; cbn [b_point b_error].
  destruct (error_threshold p <? b_error s); destruct (mirror_extra_points p);
    cbn [fst snd tr_bpt b_point b_error]; f_equal; f_equal; pt_eq.
Qed.

Lemma bprevious_all_tr p s d :
  bprevious_all p (tr_bs d s) = (tr_bpt d (fst (bprevious_all p s)), tr_bs d (snd (bprevious_all p s))).
Proof.
  unfold bprevious_all, tr_bs; cbn [b_point b_error].
  destruct (b_error s <=? - error_threshold p); destruct (mirror_extra_points p);
    cbn [fst snd tr_bpt b_point b_error negb]; f_equal; f_equal; pt_eq.
Qed.

Lemma next_parallel_tr d sd : forall fuel s,
  next_parallel fuel (tr_ps d s) sd = option_map (tr_np d) (next_parallel fuel s sd).
Proof.
  induction fuel as [|f IH]; intros s; [reflexivity|].
  destruct s as [pp qq acc thr fl pl le pr re ns po].
  cbn [next_parallel]. destruct sd.
  - cbn [tr_ps flip left_error right_error perp_params par_params p_left p_right thick_acc thick_thr next_side p_offset].
    rewrite bnext_all_tr. destruct (bnext_all qq pl) as [pt b'].
    cbn [fst snd]. destruct pt as [q|q]; cbn [tr_bpt]; [reflexivity|].
    destruct fl.
    + destruct (decrease_error pp le) as [e' took]. destruct took; [reflexivity|].
      exact (IH (PS pp qq acc thr true b' e' pr re ns po)).
    + destruct (increase_error pp le) as [e' took]. destruct took; [reflexivity|].
      exact (IH (PS pp qq acc thr false b' e' pr re ns po)).
  - cbn [tr_ps flip left_error right_error perp_params par_params p_left p_right thick_acc thick_thr next_side p_offset].
    rewrite bprevious_all_tr. destruct (bprevious_all qq pr) as [pt b'].
    cbn [fst snd]. destruct pt as [q|q]; cbn [tr_bpt]; [reflexivity|].
    destruct fl; cbn [negb].
    + destruct (increase_error pp re) as [e' took]. destruct took; [reflexivity|].
      exact (IH (PS pp qq acc thr true pl le b' e' ns po)).
    + destruct (decrease_error pp re) as [e' took]. destruct took; [reflexivity|].
      exact (IH (PS pp qq acc thr false pl le b' e' ns po)).
Qed.

Lemma bparams_new_translate l d : bparams_new (translate_line l d) = bparams_new l.
Proof.
  unfold bparams_new. fold (line_delta (translate_line l d)) (line_delta l).
  rewrite line_delta_translate. reflexivity.
Qed.

Lemma perpendicular_translate l d : perpendicular (translate_line l d) = translate_line (perpendicular l) d.
Proof.
  unfold perpendicular. fold (line_delta (translate_line l d)) (line_delta l). rewrite line_delta_translate.
  unfold translate_line; cbn [l_start l_end]. f_equal. apply padd_swap.
Qed.

Lemma degenerate_translate l d :
  point_eqb (l_start (translate_line l d)) (l_end (translate_line l d)) = point_eqb (l_start l) (l_end l).
Proof. unfold translate_line; cbn [l_start l_end]. apply point_eqb_padd. Qed.

(* the parameters ParallelsIterator::new derives from the line do not depend on its position *)
Lemma parallels_new_translate l w so d :
  parallels_new (translate_line l d) w so = option_map (tr_ps d) (parallels_new l w so).
Proof.
  unfold parallels_new. rewrite degenerate_translate.
  set (nside := match so with SONone => SRight | SOLeft => SLeft | SORight => SRight end).
  destruct (point_eqb (l_start l) (l_end l)) eqn:Dg.
  - (* degenerate line: the parameters come from the fixed horizontal line *)
    match goal with |- match next_parallel _ ?s1 _ with _ => _ end = option_map _ (match next_parallel _ ?s0 _ with _ => _ end) =>
      change s1 with (tr_ps d s0) end.
    rewrite next_parallel_tr. destruct (next_parallel np_fuel _ (side_swap nside)) as [[[pt e] s']|]; reflexivity.
  - rewrite perpendicular_translate, !bparams_new_translate.
    fold (line_delta (translate_line l d)) (line_delta l). rewrite line_delta_translate.
    match goal with |- match next_parallel _ ?s1 _ with _ => _ end = option_map _ (match next_parallel _ ?s0 _ with _ => _ end) =>
      change s1 with (tr_ps d s0) end.
    rewrite next_parallel_tr. destruct (next_parallel np_fuel _ (side_swap nside)) as [[[pt e] s']|]; reflexivity.
Qed.

Definition tr_step (d : point) (r : step_result (bstate * ltype)) : step_result (bstate * ltype) :=
  match r with
  | Fuel_out => Fuel_out
  | Done => Done
  | Yield a s => Yield (tr_par d a) (tr_ps d s)
  end.

Lemma parallels_next_tr d s : parallels_next (tr_ps d s) = tr_step d (parallels_next s).
Proof.
  unfold parallels_next.
  change (thick_thr (tr_ps d s)) with (thick_thr s). change (thick_acc (tr_ps d s)) with (thick_acc s).
  change (next_side (tr_ps d s)) with (next_side s).
  destruct (thick_thr s <? thick_acc s * thick_acc s); [reflexivity|].
  rewrite next_parallel_tr. destruct (next_parallel np_fuel s (next_side s)) as [[[pt e] s1]|]; [|reflexivity].
  cbn [option_map tr_np fst snd]. destruct s1 as [pp qq acc thr fl pl le pr re ns po].
  destruct pt as [q|q]; cbn [tr_bpt tr_ps thick_acc perp_params p_offset next_side];
    destruct po; reflexivity.
Qed.

Lemma parallels_run_tr d : forall fuel s,
  parallels_run fuel (tr_ps d s) = option_map (map (tr_par d)) (parallels_run fuel s).
Proof.
  induction fuel as [|f IH]; intros s; [reflexivity|].
  cbn [parallels_run]. rewrite parallels_next_tr.
  destruct (parallels_next s) as [| |a s']; cbn [tr_step]; try reflexivity.
  rewrite IH. destruct (parallels_run f s'); reflexivity.
Qed.

(* the sequence of parallels of a translated line is the translated sequence *)
Lemma parallels_translate l w so d :
  parallels (translate_line l d) w so = option_map (map (tr_par d)) (parallels l w so).
Proof.
  unfold parallels. rewrite parallels_new_translate.
  destruct (parallels_new l w so) as [s|]; [|reflexivity]. cbn [option_map].
  change (parallels_fuel (translate_line l d) w) with (parallels_fuel l w).
  apply parallels_run_tr.
Qed.

Lemma last_opt_map {A B} (f : A -> B) (l : list A) : last_opt (map f l) = option_map f (last_opt l).
Proof.
  induction l as [|x [|y t] IH]; try reflexivity.
  change (last_opt (map f (x :: y :: t))) with (last_opt (map f (y :: t))). rewrite IH. reflexivity.
Qed.

Definition tr_pl (d : point) (e : point * ltype) : point * ltype := (padd (fst e) d, snd e).

Lemma last_alternating_tr d : forall ps rt el er,
  last_alternating (map (tr_par d) ps) rt (tr_pl d el) (tr_pl d er) =
  (tr_pl d (fst (last_alternating ps rt el er)), tr_pl d (snd (last_alternating ps rt el er))).
Proof.
  induction ps as [|[b t] rest IH]; intros rt el er; [reflexivity|].
  cbn [map last_alternating tr_par fst snd]. destruct rt.
  - exact (IH false el (b_point b, t)).
  - exact (IH true (b_point b, t) er).
Qed.

(* Line::extents commutes with translation *)
Lemma extents_translate l w so d :
  extents (translate_line l d) w so = option_map (tr_line2 d) (extents l w so).
Proof.
  unfold extents. rewrite degenerate_translate, parallels_translate.
  destruct (parallels l (sat_u32_to_i32 w) so) as [ps|]; [|reflexivity]. cbn [option_map].
  assert (B : bparams_new (if point_eqb (l_start l) (l_end l) then horizontal_line else translate_line l d) =
              bparams_new (if point_eqb (l_start l) (l_end l) then horizontal_line else l)).
  { destruct (point_eqb (l_start l) (l_end l)); [reflexivity | apply bparams_new_translate]. }
  rewrite B. set (par := bparams_new _).
  set (reduce := padd (pos_step_major par) (pos_step_minor par)).
  fold (line_delta (translate_line l d)) (line_delta l). rewrite line_delta_translate.
  change (l_start (translate_line l d), LNormal) with (tr_pl d (l_start l, LNormal)).
  set (init := (l_start l, LNormal)).
  rewrite last_opt_map.
  assert (LP : match option_map (tr_par d) (last_opt ps) with
               | Some (b, t) => (b_point b, t) | None => tr_pl d init end =
               tr_pl d (match last_opt ps with Some (b, t) => (b_point b, t) | None => init end)).
  { destruct (last_opt ps) as [[b t]|]; reflexivity. }
  rewrite LP. set (lastp := match last_opt ps with Some (b, t) => (b_point b, t) | None => init end).
  assert (MK : forall e, L (fst (tr_pl d e))
                 (psub (padd (fst (tr_pl d e)) (line_delta l)) match snd (tr_pl d e) with LNormal => P 0 0 | LExtra => reduce end) =
               translate_line (L (fst e) (psub (padd (fst e) (line_delta l)) match snd e with LNormal => P 0 0 | LExtra => reduce end)) d).
  { intros [q t]. unfold translate_line, tr_pl; cbn [fst snd l_start l_end]. f_equal. pt_eq. }
  destruct so.
  - rewrite last_alternating_tr. destruct (last_alternating ps true init init) as [el er].
    cbn [fst snd]. unfold tr_line2; cbn [fst snd]. rewrite !MK. reflexivity.
  - unfold tr_line2; cbn [fst snd]. rewrite !MK. reflexivity.
  - unfold tr_line2; cbn [fst snd]. rewrite !MK. reflexivity.
Qed.

(* ================================================================================================ *)
(* (5) line joins                                                                                    *)
(* ================================================================================================ *)

Lemma translate_line_L a b d : L (padd a d) (padd b d) = translate_line (L a b) d.
Proof. reflexivity. Qed.

Lemma lj_start_translate s m w so d :
  lj_start (padd s d) (padd m d) w so = option_map (tr_join d) (lj_start s m w so).
Proof.
  unfold lj_start. rewrite translate_line_L, extents_translate.
  destruct (extents (L s m) w so) as [[l r]|]; reflexivity.
Qed.

Lemma lj_end_translate m e w so d :
  lj_end (padd m d) (padd e d) w so = option_map (tr_join d) (lj_end m e w so).
Proof.
  unfold lj_end. rewrite translate_line_L, extents_translate.
  destruct (extents (L m e) w so) as [[l r]|]; reflexivity.
Qed.

Definition used_point (ip : iparams) (fallback : point) : option (point * side) :=
  match ip_intersection ip with
  | IColinear => None
  | IPoint p o => Some (if negb (nearly_colinear_has_error ip) then p else fallback, o)
  end.

Lemma intersections_used fl fr sl sr :
  intersections fl fr sl sr =
  match used_point (ip_from_lines sl fl) (l_end fl) with
  | None => None
  | Some (li, outer) =>
      match used_point (ip_from_lines sr fr) (l_end fr) with
      | None => None
      | Some (ri, _) => Some (li, outer, ri)
      end
  end.
Proof.
  unfold intersections, used_point.
  destruct (ip_intersection (ip_from_lines sl fl)); [|reflexivity].
  destruct (ip_intersection (ip_from_lines sr fr)); reflexivity.
Qed.

Lemma used_point_translate l1 l2 fb d :
  isect_used_nosat (ip_from_lines l1 l2) = true ->
  isect_used_nosat (ip_from_lines (translate_line l1 d) (translate_line l2 d)) = true ->
  used_point (ip_from_lines (translate_line l1 d) (translate_line l2 d)) (padd fb d) =
  option_map (fun r => (padd (fst r) d, snd r)) (used_point (ip_from_lines l1 l2) fb).
Proof.
  unfold isect_used_nosat, used_point. rewrite nearly_colinear_translate.
  destruct (nearly_colinear_has_error (ip_from_lines l1 l2)) eqn:Err; cbn [orb negb].
  - (* the rounded point is discarded: only "colinear or not" and the outer side matter *)
    intros _ _. unfold ip_intersection. rewrite ip_den_translate.
    destruct (ip_den (ip_from_lines l1 l2) =? 0); reflexivity.
  - intros H1 H2. rewrite (ip_intersection_translate _ _ _ H1 H2).
    destruct (ip_intersection (ip_from_lines l1 l2)); reflexivity.
Qed.

Definition tr_isects (d : point) (r : point * side * point) : point * side * point :=
  (padd (fst (fst r)) d, snd (fst r), padd (snd r) d).

Lemma intersections_translate fl fr sl sr d :
  edges_nosat fl fr sl sr = true ->
  edges_nosat (translate_line fl d) (translate_line fr d) (translate_line sl d) (translate_line sr d) = true ->
  intersections (translate_line fl d) (translate_line fr d) (translate_line sl d) (translate_line sr d) =
  option_map (tr_isects d) (intersections fl fr sl sr).
Proof.
  unfold edges_nosat. intros H1 H2.
  apply andb_true_iff in H1 as [L1 R1]. apply andb_true_iff in H2 as [L2 R2].
  rewrite !intersections_used.
  change (l_end (translate_line fl d)) with (padd (l_end fl) d).
  change (l_end (translate_line fr d)) with (padd (l_end fr) d).
  rewrite (used_point_translate _ _ _ _ L1 L2), (used_point_translate _ _ _ _ R1 R2).
  destruct (used_point (ip_from_lines sl fl) (l_end fl)) as [[li o]|]; [|reflexivity].
  destruct (used_point (ip_from_lines sr fr) (l_end fr)) as [[ri o']|]; reflexivity.
Qed.

(* LineJoin::from_points after the four extents have been computed *)
Lemma lj_from_extents_translate mid w fl fr sl sr d :
  edges_nosat fl fr sl sr = true ->
  edges_nosat (translate_line fl d) (translate_line fr d) (translate_line sl d) (translate_line sr d) = true ->
  lj_from_extents (padd mid d) w (translate_line fl d) (translate_line fr d) (translate_line sl d) (translate_line sr d) =
  tr_join d (lj_from_extents mid w fl fr sl sr).
Proof.
  intros H1 H2. unfold lj_from_extents. rewrite (intersections_translate _ _ _ _ _ H1 H2).
  destruct (intersections fl fr sl sr) as [[[li o] ri]|]; [|reflexivity].
  cbn [option_map tr_isects fst snd].
  change (l_end (translate_line sl d)) with (padd (l_end sl) d).
  change (l_end (translate_line sr d)) with (padd (l_end sr) d).
  rewrite !le_check_side_translate.
  assert (MD : psub (match o with SLeft => padd li d | SRight => padd ri d end) (padd mid d) =
               psub (match o with SLeft => li | SRight => ri end) mid)
    by (destruct o; apply psub_padd_padd).
  rewrite MD.
  destruct o.
  - destruct (negb (le_check_side (le_from_line fr) (l_end sr) SLeft)); [|reflexivity].
    destruct (_ <=? _); reflexivity.
  - destruct (negb (le_check_side (le_from_line fl) (l_end sl) SRight)); [|reflexivity].
    destruct (_ <=? _); reflexivity.
Qed.

Lemma lj_from_points_translate s m e w so d :
  join_nosat s m e w so = true ->
  join_nosat (padd s d) (padd m d) (padd e d) w so = true ->
  lj_from_points (padd s d) (padd m d) (padd e d) w so = option_map (tr_join d) (lj_from_points s m e w so).
Proof.
  unfold join_nosat, lj_from_points. rewrite !translate_line_L, !extents_translate.
  destruct (extents (L s m) w so) as [[fl fr]|]; [|reflexivity].
  destruct (extents (L m e) w so) as [[sl sr]|]; [|reflexivity].
  cbn [option_map tr_line2 fst snd]. intros H1 H2. f_equal.
  apply lj_from_extents_translate; assumption.
Qed.

(* the join kind does not change, every corner moves by d *)
Lemma tr_join_kind d j : lj_kind (tr_join d j) = lj_kind j.
Proof. reflexivity. Qed.

(* ================================================================================================ *)
(* (6) scanlines, thick segments, the thick polyline pipeline                                        *)
(* ================================================================================================ *)
From EG Require Import Proofs.Geometry Proofs.Line.

(* An empty scanline has no position (Scanline::new_empty is y, 0..0 wherever it is used), so "moved by d" is:
   same emptiness, and the x range moved when it is not empty *)
Definition sl_rel (d : point) (s s' : scanline) : Prop :=
  sl_y s' = sl_y s + py d /\
  ((sl_is_empty s = true /\ sl_is_empty s' = true) \/
   (sl_is_empty s = false /\ sl_x0 s' = sl_x0 s + px d /\ sl_x1 s' = sl_x1 s + px d)).

Lemma sl_rel_empty d s s' : sl_rel d s s' -> sl_is_empty s' = sl_is_empty s.
Proof.
  intros [_ [[E1 E2]|[E1 [H0 H1]]]]; [congruence|].
  unfold sl_is_empty in *. rewrite H0, H1.
  destruct (sl_x0 s <? sl_x1 s) eqn:A; destruct (sl_x0 s + px d <? sl_x1 s + px d) eqn:B; try reflexivity; lia.
Qed.

Lemma sl_rel_new_empty d y : sl_rel d (sl_new_empty y) (sl_new_empty (y + py d)).
Proof. split; [reflexivity | left; split; reflexivity]. Qed.

Lemma sl_extend_rel d s s' x : sl_rel d s s' -> sl_rel d (sl_extend s x) (sl_extend s' (x + px d)).
Proof.
  intros R. pose proof (sl_rel_empty _ _ _ R) as E. destruct R as [Y [[E1 E2]|[E1 [H0 H1]]]].
  - unfold sl_extend. rewrite E1, E2. split; [exact Y|]. right. cbn [sl_x0 sl_x1].
    unfold sl_is_empty; cbn [sl_x0 sl_x1]. split; [|lia].
    destruct (x <? x + 1) eqn:A; [reflexivity | lia].
  - unfold sl_extend. rewrite E, E1.
    destruct (x <? sl_x0 s) eqn:A; destruct (x + px d <? sl_x0 s') eqn:A'; try lia.
    + split; [exact Y|]. right. unfold sl_is_empty in *; cbn [sl_x0 sl_x1].
      split; [|lia]. destruct (x <? sl_x1 s) eqn:B; [reflexivity|].
      destruct (sl_x0 s <? sl_x1 s) eqn:C; [lia | discriminate].
    + destruct (sl_x1 s <=? x) eqn:B; destruct (sl_x1 s' <=? x + px d) eqn:B'; try lia.
      * split; [exact Y|]. right. unfold sl_is_empty in *; cbn [sl_x0 sl_x1].
        split; [|lia]. destruct (sl_x0 s <? x + 1) eqn:C; [reflexivity | lia].
      * split; [exact Y|]. right. auto.
Qed.

Lemma take_while_map {A B} (f : B -> bool) (g : A -> B) l :
  take_while f (map g l) = map g (take_while (fun x => f (g x)) l).
Proof. induction l as [|x t IH]; [reflexivity|]. cbn. destruct (f (g x)); [rewrite IH|]; reflexivity. Qed.

Lemma skip_while_map {A B} (f : B -> bool) (g : A -> B) l :
  skip_while f (map g l) = map g (skip_while (fun x => f (g x)) l).
Proof. induction l as [|x t IH]; [reflexivity|]. cbn. destruct (f (g x)); [rewrite IH|]; reflexivity. Qed.

Lemma take_while_ext {A} (f g : A -> bool) l : (forall x, f x = g x) -> take_while f l = take_while g l.
Proof. intros H. induction l as [|x t IH]; [reflexivity|]. cbn. rewrite H, IH. reflexivity. Qed.

Lemma skip_while_ext {A} (f g : A -> bool) l : (forall x, f x = g x) -> skip_while f l = skip_while g l.
Proof. intros H. induction l as [|x t IH]; [reflexivity|]. cbn. rewrite H, IH. reflexivity. Qed.

Lemma fold_extend_rel d : forall (l : list point) s s', sl_rel d s s' ->
  sl_rel d (fold_left (fun acc p => sl_extend acc (px p)) l s)
           (fold_left (fun acc p => sl_extend acc (px p)) (map (fun p => padd p d) l) s').
Proof.
  induction l as [|p t IH]; intros s s' R; [exact R|].
  cbn [map fold_left]. apply IH. change (px (padd p d)) with (px p + px d). apply sl_extend_rel. exact R.
Qed.

(* Scanline::bresenham_intersection commutes with translation *)
Lemma bresenham_intersection_rel d s s' l : sl_rel d s s' ->
  sl_rel d (bresenham_intersection s l) (bresenham_intersection s' (translate_line l d)).
Proof.
  intros R. unfold bresenham_intersection. destruct R as [Y R']. rewrite Y.
  change (py (l_start (translate_line l d))) with (py (l_start l) + py d).
  change (py (l_end (translate_line l d))) with (py (l_end l) + py d).
  assert (C : ((Z.min (py (l_start l) + py d) (py (l_end l) + py d) <=? sl_y s + py d) &&
               (sl_y s + py d <=? Z.max (py (l_start l) + py d) (py (l_end l) + py d))) =
              ((Z.min (py (l_start l)) (py (l_end l)) <=? sl_y s) && (sl_y s <=? Z.max (py (l_start l)) (py (l_end l))))).
  { destruct ((Z.min (py (l_start l)) (py (l_end l)) <=? sl_y s) && (sl_y s <=? Z.max (py (l_start l)) (py (l_end l)))) eqn:A;
    destruct ((Z.min (py (l_start l) + py d) (py (l_end l) + py d) <=? sl_y s + py d) &&
              (sl_y s + py d <=? Z.max (py (l_start l) + py d) (py (l_end l) + py d))) eqn:B; try reflexivity; lia. }
  rewrite C. destruct (negb _); [split; assumption|].
  rewrite line_points_translate, skip_while_map, take_while_map.
  assert (Q : forall p : point, (py (padd p d) =? sl_y s + py d) = (py p =? sl_y s)).
  { intros p. change (py (padd p d)) with (py p + py d).
    destruct (py p =? sl_y s) eqn:A; destruct (py p + py d =? sl_y s + py d) eqn:B; try reflexivity; lia. }
  rewrite (skip_while_ext (fun x => negb (py (padd x d) =? sl_y s + py d)) (fun p => negb (py p =? sl_y s)))
    by (intros p; rewrite Q; reflexivity).
  rewrite (take_while_ext (fun x => py (padd x d) =? sl_y s + py d) (fun p => py p =? sl_y s)) by (intros p; apply Q).
  apply fold_extend_rel. split; assumption.
Qed.

Lemma in_incl_shift a b x k : in_incl (a + k) (b + k) (x + k) = in_incl a b x.
Proof.
  unfold in_incl. destruct (a <=? x) eqn:A; destruct (a + k <=? x + k) eqn:A'; try lia;
  destruct (x <=? b) eqn:B; destruct (x + k <=? b + k) eqn:B'; try lia; reflexivity.
Qed.

Lemma sl_touches_rel d s s' o o' : sl_rel d s s' -> sl_rel d o o' -> sl_touches s' o' = sl_touches s o.
Proof.
  intros Rs Ro. unfold sl_touches.
  rewrite (sl_rel_empty _ _ _ Rs), (sl_rel_empty _ _ _ Ro).
  destruct Rs as [_ [[E1 E2]|[E1 [A0 A1]]]]; [rewrite E1; reflexivity|].
  destruct Ro as [_ [[F1 F2]|[F1 [B0 B1]]]]; [rewrite F1, orb_true_r; reflexivity|].
  rewrite E1, F1. cbn [orb]. rewrite A0, A1, B0, B1.
  replace (sl_x0 s + px d - 1) with (sl_x0 s - 1 + px d) by ring.
  replace (sl_x0 o + px d - 1) with (sl_x0 o - 1 + px d) by ring.
  replace (sl_x1 o + px d - 1) with (sl_x1 o - 1 + px d) by ring.
  replace (sl_x1 s + px d - 1) with (sl_x1 s - 1 + px d) by ring.
  rewrite !in_incl_shift. reflexivity.
Qed.

Lemma sl_try_extend_rel d s s' o o' : sl_rel d s s' -> sl_rel d o o' ->
  fst (sl_try_extend s' o') = fst (sl_try_extend s o) /\
  sl_rel d (snd (sl_try_extend s o)) (snd (sl_try_extend s' o')).
Proof.
  intros Rs Ro. unfold sl_try_extend. rewrite (sl_touches_rel _ _ _ _ _ Rs Ro).
  destruct (sl_touches s o) eqn:T; cbn [fst snd]; [|split; [reflexivity | exact Rs]].
  split; [reflexivity|].
  unfold sl_touches in T.
  destruct (sl_is_empty s) eqn:E1; [discriminate|]. destruct (sl_is_empty o) eqn:F1; [discriminate|].
  destruct Rs as [Y [[E1' _]|[_ [A0 A1]]]]; [congruence|].
  destruct Ro as [_ [[F1' _]|[_ [B0 B1]]]]; [congruence|].
  split; [exact Y|]. right. cbn [sl_x0 sl_x1]. unfold sl_is_empty in *; cbn [sl_x0 sl_x1].
  split; [|lia].
  destruct (Z.min (sl_x0 s) (sl_x0 o) <? Z.max (sl_x1 s) (sl_x1 o)) eqn:C; [reflexivity|].
  destruct (sl_x0 s <? sl_x1 s) eqn:D; [lia | discriminate].
Qed.

(* ---- joins and thick segments moved by d --------------------------------------------------------- *)
Definition tr_oline (d : point) (o : option line) : option line := option_map (fun l => translate_line l d) o.

Lemma line_midpoint_translate l d : line_midpoint (translate_line l d) = padd (line_midpoint l) d.
Proof.
  unfold line_midpoint. rewrite line_delta_translate. unfold translate_line; cbn [l_start]. apply padd_swap.
Qed.

Lemma filler_line_tr d j : filler_line (tr_join d j) = tr_oline d (filler_line j).
Proof.
  unfold filler_line, tr_join; cbn [lj_kind first_edge_end second_edge_start].
  destruct (lj_kind j) as [|o|o| | |]; try reflexivity; destruct o; reflexivity.
Qed.

Lemma lj_cap_tr d j c :
  lj_cap (tr_join d j) (tr_corners d c) =
  (translate_line (fst (lj_cap j c)) d, tr_oline d (snd (lj_cap j c))).
Proof.
  unfold lj_cap. rewrite filler_line_tr. destruct (filler_line j) as [fl|]; cbn [tr_oline option_map fst snd].
  - rewrite line_midpoint_translate. reflexivity.
  - reflexivity.
Qed.

Lemma is_skeleton_tr d t : is_skeleton (tr_segment d t) = is_skeleton t.
Proof. unfold is_skeleton, tr_segment, tr_join, tr_corners; cbn. apply point_eqb_padd. Qed.

Lemma ts_edges_tr d t :
  ts_edges (tr_segment d t) = (translate_line (fst (ts_edges t)) d, translate_line (snd (ts_edges t)) d).
Proof. reflexivity. Qed.

Lemma bi_opt_rel d s s' o : sl_rel d s s' -> sl_rel d (bi_opt s o) (bi_opt s' (tr_oline d o)).
Proof. intros R. destruct o as [l|]; cbn; [apply bresenham_intersection_rel|]; exact R. Qed.

(* ThickSegment::intersection commutes with translation *)
Lemma ts_intersection_rel d t y :
  sl_rel d (ts_intersection t y) (ts_intersection (tr_segment d t) (y + py d)).
Proof.
  unfold ts_intersection. rewrite is_skeleton_tr, ts_edges_tr.
  pose proof (sl_rel_new_empty d y) as R0.
  destruct (is_skeleton t).
  - cbn [fst]. apply bresenham_intersection_rel. exact R0.
  - unfold start_cap_lines, end_cap_lines.
    change (ts_start_join (tr_segment d t)) with (tr_join d (ts_start_join t)).
    change (ts_end_join (tr_segment d t)) with (tr_join d (ts_end_join t)).
    change (second_edge_start (tr_join d (ts_start_join t))) with (tr_corners d (second_edge_start (ts_start_join t))).
    change (first_edge_end (tr_join d (ts_end_join t))) with (tr_corners d (first_edge_end (ts_end_join t))).
    rewrite !lj_cap_tr.
    destruct (lj_cap (ts_start_join t) (second_edge_start (ts_start_join t))) as [a1 a2].
    destruct (lj_cap (ts_end_join t) (first_edge_end (ts_end_join t))) as [b1 b2].
    destruct (ts_edges t) as [e1 e2]. cbn [fst snd].
    repeat (first [apply bresenham_intersection_rel | apply bi_opt_rel]). exact R0.
Qed.

(* the merge loop of polyline::ScanlineIntersections *)
Lemma si_merge_rel d : forall segs acc acc', sl_rel d acc acc' ->
  Forall2 (sl_rel d) (si_merge acc segs) (si_merge acc' (map (tr_segment d) segs)).
Proof.
  induction segs as [|seg rest IH]; intros acc acc' R.
  - cbn [si_merge map]. rewrite (sl_rel_empty _ _ _ R). destruct (sl_is_empty acc); constructor; [exact R | constructor].
  - cbn [si_merge map].
    assert (Y : sl_y acc' = sl_y acc + py d) by (destruct R; assumption). rewrite Y.
    pose proof (ts_intersection_rel d seg (sl_y acc)) as RN.
    destruct (sl_try_extend_rel _ _ _ _ _ R RN) as [F S].
    destruct (sl_try_extend acc (ts_intersection seg (sl_y acc))) as [ext a1].
    destruct (sl_try_extend acc' (ts_intersection (tr_segment d seg) (sl_y acc + py d))) as [ext' a1'].
    cbn [fst snd] in F, S. subst ext'. destruct ext.
    + apply IH. exact S.
    + constructor; [exact R | apply IH; exact RN].
Qed.

Definition tr_sl (d : point) (s : scanline) : scanline := SL (sl_y s + py d) (sl_x0 s + px d) (sl_x1 s + px d).

(* after the empty scanlines are dropped (polyline::ScanlineIterator) the relation is plain translation *)
Lemma filter_nonempty_rel d : forall l l', Forall2 (sl_rel d) l l' ->
  filter (fun s => negb (sl_is_empty s)) l' = map (tr_sl d) (filter (fun s => negb (sl_is_empty s)) l).
Proof.
  induction 1 as [|s s' l l' R _ IH]; [reflexivity|].
  cbn [filter]. rewrite (sl_rel_empty _ _ _ R). destruct (sl_is_empty s) eqn:E; cbn [negb]; [exact IH|].
  cbn [map]. rewrite IH. f_equal.
  destruct R as [Y [[E1 _]|[_ [A0 A1]]]]; [congruence|].
  destruct s' as [y' a' b']; cbn [sl_y sl_x0 sl_x1] in *. unfold tr_sl. congruence.
Qed.

Lemma range_from_shift k : forall n a, range_from (a + k) n = map (fun x => x + k) (range_from a n).
Proof.
  induction n as [|n IH]; intros a; [reflexivity|]. cbn [range_from map]. f_equal.
  replace (a + k + 1) with (a + 1 + k) by ring. apply IH.
Qed.

Lemma range_shift a b k : range (a + k) (b + k) = map (fun x => x + k) (range a b).
Proof. unfold range. replace (b + k - (a + k)) with (b - a) by ring. apply range_from_shift. Qed.

Lemma sl_points_tr d s : sl_points (tr_sl d s) = map (fun p => padd p d) (sl_points s).
Proof.
  unfold sl_points, tr_sl; cbn [sl_y sl_x0 sl_x1]. rewrite range_shift, !map_map. reflexivity.
Qed.

Lemma sl_to_rectangle_tr d s : sl_to_rectangle (tr_sl d s) = translate_rect (sl_to_rectangle s) d.
Proof.
  unfold sl_to_rectangle, translate_rect, tr_sl, sl_is_empty, padd; cbn [sl_y sl_x0 sl_x1 tl sz px py].
  f_equal. f_equal.
  destruct (sl_x0 s <? sl_x1 s) eqn:A; destruct (sl_x0 s + px d <? sl_x1 s + px d) eqn:B; cbn [negb]; lia.
Qed.

(* ---- the segment lists of a polyline -------------------------------------------------------------- *)
Definition tr_pt (d : point) (p : point) : point := padd p d.
Definition tr_win (d : point) (t : point * point * point) : point * point * point :=
  (padd (fst (fst t)) d, padd (snd (fst t)) d, padd (snd t) d).

(* conversion must not evaluate these (they contain the whole parallels walk) when it compares folded and unfolded
   forms of the list functions below: unfold them last *)
Strategy 100 [win_nosat join_nosat].

Lemma windows3_map d : forall pts, windows3 (map (tr_pt d) pts) = map (tr_win d) (windows3 pts).
Proof.
  induction pts as [|a t IH]; [reflexivity|].
  destruct t as [|b [|c r]]; try reflexivity.
  change (windows3 (map (tr_pt d) (a :: b :: c :: r)))
    with ((tr_pt d a, tr_pt d b, tr_pt d c) :: windows3 (map (tr_pt d) (b :: c :: r))).
  rewrite IH. reflexivity.
Qed.

Lemma win_join_translate w so d t : win_nosat w so d t = true ->
  lj_from_points (padd (fst (fst t)) d) (padd (snd (fst t)) d) (padd (snd t) d) w so =
  option_map (tr_join d) (lj_from_points (fst (fst t)) (snd (fst t)) (snd t) w so).
Proof.
  unfold win_nosat. intros H. apply andb_true_iff in H as [H1 H2]. apply lj_from_points_translate; assumption.
Qed.

Lemma option_map_cons_map {A B} (f : A -> B) x (o : option (list A)) :
  option_map (cons (f x)) (option_map (map f) o) = option_map (map f) (option_map (cons x) o).
Proof. destruct o; reflexivity. Qed.

Lemma forallb_cons {A} (f : A -> bool) x l : forallb f (x :: l) = f x && forallb f l.
Proof. reflexivity. Qed.

Lemma windows3_3 a b c r : windows3 (a :: b :: c :: r) = (a, b, c) :: windows3 (b :: c :: r).
Proof. reflexivity. Qed.

Lemma si_segments_3 sj a b c r w :
  si_segments sj (a :: b :: c :: r) w =
  match lj_from_points a b c w SONone with
  | Some ej => option_map (cons (TS sj ej)) (si_segments ej (b :: c :: r) w)
  | None => None
  end.
Proof. reflexivity. Qed.

(* polyline::ScanlineIntersections::next_segment, all segments *)
Lemma si_segments_tr w d : forall pts sj, poly_nosat pts w d = true ->
  si_segments (tr_join d sj) (map (tr_pt d) pts) w = option_map (map (tr_segment d)) (si_segments sj pts w).
Proof.
  induction pts as [|a t IH]; intros sj H; [reflexivity|].
  destruct t as [|b [|c r]].
  - reflexivity.
  - cbn [map si_segments]. unfold tr_pt. rewrite lj_end_translate.
    destruct (lj_end a b w SONone); reflexivity.
  - unfold poly_nosat in H. rewrite windows3_3, forallb_cons in H.
    apply andb_true_iff in H as [H1 H2].
    cbn [map]. rewrite !si_segments_3. unfold tr_pt at 1 2 3.
    pose proof (win_join_translate w SONone d (a, b, c) H1) as W. cbn [fst snd] in W. rewrite W.
    destruct (lj_from_points a b c w SONone) as [ej|]; [|reflexivity]. cbn [option_map].
    change (tr_pt d b :: tr_pt d c :: map (tr_pt d) r) with (map (tr_pt d) (b :: c :: r)).
    rewrite (IH ej H2).
    change (TS (tr_join d sj) (tr_join d ej)) with (tr_segment d (TS sj ej)).
    apply option_map_cons_map.
Qed.

Lemma poly_segments_tr w d pts : poly_nosat pts w d = true ->
  poly_segments (map (tr_pt d) pts) w = option_map (map (tr_segment d)) (poly_segments pts w).
Proof.
  intros H. destruct pts as [|a [|b r]]; try reflexivity.
  unfold poly_segments. cbn [map]. unfold tr_pt at 1 2. rewrite lj_start_translate.
  destruct (lj_start a b w SONone) as [sj|]; [|reflexivity]. cbn [option_map].
  exact (si_segments_tr w d (a :: b :: r) sj H).
Qed.

(* common::ThickSegmentIter *)
Lemma tsi_run_tr w d : forall fuel ws sj ej l2, forallb (win_nosat w SONone d) ws = true ->
  tsi_run (map (tr_win d) ws) (tr_join d sj) (tr_join d ej) (padd (fst l2) d, padd (snd l2) d) w fuel =
  option_map (map (tr_segment d)) (tsi_run ws sj ej l2 w fuel).
Proof.
  induction fuel as [|f IH]; intros ws sj ej l2 H; [reflexivity|].
  cbn [tsi_run]. destruct ws as [|[[a b] c] ws'].
  - cbn [map]. rewrite tr_join_kind.
    destruct (lj_kind ej); try reflexivity; cbn [fst snd]; rewrite lj_end_translate;
      destruct (lj_end (fst l2) (snd l2) w SONone) as [ej'|]; try reflexivity; cbn [option_map];
      pose proof (IH [] ej ej' l2 eq_refl) as I; cbn [map] in I; rewrite I;
      change (TS (tr_join d sj) (tr_join d ej)) with (tr_segment d (TS sj ej)); apply option_map_cons_map.
  - rewrite forallb_cons in H. apply andb_true_iff in H as [H1 H2].
    cbn [map tr_win fst snd]. pose proof (win_join_translate w SONone d (a, b, c) H1) as W. cbn [fst snd] in W. rewrite W.
    destruct (lj_from_points a b c w SONone) as [ej'|]; [|reflexivity]. cbn [option_map].
    rewrite (IH ws' ej ej' l2 H2).
    change (TS (tr_join d sj) (tr_join d ej)) with (tr_segment d (TS sj ej)). apply option_map_cons_map.
Qed.

Lemma removelast_map {A B} (f : A -> B) l : removelast (map f l) = map f (removelast l).
Proof.
  induction l as [|x [|y t] IH]; try reflexivity.
  change (removelast (map f (x :: y :: t))) with (f x :: removelast (map f (y :: t))). rewrite IH. reflexivity.
Qed.

Lemma forallb_tl {A} (f : A -> bool) l : forallb f l = true -> forallb f (List.tl l) = true.
Proof. destruct l; [reflexivity|]. rewrite forallb_cons. cbn [List.tl]. intros H. apply andb_true_iff in H. tauto. Qed.

Lemma map_tl' {A B} (f : A -> B) l : List.tl (map f l) = map f (List.tl l).
Proof. destruct l; reflexivity. Qed.

Lemma thick_segment_iter_3 a b c r w :
  thick_segment_iter (a :: b :: c :: r) w =
  match lj_start a b w SONone, lj_from_points a b c w SONone,
        last_opt (a :: b :: c :: r), last_opt (removelast (a :: b :: c :: r)) with
  | Some sj, Some ej, Some z, Some y =>
      tsi_run (List.tl (windows3 (a :: b :: c :: r))) sj ej (y, z) w (Datatypes.S (length (a :: b :: c :: r)))
  | _, _, _, _ => None
  end.
Proof. reflexivity. Qed.

Lemma thick_segment_iter_tr w d pts : poly_nosat pts w d = true ->
  thick_segment_iter (map (tr_pt d) pts) w = option_map (map (tr_segment d)) (thick_segment_iter pts w).
Proof.
  intros H. destruct pts as [|a [|b [|c r]]]; try reflexivity.
  - unfold thick_segment_iter. cbn [map]. unfold tr_pt. rewrite lj_start_translate, lj_end_translate.
    destruct (lj_start a b w SONone) as [sj|]; [|reflexivity].
    destruct (lj_end a b w SONone) as [ej|]; [|reflexivity]. cbn [option_map].
    exact (tsi_run_tr w d 2 [] sj ej (a, b) eq_refl).
  - pose proof H as H0. unfold poly_nosat in H0. rewrite windows3_3, forallb_cons in H0.
    apply andb_true_iff in H0 as [H1 _].
    pose proof (win_join_translate w SONone d (a, b, c) H1) as W. cbn [fst snd] in W.
    cbn [map]. rewrite !thick_segment_iter_3.
    change (tr_pt d a :: tr_pt d b :: tr_pt d c :: map (tr_pt d) r) with (map (tr_pt d) (a :: b :: c :: r)).
    set (pts := a :: b :: c :: r) in *.
    unfold tr_pt at 1 2 3 4 5. rewrite lj_start_translate, W.
    rewrite removelast_map, !last_opt_map, windows3_map, map_length.
    destruct (lj_start a b w SONone) as [sj|]; [|reflexivity].
    destruct (lj_from_points a b c w SONone) as [ej|]; [|reflexivity].
    destruct (last_opt pts) as [z|]; [|reflexivity].
    destruct (last_opt (removelast pts)) as [y|]; [|reflexivity]. cbn [option_map].
    rewrite map_tl'.
    exact (tsi_run_tr w d _ _ sj ej (y, z) (forallb_tl _ _ H)).
Qed.

(* ---- bounding box of the segments ------------------------------------------------------------------ *)
Lemma component_min_padd a b d : component_min (padd a d) (padd b d) = padd (component_min a b) d.
Proof. unfold component_min, padd; cbn [px py]. f_equal; lia. Qed.
Lemma component_max_padd a b d : component_max (padd a d) (padd b d) = padd (component_max a b) d.
Proof. unfold component_max, padd; cbn [px py]. f_equal; lia. Qed.

Lemma with_corners_translate a b d : with_corners (padd a d) (padd b d) = translate_rect (with_corners a b) d.
Proof.
  unfold with_corners, translate_rect, size_from_bounding_box, padd; cbn [px py tl sz].
  f_equal; f_equal; lia.
Qed.

Lemma with_corners_tl a b : tl (with_corners a b) = component_min a b.
Proof. reflexivity. Qed.

Lemma with_corners_br a b :
  match bottom_right (with_corners a b) with Some br => br | None => tl (with_corners a b) end = component_max a b.
Proof.
  unfold bottom_right, with_corners, size_from_bounding_box, component_max; cbn [tl sz sw sh px py].
  destruct (0 <? Z.abs (px a - px b) + 1) eqn:A; [|lia]. destruct (0 <? Z.abs (py a - py b) + 1) eqn:B; [|lia].
  cbn [andb]. f_equal; lia.
Qed.

(* the two corners edges_bounding_box hands to with_corners *)
Definition ebb_corners (t : thick_segment) : point * point :=
  let '(r, l) := ts_edges t in
  if is_skeleton t then (l_start r, l_end r)
  else (component_min (component_min (component_min (l_start r) (l_end r)) (l_start l)) (l_end l),
        component_max (component_max (component_max (l_start r) (l_end r)) (l_start l)) (l_end l)).

Lemma edges_bounding_box_corners t :
  edges_bounding_box t = with_corners (fst (ebb_corners t)) (snd (ebb_corners t)).
Proof.
  unfold edges_bounding_box, ebb_corners. destruct (ts_edges t) as [r l]. destruct (is_skeleton t); reflexivity.
Qed.

Lemma ebb_corners_tr d t :
  ebb_corners (tr_segment d t) = (padd (fst (ebb_corners t)) d, padd (snd (ebb_corners t)) d).
Proof.
  unfold ebb_corners. rewrite is_skeleton_tr, ts_edges_tr. destruct (ts_edges t) as [r l]. cbn [fst snd].
  destruct (is_skeleton t); cbn [fst snd translate_line l_start l_end].
  - reflexivity.
  - rewrite !component_min_padd, !component_max_padd. reflexivity.
Qed.

Lemma edges_bounding_box_tr d t : edges_bounding_box (tr_segment d t) = translate_rect (edges_bounding_box t) d.
Proof. rewrite !edges_bounding_box_corners, ebb_corners_tr. cbn [fst snd]. apply with_corners_translate. Qed.

Definition bb_step (acc : point * point) (seg : thick_segment) : point * point :=
  let bb := edges_bounding_box seg in
  (component_min (fst acc) (tl bb),
   component_max (snd acc) (match bottom_right bb with Some br => br | None => tl bb end)).

Lemma bb_step_corners acc seg :
  bb_step acc seg =
  (component_min (fst acc) (component_min (fst (ebb_corners seg)) (snd (ebb_corners seg))),
   component_max (snd acc) (component_max (fst (ebb_corners seg)) (snd (ebb_corners seg)))).
Proof. unfold bb_step. rewrite edges_bounding_box_corners, with_corners_tl, with_corners_br. reflexivity. Qed.

Lemma bb_fold_tr d : forall segs mn mx,
  fold_left bb_step (map (tr_segment d) segs) (padd mn d, padd mx d) =
  (padd (fst (fold_left bb_step segs (mn, mx))) d, padd (snd (fold_left bb_step segs (mn, mx))) d).
Proof.
  induction segs as [|s rest IH]; intros mn mx; [reflexivity|].
  cbn [map fold_left]. rewrite !bb_step_corners, ebb_corners_tr. cbn [fst snd].
  rewrite !component_min_padd, !component_max_padd. apply IH.
Qed.

(* coordinates the real code can hold at all; and the smaller range in which Rectangle::rows does not saturate *)
Definition jpt_big (p : point) : Prop := - jbig <= px p <= jbig /\ - jbig <= py p <= jbig.
Definition seg_ok (t : thick_segment) : Prop :=
  jpt_big (l_start (fst (ts_edges t))) /\ jpt_big (l_end (fst (ts_edges t))) /\
  jpt_big (l_start (snd (ts_edges t))) /\ jpt_big (l_end (snd (ts_edges t))).

Lemma ebb_corners_big t : seg_ok t -> jpt_big (fst (ebb_corners t)) /\ jpt_big (snd (ebb_corners t)).
Proof.
  unfold seg_ok, ebb_corners, jpt_big. destruct (ts_edges t) as [r l]. cbn [fst snd].
  intros [[A1 A2] [[B1 B2] [[C1 C2] [D1 D2]]]].
  destruct (is_skeleton t); cbn [fst snd]; [tauto|].
  unfold component_min, component_max; cbn [px py]. repeat split; lia.
Qed.

Lemma bb_step_init s : seg_ok s ->
  bb_step (P i32_max i32_max, P i32_min i32_min) s =
  (component_min (fst (ebb_corners s)) (snd (ebb_corners s)), component_max (fst (ebb_corners s)) (snd (ebb_corners s))).
Proof.
  intros H. destruct (ebb_corners_big s H) as [[A1 A2] [B1 B2]]. rewrite bb_step_corners. cbn [fst snd].
  unfold jbig, i32_max, i32_min, component_min, component_max in *; cbn [px py]. f_equal; f_equal; lia.
Qed.

Lemma segments_bounding_box_fold segs :
  segments_bounding_box segs =
  with_corners (fst (fold_left bb_step segs (P i32_max i32_max, P i32_min i32_min)))
               (snd (fold_left bb_step segs (P i32_max i32_max, P i32_min i32_min))).
Proof.
  unfold segments_bounding_box. fold bb_step.
  change (fun (acc : point * point) seg => bb_step acc seg) with bb_step.
  destruct (fold_left bb_step segs _) as [mn mx]. reflexivity.
Qed.

Lemma segments_bounding_box_tr d s rest : seg_ok s -> seg_ok (tr_segment d s) ->
  segments_bounding_box (map (tr_segment d) (s :: rest)) = translate_rect (segments_bounding_box (s :: rest)) d.
Proof.
  intros H1 H2. rewrite !segments_bounding_box_fold. cbn [map fold_left].
  rewrite (bb_step_init _ H1), (bb_step_init _ H2), ebb_corners_tr. cbn [fst snd].
  rewrite component_min_padd, component_max_padd, bb_fold_tr. cbn [fst snd].
  apply with_corners_translate.
Qed.

(* the fold only ever takes minima / maxima of corner coordinates: the box corners stay in the range of the segments *)
Lemma bb_fold_big : forall segs mn mx, Forall seg_ok segs -> jpt_big mn -> jpt_big mx ->
  jpt_big (fst (fold_left bb_step segs (mn, mx))) /\ jpt_big (snd (fold_left bb_step segs (mn, mx))).
Proof.
  induction segs as [|s rest IH]; intros mn mx F Hn Hx; [split; assumption|].
  inversion F as [|? ? Hs Hr]; subst. cbn [fold_left]. rewrite bb_step_corners. cbn [fst snd].
  destruct (ebb_corners_big s Hs) as [[A1 A2] [B1 B2]]. destruct Hn as [N1 N2]. destruct Hx as [X1 X2].
  apply IH; [exact Hr | |]; unfold jpt_big, component_min, component_max in *; cbn [px py]; split; lia.
Qed.

Lemma rows_with_corners_big mn mx : jpt_big mn -> jpt_big mx ->
  rows (with_corners mn mx) = (Z.min (py mn) (py mx), Z.max (py mn) (py mx) + 1).
Proof.
  intros [_ N] [_ X]. unfold jbig in *.
  unfold rows, with_corners, size_from_bounding_box, sat_add_i32, sat_u32_to_i32, i32_min, i32_max; cbn [tl sz sh px py].
  f_equal. lia.
Qed.

Lemma sbb_fold_form s rest : Forall seg_ok (s :: rest) ->
  jpt_big (fst (fold_left bb_step (s :: rest) (P i32_max i32_max, P i32_min i32_min))) /\
  jpt_big (snd (fold_left bb_step (s :: rest) (P i32_max i32_max, P i32_min i32_min))).
Proof.
  intros F. inversion F as [|? ? Hs Hr]; subst. cbn [fold_left]. rewrite (bb_step_init _ Hs).
  destruct (ebb_corners_big s Hs) as [[A1 A2] [B1 B2]].
  apply bb_fold_big; [exact Hr | |]; unfold jpt_big, component_min, component_max; cbn [px py]; split; lia.
Qed.

Lemma rows_sbb_tr d s rest :
  Forall seg_ok (s :: rest) -> Forall seg_ok (map (tr_segment d) (s :: rest)) ->
  rows (segments_bounding_box (map (tr_segment d) (s :: rest))) =
  (fst (rows (segments_bounding_box (s :: rest))) + py d, snd (rows (segments_bounding_box (s :: rest))) + py d).
Proof.
  intros F1 F2.
  pose proof (sbb_fold_form _ _ F1) as [M1 X1].
  change (map (tr_segment d) (s :: rest)) with (tr_segment d s :: map (tr_segment d) rest) in F2.
  pose proof (sbb_fold_form _ _ F2) as [M2 X2].
  change (tr_segment d s :: map (tr_segment d) rest) with (map (tr_segment d) (s :: rest)) in M2, X2.
  rewrite !segments_bounding_box_fold.
  rewrite (rows_with_corners_big _ _ M1 X1), (rows_with_corners_big _ _ M2 X2). cbn [fst snd].
  inversion F1 as [|? ? Hs _]; subst. inversion F2 as [|? ? Hs' _]; subst.
  cbn [map fold_left]. rewrite (bb_step_init _ Hs), (bb_step_init _ Hs'), ebb_corners_tr. cbn [fst snd].
  rewrite component_min_padd, component_max_padd, bb_fold_tr. cbn [fst snd].
  unfold padd; cbn [py]. f_equal; lia.
Qed.

Lemma tsi_run_nonempty : forall fuel ws sj ej l2 w l, tsi_run ws sj ej l2 w fuel = Some l -> l <> [].
Proof.
  destruct fuel as [|f]; intros ws sj ej l2 w l H; [discriminate|].
  cbn [tsi_run] in H. destruct ws as [|[[a b] c] ws'].
  - destruct (lj_kind ej); try (injection H as <-; discriminate);
      (destruct (lj_end (fst l2) (snd l2) w SONone); [|discriminate];
       destruct (tsi_run [] ej _ l2 w f); [|discriminate]; injection H as <-; discriminate).
  - destruct (lj_from_points a b c w SONone); [|discriminate].
    destruct (tsi_run ws' ej _ l2 w f); [|discriminate]. injection H as <-. discriminate.
Qed.

Lemma thick_segment_iter_nonempty a b r w l : thick_segment_iter (a :: b :: r) w = Some l -> l <> [].
Proof.
  destruct r as [|c r].
  - unfold thick_segment_iter. destruct (lj_start a b w SONone); [|discriminate].
    destruct (lj_end a b w SONone); [|discriminate]. apply tsi_run_nonempty.
  - rewrite thick_segment_iter_3. destruct (lj_start a b w SONone); [|discriminate].
    destruct (lj_from_points a b c w SONone); [|discriminate].
    destruct (last_opt (a :: b :: c :: r)); [|discriminate].
    destruct (last_opt (removelast (a :: b :: c :: r))); [|discriminate]. apply tsi_run_nonempty.
Qed.

(* the range hypothesis of the pipeline: the corners of every thick segment lie within +-2^29 *)
Definition poly_box_ok (pts : list point) (w : Z) : Prop :=
  match thick_segment_iter pts w with Some segs => Forall seg_ok segs | None => True end.

(* the computable form in Model/Join.v implies it *)
Lemma jpt_bigb_ok p : jpt_bigb p = true -> jpt_big p.
Proof. unfold jpt_bigb, jpt_big. lia. Qed.
Lemma seg_okb_ok t : seg_okb t = true -> seg_ok t.
Proof.
  unfold seg_okb, seg_ok. intros H.
  apply andb_true_iff in H as [H H4]. apply andb_true_iff in H as [H H3]. apply andb_true_iff in H as [H1 H2].
  repeat split; apply jpt_bigb_ok; assumption.
Qed.
Lemma poly_box_okb_ok pts w : poly_box_okb pts w = true -> poly_box_ok pts w.
Proof.
  unfold poly_box_okb, poly_box_ok. destruct (thick_segment_iter pts w) as [segs|]; [|trivial].
  intros H. apply Forall_forall. intros t Ht. apply seg_okb_ok. rewrite forallb_forall in H. apply H, Ht.
Qed.

Lemma flat_map_map {A B C} (f : B -> list C) (g : A -> B) l : flat_map f (map g l) = flat_map (fun x => f (g x)) l.
Proof. induction l as [|x t IH]; [reflexivity|]. cbn. rewrite IH. reflexivity. Qed.

Lemma flat_map_ext' {A B} (f g : A -> list B) l : (forall x, f x = g x) -> flat_map f l = flat_map g l.
Proof. intros H. induction l as [|x t IH]; [reflexivity|]. cbn. rewrite H, IH. reflexivity. Qed.

Lemma map_flat_map {A B C} (f : A -> list B) (g : B -> C) l : map g (flat_map f l) = flat_map (fun x => map g (f x)) l.
Proof. induction l as [|x t IH]; [reflexivity|]. cbn. rewrite map_app, IH. reflexivity. Qed.

(* polyline::ScanlineIterator: every scanline of a polyline with moved vertices is the moved scanline *)
Lemma poly_scanlines_tr w d pts :
  poly_nosat pts w d = true -> poly_box_ok pts w -> poly_box_ok (map (tr_pt d) pts) w ->
  poly_scanlines (map (tr_pt d) pts) w = option_map (map (tr_sl d)) (poly_scanlines pts w).
Proof.
  intros N B1 B2. destruct pts as [|a [|b r]]; try reflexivity.
  unfold poly_box_ok in B1, B2. unfold poly_scanlines, poly_thick_bounding_box.
  change (map (tr_pt d) (a :: b :: r)) with (tr_pt d a :: tr_pt d b :: map (tr_pt d) r).
  cbv iota beta.
  change (tr_pt d a :: tr_pt d b :: map (tr_pt d) r) with (map (tr_pt d) (a :: b :: r)).
  rewrite (thick_segment_iter_tr w d _ N) in *. rewrite (poly_segments_tr w d _ N).
  destruct (thick_segment_iter (a :: b :: r) w) as [bsegs|] eqn:TI; [|reflexivity]. cbn [option_map] in *.
  destruct (poly_segments (a :: b :: r) w) as [segs|]; [|reflexivity]. cbn [option_map].
  destruct bsegs as [|s rest]; [exfalso; exact (thick_segment_iter_nonempty _ _ _ _ _ TI eq_refl)|].
  rewrite (rows_sbb_tr d s rest B1 B2).
  destruct (rows (segments_bounding_box (s :: rest))) as [y0 y1]. cbn [fst snd option_map].
  f_equal. rewrite range_shift, flat_map_map, map_flat_map.
  apply flat_map_ext'. intros y.
  apply filter_nonempty_rel. apply si_merge_rel. apply sl_rel_new_empty.
Qed.

(* C07 for thick polylines, vertices moved: pixels() yields the moved pixels, in the same order *)
Lemma poly_thick_points_tr w d pts t :
  poly_nosat pts w d = true -> poly_box_ok pts w -> poly_box_ok (map (tr_pt d) pts) w ->
  poly_thick_points (map (tr_pt d) pts) t w = option_map (map (tr_pt d)) (poly_thick_points pts t w).
Proof.
  intros N B1 B2. unfold poly_thick_points. rewrite (poly_scanlines_tr w d pts N B1 B2).
  destruct (poly_scanlines pts w) as [ls|]; [|reflexivity]. cbn [option_map]. f_equal.
  rewrite flat_map_map, !map_flat_map. apply flat_map_ext'. intros s.
  rewrite sl_points_tr, !map_map. apply map_ext. intros p. unfold tr_pt. pt_eq.
Qed.

(* ... and draw() issues the moved fill_solid rectangles, in the same order *)
Lemma poly_thick_rects_tr w d pts :
  poly_nosat pts w d = true -> poly_box_ok pts w -> poly_box_ok (map (tr_pt d) pts) w ->
  poly_thick_rects (map (tr_pt d) pts) w = option_map (map (fun r => translate_rect r d)) (poly_thick_rects pts w).
Proof.
  intros N B1 B2. unfold poly_thick_rects. rewrite (poly_scanlines_tr w d pts N B1 B2).
  destruct (poly_scanlines pts w) as [ls|]; [|reflexivity]. cbn [option_map]. f_equal.
  induction ls as [|s ls IH]; [reflexivity|].
  cbn [map filter]. rewrite sl_to_rectangle_tr.
  assert (Z : is_zero_sized (translate_rect (sl_to_rectangle s) d) = is_zero_sized (sl_to_rectangle s)) by reflexivity.
  rewrite Z. destruct (negb (is_zero_sized (sl_to_rectangle s))); cbn [map]; rewrite IH; reflexivity.
Qed.

(* C07 for thick polylines, translate field: the field is added to every pixel *)
Lemma poly_thick_points_field w pts t d :
  poly_thick_points pts (padd t d) w = option_map (map (tr_pt d)) (poly_thick_points pts t w).
Proof.
  unfold poly_thick_points. destruct (poly_scanlines pts w) as [ls|]; [|reflexivity]. cbn [option_map]. f_equal.
  rewrite map_map. apply map_ext. intros p. unfold tr_pt. pt_eq.
Qed.

(* the styled bounding box moves with the vertices *)
Lemma poly_thick_bounding_box_tr w d a b r :
  poly_nosat (a :: b :: r) w d = true -> poly_box_ok (a :: b :: r) w -> poly_box_ok (map (tr_pt d) (a :: b :: r)) w ->
  poly_thick_bounding_box (map (tr_pt d) (a :: b :: r)) w =
  option_map (fun bb => translate_rect bb d) (poly_thick_bounding_box (a :: b :: r) w).
Proof.
  intros N B1 B2. unfold poly_box_ok in B1, B2. unfold poly_thick_bounding_box.
  rewrite (thick_segment_iter_tr w d _ N) in *.
  destruct (thick_segment_iter (a :: b :: r) w) as [bsegs|] eqn:TI; [|reflexivity]. cbn [option_map] in *.
  destruct bsegs as [|s rest]; [exfalso; exact (thick_segment_iter_nonempty _ _ _ _ _ TI eq_refl)|].
  f_equal. inversion B1; subst. inversion B2; subst. apply segments_bounding_box_tr; assumption.
Qed.

(* the composition theorems with the single computable hypothesis poly_hyps of Model/Join.v *)
Lemma poly_hyps_split pts w d : poly_hyps pts w d = true ->
  poly_nosat pts w d = true /\ poly_box_ok pts w /\ poly_box_ok (map (tr_pt d) pts) w.
Proof.
  unfold poly_hyps. intros H. apply andb_true_iff in H as [H H3]. apply andb_true_iff in H as [H1 H2].
  split; [exact H1|]. split; apply poly_box_okb_ok; assumption.
Qed.

Lemma poly_thick_points_tr_hyps w d pts t : poly_hyps pts w d = true ->
  poly_thick_points (map (tr_pt d) pts) t w = option_map (map (tr_pt d)) (poly_thick_points pts t w).
Proof. intros H. destruct (poly_hyps_split _ _ _ H) as [A [B C]]. apply poly_thick_points_tr; assumption. Qed.

Lemma poly_thick_rects_tr_hyps w d pts : poly_hyps pts w d = true ->
  poly_thick_rects (map (tr_pt d) pts) w = option_map (map (fun r => translate_rect r d)) (poly_thick_rects pts w).
Proof. intros H. destruct (poly_hyps_split _ _ _ H) as [A [B C]]. apply poly_thick_rects_tr; assumption. Qed.

(* ================================================================================================ *)
(* (7) C02: the bounding box of a thick stroke contains the corners of its segments                  *)
(* ================================================================================================ *)

Definition ple (a b : point) : Prop := px a <= px b /\ py a <= py b.

Lemma contains_with_corners m M p : ple m p -> ple p M -> contains (with_corners m M) p = true.
Proof.
  intros [A1 A2] [B1 B2]. apply contains_spec.
  unfold with_corners, size_from_bounding_box; cbn [tl sz sw sh px py]. lia.
Qed.

(* the fold never loses a segment: the accumulated corners bound the corners of every segment folded in *)
Lemma bb_fold_mono : forall segs acc,
  ple (fst (fold_left bb_step segs acc)) (fst acc) /\ ple (snd acc) (snd (fold_left bb_step segs acc)).
Proof.
  induction segs as [|s rest IH]; intros acc; [cbn [fold_left]; unfold ple; lia|].
  cbn [fold_left]. destruct (IH (bb_step acc s)) as [[A1 A2] [B1 B2]].
  set (F := fold_left bb_step rest (bb_step acc s)) in *.
  rewrite bb_step_corners in A1, A2, B1, B2. cbn [fst snd] in *.
  unfold ple, component_min, component_max in *; cbn [px py] in *. lia.
Qed.

Lemma bb_fold_bounds : forall segs acc seg, In seg segs ->
  ple (fst (fold_left bb_step segs acc)) (component_min (fst (ebb_corners seg)) (snd (ebb_corners seg))) /\
  ple (component_max (fst (ebb_corners seg)) (snd (ebb_corners seg))) (snd (fold_left bb_step segs acc)).
Proof.
  induction segs as [|s rest IH]; intros acc seg H; [destruct H|].
  cbn [fold_left]. destruct H as [<-|H]; [|apply IH; exact H].
  destruct (bb_fold_mono rest (bb_step acc s)) as [[A1 A2] [B1 B2]].
  set (F := fold_left bb_step rest (bb_step acc s)) in *.
  rewrite bb_step_corners in A1, A2, B1, B2. cbn [fst snd] in *.
  unfold ple, component_min, component_max in *; cbn [px py] in *. lia.
Qed.

(* the four corners of a thick segment *)
Definition seg_corner (t : thick_segment) (p : point) : Prop :=
  p = l_start (fst (ts_edges t)) \/ p = l_end (fst (ts_edges t)) \/
  p = l_start (snd (ts_edges t)) \/ p = l_end (snd (ts_edges t)).
(* ... and the two of its right edge, the one ThickSegment::intersection draws for a skeleton *)
Definition seg_drawn_corner (t : thick_segment) (p : point) : Prop :=
  p = l_start (fst (ts_edges t)) \/ p = l_end (fst (ts_edges t)).

Lemma ebb_corners_cover t p :
  (is_skeleton t = false /\ seg_corner t p) \/ (is_skeleton t = true /\ seg_drawn_corner t p) ->
  ple (component_min (fst (ebb_corners t)) (snd (ebb_corners t))) p /\
  ple p (component_max (fst (ebb_corners t)) (snd (ebb_corners t))).
Proof.
  unfold ebb_corners, seg_corner, seg_drawn_corner. destruct (ts_edges t) as [r l]. cbn [fst snd].
  intros [[E H]|[E H]]; rewrite E; cbn [fst snd]; unfold ple, component_min, component_max; cbn [px py].
  - destruct H as [-> | [-> | [-> | ->]]]; repeat split; lia.
  - destruct H as [-> | ->]; repeat split; lia.
Qed.

(* every corner of every non-skeleton segment, and the drawn (right) edge of every skeleton segment, is inside the box *)
Lemma segments_bounding_box_contains segs seg p : In seg segs ->
  (is_skeleton seg = false /\ seg_corner seg p) \/ (is_skeleton seg = true /\ seg_drawn_corner seg p) ->
  contains (segments_bounding_box segs) p = true.
Proof.
  intros I H. rewrite segments_bounding_box_fold.
  destruct (bb_fold_bounds segs (P i32_max i32_max, P i32_min i32_min) seg I) as [[A1 A2] [B1 B2]].
  destruct (ebb_corners_cover seg p H) as [[C1 C2] [D1 D2]].
  apply contains_with_corners; unfold ple; lia.
Qed.

(* the edge a skeleton is drawn along is inside the box for EVERY segment (repair 3241194; before it the box of a
   skeleton was taken from the other edge, finding K02_thick_skeleton_bbox) *)
Lemma segments_bounding_box_contains_drawn segs seg p : In seg segs -> seg_drawn_corner seg p ->
  contains (segments_bounding_box segs) p = true.
Proof.
  intros I C. apply (segments_bounding_box_contains segs seg p I).
  destruct (is_skeleton seg); [right | left]; (split; [reflexivity|]); [exact C|].
  unfold seg_corner. unfold seg_drawn_corner in C. tauto.
Qed.
