(* C19 / C01 / C02: the COLLAPSED Inside stroke (Triangle::is_collapsed holds; any width >= 1, with or without a fill colour):
   ScanlineIntersections::new stores is_collapsed only for StrokeOffset::Right, and then every row of the styled bounding box is
   Triangle::scanline_intersection of the clockwise triangle, painted in the stroke colour: pixels() is, as a set, exactly the
   set of rows of Triangle::scanline_intersection (the function Triangle::points() iterates: the triangle filled between its
   (y,x)-sorted Bresenham edges; no formal link to the points() model is stated here), in the stroke colour.
   Together with tri_outline_w1_any this characterises the width-1 stroke of EVERY triangle and alignment. *)
From EG Require Import Base.Prelude Base.Lemmas Model.Geometry Model.Style Model.Line Model.Thickline Model.Join Model.JoinTri.
From EG Require Import Proofs.Geometry Proofs.Line Proofs.Thickline Proofs.Join Proofs.JoinTri Proofs.JoinW1 Proofs.JoinTriDraw Proofs.JoinHull.
From EG Require Proofs.Triangle Proofs.JoinTriFill Proofs.JoinRange.
From EG Require Import Proofs.JoinOutline.
From Coq Require Import ZifyBool.
Set Default Timeout 60.

Definition tylo (t : tri3) : Z := Z.min (Z.min (py (fst (fst t))) (py (snd (fst t)))) (py (snd t)).
Definition tyhi (t : tri3) : Z := Z.max (Z.max (py (fst (fst t))) (py (snd (fst t)))) (py (snd t)).

Definition collapsed_row (ct : tri3) (y : Z) : list (scanline * point_type) := [(jt_scanline_intersection ct y, PStroke)].

Lemma jt_rows_collapsed_inside t w hf : tri_big t -> 0 < w ->
  jt_is_collapsed (jt_sorted_clockwise t) w SORight = Some true ->
  jt_rows t w Inside hf = Some (map (collapsed_row (jt_sorted_clockwise t)) (range (tylo t) (tyhi t + 1))).
Proof.
  intros TB Hw CO. unfold jt_rows. rewrite jt_styled_bounding_box_unfold. cbn [so_of_alignment]. rewrite CO.
  assert (W : 0 <? w = true) by lia. rewrite W. cbn [so_eqb andb].
  rewrite (rows_jt_bounding_box t) by apply TB. fold (tylo t) (tyhi t).
  destruct (Proofs.JoinTriFill.sorted_clockwise_hull t) as [_ [_ [YL YH]]].
  unfold Proofs.JoinTriFill.ylo, Proofs.JoinTriFill.yhi in YL, YH. fold (tylo (jt_sorted_clockwise t)) (tylo t) in YL.
  fold (tyhi (jt_sorted_clockwise t)) (tyhi t) in YH.
  rewrite (map_ext_in _ (fun y => Some (collapsed_row (jt_sorted_clockwise t) y))).
  - apply all_some_map_some.
  - intros y Iy. apply In_range in Iy. unfold jt_row, collapsed_row.
    rewrite (Proofs.JoinTriFill.jt_scanline_intersection_nonempty (jt_sorted_clockwise t) y); [reflexivity|].
    fold (tylo (jt_sorted_clockwise t)) (tyhi (jt_sorted_clockwise t)). lia.
Qed.

Theorem collapsed_inside_pixels t w fill : tri_big t -> 0 < w ->
  jt_is_collapsed (jt_sorted_clockwise t) w SORight = Some true ->
  exists px, jt_pixels t w Inside fill = Some px /\
    (forall pc, In pc px -> snd pc = 1) /\
    (forall p, In p (map fst px) <->
               tylo t <= py p <= tyhi t /\ In p (sl_points (jt_scanline_intersection (jt_sorted_clockwise t) (py p)))).
Proof.
  intros TB Hw CO. unfold jt_pixels. rewrite (jt_rows_collapsed_inside t w _ TB Hw CO).
  set (ct := jt_sorted_clockwise t). eexists. split; [reflexivity|].
  assert (NE : Forall (fun r => r <> []) (map (collapsed_row ct) (range (tylo t) (tyhi t + 1)))).
  { apply Forall_forall. intros r Ir. apply in_map_iff in Ir as (y & <- & _). unfold collapsed_row. discriminate. }
  rewrite (jt_pixels_sequence_nonempty _ NE).
  assert (W : 0 <? w = true) by lia.
  assert (ROW : forall lk, In lk (concat (map (collapsed_row ct) (range (tylo t) (tyhi t + 1)))) <->
                           exists y, tylo t <= y <= tyhi t /\ lk = (jt_scanline_intersection ct y, PStroke)).
  { intros lk. rewrite in_concat. split.
    - intros (row & Ir & Il). apply in_map_iff in Ir as (y & <- & Iy). apply In_range in Iy.
      unfold collapsed_row in Il. destruct Il as [<-|[]]. exists y. split; [lia | reflexivity].
    - intros (y & Hy & ->). exists (collapsed_row ct y). split; [apply in_map; apply In_range; lia | left; reflexivity]. }
  split.
  - intros pc Ipc. apply in_flat_map in Ipc as (lk & Ilk & Ip). apply ROW in Ilk as (y & _ & ->).
    cbn [snd fst jt_color] in Ip. rewrite W in Ip. apply in_map_iff in Ip as (q & <- & _). reflexivity.
  - intros p. rewrite in_map_iff. split.
    + intros ((q & col) & <- & Ipc). cbn [fst]. apply in_flat_map in Ipc as (lk & Ilk & Ip). apply ROW in Ilk as (y & Hy & ->).
      cbn [snd fst jt_color] in Ip. rewrite W in Ip. apply in_map_iff in Ip as (q' & E & Iq). injection E as E1 _. subst q'.
      destruct (Proofs.JoinTriFill.jt_scanline_intersection_hull ct y) as [X Y].
      destruct (sl_points_xin _ _ _ q X Iq) as [_ Py]. rewrite Y in Py. rewrite Py. split; [exact Hy | exact Iq].
    + intros [Hy Ip]. exists (p, 1). split; [reflexivity|]. apply in_flat_map.
      exists (jt_scanline_intersection ct (py p), PStroke). split; [apply ROW; exists (py p); split; [exact Hy | reflexivity]|].
      cbn [snd fst jt_color]. rewrite W. apply (in_map (fun q : point => (q, 1))). exact Ip.
Qed.

(* the rows of the collapsed stroke never make the un-fused iterator stop early: pixels() = draw() (C01) is
   C01_join_triangle_pixels_draw_fill_like; its pixels lie in the styled bounding box (C02): C02_join_triangle_fill_like_in_bbox *)

(* non-vacuity: a thin triangle whose Inside stroke of width 3 is collapsed, and a colinear one with width 1 (with width 1 the
   inner corner of a join is the vertex itself, so only degenerate joins collapse) *)
Example collapsed_inside_exists :
  jt_is_collapsed (jt_sorted_clockwise (P 0 0, P 10 1, P 20 0)) 3 SORight = Some true /\
  jt_is_collapsed (jt_sorted_clockwise (P 0 0, P 5 5, P 9 9)) 1 SORight = Some true.
Proof. vm_compute. split; reflexivity. Qed.
