(* Thick polylines: the segments that are boxed are the segments that are drawn; every drawn pixel lies in the styled
   bounding box (C02); pixels() and the fill_solid rectangles of draw() describe the same pixels in the same order (C01). *)
From EG Require Import Base.Prelude Base.Lemmas Model.Geometry Model.Style Model.Line Model.Thickline Model.Join.
From EG Require Import Proofs.Geometry Proofs.Line Proofs.ThicklineBox Proofs.Join Proofs.JoinHull.
From Coq Require Import ZifyBool.

Ltac Zify.zify_post_hook ::= Z.to_euclidean_division_equations.
Set Default Timeout 60.
Strategy 1000 [parallels_new parallels_run next_parallel parallels_next bnext_all bprevious_all].

(* ---- ThickSegmentIter (bounding box) and ScanlineIntersections::next_segment (drawing) yield the same segments ---- *)
Lemma lj_from_points_kind a b c w so j : lj_from_points a b c w so = Some j -> lj_kind j <> JEnd.
Proof.
  unfold lj_from_points. destruct (extents (L a b) w so) as [[fl fr]|]; [|discriminate].
  destruct (extents (L b c) w so) as [[sl sr]|]; [|discriminate]. intros H. injection H as <-.
  unfold lj_from_extents. destruct (intersections fl fr sl sr) as [[[li o] ri]|]; [|discriminate].
  destruct o; destruct (negb _); try discriminate; destruct (_ <=? _); discriminate.
Qed.

Lemma lj_end_kind a b w so j : lj_end a b w so = Some j -> lj_kind j = JEnd /\ second_edge_start j = first_edge_end j.
Proof. unfold lj_end. destruct (extents (L a b) w so) as [[l r]|]; [|discriminate]. intros H. injection H as <-. split; reflexivity. Qed.

Lemma lj_start_dual a b w so j : lj_start a b w so = Some j -> second_edge_start j = first_edge_end j.
Proof. unfold lj_start. destruct (extents (L a b) w so) as [[l r]|]; [|discriminate]. intros H. injection H as <-. reflexivity. Qed.

Definition last2 (pts : list point) : option (point * point) :=
  match last_opt (removelast pts), last_opt pts with Some y, Some z => Some (y, z) | _, _ => None end.

Lemma last2_cons a b c r : last2 (a :: b :: c :: r) = last2 (b :: c :: r).
Proof. reflexivity. Qed.

Lemma tsi_run_si w : forall pts sj ej y z fuel,
  (length pts < fuel)%nat -> (2 <= length pts)%nat -> last2 pts = Some (y, z) -> lj_kind ej <> JEnd ->
  tsi_run (windows3 pts) sj ej (y, z) w fuel = option_map (cons (TS sj ej)) (si_segments ej pts w).
Proof.
  induction pts as [|b t IH]; intros sj ej y z fuel Hf Hl L2 K; [cbn in Hl; lia|].
  destruct t as [|c [|e r]]; [cbn in Hl; lia| |].
  - (* the last segment *)
    cbn in L2. injection L2 as <- <-.
    destruct fuel as [|[|f]]; [cbn in Hf; lia | cbn in Hf; lia|].
    cbn [windows3 tsi_run si_segments fst snd].
    destruct (lj_kind ej) eqn:KE; try congruence;
      (destruct (lj_end b c w SONone) as [ej'|] eqn:E; [|reflexivity];
       destruct (lj_end_kind _ _ _ _ _ E) as [K' _]; rewrite K'; reflexivity).
  - rewrite last2_cons in L2. rewrite windows3_3, si_segments_3.
    destruct fuel as [|f]; [cbn in Hf; lia|]. cbn [tsi_run].
    destruct (lj_from_points b c e w SONone) as [ej'|] eqn:E; [|reflexivity].
    rewrite (IH ej ej' y z f); [reflexivity | cbn [length] in *; lia | cbn [length]; lia | exact L2 |].
    exact (lj_from_points_kind _ _ _ _ _ _ E).
Qed.

Lemma poly_segments_eq_iter pts w : poly_segments pts w = thick_segment_iter pts w.
Proof.
  destruct pts as [|a [|b [|c r]]]; try reflexivity.
  - unfold poly_segments, thick_segment_iter. destruct (lj_start a b w SONone) as [sj|]; [|reflexivity].
    cbn [si_segments]. destruct (lj_end a b w SONone) as [ej|] eqn:E; [|reflexivity].
    cbn [tsi_run]. destruct (lj_end_kind _ _ _ _ _ E) as [K _]. rewrite K. reflexivity.
  - rewrite thick_segment_iter_3. unfold poly_segments. destruct (lj_start a b w SONone) as [sj|]; [|reflexivity].
    rewrite si_segments_3. destruct (lj_from_points a b c w SONone) as [ej|] eqn:E; [|reflexivity].
    assert (L2 : exists y z, last2 (b :: c :: r) = Some (y, z)).
    { clear. revert b c. induction r as [|e r IH]; intros b c; [eexists; eexists; reflexivity|].
      rewrite last2_cons. apply IH. }
    destruct L2 as [y [z L2]]. pose proof L2 as L2'. rewrite <- last2_cons with (a := a) in L2'. unfold last2 in L2'.
    destruct (last_opt (removelast (a :: b :: c :: r))) as [y'|]; [|discriminate].
    destruct (last_opt (a :: b :: c :: r)) as [z'|]; [|discriminate]. injection L2' as -> ->.
    rewrite windows3_3. cbn [List.tl]. symmetry.
    apply tsi_run_si; [cbn [length]; lia | cbn [length]; lia | exact L2 | exact (lj_from_points_kind _ _ _ _ _ _ E)].
Qed.

(* ---- every corner of every join of the chain is a corner of some segment ---------------------------------------- *)
Definition join_P (P : point -> Prop) (j : line_join) : Prop :=
  P (ec_left (first_edge_end j)) /\ P (ec_right (first_edge_end j)) /\
  P (ec_left (second_edge_start j)) /\ P (ec_right (second_edge_start j)).

Lemma seg_corner_ses t : seg_corner t (ec_left (second_edge_start (ts_start_join t))) /\
                         seg_corner t (ec_right (second_edge_start (ts_start_join t))) /\
                         seg_corner t (ec_left (first_edge_end (ts_end_join t))) /\
                         seg_corner t (ec_right (first_edge_end (ts_end_join t))).
Proof. unfold seg_corner, ts_edges; cbn [fst snd l_start l_end]. tauto. Qed.

Lemma si_segments_joins (P : point -> Prop) w : forall pts sj segs,
  si_segments sj pts w = Some segs ->
  (forall t p, In t segs -> seg_corner t p -> P p) ->
  P (ec_left (first_edge_end sj)) -> P (ec_right (first_edge_end sj)) ->
  Forall (fun t => join_P P (ts_start_join t) /\ join_P P (ts_end_join t)) segs.
Proof.
  induction pts as [|a t IH]; intros sj segs H HP F1 F2; [injection H as <-; constructor|].
  destruct t as [|b [|c r]].
  - injection H as <-. constructor.
  - cbn [si_segments] in H. destruct (lj_end a b w SONone) as [ej|] eqn:E; [|discriminate]. injection H as <-.
    destruct (lj_end_kind _ _ _ _ _ E) as [_ D].
    destruct (seg_corner_ses (TS sj ej)) as [C1 [C2 [C3 C4]]]. cbn [ts_start_join ts_end_join] in *.
    assert (I : In (TS sj ej) [TS sj ej]) by (left; reflexivity).
    constructor; [|constructor]. cbn [ts_start_join ts_end_join]. unfold join_P. rewrite D.
    pose proof (HP _ _ I C1). pose proof (HP _ _ I C2). pose proof (HP _ _ I C3). pose proof (HP _ _ I C4). tauto.
  - rewrite si_segments_3 in H. destruct (lj_from_points a b c w SONone) as [ej|] eqn:E; [|discriminate].
    destruct (si_segments ej (b :: c :: r) w) as [rest|] eqn:R; [|discriminate]. injection H as <-.
    destruct (seg_corner_ses (TS sj ej)) as [C1 [C2 [C3 C4]]]. cbn [ts_start_join ts_end_join] in *.
    assert (I : In (TS sj ej) (TS sj ej :: rest)) by (left; reflexivity).
    pose proof (HP _ _ I C1) as Q1. pose proof (HP _ _ I C2) as Q2. pose proof (HP _ _ I C3) as Q3. pose proof (HP _ _ I C4) as Q4.
    assert (IHr := IH ej rest R (fun t p It => HP t p (or_intror It)) Q3 Q4).
    constructor; [|exact IHr]. cbn [ts_start_join ts_end_join]. split; [unfold join_P; tauto|].
    (* the end join: its second_edge_start corners are corners of the next segment (which starts with ej) *)
    destruct rest as [|t2 rest'].
    + (* impossible: b :: c :: r has at least one segment *)
      destruct r as [|e r'].
      * cbn [si_segments] in R. destruct (lj_end b c w SONone); discriminate.
      * rewrite si_segments_3 in R. destruct (lj_from_points b c e w SONone); [|discriminate].
        destruct (si_segments _ (c :: e :: r') w); discriminate.
    + inversion IHr as [|? ? [[_ [_ [S3 S4]]] _] _]; subst.
      assert (ST : ts_start_join t2 = ej).
      { destruct r as [|e r'].
        - cbn [si_segments] in R. destruct (lj_end b c w SONone); [|discriminate]. injection R as <- _. reflexivity.
        - rewrite si_segments_3 in R. destruct (lj_from_points b c e w SONone); [|discriminate].
          destruct (si_segments _ (c :: e :: r') w); [|discriminate]. injection R as <- _. reflexivity. }
      rewrite ST in S3, S4. unfold join_P. tauto.
Qed.

Lemma poly_segments_joins (P : point -> Prop) pts w segs : poly_segments pts w = Some segs ->
  (forall t p, In t segs -> seg_corner t p -> P p) ->
  Forall (fun t => join_P P (ts_start_join t) /\ join_P P (ts_end_join t)) segs.
Proof.
  destruct pts as [|a [|b r]]; try (intros H _; injection H as <-; constructor).
  unfold poly_segments. destruct (lj_start a b w SONone) as [sj|] eqn:E; [|discriminate]. intros H HP.
  pose proof (lj_start_dual _ _ _ _ _ E) as D.
  destruct segs as [|t0 rest]; [constructor|].
  assert (ST : ts_start_join t0 = sj).
  { destruct r as [|c r'].
    - cbn [si_segments] in H. destruct (lj_end a b w SONone); [|discriminate]. injection H as <- _. reflexivity.
    - rewrite si_segments_3 in H. destruct (lj_from_points a b c w SONone); [|discriminate].
      destruct (si_segments _ (b :: c :: r') w); [|discriminate]. injection H as <- _. reflexivity. }
  destruct (seg_corner_ses t0) as [C1 [C2 _]]. rewrite ST in C1, C2.
  apply (si_segments_joins P w _ sj _ H HP); rewrite <- D; [exact (HP t0 _ (or_introl eq_refl) C1) | exact (HP t0 _ (or_introl eq_refl) C2)].
Qed.

(* ---- where the scanlines of a thick polyline lie ------------------------------------------------------------------ *)
(* generic: if every segment corner satisfies lo <= x <= hi, so does every scanline; the rows are those of the box *)
Lemma poly_scanlines_where pts w segs ls lo hi :
  thick_segment_iter pts w = Some segs -> Forall seg_ok segs ->
  (forall t p, In t segs -> seg_corner t p -> lo <= px p <= hi) ->
  poly_scanlines pts w = Some ls ->
  forall s, In s ls -> sl_is_empty s = false /\ xin lo hi s /\
    exists m M, fold_left bb_step segs (P i32_max i32_max, P i32_min i32_min) = (m, M) /\ jpt_big m /\ jpt_big M /\
                Z.min (py m) (py M) <= sl_y s <= Z.max (py m) (py M).
Proof.
  intros T OK HP H s Is.
  destruct pts as [|a [|b r]]; try (injection H as <-; destruct Is).
  unfold poly_scanlines, poly_thick_bounding_box in H. rewrite poly_segments_eq_iter, T in H.
  cbv beta iota in H.
  pose proof T as TP. rewrite <- poly_segments_eq_iter in TP.
  destruct segs as [|s0 rest]; [exfalso; exact (thick_segment_iter_nonempty _ _ _ _ _ T eq_refl)|].
  destruct (sbb_fold_form s0 rest OK) as [Bm BM].
  rewrite segments_bounding_box_fold in H.
  destruct (fold_left bb_step (s0 :: rest) (P i32_max i32_max, P i32_min i32_min)) as [m M] eqn:FD. cbn [fst snd] in *.
  rewrite (rows_with_corners_big m M Bm BM) in H. injection H as <-.
  apply in_flat_map in Is as [y [Iy Is]]. apply filter_In in Is as [Is NE]. apply In_range in Iy.
  pose proof (poly_segments_joins (fun p => lo <= px p <= hi) _ _ _ TP HP) as JS.
  pose proof (si_merge_xin lo hi (s0 :: rest) (sl_new_empty y) JS (xin_new_empty lo hi y)) as F.
  assert (Is' : In s (si_merge (sl_new_empty y) (s0 :: rest))) by (right; exact Is).
  rewrite Forall_forall in F. destruct (F s Is') as [X Y]. cbn [sl_new_empty sl_y] in Y.
  split; [destruct (sl_is_empty s); [discriminate | reflexivity]|]. split; [exact X|].
  exists m, M. split; [reflexivity|]. split; [exact Bm|]. split; [exact BM|]. lia.
Qed.

Lemma seg_corner_big t p : seg_ok t -> seg_corner t p -> jpt_big p.
Proof. intros [A [B [C D]]] [-> | [-> | [-> | ->]]]; assumption. Qed.

(* C02: every pixel of pixels() / draw() of a thick polyline lies in the styled bounding box.  Hypotheses: no segment is
   taken for a skeleton (then the box only covers the drawn edge, and a filler line of the neighbouring join may start
   outside it); segment corners within +-2^29. *)
Lemma poly_drawn_in_bbox pts w segs ls s p :
  thick_segment_iter pts w = Some segs -> existsb is_skeleton segs = false -> Forall seg_ok segs ->
  poly_scanlines pts w = Some ls -> In s ls -> In p (sl_points s) ->
  contains (segments_bounding_box segs) p = true.
Proof.
  intros T NS OK H Is Ip.
  set (mM := fold_left bb_step segs (P i32_max i32_max, P i32_min i32_min)).
  assert (HP : forall t q, In t segs -> seg_corner t q -> px (fst mM) <= px q <= px (snd mM) ).
  { intros t q It C. destruct (bb_fold_bounds segs (P i32_max i32_max, P i32_min i32_min) t It) as [[A1 _] [B1 _]].
    assert (SK : is_skeleton t = false).
    { destruct (is_skeleton t) eqn:E; [|reflexivity].
      assert (existsb is_skeleton segs = true) by (apply existsb_exists; exists t; split; assumption). congruence. }
    destruct (ebb_corners_cover t q (or_introl (conj SK C))) as [[C1 _] [D1 _]]. fold mM in A1, B1. lia. }
  destruct (poly_scanlines_where pts w segs ls _ _ T OK HP H s Is) as [NE [X [m [M [FD [Bm [BM Y]]]]]]].
  destruct (sl_points_xin _ _ s p X Ip) as [Px Py].
  rewrite segments_bounding_box_fold. fold mM. subst mM. rewrite FD in *. cbn [fst snd] in *.
  apply contains_spec. unfold with_corners, size_from_bounding_box; cbn [tl sz sw sh px py]. lia.
Qed.

(* ---- C01: the one-row rectangle of a scanline has exactly the scanline's points ------------------------------------- *)
Lemma range_one y : range y (y + 1) = [y].
Proof. rewrite range_cons by lia. rewrite range_nil by lia. reflexivity. Qed.

Lemma points_sl_to_rectangle s : sl_is_empty s = false ->
  - jbig <= sl_x0 s -> sl_x1 s <= jbig + 1 -> - jbig <= sl_y s <= jbig ->
  points (sl_to_rectangle s) = sl_points s.
Proof.
  intros NE A B C. unfold sl_is_empty in NE. unfold jbig in *.
  unfold sl_to_rectangle, points, is_zero_sized, columns, rows, sl_points, sat_add_i32, sat_u32_to_i32, i32_max, i32_min, sl_is_empty.
  destruct (sl_x0 s <? sl_x1 s) eqn:E; [|discriminate]. cbn [negb tl sz sw sh px py].
  destruct ((1 =? 0) || (sl_x1 s - sl_x0 s =? 0)) eqn:Z; [lia|].
  replace (Z.max (-2147483648) (Z.min (sl_x0 s + Z.min (sl_x1 s - sl_x0 s) 2147483647) 2147483647)) with (sl_x1 s) by lia.
  replace (Z.max (-2147483648) (Z.min (sl_y s + Z.min 1 2147483647) 2147483647)) with (sl_y s + 1) by lia.
  rewrite range_one. cbn [flat_map]. apply app_nil_r.
Qed.

(* the points fill_solid(rect) writes, shifted by the polyline's translate (draw() draws into target.translated(translate)) *)
Definition rect_points_tr (tr : point) (r : rect) : list point := map (fun p => padd p tr) (points r).

(* C01: pixels() of a thick polyline = the points of the fill_solid rectangles of draw(), in the same order *)
Lemma poly_pixels_draw pts tr w segs :
  thick_segment_iter pts w = Some segs -> Forall seg_ok segs ->
  poly_thick_points pts tr w = option_map (flat_map (rect_points_tr tr)) (poly_thick_rects pts w).
Proof.
  intros T OK. unfold poly_thick_points, poly_thick_rects.
  destruct (poly_scanlines pts w) as [ls|] eqn:H; [|reflexivity]. cbn [option_map]. f_equal.
  assert (HP : forall t q, In t segs -> seg_corner t q -> - jbig <= px q <= jbig).
  { intros t q It C. rewrite Forall_forall in OK. destruct (seg_corner_big t q (OK t It) C) as [A _]. exact A. }
  pose proof (poly_scanlines_where pts w segs ls _ _ T OK HP H) as W.
  clear H. induction ls as [|s ls IH]; [reflexivity|].
  cbn [flat_map map filter]. destruct (W s (or_introl eq_refl)) as [NE [X [m [M [_ [[_ Bm] [[_ BM] Y]]]]]]].
  assert (PT : points (sl_to_rectangle s) = sl_points s).
  { destruct X as [E|[X0 X1]]; [congruence|]. apply points_sl_to_rectangle; try assumption; unfold jbig in *; lia. }
  assert (NZ : is_zero_sized (sl_to_rectangle s) = false).
  { unfold is_zero_sized, sl_to_rectangle; cbn [sz sw sh]. rewrite NE. cbn [negb]. unfold sl_is_empty in NE. lia. }
  rewrite NZ. cbn [negb flat_map]. unfold rect_points_tr at 1. rewrite PT, map_app. f_equal.
  apply IH. intros s' Is'. apply W. right. exact Is'.
Qed.

Lemma poly_pixels_draw_ok pts tr w : poly_box_ok pts w ->
  poly_thick_points pts tr w = option_map (flat_map (rect_points_tr tr)) (poly_thick_rects pts w).
Proof.
  unfold poly_box_ok. destruct (thick_segment_iter pts w) as [segs|] eqn:T.
  - intros OK. exact (poly_pixels_draw pts tr w segs T OK).
  - intros _. unfold poly_thick_points, poly_thick_rects, poly_scanlines, poly_thick_bounding_box. rewrite T.
    destruct pts as [|a [|b r]]; reflexivity.
Qed.
