(* The scanlines of a thick segment stay inside the hull of the corners of its two joins
   (ThickSegment::intersection draws Bresenham lines between those corners and the midpoints of the filler lines;
   Bresenham pixels stay inside the box of their end points: Proofs/ThicklineBox.v line_points_in_bbox).
   Used for C02 (drawn pixels inside the styled bounding box) and for the range conditions of C01. *)
From EG Require Import Base.Prelude Base.Lemmas Model.Geometry Model.Style Model.Line Model.Thickline Model.Join.
From EG Require Import Proofs.Geometry Proofs.Line Proofs.ThicklineBox Proofs.Join.
From Coq Require Import ZifyBool.

Ltac Zify.zify_post_hook ::= Z.to_euclidean_division_equations.
Set Default Timeout 60.

(* the x range of s lies in lo..=hi (an empty scanline has no x range) *)
Definition xin (lo hi : Z) (s : scanline) : Prop :=
  sl_is_empty s = true \/ (lo <= sl_x0 s /\ sl_x1 s <= hi + 1).

Lemma xin_new_empty lo hi y : xin lo hi (sl_new_empty y).
Proof. left. reflexivity. Qed.

Lemma sl_extend_y s x : sl_y (sl_extend s x) = sl_y s.
Proof. unfold sl_extend. destruct (sl_is_empty s); [reflexivity|]. destruct (x <? sl_x0 s); [reflexivity|]. destruct (sl_x1 s <=? x); reflexivity. Qed.

Lemma xin_extend lo hi s x : xin lo hi s -> lo <= x <= hi -> xin lo hi (sl_extend s x).
Proof.
  intros H Hx. right. unfold sl_extend. destruct (sl_is_empty s) eqn:E; [cbn [sl_x0 sl_x1]; lia|].
  destruct H as [H|[H1 H2]]; [congruence|].
  destruct (x <? sl_x0 s) eqn:A; [cbn [sl_x0 sl_x1]; lia|].
  destruct (sl_x1 s <=? x) eqn:B; cbn [sl_x0 sl_x1]; lia.
Qed.

Lemma take_while_In {A} (f : A -> bool) l x : In x (take_while f l) -> In x l.
Proof. induction l as [|y t IH]; [intros []|]. cbn. destruct (f y); [|intros []]. intros [->|H]; [left; reflexivity | right; apply IH, H]. Qed.

Lemma skip_while_In {A} (f : A -> bool) l x : In x (skip_while f l) -> In x l.
Proof. induction l as [|y t IH]; [intros []|]. cbn. destruct (f y); [intros H; right; apply IH, H | intros H; exact H]. Qed.

Lemma fold_extend_xin lo hi : forall (l : list point) s, xin lo hi s -> (forall p, In p l -> lo <= px p <= hi) ->
  xin lo hi (fold_left (fun acc p => sl_extend acc (px p)) l s) /\
  sl_y (fold_left (fun acc p => sl_extend acc (px p)) l s) = sl_y s.
Proof.
  induction l as [|p t IH]; intros s H Hl; [split; [exact H | reflexivity]|].
  cbn [fold_left]. destruct (IH (sl_extend s (px p))) as [A B].
  - apply xin_extend; [exact H | apply Hl; left; reflexivity].
  - intros q Hq. apply Hl. right. exact Hq.
  - split; [exact A | rewrite B; apply sl_extend_y].
Qed.

Lemma line_points_x_hull l p : In p (line_points l) ->
  Z.min (px (l_start l)) (px (l_end l)) <= px p <= Z.max (px (l_start l)) (px (l_end l)).
Proof.
  intros H. pose proof (line_points_in_bbox l p H) as C. apply contains_spec in C.
  unfold line_bbox, with_corners, size_from_bounding_box in C; cbn [tl sz sw sh px py] in C. lia.
Qed.

(* Scanline::bresenham_intersection keeps the scanline inside lo..hi when the line's end points are *)
Lemma bresenham_intersection_xin lo hi s l : xin lo hi s ->
  lo <= px (l_start l) <= hi -> lo <= px (l_end l) <= hi ->
  xin lo hi (bresenham_intersection s l) /\ sl_y (bresenham_intersection s l) = sl_y s.
Proof.
  intros H Hs He. unfold bresenham_intersection. destruct (negb _); [split; [exact H | reflexivity]|].
  apply fold_extend_xin; [exact H|]. intros p Hp.
  apply take_while_In, skip_while_In in Hp. pose proof (line_points_x_hull l p Hp). lia.
Qed.

Lemma sl_try_extend_xin lo hi s o : xin lo hi s -> xin lo hi o ->
  xin lo hi (snd (sl_try_extend s o)) /\ sl_y (snd (sl_try_extend s o)) = sl_y s.
Proof.
  intros Hs Ho. unfold sl_try_extend. destruct (sl_touches s o) eqn:T; cbn [snd]; [|split; [exact Hs | reflexivity]].
  split; [|reflexivity]. unfold sl_touches in T.
  destruct (sl_is_empty s) eqn:E1; [discriminate|]. destruct (sl_is_empty o) eqn:E2; [discriminate|].
  destruct Hs as [?|[A1 A2]]; [congruence|]. destruct Ho as [?|[B1 B2]]; [congruence|].
  right. cbn [sl_x0 sl_x1]. lia.
Qed.

(* ---- thick segments ----------------------------------------------------------------------------------------- *)
(* all four corners of a join have their x between lo and hi *)
Definition join_xin (lo hi : Z) (j : line_join) : Prop :=
  lo <= px (ec_left (first_edge_end j)) <= hi /\ lo <= px (ec_right (first_edge_end j)) <= hi /\
  lo <= px (ec_left (second_edge_start j)) <= hi /\ lo <= px (ec_right (second_edge_start j)) <= hi.

Lemma midpoint_x_between lo hi l : lo <= px (l_start l) <= hi -> lo <= px (l_end l) <= hi ->
  lo <= px (line_midpoint l) <= hi.
Proof. unfold line_midpoint, line_delta, padd, psub; cbn [px py]. lia. Qed.

Lemma lj_cap_xin lo hi j c s : join_xin lo hi j -> lo <= px (ec_left c) <= hi -> lo <= px (ec_right c) <= hi ->
  xin lo hi s ->
  xin lo hi (bi_opt (bresenham_intersection s (fst (lj_cap j c))) (snd (lj_cap j c))) /\
  sl_y (bi_opt (bresenham_intersection s (fst (lj_cap j c))) (snd (lj_cap j c))) = sl_y s.
Proof.
  intros [J1 [J2 [J3 J4]]] Cl Cr Hs. unfold lj_cap, filler_line.
  assert (M : forall fl, (fl = L (ec_left (first_edge_end j)) (ec_left (second_edge_start j)) \/
                          fl = L (ec_right (first_edge_end j)) (ec_right (second_edge_start j))) ->
              lo <= px (line_midpoint fl) <= hi).
  { intros fl [->| ->]; apply midpoint_x_between; cbn [l_start l_end]; assumption. }
  assert (TWO : forall fl, lo <= px (line_midpoint fl) <= hi ->
            xin lo hi (bi_opt (bresenham_intersection s (L (ec_left c) (line_midpoint fl))) (Some (L (line_midpoint fl) (ec_right c)))) /\
            sl_y (bi_opt (bresenham_intersection s (L (ec_left c) (line_midpoint fl))) (Some (L (line_midpoint fl) (ec_right c)))) = sl_y s).
  { intros fl Hm. cbn [bi_opt].
    destruct (bresenham_intersection_xin lo hi s (L (ec_left c) (line_midpoint fl)) Hs Cl Hm) as [A B].
    destruct (bresenham_intersection_xin lo hi _ (L (line_midpoint fl) (ec_right c)) A Hm Cr) as [A' B'].
    split; [exact A' | rewrite B'; exact B]. }
  assert (ONE : xin lo hi (bi_opt (bresenham_intersection s (L (ec_left c) (ec_right c))) None) /\
                sl_y (bi_opt (bresenham_intersection s (L (ec_left c) (ec_right c))) None) = sl_y s).
  { cbn [bi_opt]. apply bresenham_intersection_xin; assumption. }
  destruct (lj_kind j) as [|o|o| | |]; cbn [fst snd]; try exact ONE;
    destruct o; cbn [fst snd]; apply TWO; apply M; auto.
Qed.

(* ThickSegment::intersection stays inside the x hull of the corners of its two joins *)
Lemma ts_intersection_xin lo hi t y : join_xin lo hi (ts_start_join t) -> join_xin lo hi (ts_end_join t) ->
  xin lo hi (ts_intersection t y) /\ sl_y (ts_intersection t y) = y.
Proof.
  intros Js Je. pose proof Js as [S1 [S2 [S3 S4]]]. pose proof Je as [E1 [E2 [E3 E4]]].
  unfold ts_intersection. pose proof (xin_new_empty lo hi y) as X0.
  destruct (is_skeleton t).
  - unfold ts_edges; cbn [fst]. apply (bresenham_intersection_xin lo hi (sl_new_empty y)); cbn [l_start l_end]; assumption.
  - unfold start_cap_lines, end_cap_lines.
    destruct (lj_cap_xin lo hi (ts_start_join t) (second_edge_start (ts_start_join t)) (sl_new_empty y) Js S3 S4 X0) as [A1 B1].
    destruct (lj_cap (ts_start_join t) (second_edge_start (ts_start_join t))) as [a1 a2]. cbn [fst snd] in A1, B1.
    destruct (lj_cap_xin lo hi (ts_end_join t) (first_edge_end (ts_end_join t)) _ Je E1 E2 A1) as [A2 B2].
    destruct (lj_cap (ts_end_join t) (first_edge_end (ts_end_join t))) as [b1 b2]. cbn [fst snd] in A2, B2.
    unfold ts_edges.
    destruct (bresenham_intersection_xin lo hi _ (L (ec_right (second_edge_start (ts_start_join t))) (ec_right (first_edge_end (ts_end_join t)))) A2 S4 E2) as [A3 B3].
    destruct (bresenham_intersection_xin lo hi _ (L (ec_left (first_edge_end (ts_end_join t))) (ec_left (second_edge_start (ts_start_join t)))) A3 E1 S3) as [A4 B4].
    split; [exact A4|]. rewrite B4, B3, B2, B1. reflexivity.
Qed.

(* the merge loop of polyline::ScanlineIntersections *)
Lemma si_merge_xin lo hi : forall segs acc,
  Forall (fun t => join_xin lo hi (ts_start_join t) /\ join_xin lo hi (ts_end_join t)) segs -> xin lo hi acc ->
  Forall (fun s => xin lo hi s /\ sl_y s = sl_y acc) (si_merge acc segs).
Proof.
  induction segs as [|seg rest IH]; intros acc F H.
  - cbn [si_merge]. destruct (sl_is_empty acc); constructor; [split; [exact H | reflexivity] | constructor].
  - inversion F as [|? ? [Js Je] F']; subst. cbn [si_merge].
    destruct (ts_intersection_xin lo hi seg (sl_y acc) Js Je) as [A B].
    destruct (sl_try_extend_xin lo hi acc _ H A) as [C D].
    destruct (sl_try_extend acc (ts_intersection seg (sl_y acc))) as [ext a1]. cbn [snd] in C, D. destruct ext.
    + specialize (IH a1 F' C). rewrite D in IH. exact IH.
    + constructor; [split; [exact H | reflexivity]|]. specialize (IH _ F' A). rewrite B in IH. exact IH.
Qed.

(* the points of a non-empty scanline *)
Lemma sl_points_xin lo hi s p : xin lo hi s -> In p (sl_points s) -> lo <= px p <= hi /\ py p = sl_y s.
Proof.
  intros H I. unfold sl_points in I. apply in_map_iff in I as [x [<- Ix]]. apply In_range in Ix. cbn [px py].
  destruct H as [E|[A B]]; [unfold sl_is_empty in E; lia | lia].
Qed.
