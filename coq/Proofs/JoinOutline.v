(* C19 tri_outline_w1: a triangle with stroke width 1, Center alignment and no fill paints exactly the union of the three
   Bresenham lines between its clockwise-ordered vertices.
   Uses the row machinery of the tri builder's Proofs/Triangle.v (sl_hull, skip_take_filter, line_pt_x / line_pt_y,
   In_line_points), generalised here from lines with start.y <= end.y to all lines. *)
From EG Require Import Base.Prelude Base.Lemmas Model.Geometry Model.Style Model.Line Model.Thickline.
From EG Require Model.Join Model.JoinTri.
From EG Require Import Model.Triangle.
From EG Require Import Proofs.Geometry Proofs.Line Proofs.Triangle.
From Coq Require Import ZifyBool Sorting.Sorted.

Ltac Zify.zify_post_hook ::= Z.to_euclidean_division_equations.
Set Default Timeout 60.

(* ---- rows of an arbitrary line ------------------------------------------------------------------------------------------ *)
Lemma sgn_cases x : sgn x = 1 \/ sgn x = -1.
Proof. unfold sgn. destruct (0 <=? x); auto. Qed.

(* along any line the rows are visited monotonically: increasing when sgn (ldy) = 1, decreasing otherwise *)
Lemma line_rows_sorted_any l :
  StronglySorted (fun a b => py a * sgn (ldy l) <= py b * sgn (ldy l)) (line_points l).
Proof.
  rewrite line_points_closed. unfold range. apply sorted_map_range_from.
  intros i j Hi Hj. rewrite !line_pt_y. pose proof (ldm_ok l) as Hd.
  destruct (sgn_cases (ldy l)) as [-> | ->]; destruct (y_major l); try lia;
    pose proof (Mk_mono _ _ Hd i j ltac:(lia)); lia.
Qed.

Lemma bresenham_intersection_filter_any s l :
  bresenham_intersection s l =
  fold_left (fun acc p => sl_extend acc (px p)) (row_of (sl_y s) (line_points l)) s.
Proof.
  unfold bresenham_intersection.
  destruct (if py (l_start l) <=? py (l_end l) then (py (l_start l), py (l_end l)) else (py (l_end l), py (l_start l))) as [lo hi] eqn:LH.
  assert (R : lo = Z.min (py (l_start l)) (py (l_end l)) /\ hi = Z.max (py (l_start l)) (py (l_end l))).
  { destruct (py (l_start l) <=? py (l_end l)) eqn:E; injection LH as <- <-; lia. }
  destruct R as [-> ->].
  destruct (negb _) eqn:T.
  - unfold row_of. rewrite filter_all_false; [reflexivity|]. intros p Hp. apply line_points_hull in Hp. lia.
  - unfold row_of. set (sg := sgn (ldy l)).
    assert (Q : forall p : point, (py p * sg =? sl_y s * sg) = (py p =? sl_y s)).
    { intros p. destruct (sgn_cases (ldy l)) as [E | E]; fold sg in E; rewrite E; lia. }
    rewrite (filter_ext _ (fun p => py p * sg =? sl_y s * sg)) by (intros p; symmetry; apply Q).
    rewrite <- (skip_take_filter (fun p => py p * sg) (sl_y s * sg)) by apply line_rows_sorted_any.
    assert (TW : forall (f g : point -> bool) l0, (forall x, f x = g x) -> take_while f l0 = take_while g l0).
    { intros f g l0 H. induction l0 as [|x t IH]; [reflexivity|]. cbn. rewrite H, IH. reflexivity. }
    assert (D : forall (f g : point -> bool) l0, (forall x, f x = g x) -> drop_while f l0 = drop_while g l0).
    { intros f g l0 H. induction l0 as [|x t IH]; [reflexivity|]. cbn. rewrite H, IH. reflexivity. }
    rewrite (D (fun p => negb (py p =? sl_y s)) (fun a => negb (py a * sg =? sl_y s * sg))) by (intros p; rewrite Q; reflexivity).
    rewrite (TW (fun p => py p =? sl_y s) (fun a => py a * sg =? sl_y s * sg)) by (intros p; symmetry; apply Q).
    reflexivity.
Qed.

Lemma bresenham_intersection_hull_any y l :
  sl_hull (bresenham_intersection (sl_new_empty y) l) (rev (map px (row_of y (line_points l)))) /\
  sl_y (bresenham_intersection (sl_new_empty y) l) = y.
Proof.
  rewrite bresenham_intersection_filter_any. cbn [sl_new_empty sl_y].
  destruct (fold_extend_hull (row_of y (line_points l)) (SL y 0 0) [] (sl_hull_empty y)) as [A B].
  rewrite app_nil_r in A. split; [exact A | exact B].
Qed.

(* the pixels of any line in one row form a run without holes *)
Lemma line_row_run_any l a b x y :
  In (P a y) (line_points l) -> In (P b y) (line_points l) -> a <= x <= b -> In (P x y) (line_points l).
Proof.
  intros Ha Hb Hx. pose proof Ha as Ha0. pose proof (ldm_ok l) as Hd.
  apply In_line_points in Ha, Hb. destruct Ha as (ka & Hka & Ea), Hb as (kb & Hkb & Eb).
  pose proof (f_equal px Ea) as Xa. pose proof (f_equal py Ea) as Ya.
  pose proof (f_equal px Eb) as Xb. pose proof (f_equal py Eb) as Yb.
  rewrite line_pt_x in Xa, Xb. rewrite line_pt_y in Ya, Yb. cbn [px py] in *.
  set (sy := sgn (ldy l)) in *. assert (Hsy : sy = 1 \/ sy = -1) by apply sgn_cases.
  destruct (y_major l) eqn:YM.
  - assert (ka = kb) by (destruct Hsy as [E|E]; rewrite E in *; lia). subst kb.
    assert (x = a) by lia. subst x. exact Ha0.
  - set (s := sgn (ldx l)) in *. assert (Hs : s = 1 \/ s = -1) by apply sgn_cases.
    set (k := (x - px (l_start l)) * s).
    assert (Hk : (ka <= k <= kb) \/ (kb <= k <= ka)) by (unfold k; destruct Hs as [E|E]; rewrite E in *; lia).
    assert (Hk0 : 0 <= k <= ldmaj l) by lia.
    assert (EM : Mk (ldmaj l) (ldmin l) ka = Mk (ldmaj l) (ldmin l) kb) by (destruct Hsy as [E|E]; rewrite E in *; lia).
    assert (HM : Mk (ldmaj l) (ldmin l) k = Mk (ldmaj l) (ldmin l) ka).
    { destruct Hk as [Hk|Hk].
      - pose proof (Mk_mono _ _ Hd ka k ltac:(lia)). pose proof (Mk_mono _ _ Hd k kb ltac:(lia)). lia.
      - pose proof (Mk_mono _ _ Hd kb k ltac:(lia)). pose proof (Mk_mono _ _ Hd k ka ltac:(lia)). lia. }
    apply In_line_points. exists k. split; [assumption|].
    rewrite (point_eta (line_pt l k)), line_pt_x, line_pt_y, YM, HM. fold s sy. f_equal; [|lia].
    unfold k. destruct Hs as [E|E]; rewrite E; lia.
Qed.

(* the scanline of a line in row y has exactly the line's pixels of that row *)
Lemma bresenham_row_exact y l x :
  sl_has (bresenham_intersection (sl_new_empty y) l) x <-> In (P x y) (line_points l).
Proof.
  destruct (bresenham_intersection_hull_any y l) as [H _]. split.
  - intros Hx. destruct (sl_hull_between _ _ _ H Hx) as (a & b & Ia & Ib & Hab).
    rewrite <- in_rev in Ia, Ib. apply In_row_of in Ia. apply In_row_of in Ib. exact (line_row_run_any l a b x y Ia Ib Hab).
  - intros Hx. apply (sl_hull_in _ _ _ H). rewrite <- in_rev. apply In_row_of. exact Hx.
Qed.

(* every row between the end points of a line has a pixel (any direction) *)
Lemma discrete_ivt (g : Z -> Z) : forall n, (forall k, 0 <= k -> g (k + 1) = g k \/ g (k + 1) = g k + 1) -> g 0 = 0 ->
  forall t, 0 <= t <= g (Z.of_nat n) -> exists k, 0 <= k <= Z.of_nat n /\ g k = t.
Proof.
  induction n as [|n IH]; intros Hs H0 t Ht.
  - exists 0. cbn in *. lia.
  - replace (Z.of_nat (Datatypes.S n)) with (Z.of_nat n + 1) in * by lia.
    destruct (Hs (Z.of_nat n) ltac:(lia)) as [E|E].
    + destruct (IH Hs H0 t ltac:(lia)) as (k & Hk & Ek). exists k. split; [lia | exact Ek].
    + destruct (Z.eq_dec t (g (Z.of_nat n) + 1)) as [->|N].
      * exists (Z.of_nat n + 1). split; [lia | exact E].
      * destruct (IH Hs H0 t ltac:(lia)) as (k & Hk & Ek). exists k. split; [lia | exact Ek].
Qed.

Lemma line_row_nonempty_any l y :
  Z.min (py (l_start l)) (py (l_end l)) <= y <= Z.max (py (l_start l)) (py (l_end l)) ->
  exists p, In p (line_points l) /\ py p = y.
Proof.
  intros Hy. pose proof (ldm_ok l) as Hd.
  set (K := fun k => if y_major l then k else Mk (ldmaj l) (ldmin l) k).
  assert (KS : forall k, 0 <= k -> K (k + 1) = K k \/ K (k + 1) = K k + 1).
  { intros k Hk. unfold K. destruct (y_major l); [right; reflexivity | apply Mk_step; assumption]. }
  assert (K0 : K 0 = 0) by (unfold K; destruct (y_major l); [reflexivity | apply Mk_0; assumption]).
  assert (KD : K (ldmaj l) = Z.abs (ldy l)).
  { unfold K. destruct (y_major l) eqn:YM; [unfold y_major in YM; unfold ldmaj; lia|].
    rewrite Mk_end by assumption. unfold y_major in YM. unfold ldmin. lia. }
  assert (T : 0 <= (y - py (l_start l)) * sgn (ldy l) <= K (Z.of_nat (Z.to_nat (ldmaj l)))).
  { rewrite Z2Nat.id by lia. rewrite KD. unfold sgn, ldy in *. destruct (0 <=? py (l_end l) - py (l_start l)) eqn:E; lia. }
  destruct (discrete_ivt K (Z.to_nat (ldmaj l)) KS K0 _ T) as (k & Hk & Ek). rewrite Z2Nat.id in Hk by lia.
  exists (line_pt l k). split; [apply In_line_points; exists k; split; [lia | reflexivity]|].
  rewrite line_pt_y. fold (K k). rewrite Ek. destruct (sgn_cases (ldy l)) as [E|E]; rewrite E; lia.
Qed.

(* ---- the same on the scanline record of Model/Join.v ---------------------------------------------------------------------- *)
Definition cv (s : Join.scanline) : scanline := SL (Join.sl_y s) (Join.sl_x0 s) (Join.sl_x1 s).
Definition jhas (s : Join.scanline) (x : Z) : Prop := Join.sl_x0 s <= x < Join.sl_x1 s.

Lemma cv_extend s x : cv (Join.sl_extend s x) = sl_extend (cv s) x.
Proof.
  unfold Join.sl_extend, sl_extend, Join.sl_is_empty, sl_is_empty, cv; cbn [sl_start sl_end sl_y].
  destruct (negb (Join.sl_x0 s <? Join.sl_x1 s)); [reflexivity|].
  destruct (x <? Join.sl_x0 s); [reflexivity|]. destruct (Join.sl_x1 s <=? x); reflexivity.
Qed.

Lemma skip_is_drop {A} (f : A -> bool) l : Join.skip_while f l = drop_while f l.
Proof. induction l as [|x t IH]; [reflexivity|]. cbn. rewrite IH. reflexivity. Qed.

Lemma cv_fold (ps : list point) : forall s,
  cv (fold_left (fun acc p => Join.sl_extend acc (px p)) ps s) = fold_left (fun acc p => sl_extend acc (px p)) ps (cv s).
Proof. induction ps as [|p t IH]; intros s; [reflexivity|]. cbn [fold_left]. rewrite IH, cv_extend. reflexivity. Qed.

Lemma cv_bresenham s l : cv (Join.bresenham_intersection s l) = bresenham_intersection (cv s) l.
Proof.
  unfold Join.bresenham_intersection, bresenham_intersection. cbn [cv sl_y].
  assert (E : (let '(lo, hi) := if py (l_start l) <=? py (l_end l) then (py (l_start l), py (l_end l)) else (py (l_end l), py (l_start l)) in
               negb ((lo <=? Join.sl_y s) && (Join.sl_y s <=? hi))) =
              negb ((Z.min (py (l_start l)) (py (l_end l)) <=? Join.sl_y s) && (Join.sl_y s <=? Z.max (py (l_start l)) (py (l_end l))))).
  { destruct (py (l_start l) <=? py (l_end l)) eqn:T; cbv beta iota.
    - apply Z.leb_le in T. rewrite (Z.min_l _ _ T), (Z.max_r _ _ T). reflexivity.
    - apply Z.leb_gt in T. assert (T' : py (l_end l) <= py (l_start l)) by lia.
      rewrite (Z.min_r _ _ T'), (Z.max_l _ _ T'). reflexivity. }
  destruct (py (l_start l) <=? py (l_end l)) eqn:T; cbv beta iota in E |- *; rewrite <- E;
    (destruct (negb _); [reflexivity|]; rewrite cv_fold, skip_is_drop; reflexivity).
Qed.

Lemma jhas_cv s x : jhas s x <-> sl_has (cv s) x.
Proof. reflexivity. Qed.

(* the scanline of the line l in row y, as computed by Model/Join.v *)
Definition row_sl (y : Z) (l : line) : Join.scanline := Join.bresenham_intersection (Join.sl_new_empty y) l.

Lemma row_sl_exact y l x : jhas (row_sl y l) x <-> In (P x y) (line_points l).
Proof. rewrite jhas_cv. unfold row_sl. rewrite cv_bresenham. exact (bresenham_row_exact y l x). Qed.

Lemma row_sl_y y l : Join.sl_y (row_sl y l) = y.
Proof.
  pose proof (f_equal sl_y (cv_bresenham (Join.sl_new_empty y) l)) as H. cbn [cv sl_y] in H. unfold row_sl. rewrite H.
  exact (proj2 (bresenham_intersection_hull_any y l)).
Qed.

Lemma jhas_nonempty s x : jhas s x -> Join.sl_is_empty s = false.
Proof. unfold jhas, Join.sl_is_empty. lia. Qed.
Lemma empty_no_jhas s x : Join.sl_is_empty s = true -> ~ jhas s x.
Proof. unfold jhas, Join.sl_is_empty. lia. Qed.

(* ---- touching scanlines: merging is exact, overlapping scanlines touch --------------------------------------------------- *)
Lemma touches_merge s o x : Join.sl_touches s o = true ->
  (jhas (snd (Join.sl_try_extend s o)) x <-> jhas s x \/ jhas o x).
Proof.
  intros T. unfold Join.sl_try_extend. rewrite T. cbn [snd]. unfold jhas; cbn [Join.sl_x0 Join.sl_x1].
  unfold Join.sl_touches in T. destruct (Join.sl_is_empty s) eqn:Es; [discriminate|].
  destruct (Join.sl_is_empty o) eqn:Eo; [discriminate|]. cbn [orb] in T.
  unfold Join.sl_is_empty, Join.in_incl in *. lia.
Qed.

Lemma overlap_touches s o x : jhas s x -> jhas o x -> Join.sl_touches s o = true.
Proof.
  unfold jhas, Join.sl_touches. intros Hs Ho.
  destruct (Join.sl_is_empty s) eqn:Es; [unfold Join.sl_is_empty in Es; lia|].
  destruct (Join.sl_is_empty o) eqn:Eo; [unfold Join.sl_is_empty in Eo; lia|]. cbn [orb].
  unfold Join.in_incl. lia.
Qed.

Lemma try_extend_y s o : Join.sl_y (snd (Join.sl_try_extend s o)) = Join.sl_y s.
Proof. unfold Join.sl_try_extend. destruct (Join.sl_touches s o); reflexivity. Qed.

Lemma no_touch_same s o : Join.sl_touches s o = false -> snd (Join.sl_try_extend s o) = s.
Proof. intros T. unfold Join.sl_try_extend. rewrite T. reflexivity. Qed.

(* one step of the two-slot merge keeps all columns unless it drops the new scanline *)
Definition cov2 (lr : Join.scanline * Join.scanline) (x : Z) : Prop := jhas (fst lr) x \/ jhas (snd lr) x.
Definition drops (lr : Join.scanline * Join.scanline) (sc : Join.scanline) : Prop :=
  Join.sl_is_empty (fst lr) = false /\ Join.sl_is_empty (snd lr) = false /\ Join.sl_is_empty sc = false /\
  Join.sl_touches (fst lr) sc = false /\ Join.sl_touches (snd lr) sc = false.

Lemma touches_hull s o x : Join.sl_touches s o = true ->
  (jhas (Join.SL (Join.sl_y s) (Z.min (Join.sl_x0 s) (Join.sl_x0 o)) (Z.max (Join.sl_x1 s) (Join.sl_x1 o))) x <-> jhas s x \/ jhas o x).
Proof. intros T. pose proof (touches_merge s o x T) as M. unfold Join.sl_try_extend in M. rewrite T in M. exact M. Qed.

Lemma step_cover lr sc x : ~ drops lr sc -> (cov2 (JoinTri.jt_edge_step lr sc) x <-> cov2 lr x \/ jhas sc x).
Proof.
  destruct lr as [l r]. unfold drops, cov2, JoinTri.jt_edge_step, Join.sl_try_extend. cbn [fst snd]. intros ND.
  destruct (Join.sl_is_empty l) eqn:El; cbn [negb]; cbv beta iota; cbn [fst snd].
  - pose proof (empty_no_jhas l x El). tauto.
  - destruct (Join.sl_touches l sc) eqn:T; cbv beta iota; cbn [fst snd].
    + pose proof (touches_hull l sc x T). tauto.
    + destruct (Join.sl_is_empty r) eqn:Er; cbn [negb]; cbv beta iota; cbn [fst snd].
      * pose proof (empty_no_jhas r x Er). tauto.
      * destruct (Join.sl_touches r sc) eqn:T2; cbv beta iota; cbn [fst snd].
        -- pose proof (touches_hull r sc x T2). tauto.
        -- destruct (Join.sl_is_empty sc) eqn:Es; [pose proof (empty_no_jhas sc x Es); tauto|]. exfalso. apply ND. tauto.
Qed.

Lemma step_y y lr sc : Join.sl_y (fst lr) = y -> Join.sl_y (snd lr) = y -> Join.sl_y sc = y ->
  Join.sl_y (fst (JoinTri.jt_edge_step lr sc)) = y /\ Join.sl_y (snd (JoinTri.jt_edge_step lr sc)) = y.
Proof.
  destruct lr as [l r]. cbn [fst snd]. intros Yl Yr Ys. unfold JoinTri.jt_edge_step.
  destruct (negb (Join.sl_is_empty l)); [|split; assumption].
  pose proof (try_extend_y l sc) as A. destruct (Join.sl_try_extend l sc) as [e a]. cbn [snd] in A. destruct e; cbn [fst snd].
  - split; [lia | assumption].
  - destruct (negb (Join.sl_is_empty r)); cbn [fst snd]; [|split; assumption].
    split; [assumption|]. rewrite try_extend_y. assumption.
Qed.

(* ---- the two-slot merge of triangle::ScanlineIntersections::edge_intersections on three scanlines ------------------------- *)
Definition merge3 (y : Z) (s0 s1 s2 : Join.scanline) : list Join.scanline :=
  let e := Join.sl_new_empty y in
  let '(lft, rgt) := JoinTri.jt_edge_step (JoinTri.jt_edge_step (JoinTri.jt_edge_step (e, e) s0) s1) s2 in
  let '(ext, lft') := Join.sl_try_extend lft rgt in
  let '(lft, rgt) := if ext then (lft', e) else (lft, rgt) in
  filter (fun s => negb (Join.sl_is_empty s)) [lft; rgt].

Definition all_apart (s0 s1 s2 : Join.scanline) : Prop :=
  Join.sl_is_empty s0 = false /\ Join.sl_is_empty s1 = false /\ Join.sl_is_empty s2 = false /\
  Join.sl_touches s0 s1 = false /\ Join.sl_touches s0 s2 = false /\ Join.sl_touches s1 s2 = false.

Lemma filter2_cover l r x :
  (exists s, In s (filter (fun s => negb (Join.sl_is_empty s)) [l; r]) /\ jhas s x) <-> jhas l x \/ jhas r x.
Proof.
  split.
  - intros (s & Is & Hs). apply filter_In in Is as [Is _]. destruct Is as [<-|[<-|[]]]; tauto.
  - intros [H|H]; [exists l | exists r]; (split; [|exact H]); apply filter_In; (split; [cbn; tauto|]);
      rewrite (jhas_nonempty _ _ H); reflexivity.
Qed.

Lemma merge3_spec y s0 s1 s2 : ~ all_apart s0 s1 s2 ->
  Join.sl_y s0 = y -> Join.sl_y s1 = y -> Join.sl_y s2 = y ->
  (forall x, (exists s, In s (merge3 y s0 s1 s2) /\ jhas s x) <-> jhas s0 x \/ jhas s1 x \/ jhas s2 x) /\
  (forall s, In s (merge3 y s0 s1 s2) -> Join.sl_y s = y /\ Join.sl_is_empty s = false).
Proof.
  intros NA Y0 Y1 Y2. unfold merge3. set (e := Join.sl_new_empty y).
  assert (Ee : Join.sl_is_empty e = true) by reflexivity.
  assert (P1 : JoinTri.jt_edge_step (e, e) s0 = (s0, e)) by reflexivity. rewrite P1.
  assert (ND1 : ~ drops (s0, e) s1) by (unfold drops; cbn [fst snd]; rewrite Ee; intros [_ [F _]]; discriminate).
  assert (ND2 : ~ drops (JoinTri.jt_edge_step (s0, e) s1) s2).
  { intros [A [B [C [D E]]]]. unfold JoinTri.jt_edge_step, Join.sl_try_extend in A, B, D, E.
    destruct (Join.sl_is_empty s0) eqn:E0; cbn [negb] in *; cbv beta iota in *; cbn [fst snd] in *; [rewrite Ee in B; discriminate|].
    destruct (Join.sl_touches s0 s1) eqn:T01; cbv beta iota in *; cbn [fst snd] in *; [rewrite Ee in B; discriminate|].
    rewrite Ee in *. cbn [negb] in *. cbv beta iota in *. cbn [fst snd] in *.
    apply NA. unfold all_apart. tauto. }
  pose proof (step_y y (s0, e) s1 Y0 eq_refl Y1) as [YA YB].
  pose proof (step_y y _ s2 YA YB Y2) as [YC YD].
  assert (COV : forall x, cov2 (JoinTri.jt_edge_step (JoinTri.jt_edge_step (s0, e) s1) s2) x <-> jhas s0 x \/ jhas s1 x \/ jhas s2 x).
  { intros x. rewrite (step_cover _ s2 x ND2), (step_cover (s0, e) s1 x ND1). unfold cov2; cbn [fst snd].
    pose proof (empty_no_jhas e x Ee). tauto. }
  destruct (JoinTri.jt_edge_step (JoinTri.jt_edge_step (s0, e) s1) s2) as [l r]. cbn [fst snd] in *. unfold cov2 in COV; cbn [fst snd] in COV.
  unfold Join.sl_try_extend. destruct (Join.sl_touches l r) eqn:T; cbv beta iota.
  - split.
    + intros x. rewrite filter2_cover, <- COV. pose proof (touches_hull l r x T). pose proof (empty_no_jhas e x Ee). tauto.
    + intros s Is. apply filter_In in Is as [Is NE]. split; [|destruct (Join.sl_is_empty s); [discriminate | reflexivity]].
      destruct Is as [<-|[<-|[]]]; [exact YC | reflexivity].
  - split.
    + intros x. rewrite filter2_cover, <- COV. tauto.
    + intros s Is. apply filter_In in Is as [Is NE]. split; [|destruct (Join.sl_is_empty s); [discriminate | reflexivity]].
      destruct Is as [<-|[<-|[]]]; assumption.
Qed.

(* ---- three edges of one triangle never have three pairwise apart scanlines in one row -------------------------------------- *)
Lemma start_in_line l : In (l_start l) (line_points l).
Proof. pose proof (line_first l) as F. destruct (line_points l); [discriminate|]. injection F as ->. left; reflexivity. Qed.

Lemma last_opt_in {A} (l : list A) x : last_opt l = Some x -> In x l.
Proof.
  induction l as [|y [|z t] IH]; [discriminate | intros H; injection H as ->; left; reflexivity|].
  intros H. right. apply IH. exact H.
Qed.

Lemma end_in_line l : In (l_end l) (line_points l).
Proof. apply last_opt_in. apply line_last. Qed.

Lemma nonempty_has s : Join.sl_is_empty s = false -> jhas s (Join.sl_x0 s).
Proof. unfold Join.sl_is_empty, jhas. lia. Qed.

Lemma row_has_point y l p : In p (line_points l) -> py p = y -> jhas (row_sl y l) (px p).
Proof. destruct p as [x y']. cbn [px py]. intros H <-. apply row_sl_exact. exact H. Qed.

Lemma edges_not_apart a b c y : ~ all_apart (row_sl y (L b c)) (row_sl y (L c a)) (row_sl y (L a b)).
Proof.
  intros [E0 [E1 [E2 [T01 [T02 T12]]]]].
  pose proof (proj1 (row_sl_exact y _ _) (nonempty_has _ E0)) as I0. apply line_points_hull in I0 as [_ R0].
  pose proof (proj1 (row_sl_exact y _ _) (nonempty_has _ E1)) as I1. apply line_points_hull in I1 as [_ R1].
  pose proof (proj1 (row_sl_exact y _ _) (nonempty_has _ E2)) as I2. apply line_points_hull in I2 as [_ R2].
  cbn [l_start l_end py] in R0, R1, R2.
  assert (V : y = py a \/ y = py b \/ y = py c) by lia.
  destruct V as [-> | [-> | ->]].
  - pose proof (row_has_point (py a) (L c a) a (end_in_line (L c a)) eq_refl) as A1.
    pose proof (row_has_point (py a) (L a b) a (start_in_line (L a b)) eq_refl) as A2.
    rewrite (overlap_touches _ _ _ A1 A2) in T12. discriminate.
  - pose proof (row_has_point (py b) (L b c) b (start_in_line (L b c)) eq_refl) as A1.
    pose proof (row_has_point (py b) (L a b) b (end_in_line (L a b)) eq_refl) as A2.
    rewrite (overlap_touches _ _ _ A1 A2) in T02. discriminate.
  - pose proof (row_has_point (py c) (L b c) c (end_in_line (L b c)) eq_refl) as A1.
    pose proof (row_has_point (py c) (L c a) c (start_in_line (L c a)) eq_refl) as A2.
    rewrite (overlap_touches _ _ _ A1 A2) in T01. discriminate.
Qed.

(* ---- assembly: stroke width 1, Center alignment, no fill -------------------------------------------------------------------- *)
From EG Require Import Proofs.Join Proofs.JoinTri Proofs.JoinW1 Proofs.JoinTriDraw.

Lemma edge_intersections_w1 a b c y :
  Join.pt_in_i32 a = true -> Join.pt_in_i32 b = true -> Join.pt_in_i32 c = true ->
  JoinTri.jt_edge_intersections (a, b, c) 1 SONone y =
  Some (merge3 y (row_sl y (L b c)) (row_sl y (L c a)) (row_sl y (L a b))).
Proof.
  intros Ha Hb Hc. unfold JoinTri.jt_edge_intersections. change (1 =? 0) with false. cbv beta iota.
  rewrite !(jt_edge_scanline_w1 (a, b, c)) by assumption.
  change (JoinTri.vtx (a, b, c) (0 + 1)) with b. change (JoinTri.vtx (a, b, c) (0 + 2)) with c.
  change (JoinTri.vtx (a, b, c) (1 + 1)) with c. change (JoinTri.vtx (a, b, c) (1 + 2)) with a.
  change (JoinTri.vtx (a, b, c) (2 + 1)) with a. change (JoinTri.vtx (a, b, c) (2 + 2)) with b.
  unfold merge3, row_sl.
  destruct (JoinTri.jt_edge_step _ (Join.bresenham_intersection (Join.sl_new_empty y) (L a b))) as [l r].
  destruct (Join.sl_try_extend l r) as [e x]. destruct e; reflexivity.
Qed.

Definition outline_row (ct : JoinTri.tri3) (y : Z) : list (Join.scanline * JoinTri.point_type) :=
  let '(a, b, c) := ct in
  map (fun s => (s, JoinTri.PStroke)) (merge3 y (row_sl y (L b c)) (row_sl y (L c a)) (row_sl y (L a b))).

Lemma jt_row_w1 a b c y :
  Join.pt_in_i32 a = true -> Join.pt_in_i32 b = true -> Join.pt_in_i32 c = true ->
  JoinTri.jt_row (a, b, c) 1 SONone false false y = Some (outline_row (a, b, c) y).
Proof. intros Ha Hb Hc. unfold JoinTri.jt_row. rewrite (edge_intersections_w1 a b c y Ha Hb Hc). reflexivity. Qed.

Lemma all_some_map_some {A B} (g : A -> B) l : JoinTri.all_some (map (fun x => Some (g x)) l) = Some (map g l).
Proof. induction l as [|x t IH]; [reflexivity|]. cbn [map JoinTri.all_some]. rewrite IH. reflexivity. Qed.

Lemma big_in_i32 p : jpt_big p -> Join.pt_in_i32 p = true.
Proof. unfold jpt_big, Join.jbig, Join.pt_in_i32, in_i32, i32_min, i32_max. lia. Qed.

Lemma jt_is_collapsed_w1_some a b c : Join.pt_in_i32 a = true -> Join.pt_in_i32 b = true -> Join.pt_in_i32 c = true ->
  exists r, JoinTri.jt_is_collapsed (a, b, c) 1 SONone = Some r.
Proof.
  intros Ha Hb Hc.
  assert (ONE : forall x y z p q, Join.pt_in_i32 y = true -> exists r, JoinTri.collapsed_one (Join.lj_from_points x y z 1 SONone) p q 1 SONone = Some r).
  { intros x y z p q Hy. destruct (lj_from_points_w1 x y z Hy) as [j [-> _]]. unfold JoinTri.collapsed_one.
    destruct (Join.is_degenerate j); [eexists; reflexivity|]. rewrite extents_w1. eexists; reflexivity. }
  unfold JoinTri.jt_is_collapsed.
  destruct (ONE c a b b c Ha) as [[|] ->]; [eexists; reflexivity|].
  destruct (ONE a b c c a Hb) as [[|] ->]; [eexists; reflexivity|].
  destruct (ONE b c a a b Hc) as [r ->]. eexists; reflexivity.
Qed.

(* the rows of the outline *)
Lemma jt_rows_w1 t : tri_big t ->
  let ct := JoinTri.jt_sorted_clockwise t in
  let '(y0, y1) := rows (JoinTri.jt_bounding_box t) in
  JoinTri.jt_rows t 1 Center false = Some (map (outline_row ct) (range y0 y1)).
Proof.
  intros TB. cbv zeta. pose proof (jt_sorted_clockwise_big t TB) as CB.
  unfold JoinTri.jt_rows. rewrite jt_styled_bounding_box_unfold. change (1 <? 2) with true. cbv beta iota.
  change (JoinTri.so_of_alignment Center) with SONone.
  destruct (JoinTri.jt_sorted_clockwise t) as [[a b] c]. destruct CB as [Ba [Bb Bc]]. cbn [fst snd] in Ba, Bb, Bc.
  pose proof (big_in_i32 _ Ba) as Ha. pose proof (big_in_i32 _ Bb) as Hb. pose proof (big_in_i32 _ Bc) as Hc.
  destruct (jt_is_collapsed_w1_some a b c Ha Hb Hc) as [r ->].
  change (JoinTri.so_eqb SONone SORight) with false. rewrite andb_false_r.
  destruct (rows (JoinTri.jt_bounding_box t)) as [y0 y1].
  rewrite (map_ext _ (fun y => Some (outline_row (a, b, c) y))) by (intros y; apply jt_row_w1; assumption).
  apply all_some_map_some.
Qed.

Lemma jt_go_nonempty {A} (rs : list (list A)) : Forall (fun r => r <> []) rs -> JoinTri.jt_go rs = concat rs.
Proof.
  induction 1 as [|r rest Hr _ IH]; [reflexivity|]. cbn [JoinTri.jt_go concat]. destruct r; [congruence|]. rewrite IH. reflexivity.
Qed.

Lemma jt_pixels_sequence_nonempty {A} (rs : list (list A)) : Forall (fun r => r <> []) rs -> JoinTri.jt_pixels_sequence rs = concat rs.
Proof.
  intros F. destruct rs as [|r0 rest]; [reflexivity|]. inversion F as [|? ? H0 Fr]; subst.
  destruct r0 as [|x r0]; [congruence|].
  assert (E : JoinTri.jt_pixels_sequence ((x :: r0) :: rest) = JoinTri.jt_for_sequence ((x :: r0) :: rest)) by (destruct rest; reflexivity).
  rewrite E. cbn [JoinTri.jt_for_sequence concat]. rewrite (jt_go_nonempty rest Fr). reflexivity.
Qed.

(* the points of one row of the outline *)
Lemma outline_row_points a b c y p :
  In p (flat_map (fun lk => Join.sl_points (fst lk)) (outline_row (a, b, c) y)) <->
  py p = y /\ (In p (line_points (L b c)) \/ In p (line_points (L c a)) \/ In p (line_points (L a b))).
Proof.
  unfold outline_row.
  destruct (merge3_spec y _ _ _ (edges_not_apart a b c y) (row_sl_y y _) (row_sl_y y _) (row_sl_y y _)) as [COV YS].
  rewrite flat_map_concat_map, map_map, <- flat_map_concat_map. cbn [fst].
  assert (PT : p = P (px p) (py p)) by (destruct p; reflexivity).
  split.
  - intros H. apply in_flat_map in H as (s & Is & Ip). destruct (YS s Is) as [Ys _].
    unfold Join.sl_points in Ip. apply in_map_iff in Ip as (x & <- & Ix). apply In_range in Ix. cbn [px py].
    split; [exact Ys|]. assert (J : jhas s x) by (unfold jhas; lia).
    pose proof (proj1 (COV x) (ex_intro _ s (conj Is J))) as U. rewrite !row_sl_exact in U. rewrite Ys. exact U.
  - intros [Hy U]. rewrite PT, Hy in U. rewrite <- !row_sl_exact in U.
    destruct (proj2 (COV (px p)) U) as (s & Is & J). apply in_flat_map. exists s. split; [exact Is|].
    destruct (YS s Is) as [Ys _]. unfold Join.sl_points. apply in_map_iff. exists (px p).
    split; [rewrite Ys, <- Hy; symmetry; exact PT | apply In_range; exact J].
Qed.

Lemma cw_y_range t :
  (Z.min (Z.min (py (fst (fst t))) (py (snd (fst t)))) (py (snd t)),
   Z.max (Z.max (py (fst (fst t))) (py (snd (fst t)))) (py (snd t)) + 1) =
  (let '(a, b, c) := JoinTri.jt_sorted_clockwise t in
   (Z.min (Z.min (py a) (py b)) (py c), Z.max (Z.max (py a) (py b)) (py c) + 1)).
Proof.
  destruct t as [[p1 p2] p3]. cbn [fst snd]. unfold JoinTri.jt_sorted_clockwise.
  destruct (JoinTri.jt_area_doubled (p1, p2, p3) ?= 0).
  - unfold JoinTri.jt_sorted_yx, JoinTri.jt_sort_two_yx.
    destruct ((py p1 <? py p2) || (py p1 =? py p2) && (px p1 <? px p2));
    match goal with |- context [if ?c then _ else _] => destruct c end;
    match goal with |- context [if ?c then _ else _] => destruct c end; f_equal; lia.
  - f_equal; lia.
  - reflexivity.
Qed.

(* C19 tri_outline_w1, Center alignment: pixels() of a triangle with stroke width 1 and no fill is, as a set, the union of the
   three Bresenham lines between the clockwise-ordered vertices; every item has the stroke colour *)
Theorem tri_outline_w1 t : tri_big t ->
  let '(a, b, c) := JoinTri.jt_sorted_clockwise t in
  exists px, JoinTri.jt_pixels t 1 Center None = Some px /\
    (forall pc, In pc px -> snd pc = 1) /\
    (forall p, In p (map fst px) <-> In p (line_points (L b c)) \/ In p (line_points (L c a)) \/ In p (line_points (L a b))).
Proof.
  intros TB. pose proof (jt_rows_w1 t TB) as RW. cbv zeta in RW.
  pose proof (jt_sorted_clockwise_big t TB) as CB. pose proof (cw_y_range t) as PB.
  rewrite (rows_jt_bounding_box t) in RW by apply TB.
  destruct (JoinTri.jt_sorted_clockwise t) as [[a b] c] eqn:CT. destruct CB as [Ba [Bb Bc]]. cbn [fst snd] in Ba, Bb, Bc.
  injection PB as P1 P2. rewrite P1, P2 in RW.
  set (y0 := Z.min (Z.min (py a) (py b)) (py c)) in *. set (y1 := Z.max (Z.max (py a) (py b)) (py c) + 1) in *.
  unfold JoinTri.jt_pixels. rewrite RW. eexists. split; [reflexivity|].
  assert (NE : Forall (fun r => r <> []) (map (outline_row (a, b, c)) (range y0 y1))).
  { apply Forall_forall. intros r Ir. apply in_map_iff in Ir as (y & <- & Iy). apply In_range in Iy.
    assert (R : (Z.min (py b) (py c) <= y <= Z.max (py b) (py c)) \/ (Z.min (py c) (py a) <= y <= Z.max (py c) (py a)) \/
                (Z.min (py a) (py b) <= y <= Z.max (py a) (py b))) by (unfold y0, y1 in Iy; lia).
    assert (EX : exists p, py p = y /\ (In p (line_points (L b c)) \/ In p (line_points (L c a)) \/ In p (line_points (L a b)))).
    { destruct R as [R|[R|R]]; [destruct (line_row_nonempty_any (L b c) y R) as (p & Ip & Yp) |
                               destruct (line_row_nonempty_any (L c a) y R) as (p & Ip & Yp) |
                               destruct (line_row_nonempty_any (L a b) y R) as (p & Ip & Yp)]; exists p; tauto. }
    destruct EX as (p & Yp & U). pose proof (proj2 (outline_row_points a b c y p) (conj Yp U)) as I.
    intros E. rewrite E in I. exact I. }
  rewrite (jt_pixels_sequence_nonempty _ NE).
  split.
  - intros pc Ipc. apply in_flat_map in Ipc as (lk & Ilk & Ip).
    assert (K : snd lk = JoinTri.PStroke).
    { apply in_concat in Ilk as (row & Ir & Il). apply in_map_iff in Ir as (y & <- & _).
      unfold outline_row in Il. apply in_map_iff in Il as (s & <- & _). reflexivity. }
    rewrite K in Ip. cbn in Ip. apply in_map_iff in Ip as (q & <- & _). reflexivity.
  - intros p. rewrite in_map_iff. split.
    + intros ((q & col) & <- & Ipc). cbn [fst]. apply in_flat_map in Ipc as (lk & Ilk & Ip).
      apply in_concat in Ilk as (row & Ir & Il). apply in_map_iff in Ir as (y & <- & _).
      assert (K : snd lk = JoinTri.PStroke) by (unfold outline_row in Il; apply in_map_iff in Il as (s & <- & _); reflexivity).
      rewrite K in Ip. cbn in Ip. apply in_map_iff in Ip as (q' & E & Iq). injection E as E1 _. subst q'.
      apply (outline_row_points a b c y q). apply in_flat_map. exists lk. split; assumption.
    + intros U.
      assert (Iy : y0 <= py p < y1).
      { unfold y0, y1. destruct U as [U|[U|U]]; apply line_points_hull in U as [_ U]; cbn [l_start l_end] in U; lia. }
      pose proof (proj2 (outline_row_points a b c (py p) p) (conj eq_refl U)) as I. apply in_flat_map in I as (lk & Il & Ip).
      exists (p, 1). split; [reflexivity|]. apply in_flat_map. exists lk. split.
      * apply in_concat. exists (outline_row (a, b, c) (py p)). split; [apply in_map; apply In_range; exact Iy | exact Il].
      * assert (K : snd lk = JoinTri.PStroke) by (unfold outline_row in Il; apply in_map_iff in Il as (s & <- & _); reflexivity).
        rewrite K. cbn. apply (in_map (fun q : point => (q, 1))). exact Ip.
Qed.
