(* C19: the 1 px triangle outline for EVERY stroke alignment (Proofs/JoinW1.v and Proofs/JoinOutline.v have it for Center).
   With thickness 1 the parallels iterator yields the centre line only, whichever StrokeOffset it was built with: for
   StrokeOffset::Left / Right the "skip centre" call in ParallelsIterator::new advances the OTHER side, so the first parallel
   the iterator returns is the start point with error 0, and the accumulator (D + d + 2 D) is then already past the threshold
   4 (D^2 + d^2).  Line::extents therefore returns the line itself twice for every offset, every join has all four corners in
   its middle vertex and every thick segment is the Bresenham line between its vertices.
   Outside (StrokeOffset::Left): pixels() = the three lines, unconditionally.
   Inside (StrokeOffset::Right): the same whenever Triangle::is_collapsed is false; the collapsed case paints the scanline
   intersection of the filled triangle instead (Properties/C19_join.v header) and is outside this statement. *)
From EG Require Import Base.Prelude Base.Lemmas Model.Geometry Model.Style Model.Line Model.Thickline Model.Join Model.JoinTri.
From EG Require Import Proofs.Geometry Proofs.Line Proofs.Thickline Proofs.Join Proofs.JoinTri Proofs.JoinW1 Proofs.JoinTriDraw.
From EG Require Proofs.Triangle Proofs.JoinTriFill Proofs.JoinRange.
From EG Require Import Proofs.JoinOutline.
From Coq Require Import ZifyBool.

Ltac Zify.zify_post_hook ::= Z.to_euclidean_division_equations.
Set Default Timeout 60.
Strategy 1000 [parallels_new parallels_run next_parallel parallels_next bnext_all bprevious_all].

(* ---- ParallelsIterator with thickness 1 and a one-sided offset: exactly the centre line ------------------------------- *)
Lemma parallels_w1_left l : parallels l 1 SOLeft = Some [(BS (l_start l) 0, LNormal)].
Proof.
  unfold parallels. rewrite parallels_new_frame.
  pose proof (eff_dmaj_pos l) as HD. pose proof (ldm_ok (eff_line l)) as Hd.
  assert (F : parallels_fuel l 1 = 12%nat) by reflexivity. rewrite F.
  unfold st_of. remember (thr_of l 1) as thr eqn:Ethr.
  set (D := ldmaj (eff_line l)) in *. set (d := ldmin (eff_line l)) in *.
  set (A := lsmaj (eff_line l)). set (B := lsmin (eff_line l)).
  set (A' := lsmaj (perpendicular (eff_line l))). set (B' := lsmin (perpendicular (eff_line l))).
  assert (T0 : (D + d) * (D + d) <= thr).
  { subst thr. unfold thr_of. fold D d. nia. }
  rewrite parallels_run_S. unfold parallels_next at 1.
  change (thick_thr (mkst D d A B A' B' (D + d) thr (flip_of l) (l_start l) 0 0 (psub (l_start l) A') (- (2 * d)) 0 SLeft SOLeft)) with thr.
  change (thick_acc (mkst D d A B A' B' (D + d) thr (flip_of l) (l_start l) 0 0 (psub (l_start l) A') (- (2 * d)) 0 SLeft SOLeft)) with (D + d).
  change (next_side (mkst D d A B A' B' (D + d) thr (flip_of l) (l_start l) 0 0 (psub (l_start l) A') (- (2 * d)) 0 SLeft SOLeft)) with SLeft.
  assert (T : thr <? (D + d) * (D + d) = false) by lia. rewrite T. unfold np_fuel.
  destruct (next_parallel_left_spec D d A B A' B' (D + d) thr (flip_of l) (l_start l) 0 0
              (psub (l_start l) A') (- (2 * d)) 0 SLeft SOLeft 2 HD Hd ltac:(lia)) as (q & e & pl' & el' & le' & E & _ & _ & N).
  destruct (N ltac:(lia)) as (-> & -> & -> & -> & ->). rewrite E.
  unfold mkst at 1 2 3 4 5 6. unfold set_acc_side.
  cbn [thick_acc perp_params par_params error_step_minor error_step_major p_offset next_side
       thick_thr flip p_left p_right left_error right_error side_swap].
  fold (mkst D d A B A' B' (D + d + 2 * D) thr (flip_of l) (padd (l_start l) A') (0 + 2 * d) 0
             (psub (l_start l) A') (- (2 * d)) 0 SLeft SOLeft).
  assert (T1 : thr <? (D + d + 2 * D) * (D + d + 2 * D) = true).
  { subst thr. unfold thr_of. fold D d. nia. }
  rewrite parallels_run_S. unfold parallels_next.
  change (thick_thr (mkst D d A B A' B' (D + d + 2 * D) thr (flip_of l) (padd (l_start l) A') (0 + 2 * d) 0
             (psub (l_start l) A') (- (2 * d)) 0 SLeft SOLeft)) with thr.
  change (thick_acc (mkst D d A B A' B' (D + d + 2 * D) thr (flip_of l) (padd (l_start l) A') (0 + 2 * d) 0
             (psub (l_start l) A') (- (2 * d)) 0 SLeft SOLeft)) with (D + d + 2 * D).
  rewrite T1. reflexivity.
Qed.

Lemma parallels_w1_right l : parallels l 1 SORight = Some [(BS (l_start l) 0, LNormal)].
Proof.
  unfold parallels. rewrite parallels_new_frame.
  pose proof (eff_dmaj_pos l) as HD. pose proof (ldm_ok (eff_line l)) as Hd.
  assert (F : parallels_fuel l 1 = 12%nat) by reflexivity. rewrite F.
  unfold st_of. remember (thr_of l 1) as thr eqn:Ethr.
  set (D := ldmaj (eff_line l)) in *. set (d := ldmin (eff_line l)) in *.
  set (A := lsmaj (eff_line l)). set (B := lsmin (eff_line l)).
  set (A' := lsmaj (perpendicular (eff_line l))). set (B' := lsmin (perpendicular (eff_line l))).
  assert (T0 : (D + d) * (D + d) <= thr).
  { subst thr. unfold thr_of. fold D d. nia. }
  rewrite parallels_run_S. unfold parallels_next at 1.
  change (thick_thr (mkst D d A B A' B' (D + d) thr (flip_of l) (padd (l_start l) A') (2 * d) 0 (l_start l) 0 0 SRight SORight)) with thr.
  change (thick_acc (mkst D d A B A' B' (D + d) thr (flip_of l) (padd (l_start l) A') (2 * d) 0 (l_start l) 0 0 SRight SORight)) with (D + d).
  change (next_side (mkst D d A B A' B' (D + d) thr (flip_of l) (padd (l_start l) A') (2 * d) 0 (l_start l) 0 0 SRight SORight)) with SRight.
  assert (T : thr <? (D + d) * (D + d) = false) by lia. rewrite T. unfold np_fuel.
  destruct (next_parallel_right_spec D d A B A' B' (D + d) thr (flip_of l) (padd (l_start l) A') (2 * d) 0
              (l_start l) 0 0 SRight SORight 2 HD Hd ltac:(lia)) as (q & e & pr' & er' & re' & E & _ & _ & N).
  destruct (N ltac:(lia)) as (-> & -> & -> & -> & ->). rewrite E.
  unfold mkst. unfold set_acc_side.
  cbn [thick_acc perp_params par_params error_step_minor error_step_major p_offset next_side
       thick_thr flip p_left p_right left_error right_error side_swap].
  fold (mkst D d A B A' B' (D + d + 2 * D) thr (flip_of l) (padd (l_start l) A') (2 * d) 0
             (psub (l_start l) A') (0 - 2 * d) 0 SRight SORight).
  assert (T1 : thr <? (D + d + 2 * D) * (D + d + 2 * D) = true).
  { subst thr. unfold thr_of. fold D d. nia. }
  rewrite parallels_run_S. unfold parallels_next.
  change (thick_thr (mkst D d A B A' B' (D + d + 2 * D) thr (flip_of l) (padd (l_start l) A') (2 * d) 0
             (psub (l_start l) A') (0 - 2 * d) 0 SRight SORight)) with thr.
  change (thick_acc (mkst D d A B A' B' (D + d + 2 * D) thr (flip_of l) (padd (l_start l) A') (2 * d) 0
             (psub (l_start l) A') (0 - 2 * d) 0 SRight SORight)) with (D + d + 2 * D).
  rewrite T1. reflexivity.
Qed.

(* Line::extents with thickness 1 returns the line itself twice, for every stroke offset *)
Lemma extents_w1_any l so : extents l 1 so = Some (l, l).
Proof.
  destruct so; [apply extents_w1| |].
  - unfold extents. change (sat_u32_to_i32 1) with 1. rewrite parallels_w1_left.
    cbn [last_opt b_point fst snd].
    assert (Q : psub (padd (l_start l) (psub (l_end l) (l_start l))) (P 0 0) = l_end l).
    { unfold psub, padd; cbn [px py]. destruct (l_end l) as [ex ey]; cbn [px py]. f_equal; lia. }
    rewrite Q. destruct l; reflexivity.
  - unfold extents. change (sat_u32_to_i32 1) with 1. rewrite parallels_w1_right.
    cbn [last_opt b_point fst snd].
    assert (Q : psub (padd (l_start l) (psub (l_end l) (l_start l))) (P 0 0) = l_end l).
    { unfold psub, padd; cbn [px py]. destruct (l_end l) as [ex ey]; cbn [px py]. f_equal; lia. }
    rewrite Q. destruct l; reflexivity.
Qed.

(* with width 1 every corner of LineJoin::from_points is the middle vertex, for every stroke offset *)
Lemma lj_from_points_w1_any so a b c : pt_in_i32 b = true ->
  exists j, lj_from_points a b c 1 so = Some j /\ join_at b j.
Proof.
  intros HB. unfold lj_from_points. rewrite !extents_w1_any. eexists. split; [reflexivity|].
  unfold lj_from_extents, intersections. cbn [l_start l_end].
  destruct (ip_intersection_common a b c HB) as [-> | [o ->]]; [split; reflexivity|].
  assert (LI : (if negb (nearly_colinear_has_error (ip_from_lines (L b c) (L a b))) then b else b) = b) by (destruct (negb _); reflexivity).
  rewrite LI. destruct o.
  - destruct (negb (le_check_side _ _ _)); [|split; reflexivity]. destruct (_ <=? _); split; reflexivity.
  - destruct (negb (le_check_side _ _ _)); [|split; reflexivity]. destruct (_ <=? _); split; reflexivity.
Qed.

Lemma jt_edge_scanline_w1_any so ct idx y :
  pt_in_i32 (fst (fst ct)) = true -> pt_in_i32 (snd (fst ct)) = true -> pt_in_i32 (snd ct) = true ->
  jt_edge_scanline ct 1 so idx y =
  Some (bresenham_intersection (sl_new_empty y) (L (vtx ct (idx + 1)) (vtx ct (idx + 2)))).
Proof.
  intros H1 H2 H3.
  assert (V : forall i, pt_in_i32 (vtx ct i) = true).
  { intros i. destruct ct as [[a b] c]. unfold vtx. destruct (Nat.modulo i 3) as [|[|k]]; assumption. }
  unfold jt_edge_scanline.
  destruct (lj_from_points_w1_any so (vtx ct idx) (vtx ct (idx + 1)) (vtx ct (idx + 2)) (V _)) as [sj [-> Js]].
  destruct (lj_from_points_w1_any so (vtx ct (idx + 1)) (vtx ct (idx + 2)) (vtx ct (idx + 3)) (V _)) as [ej [-> Je]].
  rewrite (ts_intersection_w1 sj ej _ _ y Js Je). reflexivity.
Qed.

Lemma edge_intersections_w1_any so a b c y :
  pt_in_i32 a = true -> pt_in_i32 b = true -> pt_in_i32 c = true ->
  jt_edge_intersections (a, b, c) 1 so y =
  Some (merge3 y (row_sl y (L b c)) (row_sl y (L c a)) (row_sl y (L a b))).
Proof.
  intros Ha Hb Hc. unfold jt_edge_intersections. change (1 =? 0) with false. cbv beta iota.
  rewrite !(jt_edge_scanline_w1_any so (a, b, c)) by assumption.
  change (vtx (a, b, c) (0 + 1)) with b. change (vtx (a, b, c) (0 + 2)) with c.
  change (vtx (a, b, c) (1 + 1)) with c. change (vtx (a, b, c) (1 + 2)) with a.
  change (vtx (a, b, c) (2 + 1)) with a. change (vtx (a, b, c) (2 + 2)) with b.
  unfold merge3, row_sl.
  destruct (jt_edge_step _ (bresenham_intersection (sl_new_empty y) (L a b))) as [l r].
  destruct (sl_try_extend l r) as [e x]. destruct e; reflexivity.
Qed.

Lemma jt_row_w1_any so a b c y :
  pt_in_i32 a = true -> pt_in_i32 b = true -> pt_in_i32 c = true ->
  jt_row (a, b, c) 1 so false false y = Some (outline_row (a, b, c) y).
Proof. intros Ha Hb Hc. unfold jt_row. rewrite (edge_intersections_w1_any so a b c y Ha Hb Hc). reflexivity. Qed.

(* Triangle::is_collapsed is defined (never out of the modelled arithmetic) for width 1 and every offset *)
Lemma jt_is_collapsed_w1_some_any so a b c : pt_in_i32 a = true -> pt_in_i32 b = true -> pt_in_i32 c = true ->
  exists r, jt_is_collapsed (a, b, c) 1 so = Some r.
Proof.
  intros Ha Hb Hc.
  assert (ONE : forall x y z p q, pt_in_i32 y = true -> exists r, collapsed_one (lj_from_points x y z 1 so) p q 1 so = Some r).
  { intros x y z p q Hy. destruct (lj_from_points_w1_any so x y z Hy) as [j [-> _]]. unfold collapsed_one.
    destruct (is_degenerate j); [eexists; reflexivity|]. rewrite extents_w1_any. eexists; reflexivity. }
  unfold jt_is_collapsed.
  destruct (ONE c a b b c Ha) as [[|] ->]; [eexists; reflexivity|].
  destruct (ONE a b c c a Hb) as [[|] ->]; [eexists; reflexivity|].
  destruct (ONE b c a a b Hc) as [r ->]. eexists; reflexivity.
Qed.

(* the alignments whose width-1 stroke is the plain outline: Center, Outside, and Inside unless the triangle is collapsed *)
Definition w1_outline_case (t : tri3) (al : alignment) : Prop :=
  match al with
  | Inside => jt_is_collapsed (jt_sorted_clockwise t) 1 SORight = Some false
  | _ => True
  end.

Lemma jt_rows_w1_any t al : tri_big t -> w1_outline_case t al ->
  let ct := jt_sorted_clockwise t in
  let '(y0, y1) := rows (jt_bounding_box t) in
  jt_rows t 1 al false = Some (map (outline_row ct) (range y0 y1)).
Proof.
  intros TB OC. cbv zeta. pose proof (jt_sorted_clockwise_big t TB) as CB.
  unfold jt_rows. rewrite jt_styled_bounding_box_unfold. change (1 <? 2) with true. cbv beta iota.
  assert (BB : match al with Inside => Some (jt_bounding_box t) | _ => Some (jt_bounding_box t) end = Some (jt_bounding_box t))
    by (destruct al; reflexivity).
  rewrite BB. clear BB. unfold w1_outline_case in OC.
  destruct (jt_sorted_clockwise t) as [[a b] c]. destruct CB as [Ba [Bb Bc]]. cbn [fst snd] in Ba, Bb, Bc.
  pose proof (big_in_i32 _ Ba) as Ha. pose proof (big_in_i32 _ Bb) as Hb. pose proof (big_in_i32 _ Bc) as Hc.
  assert (CF : exists r, jt_is_collapsed (a, b, c) 1 (so_of_alignment al) = Some r /\
                         (0 <? 1) && r && so_eqb (so_of_alignment al) SORight = false).
  { destruct al; cbn [so_of_alignment].
    - exists false. split; [exact OC | reflexivity].
    - destruct (jt_is_collapsed_w1_some_any SONone a b c Ha Hb Hc) as [r E]. exists r. split; [exact E|].
      cbn [so_eqb]. rewrite andb_false_r. reflexivity.
    - destruct (jt_is_collapsed_w1_some_any SOLeft a b c Ha Hb Hc) as [r E]. exists r. split; [exact E|].
      cbn [so_eqb]. rewrite andb_false_r. reflexivity. }
  destruct CF as (r & -> & ->).
  destruct (rows (jt_bounding_box t)) as [y0 y1].
  rewrite (map_ext _ (fun y => Some (outline_row (a, b, c) y))) by (intros y; apply jt_row_w1_any; assumption).
  apply all_some_map_some.
Qed.

(* C19, every alignment: pixels() of a triangle with stroke width 1 and no fill is, as a set, the union of the three
   Bresenham lines between the clockwise-ordered vertices; every item has the stroke colour *)
Theorem tri_outline_w1_any t al : tri_big t -> w1_outline_case t al ->
  let '(a, b, c) := jt_sorted_clockwise t in
  exists px, jt_pixels t 1 al None = Some px /\
    (forall pc, In pc px -> snd pc = 1) /\
    (forall p, In p (map fst px) <-> In p (line_points (L b c)) \/ In p (line_points (L c a)) \/ In p (line_points (L a b))).
Proof.
  intros TB OC. pose proof (jt_rows_w1_any t al TB OC) as RW. cbv zeta in RW.
  pose proof (jt_sorted_clockwise_big t TB) as CB. pose proof (cw_y_range t) as PB.
  rewrite (rows_jt_bounding_box t) in RW by apply TB.
  destruct (jt_sorted_clockwise t) as [[a b] c] eqn:CT. destruct CB as [Ba [Bb Bc]]. cbn [fst snd] in Ba, Bb, Bc.
  injection PB as P1 P2. rewrite P1, P2 in RW.
  set (y0 := Z.min (Z.min (py a) (py b)) (py c)) in *. set (y1 := Z.max (Z.max (py a) (py b)) (py c) + 1) in *.
  unfold jt_pixels. rewrite RW. eexists. split; [reflexivity|].
  assert (NE : Forall (fun r => r <> []) (map (outline_row (a, b, c)) (range y0 y1))).
  { apply Forall_forall. intros r Ir. apply in_map_iff in Ir as (y & <- & Iy). apply In_range in Iy.
    assert (R : (Z.min (py b) (py c) <= y <= Z.max (py b) (py c)) \/ (Z.min (py c) (py a) <= y <= Z.max (py c) (py a)) \/
                (Z.min (py a) (py b) <= y <= Z.max (py a) (py b))) by (unfold y0, y1 in Iy; lia).
    assert (EX : exists p, py p = y /\ (In p (line_points (L b c)) \/ In p (line_points (L c a)) \/ In p (line_points (L a b)))).
    { destruct R as [R|[R|R]]; [destruct (line_row_nonempty_any (L b c) y R) as (p & Ip & Yp) |
                               destruct (line_row_nonempty_any (L c a) y R) as (p & Ip & Yp) |
                               destruct (line_row_nonempty_any (L a b) y R) as (p & Ip & Yp)]; exists p; tauto. }
    destruct EX as (p & Yp & U). pose proof (proj2 (outline_row_points a b c y p) (conj Yp U)) as I.
    intros E. rewrite E in I. exact I. }
  rewrite (jt_pixels_sequence_nonempty _ NE).
  split.
  - intros pc Ipc. apply in_flat_map in Ipc as (lk & Ilk & Ip).
    assert (K : snd lk = PStroke).
    { apply in_concat in Ilk as (row & Ir & Il). apply in_map_iff in Ir as (y & <- & _).
      unfold outline_row in Il. apply in_map_iff in Il as (s & <- & _). reflexivity. }
    rewrite K in Ip. cbn in Ip. apply in_map_iff in Ip as (q & <- & _). reflexivity.
  - intros p. rewrite in_map_iff. split.
    + intros ((q & col) & <- & Ipc). cbn [fst]. apply in_flat_map in Ipc as (lk & Ilk & Ip).
      apply in_concat in Ilk as (row & Ir & Il). apply in_map_iff in Ir as (y & <- & _).
      assert (K : snd lk = PStroke) by (unfold outline_row in Il; apply in_map_iff in Il as (s & <- & _); reflexivity).
      rewrite K in Ip. cbn in Ip. apply in_map_iff in Ip as (q' & E & Iq). injection E as E1 _. subst q'.
      apply (outline_row_points a b c y q). apply in_flat_map. exists lk. split; assumption.
    + intros U.
      assert (Iy : y0 <= py p < y1).
      { unfold y0, y1. destruct U as [U|[U|U]]; apply EG.Proofs.Triangle.line_points_hull in U as [_ U]; cbn [l_start l_end] in U; lia. }
      pose proof (proj2 (outline_row_points a b c (py p) p) (conj eq_refl U)) as I. apply in_flat_map in I as (lk & Il & Ip).
      exists (p, 1). split; [reflexivity|]. apply in_flat_map. exists lk. split.
      * apply in_concat. exists (outline_row (a, b, c) (py p)). split; [apply in_map; apply In_range; exact Iy | exact Il].
      * assert (K : snd lk = PStroke) by (unfold outline_row in Il; apply in_map_iff in Il as (s & <- & _); reflexivity).
        rewrite K. cbn. apply (in_map (fun q : point => (q, 1))). exact Ip.
Qed.

(* non-vacuity of the Inside case: a proper triangle whose Inside stroke of width 1 is not collapsed *)
Example w1_inside_not_collapsed :
  w1_outline_case (P 0 0, P 20 0, P 0 20) Inside.
Proof. vm_compute. reflexivity. Qed.

(* Outside alignment: no side condition at all *)
Corollary tri_outline_w1_outside t : tri_big t ->
  let '(a, b, c) := jt_sorted_clockwise t in
  exists px, jt_pixels t 1 Outside None = Some px /\
    (forall pc, In pc px -> snd pc = 1) /\
    (forall p, In p (map fst px) <-> In p (line_points (L b c)) \/ In p (line_points (L c a)) \/ In p (line_points (L a b))).
Proof. intros TB. exact (tri_outline_w1_any t Outside TB I). Qed.

(* C02 for these strokes: every pixel lies in the styled bounding box (which, for width 1, is the box of the vertices) *)
Lemma tri_outline_w1_any_in_bbox t al px p : tri_big t -> w1_outline_case t al ->
  jt_pixels t 1 al None = Some px -> In p (map fst px) ->
  jt_styled_bounding_box t 1 al = Some (jt_bounding_box t) /\ contains (jt_bounding_box t) p = true.
Proof.
  intros TB OC Hpx Ip. split.
  - rewrite jt_styled_bounding_box_unfold. destruct al; reflexivity.
  - pose proof (Proofs.JoinTriFill.outline_in_bbox t p) as O. pose proof (tri_outline_w1_any t al TB OC) as H.
    destruct (jt_sorted_clockwise t) as [[a b] c]. destruct H as (px' & E & _ & S).
    rewrite E in Hpx. injection Hpx as <-. apply O. apply S. exact Ip.
Qed.

(* ---- C01 (b) for these strokes: every row of the outline has a pixel, so the un-fused scanline iterator of pixels() never
   stops early and pixels() = the fill_solid writes of draw(), without the computable hypothesis jt_fused ---------------- *)
Lemma outline_rows_nonempty t al rs : tri_big t -> w1_outline_case t al ->
  jt_rows t 1 al false = Some rs -> Forall (fun r => r <> []) rs.
Proof.
  intros TB OC HR. pose proof (jt_rows_w1_any t al TB OC) as RW. cbv zeta in RW.
  pose proof (jt_sorted_clockwise_big t TB) as CB. pose proof (cw_y_range t) as PB.
  rewrite (rows_jt_bounding_box t) in RW by apply TB.
  destruct (jt_sorted_clockwise t) as [[a b] c] eqn:CT. destruct CB as [Ba [Bb Bc]]. cbn [fst snd] in Ba, Bb, Bc.
  injection PB as P1 P2. rewrite P1, P2 in RW. rewrite RW in HR. injection HR as <-.
  set (y0 := Z.min (Z.min (py a) (py b)) (py c)) in *. set (y1 := Z.max (Z.max (py a) (py b)) (py c) + 1) in *.
  apply Forall_forall. intros r Ir. apply in_map_iff in Ir as (y & <- & Iy). apply In_range in Iy.
  assert (R : (Z.min (py b) (py c) <= y <= Z.max (py b) (py c)) \/ (Z.min (py c) (py a) <= y <= Z.max (py c) (py a)) \/
              (Z.min (py a) (py b) <= y <= Z.max (py a) (py b))) by (unfold y0, y1 in Iy; lia).
  assert (EX : exists p, py p = y /\ (In p (line_points (L b c)) \/ In p (line_points (L c a)) \/ In p (line_points (L a b)))).
  { destruct R as [R|[R|R]]; [destruct (line_row_nonempty_any (L b c) y R) as (p & Ip & Yp) |
                             destruct (line_row_nonempty_any (L c a) y R) as (p & Ip & Yp) |
                             destruct (line_row_nonempty_any (L a b) y R) as (p & Ip & Yp)]; exists p; tauto. }
  destruct EX as (p & Yp & U). pose proof (proj2 (outline_row_points a b c y p) (conj Yp U)) as I.
  intros E. rewrite E in I. exact I.
Qed.

Lemma jt_fused_w1_any t al rs : tri_big t -> w1_outline_case t al ->
  jt_rows t 1 al false = Some rs -> jt_fused rs = true.
Proof.
  intros TB OC HR. pose proof (outline_rows_nonempty t al rs TB OC HR) as NE.
  destruct rs as [|r0 rest]; [reflexivity|]. inversion NE as [|? ? H0 _]; subst.
  destruct r0 as [|x r0]; [congruence|]. reflexivity.
Qed.

Lemma jt_pixels_draw_w1_any V t al : Proofs.JoinRange.range_ok V 1 -> Proofs.JoinRange.tri_within V t -> w1_outline_case t al ->
  exists px dr, jt_pixels t 1 al None = Some px /\ jt_draw t 1 al None = Some dr /\ flat_map rect_writes dr = px.
Proof.
  intros R H OC.
  assert (TB : tri_big t).
  { destruct H as [H1 [H2 H3]]. repeat split; eapply Proofs.JoinRange.within_big_V; eassumption. }
  pose proof (jt_rows_w1_any t al TB OC) as RW. cbv zeta in RW.
  destruct (rows (jt_bounding_box t)) as [y0 y1].
  exact (jt_pixels_draw_range V t 1 al None _ R H RW (jt_fused_w1_any t al _ TB OC RW)).
Qed.
