(* The rounded intersection of two edge lines that `fn intersections` actually uses (nearly_colinear_has_error false) is close
   to the lines: for end points within +-E, |intersection| <= E + 8 E^2 + 1.  With E = 8191 that is below 2^29.
   This is the argument of the overflow builder's Proofs/Overflow.v (ip_intersection_bound / C08_join_point_bound, there for
   E = 1280), ported to the definitions of Model/Join.v and to a larger constant; it is kept in its own file so that the
   translation theorems do not depend on the regenerated arithmetic-site table that Proofs/Overflow.v also checks.
   Idea: den^2 >= |dot| (the check did not fire) and Lagrange's identity den^2 + dot^2 = |d1|^2 |d2|^2 give
   N1 N2 <= den^2 for the max-norms N1, N2 of the two directions, hence N1 N2 <= 2E |den|; the numerators are
   den * start + direction * (normal . offset), so |numerator| <= |den| (E + 8 E^2). *)
From EG Require Import Base.Prelude Model.Geometry Model.Line Model.Thickline Model.Join Proofs.Join.
Set Default Timeout 60.

Lemma lt_of_sq_lt a b : 0 <= a -> 0 <= b -> a * a < b * b -> a < b.
Proof. intros Ha Hb H. apply Z.nle_gt. intro Hc. assert (b * b <= a * a) by (apply Z.mul_le_mono_nonneg; lia). lia. Qed.
Lemma le_of_sq_le a b : 0 <= a -> 0 <= b -> a * a <= b * b -> a <= b.
Proof. intros Ha Hb H. apply Z.nlt_ge. intro Hc. assert (b * b < a * a) by (apply Z.mul_lt_mono_nonneg; lia). lia. Qed.
Lemma max_norm_sq x y N : N = Z.max (Z.abs x) (Z.abs y) -> N * N <= x * x + y * y.
Proof. intros ->. destruct (Z.max_spec (Z.abs x) (Z.abs y)) as [[? ->]|[? ->]]; nia. Qed.
Lemma lagrange a b c d : (a * d - b * c) * (a * d - b * c) + (a * c + b * d) * (a * c + b * d) = (a * a + b * b) * (c * c + d * d).
Proof. ring. Qed.

Lemma not_colinear_den a b c d N1 N2 :
  N1 = Z.max (Z.abs a) (Z.abs b) -> N2 = Z.max (Z.abs c) (Z.abs d) ->
  Z.abs (a * c + b * d) <= (a * d - b * c) * (a * d - b * c) ->
  N1 * N2 <= (a * d - b * c) * (a * d - b * c).
Proof.
  intros H1 H2 H.
  pose proof (max_norm_sq a b N1 H1) as M1. pose proof (max_norm_sq c d N2 H2) as M2.
  pose proof (lagrange a b c d) as L.
  assert (P1 : 0 <= N1) by lia. assert (P2 : 0 <= N2) by lia.
  set (q := (a * d - b * c) * (a * d - b * c)) in *. set (dot := a * c + b * d) in *.
  assert (Q : 0 <= q) by (subst q; apply Z.square_nonneg).
  assert (D : dot * dot <= q * q) by (rewrite <- Z.abs_square; apply Z.mul_le_mono_nonneg; lia).
  assert (S : (N1 * N2) * (N1 * N2) <= (a * a + b * b) * (c * c + d * d)).
  { replace ((N1 * N2) * (N1 * N2)) with ((N1 * N1) * (N2 * N2)) by ring.
    apply Z.mul_le_mono_nonneg; try assumption; apply Z.square_nonneg. }
  assert (T : (N1 * N2) * (N1 * N2) < (q + 1) * (q + 1)) by lia.
  assert (P : 0 <= N1 * N2) by (apply Z.mul_nonneg_nonneg; assumption).
  pose proof (lt_of_sq_lt (N1 * N2) (q + 1) P ltac:(lia) T). lia.
Qed.

Lemma geo_mean N k B : 0 <= N -> 0 <= B -> N <= k * k -> N <= B * B -> N <= B * Z.abs k.
Proof.
  intros HN HB H1 H2. apply le_of_sq_le; try lia.
  replace (B * Z.abs k * (B * Z.abs k)) with ((B * B) * (Z.abs k * Z.abs k)) by ring.
  rewrite Z.abs_square. apply Z.mul_le_mono_nonneg; lia.
Qed.

Lemma round_div_raw_bound den num B : den <> 0 -> 0 <= B -> Z.abs num <= Z.abs den * B ->
  - (B + 1) <= round_div_raw den num <= B + 1.
Proof.
  intros Hz HB Hn.
  assert (G : forall n d, 0 < d -> Z.abs n <= d * B -> - (B + 1) <= (n + d / 2) / d <= B + 1).
  { intros n d Hd Hb. assert (0 <= d / 2 <= d) by (split; [apply Z.div_pos; lia | apply Z.div_le_upper_bound; lia]).
    split; [apply Z.div_le_lower_bound; [assumption | nia] | apply Z.div_le_upper_bound; [assumption | nia]]. }
  destruct (Z_lt_ge_dec den 0).
  - rewrite round_div_raw_neg by lia. apply G; lia.
  - rewrite round_div_raw_pos by lia. apply G; lia.
Qed.

Definition ebound : Z := 8191.
Definition pbound (B : Z) (p : point) : Prop := - B <= px p <= B /\ - B <= py p <= B.
Definition lbound (B : Z) (l : line) : Prop := pbound B (l_start l) /\ pbound B (l_end l).

Lemma ip_numerator_identity l1 l2 :
  let ip := ip_from_lines l1 l2 in
  ip_x_numerator ip = ip_den ip * px (l_start l1)
    - px (line_delta l1) * dot_product (normal_vector (le_from_line l2)) (psub (l_start l2) (l_start l1)) /\
  ip_y_numerator ip = ip_den ip * py (l_start l1)
    - py (line_delta l1) * dot_product (normal_vector (le_from_line l2)) (psub (l_start l2) (l_start l1)).
Proof.
  unfold ip_x_numerator, ip_y_numerator, ip_from_lines, le_from_line, det2, determinant, dot_product, rotate_90, line_delta, psub.
  cbn [ip_le1 ip_le2 ip_den normal_vector origin_distance px py]. split; ring.
Qed.

Lemma ip_den_delta l1 l2 :
  ip_den (ip_from_lines l1 l2) = px (line_delta l1) * py (line_delta l2) - py (line_delta l1) * px (line_delta l2).
Proof. unfold ip_from_lines, le_from_line, determinant, rotate_90; cbn [ip_den normal_vector px py]. ring. Qed.

(* the rounded intersection before the cast, for lines within +-8191 on which the nearly-colinear check does not fire *)
Lemma ip_intersection_raw_bound l1 l2 : lbound ebound l1 -> lbound ebound l2 ->
  nearly_colinear_has_error (ip_from_lines l1 l2) = false -> ip_den (ip_from_lines l1 l2) <> 0 ->
  pbound 536748040 (ip_intersection_raw (ip_from_lines l1 l2)).
Proof.
  intros B1 B2 Hn Ez. unfold ebound in *.
  assert (D1 : pbound 16382 (line_delta l1)) by (destruct B1 as [[? ?] [? ?]]; unfold pbound, line_delta, psub in *; cbn [px py]; lia).
  assert (D2 : pbound 16382 (line_delta l2)) by (destruct B2 as [[? ?] [? ?]]; unfold pbound, line_delta, psub in *; cbn [px py]; lia).
  destruct D1 as [Dx1 Dy1], D2 as [Dx2 Dy2].
  unfold nearly_colinear_has_error in Hn. apply Z.ltb_ge in Hn.
  change (ip_line1 (ip_from_lines l1 l2)) with l1 in Hn. change (ip_line2 (ip_from_lines l1 l2)) with l2 in Hn.
  destruct (ip_numerator_identity l1 l2) as [Ix Iy]. pose proof (ip_den_delta l1 l2) as Id.
  set (a := px (line_delta l1)) in *. set (b := py (line_delta l1)) in *.
  set (c := px (line_delta l2)) in *. set (d := py (line_delta l2)) in *.
  set (den := ip_den (ip_from_lines l1 l2)) in *.
  set (N1 := Z.max (Z.abs a) (Z.abs b)). set (N2 := Z.max (Z.abs c) (Z.abs d)).
  assert (HN : N1 * N2 <= den * den).
  { rewrite Id. apply not_colinear_den; try reflexivity. unfold dot_product in Hn. fold a b c d in Hn. rewrite Id in Hn. lia. }
  assert (P1 : 0 <= N1 <= 16382) by (subst N1; lia). assert (P2 : 0 <= N2 <= 16382) by (subst N2; lia).
  assert (HB : N1 * N2 <= 16382 * 16382) by (apply Z.mul_le_mono_nonneg; lia).
  assert (HG : N1 * N2 <= 16382 * Z.abs den) by (apply geo_mean; try lia; apply Z.mul_nonneg_nonneg; lia).
  set (w := dot_product (normal_vector (le_from_line l2)) (psub (l_start l2) (l_start l1))) in *.
  assert (A1 : Z.abs a <= N1) by (subst N1; apply Z.le_max_l). assert (A2 : Z.abs b <= N1) by (subst N1; apply Z.le_max_r).
  assert (A3 : Z.abs c <= N2) by (subst N2; apply Z.le_max_l). assert (A4 : Z.abs d <= N2) by (subst N2; apply Z.le_max_r).
  assert (HW : Z.abs w <= 32764 * N2).
  { subst w. unfold dot_product, le_from_line, rotate_90, psub. cbn [normal_vector px py]. fold c d.
    destruct B1 as [[? ?] _], B2 as [[? ?] _].
    pose proof (abs_mul_le (- d) (px (l_start l2) - px (l_start l1)) N2 16382 ltac:(lia) ltac:(lia)) as W1.
    pose proof (abs_mul_le c (py (l_start l2) - py (l_start l1)) N2 16382 ltac:(lia) ltac:(lia)) as W2.
    clear - W1 W2. lia. }
  pose proof (abs_mul_le a w N1 (32764 * N2) A1 HW) as HA.
  pose proof (abs_mul_le b w N1 (32764 * N2) A2 HW) as HBw.
  destruct B1 as [[Sx Sy] _].
  pose proof (abs_mul_le den (px (l_start l1)) (Z.abs den) 8191 ltac:(lia) ltac:(clear - Sx; lia)) as HX.
  pose proof (abs_mul_le den (py (l_start l1)) (Z.abs den) 8191 ltac:(lia) ltac:(clear - Sy; lia)) as HY.
  assert (NX : Z.abs (ip_x_numerator (ip_from_lines l1 l2)) <= Z.abs den * 536748039).
  { rewrite Ix. clear - HX HA HG P1 P2. set (u := den * px (l_start l1)) in *. set (v := a * w) in *. set (k := N1 * N2) in *.
    replace (N1 * (32764 * N2)) with (32764 * k) in HA by (subst k; ring). lia. }
  assert (NY : Z.abs (ip_y_numerator (ip_from_lines l1 l2)) <= Z.abs den * 536748039).
  { rewrite Iy. clear - HY HBw HG P1 P2. set (u := den * py (l_start l1)) in *. set (v := b * w) in *. set (k := N1 * N2) in *.
    replace (N1 * (32764 * N2)) with (32764 * k) in HBw by (subst k; ring). lia. }
  pose proof (round_div_raw_bound den _ 536748039 Ez ltac:(lia) NX) as RX.
  pose proof (round_div_raw_bound den _ 536748039 Ez ltac:(lia) NY) as RY.
  unfold pbound, ip_intersection_raw. cbn [px py]. fold den. clear - RX RY. lia.
Qed.
