(* The hypotheses of the composition theorems of Proofs/Join.v / Proofs/JoinTri.v (poly_hyps, tri_hyps) follow from a
   bound on the input coordinates and the stroke width.
   Ingredients: the bound on the used join point (Proofs/JoinPointBound.v, after the overflow builder's C08_join_point_bound); the line builder's invariant of the ParallelsIterator walk (Proofs/ThicklineOverflow.v
   parallels_states_fit: every parallel starts within 6w+7 of the line's start; Proofs/Thickline.v parallels_total:
   the fuel never runs out). *)
From EG Require Import Base.Prelude Base.Lemmas Model.Geometry Model.Style Model.Line Model.Thickline Model.Join Model.JoinTri.
From EG Require Import Proofs.Geometry Proofs.Line Proofs.Thickline Proofs.ThicklineOverflow Proofs.Join Proofs.JoinTri Proofs.JoinPointBound.
From Coq Require Import ZifyBool.

Ltac Zify.zify_post_hook ::= Z.to_euclidean_division_equations.
Set Default Timeout 60.

(* keep conversion from running the iterator *)
Strategy 1000 [parallels_new parallels_run next_parallel parallels_next bnext_all bprevious_all].

Definition within (B : Z) (p : point) : Prop := - B <= px p <= B /\ - B <= py p <= B.
Definition lwithin (B : Z) (l : line) : Prop := within B (l_start l) /\ within B (l_end l).

(* ---- Line::extents stays within 6w+8 of the line ------------------------------------------------------- *)
Lemma last_alternating_pred (Q : point * ltype -> Prop) : forall ps rt a b, Q a -> Q b ->
  Forall (fun bt : bstate * ltype => Q (b_point (fst bt), snd bt)) ps ->
  Q (fst (last_alternating ps rt a b)) /\ Q (snd (last_alternating ps rt a b)).
Proof.
  induction ps as [|[b t] rest IH]; intros rt a b0 Ha Hb F; [split; assumption|].
  inversion F as [|? ? H1 H2]; subst. cbn [fst snd] in H1. cbn [last_alternating]. destruct rt.
  - apply IH; assumption.
  - apply IH; assumption.
Qed.

Lemma last_opt_In {A} (l : list A) x : last_opt l = Some x -> In x l.
Proof.
  induction l as [|y [|z t] IH]; [discriminate | intros H; injection H as ->; left; reflexivity|].
  intros H. right. apply IH. exact H.
Qed.

Lemma reduce_unit l : unit_pt (padd (pos_step_major (bparams_new l)) (pos_step_minor (bparams_new l))).
Proof.
  unfold bparams_new, unit_pt. destruct (Z.abs _ <=? Z.abs _); cbn [pos_step_major pos_step_minor];
    destruct (0 <=? px _); destruct (0 <=? py _); unfold padd; cbn [px py]; lia.
Qed.

Lemma extents_within l w so V : 0 <= w <= 100000 -> 0 <= V -> lwithin V l ->
  exists a b, extents l w so = Some (a, b) /\ lwithin (V + 6 * w + 8) a /\ lwithin (V + 6 * w + 8) b.
Proof.
  intros Hw HV [[S1 S2] [E1 E2]].
  unfold extents. replace (sat_u32_to_i32 w) with w by (unfold sat_u32_to_i32, i32_max; lia).
  destruct (parallels_total l w so (proj1 Hw)) as [ps [PS _]]. rewrite PS.
  destruct (parallels_states_fit l w so (parallels_fuel l w) (proj1 Hw)) as [s [NS [_ FIT]]].
  unfold parallels in PS. rewrite NS in PS. specialize (FIT ps PS).
  set (Q := fun e : point * ltype => near (l_start l) (fst e) (6 * w + 7)).
  assert (FQ : Forall (fun bt : bstate * ltype => Q (b_point (fst bt), snd bt)) ps).
  { eapply Forall_impl; [|exact FIT]. intros bt [k [Hk [_ N]]]. unfold Q, near in *. cbn [fst]. lia. }
  assert (QI : Q (l_start l, LNormal)) by (unfold Q, near; cbn [fst]; lia).
  assert (QL : Q match last_opt ps with Some (b, t) => (b_point b, t) | None => (l_start l, LNormal) end).
  { destruct (last_opt ps) as [[b t]|] eqn:LO; [|exact QI].
    rewrite Forall_forall in FQ. exact (FQ _ (last_opt_In _ _ LO)). }
  assert (QQ : exists el er, Q el /\ Q er /\
            (let '(el0, er0) := match so with
                                | SONone => last_alternating ps true (l_start l, LNormal) (l_start l, LNormal)
                                | SOLeft => (match last_opt ps with Some (b, t) => (b_point b, t) | None => (l_start l, LNormal) end, (l_start l, LNormal))
                                | SORight => ((l_start l, LNormal), match last_opt ps with Some (b, t) => (b_point b, t) | None => (l_start l, LNormal) end)
                                end in (el0, er0)) = (el, er)).
  { destruct so.
    - destruct (last_alternating_pred Q ps true _ _ QI QI FQ) as [A B].
      destruct (last_alternating ps true (l_start l, LNormal) (l_start l, LNormal)) as [el er]. exists el, er. auto.
    - eexists; eexists. split; [exact QL|]. split; [exact QI | reflexivity].
    - eexists; eexists. split; [exact QI|]. split; [exact QL | reflexivity]. }
  destruct QQ as [el [er [Qel [Qer EQ]]]].
  set (par := bparams_new (if point_eqb (l_start l) (l_end l) then horizontal_line else l)).
  pose proof (reduce_unit (if point_eqb (l_start l) (l_end l) then horizontal_line else l)) as RU. fold par in RU.
  match goal with |- exists a b, (let '(x, y) := ?M in _) = _ /\ _ => replace M with (el, er) end.
  2:{ rewrite <- EQ. destruct so; try reflexivity.
      destruct (last_alternating ps true (l_start l, LNormal) (l_start l, LNormal)); reflexivity. }
  eexists; eexists. split; [reflexivity|].
  unfold Q, near in Qel, Qer. unfold unit_pt in RU.
  destruct el as [pe te], er as [pr tr]. cbn [fst snd] in *.
  unfold lwithin, within; cbn [l_start l_end]. unfold padd, psub in *; cbn [px py] in *.
  destruct te, tr; cbn [px py]; repeat split; lia.
Qed.

(* ---- used intersection points of lines within +-8191 ---------------------------------------------------------------
   Proofs/JoinPointBound.v: when nearly_colinear_has_error is false the rounded intersection lies within 536 748 040 < 2^29
   (the argument of the overflow builder's C08_join_point_bound, with the constant 8191 instead of 1280). *)
Definition rbound : Z := 8191.

Lemma within_big p : within rbound p -> jpt_big p.
Proof. unfold within, jpt_big, jbig, rbound. lia. Qed.

Lemma lwithin_lbound l : lwithin rbound l -> lbound ebound l.
Proof. unfold lwithin, within, rbound, lbound, pbound, ebound. tauto. Qed.

(* the point `fn intersections` uses for a pair of edges within +-8191: within +-2^29, and no cast reached *)
Lemma used_point_range l1 l2 : lwithin rbound l1 -> lwithin rbound l2 ->
  isect_used_nosat (ip_from_lines l1 l2) = true /\
  match ip_intersection (ip_from_lines l1 l2) with
  | IPoint p _ => jpt_big (if negb (nearly_colinear_has_error (ip_from_lines l1 l2)) then p else l_end l2)
  | IColinear => True
  end.
Proof.
  intros H1 H2. pose proof (ip_intersection_raw_bound l1 l2 (lwithin_lbound _ H1) (lwithin_lbound _ H2)) as B.
  unfold isect_used_nosat, isect_nosat.
  destruct (nearly_colinear_has_error (ip_from_lines l1 l2)) eqn:NE; cbn [orb negb].
  - split; [reflexivity|]. destruct (ip_intersection (ip_from_lines l1 l2)); [|trivial]. apply within_big. apply H2.
  - unfold ip_intersection. destruct (ip_den (ip_from_lines l1 l2) =? 0) eqn:Z; [split; [reflexivity | trivial]|].
    cbn [orb]. specialize (B eq_refl ltac:(lia)). destruct B as [Bx By].
    unfold ip_intersection_raw in *. cbn [px py] in Bx, By.
    assert (Ix : in_i32 (round_div_raw (ip_den (ip_from_lines l1 l2)) (ip_x_numerator (ip_from_lines l1 l2))) = true)
      by (unfold in_i32, i32_min, i32_max; lia).
    assert (Iy : in_i32 (round_div_raw (ip_den (ip_from_lines l1 l2)) (ip_y_numerator (ip_from_lines l1 l2))) = true)
      by (unfold in_i32, i32_min, i32_max; lia).
    split.
    + unfold pt_in_i32; cbn [px py]. rewrite Ix, Iy. reflexivity.
    + unfold round_div. rewrite !sat_as_i32_id by assumption. unfold jpt_big, jbig; cbn [px py]. lia.
Qed.

(* ---- joins ------------------------------------------------------------------------------------------------ *)
Definition join_big (j : line_join) : Prop :=
  jpt_big (ec_left (first_edge_end j)) /\ jpt_big (ec_right (first_edge_end j)) /\
  jpt_big (ec_left (second_edge_start j)) /\ jpt_big (ec_right (second_edge_start j)).

Ltac jb := cbv beta iota; unfold join_big; cbn [first_edge_end second_edge_start ec_left ec_right];
  (split; [assumption | split; [assumption | split; assumption]]).

Lemma lj_from_extents_big mid w fl fr sl sr :
  lwithin rbound fl -> lwithin rbound fr -> lwithin rbound sl -> lwithin rbound sr ->
  join_big (lj_from_extents mid w fl fr sl sr) /\ edges_nosat fl fr sl sr = true.
Proof.
  intros Hfl Hfr Hsl Hsr.
  destruct (used_point_range sl fl Hsl Hfl) as [NL PL]. destruct (used_point_range sr fr Hsr Hfr) as [NR PR].
  destruct Hfl as [Fl1 Fl2], Hfr as [Fr1 Fr2], Hsl as [Sl1 Sl2], Hsr as [Sr1 Sr2].
  pose proof (within_big _ Fl2) as B1. pose proof (within_big _ Fr2) as B2.
  pose proof (within_big _ Sl1) as B3. pose proof (within_big _ Sr1) as B4.
  split; [|unfold edges_nosat; rewrite NL, NR; reflexivity].
  unfold lj_from_extents, intersections.
  destruct (ip_intersection (ip_from_lines sl fl)) as [pl ol|]; [|jb].
  destruct (ip_intersection (ip_from_lines sr fr)) as [pr or_|]; [|jb].
  cbv beta iota in PL, PR.
  set (li := if negb (nearly_colinear_has_error (ip_from_lines sl fl)) then pl else l_end fl) in *.
  set (ri := if negb (nearly_colinear_has_error (ip_from_lines sr fr)) then pr else l_end fr) in *.
  destruct ol.
  - destruct (negb (le_check_side (le_from_line fr) (l_end sr) SLeft)); [|jb].
    destruct (_ <=? _); jb.
  - destruct (negb (le_check_side (le_from_line fl) (l_end sl) SRight)); [|jb].
    destruct (_ <=? _); jb.
Qed.

(* vertices within +-V, width w with V + 6w + 8 <= 8191 *)
Definition range_ok (V w : Z) : Prop := 0 <= w /\ 0 <= V /\ V + 6 * w + 8 <= rbound.

Lemma lwithin_mono B B' l : B <= B' -> lwithin B l -> lwithin B' l.
Proof. unfold lwithin, within. lia. Qed.

Lemma extents_rbound V w so a b : range_ok V w -> within V a -> within V b ->
  exists l r, extents (L a b) w so = Some (l, r) /\ lwithin rbound l /\ lwithin rbound r.
Proof.
  intros [Hw [HV HB]] Ha Hb. unfold rbound in HB.
  destruct (extents_within (L a b) w so V ltac:(lia) HV (conj Ha Hb)) as [l [r [E [Hl Hr]]]].
  exists l, r. split; [exact E|]. split; eapply lwithin_mono; try eassumption; unfold rbound; lia.
Qed.

Lemma lj_from_points_big V w so a b c : range_ok V w -> within V a -> within V b -> within V c ->
  (exists j, lj_from_points a b c w so = Some j /\ join_big j) /\ join_nosat a b c w so = true.
Proof.
  intros R Ha Hb Hc.
  destruct (extents_rbound V w so a b R Ha Hb) as [fl [fr [E1 [F1 F2]]]].
  destruct (extents_rbound V w so b c R Hb Hc) as [sl [sr [E2 [S1 S2]]]].
  destruct (lj_from_extents_big b w fl fr sl sr F1 F2 S1 S2) as [JB NS].
  unfold lj_from_points, join_nosat. rewrite E1, E2. split; [eexists; split; [reflexivity | exact JB] | exact NS].
Qed.

Lemma lj_start_big V w so a b : range_ok V w -> within V a -> within V b ->
  exists j, lj_start a b w so = Some j /\ join_big j.
Proof.
  intros R Ha Hb. destruct (extents_rbound V w so a b R Ha Hb) as [l [r [E [[L1 _] [R1 _]]]]].
  unfold lj_start. rewrite E. eexists. split; [reflexivity|].
  unfold join_big; cbn [first_edge_end second_edge_start ec_left ec_right].
  split; [|split; [|split]]; apply within_big; assumption.
Qed.

Lemma lj_end_big V w so a b : range_ok V w -> within V a -> within V b ->
  exists j, lj_end a b w so = Some j /\ join_big j.
Proof.
  intros R Ha Hb. destruct (extents_rbound V w so a b R Ha Hb) as [l [r [E [[_ L2] [_ R2]]]]].
  unfold lj_end. rewrite E. eexists. split; [reflexivity|].
  unfold join_big; cbn [first_edge_end second_edge_start ec_left ec_right].
  split; [|split; [|split]]; apply within_big; assumption.
Qed.

Lemma seg_ok_of_joins sj ej : join_big sj -> join_big ej -> seg_ok (TS sj ej).
Proof.
  intros [_ [_ [A3 A4]]] [B1 [B2 _]]. unfold seg_ok, ts_edges; cbn [fst snd l_start l_end ts_start_join ts_end_join].
  split; [|split; [|split]]; assumption.
Qed.

(* ---- polylines ---------------------------------------------------------------------------------------------- *)
Definition win_within (V : Z) (t : point * point * point) : Prop :=
  within V (fst (fst t)) /\ within V (snd (fst t)) /\ within V (snd t).

Lemma windows3_within V : forall pts, Forall (within V) pts -> Forall (win_within V) (windows3 pts).
Proof.
  induction pts as [|a t IH]; intros F; [constructor|].
  destruct t as [|b [|c r]]; try constructor.
  - inversion F as [|? ? Ha F1]; subst. inversion F1 as [|? ? Hb F2]; subst. inversion F2 as [|? ? Hc _]; subst.
    unfold win_within; cbn [fst snd]. split; [|split]; assumption.
  - apply IH. inversion F; assumption.
Qed.

Lemma tsi_run_ok V w : range_ok V w -> forall fuel ws sj ej l2 segs,
  join_big sj -> join_big ej -> Forall (win_within V) ws -> within V (fst l2) -> within V (snd l2) ->
  tsi_run ws sj ej l2 w fuel = Some segs -> Forall seg_ok segs.
Proof.
  intros R. induction fuel as [|f IH]; intros ws sj ej l2 segs Js Je Fw L1 L2 H; [discriminate|].
  cbn [tsi_run] in H. destruct ws as [|[[a b] c] ws'].
  - assert (E : forall segs', (match lj_end (fst l2) (snd l2) w SONone with
                               | Some ej' => option_map (cons (TS sj ej)) (tsi_run [] ej ej' l2 w f)
                               | None => None end) = Some segs' -> Forall seg_ok segs').
    { intros segs' H'. destruct (lj_end_big V w SONone _ _ R L1 L2) as [ej' [E' Je']]. rewrite E' in H'.
      destruct (tsi_run [] ej ej' l2 w f) as [rest|] eqn:T; [|discriminate]. injection H' as <-.
      constructor; [apply seg_ok_of_joins; assumption | exact (IH [] ej ej' l2 rest Je Je' Fw L1 L2 T)]. }
    destruct (lj_kind ej); try (apply E; exact H).
    injection H as <-. constructor; [apply seg_ok_of_joins; assumption | constructor].
  - inversion Fw as [|? ? [Ha [Hb Hc]] Fw']; subst. cbn [fst snd] in Ha, Hb, Hc.
    destruct (lj_from_points_big V w SONone a b c R Ha Hb Hc) as [[ej' [E' Je']] _]. rewrite E' in H.
    destruct (tsi_run ws' ej ej' l2 w f) as [rest|] eqn:T; [|discriminate]. injection H as <-.
    constructor; [apply seg_ok_of_joins; assumption | exact (IH ws' ej ej' l2 rest Je Je' Fw' L1 L2 T)].
Qed.

Lemma In_removelast {A} (l : list A) x : In x (removelast l) -> In x l.
Proof.
  induction l as [|y [|z t] IH]; [intros [] | intros [] |].
  intros H. change (removelast (y :: z :: t)) with (y :: removelast (z :: t)) in H.
  destruct H as [->|H]; [left; reflexivity | right; apply IH; exact H].
Qed.

Lemma poly_box_ok_range V w pts : range_ok V w -> Forall (within V) pts -> poly_box_ok pts w.
Proof.
  intros R F. unfold poly_box_ok.
  destruct (thick_segment_iter pts w) as [segs|] eqn:T; [|trivial].
  pose proof (proj1 (Forall_forall _ _) F) as FI.
  destruct pts as [|a [|b [|c r]]].
  - injection T as <-. constructor.
  - injection T as <-. constructor.
  - unfold thick_segment_iter in T.
    assert (Ha : within V a) by (apply FI; left; reflexivity).
    assert (Hb : within V b) by (apply FI; right; left; reflexivity).
    destruct (lj_start_big V w SONone a b R Ha Hb) as [sj [Es Js]]. rewrite Es in T.
    destruct (lj_end_big V w SONone a b R Ha Hb) as [ej [Ee Je]]. rewrite Ee in T.
    exact (tsi_run_ok V w R _ [] sj ej (a, b) segs Js Je (Forall_nil _) Ha Hb T).
  - rewrite thick_segment_iter_3 in T.
    assert (Ha : within V a) by (apply FI; left; reflexivity).
    assert (Hb : within V b) by (apply FI; right; left; reflexivity).
    assert (Hc : within V c) by (apply FI; right; right; left; reflexivity).
    destruct (lj_start_big V w SONone a b R Ha Hb) as [sj [Es Js]]. rewrite Es in T.
    destruct (lj_from_points_big V w SONone a b c R Ha Hb Hc) as [[ej [Ee Je]] _]. rewrite Ee in T.
    destruct (last_opt (a :: b :: c :: r)) as [z|] eqn:LZ; [|discriminate].
    destruct (last_opt (removelast (a :: b :: c :: r))) as [y|] eqn:LY; [|discriminate].
    assert (Hz : within V z) by (apply FI; apply last_opt_In; exact LZ).
    assert (Hy : within V y) by (apply FI; apply In_removelast; apply last_opt_In; exact LY).
    refine (tsi_run_ok V w R _ _ sj ej (y, z) segs Js Je _ Hy Hz T).
    pose proof (windows3_within V _ F) as W. rewrite windows3_3 in W. inversion W; assumption.
Qed.

Lemma poly_nosat_range V w d pts : range_ok V w ->
  Forall (within V) pts -> Forall (within V) (map (tr_pt d) pts) -> poly_nosat pts w d = true.
Proof.
  intros R F1 F2. unfold poly_nosat. apply forallb_forall. intros t It.
  pose proof (windows3_within V _ F1) as W1. pose proof (windows3_within V _ F2) as W2.
  rewrite windows3_map in W2. rewrite Forall_forall in W1, W2.
  destruct (W1 t It) as [A1 [A2 A3]]. destruct (W2 (tr_win d t) (in_map _ _ _ It)) as [B1 [B2 B3]].
  unfold tr_win in B1, B2, B3. cbn [fst snd] in B1, B2, B3.
  unfold win_nosat.
  rewrite (proj2 (lj_from_points_big V w SONone _ _ _ R A1 A2 A3)).
  rewrite (proj2 (lj_from_points_big V w SONone _ _ _ R B1 B2 B3)). reflexivity.
Qed.

(* C07 for thick polylines from input bounds alone: all vertices within +-V before and after the move, V + 6 w + 8 <= 8191 *)
Lemma poly_thick_points_tr_range V w d pts t : range_ok V w ->
  Forall (within V) pts -> Forall (within V) (map (tr_pt d) pts) ->
  poly_thick_points (map (tr_pt d) pts) t w = option_map (map (tr_pt d)) (poly_thick_points pts t w).
Proof.
  intros R F1 F2. apply poly_thick_points_tr;
    [exact (poly_nosat_range V w d pts R F1 F2) | exact (poly_box_ok_range V w _ R F1) | exact (poly_box_ok_range V w _ R F2)].
Qed.

Lemma poly_thick_rects_tr_range V w d pts : range_ok V w ->
  Forall (within V) pts -> Forall (within V) (map (tr_pt d) pts) ->
  poly_thick_rects (map (tr_pt d) pts) w = option_map (map (fun r => translate_rect r d)) (poly_thick_rects pts w).
Proof.
  intros R F1 F2. apply poly_thick_rects_tr;
    [exact (poly_nosat_range V w d pts R F1 F2) | exact (poly_box_ok_range V w _ R F1) | exact (poly_box_ok_range V w _ R F2)].
Qed.

(* ---- triangles ---------------------------------------------------------------------------------------------- *)
Definition tri_within (V : Z) (t : tri3) : Prop := within V (fst (fst t)) /\ within V (snd (fst t)) /\ within V (snd t).

Lemma jt_sort_two_within V a b : within V a -> within V b ->
  within V (fst (jt_sort_two_yx a b)) /\ within V (snd (jt_sort_two_yx a b)).
Proof. intros Ha Hb. unfold jt_sort_two_yx. destruct (_ || _); split; assumption. Qed.

Lemma jt_sorted_clockwise_within V t : tri_within V t -> tri_within V (jt_sorted_clockwise t).
Proof.
  destruct t as [[p1 p2] p3]. intros [H1 [H2 H3]]. cbn [fst snd] in *.
  unfold jt_sorted_clockwise. destruct (jt_area_doubled (p1, p2, p3) ?= 0).
  - unfold jt_sorted_yx.
    destruct (jt_sort_two_within V p1 p2 H1 H2) as [A B]. destruct (jt_sort_two_yx p1 p2) as [y1 y2]. cbn [fst snd] in A, B.
    destruct (jt_sort_two_within V p3 y1 H3 A) as [C D]. destruct (jt_sort_two_yx p3 y1) as [y1' y3]. cbn [fst snd] in C, D.
    destruct (jt_sort_two_within V y3 y2 D B) as [E F]. destruct (jt_sort_two_yx y3 y2) as [y2' y3']. cbn [fst snd] in E, F.
    split; [|split]; assumption.
  - split; [|split]; assumption.
  - split; [|split]; assumption.
Qed.

Lemma tri_within_tr V d t : tri_within V (tr_tri d t) ->
  within V (padd (fst (fst t)) d) /\ within V (padd (snd (fst t)) d) /\ within V (padd (snd t) d).
Proof. destruct t as [[p1 p2] p3]. intros H. exact H. Qed.

Lemma tri_nosat_range V w so d t : range_ok V w -> tri_within V t -> tri_within V (tr_tri d t) ->
  tri_nosat t w so d = true.
Proof.
  destruct t as [[p1 p2] p3]. intros R [A1 [A2 A3]] [B1 [B2 B3]]. cbn [fst snd tr_tri] in *.
  unfold tri_nosat, win_nosat. cbn [fst snd].
  rewrite (proj2 (lj_from_points_big V w so p3 p1 p2 R A3 A1 A2)), (proj2 (lj_from_points_big V w so _ _ _ R B3 B1 B2)).
  rewrite (proj2 (lj_from_points_big V w so p1 p2 p3 R A1 A2 A3)), (proj2 (lj_from_points_big V w so _ _ _ R B1 B2 B3)).
  rewrite (proj2 (lj_from_points_big V w so p2 p3 p1 R A2 A3 A1)), (proj2 (lj_from_points_big V w so _ _ _ R B2 B3 B1)).
  reflexivity.
Qed.

Lemma within_big_V V w p : range_ok V w -> within V p -> jpt_big p.
Proof. intros [Hw [HV HB]] H. unfold within, jpt_big, jbig, rbound in *. lia. Qed.

Lemma tri_box_ok_range V w so t : range_ok V w -> tri_within V t -> tri_box_ok t w so.
Proof.
  intros R H. pose proof (jt_sorted_clockwise_within V t H) as HC.
  destruct H as [H1 [H2 H3]].
  unfold tri_box_ok. repeat (split; [eapply within_big_V; eassumption|]).
  destruct (jt_sorted_clockwise t) as [[a b] c]. destruct HC as [Ha [Hb Hc]]. cbn [fst snd] in Ha, Hb, Hc.
  cbn [tri_segs]. rewrite closed_iter_3.
  destruct (lj_from_points_big V w so c a b R Hc Ha Hb) as [[j0 [E0 J0]] _].
  destruct (lj_from_points_big V w so a b c R Ha Hb Hc) as [[j1 [E1 J1]] _].
  destruct (lj_from_points_big V w so b c a R Hb Hc Ha) as [[j2 [E2 J2]] _].
  rewrite E0, E1, E2. repeat constructor; apply seg_ok_of_joins; assumption.
Qed.

Lemma tri_hyps_range V w al d t : range_ok V w -> tri_within V t -> tri_within V (tr_tri d t) ->
  tri_nosat (jt_sorted_clockwise t) w (so_of_alignment al) d = true /\
  tri_box_ok t w (so_of_alignment al) /\ tri_box_ok (tr_tri d t) w (so_of_alignment al).
Proof.
  intros R H1 H2. split; [|split; eapply tri_box_ok_range; eassumption].
  apply (tri_nosat_range V); [exact R | apply jt_sorted_clockwise_within; exact H1|].
  rewrite <- jt_sorted_clockwise_tr. apply jt_sorted_clockwise_within. exact H2.
Qed.

(* C07 for stroked / filled triangles from input bounds alone *)
Lemma jt_pixels_tr_range V d t w al fill : range_ok V w -> tri_within V t -> tri_within V (tr_tri d t) ->
  jt_pixels (tr_tri d t) w al fill = option_map (map (tr_pc d)) (jt_pixels t w al fill).
Proof. intros R H1 H2. destruct (tri_hyps_range V w al d t R H1 H2) as [A [B C]]. apply jt_pixels_tr; assumption. Qed.

Lemma jt_draw_tr_range V d t w al fill : range_ok V w -> tri_within V t -> tri_within V (tr_tri d t) ->
  jt_draw (tr_tri d t) w al fill = option_map (map (fun rc => (translate_rect (fst rc) d, snd rc))) (jt_draw t w al fill).
Proof. intros R H1 H2. destruct (tri_hyps_range V w al d t R H1 H2) as [A [B C]]. apply jt_draw_tr; assumption. Qed.

Lemma jt_styled_bounding_box_tr_range V d t w al : range_ok V w -> tri_within V t -> tri_within V (tr_tri d t) ->
  jt_styled_bounding_box (tr_tri d t) w al = option_map (fun bb => translate_rect bb d) (jt_styled_bounding_box t w al).
Proof.
  intros R H1 H2. destruct (tri_hyps_range V w al d t R H1 H2) as [A [B C]].
  exact (proj1 (jt_styled_bounding_box_tr d t w al A B C)).
Qed.

Lemma tri_segs_range_some V w so t : range_ok V w -> tri_within V t ->
  exists segs, tri_segs (jt_sorted_clockwise t) w so = Some segs.
Proof.
  intros R H. pose proof (jt_sorted_clockwise_within V t H) as HC.
  destruct (jt_sorted_clockwise t) as [[a b] c]. destruct HC as [Ha [Hb Hc]]. cbn [fst snd] in Ha, Hb, Hc.
  cbn [tri_segs]. rewrite closed_iter_3.
  destruct (lj_from_points_big V w so c a b R Hc Ha Hb) as [[j0 [-> _]] _].
  destruct (lj_from_points_big V w so a b c R Ha Hb Hc) as [[j1 [-> _]] _].
  destruct (lj_from_points_big V w so b c a R Hb Hc Ha) as [[j2 [-> _]] _]. eexists; reflexivity.
Qed.

(* the styled bounding box of a thick polyline moves with the vertices (input-only form) *)
Lemma poly_thick_bounding_box_tr_range V w d a b r : range_ok V w ->
  Forall (within V) (a :: b :: r) -> Forall (within V) (map (tr_pt d) (a :: b :: r)) ->
  poly_thick_bounding_box (map (tr_pt d) (a :: b :: r)) w =
  option_map (fun bb => translate_rect bb d) (poly_thick_bounding_box (a :: b :: r) w).
Proof.
  intros R F1 F2. apply poly_thick_bounding_box_tr;
    [exact (poly_nosat_range V w d _ R F1 F2) | exact (poly_box_ok_range V w _ R F1) | exact (poly_box_ok_range V w _ R F2)].
Qed.
